/-
  Base definitions shared by every model file.  Core Lean only.
  Limbs are natural numbers below B = 2^64; a limb vector is a `List Nat`, least significant first.
-/
namespace Mpir

/-- Limb radix of the pinned build (64-bit limbs, no nails). -/
def B : Nat := 2 ^ 64

/-- Little-endian value of a limb vector. -/
def val : List Nat → Nat
  | [] => 0
  | x :: xs => x + B * val xs

/-- Every entry is a proper limb. -/
def Limbs (l : List Nat) : Prop := ∀ x ∈ l, x < B

instance (l : List Nat) : Decidable (Limbs l) := by unfold Limbs; infer_instance

/-- The `n` low limbs of a natural number (exactly `n` entries). -/
def toLimbs : Nat → Nat → List Nat
  | 0, _ => []
  | n + 1, v => v % B :: toLimbs n (v / B)

/-- Shortest limb vector of a natural (empty for 0). -/
def natLimbs (v : Nat) : List Nat :=
  if _h : v = 0 then [] else v % B :: natLimbs (v / B)
termination_by v
decreasing_by exact Nat.div_lt_self (Nat.pos_of_ne_zero _h) (by decide)

/-- Strip high zero limbs (what `MPN_NORMALIZE` does to the size). -/
def normalize (l : List Nat) : List Nat :=
  (l.reverse.dropWhile (· == 0)).reverse

def boolToNat (b : Bool) : Nat := if b then 1 else 0

end Mpir
