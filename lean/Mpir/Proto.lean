/-
  Line protocol shared by the C harness and the Lean driver.
  A line is `op tok tok ...`; tokens:
    hex number, optionally signed         1f  -2a  0
    limb vector (hex, least significant first)   [1,ffffffffffffffff]   []
    byte string, hex encoded, prefix `s`  s68656c6c6f   s
  Output lines use the same token syntax.
-/
import Mpir.Base
namespace Mpir

inductive Tok where
  | num : Int → Tok
  | vec : List Nat → Tok
  | str : List UInt8 → Tok
  | err : String → Tok          -- `!name`: exception / monitor outcome
  deriving Repr, BEq, Inhabited

def hexDigit? (c : Char) : Option Nat :=
  if '0' ≤ c ∧ c ≤ '9' then some (c.toNat - '0'.toNat)
  else if 'a' ≤ c ∧ c ≤ 'f' then some (c.toNat - 'a'.toNat + 10)
  else if 'A' ≤ c ∧ c ≤ 'F' then some (c.toNat - 'A'.toNat + 10)
  else none

/-- small chunk (≤ 15 hex digits) -/
def parseHexSmall? (a : Array Char) (lo hi : Nat) : Option Nat :=
  (List.range (hi - lo)).foldl (fun acc i => match acc, hexDigit? (a.getD (lo + i) ' ') with
    | some v, some d => some (v * 16 + d)
    | _, _ => none) (some 0)

/-- divide-and-conquer hex parser: O(n log n) bignum work instead of the quadratic digit-by-digit loop
    (operands of 16 000 limbs occur in the C05 huge-operand runs) -/
def parseHexRange? (a : Array Char) : Nat → Nat → Nat → Option Nat
  | 0, _, _ => none
  | fuel + 1, lo, hi =>
    if hi - lo ≤ 15 then parseHexSmall? a lo hi else
    let mid := lo + (hi - lo) / 2
    match parseHexRange? a fuel lo mid, parseHexRange? a fuel mid hi with
    | some x, some y => some ((x <<< (4 * (hi - mid))) ||| y)
    | _, _ => none

def parseHexNat? (cs : List Char) : Option Nat :=
  if cs.isEmpty then none else
  let a := cs.toArray
  parseHexRange? a 64 0 a.size

def parseBytes? : List Char → Option (List UInt8)
  | [] => some []
  | a :: b :: rest => do
      let x ← hexDigit? a; let y ← hexDigit? b; let r ← parseBytes? rest
      pure (UInt8.ofNat (x * 16 + y) :: r)
  | _ => none

def parseTok? (s : String) : Option Tok :=
  match s.toList with
  | [] => none
  | '!' :: rest => some (Tok.err (String.ofList rest))
  | 's' :: rest => (parseBytes? rest).map Tok.str
  | '[' :: rest =>
      match rest.reverse with
      | ']' :: innerRev =>
          let inner := String.ofList innerRev.reverse
          if inner.isEmpty then some (Tok.vec []) else
          let parts := inner.splitOn ","
          (parts.mapM (fun p => parseHexNat? p.toList)).map Tok.vec
      | _ => none
  | '-' :: rest => (parseHexNat? rest).map (fun n => Tok.num (-(Int.ofNat n)))
  | cs => (parseHexNat? cs).map (fun n => Tok.num (Int.ofNat n))

def hexChar (d : Nat) : Char :=
  if d < 10 then Char.ofNat ('0'.toNat + d) else Char.ofNat ('a'.toNat + d - 10)

def hexSmall (n : Nat) : List Char :=
  let rec go (fuel n : Nat) (acc : List Char) : List Char :=
    match fuel with
    | 0 => acc
    | fuel + 1 => if n = 0 then acc else go fuel (n / 16) (hexChar (n % 16) :: acc)
  go 20 n []

/-- divide-and-conquer hex printer; `digits` = exact number of hex digits to produce (zero padded) -/
def hexPadded : Nat → Nat → Nat → List Char
  | 0, _, _ => []
  | fuel + 1, n, digits =>
    if digits ≤ 15 then
      let cs := hexSmall n
      List.replicate (digits - cs.length) '0' ++ cs
    else
      let lowd := digits / 2
      hexPadded fuel (n >>> (4 * lowd)) (digits - lowd) ++ hexPadded fuel (n &&& ((1 <<< (4 * lowd)) - 1)) lowd

def hexOfNat (n : Nat) : String :=
  if n = 0 then "0" else String.ofList (hexPadded 64 n (n.log2 / 4 + 1))

def hexOfByte (b : UInt8) : String :=
  String.ofList [hexChar (b.toNat / 16), hexChar (b.toNat % 16)]

def Tok.render : Tok → String
  | .num i => if i < 0 then "-" ++ hexOfNat i.natAbs else hexOfNat i.natAbs
  | .vec l => "[" ++ ",".intercalate (l.map hexOfNat) ++ "]"
  | .str bs => "s" ++ String.join (bs.map hexOfByte)
  | .err e => "!" ++ e

def renderLine (ts : List Tok) : String := " ".intercalate (ts.map Tok.render)

def strTok (s : String) : Tok := .str s.toUTF8.toList
def natTok (n : Nat) : Tok := .num (Int.ofNat n)
def boolTok (b : Bool) : Tok := .num (if b then 1 else 0)

/-- A handler gets the op name and parsed tokens; `none` = not mine.  Its answer is compared
    verbatim with the implementation's output line. -/
abbrev Handler := String → List Tok → Option (List Tok)

/-- A predicate handler also sees the implementation's output tokens and returns `none` (not mine),
    `some none` (the property's predicate holds of that output) or `some (some why)`.  Used where the
    property admits more than one correct answer. -/
abbrev PredHandler := String → List Tok → List Tok → Option (Option String)

/-- Stateful handlers (op names start with `@`): the state lives in the driver across lines and is
    re-initialised by `@reset`.  An Ops file defines `def stateful : IO StatefulHandler := mkStateful init step`
    with a pure `step : σ → String → List Tok → Option (σ × List Tok)` (`none` = not mine). -/
structure StatefulHandler where
  reset : IO Unit
  run : String → List Tok → IO (Option (List Tok))

def mkStateful {σ : Type} (init : σ) (step : σ → String → List Tok → Option (σ × List Tok)) :
    IO StatefulHandler := do
  let r ← IO.mkRef init
  pure { reset := r.set init,
         run := fun op toks => do
           match step (← r.get) op toks with
           | some (s', out) => r.set s'; pure (some out)
           | none => pure none }

end Mpir
