/- Driver handlers for C02, mpz layer and multi-limb mpn layer (models: Mpir/Model/DivZ.lean).

   mpz ops carry a leading alias-mode token; variables are N (dividend), D (divisor), Q, R:
     0 all distinct   1 q=N   2 q=D   3 r=N   4 r=D   5 q=N,r=D   6 q=D,r=N
     7 d=N (same variable as dividend and divisor)   8 d=N,q=N   9 d=N,r=N
   (q and r are never the same variable: the manual forbids it.)  In modes 7-9 the divisor token is
   ignored.  Destinations start as freshly initialised (value 0, one limb allocated). -/
import Mpir.Proto
import Mpir.Model.DivZ
import Mpir.Model.SbDiv
namespace Mpir.Ops.DivZ
open Mpir Mpir.DivZ

/-- (n, d, q, r) variable ids for an alias mode -/
def ids : Int → Option (Nat × Nat × Nat × Nat)
  | 0 => some (0, 1, 2, 3) | 1 => some (0, 1, 0, 3) | 2 => some (0, 1, 1, 3)
  | 3 => some (0, 1, 2, 0) | 4 => some (0, 1, 2, 1) | 5 => some (0, 1, 0, 1)
  | 6 => some (0, 1, 1, 0) | 7 => some (0, 0, 2, 3) | 8 => some (0, 0, 0, 3)
  | 9 => some (0, 0, 2, 0) | _ => none

def store0 (n d : Int) : Store := fun i => if i = 0 then n else if i = 1 then d else 0

/-- modes in which only `q` (resp. only `r`) is a destination -/
def qModes : List Int := [0, 1, 2, 7, 8]
def rModes : List Int := [0, 3, 4, 7, 9]

def opQR (f : Store → Nat → Nat → Nat → Nat → Except String Store) (m n d : Int) : Option (List Tok) :=
  match ids m with
  | none => none
  | some (vn, vd, vq, vr) =>
    match f (store0 n d) vq vr vn vd with
    | .error e => some [.err e]
    | .ok s => some [.num (s vq), .num (s vr)]

def opQ (f : Store → Nat → Nat → Nat → Except String Store) (m n d : Int) : Option (List Tok) :=
  if ¬ qModes.contains m then none else
  match ids m with
  | none => none
  | some (vn, vd, vq, _) =>
    match f (store0 n d) vq vn vd with
    | .error e => some [.err e]
    | .ok s => some [.num (s vq)]

def opR (f : Store → Nat → Nat → Nat → Except String Store) (m n d : Int) : Option (List Tok) :=
  if ¬ rModes.contains m then none else
  match ids m with
  | none => none
  | some (vn, vd, _, vr) =>
    match f (store0 n d) vr vn vd with
    | .error e => some [.err e]
    | .ok s => some [.num (s vr)]

/-- `_ui` forms: modes 0, 1 (q=N), 3 (r=N) -/
def opQui (dir : Int) (m n u : Int) : Option (List Tok) :=
  if ¬ [0, 1].contains m ∨ u < 0 ∨ u ≥ B then none else
  match ids m with
  | none => none
  | some (vn, _, vq, _) =>
    match div_q_ui dir (store0 n 0) vq vn u.toNat with
    | .error e => some [.err e]
    | .ok (s, ret) => some [.num (s vq), natTok ret]

def opRui (dir : Int) (m n u : Int) : Option (List Tok) :=
  if ¬ [0, 3].contains m ∨ u < 0 ∨ u ≥ B then none else
  match ids m with
  | none => none
  | some (vn, _, _, vr) =>
    match div_r_ui dir (store0 n 0) vr vn u.toNat with
    | .error e => some [.err e]
    | .ok (s, ret) => some [.num (s vr), natTok ret]

def opQRui (dir : Int) (m n u : Int) : Option (List Tok) :=
  if ¬ [0, 1, 3].contains m ∨ u < 0 ∨ u ≥ B then none else
  match ids m with
  | none => none
  | some (vn, _, vq, vr) =>
    match div_qr_ui dir (store0 n 0) vq vr vn u.toNat with
    | .error e => some [.err e]
    | .ok (s, ret) => some [.num (s vq), .num (s vr), natTok ret]

def opUi (dir : Int) (n u : Int) : Option (List Tok) :=
  if u < 0 ∨ u ≥ B then none else
  match div_ui dir n u.toNat with
  | .error e => some [.err e]
  | .ok ret => some [natTok ret]

/-- `_2exp` forms: mode 0 or "destination is N" (1 for q forms, 3 for r forms) -/
def op2exp (alias : Int) (f : Store → Nat → Nat → Nat → Except String Store) (m n c : Int) : Option (List Tok) :=
  if ¬ [0, alias].contains m ∨ c < 0 then none else
  let w := if m = 0 then 2 else 0
  match f (store0 n 0) w 0 c.toNat with
  | .error e => some [.err e]
  | .ok s => some [.num (s w)]

/-- mpn-level ops -/
private def qrq : Option (List Nat × List Nat × Nat) → Option (List Tok)
  | some (q, r, qh) => some [.vec q, .vec r, natTok qh]
  | none => none

def handleN : Handler
  | "mpn_tdiv_qr", [.vec n, .vec d] =>
      if d.isEmpty then some [.err "div0"] else
      (mpnTdivQr n d).map (fun (q, r) => [.vec q, .vec r])
  | "mpn_tdiv_q", [.vec n, .vec d] => (mpnTdivQ n d).map (fun q => [.vec q])
  | "mpn_divrem", [.vec n, .vec d, .num qxn] => qrq (mpnDivrem n d qxn.toNat)
  | "mpn_sb_div_qr", [.vec n, .vec d] =>
      -- limb-level model Mpir.SbDiv.sb_div_qr (proved: MpirProofs/Props/C02_sb.lean), dinv by the model of mpir_invert_pi1;
      -- `!modelspec` if it ever differed from the quotient/remainder contract
      if ¬ normalised d ∨ d.length < 3 ∨ n.length < d.length then none else
      let dn := d.length
      let (q, r, qh) := Mpir.SbDiv.sb_div_qr n d (Mpir.DivWord.invert_pi1 (d.getD (dn - 1) 0) (d.getD (dn - 2) 0))
      let out := [Tok.vec q, .vec r, natTok qh]
      if some (q, r, qh) == mpnDivQr 3 0 n d then some out else some (out ++ [.err "modelspec"])
  | "mpn_dc_div_qr", [.vec n, .vec d] => qrq (mpnDivQr 6 3 n d)
  | "mpn_inv_div_qr", [.vec n, .vec d] => qrq (mpnDivQr 6 3 n d)
  | "mpn_sb_bdiv_q", [.vec n, .vec d] => (mpnSbBdivQ n d).map (fun (q, w) => [.vec q, .vec w])
  | "mpn_dc_bdiv_qr", [.vec n, .vec d] => qrq (mpnBdivQr n d)
  | "mpn_divexact", [.vec n, .vec d] => (mpnDivexact n d).map (fun q => [.vec q])
  | _, _ => none

/-- the `divappr_q` functions may return ⌊n/d⌋ or ⌊n/d⌋+1: predicate ops -/
def pred : PredHandler
  | op, [.vec n, .vec d], out =>
      if op = "mpn_sb_divappr_q" ∨ op = "mpn_dc_divappr_q" ∨ op = "mpn_inv_divappr_q" then
        if ¬ normalised d ∨ n.length < d.length then none else
        match out with
        | [.vec q, .num qh] =>
            if qh < 0 then some (some "negative qh")
            else if divapprOk n d q qh.toNat then some none
            else some (some "quotient is neither floor(n/d) nor floor(n/d)+1")
        | _ => some (some "unexpected output shape")
      else none
  | _, _, _ => none

def thrModexact : Nat := 0  -- MODEXACT_1_ODD_THRESHOLD of the pinned build ("always"); the value does not change any answer

def handle : Handler
  | "mpz_tdiv_qr", [.num m, .num n, .num d] => opQR tdiv_qr m n d
  | "mpz_fdiv_qr", [.num m, .num n, .num d] => opQR fdiv_qr m n d
  | "mpz_cdiv_qr", [.num m, .num n, .num d] => opQR cdiv_qr m n d
  | "mpz_tdiv_q", [.num m, .num n, .num d] => opQ tdiv_q m n d
  | "mpz_fdiv_q", [.num m, .num n, .num d] => opQ fdiv_q m n d
  | "mpz_cdiv_q", [.num m, .num n, .num d] => opQ cdiv_q m n d
  | "mpz_tdiv_r", [.num m, .num n, .num d] => opR tdiv_r m n d
  | "mpz_fdiv_r", [.num m, .num n, .num d] => opR fdiv_r m n d
  | "mpz_cdiv_r", [.num m, .num n, .num d] => opR cdiv_r m n d
  | "mpz_mod", [.num m, .num n, .num d] => opR DivZ.mod m n d
  | "mpz_divexact", [.num m, .num n, .num d] => opQ divexact m n d
  | "mpz_tdiv_q_ui", [.num m, .num n, .num u] => opQui 0 m n u
  | "mpz_fdiv_q_ui", [.num m, .num n, .num u] => opQui (-1) m n u
  | "mpz_cdiv_q_ui", [.num m, .num n, .num u] => opQui 1 m n u
  | "mpz_tdiv_r_ui", [.num m, .num n, .num u] => opRui 0 m n u
  | "mpz_fdiv_r_ui", [.num m, .num n, .num u] => opRui (-1) m n u
  | "mpz_cdiv_r_ui", [.num m, .num n, .num u] => opRui 1 m n u
  | "mpz_tdiv_qr_ui", [.num m, .num n, .num u] => opQRui 0 m n u
  | "mpz_fdiv_qr_ui", [.num m, .num n, .num u] => opQRui (-1) m n u
  | "mpz_cdiv_qr_ui", [.num m, .num n, .num u] => opQRui 1 m n u
  | "mpz_tdiv_ui", [.num n, .num u] => opUi 0 n u
  | "mpz_fdiv_ui", [.num n, .num u] => opUi (-1) n u
  | "mpz_cdiv_ui", [.num n, .num u] => opUi 1 n u
  | "mpz_mod_ui", [.num m, .num n, .num u] => opRui (-1) m n u        -- mpir.h: #define mpz_mod_ui mpz_fdiv_r_ui
  | "mpz_divexact_ui", [.num m, .num n, .num u] =>
      if ¬ [0, 1].contains m ∨ u < 0 ∨ u ≥ B then none else
      let w := if m = 0 then 2 else 0
      (match divexact_ui (store0 n 0) w 0 u.toNat with
       | .error e => some [.err e]
       | .ok s => some [.num (s w)])
  | "mpz_tdiv_q_2exp", [.num m, .num n, .num c] => op2exp 1 (fun s w u c => .ok (tdiv_q_2exp s w u c)) m n c
  | "mpz_fdiv_q_2exp", [.num m, .num n, .num c] => op2exp 1 (fun s w u c => .ok (fdiv_q_2exp s w u c)) m n c
  | "mpz_cdiv_q_2exp", [.num m, .num n, .num c] => op2exp 1 (fun s w u c => .ok (cdiv_q_2exp s w u c)) m n c
  | "mpz_tdiv_r_2exp", [.num m, .num n, .num c] => op2exp 3 (fun s w u c => .ok (tdiv_r_2exp s w u c)) m n c
  | "mpz_fdiv_r_2exp", [.num m, .num n, .num c] => op2exp 3 fdiv_r_2exp m n c
  | "mpz_cdiv_r_2exp", [.num m, .num n, .num c] => op2exp 3 cdiv_r_2exp m n c
  | "mpz_divisible_p", [.num a, .num d] => some [boolTok (divisible_p a d)]
  | "mpz_divisible_ui_p", [.num a, .num d] =>
      if d < 0 ∨ d ≥ B then none else some [boolTok (divisible_ui_p thrModexact a d.toNat)]
  | "mpz_divisible_2exp_p", [.num a, .num d] =>
      if d < 0 then none else some [boolTok (divisible_2exp_p a d.toNat)]
  | "mpz_congruent_p", [.num a, .num c, .num d] => some [boolTok (congruent_p thrModexact a c d)]
  | "mpz_congruent_ui_p", [.num a, .num c, .num d] =>
      if c < 0 ∨ c ≥ B ∨ d < 0 ∨ d ≥ B then none else some [boolTok (congruent_ui_p thrModexact a c.toNat d.toNat)]
  | "mpz_congruent_2exp_p", [.num a, .num c, .num d] =>
      if d < 0 then none else some [boolTok (congruent_2exp_p a c d.toNat)]
  | op, args => handleN op args

end Mpir.Ops.DivZ
