/- Driver handlers for the `rootrem` part of C09: the internals of mpn_rootrem.
   `mpn_rootrem_basecase [u] k` is answered by the MODEL (Mpir/Model/Rootrem.lean: root limbs, remainder limbs,
   returned size); `!abort` where the model says the C leaves the modelled domain (an ASSERT_ALWAYS fires).  The
   model's answer is also asserted equal to the specification `iroot` (`!modelspec`). -/
import Mpir.Proto
import Mpir.Model.Rootrem
namespace Mpir.Ops.Rootrem
open Mpir Mpir.Root Mpir.Rootrem

private def chk (ok : Bool) (out : List Tok) : List Tok := if ok then out else out ++ [.err "modelspec"]

def handle : Handler
  | "mpn_rootrem_basecase", [.vec u, .num k] =>
      let a := val u
      let k := k.toNat
      match Rootrem.rootremBasecase a k with
      | none => some [.err "abort"]
      | some (x, r) =>
          let t := irootFast k a
          let rl := natLimbs r
          -- the C writes xn limbs of root when the Newton path is taken, 1 limb on the root-is-1 exit
          let xnb := (bitLen a - 1) / k + 1
          let xn := (xnb + 63) / 64
          some (chk (x == t && r == a - powS t k) [.vec (toLimbs xn x), .vec rl, natTok rl.length])
  | _, _ => none

end Mpir.Ops.Rootrem
