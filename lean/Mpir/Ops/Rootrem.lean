/- Driver handlers for the `rootrem` part of C09: the internals of mpn_rootrem.
   `mpn_rootrem_basecase [u] k` is answered by the MODEL (Mpir/Model/Rootrem.lean: root limbs, remainder limbs,
   returned size); `!abort` where the model says the C leaves the modelled domain (an ASSERT_ALWAYS fires).  The
   model's answer is also asserted equal to the specification `iroot` (`!modelspec`).
   `mpn_rootrem_i [u] k` / `mpn_rootrem_i_norem [u] k`: mpn_rootrem answered by the dispatcher model `Rootrem.rootrem`
   (mpn_rootrem_internal is static: reached with un >= ROOTREM_THRESHOLD). -/
import Mpir.Proto
import Mpir.Model.Rootrem
import Mpir.Model.SqrtremLimb
namespace Mpir.Ops.Rootrem
open Mpir Mpir.Root Mpir.Rootrem

private def chk (ok : Bool) (out : List Tok) : List Tok := if ok then out else out ++ [.err "modelspec"]

def handle : Handler
  | "mpn_rootrem_basecase", [.vec u, .num k] =>
      let a := val u
      let k := k.toNat
      match Rootrem.rootremBasecase a k with
      | none => some [.err "abort"]
      | some (x, r) =>
          let t := irootFast k a
          let rl := natLimbs r
          -- the C writes xn limbs of root when the Newton path is taken, 1 limb on the root-is-1 exit
          let xnb := (bitLen a - 1) / k + 1
          let xn := (xnb + 63) / 64
          some (chk (x == t && r == a - powS t k) [.vec (toLimbs xn x), .vec rl, natTok rl.length])
  | "mpn_sqrtrem_dc", [.vec u] =>
      -- LIMB-LEVEL model of mpn_dc_sqrtrem (Model/SqrtremLimb.lean); asserted equal to Nat.sqrt
      let a := val u
      let tn := u.length / 2
      let (s, r) := SqrtL.sqrtremEvenL tn a
      if r < 0 then some [.err "negrem"] else
      let rl := natLimbs r.toNat
      some (chk (s == Nat.sqrt a && r.toNat == a - s * s) [.vec (toLimbs tn s), .vec rl, natTok rl.length])
  | "mpn_rootrem_i", [.vec u, .num k] => rr u k.toNat false
  | "mpn_rootrem_i_norem", [.vec u, .num k] => rr u k.toNat true
  | _, _ => none
where
  /-- mpn_rootrem through the dispatcher MODEL (basecase / padded approximate call / mpn_rootrem_internal) -/
  rr (u : List Nat) (k : Nat) (norem : Bool) : Option (List Tok) :=
    let a := val u
    match Rootrem.rootrem a k (!norem) with
    | none => some [.err "abort"]
    | some (x, r) =>
        let t := irootFast k a
        let rl := natLimbs r
        let tn := (u.length - 1) / k + 1
        let ok := x == t && (if norem then (r == 0) == (a - powS t k == 0) else r == a - powS t k)
        some (chk ok ([.vec (toLimbs tn x)] ++ (if norem then [boolTok (r != 0)] else [.vec rl, natTok rl.length])))

end Mpir.Ops.Rootrem
