/- Driver handlers for C17: import/export, raw and text stream I/O with injected faults.
   Every answer is the model's (Mpir/Model/Io.lean); where a spec exists the handler also asserts
   model == spec at run time and answers `!modelspec` otherwise.  The three mpf text ops are
   predicate ops: digit generation (`mpf_get_str` / `mpf_set_str`) belongs to C06/C13, so the harness
   reports what those returned and the stream-level relation is checked here. -/
import Mpir.Proto
import Mpir.Model.Io
namespace Mpir.Ops.Io
open Mpir Mpir.Io

private def bytesTok (l : List Nat) : Tok := .str (toU8 l)
private def failAt (k : Int) : Option Nat := if k < 0 then none else some k.toNat
private def limit (k : Int) : Option Nat := if k < 0 then none else some k.toNat
private def fresh : Mpz := ⟨1, 0, [0]⟩            -- mpz_init
private def junk0 : Nat → Nat := fun _ => 0
private def cTok (c : Option Nat) : Tok := match c with | none => .num (-1) | some c => natTok c
private def sizeOk (order size endian nails : Int) : Bool :=
  (order == 1 || order == -1) && 1 ≤ size && size ≤ 64 && -1 ≤ endian && endian ≤ 1 && 0 ≤ nails && nails < 8 * size
private def baseOk (b : Int) : Bool := b == 0 || b ≥ 2 || (b ≤ -2 && b ≥ -36)

private def inpRaw (s : Stream) : List Tok :=
  let a := s.avail
  if a.length ≥ 4 ∧ (csizeOf (a.take 4)).natAbs > 1048576 then [.err "toobig"] else
  let (ret, x, _) := mpz_inp_raw fresh s junk0
  if ¬ x.WF then [natTok ret, .err "malformed"]
  else if ret = 0 then [natTok 0, natTok 1] else [natTok ret, .num x.toInt]

def handle : Handler
  | "mpz_export", [.num order, .num size, .num endian, .num nails, .num align, .num x] =>
      if !(sizeOk order size endian nails && -1 ≤ align && align ≤ 7) then none else
      let zl := natLimbs x.natAbs
      let al := if align < 0 then 0 else align.toNat
      let m := mpz_export order size.toNat endian nails.toNat al zl
      let p := mpz_export_ptr order size.toNat endian nails.toNat al zl
      let spec := exportBytes order size.toNat endian nails.toNat x.natAbs
      let cnt := exportCount (8 * size.toNat - nails.toNat) x.natAbs
      if m.1 ≠ cnt ∨ m.2 ≠ spec then some [.err "modelspec"]
      else if p ≠ m then some [.err "layoutptr"]
      else some [natTok m.1, bytesTok m.2]
  | "mpz_import", [.num order, .num size, .num endian, .num nails, .num align, .str data, .num count] =>
      if !(sizeOk order size endian nails && 0 ≤ align && align ≤ 7 && 0 ≤ count) then none else
      let d := ofU8 data
      if d.length ≠ count.toNat * size.toNat then none else
      let m := mpz_import count.toNat order size.toNat endian nails.toNat align.toNat d
      let p := mpz_import_ptr count.toNat order size.toNat endian nails.toNat align.toNat d
      let spec := importValue order size.toNat endian nails.toNat count.toNat d
      if val m ≠ spec then some [.err "modelspec"]
      else if p ≠ m then some [.err "layoutptr"]
      else some [natTok (val m)]
  | "mpz_out_raw", [.num x] =>
      let (ret, s) := mpz_out_raw {} (Mpz.ofInt x)
      if s.out ≠ outRawBytes x then some [.err "modelspec"] else some [natTok ret, bytesTok s.out]
  | "mpz_inp_raw", [.str s] => some (inpRaw ⟨ofU8 s, none⟩)
  | "mpz_inp_raw_trunc", [.str s, .num k] => if k < 0 then none else some (inpRaw ⟨ofU8 s, some k.toNat⟩)
  | "mpz_out_raw_fail", [.num x, .num k] =>
      let (ret, s) := mpz_out_raw (OStream.failing (failAt k)) (Mpz.ofInt x)
      some [natTok ret, natTok (min s.fired 1)]
  | "mpz_out_inp_raw", [.num x] =>
      let (wret, s) := mpz_out_raw {} (Mpz.ofInt x)
      let (rret, y, _) := mpz_inp_raw fresh ⟨s.out, none⟩ junk0
      some [natTok wret, bytesTok s.out, natTok rret, if y.WF then .num y.toInt else .err "malformed"]
  | "mpz_out_str_fail", [.num base, .num x, .num k] =>
      if !baseOk base then none else
      let (ret, s) := mpz_out_str (OStream.failing (failAt k)) base x
      some [natTok ret, natTok (min s.fired 1)]
  | "mpq_out_str_fail", [.num base, .num n, .num d, .num k] =>
      if !baseOk base then none else
      let (ret, s) := mpq_out_str (OStream.failing (failAt k)) base n d
      some [natTok ret, natTok (min s.fired 1)]
  | "gmp_fprintf_fail", [.str pre, .num width, .num base, .num x, .str post, .num k] =>
      if !(0 ≤ width && (base == 10 || base == 16)) then none else
      -- the property's demand: -1 whenever a write failed
      let (ret, fired) := gmpFprintfSpec (failAt k) (ofU8 pre) width.toNat base.toNat x (ofU8 post)
      -- the faithful chunk model of the repaired code must agree with it
      let (mret, ms) := gmpFprintfModel true (OStream.failing (failAt k)) (ofU8 pre) width.toNat base.toNat x (ofU8 post)
      if mret ≠ ret ∨ min ms.fired 1 ≠ fired then some [.err "modelspec"] else some [.num ret, natTok fired]
  | "mpz_inp_str_trunc", [.num base, .str s, .num k] =>
      let (ret, v, r) := mpz_inp_str 7 ⟨ofU8 s, limit k⟩ base
      if ret = 0 then some [natTok 0, natTok 1] else some [natTok ret, .num v, cTok (getc r).1]
  | "mpq_inp_str_trunc", [.num base, .str s, .num k] =>
      let (ret, q, r) := mpq_inp_str (7, 3) ⟨ofU8 s, limit k⟩ base
      if ret = 0 then some [natTok 0, natTok 1] else some [natTok ret, .num q.1, .num q.2, cTok (getc r).1]
  | "mpz_out_inp_str", [.num base, .num x] =>
      if !baseOk base then none else
      let (wret, s) := mpz_out_str {} base x
      let (rret, v, r) := mpz_inp_str 0 ⟨s.out, none⟩ (if base < 0 then -base else base)
      some ([natTok wret, bytesTok s.out, natTok rret] ++
            (if rret = 0 then [natTok 1] else [.num v, cTok (getc r).1]))
  | "mpq_out_inp_str", [.num base, .num n, .num d] =>
      if !baseOk base then none else
      let (wret, s) := mpq_out_str {} base n d
      let (rret, q, r) := mpq_inp_str (0, 1) ⟨s.out, none⟩ (if base < 0 then -base else base)
      some ([natTok wret, bytesTok s.out, natTok rret] ++
            (if rret = 0 then [natTok 1] else [.num q.1, .num q.2, cTok (getc r).1]))
  | _, _ => none

/-! ### predicate ops (mpf text) -/

/-- `a · base^p = b · 2^q` for integers `p`, `q` -/
private def scaledEq (a : Nat) (base : Nat) (p : Int) (b : Nat) (q : Int) : Bool :=
  a * base ^ p.toNat * 2 ^ (-q).toNat == b * 2 ^ q.toNat * base ^ (-p).toNat

/-- value of an mpf `size exp [limbs]` as `(negative, M, k)`: ±M·2^k -/
private def mpfVal (size exp : Int) (limbs : List Nat) : Bool × Nat × Int :=
  (decide (size < 0), val limbs, 64 * (exp - limbs.length))

private def mpfEq (a b : Bool × Nat × Int) : Bool :=
  (a.2.1 == 0 && b.2.1 == 0) || (a.1 == b.1 && scaledEq a.2.1 2 (a.2.2 - b.2.2) b.2.1 0)

/-- `a · b^p` as a fraction -/
private def qOf (a b : Nat) (p : Int) : Nat × Nat := (a * b ^ p.toNat, b ^ (-p).toNat)

/-- parse `[-]0.<digits>(e|@)<exp>`: (negative, digit values, exponent) -/
private def parseMpfText (base : Nat) (t : List Nat) : Option (Bool × List Nat × Int) :=
  let (neg, t) := match t with | 45 :: r => (true, r) | _ => (false, t)
  match t with
  | 48 :: 46 :: r =>
      let big := decide (base > 36)
      let ds := r.takeWhile (fun c => digitValue big c < base ∧ c ≠ 64 ∧ ¬ (base ≤ 10 ∧ c = 101))
      let rest := r.drop ds.length
      match rest with
      | m :: e =>
          if m ≠ (if base ≤ 10 then 101 else 64) then none else
          let (eneg, e) := match e with | 45 :: r => (true, r) | _ => (false, e)
          if e.isEmpty ∨ ¬ e.all (fun c => 48 ≤ c ∧ c ≤ 57) then none else
          let ev : Int := digitsVal 10 (e.map (· - 48))
          some (neg, ds.map (digitValue big), if eneg then -ev else ev)
      | [] => none
  | _ => none

def pred : PredHandler
  | "mpf_out_str_fail", [.num base, .num _nd, .num _prec, .num size, .num _exp, .vec _limbs, .num k], impl =>
      match impl with
      | [.num ret, .num fired, .str digits, .num e] =>
          let ds := ofU8 digits
          let (r, s) := mpf_out_str (OStream.failing (failAt k)) base ds e
          if (ds.head? == some 45) != decide (size < 0) then some (some "sign of mpf_get_str digits")
          else if r ≠ ret then some (some s!"return value: model {r}")
          else if ((min s.fired 1 : Nat) : Int) ≠ fired then some (some s!"faults fired: model {s.fired}")
          else if fired ≠ 0 ∧ ret ≠ 0 then some (some "write failed but result is not 0")
          else some none
      | _ => some (some "unexpected output shape")
  | "mpf_inp_str_trunc", [.num _base, .num _prec, .str s, .num k], impl =>
      let a := (Stream.mk (ofU8 s) (limit k)).avail
      match impl with
      | .num ret :: .num res :: rest =>
          let want := mpf_inp_str_ret a res
          if ret ≠ want then some (some s!"return value: model {want}") else
          if ret = 0 then
            (match rest with
             | [.num 1] => if res = 0 then some (some "mpf_set_str accepted but inp_str returned 0") else some none
             | [.num 1, _, _, _] => some (some "mpf_set_str accepted but inp_str returned 0")
             | _ => some (some "destination not well formed after failure"))
          else
            (match rest with
             | [a1, a2, a3, b1, b2, b3] =>
                 if res ≠ 0 then some (some "mpf_set_str rejected but inp_str succeeded")
                 else if [a1, a2, a3] == [b1, b2, b3] then some none else some (some "value differs from mpf_set_str on the token")
             | _ => some (some "unexpected output shape"))
      | _ => some (some "unexpected output shape")
  | "mpf_out_inp_str", [.num base, .num nd, .num prec, .num size, .num exp, .vec limbs], impl =>
      match impl with
      | [.num wret, .str text, .num rret, .num size', .num exp', .vec limbs'] =>
          let t := ofU8 text
          let b := if base = 0 then 10 else base.natAbs
          if wret ≠ t.length then some (some "out_str byte count") else
          if rret ≠ wret then some (some "inp_str byte count differs from out_str's") else
          match parseMpfText b t with
          | none => some (some "output is not [-]0.<digits>(e|@)<exp>")
          | some (neg, ds, e) =>
              let orig := mpfVal size exp limbs
              let back := mpfVal size' exp' limbs'
              let D := digitsVal b ds
              -- text denotes ±D·b^(e - #digits); as a fraction
              let tq := qOf D b (e - ds.length)
              let oq := qOf orig.2.1 2 orig.2.2
              let exact := tq.1 * oq.2 == oq.1 * tq.2
              -- digits the call must deliver: min (n_digits, what the precision carries), manual of mpf_out_str
              let maxd := ((((prec.toNat - 1) * 64 : Nat).toFloat * Float.log 2 / Float.log b.toFloat).floor).toUInt64.toNat
              let dd := if nd = 0 then maxd else min nd.toNat maxd
              let errq := qOf 1 b (e - dd)
              let diff := (tq.1 * oq.2 : Int) - (oq.1 * tq.2 : Int)
              if orig.2.1 ≠ 0 ∧ neg ≠ orig.1 then some (some "sign")
              else if diff.natAbs * errq.2 > errq.1 * (tq.2 * oq.2) then some (some "printed value is further than one unit of the last requested digit from the operand")
              else if exact ∧ ¬ mpfEq orig back then some (some "exact text did not read back to the same value")
              else some none
      | _ => some (some "unexpected output shape")
  | _, _, _ => none

end Mpir.Ops.Io
