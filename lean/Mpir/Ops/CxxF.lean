/- `cxx_evalf s<prefix syntax> z0 z1 z2 z3 q0n q0d q1n q1d q2n q2d f0m f0e f0p f1m f1e f1p f2m f2e f2p leaf…`
   Statements over mpf_class (and mpz_class / mpq_class) variables.  The syntax is that of `cxx_eval`
   (Ops/Cxx.lean) with the variables `fK`, the unary functions `trunc floor ceil`, the binary function
   `hypot`, the target types `z q f` and `incr <preinc|predec|postinc|postdec> f K`.
   An mpf variable is given as (mantissa, binary exponent, precision in bits) and built exactly as the
   generated program builds it: `mpf_set_prec; mpf_set_z; mpf_mul_2exp / mpf_div_2exp` (bit-exact model).

   Answer (bit-exact): for an mpf result `mant s prec n` = the signed integer formed by the limbs with the
   low zero limbs stripped, the exponent (in limbs) of its lowest kept limb, `_mp_prec`, and `|_mp_size|`;
   `hex` for mpz, `num den` for mpq, an int for comparisons; `!fpe` when an MPIR exception is raised.
   The answer is that of `execTmpF` (evaluation into temporaries at the precisions the rule gives); it is
   cross-checked against the model of the template strategy `execF` (both answers of
   `__builtin_constant_p`), a difference prints `!strategy`. -/
import Mpir.Proto
import Mpir.Model.CxxF
import Mpir.Ops.Cxx
namespace Mpir.Ops.CxxF
open Mpir Mpir.Cxx Mpir.CxxF Mpir.Mpf

/-- untyped parse tree -/
inductive PT where
  | var (t : Char) (i : Nat)
  | un (o : String) (a : PT)
  | bin (o : String) (a b : PT)
  | binL (o : String) (c : Bi) (b : PT)
  | binR (o : String) (a : PT) (c : Bi)
  | sh (o : Sh) (a : PT) (n : Nat)
  deriving Inhabited

inductive PO where
  | ex (t : PT)
  | bi (c : Bi)

def PT.hasF : PT → Bool
  | .var t _ => t == 'f'
  | .un _ a => a.hasF
  | .bin _ a b => a.hasF || b.hasF
  | .binL _ _ b => b.hasF
  | .binR _ a _ => a.hasF
  | .sh _ a _ => a.hasF

def varOf (s : String) : Option PT :=
  match s.toList with
  | [t, c] => if (t == 'z' || t == 'q' || t == 'f') ∧ '0' ≤ c ∧ c ≤ '9' then some (.var t (c.toNat - '0'.toNat)) else none
  | ['q', t, c] =>        -- `qnK` / `qdK`: accessor sub-objects `Q[K].get_num()` / `Q[K].get_den()` (kept as `.var 'n' K` / `.var 'd' K`)
    if (t == 'n' || t == 'd') ∧ '0' ≤ c ∧ c ≤ '9' then some (.var t (c.toNat - '0'.toNat)) else none
  | _ => none

def isUn (s : String) : Bool := ["pos", "neg", "com", "abs", "sqrt", "trunc", "floor", "ceil"].contains s
def isBin (s : String) : Bool := ["add", "sub", "mul", "div", "mod", "and", "ior", "xor", "gcd", "lcm", "hypot"].contains s

open Mpir.Ops.Cxx (PS biOf shOf cmpOf nums mkEnv mkHeap)

mutual
def parseOpnd : Nat → PS → Option (PO × PS)
  | 0, _ => none
  | fuel + 1, ps =>
    match ps.toks with
    | k :: rest =>
      if k = "i" ∨ k = "u" ∨ k = "d" then
        match ps.leaves with
        | v :: ls => (biOf k v).map fun b => (.bi b, { toks := rest, leaves := ls })
        | [] => none
      else (parseTree fuel ps).map fun (e, ps') => (.ex e, ps')
    | [] => none
def parseTree : Nat → PS → Option (PT × PS)
  | 0, _ => none
  | fuel + 1, ps =>
    match ps.toks with
    | [] => none
    | k :: rest =>
      let ps1 : PS := { ps with toks := rest }
      match varOf k with
      | some e => some (e, ps1)
      | none =>
      if isUn k then (parseTree fuel ps1).map fun (a, ps2) => (.un k a, ps2)
      else if isBin k then
        (parseOpnd fuel ps1).bind fun (a, ps2) => (parseOpnd fuel ps2).bind fun (b, ps3) =>
          match a, b with
          | .ex a, .ex b => some (.bin k a b, ps3)
          | .bi c, .ex b => some (.binL k c b, ps3)
          | .ex a, .bi c => some (.binR k a c, ps3)
          | .bi _, .bi _ => none
      else match shOf k with
      | some o =>
        (parseTree fuel ps1).bind fun (a, ps2) =>
          match ps2.toks, ps2.leaves with
          | "n" :: r, v :: ls => if v < 0 then none else some (.sh o a v.toNat, { toks := r, leaves := ls })
          | _, _ => none
      | none => none
end

/-- an mpz/mpq-typed tree -/
def elabE : PT → Option E
  | .var 'z' i => some (.zv i)
  | .var 'q' i => some (.qv i)
  | .var 'n' i => some (.zn i)
  | .var 'd' i => some (.zd i)
  | .var _ _ => none
  | .un o a => do let o ← Mpir.Ops.Cxx.unOf o; let a ← elabE a; pure (.un o a)
  | .bin o a b => do let o ← Mpir.Ops.Cxx.binOf o; let a ← elabE a; let b ← elabE b; pure (.bin o a b)
  | .binL o c b => do let o ← Mpir.Ops.Cxx.binOf o; let b ← elabE b; pure (.binL o c b)
  | .binR o a c => do let o ← Mpir.Ops.Cxx.binOf o; let a ← elabE a; pure (.binR o a c)
  | .sh o a n => do let a ← elabE a; pure (.sh o a n)

def fUnOf : String → Option FUn
  | "pos" => some .pos | "neg" => some .neg | "abs" => some .abs | "sqrt" => some .sqrt
  | "trunc" => some .trunc | "floor" => some .floor | "ceil" => some .ceil | _ => none

def fBinOf : String → Option FBin
  | "add" => some .add | "sub" => some .sub | "mul" => some .mul | "div" => some .div | "hypot" => some .hypot
  | _ => none

/-- any tree as an operand of the mpf world: a sub-tree without mpf_class leaves is an mpz/mpq expression -/
def elabF (t : PT) : Option FE :=
  if !t.hasF then (elabE t).map .zq else
  match t with
  | .var _ i => some (.fv i)
  | .un o a => do let o ← fUnOf o; let a ← elabF a; pure (.un o a)
  | .bin o a b => do let o ← fBinOf o; let a ← elabF a; let b ← elabF b; pure (.bin o a b)
  | .binL o c b => do let o ← fBinOf o; let b ← elabF b; pure (.binL o c b)
  | .binR o a c => do let o ← fBinOf o; let a ← elabF a; pure (.binR o a c)
  | .sh o a n => do let a ← elabF a; pure (.sh o a n)

def elabOpnd : PO → Option FOpnd
  | .ex t => (elabF t).map .ex
  | .bi c => some (.bi c)

def parseStmt (ps : PS) : Option (FStmt × PS) :=
  let fuel := ps.toks.length + 1
  match ps.toks with
  | "=" :: t :: i :: rest => do
      let i ← i.toNat?
      let (e, ps') ← parseTree fuel { ps with toks := rest }
      let e ← elabF e
      match t with
      | "f" => pure (.assignF i e, ps')
      | "z" => pure (.assignZQ .z i e, ps')
      | "q" => pure (.assignZQ .q i e, ps')
      | _ => none
  | "new" :: t :: rest => do
      let (e, ps') ← parseTree fuel { ps with toks := rest }
      let e ← elabF e
      match t with
      | "f" => pure (.initF e, ps')
      | "z" => pure (.initZQ .z e, ps')
      | "q" => pure (.initZQ .q e, ps')
      | _ => none
  | "op=" :: o :: "f" :: i :: rest => do
      let o ← fBinOf o; let i ← i.toNat?
      let (r, ps') ← parseOpnd fuel { ps with toks := rest }
      let r ← elabOpnd r
      pure (.compound o i r, ps')
  | "sh=" :: o :: "f" :: i :: "n" :: rest => do
      let o ← shOf o; let i ← i.toNat?
      match ps.leaves with
      | v :: ls => if v < 0 then none else pure (.compoundSh o i v.toNat, { toks := rest, leaves := ls })
      | [] => none
  | "incr" :: o :: "f" :: i :: rest => do
      let i ← i.toNat?
      let dec ← (match o with | "preinc" | "postinc" => some false | "predec" | "postdec" => some true | _ => none)
      pure (.incr dec i, { ps with toks := rest })
  | "cmp" :: o :: rest => do
      let o ← cmpOf o
      let (a, ps1) ← parseOpnd fuel { ps with toks := rest }
      let (b, ps2) ← parseOpnd fuel ps1
      let a ← elabOpnd a; let b ← elabOpnd b
      pure (.cmp o a b, ps2)
  | "sgn" :: rest => do
      let (e, ps') ← parseTree fuel { ps with toks := rest }
      let e ← elabF e
      pure (.sgn e, ps')
  | _ => none

/-- the generated program's `setenv_vs`: `mpf_set_prec(f, p); mpf_set_z(f, m); mpf_mul_2exp / mpf_div_2exp(f, f, |e|)` -/
def mkF (m e p : Int) : F :=
  let P := BITS_TO_PREC p.toNat
  let f := set_z P m
  if e ≥ 0 then mul_2exp P f e.toNat else div_2exp P f (-e).toNat

def fToks (x : F) : List Tok :=
  let d := stripLow x.d
  let m : Int := Int.ofNat (val d)
  if d.isEmpty then [.num 0, .num 0, .num (Int.ofNat x.prec), .num x.size.natAbs]
  else [.num (if x.size < 0 then -m else m), .num (x.exp - Int.ofNat x.d.length), .num (Int.ofNat x.prec), .num x.size.natAbs]

def resToks : FRes → List Tok
  | .f x => fToks x
  | .z v => [.num v]
  | .q r => [.num r.num, .num (Int.ofNat r.den)]
  | .int v => [.num v]

/-- `mpf_get_default_prec()` of the generated programs (never changed) -/
def dflt : Nat := 64

def strategyOk (zh : Heap) (fh : FHeap) (s : FStmt) : Bool :=
  [false, true].all fun c =>
    match execF c 4 zh dflt 3 fh s, execTmpF dflt zh.abs fh.get s with
    | some (r, h'), some r' =>
      r == r' &&
      -- every variable other than the target is unchanged
      ([0, 1, 2].all fun j => (match s with
          | .assignF i _ | .compound _ i _ | .compoundSh _ i _ | .incr _ i => j == i
          | _ => false) || h'.get j == fh.get j)
    | none, none => true
    | _, _ => false

def handle : Handler
  | "cxx_evalf", .str bs :: rest =>
    match nums rest with
    | none => some [.err "args"]
    | some (z0 :: z1 :: z2 :: z3 :: a :: b :: c :: d :: e :: f ::
            m0 :: e0 :: p0 :: m1 :: e1 :: p1 :: m2 :: e2 :: p2 :: leaves) =>
      if b ≤ 0 ∨ d ≤ 0 ∨ f ≤ 0 ∨ p0 < 0 ∨ p1 < 0 ∨ p2 < 0 then some [.err "args"] else
      let src := String.ofList (bs.map fun u => Char.ofNat u.toNat)
      let toks := (src.splitOn " ").filter (· ≠ "")
      match parseStmt { toks := toks, leaves := leaves } with
      | some (s, { toks := [], leaves := [] }) =>
        if !s.wt then some [.err "illtyped"] else
        let zh := mkHeap [z0, z1, z2, z3] [(a, b), (c, d), (e, f)]
        let fs := [mkF m0 e0 p0, mkF m1 e1 p1, mkF m2 e2 p2]
        let fh : FHeap := ⟨fun i => fs.getD i (Mpf.zero 2)⟩
        if !strategyOk zh fh s then some [.err "strategy"] else
        match execTmpF dflt zh.abs fh.get s with
        | none => some [.err "fpe"]
        | some r => some (resToks r)
      | _ => some [.err "syntax"]
    | some _ => some [.err "args"]
  | _, _ => none

end Mpir.Ops.CxxF
