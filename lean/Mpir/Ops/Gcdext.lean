/- Driver handlers for the cofactor layer of C07 (models in Mpir/Model/Gcdext.lean).
   `handle`: exact comparison of {gp, gn}, *usize, {up, |*usize|} resp. of the updated cofactor buffers;
   `pred` (`mpn_gcdext_sz_p`): the contract proved in Props/C07_gcdext.lean evaluated on the implementation's output. -/
import Mpir.Proto
import Mpir.Model.Gcdext
import Mpir.Ops.Hgcd
namespace Mpir.Ops.Gcdext
open Mpir Mpir.Gcd Mpir.Hgcd Mpir.Gcdext

private def isUlong (x : Int) : Bool := 0 ≤ x ∧ x < 2 ^ 64
private def topNz (a : List Nat) : Bool := a.getLast?.getD 0 != 0

private def finToks (r : Fin) (n : Nat) : List Tok :=
  if r.gn < 1 ∨ r.gn > n ∨ r.usize.natAbs > n + 1 then [natTok r.gn, .err "size"]
  else [natTok r.gn, .vec (toLimbs r.gn r.g), .num r.usize, .vec (toLimbs r.usize.natAbs r.up)] ++ (if r.ok then [] else [.err "oob"])

def handle : Handler
  | "mpn_gcdext_hook_q", [.num ualloc, .vec u0, .vec u1, .vec q, .num d] =>
      let un := u0.length; let qn := q.length
      if isUlong ualloc ∧ un ≥ 1 ∧ u1.length = un ∧ qn ≥ 1 ∧ ualloc ≤ 100000 ∧ un + qn + 1 ≤ ualloc.toNat ∧ (0 ≤ d ∧ d ≤ 1)
          ∧ val q ≠ 0 ∧ nlimbs (val q) + 1 ≥ qn then
        let c := hookQS ualloc.toNat ⟨val u0, val u1, un, true⟩ (val q, decide (d = 1))
        if c.un < 1 ∨ c.un > ualloc.toNat then some [natTok c.un, .err "size"]
        else some ([natTok c.un, .vec (toLimbs c.un c.u0), .vec (toLimbs c.un c.u1)]
                   ++ (if c.u0 / B ^ c.un ≠ 0 ∨ c.u1 / B ^ c.un ≠ 0 then [.err "dirty"] else [])
                   ++ (if c.ok then [] else [.err "oob"]))
      else none
  | "mpn_gcdext_hook_g", [.vec u0, .vec u1, .vec g, .num d] =>
      let un := u0.length; let gn := g.length
      if un ≥ 1 ∧ u1.length = un ∧ gn ≥ 1 ∧ topNz g ∧ (-1 ≤ d ∧ d ≤ 1) then
        let r := hookG ⟨val u0, val u1, un, true⟩ (val g) gn d
        if r.usize.natAbs > un then some [natTok r.gn, .err "size"]
        else some [natTok r.gn, .vec (toLimbs r.gn r.g), .num r.usize, .vec (toLimbs r.usize.natAbs r.up)]
      else none
  | "mpn_gcdext_lehmer_n_sz", [.vec a, .vec b] =>
      let n := a.length
      if b.length = n ∧ n ≥ 1 ∧ (topNz a ∨ topNz b) ∧ val a ≠ 0 ∧ val b ≠ 0 then
        some (finToks (lehmerNS (val a) (val b) n) n)
      else none
  | "mpn_gcdext_sz", [.num t0, .num t1, .num t2, .num t3, .num dc, .vec u, .vec v] =>
      let an := u.length; let n := v.length
      if isUlong t0 ∧ isUlong t1 ∧ isUlong t2 ∧ isUlong t3 ∧ isUlong dc ∧ an ≥ n ∧ n ≥ 1 ∧ topNz u ∧ topNz v then
        let thr : Thr := ⟨t0.toNat, t1.toNat, t2.toNat, t3.toNat⟩
        some (finToks (mpnGcdextS (hgcd thr Mpir.Ops.Hgcd.nextSize) dc.toNat (val u) an (val v) n) n)
      else none
  | _, _ => none

private def bad (s : String) : Option (Option String) := some (some s)
private def ok : Option (Option String) := some none

/-- the contract of mpn_gcdext (Props/C07_gcdext.lean, `GcdextOk`): G = gcd, V ∣ G - U·S, 2·G·|S| < V or
    (S = 1 and V = 2G), sizes normalised, sign of *usize = sign of S. -/
def pred : PredHandler
  | "mpn_gcdext_sz_p", [.num _, .num _, .num _, .num _, .num _, .vec u, .vec v], out =>
      let an := u.length; let n := v.length
      if an ≥ n ∧ n ≥ 1 ∧ topNz u ∧ topNz v then
        match out with
        | [.num gn, .vec g, .num usize, .vec up] =>
            let U := val u; let V := val v; let G := val g; let S : Int := if usize < 0 then -(val up : Int) else val up
            if G ≠ Nat.gcd U V then bad "gcd"
            else if gn ≠ nlimbs G ∨ g.length ≠ nlimbs G then bad "gn"
            else if ((G : Int) - U * S) % V ≠ 0 then bad "identity"
            else if ¬ (2 * G * S.natAbs < V ∨ (S = 1 ∧ V = 2 * G)) then bad "bound"
            else if usize.natAbs ≠ nlimbs (val up) ∨ up.length ≠ nlimbs (val up) then bad "usize"
            else ok
        | _ => bad "shape"
      else none
  | _, _, _ => none

end Mpir.Ops.Gcdext
