/- Driver handlers for property C16, part binsmall: mul1..mul8, the static binomial algorithms (the C side runs them with
   their ASSERTs alive), mpn_divrem_hensel_rsh_qr_1_preinv. -/
import Mpir.Proto
import Mpir.Model.Numth
namespace Mpir.Ops.BinSmall
open Mpir Mpir.Numth

private def isUi (n : Int) : Bool := 0 ≤ n && n < (B : Int)

/-- the value mpn_divrem_hensel_rsh_qr_1_preinv returns (`h + c` after the last limb): with Q the quotient limbs,
    (x >> s) + ret·B^n = Q·d -/
def henselRet (x n d m s : Nat) : Nat :=
  let xs := (x % B ^ n) >>> s
  (henselRshDiv x n d m s * d - xs) / B ^ n

def handle : Handler
  | "bin_mulfunc", [.num w, .num m] =>
      if 1 ≤ w && w ≤ 8 && isUi m then some [natTok (mulfunc w.toNat m.toNat)] else none
  | "bin_alg_assert", [.num alg, .num n, .num k] =>
      if isUi n && isUi k && 2 ≤ k && 2 * k ≤ n then
        let T := Gen.NumthTabs.ODD_FACTORIAL_TABLE_LIMIT
        if alg = 3 then
          if k ≤ T then some [natTok (smallk_bin_uiui n.toNat k.toNat)] else none
        else if alg = 4 then
          if T < k && k ≤ 2 * Gen.NumthTabs.ODD_CENTRAL_BINOMIAL_TABLE_LIMIT && Gen.NumthTabs.ODD_FACTORIAL_EXTTABLE_LIMIT < n then
            some [natTok (smallkdc_bin_uiui 8 n.toNat k.toNat)] else none
        else if alg = 6 then
          if T < k && k ≤ 200000 then
            match bdiv_bin_uiui n.toNat k.toNat with
            | some v => some [natTok v]
            | none => some [natTok (binom n.toNat k.toNat), .err "assert"]
          else none
        else none
      else none
  | "hensel_rsh_preinv", [.vec x, .num d, .num m, .num s] =>
      if x.length ≥ 1 && isUi d && isUi m && 0 ≤ s && s < 64 && d % 2 = 1 && (d.toNat * m.toNat) % B = 1 then
        let n := x.length
        some [.vec (toLimbs n (henselRshDiv (val x) n d.toNat m.toNat s.toNat)), natTok (henselRet (val x) n d.toNat m.toNat s.toNat)]
      else none
  | _, _ => none

end Mpir.Ops.BinSmall
