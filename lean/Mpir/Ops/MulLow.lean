/- Driver handler for mpn_mullow_n (property C01): the value model of Mpir/Model/MulLow.lean with the thresholds of the
   tree under check; answers the low n limbs, flagged `!model` if the model leaves its domain. -/
import Mpir.Proto
import Mpir.Model.MulLow
import Mpir.Gen.Params
namespace Mpir.Ops.MulLow
open Mpir Mpir.MulLow

def P := Mpir.Gen.params

def handle : Handler
  | "mlx_mullow_n", [.vec u, .vec v] =>
      if u.length == v.length && u.length ≥ 1 then
        match mullow_n P.MULLOW_BASECASE_THRESHOLD.toNat P.MULLOW_DC_THRESHOLD.toNat P.MULLOW_MUL_THRESHOLD.toNat
            (val u) (val v) u.length with
        | some r => some [.vec (toLimbs u.length r)]
        | none => some [.err "model"]
      else none
  | _, _ => none

end Mpir.Ops.MulLow
