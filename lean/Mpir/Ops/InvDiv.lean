/- Driver handlers for C02 part c02_inv: the value-level models of mpn_is_invert / mpn_invert (contract) / mpn_inv_div_qr_n
   (Mpir/Model/InvDiv.lean; theorems MpirProofs/Props/C02_inv.lean).  C side: harness/ops_invdiv.c.

     inv_is_invert [xp] [ap]              -> 0/1
     inv_invert [ap]                      -> [xp] 1        the unique X with A·X < B^(2n) ≤ A·(X+1), and mpn_is_invert of it
     inv_div_qr_n [np, 2dn] [dp, dn] [inv, dn] -> [q, dn limbs] [np afterwards, 2dn limbs] ret    (`!invalid` if inv is not the inverse)
     inv_div_qr_n_auto [np] [dp]          -> [inv] then the same, with inv = mpn_invert (dp)
   `!modeldomain` is appended if the model left the ASSERTed domain or the final loop did not end (proved unreachable:
   invDivQrN_exact); `!modelspec` if the answer differed from ⌊n/d⌋, n mod d. -/
import Mpir.Proto
import Mpir.Model.InvDiv
import Mpir.Model.DivZ
namespace Mpir.Ops.InvDiv
open Mpir Mpir.InvDiv

private def divQrN (n d inv : List Nat) : List Tok :=
  let dn := d.length
  if ¬ isInvert dn (val inv) (val d) then [.err "invalid"] else
  let r := invDivQrN dn (val n) (val d) (val inv)
  let out := [Tok.vec (toLimbs dn r.q), .vec (toLimbs (2 * dn) r.r), natTok r.qh]
  let out := if r.ok then out else out ++ [.err "modeldomain"]
  if r.qh * B ^ dn + r.q == val n / val d ∧ r.r == val n % val d then out else out ++ [.err "modelspec"]

def handle : Handler
  | "inv_is_invert", [.vec x, .vec a] =>
      if x.length ≠ a.length ∨ a.length < 1 then none else
      some [natTok (if isInvert a.length (val x) (val a) then 1 else 0)]
  | "inv_invert", [.vec a] =>
      if ¬ DivZ.normalised a then none else
      let x := invertSpec a.length (val a)
      some [.vec (toLimbs a.length x), natTok (if isInvert a.length x (val a) then 1 else 0)]
  | "inv_div_qr_n", [.vec n, .vec d, .vec inv] =>
      if ¬ DivZ.normalised d ∨ n.length ≠ 2 * d.length ∨ inv.length ≠ d.length ∨ FFT_MULMOD_2EXPP1_CUTOFF ≤ d.length + 1 then none else
      some (divQrN n d inv)
  | "inv_div_qr_n_auto", [.vec n, .vec d] =>
      if ¬ DivZ.normalised d ∨ n.length ≠ 2 * d.length ∨ FFT_MULMOD_2EXPP1_CUTOFF ≤ d.length + 1 then none else
      let inv := toLimbs d.length (invertSpec d.length (val d))
      some (Tok.vec inv :: divQrN n d inv)
  | _, _ => none

end Mpir.Ops.InvDiv
