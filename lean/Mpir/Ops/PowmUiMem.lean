/- Driver handler for mpz_powm_ui with the memory-level flags of Mpir/Model/PowmUiMem.lean: the value of the size-aware
   model, and `!oob` if any flag (area bound or kernel operand condition) is false. -/
import Mpir.Proto
import Mpir.Model.PowmUiMem
import Mpir.Model.PowmCrtMem
import Mpir.Ops.PowmLimb
namespace Mpir.Ops.PowmUiMem
open Mpir Mpir.Powm Mpir.PowmUi

def handle : Handler
  | "mpz_powm_ui_m", [.num _, .num b, .num e, .num m] =>
      if e < 0 || e ≥ (B : Int) then none
      else
        let r := mpz_powm_ui b e.toNat m
        let v : List Tok := match r with
          | .div0 => [.err "div0"]
          | .mk rp rn => if r.wf then [natTok (val (rp.take rn))] else [.err "malformed"]
        some (if mpzPowmUiOk b e.toNat m then v else v ++ [.err "oob"])
  | "mpz_powm_m", [.num _, .num b, .num e, .num m] =>
      -- mpz_powm with the index-range flags of its CRT path (Mpir/Model/PowmCrtMem.lean)
      let r := mpz_powm b e m
      let v : List Tok := match r with
        | .div0 => [.err "div0"]
        | .mk rp rn => if r.wf then [natTok (val (rp.take rn))] else [.err "malformed"]
      -- the CRT path with the operands going through the block (powmEvenMemF), junk in the scratch areas
      let memOk : Bool :=
        if e ≥ 2 && b != 0 && m != 0 then
          let mp := natLimbs m.natAbs
          let n := mp.length
          let s := stripM mp
          let nodd := s.2.1; let ncnt := s.2.2.1; let cnt := s.2.2.2
          if ncnt = 0 then true
          else
            let modd := s.1.take nodd
            let bp := natLimbs b.natAbs; let ep := natLimbs e.natAbs
            let rodd := mpn_powm bp ep modd
            let bi := Mpir.Ops.PowmLimb.binvItch ncnt
            Mpir.PowmCrt.powmEvenMemF n bp ep modd nodd ncnt cnt rodd bi (List.replicate (3 * ncnt) (B - 1))
              (List.replicate bi 0x5555) (fun i => (i * 0x9e3779b97f4a7c15) % B) == powmEven n bp ep modd nodd ncnt cnt rodd
        else true
      let v := if memOk then v else v ++ [.err "mem"]
      some (if Mpir.PowmCrt.mpzPowmCrtOk (natLimbs m.natAbs) Mpir.Ops.PowmLimb.binvItch then v else v ++ [.err "oob"])
  | _, _ => none

end Mpir.Ops.PowmUiMem
