/- Driver handlers for property C16 (factorials, binomials, Fibonacci/Lucas, remove, primality).
   Exact ops answer with the MODEL's value; the answer is additionally compared with the SPEC here, and
   a difference is printed as `!model-ne-spec` (which never equals an implementation output), so a run
   establishes implementation = model = definition on every op.
   Primality ops are predicate ops: the property admits several right answers. -/
import Mpir.Proto
import Mpir.Model.Numth
namespace Mpir.Ops.Numth
open Mpir Mpir.Numth

private def chkN (model spec : Nat) : List Tok :=
  if model = spec then [natTok model] else [natTok model, .err "model-ne-spec"]
private def chkZ (model spec : Int) : List Tok :=
  if model = spec then [.num model] else [.num model, .err "model-ne-spec"]
private def isUi (n : Int) : Bool := 0 ≤ n && n < (B : Int)

def handle : Handler
  | "mpz_fac_ui", [.num n] => if isUi n then some (chkN (mpz_fac_ui n.toNat) (factorial n.toNat)) else none
  | "mpz_2fac_ui", [.num n] => if isUi n then some (chkN (mpz_2fac_ui n.toNat) (doubleFactorial n.toNat)) else none
  | "mpz_mfac_uiui", [.num n, .num m] =>
      if isUi n && isUi m then
        -- m = 0 is outside the documented domain (ASSERT (m != 0)); the model mirrors what the code does
        if m = 0 then some [natTok (mpz_mfac_uiui n.toNat 0)]
        else some (chkN (mpz_mfac_uiui n.toNat m.toNat) (multiFactorial n.toNat m.toNat))
      else none
  | "mpz_primorial_ui", [.num n] => if isUi n then some (chkN (mpz_primorial_ui n.toNat) (primorial n.toNat)) else none
  | "mpz_bin_uiui", [.num n, .num k] =>
      if isUi n && isUi k then
        match mpz_bin_uiui n.toNat k.toNat with
        | some v => some (chkN v (binom n.toNat k.toNat))
        | none => some [natTok (binom n.toNat k.toNat), .err "model-assert"]
      else none
  | "mpz_bin_ui", [.num n, .num k] => if isUi k then some (chkZ (mpz_bin_ui n k.toNat) (binomZ n k.toNat)) else none
  | "mpz_fib_ui", [.num n] => if isUi n then some (chkN (mpz_fib_ui n.toNat) (fibSpec n.toNat)) else none
  | "mpz_fib2_ui", [.num n] =>
      if isUi n then
        let p := mpz_fib2_ui n.toNat
        let ok := p.1 = fibSpec n.toNat ∧ p.2 = (if n = 0 then 1 else fibSpec (n.toNat - 1))
        some ([natTok p.1, natTok p.2] ++ (if ok then [] else [.err "model-ne-spec"]))
      else none
  | "mpz_lucnum_ui", [.num n] => if isUi n then some (chkN (mpz_lucnum_ui n.toNat) (lucSpec n.toNat)) else none
  | "mpz_lucnum2_ui", [.num n] =>
      if isUi n then
        let p := mpz_lucnum2_ui n.toNat
        let ok := p.1 = Int.ofNat (lucSpec n.toNat) ∧ p.2 = (if n = 0 then -1 else Int.ofNat (lucSpec (n.toNat - 1)))
        some ([.num p.1, .num p.2] ++ (if ok then [] else [.err "model-ne-spec"]))
      else none
  | "mpn_fib2_ui", [.num n] =>
      if isUi n then
        let (f, f1, size) := mpn_fib2_ui_limbs n.toNat
        let ok := val f = fibSpec n.toNat ∧ val f1 = (if n = 0 then 1 else fibSpec (n.toNat - 1))
        some ([.vec f, .vec f1, natTok size] ++ (if ok then [] else [.err "model-ne-spec"]))
      else none
  | "mpz_remove", [.num x, .num f] =>
      match mpz_remove x f with
      | none => some [.err "fpe"]          -- DIVIDE_BY_ZERO (gmp_errno is not set by __gmp_exception in this build)
      | some (r, c) =>
        let s := removeSpec x f.toNat
        some ([.num r, natTok c] ++ (if r = s.1 ∧ c = s.2 then [] else [.err "model-ne-spec"]))
  | _, _ => none

/-- C16's predicate on a returned primality code `r` for n ≥ 0:
    never 0 for a prime, never 2 for a composite, and (when `strict`) composites must give 0. -/
def codeOk (n : Nat) (r : Int) (codes : List Int) (strict : Bool) : Option String :=
  if !codes.contains r then some "code-out-of-range"
  else if isPrime n then (if r = 0 then some "prime-reported-composite" else none)
  else if r = 2 then some "composite-reported-definitely-prime"
  else if strict && r ≠ 0 then some "composite-not-reported-composite-with-25-or-more-reps"
  else none

/-- C16's predicate for nextprime-like results: r > n and no prime strictly between n and r -/
def nextOk (n : Int) (r : Int) : Option String :=
  if r ≤ n then some "result-not-greater-than-argument"
  else
    let lo := if n < 0 then 0 else n.toNat
    if r.toNat ≤ nextPrime lo then none else some "prime-skipped"

def pred : PredHandler
  | "mpz_probab_prime_p", [.num n, .num reps], [.num r] =>
      if n < 0 then none else some (codeOk n.toNat r [0, 1, 2] (reps ≥ 25))
  | "mpz_probable_prime_p", [.num n, .num prob, .num _], [.num r] =>
      if n < 0 then none else some (codeOk n.toNat r [0, 1] (prob ≥ 25))
  | "mpz_likely_prime_p", [.num n, .num _], [.num r] =>
      if n < 0 then none else some (codeOk n.toNat r [0, 1] false)
  | "mpz_miller_rabin", [.num n, .num _, .num _], [.num r] =>
      if n < 0 then none else some (codeOk n.toNat r [0, 1] false)
  | "mpz_millerrabin", [.num n, .num _], [.num r] =>
      if n < 0 then none else some (codeOk n.toNat r [0, 1] false)
  | "mpz_nextprime", [.num n], [.num r] => some (nextOk n r)
  | "mpz_next_prime_candidate", [.num n, .num _], [.num r] => some (nextOk n r)
  | "mpz_probab_prime_p", _, _ => some (some "unexpected-output")
  | "mpz_probable_prime_p", _, _ => some (some "unexpected-output")
  | "mpz_likely_prime_p", _, _ => some (some "unexpected-output")
  | "mpz_miller_rabin", _, _ => some (some "unexpected-output")
  | "mpz_millerrabin", _, _ => some (some "unexpected-output")
  | "mpz_nextprime", _, _ => some (some "unexpected-output")
  | "mpz_next_prime_candidate", _, _ => some (some "unexpected-output")
  | _, _, _ => none

end Mpir.Ops.Numth
