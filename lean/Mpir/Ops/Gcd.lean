/- Driver handlers for C07 (gcd, gcdext, lcm, invert, Jacobi/Kronecker).
   `handle`: exact comparison with the executable model (ops `*_x` and all single-answer functions);
   the handler also asserts model = specification at run time and answers `!model_ne_spec …` if not.
   `pred`: the property's own acceptance predicate evaluated on the implementation's output. -/
import Mpir.Proto
import Mpir.Model.Gcd
namespace Mpir.Ops.Gcd
open Mpir Mpir.Gcd

private def num (i : Int) : Tok := .num i

/-- model answer, guarded by the run-time assertion model = spec -/
private def chk (model spec : Int) : List Tok :=
  if model = spec then [num model] else [.err "model_ne_spec", num model, num spec]

private def isLong (x : Int) : Bool := -(2 ^ 63 : Int) ≤ x ∧ x < 2 ^ 63
private def isUlong (x : Int) : Bool := 0 ≤ x ∧ x < 2 ^ 64

private def normalized (l : List Nat) : Bool := l.getLast?.any (· != 0)

private def gxModeOk (m : Int) (withT : Bool) : Bool := 0 ≤ m ∧ m < 13 ∧ (withT ∨ m < 5 ∨ m = 7 ∨ m = 8)

/-- walks the Lehmer loop of the mpn_gcd model and checks, on every hgcd2 call it makes, the contract
    assumed by `mpn_gcd_correct_partial` (unimodular, not the identity, M⁻¹(a; b) positive, at most one
    limb lost). -/
def gcdLoopContractOk : Nat → Nat → Nat → Nat → Bool
  | 0, _, _, _ => true
  | f + 1, a, b, n =>
      if n > 2 then
        let t := top2 a b n
        match hgcd2 t.1 t.2.1 t.2.2.1 t.2.2.2 with
        | some m =>
            let a' := m.u11 * a - m.u01 * b
            let b' := m.u00 * b - m.u10 * a
            decide (lehmerOk m a b ∧ (m.u01 ≠ 0 ∨ m.u10 ≠ 0) ∧ 0 < a' ∧ 0 < b' ∧ (B ^ (n - 2) ≤ a' ∨ B ^ (n - 2) ≤ b'))
              && gcdLoopContractOk f a' b' (shrinkN a' b' n)
        | none =>
            let r := subdivStep a b
            match r.fin with
            | some _ => true
            | none => gcdLoopContractOk f r.a r.b r.n
      else true

def handle : Handler
  | "mpz_gcd", [.num m, .num a, .num b] =>
      if 0 ≤ m ∧ m ≤ 2 then some (chk (mpz_gcd a b) (gcdSpec a b)) else none
  | "mpz_gcd_ui", [.num m, .num a, .num u] =>
      if 0 ≤ m ∧ m ≤ 2 ∧ isUlong u then
        let (w, r) := mpz_gcd_ui a u.toNat
        let g := gcdSpec a u
        -- spec: w = gcd; return value = gcd if it fits an unsigned long, else 0
        let specR : Nat := if g < 2 ^ 64 then g.toNat else 0
        if w = g ∧ r = specR then some ((if m = 2 then [] else [num w]) ++ [natTok r])
        else some [.err "model_ne_spec", num w, natTok r]
      else none
  | "mpz_lcm", [.num m, .num a, .num b] =>
      if 0 ≤ m ∧ m ≤ 2 then some (chk (mpz_lcm a b) (lcmSpec a b)) else none
  | "mpz_lcm_ui", [.num m, .num a, .num u] =>
      if 0 ≤ m ∧ m ≤ 1 ∧ isUlong u then some (chk (mpz_lcm_ui a u.toNat) (lcmSpec a u)) else none
  | "mpz_gcdext_x", [.num m, .num a, .num b] =>
      if gxModeOk m true then
        let (g, s, t) := mpz_gcdext a b
        if (g, s, t) = gcdextSpec a b then some [num g, num s, num t]
        else some [.err "model_ne_spec", num g, num s, num t]
      else none
  | "mpz_gcdext_nt_x", [.num m, .num a, .num b] =>
      if gxModeOk m false then
        let (g, s, _) := mpz_gcdext a b
        let (g', s', _) := gcdextSpec a b
        if (g, s) = (g', s') then some [num g, num s] else some [.err "model_ne_spec", num g, num s]
      else none
  | "mpz_invert_x", [.num m, .num a, .num md] =>
      if 0 ≤ m ∧ m ≤ 2 then
        let r := mpz_invert a md
        if md.natAbs > 1 ∧ r ≠ invertSpec a md then some [.err "model_ne_spec"]
        else match r with
          | none => some [num 0]
          | some v => some [num 1, num v]
      else none
  | "mpz_jacobi", [.num a, .num b] => some (chk (mpz_jacobi a b) (kronecker a b))
  | "mpz_legendre", [.num a, .num b] => some (chk (mpz_jacobi a b) (kronecker a b))
  | "mpz_kronecker", [.num a, .num b] => some (chk (mpz_jacobi a b) (kronecker a b))
  | "mpz_kronecker_si", [.num a, .num b] =>
      if isLong b then some (chk (mpz_kronecker_si a b) (kronecker a b)) else none
  | "mpz_kronecker_ui", [.num a, .num b] =>
      if isUlong b then some (chk (mpz_kronecker_ui a b.toNat) (kronecker a b)) else none
  | "mpz_si_kronecker", [.num a, .num b] =>
      if isLong a then some (chk (mpz_si_kronecker a b) (kronecker a b)) else none
  | "mpz_ui_kronecker", [.num a, .num b] =>
      if isUlong a then some (chk (mpz_ui_kronecker a.toNat b) (kronecker a b)) else none
  | "mpn_gcd", [.vec u, .vec v] =>
      if u.length ≥ v.length ∧ normalized u ∧ normalized v ∧ val v % 2 = 1 ∧ (val u).log2 ≥ (val v).log2 then
        let g := mpn_gcd (val u) u.length (val v) v.length
        let u' := if u.length > v.length then val u % val v else val u
        if ¬ (u' = 0 ∨ gcdLoopContractOk (u' + val v + 1) u' (val v) v.length) then some [.err "hgcd2_contract"]
        else if g = Nat.gcd (val u) (val v) then some [.vec (natLimbs g)] else some [.err "model_ne_spec", natTok g]
      else none
  | "mpn_gcd_1", [.vec u, .num v] =>
      if u.length ≥ 1 ∧ val u ≠ 0 ∧ 0 < v ∧ v < 2 ^ 64 then
        some (chk (gcd_1 u v.toNat) (Nat.gcd (val u) v.toNat))
      else none
  | "mpn_gcdext_x", [.vec u, .vec v] =>
      if u.length ≥ v.length ∧ normalized u ∧ normalized v then
        let (g, s) := mpn_gcdext (val u) u.length (val v) v.length
        if decide (mpnGcdextOk (val u) (val v) g s) then some [.vec (natLimbs g), num s]
        else some [.err "model_ne_spec", natTok g, num s]
      else none
  | "mpn_gcdext_1", [.num u, .num v] =>
      if 0 < u ∧ u < 2 ^ 64 ∧ 0 < v ∧ v < 2 ^ 64 then
        let (g, s, t) := gcdext_1 u.toNat v.toNat
        if (g : Int) = Int.gcd u v ∧ u * s + v * t = g then some [natTok g, num s, num t]
        else some [.err "model_ne_spec", natTok g, num s, num t]
      else none
  | "mpn_hgcd2_x", [.num ah, .num al, .num bh, .num bl] =>
      if isUlong ah ∧ isUlong al ∧ isUlong bh ∧ isUlong bl then
        match hgcd2 ah.toNat al.toNat bh.toNat bl.toNat with
        | none => some [num 0]
        | some m => some [num 1, natTok m.u00, natTok m.u01, natTok m.u10, natTok m.u11]
      else none
  | "mpn_jacobi_base", [.num a, .num b, .num bit] =>
      if isUlong a ∧ isUlong b ∧ b % 2 = 1 ∧ 1 < b ∧ 0 ≤ bit ∧ bit ≤ 3 then
        some (chk (jacobi_base a.toNat b.toNat bit.toNat) ((if bit ≥ 2 then -1 else 1) * kronecker a b))
      else none
  | "mpn_jacobi_n", [.vec a, .vec b, .num s] =>
      if a.length = b.length ∧ a.length ≥ 1 ∧ val b % 2 = 1 ∧ (0 ≤ s ∧ s ≤ 1) then
        some [num (jacobi_n (val a) (val b) s.toNat)]
      else none
  | "mpn_jacobi_2", [.vec a, .vec b, .num s] =>
      if a.length = 2 ∧ b.length = 2 ∧ val b % 2 = 1 ∧ (0 ≤ s ∧ s ≤ 1) then
        some (chk (jacobi_2 (a.getD 0 0) (a.getD 1 0) (b.getD 0 0) (b.getD 1 0) s.toNat) (jacobi_n (val a) (val b) s.toNat))
      else none
  | "mpn_modexact_1_odd", [.vec u, .num d] =>
      if u.length ≥ 1 ∧ isUlong d ∧ d % 2 = 1 then some [natTok (modexact_1_odd u d.toNat)] else none
  | _, _ => none

private def bad (s : String) : Option (Option String) := some (some s)
private def ok : Option (Option String) := some none

/-- hgcd2's contract on the returned matrix: entries below 2^63, determinant 1, and M⁻¹·(A; B) ≥ 0
    for every (A, B) whose leading 128 bits are the inputs — checked on the inputs themselves and
    on the four extreme one-limb extensions (the condition is linear in the unknown low part). -/
def hgcd2Contract (ah al bh bl : Nat) (m : M1) : Option String :=
  let a := ah * B + al; let b := bh * B + bl
  if ¬ (m.u00 < 2 ^ 63 ∧ m.u01 < 2 ^ 63 ∧ m.u10 < 2 ^ 63 ∧ m.u11 < 2 ^ 63) then some "entry-too-large"
  else if ¬ (m.u00 * m.u11 = m.u01 * m.u10 + 1) then some "det"
  else if m.u01 = 0 ∧ m.u10 = 0 then some "identity"
  else if ¬ lehmerOk m a b then some "negative"
  else if ¬ (0 < m.u11 * a - m.u01 * b ∧ 0 < m.u00 * b - m.u10 * a) then some "zero"
  else
    let ext := [(0, 0), (0, B - 1), (B - 1, 0), (B - 1, B - 1)]
    if ¬ ext.all (fun (x, y) => decide (lehmerOk m (a * B + x) (b * B + y))) then some "negative-ext"
    else if ext.all (fun (x, y) =>
        let a' := m.u11 * (a * B + x) - m.u01 * (b * B + y)
        let b' := m.u00 * (b * B + y) - m.u10 * (a * B + x)
        decide (0 < a' ∧ 0 < b' ∧ (B ≤ a' ∨ B ≤ b'))) then none else some "small-ext"

def pred : PredHandler
  | "mpz_gcdext", [.num m, .num a, .num b], out =>
      if gxModeOk m true then
        match out with
        | [.num g, .num s, .num t] => if decide (gcdextOk a b g s t) then ok else bad "gcdextOk"
        | _ => bad "shape"
      else none
  | "mpz_gcdext_nt", [.num m, .num a, .num b], out =>
      if gxModeOk m false then
        match out with
        | [.num g, .num s] => if decide (gcdextOkS a b g s) then ok else bad "gcdextOkS"
        | _ => bad "shape"
      else none
  | "mpz_invert", [.num m, .num a, .num md], out =>
      if 0 ≤ m ∧ m ≤ 2 then
        if md.natAbs ≤ 1 then ok          -- outside the property's domain (|m| > 1)
        else match out with
          | [.num f] => if decide (invertOk a md f 0) then ok else bad "invertOk"
          | [.num f, .num r] => if decide (invertOk a md f r) then ok else bad "invertOk"
          | _ => bad "shape"
      else none
  | "mpn_gcdext", [.vec u, .vec v], out =>
      if u.length ≥ v.length ∧ normalized u ∧ normalized v then
        match out with
        | [.vec g, .num s] =>
            if ¬ normalized g then bad "g-unnormalised"
            else if decide (mpnGcdextOk (val u) (val v) (val g) s) then ok else bad "mpnGcdextOk"
        | _ => bad "shape"
      else none
  | "mpn_hgcd2", [.num ah, .num al, .num bh, .num bl], out =>
      if isUlong ah ∧ isUlong al ∧ isUlong bh ∧ isUlong bl then
        match out with
        | [.num 0] => ok            -- "no progress" is always allowed by the contract
        | [.num 1, .num u00, .num u01, .num u10, .num u11] =>
            match hgcd2Contract ah.toNat al.toNat bh.toNat bl.toNat ⟨u00.toNat, u01.toNat, u10.toNat, u11.toNat⟩ with
            | none => ok
            | some why => bad why
        | _ => bad "shape"
      else none
  | _, _, _ => none

end Mpir.Ops.Gcd
