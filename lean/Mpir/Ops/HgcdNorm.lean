/- Driver handler for the op `mpn_hgcd_tight` (harness/ops_hgcdnorm.c): a predicate on the implementation's own
   output — on success the size field of M is tight (some entry uses limb M->n − 1) and M->n ≤ (n − 1)/2. -/
import Mpir.Proto
import Mpir.Model.Hgcd
namespace Mpir.Ops.HgcdNorm
open Mpir Mpir.Gcd Mpir.Hgcd

def pred : PredHandler
  | "mpn_hgcd_tight", [.vec a, .vec b], out =>
      let n := a.length
      if b.length = n ∧ n ≥ 1 ∧ (a.getLast?.getD 0 ||| b.getLast?.getD 0) ≠ 0 then
        match out with
        | [.num ret, .num mn, .vec e00, .vec e01, .vec e10, .vec e11] =>
            if ret < 0 ∨ ret > n then some (some "ret")
            else if mn < 1 ∨ e00.length ≠ mn.toNat ∨ e01.length ≠ mn.toNat ∨ e10.length ≠ mn.toNat ∨ e11.length ≠ mn.toNat then
              some (some "shape")
            else if e00.getLast?.getD 0 ||| e01.getLast?.getD 0 ||| e10.getLast?.getD 0 ||| e11.getLast?.getD 0 = 0 then
              some (some "not-tight")                                 -- also required when 0 is returned (M = I, M->n = 1)
            else if ret ≠ 0 ∧ ¬ (mn.toNat ≤ (n - 1) / 2) then some (some "M.n")
            else some none
        | _ => some (some "shape")
      else none
  | _, _, _ => none

end Mpir.Ops.HgcdNorm
