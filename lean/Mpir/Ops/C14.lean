/- Driver handlers for the C14 ops (harness/ops_c14.c): `k_*` kernels by specification, `c14_*` value-level entry points. -/
import Mpir.Proto
import Mpir.Model.C14Spec
import Mpir.Gen.ShippedParams
namespace Mpir.Ops.C14
open Mpir Mpir.C14

private def pr (p : List Nat × Nat) : List Tok := [.vec p.1, natTok p.2]
private def nat? : Tok → Option Nat
  | .num i => if i ≥ 0 then some i.toNat else none
  | _ => none
private def magTok (n : Nat) (v : Nat) : Tok := .vec (toLimbs n v)

/-- names of the `Valid` clauses a table violates (under any build configuration) -/
def failingClauses (p : Params.Params) : List String :=
  let m := Gen.minSizes
  let per (c : Params.Cfg) : List String :=
    (if decide (Params.NoOverflow p) then [] else ["NoOverflow"]) ++ (if decide (Params.MulNOk m c p) then [] else ["MulNOk"]) ++
    (if decide (Params.SqrOk m c p) then [] else ["SqrOk"]) ++ (if decide (Params.KaraRecOk m c p) then [] else ["KaraRecOk"]) ++
    (if decide (Params.MulUnbalancedOk p) then [] else ["MulUnbalancedOk"]) ++ (if decide (Params.MulhighOk p) then [] else ["MulhighOk"]) ++
    (if decide (Params.LowerBoundsOk p) then [] else ["LowerBoundsOk"]) ++ (if decide (Params.RedcOk c p) then [] else ["RedcOk"]) ++
    (if decide (Params.Mod1Ok p) then [] else ["Mod1Ok"]) ++ (if decide (Params.StrOk p) then [] else ["StrOk"]) ++
    (if decide (Params.HenselOk p) then [] else ["HenselOk"])
  (Params.allCfgs.flatMap per).eraseDups

def handle : Handler
  | "c14_table_valid", [.str f] =>
      match Gen.shippedParams.find? (fun p => p.file.toUTF8.toList == f) with
      | some p => some [strTok (",".intercalate (failingClauses p))]
      | none => some [.err "unknown-table"]
  | "k_addlsh1_n", [.num _, .vec u, .vec v] => some (pr (addlsh_n u v 1))
  | "k_sublsh1_n", [.num _, .vec u, .vec v] => some (pr (sublsh_n u v 1))
  | "k_addlsh_n", [.num _, .vec u, .vec v, .num c] => some (pr (addlsh_n u v c.toNat))
  | "k_sublsh_n", [.num _, .vec u, .vec v, .num c] => some (pr (sublsh_n u v c.toNat))
  | "k_rsh1add_n", [.num _, .vec u, .vec v] => some (pr (rsh1add_n u v))
  | "k_rsh1sub_n", [.num _, .vec u, .vec v] => some (pr (rsh1sub_n u v))
  | "k_add_nc", [.num _, .vec u, .vec v, .num c] => some (pr (add_nc u v c.toNat))
  | "k_sub_nc", [.num _, .vec u, .vec v, .num c] => some (pr (sub_nc u v c.toNat))
  | "k_lshift1", [.num _, .vec u] => some (pr (lshiftk u 1))
  | "k_lshift2", [.num _, .vec u] => some (pr (lshiftk u 2))
  | "k_rshift1", [.num _, .vec u] => some (pr (rshiftk u 1))
  | "k_rshift2", [.num _, .vec u] => some (pr (rshiftk u 2))
  | "k_lshiftc", [.num _, .vec u, .num c] => some (pr (lshiftc u c.toNat))
  | "k_not", [.vec u] => some [.vec (not_n u)]
  | "k_double", [.vec u] => some (pr (lshiftk u 1))
  | "k_half", [.vec u] => some (pr (rshiftk u 1))
  | "k_store", [.num n, .num v] => some [.vec (List.replicate n.toNat v.toNat)]
  | "k_popcount", [.vec u] => some [natTok (popcount u)]
  | "k_hamdist", [.vec u, .vec v] => some [natTok (hamdist u v)]
  | "k_addadd_n", [.num _, .vec x, .vec y, .vec z] => some (pr (addadd_n x y z))
  | "k_addsub_n", [.num _, .vec x, .vec y, .vec z] => let r := addsub_n x y z; some [.vec r.1, .num r.2]
  | "k_subadd_n", [.num _, .vec x, .vec y, .vec z] => some (pr (subadd_n x y z))
  | "k_sumdiff_n", [.num _, .vec x, .vec y] => let r := sumdiff_n x y; some [.vec r.1, .vec r.2.1, natTok r.2.2]
  | "k_nsumdiff_n", [.num _, .vec x, .vec y] => let r := nsumdiff_n x y; some [.vec r.1, .vec r.2.1, natTok r.2.2]
  | "k_mul_2", [.vec u, .vec v] => some (pr (mul_2 u v))
  | "k_addmul_2", [.vec r, .vec u, .vec v] => some (pr (addmul_2 r u v))
  | "k_addmul_1c", [.vec r, .vec u, .num v, .num c] => some (pr (addmul_1c r u v.toNat c.toNat))
  | "k_submul_1c", [.vec r, .vec u, .num v, .num c] => some (pr (submul_1c r u v.toNat c.toNat))
  | "k_sqr_basecase", [.vec u] => some [.vec (sqr u)]
  | "k_mullow_n_basecase", [.vec u, .vec v] => some [.vec (mullow u v)]
  | "k_mulmid_basecase", [.vec u, .vec v] => some [.vec (mulmid u v)]
  | "k_add_err1_n", [.num _, .vec u, .vec v, .vec y, .num c] => let r := errN false u v [y] c.toNat; some [.vec r.1, .vec r.2.1, natTok r.2.2]
  | "k_sub_err1_n", [.num _, .vec u, .vec v, .vec y, .num c] => let r := errN true u v [y] c.toNat; some [.vec r.1, .vec r.2.1, natTok r.2.2]
  | "k_add_err2_n", [.num _, .vec u, .vec v, .vec y1, .vec y2, .num c] => let r := errN false u v [y1, y2] c.toNat; some [.vec r.1, .vec r.2.1, natTok r.2.2]
  | "k_sub_err2_n", [.num _, .vec u, .vec v, .vec y1, .vec y2, .num c] => let r := errN true u v [y1, y2] c.toNat; some [.vec r.1, .vec r.2.1, natTok r.2.2]
  | "k_divexact_byff", [.num _, .vec x] => some (pr (divexact_byff x))
  | "k_divexact_byfobm1", [.num _, .vec x, .num f] => some (pr (divexact_byfobm1 x f.toNat))
  | "k_redc_1", [.vec t, .vec m] => some [.vec (redc_1 t m)]
  | "k_karaadd", [.vec r, .vec t] => some [.vec (kara false r t)]
  | "k_karasub", [.vec r, .vec t] => some [.vec (kara true r t)]
  | "k_mod_1_1", [.vec x, .num d] => some [.vec (mod_1_k 1 x d.toNat)]
  | "k_mod_1_2", [.vec x, .num d] => some [.vec (mod_1_k 2 x d.toNat)]
  | "k_mod_1_3", [.vec x, .num d] => some [.vec (mod_1_k 3 x d.toNat)]
  | "k_divrem_hensel_qr_1_1", [.num _, .vec x, .num d] => let r := hensel x d.toNat 0; some [magTok x.length r.1, natTok r.2]
  | "k_divrem_hensel_qr_1_2", [.num _, .vec x, .num d] => let r := hensel x d.toNat 0; some [magTok x.length r.1, natTok r.2]
  | "k_divrem_hensel_r_1", [.vec x, .num d] => some [natTok (hensel x d.toNat 0).2]
  | "k_rsh_divrem_hensel_qr_1_1", [.num _, .vec x, .num d, .num s, .num c] => let r := hensel x d.toNat c.toNat; some [magTok x.length (r.1 / 2 ^ s.toNat), natTok r.2]
  | "k_rsh_divrem_hensel_qr_1_2", [.num _, .vec x, .num d, .num s, .num c] => let r := hensel x d.toNat c.toNat; some [magTok x.length (r.1 / 2 ^ s.toNat), natTok r.2]
  | "k_lshift3", [.num _, .vec u] => some (pr (lshiftk u 3))
  | "k_lshift4", [.num _, .vec u] => some (pr (lshiftk u 4))
  | "k_lshift5", [.num _, .vec u] => some (pr (lshiftk u 5))
  | "k_lshift6", [.num _, .vec u] => some (pr (lshiftk u 6))
  -- value level
  | "c14_mul", [.vec u, .vec v] => let p := val u * val v; let n := u.length + v.length
      some [magTok n p, natTok (p / B ^ (n - 1))]
  | "c14_mul_n", [.vec u, .vec v] => some [magTok (2 * u.length) (val u * val v)]
  | "c14_sqr", [.vec u] => some [magTok (2 * u.length) (val u * val u)]
  | "c14_mullow_n", [.vec u, .vec v] => some [.vec (mullow u v)]
  | "c14_tdiv_qr", [.vec n, .vec d] => some [magTok (n.length - d.length + 1) (val n / val d), magTok d.length (val n % val d)]
  | "c14_divrem_1", [.vec u, .num d] => some [magTok u.length (val u / d.toNat), natTok (val u % d.toNat)]
  | "c14_mod_1", [.vec u, .num d] => some [natTok (val u % d.toNat)]
  | "c14_divexact_1", [.vec u, .num d] => some [magTok u.length (val u / d.toNat)]
  | "c14_gcd", [.num a, .num b] => some [natTok (Nat.gcd a.natAbs b.natAbs)]
  | "c14_gcdext", [.num a, .num b] => let g := Nat.gcd a.natAbs b.natAbs; some [natTok g, natTok g]
  | "c14_powm", [.num b, .num e, .num m] =>
      if m = 0 then some [.err "div0"] else
      let mm := m.natAbs; some [natTok (powMod (b % (mm : Int)).toNat e.toNat mm)]
  | "c14_divexact", [.num a, .num b] => some [.num (a / b)]
  | "c14_get_str", [.num base, .num z] => some [.str (getStr base.toNat z)]
  | "c14_set_str", [.num base, .str s] => (setStr base.toNat s).map (fun v => [.num 0, .num v])
  | "c14_fac_ui", [.num n] => some [natTok (fac n.toNat)]
  | "c14_invert", [.num a, .num m] => match invMod (a % (m.natAbs : Int)).toNat m.natAbs with
      | some r => some [.num 1, natTok r]
      | none => some [.num 0]
  | _, _ => none

end Mpir.Ops.C14
