/- Driver handlers for C06 (radix conversion).  Strings are `s…` tokens (bytes). -/
import Mpir.Proto
import Mpir.Model.Radix
namespace Mpir.Ops.Radix
open Mpir Mpir.Radix

private def bytesOf (l : List UInt8) : List Nat := l.map (·.toNat)
private def strOf (l : List Nat) : Tok := .str (l.map UInt8.ofNat)

private def setStrOut : Option Int → List Tok
  | none => [.num (-1)]
  | some v => [.num 0, .num v]

/-- number of digits the property speaks about: 1 for zero -/
def digitCount (b : Nat) (x : Int) : Nat := if x = 0 then 1 else (digitsOf b x.natAbs).length

def handle : Handler
  | "mpz_get_str", [.num base, .num x] =>
      match mpz_get_str base x with
      | none => some [.err "null"]
      | some s => some [strOf s]
  | "mpz_set_str", [.num base, .str s] => some (setStrOut (mpz_set_str base (bytesOf s)))
  | "mpz_init_set_str", [.num base, .str s] => some (setStrOut (mpz_set_str base (bytesOf s)))
  | "mpz_sizeinbase", [.num x, .num base] =>
      -- exact comparison for powers of two; other bases go through `pred`
      if pow2P base.toNat then some [natTok (mpz_sizeinbase x base.toNat)] else none
  | "mpn_get_str", [.num base, .vec up] =>
      let ds := mpn_get_str base.toNat up
      let z := (ds.takeWhile (· == 0)).length
      some [strOf (ds.drop (min z (ds.length - 1)))]
  | "mpn_set_str", [.num base, .str s] => some [natTok (val (mpn_set_str base.toNat (bytesOf s)))]
  | "mpn_set_str_raw", [.num base, .str s] => some [.vec (mpn_set_str base.toNat (bytesOf s))]
  | "mpz_out_str", [.num base, .num x] =>
      let (out, ret) := mpz_out_str base x
      some [natTok ret, strOf out]
  | "mpz_inp_str", [.num base, .str s] =>
      let r := mpz_inp_str base (bytesOf s)
      some ([natTok r.ret] ++ (if r.ret != 0 then [.num (r.value.getD 0)] else []) ++ [natTok r.pos])
  | "mpq_set_str", [.num base, .str s] =>
      match mpq_set_str base (bytesOf s) with
      | none => some [.num (-1)]
      | some (n, d) => some [.num 0, .num n, .num d]
  | "mpq_get_str", [.num base, .num n, .num d] =>
      match mpq_get_str base n d with
      | none => some [.err "null"]
      | some s => some [strOf s]
  | "mpq_out_str", [.num base, .num n, .num d] =>
      let (out, ret) := mpq_out_str base n d
      some [natTok ret, strOf out]
  | "mpq_inp_str", [.num base, .str s] =>
      let (ret, v, pos) := mpq_inp_str base (bytesOf s)
      some ([natTok ret] ++ (match v with | some (n, d) => [.num n, .num d] | none => []) ++ [natTok pos])
  | "mpz_roundtrip", [.num base, .num x] =>
      match mpz_get_str base x with
      | none => some [.err "null"]
      | some s => some (setStrOut (mpz_set_str (Int.ofNat base.natAbs) s))
  | "mpz_io_roundtrip", [.num base, .num x] =>
      let (out, w) := mpz_out_str base x
      if out.isEmpty then some [natTok w] else
      let r := mpz_inp_str (Int.ofNat base.natAbs) out
      some ([natTok w, natTok r.ret] ++ (if r.ret != 0 then [.num (r.value.getD 0)] else []))
  | "mpq_roundtrip", [.num base, .num n, .num d] =>
      match mpq_get_str base n d with
      | none => some [.err "null"]
      | some s =>
          match mpq_set_str (Int.ofNat base.natAbs) s with
          | none => some [.num (-1)]
          | some (n', d') => some [.num 0, .num n', .num d']
  | _, _ => none

/-- mpz_sizeinbase for bases that are not powers of two: the property allows the exact digit count or one
    more.  The implementation's answer must satisfy that predicate (else `~bad:range`) and must equal the
    model's answer (else `~bad:model`, i.e. the MPN_SIZEINBASE model is no longer a mirror of the code). -/
def pred : PredHandler
  | "mpz_sizeinbase", [.num x, .num base], impl =>
      let b := base.toNat
      if pow2P b then none else
      match impl with
      | [.num r] =>
          let d := digitCount b x
          if !(r == Int.ofNat d || r == Int.ofNat (d + 1)) then
            some (some s!"range:digits={d}")
          else if r != Int.ofNat (mpz_sizeinbase x b) then
            some (some s!"model:{mpz_sizeinbase x b}")
          else some none
      | _ => some (some "output")
  | _, _, _ => none

end Mpir.Ops.Radix
