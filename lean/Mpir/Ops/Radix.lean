/- Driver handlers for C06 (radix conversion).  Strings are `s…` tokens (bytes). -/
import Mpir.Proto
import Mpir.Model.Radix
namespace Mpir.Ops.Radix
open Mpir Mpir.Radix

private def bytesOf (l : List UInt8) : List Nat := l.map (·.toNat)
private def strOf (l : List Nat) : Tok := .str (l.map UInt8.ofNat)

private def setStrOut : Option Int → List Tok
  | none => [.num (-1)]
  | some v => [.num 0, .num v]

/-- exact number of base-`b` digits of `v > 0` without producing them: bisection on `n` with `b^n ≤ v`
    (for operands of millions of bits, where `digitsOf` would take hours) -/
partial def digitCountBig (b v : Nat) : Nat :=
  let bits := Nat.log2 v + 1
  let lb := Nat.log2 b
  -- invariant: b^lo ≤ v < b^hi
  let rec go (lo hi : Nat) : Nat :=
    if hi ≤ lo + 1 then lo + 1 else
    let mid := (lo + hi) / 2
    if b ^ mid ≤ v then go mid hi else go lo mid
  go ((bits - 1) / (lb + 1)) (bits / lb + 1)

/-- number of digits the property speaks about: 1 for zero -/
def digitCount (b : Nat) (x : Int) : Nat :=
  if x = 0 then 1
  else if Nat.log2 x.natAbs < 4096 then (digitsOf b x.natAbs).length
  else digitCountBig b x.natAbs

/-- the model's mpz_sizeinbase; for operands of more than 4096 bits the bit count is taken from `Nat.log2`
    instead of building the limb list (same value: `bitlen_bounds` in MpirProofs/Lemmas/Radix.lean) -/
def modelSize (b : Nat) (x : Int) : Nat :=
  if x = 0 then 1
  else if Nat.log2 x.natAbs < 4096 then mpz_sizeinbase x b
  else sizeinbaseBits (Nat.log2 x.natAbs + 1) b

/-- verdict on an mpz_sizeinbase answer `r` for a base that is not a power of two -/
def sizeVerdict (b : Nat) (x : Int) (r : Int) : Option String :=
  let d := digitCount b x
  if !(r == Int.ofNat d || r == Int.ofNat (d + 1)) then some s!"range:digits={d}"
  else if r != Int.ofNat (modelSize b x) then some s!"model:{modelSize b x}"
  else none

def handle : Handler
  | "mpz_get_str", [.num base, .num x] =>
      match mpz_get_str base x with
      | none => some [.err "null"]
      | some s => some [strOf s]
  | "mpz_set_str", [.num base, .str s] => some (setStrOut (mpz_set_str base (bytesOf s)))
  | "mpz_init_set_str", [.num base, .str s] => some (setStrOut (mpz_set_str base (bytesOf s)))
  | "mpz_sizeinbase", [.num x, .num base] =>
      -- exact comparison for powers of two; other bases go through `pred`
      if pow2P base.toNat then some [natTok (mpz_sizeinbase x base.toNat)] else none
  | "mpn_get_str", [.num base, .vec up] =>
      let ds := mpn_get_str base.toNat up
      let z := (ds.takeWhile (· == 0)).length
      some [strOf (ds.drop (min z (ds.length - 1)))]
  | "mpn_set_str", [.num base, .str s] => some [natTok (val (mpn_set_str base.toNat (bytesOf s)))]
  | "mpn_set_str_raw", [.num base, .str s] => some [.vec (mpn_set_str base.toNat (bytesOf s))]
  | "mpz_out_str", [.num base, .num x] =>
      let (out, ret) := mpz_out_str base x
      some [natTok ret, strOf out]
  | "mpz_inp_str", [.num base, .str s] =>
      let r := mpz_inp_str base (bytesOf s)
      some ([natTok r.ret] ++ (if r.ret != 0 then [.num (r.value.getD 0)] else []) ++ [natTok r.pos])
  | "mpq_set_str", [.num base, .str s] =>
      match mpq_set_str base (bytesOf s) with
      | none => some [.num (-1)]
      | some (n, d) => some [.num 0, .num n, .num d]
  | "mpq_get_str", [.num base, .num n, .num d] =>
      match mpq_get_str base n d with
      | none => some [.err "null"]
      | some s => some [strOf s]
  | "mpq_out_str", [.num base, .num n, .num d] =>
      let (out, ret) := mpq_out_str base n d
      some [natTok ret, strOf out]
  | "mpq_inp_str", [.num base, .str s] =>
      let (ret, v, pos) := mpq_inp_str base (bytesOf s)
      some ([natTok ret] ++ (match v with | some (n, d) => [.num n, .num d] | none => []) ++ [natTok pos])
  | "mpz_roundtrip", [.num base, .num x] =>
      match mpz_get_str base x with
      | none => some [.err "null"]
      | some s => some (setStrOut (mpz_set_str (Int.ofNat base.natAbs) s))
  | "mpz_io_roundtrip", [.num base, .num x] =>
      let (out, w) := mpz_out_str base x
      if out.isEmpty then some [natTok w] else
      let r := mpz_inp_str (Int.ofNat base.natAbs) out
      some ([natTok w, natTok r.ret] ++ (if r.ret != 0 then [.num (r.value.getD 0)] else []))
  | "mpq_roundtrip", [.num base, .num n, .num d] =>
      match mpq_get_str base n d with
      | none => some [.err "null"]
      | some s =>
          match mpq_set_str (Int.ofNat base.natAbs) s with
          | none => some [.num (-1)]
          | some (n', d') => some [.num 0, .num n', .num d']
  | _, _ => none

/-- mpz_sizeinbase for bases that are not powers of two: the property allows the exact digit count or one
    more.  The implementation's answer must satisfy that predicate (else `~bad:range`) and must equal the
    model's answer (else `~bad:model`, i.e. the MPN_SIZEINBASE model is no longer a mirror of the code). -/
def pred : PredHandler
  | "mpz_sizeinbase", [.num x, .num base], impl =>
      let b := base.toNat
      if pow2P b then none else
      match impl with
      | [.num r] => some (sizeVerdict b x r)
      | _ => some (some "output")
  | "mpz_sizeinbase_pow", [.num base, .num n, .num d], impl =>
      let b := base.toNat
      let x : Int := Int.ofNat (b ^ n.toNat) + d
      match impl with
      | [.num r] =>
          if pow2P b then (if r == Int.ofNat (modelSize b x) then some none else some (some s!"model:{modelSize b x}"))
          else some (sizeVerdict b x r)
      | _ => some (some "output")
  | "mpz_get_str_pow_len", [.num base, .num n, .num d], impl =>
      -- the string has exactly digitCount (+1 for a sign) characters and fits the buffer the library allocates
      -- (sizeinbase + 1 + sign); an allocator overrun marker from the harness makes the output malformed here
      let b := base.toNat
      let x : Int := Int.ofNat (b ^ n.toNat) + d
      let len := digitCount b x + (if x < 0 then 1 else 0)
      match impl with
      | [.num l, .num r] =>
          if l != Int.ofNat len then some (some s!"strlen:{len}")
          else if Int.ofNat len + 1 > r + 1 + (if x < 0 then 1 else 0) then some (some s!"buffer:{len}+1>{r}+1")
          else some none
      | _ => some (some "overrun-or-output")
  | _, _, _ => none

end Mpir.Ops.Radix
