/- Driver handlers for the random-number histories of property C19 (stateful: 4 generator slots).
   Every answer is the bit-exact model output; in addition the handler evaluates the property's own
   range predicate on that output and answers `!range` when it fails (never expected: it would make the
   line disagree with any implementation output, i.e. be reported). -/
import Mpir.Proto
import Mpir.Model.Rand
namespace Mpir.Ops.Rand
open Mpir Mpir.Rand

/-- the slots of the history (`none` = not initialised / cleared). -/
abbrev Slots := Array (Option Gen)

def init : Slots := #[none, none, none, none]

/-- draws allowed to the unbounded rejection loops before the model answers `!loop`. -/
def fuel : Nat := 100000

private def slot? (st : Slots) (i : Int) : Option Gen :=
  if 0 ≤ i ∧ i < 4 then (st[i.toNat]?).join else none

private def okSlot (i : Int) : Bool := 0 ≤ i && i < 4

private def put (st : Slots) (i : Int) (g : Option Gen) : Slots := st.set! i.toNat g

private def one : List Tok := [natTok 1]

/-- answer `v` if the property's predicate holds of the model's own output. -/
private def checked (ok : Bool) (out : List Tok) : List Tok := if ok then out else [Tok.err "range"]

/-- frequency statistics over `draws` values of `nbits` bits from `mpz_urandomb`:
    `maxdev = max_j |2·ones_j − draws|`, `X = 256·Σ c_b² − K²` over the `K = draws·⌊nbits/8⌋` bytes. -/
def freq (g : Gen) (nbits draws : Nat) : (Nat × Nat × Nat) × Gen := Id.run do
  let nb := nbits / 8
  let mut g := g
  let mut ones : Array Nat := Array.replicate nbits 0
  let mut cnt : Array Nat := Array.replicate 256 0
  for _ in [0:draws] do
    let p := urandomb g nbits
    g := p.2
    let v := p.1
    for j in [0:nbits] do
      if v.testBit j then ones := ones.modify j (· + 1)
    for k in [0:nb] do
      cnt := cnt.modify ((v >>> (8 * k)) % 256) (· + 1)
  let maxdev := ones.foldl (fun m o => max m (if 2 * o ≥ draws then 2 * o - draws else draws - 2 * o)) 0
  let k := draws * nb
  let x := 256 * cnt.foldl (fun a c => a + c * c) 0 - k * k
  ((maxdev, x, k), g)

/-- the fixed, very loose thresholds: 8 standard deviations for every bit position, byte χ² below 600
    (255 degrees of freedom: mean 255, standard deviation 22.6). -/
def freqOk (draws maxdev x k : Nat) : Bool := maxdev * maxdev ≤ 64 * draws && x ≤ 600 * k

/-- ops whose first argument must be an initialised slot -/
private def liveOps : List String :=
  ["@rseed", "@rseed_ui", "@rclear", "@urandomb", "@urandomb_ui", "@mpn_urandomb", "@urandomm", "@urandomm_alias",
   "@urandomm_ui", "@mpn_urandomm", "@rrandomb", "@mpn_randomb", "@mpn_rrandom", "@mpf_urandomb", "@freq", "@same"]

private def empty? (st : Slots) (t : Tok) : Bool :=
  match t with
  | .num i => okSlot i && (slot? st i).isNone
  | _ => false

def step' (st : Slots) : String → List Tok → Option (Slots × List Tok)
  | "@rinit_mt", [.num i] => if okSlot i then some (put st i (some (.mt mtDefault)), one) else none
  | "@rinit_default", [.num i] => if okSlot i then some (put st i (some (.mt mtDefault)), one) else none
  | "@rinit_lc", [.num i, .num a, .num c, .num m] =>
      if okSlot i && 2 ≤ m && 0 ≤ c && c < 2 ^ 64 then some (put st i (some (.lc (lcInit a c.toNat m.toNat))), one) else none
  | "@rinit_lcsize", [.num i, .num size] =>
      if okSlot i && 0 ≤ size then
        match lcInitSize size.toNat with
        | some s => some (put st i (some (.lc s)), [natTok 1])
        | none => some (put st i none, [natTok 0])          -- returns 0, state not initialised
      else none
  | "@rseed", [.num i, .num z] => (slot? st i).map fun g => (put st i (some (g.seed z)), one)
  | "@rseed_ui", [.num i, .num u] =>
      if 0 ≤ u ∧ u < 2 ^ 64 then (slot? st i).map fun g => (put st i (some (g.seedUi u.toNat)), one) else none
  | "@rcopy", [.num d, .num s] =>
      if okSlot d && d != s then (slot? st s).map fun g => (put st d (some g.iset), one) else none
  | "@rclear", [.num i] => (slot? st i).map fun _ => (put st i none, one)
  | "@urandomb", [.num i, .num n] => do
      let g ← slot? st i; if n < 0 then none
      let p := urandomb g n.toNat
      pure (put st i (some p.2), checked (p.1 < 2 ^ n.toNat) [natTok p.1])
  | "@urandomb_ui", [.num i, .num n] => do
      let g ← slot? st i; if n < 0 then none
      let p := urandombUi g n.toNat
      pure (put st i (some p.2), checked (p.1 < 2 ^ (min n.toNat 64)) [natTok p.1])
  | "@mpn_urandomb", [.num i, .num n] => do
      let g ← slot? st i; if n < 1 then none
      let p := mpnUrandomb g n.toNat
      pure (put st i (some p.2), checked (val p.1 < 2 ^ n.toNat && p.1.length == bitsToLimbs n.toNat) [.vec p.1])
  | "@urandomm", [.num i, .num n] => urandommOp st i n
  | "@urandomm_alias", [.num i, .num n] => urandommOp st i n
  | "@urandomm_ui", [.num i, .num n] => do
      let g ← slot? st i; if n < 0 ∨ n ≥ 2 ^ 64 then none
      if n == 0 then pure (st, [Tok.err "fpe"]) else
      let p := urandommUi g n.toNat
      pure (put st i (some p.2), checked (p.1 < n.toNat) [natTok p.1])
  | "@mpn_urandomm", [.num i, .vec mp] => do
      let g ← slot? st i
      if mp.isEmpty || mp.getLast! == 0 || !(mp.all (· < B)) then none
      match mpnUrandomm fuel g mp with
      | none => pure (st, [Tok.err "loop"])
      | some p => pure (put st i (some p.2), checked (val p.1 < val mp && p.1.length == mp.length) [.vec p.1])
  | "@rrandomb", [.num i, .num n] => do
      let g ← slot? st i; if n < 0 then none
      let p := rrandomb g n.toNat
      pure (put st i (some p.2), checked (p.1 < 2 ^ n.toNat) [natTok p.1])
  | "@mpn_randomb", [.num i, .num n] => do
      let g ← slot? st i; if n < 1 then none
      match mpnRandomb fuel g n.toNat with
      | none => pure (st, [Tok.err "loop"])
      | some p => pure (put st i (some p.2), checked (p.1.length == n.toNat && p.1.getLast! != 0 && p.1.all (· < B)) [.vec p.1])
  | "@mpn_rrandom", [.num i, .num n] => do
      let g ← slot? st i; if n < 1 then none
      let p := mpnRrandom g n.toNat
      pure (put st i (some p.2), checked (p.1.length == n.toNat && p.1.getLast! != 0 && p.1.all (· < B)) [.vec p.1])
  | "@mpf_urandomb", [.num i, .num prec, .num nbits] => do
      let g ← slot? st i; if prec < 0 ∨ nbits < 0 then none
      let p := mpfUrandomb g (bitsToPrec prec.toNat) nbits.toNat
      let o := p.1
      -- value = val d · B^(exp − size) ∈ [0,1):  exp ≤ 0, val d < B^size; and the mpf format
      let ok := decide (o.exp ≤ 0) && decide (val o.d < B ^ o.size) && o.d.length == o.size
                && (o.size == 0 || o.d.getLast! != 0) && (o.size != 0 || o.exp == 0)
      pure (put st i (some p.2), checked ok [natTok o.size, .num o.exp, .vec o.d])
  | "@same", [.num i, .num j, .num n] => do
      let g ← slot? st i; let h ← slot? st j; if n < 0 ∨ i == j then none
      let p := urandomb g n.toNat; let q := urandomb h n.toNat
      let st := put (put st i (some p.2)) j (some q.2)
      -- the history put both slots in the same state (same algorithm + same seed, or a copy)
      pure (st, if p.1 == q.1 then checked (p.1 < 2 ^ n.toNat) [natTok 1, natTok p.1] else [Tok.err "diverge", natTok p.1, natTok q.1])
  | "@freq", [.num i, .num nbits, .num draws] => do
      let g ← slot? st i; if nbits < 8 ∨ draws < 1 then none
      let r := freq g nbits.toNat draws.toNat
      let (maxdev, x, k) := r.1
      pure (put st i (some r.2),
        if freqOk draws.toNat maxdev x k then [natTok maxdev, natTok x, natTok k] else [Tok.err "nonuniform", natTok maxdev, natTok x, natTok k])
  | _, _ => none
where
  urandommOp (st : Slots) (i n : Int) : Option (Slots × List Tok) := do
    let g ← slot? st i
    if n == 0 then pure (st, [Tok.err "fpe"]) else
    match urandomm fuel g n with
    | none => pure (st, [Tok.err "loop"])
    | some p => pure (put st i (some p.2), checked (p.1 < n.natAbs) [natTok p.1])

/-- `lc_m2exp1_probe nbits`: one `mpz_urandomb` draw from `gmp_randinit_lc_2exp (a = 5, c = 1, m2exp = 1)` run
    in a child of the harness.  The property asks for a value below `2^nbits`; `!hang` (the draw did
    not return within 2 s) is a violation. -/
def pred : PredHandler
  | "lc_m2exp1_probe", [.num n], impl =>
      match impl with
      | [.num v] => if 0 ≤ v ∧ v < 2 ^ n.toNat then some none else some (some "range")
      | [.err e] => some (some e)
      | _ => some (some "output")
  | _, _, _ => none

/-- a valid but uninitialised slot answers `!noinit` (same as the harness), otherwise `step'`. -/
def step (st : Slots) (op : String) (toks : List Tok) : Option (Slots × List Tok) :=
  let noinit : Bool :=
    match toks with
    | a :: b :: _ =>
      (liveOps.contains op && empty? st a) || (op == "@rcopy" && empty? st b) || (op == "@same" && !empty? st a && empty? st b)
    | [a] => liveOps.contains op && empty? st a
    | [] => false
  if noinit then some (st, [Tok.err "noinit"]) else step' st op toks

def stateful : IO StatefulHandler := mkStateful init step

end Mpir.Ops.Rand
