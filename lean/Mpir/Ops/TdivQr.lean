/- Driver handlers for C02, part c02_tdivqr: mpn_tdiv_qr / mpn_divrem answered by the LIMB-LEVEL model
   Mpir/Model/TdivQr.lean (not by the value contract DivZ.mpnTdivQr; that the two agree is the theorem
   Mpir.TdivQr.tdiv_qr_contract).  C side: harness/ops_tdivqr.c.

     tdiv_qr_model [n] [d]         -> [q] [r] branch          (`!div0` for dn = 0; `!assert` appended if an ASSERT of the C
                                                                fails in the model or a limb outside rp is touched)
     divrem_model [n] [d] qxn      -> [q] [r] returned-limb
     divrem_2_contract [n] [d] qxn -> [q] [r] returned-limb   the assumed contract of the assembly mpn_divrem_2
-/
import Mpir.Proto
import Mpir.Model.TdivQr
import Mpir.Model.DivZ
namespace Mpir.Ops.TdivQr
open Mpir Mpir.TdivQr

/-- DC_DIV_QR_THRESHOLD, INV_DIV_QR_THRESHOLD of mpn/x86_64/gmp-mparam.h.  They only select the callee; every theorem
    about the model holds for all values, so a retuned build changes no answer. -/
def thr : Thresholds := { dc := 50, inv := 1589 }

def handle : Handler
  | "tdiv_qr_model", [.vec n, .vec d] =>
      if d.isEmpty then some [.err "div0"] else
      if ¬ DivZ.topNonzero d ∨ n.length < d.length then none else
      (match tdiv_qr thr n d with
       | none => some [.err "div0"]
       | some (q, r, ok) =>
           let out := [Tok.vec q, .vec r, natTok (branchCode n d)]
           some (if ok then out else out ++ [.err "assert"]))
  | "divrem_model", [.vec n, .vec d, .num qxn] =>
      if qxn < 0 ∨ qxn > 4096 ∨ ¬ DivZ.normalised d ∨ n.length < d.length then none else
      let (q, r, qh, ok) := divrem thr qxn.toNat n d
      let out := [Tok.vec q, .vec r, natTok qh]
      some (if ok then out else out ++ [.err "assert"])
  | "divrem_2_contract", [.vec n, .vec d, .num qxn] =>
      if qxn < 0 ∨ qxn > 4096 ∨ ¬ DivZ.normalised d ∨ d.length ≠ 2 ∨ n.length < 2 then none else
      let (q, r, qh) := divrem_2 qxn.toNat n d
      some [Tok.vec q, .vec r, natTok qh]
  | _, _ => none

end Mpir.Ops.TdivQr
