/- Driver handlers for C08 (powers and modular powers). -/
import Mpir.Proto
import Mpir.Model.Powm
namespace Mpir.Ops.Powm
open Mpir Mpir.Powm

/-- what `out_mpz` prints for a result object: `!div0`, `!malformed`, or the value. -/
private def res (r : Res) : List Tok :=
  match r with
  | .div0 => [.err "div0"]
  | .mk rp rn => if r.wf then [natTok (val (rp.take rn))] else [.err "malformed"]

private def odd1 (l : List Nat) : Bool := l.headD 0 % 2 == 1
private def topnz (l : List Nat) : Bool := l.getLastD 0 != 0

def handle : Handler
  | "mpz_powm", [.num _, .num b, .num e, .num m] => some (res (mpz_powm b e m))
  | "mpz_powm_ui", [.num _, .num b, .num e, .num m] =>
      if e < 0 || e ≥ (B : Int) then none else some (res (mpz_powm_ui b e.toNat m))
  | "mpz_pow_ui", [.num b, .num e] =>
      if e < 0 || e ≥ (B : Int) then none else some [.num (mpz_pow_ui b e.toNat)]
  | "mpz_pow_ui", [.num b, .num e, .num _] =>               -- third token 1: r is the same variable as b
      if e < 0 || e ≥ (B : Int) then none else some [.num (mpz_pow_ui b e.toNat)]
  | "mpz_ui_pow_ui", [.num b, .num e] =>
      if b < 0 || b ≥ (B : Int) || e < 0 || e ≥ (B : Int) then none
      else some [.num (mpz_ui_pow_ui b.toNat e.toNat)]
  | "mpn_powm", [.vec b, .vec e, .vec m] =>
      -- preconditions of mpn_powm (powm.c:172): n ≥ 1, m odd, {ep,en} > 1 normalised; bn ≥ 1
      if m.length ≥ 1 && odd1 m && topnz m && topnz e && val e > 1 && b.length ≥ 1
      then some [.vec (mpn_powm b e m)] else none
  | "mpn_powlo", [.vec b, .vec e, .num n] =>
      if n ≥ 1 && b.length ≥ n.toNat && topnz e && val e > 1
      then some [.vec (mpn_powlo b e n.toNat)] else none
  | "mpn_redc_1", [.vec u, .vec m, .num invm] =>
      if m.length ≥ 1 && u.length = 2 * m.length && 0 ≤ invm && invm < (B : Int)
      then some [.vec (redc_1 u m invm.toNat)] else none
  | "mpn_redc_2", [.vec u, .vec m, .vec mip] =>
      if m.length ≥ 1 && u.length = 2 * m.length && mip.length = 2
      then some [.vec (redc_2 u m (mip.getD 0 0) (mip.getD 1 0))] else none
  | "mpn_redc_n", [.vec u, .vec m, .vec ip] =>
      -- redc_n.c: ASSERT (n > 8); ip must be the inverse of m modulo B^n
      if m.length > 8 && u.length = 2 * m.length && ip.length = m.length && odd1 m
         && (val ip * val m) % B ^ m.length = 1
      then some [.vec (toLimbs m.length (redc_n (val u) (val m) m.length (val ip)))] else none
  | "mpn_binvert", [.vec d, .num n] =>
      if n ≥ 1 && d.length ≥ n.toNat && odd1 d
      then some [.vec (toLimbs n.toNat (binvert (val (d.take n.toNat)) n.toNat))] else none
  | "mpn_pow_1", [.vec b, .num e] =>
      if b.length ≥ 1 && topnz b && 0 ≤ e && e < (B : Int)
      then some [.vec (mpn_pow_1 b e.toNat)] else none
  | _, _ => none

end Mpir.Ops.Powm
