/- `cxx_eval s<prefix syntax> z0 z1 z2 z3 q0n q0d q1n q1d q2n q2d leaf…`
   The first token is the statement in a compact prefix syntax (ASCII, hex-encoded as a byte-string
   token); built-in leaves are written `i` (mpir_si) / `u` (mpir_ui) / `d` (double bits) / `n` (shift
   count) and take their values, in order of appearance, from the tokens after the ten variable values.

     stmt := "=" ty idx tree | "new" ty tree | "op=" bin ty idx opnd | "sh=" sh ty idx "n"
           | "cmp" cmpop opnd opnd | "sgn" tree
     tree := zK | qK | qnK | qdK | un tree | bin opnd opnd | sh tree "n"          opnd := tree | "i" | "u" | "d"
     (`qnK` / `qdK`: the accessor sub-objects `Q[K].get_num()` / `Q[K].get_den()`, mpz-typed leaves)

   Answer: the value the target has afterwards (`hex` for mpz, `num den` for mpq, an int for
   comparisons) as given by `evalTmp`, i.e. by evaluating every sub-expression into its own temporary;
   `!fpe` when an MPIR exception is raised.  The answer is also cross-checked against the model of the
   expression-template strategy (`execCxx`); a difference prints `!strategy`. -/
import Mpir.Proto
import Mpir.Model.Cxx
namespace Mpir.Ops.Cxx
open Mpir Mpir.Cxx

structure PS where
  toks : List String
  leaves : List Int

def unOf : String → Option Un
  | "pos" => some .pos | "neg" => some .neg | "com" => some .com | "abs" => some .abs | "sqrt" => some .sqrt
  | _ => none

def binOf : String → Option Bin
  | "add" => some .add | "sub" => some .sub | "mul" => some .mul | "div" => some .div | "mod" => some .mod
  | "and" => some .and | "ior" => some .ior | "xor" => some .xor | "gcd" => some .gcd | "lcm" => some .lcm
  | _ => none

def shOf : String → Option Sh
  | "shl" => some .shl | "shr" => some .shr | _ => none

def cmpOf : String → Option Cmp
  | "eq" => some .eq | "ne" => some .ne | "lt" => some .lt | "le" => some .le | "gt" => some .gt
  | "ge" => some .ge | "cmp" => some .cmp | _ => none

def tyOf : String → Option Ty
  | "z" => some .z | "q" => some .q | _ => none

def varOf (s : String) : Option E :=
  match s.toList with
  | ['z', c] => if '0' ≤ c ∧ c ≤ '9' then some (.zv (c.toNat - '0'.toNat)) else none
  | ['q', c] => if '0' ≤ c ∧ c ≤ '9' then some (.qv (c.toNat - '0'.toNat)) else none
  | ['q', 'n', c] => if '0' ≤ c ∧ c ≤ '9' then some (.zn (c.toNat - '0'.toNat)) else none     -- `Q[K].get_num()`
  | ['q', 'd', c] => if '0' ≤ c ∧ c ≤ '9' then some (.zd (c.toNat - '0'.toNat)) else none     -- `Q[K].get_den()`
  | _ => none

def biOf (k : String) (v : Int) : Option Bi :=
  match k with
  | "i" => some (.si v)
  | "u" => if v < 0 then none else some (.ui v.toNat)
  | "d" => if v < 0 then none else some (.d v.toNat)
  | _ => none

mutual
def parseOpnd : Nat → PS → Option (Opnd × PS)
  | 0, _ => none
  | fuel + 1, ps =>
    match ps.toks with
    | k :: rest =>
      if k = "i" ∨ k = "u" ∨ k = "d" then
        match ps.leaves with
        | v :: ls => (biOf k v).map fun b => (.bi b, { toks := rest, leaves := ls })
        | [] => none
      else (parseTree fuel ps).map fun (e, ps') => (.ex e, ps')
    | [] => none
def parseTree : Nat → PS → Option (E × PS)
  | 0, _ => none
  | fuel + 1, ps =>
    match ps.toks with
    | [] => none
    | k :: rest =>
      let ps1 : PS := { ps with toks := rest }
      match varOf k with
      | some e => some (e, ps1)
      | none =>
      match unOf k with
      | some o => (parseTree fuel ps1).map fun (a, ps2) => (.un o a, ps2)
      | none =>
      match binOf k with
      | some o =>
        (parseOpnd fuel ps1).bind fun (a, ps2) => (parseOpnd fuel ps2).bind fun (b, ps3) =>
          match a, b with
          | .ex a, .ex b => some (.bin o a b, ps3)
          | .bi c, .ex b => some (.binL o c b, ps3)
          | .ex a, .bi c => some (.binR o a c, ps3)
          | .bi _, .bi _ => none
      | none =>
      match shOf k with
      | some o =>
        (parseTree fuel ps1).bind fun (a, ps2) =>
          match ps2.toks, ps2.leaves with
          | "n" :: r, v :: ls => if v < 0 then none else some (.sh o a v.toNat, { toks := r, leaves := ls })
          | _, _ => none
      | none => none
end

def parseIdx (s : String) : Option Nat := s.toNat?

def parseStmt (ps : PS) : Option (Stmt × PS) :=
  let fuel := ps.toks.length + 1
  match ps.toks with
  | "=" :: t :: i :: rest => do
      let t ← tyOf t; let i ← parseIdx i
      let (e, ps') ← parseTree fuel { ps with toks := rest }
      pure (.assign t i e, ps')
  | "new" :: t :: rest => do
      let t ← tyOf t
      let (e, ps') ← parseTree fuel { ps with toks := rest }
      pure (.init t e, ps')
  | "op=" :: o :: t :: i :: rest => do
      let o ← binOf o; let t ← tyOf t; let i ← parseIdx i
      let (r, ps') ← parseOpnd fuel { ps with toks := rest }
      pure (.compound o t i r, ps')
  | "sh=" :: o :: t :: i :: "n" :: rest => do
      let o ← shOf o; let t ← tyOf t; let i ← parseIdx i
      match ps.leaves with
      | v :: ls => if v < 0 then none else pure (.compoundSh o t i v.toNat, { toks := rest, leaves := ls })
      | [] => none
  | "cmp" :: o :: rest => do
      let o ← cmpOf o
      let (a, ps1) ← parseOpnd fuel { ps with toks := rest }
      let (b, ps2) ← parseOpnd fuel ps1
      pure (.cmp o a b, ps2)
  | "sgn" :: rest => do
      let (e, ps') ← parseTree fuel { ps with toks := rest }
      pure (.sgn e, ps')
  | _ => none

def nums : List Tok → Option (List Int)
  | [] => some []
  | .num v :: r => (nums r).map (v :: ·)
  | _ => none

def mkEnv (zs : List Int) (qs : List (Int × Int)) : Env :=
  { z := fun i => zs.getD i 0,
    q := fun i => match qs.getD i (0, 1) with | (n, d) => Rat.divInt n d }

def valToks : Val → List Tok
  | .z v => [.num v]
  | .q r => [.num r.num, .num (Int.ofNat r.den)]

def resToks (s : Stmt) : Res → List Tok
  | .env env => match s with
      | .assign t i _ | .compound _ t i _ | .compoundSh _ t i _ => valToks (env.get t i)
      | _ => [.err "internal"]
  | .val v => valToks v
  | .int v => [.num v]

def mkHeapFn (zs : List Int) (qs : List (Int × Int)) : ZLoc → Int
  | .v i => zs.getD i 0
  | .num i => (qs.getD i (0, 1)).1
  | .den i => (qs.getD i (0, 1)).2
def mkHeap (zs : List Int) (qs : List (Int × Int)) : Heap := ⟨mkHeapFn zs qs⟩

/-- run the model of the expression-template strategy (both answers of `__builtin_constant_p`) on an
    mpz statement and compare the target with the temporaries semantics -/
def strategyOk (h : Heap) (s : Stmt) : Bool :=
  let chk (t : Ty) (i : Nat) (e : E) : Bool :=
    [false, true].all fun c =>
      match execAssign c 4 t i e h, evalTmp h.abs e with
      | some h', some v =>
        (match t, conv t v with
         | .z, .z x => h' (.v i) == x
         | .q, .q r => h' (.num i) == r.num && h' (.den i) == Int.ofNat r.den
         | _, _ => false) &&
        ([0, 1, 2, 3].all fun j => (t == .z && j == i) || h' (.v j) == h (.v j)) &&
        ([0, 1, 2].all fun j => (t == .q && j == i) || (h' (.num j) == h (.num j) && h' (.den j) == h (.den j)))
      | none, none => true
      | _, _ => false
  match s with
  | .cmp o a b =>
    [false, true].all fun c =>
      match execCmp c 4 o a b h, execTmp h.abs (.cmp o a b) with
      | some v, some (.int w) => v == w
      | none, none => true
      | _, _ => false
  | .sgn a =>
    [false, true].all fun c =>
      match execSgn c 4 a h, execTmp h.abs (.sgn a) with
      | some v, some (.int w) => v == w
      | none, none => true
      | _, _ => false
  | .assign t i e => chk t i e
  | .compound o t i r => chk t i (expand o t i r)
  | .compoundSh o t i n => chk t i (.sh o (match t with | .z => .zv i | .q => .qv i) n)
  | _ => true

def handle : Handler
  | "cxx_eval", .str bs :: rest =>
    match nums rest with
    | none => some [.err "args"]
    | some (z0 :: z1 :: z2 :: z3 :: a :: b :: c :: d :: e :: f :: leaves) =>
      if b ≤ 0 ∨ d ≤ 0 ∨ f ≤ 0 then some [.err "args"] else
      let src := String.ofList (bs.map fun u => Char.ofNat u.toNat)
      let toks := (src.splitOn " ").filter (· ≠ "")
      match parseStmt { toks := toks, leaves := leaves } with
      | some (s, { toks := [], leaves := [] }) =>
        if !s.wt then some [.err "illtyped"] else
        let env := mkEnv [z0, z1, z2, z3] [(a, b), (c, d), (e, f)]
        if !strategyOk (mkHeap [z0, z1, z2, z3] [(a, b), (c, d), (e, f)]) s then some [.err "strategy"] else
        match execTmp env s with
        | none => some [.err "fpe"]
        | some r => some (resToks s r)
      | _ => some [.err "syntax"]
    | some _ => some [.err "args"]
  | _, _ => none

end Mpir.Ops.Cxx
