/- Driver handlers for the mpz object layer (C03 add/sub/neg/abs/mul_2exp/set/swap, C01 mul family, C05
   alias patterns).  Every op has a leading alias-mode token:
     0 all variables distinct        1 rop is the 1st input      2 rop is the 2nd input
     3 the two inputs are one variable (rop distinct)            4 all one variable
   Answer: the model's result (`!malformed` if the model's object is not well formed), then the
   values of the input variables that are not the output (unchanged by specification). -/
import Mpir.Proto
import Mpir.Model.Mpz
namespace Mpir.Ops.Mpz
open Mpir Mpir.Mpz

/-- MUL_KARATSUBA_THRESHOLD of the pinned build (mpn/x86_64/gmp-mparam.h:3).  The model's value does
    not depend on it (both sides of mul.c:83 are modelled by the schoolbook product). -/
def mulKaratsubaThreshold : Nat := 17

private def outZ (r : Mpz.Mpz) : Tok := if WF r then .num (toInt r) else .err "malformed"

/-- three-operand functions `f w u v` -/
private def bin (f : Alias → Mpz.Mpz → Mpz.Mpz → Mpz.Mpz → Mpz.Mpz) (m a b : Int) : Option (List Tok) :=
  let A := ofInt a; let B' := ofInt b
  match m with
  | 0 => some [outZ (f {} init A B'), .num a, .num b]
  | 1 => some [outZ (f { wu := true } A A B'), .num b]
  | 2 => some [outZ (f { wv := true } B' A B'), .num a]
  | 3 => if a = b then some [outZ (f { uv := true } init A A), .num a] else none
  | 4 => if a = b then some [outZ (f { wu := true, wv := true, uv := true } A A A)] else none
  | _ => none

/-- accumulating three-operand functions `f w u v` (w is read) -/
private def acc (f : Mpz.Mpz → Mpz.Mpz → Mpz.Mpz → Mpz.Mpz) (m w a b : Int) : Option (List Tok) :=
  let W := ofInt w; let A := ofInt a; let B' := ofInt b
  match m with
  | 0 => some [outZ (f W A B'), .num a, .num b]
  | 1 => some [outZ (f A A B'), .num b]
  | 2 => some [outZ (f B' A B'), .num a]
  | 3 => if a = b then some [outZ (f W A A), .num a] else none
  | 4 => if a = b then some [outZ (f A A A)] else none
  | _ => none

/-- two-operand functions `f same w u` -/
private def un (f : Bool → Mpz.Mpz → Mpz.Mpz → Mpz.Mpz) (m a : Int) : Option (List Tok) :=
  let A := ofInt a
  match m with
  | 0 => some [outZ (f false init A), .num a]
  | 1 => some [outZ (f true A A)]
  | _ => none

private def isUI (u : Int) : Bool := 0 ≤ u && u < (B : Int)
private def isSI (s : Int) : Bool := -(2 ^ 63 : Int) ≤ s && s < (2 ^ 63 : Int)

def handle : Handler
  | "mpz_add", [.num m, .num a, .num b] => bin (fun _ => Mpz.add) m a b
  | "mpz_sub", [.num m, .num a, .num b] => bin (fun _ => Mpz.sub) m a b
  | "mpz_mul", [.num m, .num a, .num b] => bin (Mpz.mul mulKaratsubaThreshold) m a b
  | "mpz_add_ui", [.num m, .num a, .num u] =>
      if isUI u then un (fun _ w x => Mpz.add_ui w x u.toNat) m a else none
  | "mpz_sub_ui", [.num m, .num a, .num u] =>
      if isUI u then un (fun _ w x => Mpz.sub_ui w x u.toNat) m a else none
  | "mpz_ui_sub", [.num m, .num u, .num a] =>
      if isUI u then un (fun _ w x => Mpz.ui_sub w u.toNat x) m a else none
  | "mpz_mul_ui", [.num m, .num a, .num u] =>
      if isUI u then un (fun _ w x => Mpz.mul_ui w x u.toNat) m a else none
  | "mpz_mul_si", [.num m, .num a, .num s] =>
      if isSI s then un (fun _ w x => Mpz.mul_si w x s) m a else none
  | "mpz_neg", [.num m, .num a] => un Mpz.neg m a
  | "mpz_abs", [.num m, .num a] => un Mpz.abs m a
  | "mpz_set", [.num m, .num a] => un (fun _ => Mpz.set) m a
  | "mpz_mul_2exp", [.num m, .num a, .num c] =>
      if 0 ≤ c && c ≤ 2 ^ 24 then un (fun _ w x => Mpz.mul_2exp w x c.toNat) m a else none
  | "mpz_swap", [.num m, .num a, .num b] =>
      match m with
      | 0 => let r := Mpz.swap (ofInt a) (ofInt b); some [outZ r.1, outZ r.2]
      | 3 => if a = b then let r := Mpz.swap (ofInt a) (ofInt a); some [outZ r.1] else none
      | _ => none
  | "mpz_addmul", [.num m, .num w, .num a, .num b] => acc Mpz.addmul m w a b
  | "mpz_submul", [.num m, .num w, .num a, .num b] => acc Mpz.submul m w a b
  | "mpz_addmul_ui", [.num m, .num w, .num a, .num u] =>
      if !isUI u then none else
      match m with
      | 0 => some [outZ (Mpz.addmul_ui (ofInt w) (ofInt a) u.toNat), .num a]
      | 1 => some [outZ (Mpz.addmul_ui (ofInt a) (ofInt a) u.toNat)]
      | _ => none
  | "mpz_submul_ui", [.num m, .num w, .num a, .num u] =>
      if !isUI u then none else
      match m with
      | 0 => some [outZ (Mpz.submul_ui (ofInt w) (ofInt a) u.toNat), .num a]
      | 1 => some [outZ (Mpz.submul_ui (ofInt a) (ofInt a) u.toNat)]
      | _ => none
  | _, _ => none

end Mpir.Ops.Mpz
