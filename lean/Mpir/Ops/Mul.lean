/- Driver handlers for the multiplication entry points and the algorithm layer (property C01).
   The oracle is Lean's own `Nat` multiplication of the operand values.  For the entry points that have a
   value-level model in `Mpir.MulAlgo` the handler ALSO runs that model (the sequence of integer operations
   of the C) and answers `!model` if it does not produce the product — so a wrong model is a disagreement. -/
import Mpir.Proto
import Mpir.Model.MulAlgo
import Mpir.Model.MulDispatch
import Mpir.Model.FftParams
import Mpir.Model.Toom8
namespace Mpir.Ops.Mul
open Mpir Mpir.MulAlgo

def P := Mpir.Gen.params

/-- product as exactly `n` limbs -/
def prodVec (u v : List Nat) : List Tok := [.vec (toLimbs (u.length + v.length) (val u * val v))]

def withTop (u v : List Nat) : List Tok :=
  let l := toLimbs (u.length + v.length) (val u * val v)
  [.vec l, natTok (l.getLastD 0)]

/-- answer with the product if the model computed it, else flag the model -/
def viaModel (m : Nat) (u v : List Nat) : List Tok :=
  if m = val u * val v then prodVec u v else [.err "model"]

def karaT : Nat := P.MUL_KARATSUBA_THRESHOLD.toNat

/-- FFT driver: the parameter model must yield sound parameters for these sizes -/
def fftAnswer (u v : List Nat) : List Tok :=
  match FftParams.fftParams P.FFT_TAB u.length v.length with
  | some c => if decide (FftParams.Sound u.length v.length c) then prodVec u v else [.err "params"]
  | none => [.err "params"]

/-- middle product MP(a, m, b, n) = Σ_{0≤i<m, 0≤j<n, n-1 ≤ i+j ≤ m-1} a_i b_j B^(i+j-n+1)  (mulmid.c)
    = Σ_j b_j · ((a / B^(n-1-j)) mod B^(m-n+1)) -/
def mulmid (a b : List Nat) : Nat :=
  let m := a.length; let n := b.length; let av := val a
  (b.zipIdx.foldl (fun acc (bj, j) => acc + bj * (av / B ^ (n - 1 - j) % B ^ (m - n + 1))) 0)

def handle : Handler
  | "mpn_mul", [.vec u, .vec v] => some (withTop u v)
  | "mpn_mul_same", [.vec u] => some (withTop u u)
  | "mpn_mul_ov", [.vec u, .num k] => some (withTop u (u.drop k.toNat))
  | "mpn_mul_n", [.vec u, .vec v] => some (prodVec u v)
  | "mpn_mul_n_same", [.vec u] => some (prodVec u u)
  | "mpn_sqr", [.vec u] => some (prodVec u u)
  | "mpn_kara_mul_n", [.vec u, .vec v] =>
      some (match kara_mul_n karaT (val u) (val v) u.length with
            | some m => viaModel m u v
            | none => [.err "model"])
  | "mpn_kara_sqr_n", [.vec u] =>
      some (match kara_mul_n P.SQR_KARATSUBA_THRESHOLD.toNat (val u) (val u) u.length with
            | some m => viaModel m u u
            | none => [.err "model"])
  | "mpn_toom3_mul_n", [.vec u, .vec v] => some (viaModel (toom3_mul_n (· * ·) (val u) (val v) u.length) u v)
  | "mpn_toom3_sqr_n", [.vec u] => some (viaModel (toom3_mul_n (· * ·) (val u) (val u) u.length) u u)
  | "mpn_toom3_mul", [.vec u, .vec v] => some (viaModel (toom3_mul (· * ·) (val u) u.length (val v) v.length) u v)
  | "mpn_toom42_mul", [.vec u, .vec v] => some (viaModel (toom42_mul (· * ·) (val u) u.length (val v) v.length) u v)
  | "mpn_toom32_mul", [.vec u, .vec v] => some (viaModel (toom32_mul (· * ·) (val u) u.length (val v) v.length) u v)
  | "mpn_toom4_mul_n", [.vec u, .vec v] => some (viaModel (toom4_mul_n (· * ·) (val u) (val v) u.length) u v)
  | "mpn_toom4_sqr_n", [.vec u] => some (viaModel (toom4_mul_n (· * ·) (val u) (val u) u.length) u u)
  | "mpn_toom4_mul", [.vec u, .vec v] => some (viaModel (toom4_mul (· * ·) (val u) u.length (val v) v.length) u v)
  | "mpn_toom53_mul", [.vec u, .vec v] => some (viaModel (toom53_mul (· * ·) (val u) u.length (val v) v.length) u v)
  | "mpn_toom8h_mul", [.vec u, .vec v] =>
      some (match Toom8.toom8h_mul (· * ·) (val u) u.length (val v) v.length with
            | some m => viaModel m u v
            | none => [.err "model"])
  | "mpn_toom8_sqr_n", [.vec u] =>
      some (match Toom8.toom8_sqr_n (fun x => x * x) (val u) u.length with
            | some m => viaModel m u u
            | none => [.err "model"])
  | "mpn_mul_fft_main", [.vec u, .vec v] => some (fftAnswer u v)
  | "mpn_mul_fft_main_same", [.vec u] => some (fftAnswer u u)
  | "mpn_mul_trunc_sqrt2", [.num same, .num _, .num _, .vec u, .vec v] => some (if same = 1 then prodVec u u else prodVec u v)
  | "mpn_mul_mfa_trunc_sqrt2", [.num same, .num _, .num _, .vec u, .vec v] => some (if same = 1 then prodVec u u else prodVec u v)
  | "mpn_mulmod_2expp1", [.num c, .num b, .vec y, .vec z] =>
      let b := b.toNat; let c := c.toNat
      let yv := if c / 2 % 2 = 1 then 2 ^ b else val y
      let zv := if c % 2 = 1 then 2 ^ b else val z
      let r := yv * zv % (2 ^ b + 1)
      some [.vec (toLimbs y.length (r % 2 ^ b)), natTok (r / 2 ^ b)]
  | "mpn_mullow_n", [.vec u, .vec v] => some [.vec (toLimbs u.length (val u * val v))]
  | "mpn_mulhigh_n", [.vec u, .vec v] => some [.vec (toLimbs u.length (val u * val v / B ^ u.length))]
  | "mpn_mulmid_n", [.vec a, .vec b] => some [.vec (toLimbs (b.length + 2) (mulmid a b))]
  | "mpn_mulmid", [.vec a, .vec b] => some [.vec (toLimbs (a.length - b.length + 3) (mulmid a b))]
  | _, _ => none

/-- `mpn_mulmod_2expm1 b [y] [z]`: any `n`-limb representative below 2^b of y·z mod 2^b−1 is accepted
    (the C documents the result as "not fully reduced": 0 may be returned as 2^b−1). -/
def pred : PredHandler
  | "mpn_mulmod_2expm1", [.num b, .vec y, .vec z], impl =>
      let b := b.toNat
      some (match impl with
        | [.vec x] =>
            if x.length ≠ y.length then some "length"
            else if ¬ decide (Limbs x) then some "limb"
            else if ¬ (val x < 2 ^ b) then some "range"
            else if b = 1 then (if val x ≤ 1 then none else some "value")     -- modulus 1: everything is 0
            else if val x % (2 ^ b - 1) = val y * val z % (2 ^ b - 1) then none else some "value"
        | _ => some "shape")
  | _, _, _ => none

end Mpir.Ops.Mul
