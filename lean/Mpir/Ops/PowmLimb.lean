/- Driver handlers for the limb level of C08 (models in Mpir/Model/PowmLimb.lean).
   `handle`: exact comparison (`mpn_redc_n_l`, `mpn_powm_m`);
   `pred`: `mpn_powm_fp` — the result must be the memory model's and the measured footprint of the
   call in its scratch area must lie where the model's stores lie. -/
import Mpir.Proto
import Mpir.Model.PowmLimb
import Mpir.Ops.Hgcd
namespace Mpir.Ops.PowmLimb
open Mpir Mpir.Powm Mpir.PowmL

/-- mpn_mulmod_bnm1_next_size of the pinned build (generated parameters) -/
def nextSize : Nat → Nat := Mpir.Ops.Hgcd.nextSize

/-- mpn_binvert_itch (binvert.c:53): itch_local + mpn_mulmod_bnm1_itch (itch_local, ..) = rn + 5·rn + 220 -/
def binvItch (n : Nat) : Nat := nextSize n + (5 * nextSize n + 220)

private def odd1 (l : List Nat) : Bool := l.headD 0 % 2 == 1
private def topnz (l : List Nat) : Bool := l.getLastD 0 != 0

private def powmPre (b e m : List Nat) : Bool :=
  m.length ≥ 1 && odd1 m && topnz m && topnz e && val e > 1 && b.length ≥ 1

def handle : Handler
  | "mpn_redc_n_l", [.vec u, .vec m, .vec ip] =>
      -- redc_n.c: ASSERT (n > 8).  Any ip: with a wrong inverse the code still runs; the model is exact as
      -- long as the residue class of x·m modulo B^rn − 1 has one representative (≠ 0) or ip is the inverse.
      let n := m.length
      let rn := nextSize n
      if n > 8 && u.length = 2 * n && ip.length = n then
        let x := (val (u.take n) * val ip) % B ^ n
        if (val ip * val m) % B ^ n = 1 || (x * val m) % (B ^ rn - 1) != 0 || x * val m = 0 then
          let r := redcN rn u m ip
          some (if r.2 || (val ip * val m) % B ^ n != 1 then [.vec r.1] else [.vec r.1, .err "wrap"])
        else none
      else none
  | "mpn_powm_m", [.vec b, .vec e, .vec m] =>
      if powmPre b e m then
        let n := m.length
        let r := mpnPowmMem REDC_1_TO_REDC_N_THRESHOLD nextSize binvItch (max (binvItch n) (2 * n)) b e m
        some (if r.2 then [.vec r.1] else [.vec r.1, .err "oob"])
      else none
  | "mpn_powlo_m", [.vec b, .vec e, .num n] =>
      -- powlo.c: bp has n limbs, {ep,en} > 1 normalised; scratch 3n limbs
      if n ≥ 1 && b.length ≥ n.toNat && topnz e && val e > 1 then
        let r := mpnPowloMem (3 * n.toNat) b e n.toNat
        some (if r.2 then [.vec r.1] else [.vec r.1, .err "oob"])
      else none
  | _, _ => none

private def bad (s : String) : Option (Option String) := some (some s)
private def ok : Option (Option String) := some none

def pred : PredHandler
  | "mpn_powm_fp", [.vec b, .vec e, .vec m], out =>
      if powmPre b e m then
        let n := m.length
        let itch := max (binvItch n) (2 * n)
        let r := mpnPowmMem REDC_1_TO_REDC_N_THRESHOLD nextSize binvItch itch b e m
        match out with
        | [.vec r', .num fp] =>
            if r' != r.1 then bad "value"
            else if !r.2 then bad "model-oob"
            else if n < REDC_1_TO_REDC_N_THRESHOLD then
              -- redc_1 branch: the model stores exactly tp[0..2n)
              if fp = (2 * n : Nat) then ok else bad "footprint"
            else
              -- redc_n branch: mpn_binvert's scratch (at most mpn_binvert_itch limbs) and tp[0..2n)
              if (2 * n : Int) ≤ fp ∧ fp ≤ (itch : Int) then ok else bad "footprint"
        | _ => bad "shape"
      else none
  | _, _, _ => none

end Mpir.Ops.PowmLimb
