/- Driver handlers for the pointer-level alias model (C05 part c05_ptr; model: Mpir/Model/AliasMem.lean).
   alias_<fn> i0 i1 i2 i3 v0 v1 v2 v3: four variables in exact-size blocks, mpz_<fn> called with the variables
   numbered i0.. (prototype order); answer = value, ALLOC and "PTR moved" of each of the four variables. -/
import Mpir.Proto
import Mpir.Model.AliasMem
namespace Mpir.Ops.Alias
open Mpir Mpir.AliasMem

def answer (r : R St) : Option (List Tok) :=
  match r with
  | .error e => some [.err e]
  | .ok s =>
    some ((List.range 4).flatMap fun i =>
      [.num (s.value i), .num (s.alloc i), .num (if s.ptr i = i then 0 else 1)])

def idx (x : Int) : Option Nat := if 0 ≤ x ∧ x ≤ 3 then some x.toNat else none

def run4 (f : Nat → Nat → Nat → Nat → St → R St) : List Tok → Option (List Tok)
  | [.num a, .num b, .num c, .num d, .num v0, .num v1, .num v2, .num v3] => do
    let a ← idx a; let b ← idx b; let c ← idx c; let d ← idx d
    if a = b then none else
    answer (f a b c d (ofInts [v0, v1, v2, v3]))
  | _ => none

def run3 (f : Nat → Nat → Nat → St → R St) : List Tok → Option (List Tok)
  | [.num a, .num b, .num c, .num d, .num v0, .num v1, .num v2, .num v3] => do
    let a ← idx a; let b ← idx b; let c ← idx c; let _ ← idx d
    answer (f a b c (ofInts [v0, v1, v2, v3]))
  | _ => none

def runB (f : Nat → Nat → Nat → St → R St) : List Tok → Option (List Tok)
  | [.num w, .num u, .num cnt, .num v0, .num v1, .num v2, .num v3] => do
    let w ← idx w; let u ← idx u
    if cnt < 0 ∨ cnt > 100000 then none else
    answer (f w u cnt.toNat (ofInts [v0, v1, v2, v3]))
  | _ => none

def runU (f : Nat → Nat → Nat → St → R (Nat × St)) : List Tok → Option (List Tok)
  | [.num w, .num u, .num d, .num v0, .num v1, .num v2, .num v3] => do
    let w ← idx w; let u ← idx u
    if d < 0 ∨ d ≥ B then none else
    match f w u d.toNat (ofInts [v0, v1, v2, v3]) with
    | .error e => some [.err e]
    | .ok (ret, s) =>
      some (.num ret :: (List.range 4).flatMap fun i =>
        [.num (s.value i), .num (s.alloc i), .num (if s.ptr i = i then 0 else 1)])
  | _ => none

def runU2 (dir : Int) : List Tok → Option (List Tok)
  | [.num q, .num r, .num u, .num d, .num v0, .num v1, .num v2, .num v3] => do
    let q ← idx q; let r ← idx r; let u ← idx u
    if q = r ∨ d < 0 ∨ d ≥ B then none else
    match div_qr_ui dir q r u d.toNat (ofInts [v0, v1, v2, v3]) with
    | .error e => some [.err e]
    | .ok (ret, s) =>
      some (.num ret :: (List.range 4).flatMap fun i =>
        [.num (s.value i), .num (s.alloc i), .num (if s.ptr i = i then 0 else 1)])
  | _ => none

def handle : Handler
  | "alias_tdiv_qr", args => run4 tdiv_qr args
  | "alias_fdiv_qr", args => run4 fdiv_qr args
  | "alias_cdiv_qr", args => run4 cdiv_qr args
  | "alias_tdiv_q", args => run3 tdiv_q args
  | "alias_tdiv_r", args => run3 tdiv_r args
  | "alias_fdiv_q", args => run3 fdiv_q args
  | "alias_fdiv_r", args => run3 fdiv_r args
  | "alias_cdiv_q", args => run3 cdiv_q args
  | "alias_cdiv_r", args => run3 cdiv_r args
  | "alias_mod", args => run3 AliasMem.mod args
  | "alias_divexact", args => run3 divexact args
  | "alias_gcd", args => run3 mpz_gcd args
  | "alias_and", args => run3 mpz_and args
  | "alias_ior", args => run3 mpz_ior args
  | "alias_xor", args => run3 mpz_xor args
  | "alias_com", args => run3 (fun w u _ => mpz_com w u) args
  | "alias_neg", args => run3 (fun w u _ => mpz_neg w u) args
  | "alias_abs", args => run3 (fun w u _ => mpz_abs w u) args
  | "alias_set", args => run3 (fun w u _ => mpz_set w u) args
  | "alias_sqrtrem", [.num a, .num b, .num c, .num _, .num v0, .num v1, .num v2, .num v3] => do
    let a ← idx a; let b ← idx b; let c ← idx c
    if a = b then none else
    let s0 := ofInts [v0, v1, v2, v3]
    match sqrtrem a b c s0 with
    | .error e => some [.err e]
    | .ok s =>
      -- the root block is replaced by free + allocate: "moved" is reported as "ALLOC changed" for root
      some ((List.range 4).flatMap fun i =>
        [.num (s.value i), .num (s.alloc i),
         .num (if i = a then (if s.alloc i = s0.alloc i then 0 else 1) else (if s.ptr i = i then 0 else 1))])
  | "alias_tdiv_q_ui", args => runU (div_q_ui 0) args
  | "alias_fdiv_q_ui", args => runU (div_q_ui (-1)) args
  | "alias_cdiv_q_ui", args => runU (div_q_ui 1) args
  | "alias_divexact_ui", [.num w, .num u, .num d, .num v0, .num v1, .num v2, .num v3] => do
    let w ← idx w; let u ← idx u
    if d ≤ 0 ∨ d ≥ B then none else answer (divexact_ui w u d.toNat (ofInts [v0, v1, v2, v3]))
  | "alias_tdiv_r_ui", args => runU (div_r_ui 0) args
  | "alias_fdiv_r_ui", args => runU (div_r_ui (-1)) args
  | "alias_cdiv_r_ui", args => runU (div_r_ui 1) args
  | "alias_tdiv_qr_ui", args => runU2 0 args
  | "alias_fdiv_qr_ui", args => runU2 (-1) args
  | "alias_cdiv_qr_ui", args => runU2 1 args
  | "alias_rootrem", [.num a, .num b, .num c, .num nth, .num v0, .num v1, .num v2, .num v3] => do
    let a ← idx a; let b ← idx b; let c ← idx c
    if a = b ∨ nth < 0 ∨ nth ≥ B then none else answer (rootrem a b c nth.toNat (ofInts [v0, v1, v2, v3]))
  | "alias_mul_2exp", args => runB mul_2exp args
  | "alias_tdiv_q_2exp", args => runB tdiv_q_2exp args
  | "alias_tdiv_r_2exp", args => runB tdiv_r_2exp args
  | "alias_cdiv_r_2exp", args => runB cdiv_r_2exp args
  | "alias_fdiv_r_2exp", args => runB fdiv_r_2exp args
  | "alias_cdiv_q_2exp", args => runB cdiv_q_2exp args
  | "alias_fdiv_q_2exp", args => runB fdiv_q_2exp args
  | _, _ => none

end Mpir.Ops.Alias
