/- Driver handlers for the mpq layer (C12, mpq part of C11, mpq alias patterns of C05).
   Variables: id 0 = fresh destination (mpq_init: 0/1), id 1 = first operand, id 2 = second operand.
   `mode` selects which ids the call receives (the alias pattern). -/
import Mpir.Proto
import Mpir.Model.Mpq
namespace Mpir.Ops.Mpq
open Mpir Mpir.Mpq

/-- 3-operand alias patterns: 0 distinct, 1 rop = op1, 2 rop = op2, 3 op1 = op2, 4 all the same -/
def ids3 : Int → Option (Nat × Nat × Nat)
  | 0 => some (0, 1, 2)
  | 1 => some (1, 1, 2)
  | 2 => some (2, 1, 2)
  | 3 => some (0, 1, 1)
  | 4 => some (1, 1, 1)
  | _ => none

/-- 2-operand alias patterns: 0 distinct, 1 dst = src -/
def ids2 : Int → Option (Nat × Nat)
  | 0 => some (0, 1)
  | 1 => some (1, 1)
  | _ => none

def heap2 (n1 d1 n2 d2 : Int) : Heap :=
  fun i => if i = 1 then ⟨n1, d1⟩ else if i = 2 then ⟨n2, d2⟩ else initQ
def heap1 (n1 d1 : Int) : Heap := fun i => if i = 1 then ⟨n1, d1⟩ else initQ

def outQ (q : Q) : List Tok := [.num q.num, .num q.den]
def out3 (h : Heap) (r a b : Nat) : List Tok := outQ (h r) ++ outQ (h a) ++ outQ (h b)
def out2 (h : Heap) (r a : Nat) : List Tok := outQ (h r) ++ outQ (h a)
def div0 : List Tok := [.err "div0"]
def sgn (c : Int) : Tok := .num (Int.sign c)

def op3 (f : Nat → Nat → Nat → Heap → Option Heap) (mode n1 d1 n2 d2 : Int) : Option (List Tok) :=
  (ids3 mode).map fun (r, a, b) =>
    match f r a b (heap2 n1 d1 n2 d2) with
    | some h => out3 h r a b
    | none => div0

def op2 (f : Nat → Nat → Heap → Option Heap) (mode n d : Int) : Option (List Tok) :=
  (ids2 mode).map fun (r, a) =>
    match f r a (heap1 n d) with
    | some h => out2 h r a
    | none => div0

def inLong (n : Int) : Bool := -(2 ^ 63) ≤ n ∧ n < 2 ^ 63
def inULong (n : Int) : Bool := 0 ≤ n ∧ n < 2 ^ 64

def handle : Handler
  | "mpq_add", [.num m, .num n1, .num d1, .num n2, .num d2] => op3 (fun r a b h => some (add r a b h)) m n1 d1 n2 d2
  | "mpq_sub", [.num m, .num n1, .num d1, .num n2, .num d2] => op3 (fun r a b h => some (sub r a b h)) m n1 d1 n2 d2
  | "mpq_mul", [.num m, .num n1, .num d1, .num n2, .num d2] => op3 (fun r a b h => some (mul r a b h)) m n1 d1 n2 d2
  | "mpq_div", [.num m, .num n1, .num d1, .num n2, .num d2] => op3 div m n1 d1 n2 d2
  | "mpq_inv", [.num m, .num n, .num d] => op2 inv m n d
  | "mpq_neg", [.num m, .num n, .num d] => op2 (fun r a h => some (neg r a h)) m n d
  | "mpq_abs", [.num m, .num n, .num d] => op2 (fun r a h => some (Mpq.abs r a h)) m n d
  | "mpq_set", [.num m, .num n, .num d] => op2 (fun r a h => some (set r a h)) m n d
  | "mpq_mul_2exp", [.num m, .num n, .num d, .num c] =>
      if inULong c then op2 (fun r a h => some (mul_2exp r a c.toNat h)) m n d else none
  | "mpq_div_2exp", [.num m, .num n, .num d, .num c] =>
      if inULong c then op2 (fun r a h => some (div_2exp r a c.toNat h)) m n d else none
  | "mpq_canonicalize", [.num n, .num d] =>
      some (match canonicalize 1 (heap1 n d) with
            | some h => outQ (h 1)
            | none => div0)
  | "mpq_set_z", [.num n0, .num d0, .num z] => some (outQ (set_z 1 z (heap1 n0 d0) 1))
  | "mpq_set_si", [.num n0, .num d0, .num n, .num d] =>
      if inLong n ∧ inULong d then some (outQ (set_si 1 n d.toNat (heap1 n0 d0) 1)) else none
  | "mpq_set_ui", [.num n0, .num d0, .num n, .num d] =>
      if inULong n ∧ inULong d then some (outQ (set_ui 1 n.toNat d.toNat (heap1 n0 d0) 1)) else none
  | "mpq_set_num", [.num n0, .num d0, .num z] => some (outQ (set_num 1 z (heap1 n0 d0) 1))
  | "mpq_set_den", [.num n0, .num d0, .num z] => some (outQ (set_den 1 z (heap1 n0 d0) 1))
  | "mpq_swap", [.num m, .num n1, .num d1, .num n2, .num d2] =>
      (match m with | 0 => some (1, 2) | 1 => some (1, 1) | _ => none).map fun (u, v) =>
        out2 (swap u v (heap2 n1 d1 n2 d2)) u v
  | "mpq_cmp", [.num m, .num n1, .num d1, .num n2, .num d2] =>
      (match m with | 0 => some (1, 2) | 1 => some (1, 1) | _ => none).map fun (u, v) =>
        [sgn (cmp u v (heap2 n1 d1 n2 d2))]
  | "mpq_equal", [.num m, .num n1, .num d1, .num n2, .num d2] =>
      (match m with | 0 => some (1, 2) | 1 => some (1, 1) | _ => none).map fun (u, v) =>
        [.num (equal u v (heap2 n1 d1 n2 d2))]
  | "mpq_cmp_z", [.num n1, .num d1, .num z] => some [sgn (cmpNumDen n1 d1 z 1)]
  | "mpq_cmp_ui", [.num n1, .num d1, .num n, .num d] =>
      if inULong n ∧ inULong d then
        some (match cmp_ui 1 n.toNat d.toNat (heap1 n1 d1) with | some c => [sgn c] | none => div0)
      else none
  | "mpq_cmp_si", [.num n1, .num d1, .num n, .num d] =>
      if inLong n ∧ inULong d then
        some (match cmp_si 1 n d.toNat (heap1 n1 d1) with | some c => [sgn c] | none => div0)
      else none
  | "mpq_set_d", [.num n0, .num d0, .num b] =>
      if inULong b then
        let bits := b.toNat
        let s := bits / 2 ^ 63 = 1
        let e := bits / 2 ^ 52 % 2048
        let f := bits % 2 ^ 52
        if e = 2047 then some [.err "invalid"]
        else some (outQ (set_d 1 s e f (heap1 n0 d0) 1))
      else none
  | "mpq_set_f", [.num n0, .num d0, .num sg, .vec l, .num e] =>
      some (outQ (set_f 1 (sg < 0) (val l) e (heap1 n0 d0) 1))
  | "mpq_get_num", [.num n, .num d, .num _] => some ([.num (get_num 1 (heap1 n d))] ++ outQ ⟨n, d⟩)
  | "mpq_get_den", [.num n, .num d, .num _] => some ([.num (get_den 1 (heap1 n d))] ++ outQ ⟨n, d⟩)
  | "mpq_get_d", [.num n, .num d] => some [natTok (get_d 1 (heap1 n d))]
  | _, _ => none

end Mpir.Ops.Mpq
