/- Driver handlers for C11: comparisons and C-type conversions (mpz, mpf, doubles as 64-bit patterns).
   mpf operands arrive as four tokens `prec size exp [limbs]`; comparison results are signs. -/
import Mpir.Proto
import Mpir.Model.Conv
namespace Mpir.Ops.Conv
open Mpir Mpir.Conv

private def isU64 (x : Int) : Bool := 0 ≤ x && x < 2 ^ 64
private def isS64 (x : Int) : Bool := -(2 ^ 63) ≤ x && x < 2 ^ 63
private def sg (x : Int) : Tok := .num (sgn x)
private def zTok (z : Z) : Tok := .num z.toInt
private def exc : List Tok := [.err "fpe"]       -- __gmp_invalid_operation: raise (SIGFPE)
private def optSg : Option Int → List Tok
  | some r => [sg r]
  | none => exc

/-- an mpf operand the harness accepts: |size| limbs, high limb non-zero, zero has exp 0, fits prec+1 limbs -/
private def mkF (prec size exp : Int) (l : List Nat) : Option F :=
  let precLimbs := ((if prec < 53 then 53 else prec) + 2 * 64 - 1) / 64      -- __GMPF_BITS_TO_PREC
  if l.length = size.natAbs && decide (Limbs l) && (l.getLast? != some 0) && (size != 0 || exp == 0)
     && decide ((l.length : Int) ≤ precLimbs + 1) && isS64 exp && decide (0 ≤ prec) then some ⟨size, exp, l⟩ else none

/-- the literal constants behind `mpz_cmp_si_c` / `mpz_cmp_ui_c` (same tables in harness/ops_conv.c) -/
private def siConst : List Int := [0, 1, 2, 0x7fff, 0x7fffffff, 0x7fffffffffffffff, -1, -0x80000000, -0x8000000000000000]
private def uiConst : List Nat := [0, 1, 0xffff, 0xffffffff, 0xffffffffffffffff]

private def fitsZ (z : Z) : List Tok :=
  [mpz_fits_ulong_p z, mpz_fits_slong_p z, mpz_fits_uint_p z, mpz_fits_sint_p z,
   mpz_fits_ushort_p z, mpz_fits_sshort_p z, mpz_fits_ui_p z, mpz_fits_si_p z].map boolTok

private def fitsF (f : F) : List Tok :=
  [mpf_fits_u (2 ^ 64 - 1) f, mpf_fits_s (2 ^ 63 - 1) (2 ^ 63) f, mpf_fits_u (2 ^ 32 - 1) f, mpf_fits_s (2 ^ 31 - 1) (2 ^ 31) f,
   mpf_fits_u (2 ^ 16 - 1) f, mpf_fits_s (2 ^ 15 - 1) (2 ^ 15) f, mpf_fits_u (2 ^ 64 - 1) f, mpf_fits_s (2 ^ 63 - 1) (2 ^ 63) f].map boolTok

private def fTok (f : F) : List Tok := [.num f.size, .num f.exp, .vec f.d]

def handle : Handler
  | "mpn_get_d", [.vec l, .num s, .num e] =>
      if decide (Limbs l) && (l.getLast? != some 0) && isS64 e then some [natTok (mpn_get_d l s e)] else none
  | "extract_double", [.num b] =>
      if isU64 b && !isNaN b.toNat && !isInf b.toNat && b < 2 ^ 63 then
        let (r0, r1, e) := extract_double b.toNat; some [.vec [r0, r1], .num e] else none
  | "mpz_get_d", [.num x] => some [natTok (mpz_get_d (Z.ofInt x))]
  | "mpz_get_d_2exp", [.num x] => let (b, e) := mpz_get_d_2exp (Z.ofInt x); some [natTok b, .num e]
  | "mpz_set_d", [.num b] => if isU64 b then some (match mpz_set_d b.toNat with | some z => [zTok z] | none => exc) else none
  | "mpz_init_set_d", [.num b] => if isU64 b then some (match mpz_set_d b.toNat with | some z => [zTok z] | none => exc) else none
  | "mpz_cmp", [.num a, .num b] => some [sg (mpz_cmp (Z.ofInt a) (Z.ofInt b))]
  | "mpz_cmpabs", [.num a, .num b] => some [sg (mpz_cmpabs (Z.ofInt a) (Z.ofInt b))]
  | "mpz_cmp_ui", [.num a, .num u] => if isU64 u then some [sg (mpz_cmp_ui_macro false (Z.ofInt a) u.toNat)] else none
  | "mpz_cmp_si", [.num a, .num s] => if isS64 s then some [sg (mpz_cmp_si_macro false (Z.ofInt a) s)] else none
  | "mpz_cmp_ui_c", [.num a, .num k] =>
      if h : 0 ≤ k ∧ k.toNat < uiConst.length then some [sg (mpz_cmp_ui_macro true (Z.ofInt a) (uiConst[k.toNat]'h.2))] else none
  | "mpz_cmp_si_c", [.num a, .num k] =>
      if h : 0 ≤ k ∧ k.toNat < siConst.length then some [sg (mpz_cmp_si_macro true (Z.ofInt a) (siConst[k.toNat]'h.2))] else none
  | "mpz_cmpabs_ui", [.num a, .num u] => if isU64 u then some [sg (mpz_cmpabs_ui (Z.ofInt a) u.toNat)] else none
  | "mpz_cmp_d", [.num a, .num b] => if isU64 b then some (optSg (mpz_cmp_d (Z.ofInt a) b.toNat)) else none
  | "mpz_cmpabs_d", [.num a, .num b] => if isU64 b then some (optSg (mpz_cmpabs_d (Z.ofInt a) b.toNat)) else none
  | "mpz_sgn", [.num a] => some [.num (mpz_sgn (Z.ofInt a))]
  -- operands given by their `_mp_size` only (huge, limbs never read because the sizes differ)
  | "mpz_cmp_sizes", [.num us, .num vs] =>
      if us ≠ vs && us.natAbs < 2 ^ 31 && vs.natAbs < 2 ^ 31 then some [sg (mpz_cmp ⟨us, []⟩ ⟨vs, []⟩)] else none
  | "mpz_cmp_si_size", [.num us, .num s] =>
      if us.natAbs ≥ 2 && us.natAbs < 2 ^ 31 && isS64 s then some [sg (mpz_cmp_si ⟨us, []⟩ s)] else none
  | "mpz_fits", [.num a] => some (fitsZ (Z.ofInt a))
  | "mpz_get", [.num a] =>
      let z := Z.ofInt a
      some [natTok (mpz_get_ui z), .num (mpz_get_si z), natTok (mpz_get_ux z), .num (mpz_get_sx z)]
  | "mpz_set_ui", [.num u] => if isU64 u then some [zTok (mpz_set_ui u.toNat)] else none
  | "mpz_set_si", [.num s] => if isS64 s then some [zTok (mpz_set_si s)] else none
  | "mpz_set_ux", [.num u] => if isU64 u then some [zTok (mpz_set_ux u.toNat)] else none
  | "mpz_set_sx", [.num s] => if isS64 s then some [zTok (mpz_set_sx s)] else none
  | "mpz_init_set_ui", [.num u] => if isU64 u then some [zTok (mpz_set_ui u.toNat)] else none
  | "mpz_init_set_si", [.num s] => if isS64 s then some [zTok (mpz_set_si s)] else none
  | "mpz_init_set_ux", [.num u] => if isU64 u then some [zTok (mpz_set_ux u.toNat)] else none
  | "mpz_init_set_sx", [.num s] => if isS64 s then some [zTok (mpz_set_sx s)] else none
  -- mpf
  | "mpf_cmp", [.num p, .num s, .num e, .vec l, .num p2, .num s2, .num e2, .vec l2] =>
      (mkF p s e l).bind fun f => (mkF p2 s2 e2 l2).map fun g => [sg (mpf_cmp f g)]
  | "mpf_cmp_ui", [.num p, .num s, .num e, .vec l, .num u] =>
      if isU64 u then (mkF p s e l).map fun f => [sg (mpf_cmp_ui f u.toNat)] else none
  | "mpf_cmp_si", [.num p, .num s, .num e, .vec l, .num v] =>
      if isS64 v then (mkF p s e l).map fun f => [sg (mpf_cmp_si f v)] else none
  | "mpf_cmp_d", [.num p, .num s, .num e, .vec l, .num b] =>
      if isU64 b then (mkF p s e l).map fun f => optSg (mpf_cmp_d f b.toNat) else none
  | "mpf_cmp_z", [.num p, .num s, .num e, .vec l, .num z] =>
      (mkF p s e l).map fun f => [sg (mpf_cmp_z f (Z.ofInt z))]
  | "mpf_sgn", [.num p, .num s, .num e, .vec l] => (mkF p s e l).map fun f => [.num (mpf_sgn f)]
  | "mpf_get_d", [.num p, .num s, .num e, .vec l] => (mkF p s e l).map fun f => [natTok (mpf_get_d f)]
  | "mpf_get_d_2exp", [.num p, .num s, .num e, .vec l] =>
      (mkF p s e l).map fun f => let (b, x) := mpf_get_d_2exp f; [natTok b, .num x]
  | "mpf_get", [.num p, .num s, .num e, .vec l] =>
      (mkF p s e l).map fun f => [.num (mpf_get_si f), natTok (mpf_get_ui f)]
  | "mpf_fits", [.num p, .num s, .num e, .vec l] => (mkF p s e l).map fitsF
  | "mpf_integer_p", [.num p, .num s, .num e, .vec l] => (mkF p s e l).map fun f => [boolTok (mpf_integer_p f)]
  | "mpf_set_d", [.num p, .num b] =>
      if isU64 b && decide (0 ≤ p) then some (match mpf_set_d b.toNat with | some f => fTok f | none => exc) else none
  | _, _ => none

end Mpir.Ops.Conv
