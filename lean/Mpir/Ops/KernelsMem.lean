/- Driver handlers for the memory-level kernel models (overlap clause of C03): ops `mem_*`.
   The buffer becomes a memory (`ofArray`), the model is run on the given offsets, and the whole buffer is
   printed afterwards (result region and frame) followed by the return value.  A request outside the
   buffer or for an overlap the manual forbids is not answered (the C side refuses it as well). -/
import Mpir.Proto
import Mpir.Model.KernelsMem
namespace Mpir.Ops.KernelsMem
open Mpir Mpir.Mem

private def dump (len : Nat) (m : Memory) : Tok := .vec ((List.range len).map m.get)
private def withRet (len : Nat) (p : Memory × Nat) : Option (List Tok) := some [dump len p.1, natTok p.2]
private def inBuf (len off n : Nat) : Bool := off + n ≤ len
private def limb (v : Int) : Bool := 0 ≤ v ∧ v < (B : Int)

/-- `[buf] upoff rpoff n` with a same-or-separate / incr / decr rule -/
private def ok2 (b : List Nat) (up rp n : Int) (nmin : Nat) (rule : Nat → Nat → Nat → Bool) : Bool :=
  0 ≤ up && 0 ≤ rp && 0 ≤ n && nmin ≤ n.toNat && inBuf b.length up.toNat n.toNat && inBuf b.length rp.toNat n.toNat &&
  rule rp.toNat up.toNat n.toNat

private def sep (rp up n : Nat) : Bool := decide (SameOrSeparate rp up n)
private def incrOk (rp up n : Nat) : Bool := decide (SameOrIncr rp up n)
private def decrOk (rp up n : Nat) : Bool := decide (SameOrDecr rp up n)

def handle : Handler
  | "mem_lshift", [.vec b, .num up, .num rp, .num n, .num c] =>
      if ok2 b up rp n 1 decrOk && 1 ≤ c && c ≤ 63 then
        withRet b.length (Mem.lshift (ofArray b.toArray) rp.toNat up.toNat n.toNat c.toNat) else none
  | "mem_rshift", [.vec b, .num up, .num rp, .num n, .num c] =>
      if ok2 b up rp n 1 incrOk && 1 ≤ c && c ≤ 63 then
        withRet b.length (Mem.rshift (ofArray b.toArray) rp.toNat up.toNat n.toNat c.toNat) else none
  | "mem_copyi", [.vec b, .num up, .num rp, .num n] =>
      if ok2 b up rp n 0 incrOk then some [dump b.length (Mem.copyi (ofArray b.toArray) rp.toNat up.toNat n.toNat)] else none
  | "mem_copyd", [.vec b, .num up, .num rp, .num n] =>
      if ok2 b up rp n 0 decrOk then some [dump b.length (Mem.copyd (ofArray b.toArray) rp.toNat up.toNat n.toNat)] else none
  | "mem_com_n", [.vec b, .num up, .num rp, .num n] =>
      if ok2 b up rp n 1 sep then some [dump b.length (Mem.com_n (ofArray b.toArray) rp.toNat up.toNat n.toNat)] else none
  | "mem_neg_n", [.vec b, .num up, .num rp, .num n] =>
      if ok2 b up rp n 1 sep then withRet b.length (Mem.neg_n (ofArray b.toArray) rp.toNat up.toNat n.toNat) else none
  | "mem_add_n", [.vec b, .num up, .num vp, .num rp, .num n] =>
      if ok2 b up rp n 1 sep && ok2 b vp rp n 1 sep then
        withRet b.length (Mem.add_n (ofArray b.toArray) rp.toNat up.toNat vp.toNat n.toNat) else none
  | "mem_sub_n", [.vec b, .num up, .num vp, .num rp, .num n] =>
      if ok2 b up rp n 1 sep && ok2 b vp rp n 1 sep then
        withRet b.length (Mem.sub_n (ofArray b.toArray) rp.toNat up.toNat vp.toNat n.toNat) else none
  | "mem_add_1", [.vec b, .num up, .num rp, .num n, .num v] =>
      if ok2 b up rp n 1 sep && limb v then
        withRet b.length (Mem.add_1 (ofArray b.toArray) rp.toNat up.toNat n.toNat v.toNat) else none
  | "mem_sub_1", [.vec b, .num up, .num rp, .num n, .num v] =>
      if ok2 b up rp n 1 sep && limb v then
        withRet b.length (Mem.sub_1 (ofArray b.toArray) rp.toNat up.toNat n.toNat v.toNat) else none
  | "mem_mul_1", [.vec b, .num up, .num rp, .num n, .num v] =>
      if ok2 b up rp n 1 incrOk && limb v then
        withRet b.length (Mem.mul_1 (ofArray b.toArray) rp.toNat up.toNat n.toNat v.toNat) else none
  | "mem_addmul_1", [.vec b, .num up, .num rp, .num n, .num v] =>
      if ok2 b up rp n 1 sep && limb v then
        withRet b.length (Mem.addmul_1 (ofArray b.toArray) rp.toNat up.toNat n.toNat v.toNat) else none
  | "mem_submul_1", [.vec b, .num up, .num rp, .num n, .num v] =>
      if ok2 b up rp n 1 sep && limb v then
        withRet b.length (Mem.submul_1 (ofArray b.toArray) rp.toNat up.toNat n.toNat v.toNat) else none
  | "mem_add", [.vec b, .num xp, .num xn, .num yp, .num yn, .num wp] =>
      if 0 ≤ xp && 0 ≤ xn && 0 ≤ yp && 0 ≤ yn && 0 ≤ wp && 1 ≤ xn && yn ≤ xn &&
         inBuf b.length xp.toNat xn.toNat && inBuf b.length yp.toNat yn.toNat && inBuf b.length wp.toNat xn.toNat &&
         decide (SameOrSeparate2 wp.toNat xn.toNat xp.toNat xn.toNat) && decide (SameOrSeparate2 wp.toNat xn.toNat yp.toNat yn.toNat) then
        withRet b.length (Mem.add (ofArray b.toArray) wp.toNat xp.toNat xn.toNat yp.toNat yn.toNat) else none
  | "mem_sub", [.vec b, .num xp, .num xn, .num yp, .num yn, .num wp] =>
      if 0 ≤ xp && 0 ≤ xn && 0 ≤ yp && 0 ≤ yn && 0 ≤ wp && 1 ≤ xn && yn ≤ xn &&
         inBuf b.length xp.toNat xn.toNat && inBuf b.length yp.toNat yn.toNat && inBuf b.length wp.toNat xn.toNat &&
         decide (SameOrSeparate2 wp.toNat xn.toNat xp.toNat xn.toNat) && decide (SameOrSeparate2 wp.toNat xn.toNat yp.toNat yn.toNat) then
        withRet b.length (Mem.sub (ofArray b.toArray) wp.toNat xp.toNat xn.toNat yp.toNat yn.toNat) else none
  | _, _ => none

end Mpir.Ops.KernelsMem
