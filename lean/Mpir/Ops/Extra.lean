/- integrator's directed ops (harness/ops_extra.c) -/
import Mpir.Proto
namespace Mpir.Ops.Extra
open Mpir
/-- value of the view: the low k limbs of |a| with high zero limbs stripped (mpz_roinit_n normalises) -/
def handle : Handler
  | "mpz_mul_view", [.num _, .num a, .num k] =>
      let v : Int := Int.ofNat (a.natAbs % (2 ^ (64 * k.toNat)))
      some [.num (a * v)]
  | _, _ => none
end Mpir.Ops.Extra
