/- integrator's directed ops (harness/ops_extra.c) -/
import Mpir.Proto
namespace Mpir.Ops.Extra
open Mpir
/-- number of trailing zero bits of x > 0: x xor (x-1) is a run of tz+1 ones -/
def tzBits (x : Nat) : Nat := (x ^^^ (x - 1)).log2

/-- x >>> k in steps of at most 2^30 bits (the runtime rejects larger single shift counts) -/
def shrBig (x k : Nat) : Nat := Id.run do
  let mut x := x
  let mut k := k
  for _ in [0:64] do
    if k > 2 ^ 30 then
      x := x >>> (2 ^ 30); k := k - 2 ^ 30
  return x >>> k

/-- value of the view: the low k limbs of |a| with high zero limbs stripped (mpz_roinit_n normalises) -/
def handle : Handler
  | "mpz_pow_shape", [.num b, .num e] =>
      let m := b.natAbs ^ e.toNat            -- Nat.pow (bignum); Int.pow is a structural recursion
      let neg := b < 0 && e.toNat % 2 == 1
      if m == 0 then some [.num 0] else
      let bits := m.log2 + 1
      let tz := tzBits m
      let odd := shrBig m tz
      let ob := bits - tz
      let lo := odd % 2 ^ 64
      let hi := if ob > 64 then shrBig odd (ob - 64) else lo
      some [.num (if neg then -1 else 1), .num bits, .num tz, .num lo, .num hi]
  | "mpz_mul_view", [.num _, .num a, .num k] =>
      let v : Int := Int.ofNat (a.natAbs % (2 ^ (64 * k.toNat)))
      some [.num (a * v)]
  | _, _ => none
/-- pattern (a natural number of `pn` limbs) repeated `reps` times, by doubling -/
def repeatLimbs (pat : Nat) (pn : Nat) : Nat → Nat
  | 0 => 0
  | r + 1 =>
    let h := (r + 1) / 2
    let x := repeatLimbs pat pn h
    let xx := x + x * 2 ^ (64 * pn * h)
    if (r + 1) % 2 == 0 then xx else xx + pat * 2 ^ (64 * pn * (2 * h))
decreasing_by all_goals omega

/-- `mpn_mod_34lsub1` promises a value congruent to the operand modulo 2^48 - 1 (gmp-impl.h), not a canonical residue -/
def pred : PredHandler
  | "mpn_mod_34lsub1_rep", [.vec pat, .num reps], out =>
      match out with
      | [.num r] =>
          let pv := pat.zipIdx.foldl (fun acc (l, i) => acc + l * 2 ^ (64 * i)) 0
          let x := repeatLimbs pv pat.length reps.toNat
          if 0 ≤ r ∧ r.toNat % (2 ^ 48 - 1) == x % (2 ^ 48 - 1) then some none else some (some "not congruent modulo 2^48-1")
      | _ => some (some "shape")
  | _, _, _ => none
end Mpir.Ops.Extra
