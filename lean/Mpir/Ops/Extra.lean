/- integrator's directed ops (harness/ops_extra.c) -/
import Mpir.Proto
namespace Mpir.Ops.Extra
open Mpir
/-- number of trailing zero bits of x > 0: x xor (x-1) is a run of tz+1 ones -/
def tzBits (x : Nat) : Nat := (x ^^^ (x - 1)).log2

/-- x >>> k in steps of at most 2^30 bits (the runtime rejects larger single shift counts) -/
def shrBig (x k : Nat) : Nat := Id.run do
  let mut x := x
  let mut k := k
  for _ in [0:64] do
    if k > 2 ^ 30 then
      x := x >>> (2 ^ 30); k := k - 2 ^ 30
  return x >>> k

/-- value of the view: the low k limbs of |a| with high zero limbs stripped (mpz_roinit_n normalises) -/
def handle : Handler
  | "mpz_pow_shape", [.num b, .num e] =>
      let m := b.natAbs ^ e.toNat            -- Nat.pow (bignum); Int.pow is a structural recursion
      let neg := b < 0 && e.toNat % 2 == 1
      if m == 0 then some [.num 0] else
      let bits := m.log2 + 1
      let tz := tzBits m
      let odd := shrBig m tz
      let ob := bits - tz
      let lo := odd % 2 ^ 64
      let hi := if ob > 64 then shrBig odd (ob - 64) else lo
      some [.num (if neg then -1 else 1), .num bits, .num tz, .num lo, .num hi]
  | "mpz_mul_view", [.num _, .num a, .num k] =>
      let v : Int := Int.ofNat (a.natAbs % (2 ^ (64 * k.toNat)))
      some [.num (a * v)]
  | _, _ => none
end Mpir.Ops.Extra
