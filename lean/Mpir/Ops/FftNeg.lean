/- Driver handlers for the negacyclic transforms (property C01): the value-level models of Mpir/Model/FftNeg.lean;
   mpn_mulmod_Bexpp1 in its FFT branch is answered by the specification (the canonical residue of the product).
   Array conventions and domains as in Mpir/Ops/FftX.lean / harness/ops_fftneg.c. -/
import Mpir.Proto
import Mpir.Model.FftNeg
import Mpir.Ops.FftX
namespace Mpir.Ops.FftNeg
open Mpir Mpir.FftX Mpir.Ops.FftX

def handle : Handler
  | "fftx_negacyclic", [.num d, .num w, .vec flat] =>
      if 1 ≤ d then (params d w).bind fun (d, w, limbs) => run (2 * 2 ^ d) limbs flat (fft_negacyclic d w) else none
  | "fftx_inegacyclic", [.num d, .num w, .vec flat] =>
      if 1 ≤ d then (params d w).bind fun (d, w, limbs) => run (2 * 2 ^ d) limbs flat (ifft_negacyclic d w) else none
  | "fftx_naive_convolution_1", [.vec ii, .vec jj] =>
      if ii.length == jj.length && ii.length ≥ 1 then some [.vec (fft_naive_convolution_1 ii jj)] else none
  | "fftx_mulmod_Bexpp1_fft", [.num same, .vec a, .vec b] =>
      if (same == 0 || same == 1) && a.length == b.length && a.length ≥ 130 && a.length ≤ 4097 &&
          a.getLastD 1 == 0 && b.getLastD 1 == 0 then
        let limbs := a.length - 1
        let b := if same == 1 then a else b
        let r := canon limbs ((val a : Int) * (val b : Int))
        some [.vec r, natTok (r.getLastD 0)]
      else none
  | _, _ => none

end Mpir.Ops.FftNeg
