/- Driver handlers for C06, divide-and-conquer conversions: the dc MODELS of Mpir/Model/RadixDc.lean against
   the real mpn_get_str / mpn_set_str / mpn_set_str_compute_powtab. -/
import Mpir.Proto
import Mpir.Model.RadixDc
namespace Mpir.Ops.RadixDc
open Mpir Mpir.Radix Mpir.RadixDc

private def bytesOf (l : List UInt8) : List Nat := l.map (·.toNat)
private def strOf (l : List Nat) : Tok := .str (l.map UInt8.ofNat)

def handle : Handler
  -- every digit mpn_get_str wrote (no stripping: the model predicts that there is no leading zero)
  | "mpn_get_str_dcmodel", [.num base, .vec up] =>
      if base < 2 ∨ base > 62 ∨ up.isEmpty then none else
      match mpn_get_str_full base.toNat up with
      | none => some [.err "table"]
      | some ds => some [strOf ds]
  -- {rp, size} exactly as mpn_set_str returned it (high zero limbs included)
  | "mpn_set_str_dcmodel", [.num base, .str s] =>
      if base < 2 ∨ base > 62 ∨ s.isEmpty then none else
      match mpn_set_str_full base.toNat (bytesOf s) with
      | none => some [.err "table"]
      | some r => some [.vec r]
  -- the table mpn_set_str_compute_powtab builds: for pi = 0 … i: shift, digits_in_base, {p, n}
  | "set_str_powtab", [.num base, .num un] =>
      if base < 2 ∨ base > 62 ∨ un < 2 then none else
      some ((setPowtab base.toNat un.toNat).flatMap (fun pw => [natTok pw.shift, natTok pw.dib, .vec pw.p]))
  | _, _ => none

end Mpir.Ops.RadixDc
