/- Driver handlers for the C04 part allocsafe5: the size-aware models of Mpir/Model/AllocSafeMpz5.lean (mpz_import, mpz_gcd,
   mpz_lcm) on objects of given allocations (conventions of Mpir/Ops/AllocSafe4.lean: token pairs `alloc value`, leading
   alias-mode token  0 all variables distinct   1 w is u   2 w is v   3 u is v (w distinct)   4 all one variable).
   Answer: ALLOC (w), SIZ (w), value of w; `!oob` if the model's run clears `ok` (for as5_import also when the byte loop would
   read outside the `count * size` bytes of data), `!malformed` if the result is not well formed. -/
import Mpir.Proto
import Mpir.Model.AllocSafeMpz5
namespace Mpir.Ops.AllocSafe5
open Mpir Mpir.AllocSafe Mpir.AllocSafe5

private def mk? (al v : Int) : Option Obj :=
  if 1 ≤ al && al ≤ 2 ^ 20 && (natLimbs v.natAbs).length ≤ al.toNat then some (mkObj al.toNat v) else none

private def outW (s : St) (w : Nat) : List Tok :=
  if !s.ok then [.err "oob"] else
  let m := view (s.h w)
  [.num m.alloc, .num m.size, if Mpz.WF m then .num (Mpz.toInt m) else .err "malformed"]

private def heap (w u v : Obj) : St := ⟨fun i => if i = 0 then w else if i = 1 then u else v, true⟩

private def run3 (f : St → Nat → Nat → Nat → St) (m : Int) (w u v : Obj) : Option (List Tok) :=
  let s := heap w u v
  match m with
  | 0 => some (outW (f s 0 1 2) 0)
  | 1 => some (outW (f s 1 1 2) 1)
  | 2 => some (outW (f s 2 1 2) 2)
  | 3 => some (outW (f s 0 1 1) 0)
  | 4 => some (outW (f s 1 1 1) 1)
  | _ => none

private def f3 (name : String) : Option (St → Nat → Nat → Nat → St) :=
  match name with
  | "as5_gcd" => some mpz_gcd
  | "as5_lcm" => some (fun s r u v => mpz_lcm s r u v 3)
  | _ => none

def handle : Handler
  | "as5_import", [.num wa, .num wv, .num count, .num order, .num size, .num endian, .num nail, .num align, .str data] => do
      let w ← mk? wa wv
      if !(0 ≤ count && count ≤ 4096 && 1 ≤ size && size ≤ 64 && 0 ≤ nail && nail ≤ 8 * size && 0 ≤ align && align < 8) then none else
      if !(order == 1 || order == -1) || !(endian == 1 || endian == 0 || endian == -1) then none else
      let bytes := data.map (·.toNat)
      if bytes.length != (count * size).toNat then none else
      let inb := (importLimbs count.toNat order size.toNat endian nail.toNat align.toNat bytes).2
      let s := mpz_import (heap w w w) 0 count.toNat order size.toNat endian nail.toNat align.toNat bytes
      if !inb then some [.err "oob"] else some (outW s 0)
  | name, [.num m, .num wa, .num wv, .num ua, .num uv, .num va, .num vv] => do
      let w ← mk? wa wv; let u ← mk? ua uv; let v ← mk? va vv
      let f ← f3 name
      run3 f m w u v
  | _, _ => none

end Mpir.Ops.AllocSafe5
