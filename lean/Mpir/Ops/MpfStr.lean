/- Driver handlers for mpf_set_str / mpf_get_str (property C13).
   `handle` answers the plain ops with the bit-exact model (Mpir/Model/MpfStr.lean).
   `pred` answers the `name?` ops with the PROPERTY'S OWN predicate evaluated on the implementation's output:
     mpf_set_str13?        return value 0 / -1 as the accepted syntax says; result well formed; |r - v| < 2^(2-p)·|v|
                           for the exact rational v the string denotes; r = v when mantissa, power and v fit in p bits
     mpf_get_str13?        alphabet, sign, at most n digits, no leading / trailing zero digit, the digits denote a
                           value within one unit of the n-th digit (`MpfStr.GetOk`); empty string and exponent 0 for 0
     mpf_str_roundtrip13?  get_str with all significant digits read back at higher precision is within 2^(1-p)
   The exact value is formed with integers; when the exponent is too large for that, b^e is enclosed in an interval
   of relative width < 2^-190 beyond the precision and the verdict must hold at both ends. -/
import Mpir.Proto
import Mpir.Model.MpfStr
import Mpir.Ops.Mpf
namespace Mpir.Ops.MpfStr
open Mpir Mpir.MpfStr
open Mpir.Ops.Mpf (Dy opnd? render closeTo fits cmpDy pbits bitlen tz)

def bytesOf (l : List UInt8) : List Nat := l.map UInt8.toNat
def strOf (l : List Nat) : Tok := .str (l.map UInt8.ofNat)

/-- the value mpf_set_str's destination holds before the call (harness/ops_mpfstr.c) -/
def preset (prec : Nat) : Mpf.F := ⟨prec, 2, -3, [5, 7]⟩

def getBaseOk (b : Int) : Bool := (2 ≤ b && b ≤ 62) || (b ≤ -2 && -36 ≤ b)

def handle : Handler
  | "mpf_set_str13", [.num rp, .num base, .str s] =>
      if rp < 2 then none else
      let r := set_str rp.toNat (preset rp.toNat) base (bytesOf s)
      some (.num r.1 :: render r.2)
  | "mpf_get_str13", .num base :: .num nd :: rest =>
      if ¬ getBaseOk base ∨ nd < 0 then none else
      match opnd? rest with
      | some (u, []) =>
          -- the hypotheses of theorem get_digits_accuracy are evaluated on every line
          if u.d.length ≠ 0 ∧ ¬ adequate base.natAbs nd.toNat u then some [.err "adequacy"] else
          let g := get_str base nd.toNat u; some [strOf g.1, .num g.2]
      | _ => none
  | "mpf_str_roundtrip13", .num base :: rest =>
      if ¬ getBaseOk base then none else
      match opnd? rest with
      | some (u, []) => let r := roundtrip base u; some (strOf r.1 :: .num r.2.1 :: render r.2.2)
      | _ => none
  | _, _ => none

/-! ### exact value / enclosure of the value a string denotes -/

/-- largest |exponent of the base| for which base^e is formed exactly -/
def exactLimit : Nat := 40000

/-- `lo·2^k ≤ b^e ≤ hi·2^k` with `hi` of at most W+1 bits -/
def powIv (b W : Nat) (e : Nat) : Nat × Nat × Nat :=
  if h : e = 0 then (1, 1, 0) else
  let r := powIv b W (e / 2)
  let lo := if e % 2 = 1 then r.1 * r.1 * b else r.1 * r.1
  let hi := if e % 2 = 1 then r.2.1 * r.2.1 * b else r.2.1 * r.2.1
  let s := bitlen hi - W
  (lo >>> s, (hi >>> s) + (if s = 0 then 0 else 1), 2 * r.2.2 + s)
termination_by e
decreasing_by omega

/-- k with b = 2^k, if any -/
def log2Exact (b : Nat) : Option Nat := if b ≥ 2 ∧ 2 ^ b.log2 = b then some b.log2 else none

/-- enclosure [lo, hi] of m · b^E (m > 0; E any integer); lo = hi when exact.  `W` = working bits. -/
def scaleIv (m : Nat) (b : Nat) (E : Int) (W : Nat) : Dy × Dy :=
  match log2Exact b with
  | some k => let v : Dy := ⟨m, 1, (k : Int) * E⟩; (v, v)
  | none =>
    let e := E.natAbs
    if e ≤ exactLimit then
      let v : Dy := if E ≥ 0 then ⟨(m * b ^ e : Nat), 1, 0⟩ else ⟨m, b ^ e, 0⟩
      (v, v)
    else
      let iv := powIv b W e
      if E ≥ 0 then (⟨(m * iv.1 : Nat), 1, iv.2.2⟩, ⟨(m * iv.2.1 : Nat), 1, iv.2.2⟩)
      else (⟨m, iv.2.1, -(iv.2.2 : Int)⟩, ⟨m, iv.1, -(iv.2.2 : Int)⟩)

def implF? (prec : Nat) : List Tok → Option Mpf.F
  | [.num s, .num e, .vec d] => some ⟨prec, s, e, d⟩
  | _ => none

/-- verdict on an mpf result `impl` that has to approximate a non-zero value enclosed by [lo, hi] (same sign) -/
def evalNear (prec : Nat) (lo hi : Dy) (mustBeExact : Bool) (p : Nat) (impl : List Tok) : Option String :=
  match implF? prec impl with
  | none => some "format"
  | some r =>
    if ¬ Mpf.WF r then some "format" else
    let R := Dy.ofF r
    let a := closeTo R lo p
    let b := closeTo R hi p
    if a ∧ b then
      (if mustBeExact ∧ cmpDy R lo ≠ 0 then some "inexact-though-representable" else none)
    else if ¬ a ∧ ¬ b then some "error-bound"
    else some "cannot-evaluate:borderline"

def predSetStr (prec : Nat) (base : Int) (s : List Nat) (impl : List Tok) : Option String :=
  match parse base s, impl with
  | none, [.num r, .num _, .num _, .vec _] => if r = -1 then none else some "accepted-invalid-string"
  | none, _ => some "format"
  | some p, .num r :: rest =>
    if r ≠ 0 then some "rejected-valid-string" else
    let M := p.mant
    if M = 0 then
      (match implF? prec rest with
       | some f => if ¬ Mpf.WF f then some "format" else if f.size = 0 then none else some "nonzero-for-zero"
       | none => some "format")
    else
      let pb := pbits prec
      let sg : Dy → Dy := fun x => if p.neg then x.neg else x
      let iv := scaleIv M p.base p.scale (pb + 256)
      -- exactness is owed when mantissa, power of the base and value each fit in p bits
      let isExactIv := cmpDy iv.1 iv.2 = 0
      let powFits := match log2Exact p.base with
        | some _ => true
        | none => p.scale.natAbs ≤ exactLimit && fits (Dy.ofInt (p.base ^ p.scale.natAbs : Nat)) pb
      let must := isExactIv && fits (Dy.ofInt M) pb && powFits && fits iv.1 pb
      evalNear prec (sg iv.1) (sg iv.2) must pb rest
  | some _, _ => some "format"

/-! ### mpf_get_str -/

def addDy (x y : Dy) : Option Dy := Dy.add x y

/-- decision for `|D - W| ≤ tol` with W enclosed by [wlo, whi] -/
def nearIv (D wlo whi tol : Dy) : Option String :=
  match addDy wlo tol, addDy D tol, addDy whi tol with
  | some a, some b, some c =>
    let ok := cmpDy D a ≤ 0 ∧ cmpDy whi b ≤ 0          -- D ≤ wlo + tol and whi ≤ D + tol
    let bad := cmpDy D c > 0 ∨ cmpDy wlo b > 0          -- D > whi + tol or wlo > D + tol
    if ok then none else if bad then some "not-within-one-unit" else some "cannot-evaluate:borderline"
  | _, _, _ => some "not-within-one-unit:magnitude"

def predGetStr (base : Int) (nd : Nat) (u : Mpf.F) (impl : List Tok) : Option String :=
  match impl with
  | [.str bytes, .num x] =>
    let bs := bytesOf bytes
    let b := base.natAbs
    if u.d.length = 0 then (if bs.isEmpty ∧ x = 0 then none else some "zero-not-empty")
    else
      let neg := u.size < 0
      let sgn := bs.head? == some 45
      let body := if sgn then bs.tail else bs
      if sgn != neg then some "sign" else
      match body.mapM (charDigit base) with
      | none => some "alphabet"
      | some ds =>
        let n := effDigits b u.prec nd
        if ds.length = 0 then some "no-digits"
        else if ds.length > n then some "too-many-digits"
        else if ds.any (fun d => decide (d ≥ b)) then some "digit-range"
        else if ds.head? == some 0 then some "leading-zero"
        else if ds.getLast? == some 0 then some "trailing-zero"
        else
          let m := val u.d
          let k : Int := 64 * (u.exp - (u.d.length : Int))
          let y : Int := x - (ds.length : Int)
          if k.natAbs ≤ 2 ^ 21 ∧ y.natAbs ≤ 2 ^ 18 then
            let num := if k ≥ 0 then m * 2 ^ k.toNat else m
            let den := if k ≥ 0 then 1 else 2 ^ (-k).toNat
            if GetOk b ds x n num den then none else some "not-within-one-unit"
          else
            -- W = m·2^k / b^y, enclosed; D must satisfy |D - W| ≤ b^-(n - L)
            let iv := scaleIv m b (-y) (64 * u.d.length + 64 * n + 256)
            let wlo : Dy := { iv.1 with e := iv.1.e + k }
            let whi : Dy := { iv.2 with e := iv.2.e + k }
            nearIv (Dy.ofInt (Radix.ofDigits b ds : Nat)) wlo whi ⟨1, b ^ (n - ds.length), 0⟩
  | _ => some "format"

def predRoundtrip (u : Mpf.F) (impl : List Tok) : Option String :=
  match impl with
  | .str _ :: .num r :: rest =>
    if r ≠ 0 then some "own-output-rejected" else
    match implF? (u.prec + 2) rest with
    | none => some "format"
    | some f =>
      if ¬ Mpf.WF f then some "format" else
      if u.d.length = 0 then (if f.size = 0 then none else some "nonzero-for-zero") else
      if closeTo (Dy.ofF f) (Dy.ofF u) (pbits u.prec + 1) then none else some "roundtrip-error"
  | _ => some "format"

def pred : PredHandler := fun op toks impl =>
  match op, toks with
  | "mpf_set_str13?", [.num rp, .num base, .str s] =>
      if rp < 2 then none else some (predSetStr rp.toNat base (bytesOf s) impl)
  | "mpf_get_str13?", .num base :: .num nd :: rest =>
      if ¬ getBaseOk base ∨ nd < 0 then none else
      match opnd? rest with
      | some (u, []) => some (predGetStr base nd.toNat u impl)
      | _ => none
  | "mpf_str_roundtrip13?", .num base :: rest =>
      if ¬ getBaseOk base then none else
      match opnd? rest with
      | some (u, []) => some (predRoundtrip u impl)
      | _ => none
  | _, _ => none

end Mpir.Ops.MpfStr
