/- Driver handlers for the C04 part allocsafe: the size-aware models of Mpir/Model/AllocSafeMpz.lean on
   objects of given allocations.  Every object is a token pair `alloc value`; leading alias-mode token
     0 all variables distinct   1 w is u   2 w is v   3 u is v (w distinct)   4 all one variable.
   Answer: ALLOC (w), SIZ (w), value of w; `!oob` if the model's run clears `ok` (an access outside a block
   or through a stale pointer), `!malformed` if the result is not well formed. -/
import Mpir.Proto
import Mpir.Model.AllocSafeMpz
namespace Mpir.Ops.AllocSafe
open Mpir Mpir.AllocSafe

private def mk? (al v : Int) : Option Obj :=
  if 1 ≤ al && al ≤ 2 ^ 20 && (natLimbs v.natAbs).length ≤ al.toNat then some (mkObj al.toNat v) else none

private def outW (s : St) (w : Nat) : List Tok :=
  if !s.ok then [.err "oob"] else
  let m := view (s.h w)
  [.num m.alloc, .num m.size, if Mpz.WF m then .num (Mpz.toInt m) else .err "malformed"]

private def heap (w u v : Obj) : St := ⟨fun i => if i = 0 then w else if i = 1 then u else v, true⟩

/-- `f (w, u, v)` -/
private def run3 (f : St → Nat → Nat → Nat → St) (m : Int) (w u v : Obj) : Option (List Tok) :=
  let s := heap w u v
  match m with
  | 0 => some (outW (f s 0 1 2) 0)
  | 1 => some (outW (f s 1 1 2) 1)
  | 2 => some (outW (f s 2 1 2) 2)
  | 3 => some (outW (f s 0 1 1) 0)
  | 4 => some (outW (f s 1 1 1) 1)
  | _ => none

/-- `f (w, u)` -/
private def run2 (f : St → Nat → Nat → St) (m : Int) (w u : Obj) : Option (List Tok) :=
  let s := heap w u u
  match m with
  | 0 => some (outW (f s 0 1) 0)
  | 1 => some (outW (f s 1 1) 1)
  | _ => none

private def isUI (u : Int) : Bool := 0 ≤ u && u < (B : Int)
private def isSI (s : Int) : Bool := -(2 ^ 63 : Int) ≤ s && s < (2 ^ 63 : Int)

private def f3 (name : String) : Option (St → Nat → Nat → Nat → St) :=
  match name with
  | "as_add" => some mpz_add
  | "as_sub" => some mpz_sub
  | _ => none

private def f2 (name : String) : Option (St → Nat → Nat → St) :=
  match name with
  | "as_set" => some mpz_set
  | "as_neg" => some mpz_neg
  | "as_abs" => some mpz_abs
  | "as_com" => some mpz_com
  | _ => none

/-- `f (w, u, k)` with the bound on k the harness imposes (0 = any limb) -/
private def fui (name : String) : Option ((St → Nat → Nat → Nat → St) × Nat) :=
  match name with
  | "as_add_ui" => some (mpz_add_ui, 0)
  | "as_sub_ui" => some (mpz_sub_ui, 0)
  | "as_mul_2exp" => some (mpz_mul_2exp, 2 ^ 20)
  | "as_tdiv_q_2exp" => some (mpz_tdiv_q_2exp, 0)
  | _ => none

def handle : Handler
  | name, [.num m, .num wa, .num wv, .num ua, .num uv, .num va, .num vv] => do
      let f ← f3 name
      let w ← mk? wa wv; let u ← mk? ua uv; let v ← mk? va vv
      run3 f m w u v
  | name, [.num m, .num wa, .num wv, .num ua, .num uv] => do
      let f ← f2 name
      let w ← mk? wa wv; let u ← mk? ua uv
      run2 f m w u
  | name, [.num m, .num wa, .num wv, .num ua, .num uv, .num k] => do
      let (f, lim) ← fui name
      if !(isUI k) || (lim != 0 && k.toNat > lim) then none else
      let w ← mk? wa wv; let u ← mk? ua uv
      run2 (fun s a b => f s a b k.toNat) m w u
  | "as_set_ui", [.num wa, .num wv, .num k] => do
      if !(isUI k) then none else
      let w ← mk? wa wv
      some (outW (mpz_set_ui (heap w w w) 0 k.toNat) 0)
  | "as_set_si", [.num wa, .num wv, .num k] => do
      if !(isSI k) then none else
      let w ← mk? wa wv
      some (outW (mpz_set_si (heap w w w) 0 k) 0)
  | _, _ => none

end Mpir.Ops.AllocSafe
