/- Driver handlers for the FFT transforms (property C01): the value-level models of Mpir/Model/FftX.lean.
   A coefficient array is ONE limb vector: the count·(limbs+1) limbs of the residues, concatenated; the answer is the
   whole array after the transform, every entry as the canonical residue (what mpn_normmod_2expp1 leaves).
   Domains as in harness/ops_fftx.c. -/
import Mpir.Proto
import Mpir.Model.FftX
namespace Mpir.Ops.FftX
open Mpir Mpir.FftX

def chunks (k : Nat) : Nat → List Nat → List (List Nat)
  | 0, _ => []
  | c + 1, l => l.take k :: chunks k c (l.drop k)

/-- flat array → residue values; `none` unless exactly `cnt` residues of `limbs+1` limbs -/
def decode (cnt limbs : Nat) (flat : List Nat) : Option (List Int) :=
  if limbs ≥ 1 && flat.length == cnt * (limbs + 1) then
    some ((chunks (limbs + 1) cnt flat).map Fft.rval) else none

def encode (limbs : Nat) (xs : List Int) : Tok := .vec (xs.flatMap (canon limbs))

def isPow2 (m : Nat) : Bool := m ≥ 1 && 2 ^ Nat.log2 m == m

/-- depth d ≤ 8 (n = 2^d), 1 ≤ w < 2^20, limbs = n·w/64 exact and in [1, 64] -/
def params (d w : Int) : Option (Nat × Nat × Nat) :=
  if 0 ≤ d && d ≤ 8 && 1 ≤ w && w < 2 ^ 20 then
    let d := d.toNat; let w := w.toNat
    let nw := 2 ^ d * w
    if nw % 64 == 0 && nw / 64 ≥ 1 && nw / 64 ≤ 64 then some (d, w, nw / 64) else none
  else none

/-- trunc even, lo < trunc ≤ hi -/
def truncOk (t : Int) (lo hi : Nat) : Bool := 0 ≤ t && t.toNat % 2 == 0 && lo < t.toNat && t.toNat ≤ hi

def run (cnt limbs : Nat) (flat : List Nat) (f : List Int → List Int) : Option (List Tok) :=
  (decode cnt limbs flat).map fun xs => [encode limbs (f xs)]

def handle : Handler
  | "fftx_radix2", [.num d, .num w, .vec flat] =>
      (params d w).bind fun (d, w, limbs) => run (2 * 2 ^ d) limbs flat (fft_radix2 d w)
  | "fftx_iradix2", [.num d, .num w, .vec flat] =>
      (params d w).bind fun (d, w, limbs) => run (2 * 2 ^ d) limbs flat (ifft_radix2 d w)
  | "fftx_trunc1", [.num d, .num w, .num t, .vec flat] =>
      (params d w).bind fun (d, w, limbs) =>
        if truncOk t 0 (2 * 2 ^ d) then run (2 * 2 ^ d) limbs flat (fft_trunc1 d w t.toNat) else none
  | "fftx_trunc", [.num d, .num w, .num t, .vec flat] =>
      (params d w).bind fun (d, w, limbs) =>
        if truncOk t 0 (2 * 2 ^ d) then run (2 * 2 ^ d) limbs flat (fft_trunc d w t.toNat) else none
  | "fftx_itrunc1", [.num d, .num w, .num t, .vec flat] =>
      (params d w).bind fun (d, w, limbs) =>
        if truncOk t 0 (2 * 2 ^ d) then run (2 * 2 ^ d) limbs flat (ifft_trunc1 d w t.toNat) else none
  | "fftx_itrunc", [.num d, .num w, .num t, .vec flat] =>
      (params d w).bind fun (d, w, limbs) =>
        if truncOk t 0 (2 * 2 ^ d) then run (2 * 2 ^ d) limbs flat (ifft_trunc d w t.toNat) else none
  | "fftx_trunc_sqrt2", [.num d, .num w, .num t, .vec flat] =>
      (params d w).bind fun (d, w, limbs) =>
        if truncOk t (2 * 2 ^ d) (4 * 2 ^ d) then run (4 * 2 ^ d) limbs flat (fft_trunc_sqrt2 d w t.toNat) else none
  | "fftx_itrunc_sqrt2", [.num d, .num w, .num t, .vec flat] =>
      (params d w).bind fun (d, w, limbs) =>
        if truncOk t (2 * 2 ^ d) (4 * 2 ^ d) then run (4 * 2 ^ d) limbs flat (ifft_trunc_sqrt2 d w t.toNat) else none
  | "fftx_mfa", [.num d, .num w, .num n1, .num t, .vec flat] =>
      (params d w).bind fun (d, w, limbs) =>
        if 2 ≤ n1 && n1.toNat ≤ 2 ^ d && isPow2 n1.toNat && truncOk t (2 * 2 ^ d) (4 * 2 ^ d) && t.toNat % (2 * n1.toNat) == 0 then
          run (4 * 2 ^ d) limbs flat (fft_mfa_trunc_sqrt2 d w n1.toNat t.toNat) else none
  | "fftx_imfa", [.num d, .num w, .num n1, .num t, .vec flat] =>
      (params d w).bind fun (d, w, limbs) =>
        if 2 ≤ n1 && n1.toNat ≤ 2 ^ d && isPow2 n1.toNat && truncOk t (2 * 2 ^ d) (4 * 2 ^ d) && t.toNat % (2 * n1.toNat) == 0 then
          run (4 * 2 ^ d) limbs flat (ifft_mfa_trunc_sqrt2 d w n1.toNat t.toNat) else none
  | "fftx_revbin", [.num x, .num bits] =>
      if 0 ≤ bits && bits ≤ 20 && 0 ≤ x && x < 2 ^ bits.toNat then some [natTok (revbin x.toNat bits.toNat)] else none
  | "fftx_mul_trunc_sqrt2", [.num depth, .num w, .vec u, .vec v] =>
      if 1 ≤ depth && depth ≤ 12 && 1 ≤ w && w < 2 ^ 20 && u.length ≥ 1 && v.length ≥ 1 then
        let depth := depth.toNat; let w := w.toNat
        let n := 2 ^ depth
        if n * w % 64 == 0 && n * w > depth + 1 && (n * w - (depth + 1)) / 2 ≥ 1 then
          let bits1 := (n * w - (depth + 1)) / 2
          let j1 := (u.length * 64 - 1) / bits1 + 1
          let j2 := (v.length * 64 - 1) / bits1 + 1
          if j1 + j2 - 1 ≤ 4 * n then some [.vec (mul_trunc_sqrt2 u v depth w)] else none
        else none
      else none
  | _, _ => none

end Mpir.Ops.FftX
