/- Driver handlers for mpn_mulmod_2expm1 / mpn_mulmod_bnm1 (model Mpir/Model/Mulmod2expm1.lean), exact comparison. -/
import Mpir.Proto
import Mpir.Model.Mulmod2expm1
import Mpir.Ops.Hgcd
import Mpir.Ops.PowmLimb
import Mpir.Model.PowmReal
import Mpir.Gen.Params
namespace Mpir.Ops.Mulmod2expm1
open Mpir Mpir.Mm1 Mpir.Powm Mpir.PowmL Mpir.PowmR

private def thr : Nat := Mpir.Gen.params.MULMOD_2EXPM1_THRESHOLD.toNat

private def out (r : List Nat × Bool) : List Tok := if r.2 then [.vec r.1] else [.vec r.1, .err "carry"]

def handle : Handler
  | "mpn_mulmod_2expm1_x", [.num b, .vec y, .vec z] =>
      let b := b.toNat
      let n := (b + 63) / 64
      -- ASSERTs of mulmod_2expm1.c:128-133: b > 0, n limbs, below 2^b
      if b ≥ 1 && y.length = n && z.length = n && val y < 2 ^ b && val z < 2 ^ b then
        some (out (mm1 thr Fft.mulmod_2expp1_basecase y z b))
      else none
  | "mpn_mulmod_bnm1_x", [.num rn, .vec a, .vec b] =>
      let rn := rn.toNat
      if 0 < b.length && b.length ≤ a.length && a.length ≤ rn then
        some (out (bnm1 thr Fft.mulmod_2expp1_basecase rn a b))
      else none
  | "mpn_redc_n_r", [.vec u, .vec m, .vec ip] =>
      -- redc_n.c: ASSERT (n > 8); ip the inverse of m modulo B^n (any other ip: op mpn_redc_n_l)
      let n := m.length
      if n > 8 && u.length = 2 * n && ip.length = n && (val ip * val m) % B ^ n = 1 then
        some (out (redcNR thr Fft.mulmod_2expp1_basecase (Mpir.Ops.PowmLimb.nextSize n) u m ip))
      else none
  | "mpn_powm_r", [.vec b, .vec e, .vec m] =>
      let n := m.length
      if n ≥ 1 && m.headD 0 % 2 == 1 && m.getLastD 0 != 0 && e.getLastD 0 != 0 && val e > 1 && b.length ≥ 1 then
        let itch := max (Mpir.Ops.PowmLimb.binvItch n) (2 * n)
        some (out (mpnPowmMemR REDC_1_TO_REDC_N_THRESHOLD thr Fft.mulmod_2expp1_basecase Mpir.Ops.PowmLimb.nextSize
          Mpir.Ops.PowmLimb.binvItch itch b e m))
      else none
  | "mpn_mulmod_bnm1_next_size", [.num n] =>
      if n ≥ 1 then some [natTok (Mpir.Ops.Hgcd.nextSize n.toNat)] else none
  | _, _ => none

end Mpir.Ops.Mulmod2expm1
