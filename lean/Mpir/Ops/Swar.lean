/- Driver handlers for C10 part `swar`: `sw_popcount [limbs]`, `sw_hamdist [u] [v]` answered by the statement-level
   SWAR model of Mpir/Model/Swar.lean (mpn/generic/popcount.c, hamdist.c). -/
import Mpir.Proto
import Mpir.Model.Swar
namespace Mpir.Ops.Swar
open Mpir

def handle : Handler
  | "sw_popcount", [.vec u] =>
      if u.length ≥ 1 then some [natTok (Swar.mpn_popcount u)] else none
  | "sw_hamdist", [.vec u, .vec v] =>
      if u.length == v.length && u.length ≥ 1 then some [natTok (Swar.mpn_hamdist u v)] else none
  | _, _ => none
end Mpir.Ops.Swar
