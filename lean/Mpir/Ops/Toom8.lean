/- Driver handlers for the helpers of Toom-8.5 (property C01, part c01_toom8): every answer is computed by the
   value-level MODEL of the helper (lean/Mpir/Model/Toom8.lean) and printed as the limbs the C stores, so an agreement
   ties the model the theorems are about.  A model value that does not fit the C's buffer, an inexact division or a
   negative value where the C shifts logically is answered `!model`. -/
import Mpir.Proto
import Mpir.Model.Toom8
namespace Mpir.Ops.Toom8
open Mpir Mpir.Toom8

/-- `{xp, k*n + m}` as k+1 blocks -/
def blk (x : List Nat) (n k : Nat) : List Nat := blocks (val x) (B ^ n) k

def evalOut (n : Nat) (e : Eval) : List Tok :=
  if e.plus < B ^ (n + 1) ∧ e.minus < B ^ (n + 1) then
    [.vec (toLimbs (n + 1) e.plus), .vec (toLimbs (n + 1) e.minus), .num (if e.neg then 1 else 0)]
  else [.err "model"]

def sliceVal (l : List Nat) (off len : Nat) : Nat := val ((l.drop off).take len)

def handle : Handler
  | "toom_eval_pm1", [.num k, .num n, .vec x] => some (evalOut n.toNat (evalPm1 (blk x n.toNat k.toNat)))
  | "toom_eval_dgr3_pm1", [.num n, .vec x] => some (evalOut n.toNat (evalDgr3Pm1 (blk x n.toNat 3)))
  | "toom_eval_pm2", [.num k, .num n, .vec x] => some (evalOut n.toNat (evalPm2 (blk x n.toNat k.toNat)))
  | "toom_eval_pm2exp", [.num k, .num n, .num sh, .vec x] => some (evalOut n.toNat (evalPm2exp (blk x n.toNat k.toNat) sh.toNat))
  | "toom_eval_pm2rexp", [.num q, .num n, .num s, .vec x] => some (evalOut n.toNat (evalPm2rexp (blk x n.toNat q.toNat) s.toNat))
  | "toom_couple", [.vec pp, .vec np, .num nsign, .num off, .num ps, .num ns] =>
      let n := pp.length
      let c := coupleHandling (val pp) (val np) (nsign != 0) ((B : Int) ^ off.toNat) ps.toNat ns.toNat
      some (if c.val < 0 ∨ c.halved % 2 ≠ 0 ∨ c.halved < 0 ∨ c.shifted.any (· < 0) ∨ c.val ≥ (B : Int) ^ (n + off.toNat)
            then [.err "model"] else [.vec (toLimbs (n + off.toNat) c.val.toNat)])
  | "toom_interp16", [.num n, .num spt, .num half, .vec pp, .vec r1, .vec r3, .vec r5, .vec r7] =>
      let n := n.toNat; let spt := spt.toNat; let half := half != 0
      let W : Int := (B : Int) ^ n
      let r8 := sliceVal pp 0 (2 * n)
      let r6 := sliceVal pp (3 * n) (3 * n + 1)
      let r4 := sliceVal pp (7 * n) (3 * n + 1)
      let r2 := sliceVal pp (11 * n) (3 * n + 1)
      let r0 := if half then sliceVal pp (15 * n) spt else 0
      let r := interp16 r8 (val r7) r6 (val r5) r4 (val r3) r2 (val r1) r0 W half
      let ok := r.divs.all (fun p => p.1 % p.2 = 0) && r.shifts.all (fun p => decide (0 ≤ p.1))
      let v := recompose16 W r
      some (if ok ∧ v < B ^ pp.length then [.vec (toLimbs pp.length v)] else [.err "model"])
  | _, _ => none

end Mpir.Ops.Toom8
