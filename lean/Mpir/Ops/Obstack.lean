/- Driver handlers for the obstack ops (property C18, part c18_obstack); C side: harness/ops_obstack.c.
   The text and the count come from the SAME call sequence `Printf.doprnt` gives the gmp_asprintf /
   gmp_snprintf handlers (lean/Mpir/Ops/Printf.lean), run through the obstack callbacks of
   lean/Mpir/Model/Obstack.lean; `MpirProofs/Props/C18_obstack.lean` proves that this is the asprintf text
   piece by piece (so `!model-…` markers can never be printed). -/
import Mpir.Proto
import Mpir.Model.Obstack
import Mpir.Ops.Printf
namespace Mpir.Ops.Obstack
open Mpir Mpir.Printf Mpir.Obstack Mpir.Ops.Printf

/-- tokens one type letter consumes (build_args in harness/ops_printf.c) -/
def tokensOf (t : Char) : Option Nat :=
  if t = 'i' ∨ t = 'M' ∨ t = 's' ∨ t = 'Z' then some 1
  else if t = 'Q' ∨ t = 'N' then some 2
  else if t = 'F' then some 4
  else if t = 'n' ∨ t = 'l' ∨ t = 'z' ∨ t = 'q' ∨ t = 'b' then some 0
  else none

def tokensOfTypes : List Char → Option Nat
  | [] => some 0
  | t :: ts => match tokensOf t, tokensOfTypes ts with
    | some a, some b => some (a + b)
    | _, _ => none

/-- one piece: its call sequence, and the tokens its `%n` targets print -/
structure Piece where
  calls : List Call
  retval : Nat
  stores : List Tok

def piece (fmt types : List UInt8) (toks : List Tok) : Option Piece :=
  match buildArgs (toChars types) toks with
  | none => none
  | some (args, tgs) =>
    match doprnt (toChars fmt) args with
    | none => none
    | some r => some { calls := r.calls, retval := r.retval, stores := storesOut r.stores tgs }

def small : Tok → Option Nat
  | .num v => if 0 ≤ v ∧ v < 2 ^ 64 then some v.toNat else none
  | _ => none

/-- the checks of ob_params -/
def paramsOk (chunk pre stats : Nat) : Bool :=
  (chunk == 0 || (48 ≤ chunk && chunk ≤ 65536)) && (if chunk == 0 then pre ≤ 2048 else pre + 16 ≤ chunk) &&
  stats ≤ 1

/-- ob_open … ob_close: the pieces, then obstack_1grow (ob, 0); print sum, object without the terminator,
    [chunks allocated, chunks freed], stores. -/
def finish (chunk pre stats : Nat) (ps : List Piece) : List Tok :=
  let (o, sum) := obSeq (init chunk pre) (ps.map (·.calls)) 0
  let o := grow o [Char.ofNat 0]
  let text := o.text
  let hasFormat := ps.any (fun p => p.calls.any (fun c => match c with | .format _ => true | _ => false))
  [natTok sum] ++
  (if o.initialised then [] else [.err "model-uninitialised"]) ++
  (if o.stale = 0 ∧ o.ok then [] else [.err "model-stale"]) ++
  (if sum = (ps.map (·.retval)).sum then [] else [.err "model-count"]) ++
  [strT text.dropLast] ++
  (if stats = 1 then (if hasFormat then [.err "model-stats-with-libc-piece"] else [natTok (o.cur + 1), natTok o.freed.length]) else []) ++
  ps.flatMap (·.stores)

def seq (fmt types : List UInt8) (rest : List Tok) : List Tok :=
  match rest.reverse with
  | st :: pr :: ch :: rp :: argsRev =>
    match small st, small pr, small ch, small rp with
    | some stats, some pre, some chunk, some reps =>
      if ¬ paramsOk chunk pre stats ∨ reps = 0 ∨ reps > 4096 then unsupported else
      match piece fmt types argsRev.reverse with
      | none => unsupported
      | some p =>
        -- the stores are made by every call with the same values: printed once
        let out := finish chunk pre stats (List.replicate reps { p with stores := [] })
        out ++ p.stores
    | _, _, _, _ => unsupported
  | _ => unsupported

/-- split the token list into `n` pieces `s<fmt> s<types> args…` -/
def pieces : Nat → List Tok → Option (List Piece)
  | 0, [] => some []
  | 0, _ => none
  | n + 1, .str fmt :: .str types :: rest =>
    match tokensOfTypes (toChars types) with
    | none => none
    | some k =>
      if rest.length < k then none else
      match piece fmt types (rest.take k), pieces n (rest.drop k) with
      | some p, some ps => some (p :: ps)
      | _, _ => none
  | _ + 1, _ => none

def mix : List Tok → List Tok
  | ch :: pr :: st :: nn :: rest =>
    match small ch, small pr, small st, small nn with
    | some chunk, some pre, some stats, some n =>
      if ¬ paramsOk chunk pre stats ∨ n > 64 then unsupported else
      match pieces n rest with
      | some ps => finish chunk pre stats ps
      | none => unsupported
    | _, _, _, _ => unsupported
  | _ => unsupported

def handle : Handler
  | "gmp_obstack_seq", .str f :: .str t :: r => some (seq f t r)
  | "gmp_obstack_vseq", .str f :: .str t :: r => some (seq f t r)
  | "gmp_obstack_mix", r => some (mix r)
  | "gmp_obstack_vmix", r => some (mix r)
  | _, _ => none

end Mpir.Ops.Obstack
