/- Driver handlers for the FFT ring layer (property C01): the limb-level models of Mpir/Model/FftRing.lean answer
   bit-exact (all limbs+1 limbs, including inputs the C modifies in place).  Domains as in harness/ops_fft.c. -/
import Mpir.Proto
import Mpir.Model.FftRing
namespace Mpir.Ops.FftRing
open Mpir Mpir.Fft

def cutoff : Nat := 128      -- FFT_MULMOD_2EXPP1_CUTOFF (gmp-mparam.h:83); the C op rejects larger sizes itself

def vecsOf : List Tok → Option (List (List Nat))
  | [] => some []
  | .vec v :: ts => (vecsOf ts).map (v :: ·)
  | _ => none

def res2 (a b : List Nat) : Bool := a.length ≥ 2 && a.length == b.length
def small (i w : Int) : Bool := 0 ≤ i && i < 2 ^ 24 && 0 ≤ w && w < 2 ^ 24
def normalised (a : List Nat) : Bool := top a == 0 || (top a == 1 && (lo a).all (· == 0))

def handle : Handler
  | "fft_normmod", [.vec r] =>
      if r.length ≥ 2 && top r != 2 ^ 63 then some [.vec (normmod r)] else none
  | "fft_mul_2expmod", [.vec r, .num d] =>
      if r.length ≥ 2 && 0 ≤ d && d < 64 then some [.vec (mul_2expmod r d.toNat)] else none
  | "fft_mul_2expmod_ip", [.vec r, .num d] =>
      if r.length ≥ 2 && 0 ≤ d && d < 64 then some [.vec (mul_2expmod r d.toNat)] else none
  | "fft_div_2expmod", [.vec r, .num d] =>
      if r.length ≥ 2 && 0 ≤ d && d < 64 then some [.vec (div_2expmod r d.toNat)] else none
  | "fft_div_2expmod_ip", [.vec r, .num d] =>
      if r.length ≥ 2 && 0 ≤ d && d < 64 then some [.vec (div_2expmod r d.toNat)] else none
  | "fft_adjust", [.vec r, .num i, .num w] =>
      if r.length ≥ 2 && small i w && i.toNat * w.toNat / 64 ≤ r.length - 1 && top r != 2 ^ 63 then
        some [.vec (adjust r i.toNat w.toNat)] else none
  | "fft_adjust_sqrt2", [.vec r, .num i, .num w] =>
      let wn := (r.length - 1) * 64
      if r.length ≥ 2 && small i w && top r != 2 ^ 63 && i.toNat / 2 + wn / 4 + i.toNat * (w.toNat / 2) < 2 * wn then
        some [.vec (adjust_sqrt2 r i.toNat w.toNat)] else none
  | "fft_butterfly_lshB", [.vec a, .vec b, .num x, .num y] =>
      if res2 a b && 0 ≤ x && 0 ≤ y && x.toNat ≤ a.length - 1 && y.toNat ≤ a.length - 1 then
        let (t, u) := butterfly_lshB a b x.toNat y.toNat
        some [.vec t, .vec u] else none
  | "fft_butterfly_rshB", [.vec a, .vec b, .num x, .num y] =>
      if res2 a b && 0 ≤ x && 0 ≤ y && x.toNat ≤ a.length - 1 && y.toNat ≤ a.length - 1 then
        let (t, u, a', b') := butterfly_rshB a b x.toNat y.toNat
        some [.vec t, .vec u, .vec a', .vec b'] else none
  | "fft_butterfly", [.vec a, .vec b, .num i, .num w] =>
      if res2 a b && small i w && i.toNat * w.toNat / 64 ≤ a.length - 1 then
        let (s, t) := fft_butterfly a b i.toNat w.toNat
        some [.vec s, .vec t] else none
  | "ifft_butterfly", [.vec a, .vec b, .num i, .num w] =>
      if res2 a b && small i w && i.toNat * w.toNat / 64 ≤ a.length - 1 then
        let (s, t, b') := ifft_butterfly a b i.toNat w.toNat
        some [.vec s, .vec t, .vec b'] else none
  | "fft_butterfly_sqrt2", [.vec a, .vec b, .num i, .num w] =>
      let wn := (a.length - 1) * 64
      if res2 a b && small i w && i.toNat / 2 + wn / 4 + i.toNat * (w.toNat / 2) < 2 * wn then
        let (s, t) := fft_butterfly_sqrt2 a b i.toNat w.toNat
        some [.vec s, .vec t] else none
  | "ifft_butterfly_sqrt2", [.vec a, .vec b, .num i, .num w] =>
      let wn := (a.length - 1) * 64
      if res2 a b && small i w && i.toNat / 2 + i.toNat * (w.toNat / 2) + 1 ≤ wn then
        let (s, t, b') := ifft_butterfly_sqrt2 a b i.toNat w.toNat
        some [.vec s, .vec t, .vec b'] else none
  | "fft_butterfly_twiddle", [.vec s, .vec t, .num b1, .num b2] =>
      let nw := (s.length - 1) * 64
      if res2 s t && 0 ≤ b1 && 0 ≤ b2 && b1.toNat < 2 * nw && b2.toNat < 2 * nw then
        let (u, v) := fft_butterfly_twiddle s t b1.toNat b2.toNat
        some [.vec u, .vec v] else none
  | "ifft_butterfly_twiddle", [.vec s, .vec t, .num b1, .num b2] =>
      let nw := (s.length - 1) * 64
      if res2 s t && 0 ≤ b1 && 0 ≤ b2 && b1.toNat < 2 * nw && b2.toNat < 2 * nw then
        let (u, v, s', t') := ifft_butterfly_twiddle s t b1.toNat b2.toNat
        some [.vec u, .vec v, .vec s', .vec t'] else none
  | "fft_split_bits", [.vec x, .num bits, .num ol] =>
      if x.length ≥ 1 && 1 ≤ bits && 0 ≤ ol && (bits.toNat + 63) / 64 ≤ ol.toNat + 1 then
        let cs := split_bits x bits.toNat ol.toNat
        some (natTok cs.length :: cs.map Tok.vec) else none
  | "fft_combine_bits", .vec res :: .num bits :: .num ol :: cs =>
      match vecsOf cs with
      | some cs =>
          if res.length ≥ 1 && 1 ≤ bits && 1 ≤ ol && cs.length ≤ 60 && cs.all (·.length == ol.toNat + 1) then
            some [.vec (combine_bits res cs bits.toNat ol.toNat)] else none
      | none => none
  | "fft_mulmod_2expp1", [.num c, .num b, .vec y, .vec z] =>
      let bb := b.toNat; let n := (bb + 63) / 64; let k := 64 * n - bb
      if 0 ≤ c && c ≤ 3 && 1 ≤ b && y.length == n && z.length == n && (k != 0 || n ≤ cutoff) then
        let (x, r) := mulmod_2expp1_basecase y z c.toNat bb
        some [.vec x, natTok r] else none
  | "fft_mulmod_Bexpp1", [.vec a, .vec b] =>
      if res2 a b && a.length - 1 ≤ cutoff && normalised a && normalised b then
        let (r, ret) := mulmod_Bexpp1 a b
        some [.vec r, natTok ret] else none
  | _, _ => none

end Mpir.Ops.FftRing
