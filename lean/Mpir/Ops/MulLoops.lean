/- Driver handlers for the combining loops of mpn_mul (property C01, part c01_loops).  The answer is what the
   LIMB-LEVEL MODEL of Mpir/Model/MulLoops.lean computes (chunk loop, slide loop, dispatch by the generated skeleton) —
   never Nat multiplication of the operand values — followed by the limb mpn_mul returns (the top limb).
   `!nomodel`: the model refuses (a carry left its chunk product, or a callee without a model is reached): a
   disagreement by construction, the generators only produce covered sizes. -/
import Mpir.Proto
import Mpir.Model.MulLoops
namespace Mpir.Ops.MulLoops
open Mpir

def P := Mpir.Gen.params

def answer : Option (List Nat) → List Tok
  | some r => [.vec r, natTok (r.getLastD 0)]
  | none => [.err "nomodel"]

def handle : Handler
  | "mpn_mul_chunkmodel", [.vec u, .vec v] =>
      some (answer (Mpir.MulLoops.mulChunked P.MUL_BASECASE_MAX_UN.toNat u v))
  | "mpn_mul_model", [.vec u, .vec v] => some (answer (Mpir.MulLoops.mpnMulModel P u v))
  | _, _ => none

end Mpir.Ops.MulLoops
