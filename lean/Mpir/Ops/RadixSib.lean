/- Driver handlers for C06 part c06_sib: mpz_sizeinbase on operands given by shape (b0^n + d). -/
import Mpir.Proto
import Mpir.Ops.Radix
namespace Mpir.Ops.RadixSib
open Mpir Mpir.Radix Mpir.Ops.Radix

/-- `mpz_sizeinbase_shape b0 n d base`: both answers of the implementation (mpz_sizeinbase and the macro
    MPN_SIZEINBASE on the same limbs) must agree, satisfy the property (digit count or one more; exact for a
    power of two) and equal the model's answer. -/
def pred : PredHandler
  | "mpz_sizeinbase_shape", [.num b0, .num n, .num d, .num base], impl =>
      let b := base.toNat
      let x : Int := Int.ofNat (b0.toNat ^ n.toNat) + d
      match impl with
      | [.num r, .num r2] =>
          if r != r2 then some (some "macro-differs")
          else if pow2P b then
            (if r == Int.ofNat (modelSize b x) && r == Int.ofNat (digitCount b x) then some none
             else some (some s!"model:{modelSize b x}"))
          else some (sizeVerdict b x r)
      | _ => some (some "output")
  | _, _, _ => none

end Mpir.Ops.RadixSib
