/- Driver handlers for property C09 (roots, remainders, perfect-square / perfect-power predicates).
   Every answer is the SPECIFICATION value (Nat.sqrt, iroot, isSquare, isPerfectPower); the executable
   MODEL of the C (Mpir/Model/Root.lean) is evaluated on the same input and a disagreement between
   model and specification is reported as the extra token `!modelspec` (run-time model==spec assertion),
   so a divergence of either from the implementation shows up in the differential run. -/
import Mpir.Proto
import Mpir.Model.Root
namespace Mpir.Ops.Root
open Mpir Mpir.Root

private def chk (ok : Bool) (out : List Tok) : List Tok := if ok then out else out ++ [.err "modelspec"]

private def exc {α} (e : Except String α) (f : α → List Tok) : List Tok :=
  match e with
  | .error _ => [.err "fpe"]    -- errno.c: __gmp_exception ignores its error_bit (gmp_errno stays 0), so
                                -- SQRT_OF_NEGATIVE and DIVIDE_BY_ZERO are both a bare SIGFPE to the caller
  | .ok a => f a

/-- spec of mpz_root & co: exceptions as the C raises them, truncated root, remainder, exactness. -/
def rootSpec (u : Int) (n : Nat) : Except String (Int × Int × Bool) :=
  if u < 0 ∧ n % 2 = 0 then .error "sqrtneg"
  else if n = 0 then .error "div0"
  else
    let a := u.natAbs
    let t := irootFast n a
    let sg : Int := if u < 0 then -1 else 1
    .ok (sg * t, sg * (a - powS t n : Nat), powS t n == a)

def sqrtSpec (u : Int) : Except String (Int × Int) :=
  if u < 0 then .error "sqrtneg"
  else let a := u.toNat; .ok (Nat.sqrt a, (a - Nat.sqrt a * Nat.sqrt a : Nat))

private def sameExc {α β} (a : Except String α) (b : Except String β) (eq : α → β → Bool) : Bool :=
  match a, b with
  | .error x, .error y => x == y
  | .ok x, .ok y => eq x y
  | _, _ => false

def handle : Handler
  | "mpz_sqrt", [.num _, .num u] =>
      let sp := sqrtSpec u
      some (chk (sameExc sp (mpzSqrt u) fun a b => a.1 == b) (exc sp fun (s, _) => [.num s]))
  | "mpz_sqrtrem", [.num _, .num u] =>
      let sp := sqrtSpec u
      some (chk (sameExc sp (mpzSqrtrem u) fun a b => a == b) (exc sp fun (s, r) => [.num s, .num r]))
  | "mpz_root", [.num mode, .num u, .num n] =>
      let sp := rootSpec u n.toNat
      some (chk (sameExc sp (mpzRoot u n.toNat) fun a b => a.1 == b.1 && a.2.2 == b.2)
        (exc sp fun (t, _, e) => if mode == 2 then [boolTok e] else [.num t, boolTok e]))
  | "mpz_nthroot", [.num _, .num u, .num n] =>
      let sp := rootSpec u n.toNat
      some (chk (sameExc sp (mpzRoot u n.toNat) fun a b => a.1 == b.1) (exc sp fun (t, _, _) => [.num t]))
  | "mpz_rootrem", [.num _, .num u, .num n] =>
      let sp := rootSpec u n.toNat
      some (chk (sameExc sp (mpzRootrem u n.toNat) fun a b => a.1 == b.1 && a.2.1 == b.2)
        (exc sp fun (t, r, _) => [.num t, .num r]))
  | "mpn_sqrtrem", [.vec u] => sqrtremOut u false
  | "mpn_sqrtrem_ip", [.vec u] => sqrtremOut u false
  | "mpn_sqrtrem_norem", [.vec u] => sqrtremOut u true
  | "mpn_rootrem", [.vec u, .num k] => rootremOut u k.toNat false
  | "mpn_rootrem_norem", [.vec u, .num k] => rootremOut u k.toNat true
  | "mpn_perfect_square_p", [.vec u] =>
      -- the MODEL's answer (filters + square root), asserted equal to the specification
      let m := perfectSquareP u
      some (chk (m == isSquare (val u)) [boolTok m])
  | "mpz_perfect_square_p", [.num u] =>
      let m := mpzPerfectSquareP u
      some (chk (m == isSquare u) [boolTok m])
  | "mpz_perfect_power_p", [.num u] =>
      let s := isPerfectPower u
      some (chk (mpzPerfectPowerP u == s) [boolTok s])
  | _, _ => none
where
  sqrtremOut (u : List Nat) (norem : Bool) : Option (List Tok) :=
    let a := val u
    let s := Nat.sqrt a
    let r := a - s * s
    let m := sqrtrem u                          -- the MODEL
    let rl := natLimbs r
    let ok := val m.sp == s && val m.rp == r && m.rn == rl.length
    let tn := (u.length + 1) / 2
    some (chk ok ([.vec (toLimbs tn s)] ++ (if norem then [boolTok (r != 0)] else [.vec rl, natTok rl.length])))
  rootremOut (u : List Nat) (k : Nat) (norem : Bool) : Option (List Tok) :=
    let a := val u
    let t := irootFast k a
    let r := a - powS t k
    let m := rootrem a u.length k (!norem)
    let rl := natLimbs r
    let ok := m.1 == t && (if norem then (m.2 == 0) == (r == 0) else m.2 == r)
    let tn := (u.length - 1) / k + 1
    some (chk ok ([.vec (toLimbs tn t)] ++ (if norem then [boolTok (r != 0)] else [.vec rl, natTok rl.length])))

end Mpir.Ops.Root
