/- Driver handlers for the squaring variants (property C01): the squaring-specific value models of
   Mpir/Model/SqrAlgo.lean; the answer is the square, flagged `!model` if the model does not produce it. -/
import Mpir.Proto
import Mpir.Model.SqrAlgo
import Mpir.Gen.Params
namespace Mpir.Ops.SqrAlgo
open Mpir Mpir.SqrAlgo

def P := Mpir.Gen.params

def sqVec (u : List Nat) : List Tok := [.vec (toLimbs (2 * u.length) (val u * val u))]

def viaModel (m : Nat) (u : List Nat) : List Tok := if m = val u * val u then sqVec u else [.err "model"]

def handle : Handler
  | "sqrx_kara_sqr_n", [.vec u] =>
      if u.length ≥ 2 then
        match kara_sqr_n P.SQR_BASECASE_THRESHOLD.toNat P.SQR_KARATSUBA_THRESHOLD.toNat (val u) u.length with
        | some m => some (viaModel m u)
        | none => some [.err "model"]
      else none
  | "sqrx_toom3_sqr_n", [.vec u] =>
      if u.length ≥ 17 then some (viaModel (toom3_sqr_n (fun x => x * x) (val u) u.length) u) else none
  | "sqrx_toom4_sqr_n", [.vec u] =>
      if u.length ≥ 32 then some (viaModel (toom4_sqr_n (fun x => x * x) (val u) u.length) u) else none
  | _, _ => none

end Mpir.Ops.SqrAlgo
