/- Driver handler for mpir_fft_mulmod_2expp1 (property C01): the whole-function value model of Mpir/Model/FftMulmod.lean.
   Domain as in harness/ops_fftmulmod.c. -/
import Mpir.Proto
import Mpir.Model.FftMulmod
namespace Mpir.Ops.FftMulmod
open Mpir Mpir.FftX

def handle : Handler
  | "fftx_fft_mulmod_2expp1", [.num same, .num depth, .num w, .vec u, .vec v] =>
      if (same == 0 || same == 1) && u.length == v.length && 1 ≤ depth && depth ≤ 8 && 1 ≤ w && w < 2 ^ 20 &&
          u.length ≥ 1 && u.length ≤ 1024 then
        let depth := depth.toNat; let w := w.toNat; let R := u.length
        let n := 2 ^ depth
        if R % (2 * n) == 0 && n * w == 2 * (64 * R / (2 * n)) then
          some [.vec (fft_mulmod_2expp1 u (if same == 1 then u else v) depth w)]
        else none
      else none
  | _, _ => none

end Mpir.Ops.FftMulmod
