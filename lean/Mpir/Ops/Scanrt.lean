/- Driver handlers for the print -> scan round trip with %n (property C18, scanf side); C side: harness/ops_scanrt.c. -/
import Mpir.Proto
import Mpir.Model.Printf
import Mpir.Model.Scanf
namespace Mpir.Ops.Scanrt
open Mpir Mpir.Printf

def toChars (bs : List UInt8) : List Char := bs.map (fun b => Char.ofNat b.toNat)
def toBytes (cs : List Char) : List UInt8 := cs.map (fun c => UInt8.ofNat c.toNat)
def unsupported : List Tok := [.err "unsupported"]
def sentinel : Int := -77777

def nums : List Tok → Option (List Int)
  | [] => some []
  | .num v :: r => (nums r).map (v :: ·)
  | _ => none

/-- gmp_snprintf (pfmt, [star...,] x) then gmp_sscanf / gmp_fscanf (text, sfmt, y, &n); see ops_scanrt.c -/
def rt (q file : Bool) (pf sf : List UInt8) (rest : List Tok) : Option (List Tok) :=
  match nums rest with
  | none => none
  | some ns =>
    let nval := if q then 2 else 1
    if ns.length < nval ∨ ns.length > nval + 2 then none else
    let stars := ns.take (ns.length - nval)
    let vals := ns.drop (ns.length - nval)
    let arg : Arg := if q then .mpq (vals.getD 0 0) (vals.getD 1 1) else .mpz (vals.getD 0 0)
    let args : List Arg := stars.map (fun v => Arg.int v) ++ [arg]
    let sfmt := toChars sf
    match doprnt (toChars pf) args with
    | none => some unsupported
    | some r =>
      let text := callsBytes r.calls
      if text.length ≥ 8192 then some [.err "toolong"] else
      match Scanf.doscan sfmt text with
      | none => some unsupported
      | some sr =>
        let ignore := sfmt.contains '*'
        let res : Option (List Tok × Int) := match q, ignore, sr.outs with
          | _, true, [] => some (if q then [.num sentinel, .num 1] else [.num sentinel], -7)
          | _, true, [.int n] => some (if q then [.num sentinel, .num 1] else [.num sentinel], n)
          | false, false, [] => some ([.num sentinel], -7)
          | false, false, [.z y] => some ([.num y], -7)
          | false, false, [.z y, .int n] => some ([.num y], n)
          | true, false, [] => some ([.num sentinel, .num 1], -7)
          | true, false, [.q a b] => some ([.num a, .num b], -7)
          | true, false, [.q a b, .int n] => some ([.num a, .num b], n)
          | _, _, _ => none
        match res with
        | none => some unsupported
        | some (ys, n) =>
          some ([.str (toBytes text), .num sr.fields] ++ ys ++ [.num n] ++
            (if file then [natTok (text.length - sr.rest.length)] else []))

def handle : Handler
  | "gmp_rt_Z", .str pf :: .str sf :: r => rt false false pf sf r
  | "gmp_rtf_Z", .str pf :: .str sf :: r => rt false true pf sf r
  | "gmp_rt_Q", .str pf :: .str sf :: r => rt true false pf sf r
  | "gmp_rtf_Q", .str pf :: .str sf :: r => rt true true pf sf r
  | _, _ => none

end Mpir.Ops.Scanrt
