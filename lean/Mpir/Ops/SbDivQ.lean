/-
  C02, part c02_sbq: driver handlers for the limb-level models of mpn_sb_divappr_q and mpn_sb_div_q
  (Mpir/Model/SbDivQ.lean; C side harness/ops_sbdivq.c).  Outputs are compared verbatim.
-/
import Mpir.Proto
import Mpir.Model.SbDivQ
import Mpir.Model.DivZ
namespace Mpir.Ops.SbDivQ
open Mpir Mpir.DivZ


def handle : Handler
  | "sb_divappr_q", [.vec n, .vec d] =>
      if ¬ normalised d ∨ d.length < 3 ∨ n.length ≤ d.length then none else
      let dn := d.length
      let (q, r3, qh) := Mpir.SbDivQ.sb_divappr_q n d (Mpir.DivWord.invert_pi1 (d.getD (dn - 1) 0) (d.getD (dn - 2) 0))
      some [.vec q, .vec r3, natTok qh]
  | "sb_div_q", [.vec n, .vec d] =>
      if ¬ normalised d ∨ d.length < 3 ∨ n.length < d.length then none else
      let dn := d.length
      match Mpir.SbDivQ.sb_div_q n d (Mpir.DivWord.invert_pi1 (d.getD (dn - 1) 0) (d.getD (dn - 2) 0)) with
      | some (q, qh) => some [.vec q, natTok qh]
      | none => some [.err "abort"]
  | _, _ => none

end Mpir.Ops.SbDivQ
