/- Driver handlers for C13 part `c13_cmp`: mpf_eq13, mpf_reldiff, mpf_sgn13 (bit-exact model
   Mpir/Model/MpfCmp.lean).  Operand token group `prec size exp [limbs]` as in Ops/Mpf.lean. -/
import Mpir.Proto
import Mpir.Model.MpfCmp
import Mpir.Ops.Mpf
namespace Mpir.Ops.MpfCmp
open Mpir Mpir.Mpf

def handle : Handler
  | "mpf_sgn13", ts =>
      match Mpir.Ops.Mpf.opnd? ts with
      | some (u, []) => some [.num (MpfCmp.sgn u)]
      | _ => none
  | "mpf_eq13", ts =>
      match Mpir.Ops.Mpf.opnd? ts with
      | some (u, r1) => match Mpir.Ops.Mpf.opnd? r1 with
        | some (v, [.num nb]) =>
            if nb < 0 ∨ nb ≥ 2 ^ 64 ∨ ¬ OpWF u ∨ ¬ OpWF v then none
            else some [boolTok (MpfCmp.eq u v nb.toNat)]
        | _ => none
      | none => none
  | "mpf_reldiff", .num rp :: .num mode :: rest =>
      if rp < 2 ∨ mode < 0 ∨ mode > 4 then none else
      match Mpir.Ops.Mpf.opnd? rest with
      | some (u, r1) => match Mpir.Ops.Mpf.opnd? r1 with
        | some (v0, []) =>
            let v := if mode ≥ 3 then u else v0
            some (Mpir.Ops.Mpf.renderRes (MpfCmp.reldiff rp.toNat u v))
        | _ => none
      | none => none
  | _, _ => none

end Mpir.Ops.MpfCmp
