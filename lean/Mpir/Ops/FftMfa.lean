/- Driver handlers for the matrix Fourier multiplication (property C01): the value-level models of
   Mpir/Model/FftMfa.lean.  Array conventions and domains as in Mpir/Ops/FftX.lean / harness/ops_fftmfa.c. -/
import Mpir.Proto
import Mpir.Model.FftMfa
import Mpir.Ops.FftX
import Mpir.Gen.Params
namespace Mpir.Ops.FftMfa
open Mpir Mpir.FftX Mpir.Ops.FftX

def mfaOk (d : Nat) (n1 t : Int) : Bool :=
  2 ≤ n1 && n1.toNat ≤ 2 ^ d && isPow2 n1.toNat && truncOk t (2 * 2 ^ d) (4 * 2 ^ d) && t.toNat % (2 * n1.toNat) == 0

def handle : Handler
  | "fftx_mfa_outer", [.num d, .num w, .num n1, .num t, .vec flat] =>
      (params d w).bind fun (d, w, limbs) =>
        if mfaOk d n1 t then run (4 * 2 ^ d) limbs flat (fft_mfa_trunc_sqrt2_outer d w n1.toNat t.toNat) else none
  | "fftx_imfa_outer", [.num d, .num w, .num n1, .num t, .vec flat] =>
      (params d w).bind fun (d, w, limbs) =>
        if mfaOk d n1 t then run (4 * 2 ^ d) limbs flat (ifft_mfa_trunc_sqrt2_outer d w n1.toNat t.toNat) else none
  | "fftx_mfa_inner", [.num d, .num w, .num n1, .num t, .num same, .vec fi, .vec fj] =>
      (params d w).bind fun (d, w, limbs) =>
        if mfaOk d n1 t && (same == 0 || same == 1) then
          (decode (4 * 2 ^ d) limbs fi).bind fun ii =>
            (decode (4 * 2 ^ d) limbs fj).map fun jj =>
              [encode limbs (fft_mfa_trunc_sqrt2_inner d w n1.toNat t.toNat ii (if same == 1 then ii else jj))]
        else none
  | "fftx_mul_mfa", [.num same, .num depth, .num w, .vec u, .vec v] =>
      if (same == 0 || same == 1) && 2 ≤ depth && depth ≤ 8 && 1 ≤ w && w < 2 ^ 20 && u.length ≥ 1 && v.length ≥ 1 then
        let depth := depth.toNat; let w := w.toNat
        let n := 2 ^ depth
        if n * w % 64 == 0 && n * w > depth + 1 && n * w / 64 ≤ 64 && (n * w - (depth + 1)) / 2 ≥ 1 then
          let bits1 := (n * w - (depth + 1)) / 2
          let j1 := (u.length * 64 - 1) / bits1 + 1
          let j2 := (v.length * 64 - 1) / bits1 + 1
          if j1 + j2 - 1 ≤ 4 * n && (same == 0 || u.length == v.length) then
            some [.vec (mul_mfa_trunc_sqrt2 u (if same == 1 then u else v) depth w)] else none
        else none
      else none
  | "fftx_mul_fft_main", [.vec u, .vec v] =>
      if u.length ≥ 1 && v.length ≥ 1 && u.length + v.length ≤ 4096 &&
          (u.length * 64 - 1) / 28 + 1 + ((v.length * 64 - 1) / 28 + 1) - 1 > 128 then
        (mul_fft_main Mpir.Gen.params.FFT_TAB u v).map fun r => [.vec r]
      else none
  | _, _ => none

end Mpir.Ops.FftMfa
