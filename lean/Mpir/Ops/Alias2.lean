/- Driver handlers for the pointer-level alias model, part c05_ptr2 (models: Mpir/Model/AliasMul.lean, …).
   Same conventions as Mpir/Ops/Alias.lean (C side: harness/ops_alias2.c): four variables in exact-size blocks, the
   function called with the variables numbered i0.. ; answer = value, ALLOC and "block changed" of each variable
   ("PTR moved", or — for a variable whose block the function replaces by free + allocate — "ALLOC changed"). -/
import Mpir.Proto
import Mpir.Model.AliasMul
namespace Mpir.Ops.Alias2
open Mpir Mpir.AliasMem

def idx (x : Int) : Option Nat := if 0 ≤ x ∧ x ≤ 3 then some x.toNat else none

/-- `byAlloc i`: report "ALLOC changed" instead of "PTR moved" for variable i -/
def answer (s0 : St) (byAlloc : Nat → Bool) (r : R St) : Option (List Tok) :=
  match r with
  | .error e => some [.err e]
  | .ok s =>
    some ((List.range 4).flatMap fun i =>
      [.num (s.value i), .num (s.alloc i),
       .num (if byAlloc i then (if s.alloc i = s0.alloc i then 0 else 1) else (if s.ptr i = i then 0 else 1))])

def handle : Handler
  | "alias_mul", [.num w, .num u, .num v, .num _, .num v0, .num v1, .num v2, .num v3] => do
    let w ← idx w; let u ← idx u; let v ← idx v
    let s0 := ofInts [v0, v1, v2, v3]
    answer s0 (· == w) (mpz_mul w u v s0)
  | _, _ => none

end Mpir.Ops.Alias2
