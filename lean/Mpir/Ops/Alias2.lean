/- Driver handlers for the pointer-level alias model, part c05_ptr2 (models: Mpir/Model/AliasMul.lean, …).
   Same conventions as Mpir/Ops/Alias.lean (C side: harness/ops_alias2.c): four variables in exact-size blocks, the
   function called with the variables numbered i0.. ; answer = value, ALLOC and "block changed" of each variable
   ("PTR moved", or — for a variable whose block the function replaces by free + allocate — "ALLOC changed"). -/
import Mpir.Proto
import Mpir.Model.AliasMul
import Mpir.Model.AliasGcdext
import Mpir.Model.AliasPowm
namespace Mpir.Ops.Alias2
open Mpir Mpir.AliasMem

def idx (x : Int) : Option Nat := if 0 ≤ x ∧ x ≤ 3 then some x.toNat else none

/-- `byAlloc i`: report "ALLOC changed" instead of "PTR moved" for variable i -/
def answer (s0 : St) (byAlloc : Nat → Bool) (r : R St) : Option (List Tok) :=
  match r with
  | .error e => some [.err e]
  | .ok s =>
    some ((List.range 4).flatMap fun i =>
      [.num (s.value i), .num (s.alloc i),
       .num (if byAlloc i then (if s.alloc i = s0.alloc i then 0 else 1) else (if s.ptr i = i then 0 else 1))])

/-- an output that may be NULL: 7 -/
def idxN (x : Int) : Option (Option Nat) := if x = 7 then some none else (idx x).map some

def handle : Handler
  | "alias_mul", [.num w, .num u, .num v, .num _, .num v0, .num v1, .num v2, .num v3] => do
    let w ← idx w; let u ← idx u; let v ← idx v
    let s0 := ofInts [v0, v1, v2, v3]
    answer s0 (· == w) (mpz_mul w u v s0)
  | "alias_addmul", [.num w, .num x, .num y, .num _, .num v0, .num v1, .num v2, .num v3] => do
    let w ← idx w; let x ← idx x; let y ← idx y
    let s0 := ofInts [v0, v1, v2, v3]
    answer s0 (fun _ => false) (addmul w x y s0)
  | "alias_submul", [.num w, .num x, .num y, .num _, .num v0, .num v1, .num v2, .num v3] => do
    let w ← idx w; let x ← idx x; let y ← idx y
    let s0 := ofInts [v0, v1, v2, v3]
    answer s0 (fun _ => false) (submul w x y s0)
  | "alias_gcdext", [.num g, .num sv, .num tv, .num a, .num b, .num v0, .num v1, .num v2, .num v3] => do
    let g ← idx g; let sv ← idxN sv; let tv ← idxN tv; let a ← idx a; let b ← idx b
    if sv = some g ∨ tv = some g ∨ (sv ≠ none ∧ sv = tv) then none else
    let s0 := ofInts [v0, v1, v2, v3]
    answer s0 (fun _ => false) (gcdext g sv tv a b s0)
  | "alias_powm", [.num r, .num b, .num e, .num m, .num v0, .num v1, .num v2, .num v3] => do
    let r ← idx r; let b ← idx b; let e ← idx e; let m ← idx m
    let s0 := ofInts [v0, v1, v2, v3]
    answer s0 (fun _ => false) (powm r b e m s0)
  | "alias_powm_ui", [.num r, .num b, .num m, .num el, .num v0, .num v1, .num v2, .num v3] => do
    let r ← idx r; let b ← idx b; let m ← idx m
    if el < 0 ∨ el ≥ B then none else
    let s0 := ofInts [v0, v1, v2, v3]
    answer s0 (fun _ => false) (powm_ui r b el.toNat m s0)
  | _, _ => none

end Mpir.Ops.Alias2
