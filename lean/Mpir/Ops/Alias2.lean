/- Driver handlers for the pointer-level alias model, part c05_ptr2 (models: Mpir/Model/AliasMul.lean, …).
   Same conventions as Mpir/Ops/Alias.lean (C side: harness/ops_alias2.c): four variables in exact-size blocks, the
   function called with the variables numbered i0.. ; answer = value, ALLOC and "block changed" of each variable
   ("PTR moved", or — for a variable whose block the function replaces by free + allocate — "ALLOC changed"). -/
import Mpir.Proto
import Mpir.Model.AliasMul
import Mpir.Model.AliasGcdext
import Mpir.Model.AliasPowm
import Mpir.Model.AliasMpf
import Mpir.Model.AliasMpf3
import Mpir.Model.AliasMisc
namespace Mpir.Ops.Alias2
open Mpir Mpir.AliasMem

def idx (x : Int) : Option Nat := if 0 ≤ x ∧ x ≤ 3 then some x.toNat else none

/-- `byAlloc i`: report "ALLOC changed" instead of "PTR moved" for variable i -/
def answer (s0 : St) (byAlloc : Nat → Bool) (r : R St) : Option (List Tok) :=
  match r with
  | .error e => some [.err e]
  | .ok s =>
    some ((List.range 4).flatMap fun i =>
      [.num (s.value i), .num (s.alloc i),
       .num (if byAlloc i then (if s.alloc i = s0.alloc i then 0 else 1) else (if s.ptr i = i then 0 else 1))])

/-- an output that may be NULL: 7 -/
def idxN (x : Int) : Option (Option Nat) := if x = 7 then some none else (idx x).map some

/-- operand token group `prec size exp [limbs]` -/
def fopnd? : List Tok → Option (Mpf.F × List Tok)
  | .num p :: .num s :: .num e :: .vec d :: rest =>
      if p ≥ 2 ∧ s.natAbs = d.length then some (⟨p.toNat, s, e, d⟩, rest) else none
  | _ => none

def fidx (x : Int) : Option Nat := if 0 ≤ x ∧ x ≤ 2 then some x.toNat else none

def fanswer (r : R FSt) : Option (List Tok) :=
  match r with
  | .error e => some [.err e]
  | .ok s =>
    some ((List.range 3).flatMap fun i =>
      [.num (s.prec i), .num (s.st.size i), .num (s.exp i), .vec (s.st.limbs i)])

def frun (f : Nat → Nat → Nat → Nat → FSt → R FSt) : List Tok → Option (List Tok)
  | .num r :: .num u :: .num v :: .num ui :: rest => do
    let r ← fidx r; let u ← fidx u; let v ← fidx v
    if ui < 0 ∨ ui ≥ B then none else
    let (a0, rest) ← fopnd? rest
    let (a1, rest) ← fopnd? rest
    let (a2, rest) ← fopnd? rest
    if rest ≠ [] then none else
    fanswer (f r u v ui.toNat (ofFs [a0, a1, a2]))
  | _ => none

def handle : Handler
  | "alias_sqrt", [.num root, .num op, .num _, .num _, .num v0, .num v1, .num v2, .num v3] => do
    let root ← idx root; let op ← idx op
    let s0 := ofInts [v0, v1, v2, v3]
    answer s0 (· == root) (mpz_sqrt root op s0)
  | "alias_lcm", [.num r, .num u, .num v, .num _, .num v0, .num v1, .num v2, .num v3] => do
    let r ← idx r; let u ← idx u; let v ← idx v
    let s0 := ofInts [v0, v1, v2, v3]
    answer s0 (· == r) (mpz_lcm r u v s0)   -- the general arm ends in mpz_mul (r, g, v): free + allocate
  | "alias_invert", [.num r, .num x, .num n, .num _, .num v0, .num v1, .num v2, .num v3] => do
    let r ← idx r; let x ← idx x; let n ← idx n
    let s0 := ofInts [v0, v1, v2, v3]
    match mpz_invert r x n s0 with
    | .error e => some [.err e]
    | .ok (ret, s) => (answer s0 (fun _ => false) (.ok s)).map fun l => .num (if ret then 1 else 0) :: l
  | "alias_root", [.num root, .num u, .num _, .num nth, .num v0, .num v1, .num v2, .num v3] => do
    let root ← idx root; let u ← idx u
    if nth < 0 ∨ nth ≥ B then none else
    let s0 := ofInts [v0, v1, v2, v3]
    match mpz_root root u nth.toNat s0 with
    | .error e => some [.err e]
    | .ok (ret, s) => (answer s0 (fun _ => false) (.ok s)).map fun l => .num (if ret then 1 else 0) :: l
  | "alias_remove", [.num d, .num src, .num f, .num _, .num v0, .num v1, .num v2, .num v3] => do
    let d ← idx d; let src ← idx src; let f ← idx f
    let s0 := ofInts [v0, v1, v2, v3]
    match mpz_remove d src f s0 with
    | .error e => some [.err e]
    | .ok (ret, s) => (answer s0 (fun _ => false) (.ok s)).map fun l => .num ret :: l
  | "alias_bin_ui", [.num r, .num n, .num _, .num k, .num v0, .num v1, .num v2, .num v3] => do
    let r ← idx r; let n ← idx n
    if k < 0 ∨ k > 200 then none else
    let s0 := ofInts [v0, v1, v2, v3]
    answer s0 (fun _ => false) (mpz_bin_ui r n k.toNat s0)
  | "alias_ffloor", args => frun (fun r u _ _ => mpf_floor r u) args
  | "alias_fceil", args => frun (fun r u _ _ => mpf_ceil r u) args
  | "alias_ftrunc", args => frun (fun r u _ _ => mpf_trunc r u) args
  | "alias_fmul_2exp", args => frun (fun r u _ e s => if e > 100000 then .error "args" else mpf_mul_2exp r u e s) args
  | "alias_fdiv_2exp", args => frun (fun r u _ e s => if e > 100000 then .error "args" else mpf_div_2exp r u e s) args
  | "alias_fui_div", args => frun (fun r _ v ui => mpf_ui_div r ui v) args
  | "alias_fdiv", args => frun (fun r u v _ => mpf_div r u v) args
  | "alias_fmul", args => frun (fun r u v _ => mpf_mul r u v) args
  | "alias_fsqrt", args => frun (fun r u _ _ => mpf_sqrt r u) args
  | "alias_fdiv_ui", args => frun (fun r u _ ui => mpf_div_ui r u ui) args
  | "alias_mul", [.num w, .num u, .num v, .num _, .num v0, .num v1, .num v2, .num v3] => do
    let w ← idx w; let u ← idx u; let v ← idx v
    let s0 := ofInts [v0, v1, v2, v3]
    answer s0 (· == w) (mpz_mul w u v s0)
  | "alias_addmul", [.num w, .num x, .num y, .num _, .num v0, .num v1, .num v2, .num v3] => do
    let w ← idx w; let x ← idx x; let y ← idx y
    let s0 := ofInts [v0, v1, v2, v3]
    answer s0 (fun _ => false) (addmul w x y s0)
  | "alias_submul", [.num w, .num x, .num y, .num _, .num v0, .num v1, .num v2, .num v3] => do
    let w ← idx w; let x ← idx x; let y ← idx y
    let s0 := ofInts [v0, v1, v2, v3]
    answer s0 (fun _ => false) (submul w x y s0)
  | "alias_gcdext", [.num g, .num sv, .num tv, .num a, .num b, .num v0, .num v1, .num v2, .num v3] => do
    let g ← idx g; let sv ← idxN sv; let tv ← idxN tv; let a ← idx a; let b ← idx b
    if sv = some g ∨ tv = some g ∨ (sv ≠ none ∧ sv = tv) then none else
    let s0 := ofInts [v0, v1, v2, v3]
    answer s0 (fun _ => false) (gcdext g sv tv a b s0)
  | "alias_powm", [.num r, .num b, .num e, .num m, .num v0, .num v1, .num v2, .num v3] => do
    let r ← idx r; let b ← idx b; let e ← idx e; let m ← idx m
    let s0 := ofInts [v0, v1, v2, v3]
    answer s0 (fun _ => false) (powm r b e m s0)
  | "alias_powm_ui", [.num r, .num b, .num m, .num el, .num v0, .num v1, .num v2, .num v3] => do
    let r ← idx r; let b ← idx b; let m ← idx m
    if el < 0 ∨ el ≥ B then none else
    let s0 := ofInts [v0, v1, v2, v3]
    answer s0 (fun _ => false) (powm_ui r b el.toNat m s0)
  | _, _ => none

end Mpir.Ops.Alias2
