/- Driver side of the generic API ops (harness/ops_api.c).
   api_alias: alias-independence IS the specification, so the expected answer is the constant `same`
   (rendered as the number 0; the harness prints 0 when the aliased and the distinct call agree).
   @-histories: the life-cycle ops (@setz/@init2/@realloc2/@getz/@done) are followed exactly by the ledger
   model of Mpir/Model/Life.lean (value and _mp_alloc) until the first @call; calls into arbitrary API
   functions are monitored on the C side (well-formedness, allocator contract, allocation-history
   independence: the harness answers 0 when all monitors are quiet) — the expected answer is 0. -/
import Mpir.Proto
import Mpir.Model.Life
namespace Mpir.Ops.Api
open Mpir Mpir.Life

def NZ : Nat := 6

structure St where
  s : State
  opq : Bool        -- an @call happened: _mp_alloc of the pool is no longer predicted

def fresh : St :=
  { s := (List.range NZ).foldl (fun s k => step s (.init k)) (Life.init NZ), opq := false }

def showObj (st : St) (k : Nat) : List Tok :=
  match getObj st.s k with
  | some o => if st.opq then [.num o.val] else [.num o.val, natTok o.alloc]
  | none => [.err "noobj"]

def stepSt (st : St) : String → List Tok → Option (St × List Tok)
  | "@setz", [.num k, .num v] =>
      if k.toNat < NZ then
        let st' := { st with s := step st.s (.set k.toNat v) }
        some (st', showObj st' k.toNat)
      else none
  | "@init2", [.num k, .num bits] =>
      if k.toNat < NZ then
        let st' := { st with s := step (step st.s (.clear k.toNat)) (.init2 k.toNat bits.toNat) }
        some (st', showObj st' k.toNat)
      else none
  | "@realloc2", [.num k, .num bits] =>
      if k.toNat < NZ then
        if st.opq then some (st, [.err "opaque"]) else
        let st' := { st with s := step st.s (.realloc2 k.toNat bits.toNat) }
        some (st', showObj st' k.toNat)
      else none
  | "@getz", [.num k] => if st.opq then some (st, [.err "opaque"]) else
      some (st, match getObj st.s k.toNat with | some o => [.num o.val] | none => [.err "noobj"])
  | "@seed", [_] => some (st, [natTok 0])
  | "@setq", [_, .num n, .num d] => some (st, [.num n, .num d])
  | "@setf", [_, _, .num size, .num e, .vec l] => some (st, [.num size, .num (if size == 0 then 0 else e), .vec l])
  | "@call", _ => some ({ st with opq := true }, [natTok 0])
  | "@init_set", _ => some ({ st with opq := true }, [natTok 0])
  | "@defprec", [_] => some (st, [natTok 0])
  | "@limbs", [.num k, .num _, .num _, .vec l, .num size] =>
      -- mpz_limbs_finish normalises: value = sign(size) * (the low |size| limbs), high zero limbs stripped
      let v : Int := Int.ofNat (val (l.take size.natAbs))
      let v := if size < 0 then -v else v
      if k.toNat < NZ then some ({ st with s := step st.s (.set k.toNat v), opq := true }, [.num v]) else none
  | "@done", [] =>
      let s1 := clearAll st.s
      some ({ st with s := s1 }, [natTok (s1.ledger.length + s1.breaches)])
  | _, _ => none

def stateful : IO StatefulHandler := mkStateful fresh stepSt

def handle : Handler
  | "api_alias", _ => some [natTok 0]
  | "api_alias2", _ => some [natTok 0]
  | _, _ => none

def pred : PredHandler
  | "api_count", _, _ => some none
  | _, _, _ => none

end Mpir.Ops.Api
