/- Driver handlers for the limb-vector kernels (properties C03 and leaves of C01). -/
import Mpir.Proto
import Mpir.Model.Kernels
namespace Mpir.Ops.Kernels
open Mpir

private def pair (p : List Nat × Nat) : List Tok := [.vec p.1, natTok p.2]

def handle : Handler
  | "mpn_add_n", [.vec u, .vec v] => some (pair (add_n u v))
  | "mpn_sub_n", [.vec u, .vec v] => some (pair (sub_n u v))
  | "mpn_add_n_ov", [.num _, .vec u, .vec v] => some (pair (add_n u v))   -- permitted overlap: same answer
  | "mpn_sub_n_ov", [.num _, .vec u, .vec v] => some (pair (sub_n u v))
  | "mpn_add_1_ip", [.vec u, .num v] => some (pair (add_1 u v.toNat))
  | "mpn_sub_1_ip", [.vec u, .num v] => some (pair (sub_1 u v.toNat))
  | "mpn_add_ip", [.vec u, .vec v] => some (pair (add u v))
  | "mpn_sub_ip", [.vec u, .vec v] => some (pair (sub u v))
  | "mpn_neg_ip", [.vec u] => some (pair (neg_n u))
  | "mpn_lshift", [.vec u, .num c, .num _] => some (pair (lshift u c.toNat))
  | "mpn_rshift", [.vec u, .num c, .num _] => some (pair (rshift u c.toNat))
  | "mpn_copyi", [.vec u, .num _] => some [.vec u]
  | "mpn_copyd", [.vec u, .num _] => some [.vec u]
  | "mpn_mul_1_ip", [.vec u, .num v] => some (pair (mul_1 u v.toNat))
  | "mpn_add_1", [.vec u, .num v] => some (pair (add_1 u v.toNat))
  | "mpn_sub_1", [.vec u, .num v] => some (pair (sub_1 u v.toNat))
  | "mpn_add", [.vec u, .vec v] => some (pair (add u v))
  | "mpn_sub", [.vec u, .vec v] => some (pair (sub u v))
  | "mpn_neg", [.vec u] => some (pair (neg_n u))
  | "mpn_com", [.vec u] => some [.vec (com_n u)]
  | "mpn_lshift", [.vec u, .num c] => some (pair (lshift u c.toNat))
  | "mpn_rshift", [.vec u, .num c] => some (pair (rshift u c.toNat))
  | "mpn_cmp", [.vec u, .vec v] => some [.num (cmp u v)]
  | "mpn_zero_p", [.vec u] => some [boolTok (zero_p u)]
  | "mpn_copyi", [.vec u] => some [.vec u]
  | "mpn_copyd", [.vec u] => some [.vec u]
  | "mpn_zero", [.num n] => some [.vec (List.replicate n.toNat 0)]
  | "mpn_mul_1", [.vec u, .num v] => some (pair (mul_1 u v.toNat))
  | "mpn_addmul_1", [.vec r, .vec u, .num v] => some (pair (addmul_1 r u v.toNat))
  | "mpn_submul_1", [.vec r, .vec u, .num v] => some (pair (submul_1 r u v.toNat))
  | "mpn_mul_basecase", [.vec u, .vec v] => some [.vec (mul_basecase u v)]
  | _, _ => none

end Mpir.Ops.Kernels
