/-
  Driver handlers of C04 part c04_allocsafe7 (ops `as7_*`, harness/ops_allocsafe7.c): the index-checked mpf mirrors of
  Mpir/Model/AllocSafeMpf7.lean run on the objects the op line describes; answer = SIZ, EXP and the whole destination block,
  or `!oob` when the model left a block.
-/
import Mpir.Proto
import Mpir.Model.AllocSafeMpf7
namespace Mpir.Ops.AllocSafe7
open Mpir Mpir.AllocSafe7

def limbsOk (l : List Nat) : Bool := l.all (· < B) && l.getLast? != some 0

/-- an operand of the op line: sign flag, exponent, limbs (normalised; zero has exponent 0) in a block of exactly its length
    (at least `n` limbs) -/
def opnd (neg : Int) (e : Int) (d : List Nat) (prec n : Nat) : Option FObj :=
  if (neg = 0 ∨ neg = 1) ∧ limbsOk d ∧ (d = [] → e = 0 ∧ neg = 0) then some (mkObj prec (neg = 1) e d n) else none

def dest (prec : Nat) : FObj := mkObj prec false 0 [] (prec + 1)

def out (s : St) : List Tok :=
  if !s.ok then [.err "oob"] else [.num s.out.1, .num s.out.2.1, .vec s.out.2.2]

def precOk (p : Int) : Bool := 1 ≤ p && p < 4096

def handle : Handler
  | "as7_set", [.num m, .num p, .num neg, .num e, .vec d] =>
      if !precOk p then none else
      if m = 0 then do
        let u ← opnd neg e d 0 1
        some (out (mpf_set 0 (mkSt (dest p.toNat) u default) .u))
      else if m = 1 then do
        let r ← opnd neg e d p.toNat (p.toNat + 1)
        some (out (mpf_set 0 (mkSt r default default) .r))
      else none
  | "as7_set_ui", [.num p, .num v] =>
      if !precOk p || v < 0 || v ≥ B then none else
      some (out (mpf_set_ui (mkSt (dest p.toNat) default default) v.toNat))
  | "as7_set_si", [.num p, .num v] =>
      if !precOk p || v < -(2 ^ 63) || v ≥ 2 ^ 63 then none else
      some (out (mpf_set_si (mkSt (dest p.toNat) default default) v))
  | "as7_set_z", [.num p, .num za, .num z] =>
      if !precOk p || za < 1 || za > 65536 then none else
      let zl := natLimbs z.natAbs
      if zl.length > za.toNat then none else
      let zb := Blk.ofLimbs zl za.toNat
      some (out (mpf_set_z 0 (mkSt (dest p.toNat) default default) (if z < 0 then -(zl.length : Int) else zl.length) zb))
  | "as7_mul_ui", [.num m, .num p, .num neg, .num e, .vec d, .num v] =>
      if !precOk p || v < 0 || v ≥ B then none else
      if m = 0 then do
        let u ← opnd neg e d 0 1
        some (out (mpf_mul_ui 0 (mkSt (dest p.toNat) u default) .u v.toNat))
      else if m = 1 then do
        let r ← opnd neg e d p.toNat (p.toNat + 1)
        some (out (mpf_mul_ui 0 (mkSt r default default) .r v.toNat))
      else none
  | "as7_mul_2exp", [.num m, .num p, .num neg, .num e, .vec d, .num k] =>
      if !precOk p || k < 0 || k ≥ 2 ^ 32 then none else
      if m = 0 then do
        let u ← opnd neg e d 0 1
        some (out (mpf_mul_2exp 0 (mkSt (dest p.toNat) u default) .u k.toNat))
      else if m = 1 then do
        let r ← opnd neg e d p.toNat (p.toNat + 1)
        some (out (mpf_mul_2exp 0 (mkSt r default default) .r k.toNat))
      else none
  | "as7_div_2exp", [.num m, .num p, .num neg, .num e, .vec d, .num k] =>
      if !precOk p || k < 0 || k ≥ 2 ^ 32 then none else
      if m = 0 then do
        let u ← opnd neg e d 0 1
        some (out (mpf_div_2exp 0 (mkSt (dest p.toNat) u default) .u k.toNat))
      else if m = 1 then do
        let r ← opnd neg e d p.toNat (p.toNat + 1)
        some (out (mpf_div_2exp 0 (mkSt r default default) .r k.toNat))
      else none
  | op, [.num m, .num p, .num un, .num ue, .vec ud, .num vn, .num ve, .vec vd] =>
      if op != "as7_add" && op != "as7_sub" then none else
      if !precOk p then none else do
        let P := p.toNat
        -- alias modes: 0 all distinct, 1 r == u, 2 r == v, 3 u == v (r distinct), 4 r == u == v
        let (st, a, b) ←
          if m = 0 then do
            let u ← opnd un ue ud 0 1; let v ← opnd vn ve vd 0 1
            some (mkSt (dest P) u v, Src.u, Src.v)
          else if m = 1 then do
            let r ← opnd un ue ud P (P + 1); let v ← opnd vn ve vd 0 1
            some (mkSt r default v, Src.r, Src.v)
          else if m = 2 then do
            let u ← opnd un ue ud 0 1; let r ← opnd vn ve vd P (P + 1)
            some (mkSt r u default, Src.u, Src.r)
          else if m = 3 then do
            let u ← opnd un ue ud 0 1
            some (mkSt (dest P) u default, Src.u, Src.u)
          else if m = 4 then do
            let r ← opnd un ue ud P (P + 1)
            some (mkSt r default default, Src.r, Src.r)
          else none
        if op == "as7_sub" then some (out (mpf_sub st a b)) else
        let s ← mpf_add 0 st a b
        some (out s)
  | _, _ => none

end Mpir.Ops.AllocSafe7
