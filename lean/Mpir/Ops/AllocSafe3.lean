/- Driver handlers for the C04 part allocsafe3: the size-aware models of Mpir/Model/AllocSafeMpz3.lean on objects of
   given allocations (conventions of Mpir/Ops/AllocSafe.lean: token pairs `alloc value`, leading alias-mode token
     0 all variables distinct   1 w is u   2 w is v   3 u is v (w distinct)   4 all one variable).
   Answer: ALLOC (w), SIZ (w), value of w; `!oob` if the model's run clears `ok`, `!malformed` if the result is not
   well formed. -/
import Mpir.Proto
import Mpir.Model.AllocSafeMpz3
namespace Mpir.Ops.AllocSafe3
open Mpir Mpir.AllocSafe

private def mk? (al v : Int) : Option Obj :=
  if 1 ≤ al && al ≤ 2 ^ 20 && (natLimbs v.natAbs).length ≤ al.toNat then some (mkObj al.toNat v) else none

private def outW (s : St) (w : Nat) : List Tok :=
  if !s.ok then [.err "oob"] else
  let m := view (s.h w)
  [.num m.alloc, .num m.size, if Mpz.WF m then .num (Mpz.toInt m) else .err "malformed"]

private def heap (w u v : Obj) : St := ⟨fun i => if i = 0 then w else if i = 1 then u else v, true⟩

private def fbit (name : String) : Option (St → Nat → Nat → St) :=
  match name with
  | "as3_setbit" => some mpz_setbit
  | "as3_clrbit" => some mpz_clrbit
  | "as3_combit" => some mpz_combit
  | _ => none

private def run2 (f : St → Nat → Nat → St) (m : Int) (w u : Obj) : Option (List Tok) :=
  let s := heap w u u
  match m with
  | 0 => some (outW (f s 0 1) 0)
  | 1 => some (outW (f s 1 1) 1)
  | _ => none

private def fcnt (name : String) : Option (St → Nat → Nat → Nat → St) :=
  match name with
  | "as3_cdiv_q_2exp" => some mpz_cdiv_q_2exp
  | "as3_fdiv_q_2exp" => some mpz_fdiv_q_2exp
  | _ => none

def handle : Handler
  | name, [.num m, .num wa, .num wv, .num ua, .num uv, .num cnt] => do
      let f ← fcnt name
      if !(0 ≤ cnt && cnt < 2 ^ 26) then none else
      let w ← mk? wa wv; let u ← mk? ua uv
      run2 (fun s a b => f s a b cnt.toNat) m w u
  | name, [.num da, .num dv, .num idx] => do
      let f ← fbit name
      if !(0 ≤ idx && idx < 2 ^ 26) then none else
      let d ← mk? da dv
      some (outW (f (heap d d d) 0 idx.toNat) 0)
  | _, _ => none

end Mpir.Ops.AllocSafe3
