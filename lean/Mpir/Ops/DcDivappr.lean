/- Driver handler for C02 part c02_dcappr: the value-level model of mpn_dc_divappr_q (Mpir/Model/DcDivappr.lean; theorems
   MpirProofs/Props/C02_dcappr.lean).  C side: harness/ops_dcdivappr.c.

     dc_divappr_q_model T C rep [np, nn limbs] [dp, dn limbs]  ->  [q, nn-dn limbs] [np[dn-2 .. dn] after the call] qh
   T = DC_DIV_QR_THRESHOLD of the build (checked by the C op), C = SB_DIVAPPR_Q_CUTOFF (a #define local to dc_divappr_q.c,
   read from the source by the generator and covered by the source pin); rep = 1 iff the source under test is the repaired
   C (`while` at :105 and the sign test in the rare case; also read from the source by the generator).  Compared verbatim.
   `!modeldomain` is appended if the model ever left the ASSERTed domain of a callee or qn != dn - 1 after the reduction
   loop (proved unreachable), `!modelspec` if the quotient is neither ⌊n/d⌋ nor ⌊n/d⌋ + 1 or qh > 1. -/
import Mpir.Proto
import Mpir.Model.DcDivappr
import Mpir.Model.DivZ
namespace Mpir.Ops.DcDivappr
open Mpir Mpir.DcDivappr

def handle : Handler
  | "dc_divappr_q_model", [.num t, .num c, .num rep, .vec n, .vec d] =>
      if t < 6 ∨ c < 3 ∨ rep < 0 ∨ rep > 1 ∨ ¬ DivZ.normalised d ∨ d.length < 6 ∨ n.length < d.length + 3 then none else
      let r := dc_divappr_q (rep == 1) t.toNat c.toNat n d
      let out := [Tok.vec r.1, .vec r.2.1, natTok r.2.2.1]
      let out := if r.2.2.2 then out else out ++ [.err "modeldomain"]
      some (if r.2.2.1 ≤ 1 ∧ DivZ.divapprOk n d r.1 r.2.2.1 then out else out ++ [.err "modelspec"])
  | _, _ => none

end Mpir.Ops.DcDivappr
