/- Driver handlers for the grammar of mpf_set_str's input (property C13, part c13_parse).
     fp_accept base s<string>        -> 0 / -1 : is the string in the GRAMMAR (`MpfParse.recog`, not the scanner model)
     fp_set rprec base s<string>     -> ret size exp [limbs] : the value the grammar's derivation denotes, converted
                                        by the bit-exact conversion model (`MpfStr.convert`); destination untouched on -1
     fp_scan base s<string>          -> 0 / -1 : the same question to the scanner MODEL (`MpfStr.parse`), so that the
                                        three of them (C, scanner model, grammar) are compared pairwise on every line -/
import Mpir.Proto
import Mpir.Model.MpfParse
import Mpir.Ops.MpfStr
namespace Mpir.Ops.MpfParse
open Mpir Mpir.MpfStr Mpir.MpfParse
open Mpir.Ops.Mpf (render)
open Mpir.Ops.MpfStr (bytesOf preset)

def handle : Handler
  | "fp_accept", [.num base, .str s] =>
      some [.num (if accepts base (bytesOf s) then 0 else -1)]
  | "fp_scan", [.num base, .str s] =>
      some [.num (if (parse base (bytesOf s)).isSome then 0 else -1)]
  | "fp_set", [.num rp, .num base, .str s] =>
      if rp < 2 then none else
      match recog base (bytesOf s) with
      | none => some (.num (-1) :: render (preset rp.toNat))
      | some p => some (.num 0 :: render (convert rp.toNat p))
  | _, _ => none

end Mpir.Ops.MpfParse
