/- Driver handlers for C02 part c02_dc: the value-level models of mpn_dc_div_qr_n / mpn_dc_div_qr / mpn_dc_div_q
   (Mpir/Model/DcDiv.lean; theorems MpirProofs/Props/C02_dc.lean).  C side: harness/ops_dcdiv.c.

     dc_div_qr_n T [np, 2n limbs] [dp, n limbs]      -> [q, n limbs] [r, n limbs] qh      T = DC_DIV_QR_THRESHOLD of the build
     dc_div_qr_model T [np, nn limbs] [dp, dn limbs]   -> [q, nn-dn limbs] [r, dn limbs] qh
     dc_div_q [np] [dp]   (predicate op)  implementation prints [q] qh [wp] wh where ([wp], wh) is what the callee
                          mpn_dc_divappr_q returns for (0 :: np, dp); the predicate checks the callee's contract
                          (wh ≤ 1, ⌊n·B/d⌋ or +1: the hypotheses of dcDivQ_exact) and that (q, qh) is what the model of dc_div_q.c makes of it.
   `!modeldomain` is appended if the model ever left the ASSERTed domain of a callee or a correction loop did not
   end (proved unreachable: dcDivQrN_ok / dcDivQr_ok); `!modelspec` if the answer differed from ⌊n/d⌋, n mod d. -/
import Mpir.Proto
import Mpir.Model.DcDiv
import Mpir.Model.DivZ
namespace Mpir.Ops.DcDiv
open Mpir Mpir.DcDiv

private def spec (qn : Nat) (n d : List Nat) : List Nat × List Nat × Nat :=
  (toLimbs qn (val n / val d), toLimbs d.length (val n % val d), val n / val d / B ^ qn)

private def render (res : List Nat × List Nat × Nat) (ok : Bool) (sp : List Nat × List Nat × Nat) : List Tok :=
  let out := [Tok.vec res.1, .vec res.2.1, natTok res.2.2]
  let out := if ok then out else out ++ [.err "modeldomain"]
  if res == sp then out else out ++ [.err "modelspec"]

def handle : Handler
  | "dc_div_qr_n", [.num t, .vec n, .vec d] =>
      if t < 6 ∨ ¬ DivZ.normalised d ∨ d.length < 6 ∨ n.length ≠ 2 * d.length then none else
      let T := t.toNat
      some (render (dc_div_qr_n T n d) (dcDivQrN T d.length (val n) (val d)).ok (spec d.length n d))
  | "dc_div_qr_model", [.num t, .vec n, .vec d] =>
      if t < 6 ∨ ¬ DivZ.normalised d ∨ d.length < 6 ∨ n.length < d.length + 3 then none else
      let T := t.toNat
      some (render (dc_div_qr T n d) (dcDivQr T n.length d.length (val n) (val d)).ok (spec (n.length - d.length) n d))
  | _, _ => none

def pred : PredHandler
  | "dc_div_q", [.vec n, .vec d], out =>
      if ¬ DivZ.normalised d ∨ d.length < 6 ∨ n.length < d.length + 3 then none else
      match out with
      | [.vec q, .num qh, .vec w, .num wh] =>
          if qh < 0 ∨ wh < 0 then some (some "negative qh") else
          if wh > 1 ∨ ¬ DivZ.divapprOk (0 :: n) d w wh.toNat then some (some "callee mpn_dc_divappr_q outside its contract") else
          let m := dc_div_q n d w wh.toNat
          if (q, qh.toNat) != m then some (some "differs from the model of dc_div_q.c on the callee's result") else
          if val q + B ^ (n.length - d.length) * qh.toNat != val n / val d then some (some "quotient is not floor(n/d)") else
          some none
      | _ => some (some "unexpected output shape")
  | _, _, _ => none

end Mpir.Ops.DcDiv
