/- Driver handlers for C17, stream layer (part c17_stream; harness/ops_io2.c).
   Every answer is the model's: Mpir/Model/IoStream.lean (mpf text streams on objects composed with the bit-exact
   mpf_get_str / mpf_set_str models, import/export on objects) and Mpir/Model/Io.lean over the three sinks of the
   harness.  Where a theorem relates two descriptions the handler asserts the relation at run time as well
   (`!modelobj`, `!modelspec`). -/
import Mpir.Proto
import Mpir.Model.IoStream
import Mpir.Ops.Mpf
namespace Mpir.Ops.IoStream
open Mpir Mpir.Io
open Mpir.Ops.Mpf (opnd? render)

private def bytesTok (l : List Nat) : Tok := .str (toU8 l)
private def cTok (c : Option Nat) : Tok := match c with | none => .num (-1) | some c => natTok c
private def outBaseOk (b : Int) : Bool := b == 0 || (2 ≤ b && b ≤ 62) || (b ≤ -2 && -36 ≤ b)
private def baseOk (b : Int) : Bool := b == 0 || b ≥ 2 || (b ≤ -2 && b ≥ -36)
private def ieOk (order size endian nails align : Int) : Bool :=
  (order == 1 || order == -1) && 1 ≤ size && size ≤ 64 && -1 ≤ endian && endian ≤ 1 && 0 ≤ nails && nails < 8 * size &&
  0 ≤ align && align ≤ 7
/-- destination of mpf_inp_str in the harness: {5,7}, exponent -3 -/
private def preset (prec : Nat) : Mpf.F := ⟨prec, 2, -3, [5, 7]⟩

/-- the sinks of harness/ops_io2.c -/
def sinkOf (mode k : Int) : Option OStream :=
  if k < 0 then some {} else
  if mode = 0 then some { sink := sinkFailAt k.toNat }
  else if mode = 1 then some { sink := sinkOnceAt k.toNat }
  else if mode = 2 then some { sink := fun _ n => min n k.toNat }
  else none

private def sinkOut (ret : Tok) (s : OStream) : List Tok := [ret, natTok s.fired, bytesTok s.out]

/-- destination variants of `mpz_import_obj` -/
private def importDest (dvar : Int) (zsize : Nat) : Mpz :=
  if dvar = 0 then ⟨1, -1, [77]⟩
  else if dvar = 1 then ⟨2 * zsize + 1, -((2 * zsize + 1 : Nat) : Int), List.replicate (2 * zsize + 1) (B - 1)⟩
  else ⟨max zsize 1, (max zsize 1 : Nat), List.replicate (max zsize 1) (B - 1)⟩

/-- `mpz_raw_big`: what the theorems `out_raw_format`, `raw_beyond_header`, `inp_raw_total` say about
    x = ±(2^(8·nb−1) + 5) written by mpz_out_raw and read back from a stream holding exactly that record -/
private def rawBigSpec (neg : Bool) (nb : Nat) : List Tok :=
  let s : Int := if neg then -(nb : Int) else nb
  let hdr := hdrBytes s
  let c := csizeOf hdr
  let ac := c.natAbs
  if ac ≤ nb then
    let rel : Int := if ac = nb then (if decide (c < 0) = neg then 1 else -1) else 0
    [natTok (4 + nb), bytesTok hdr, natTok (4 + ac), .num rel, natTok (4 + ac)]
  else [natTok (4 + nb), bytesTok hdr, natTok 0, .num 0, natTok (4 + nb)]

def handle : Handler
  | "mpf_out_str_x", .num base :: .num nd :: rest =>
      if !(outBaseOk base && 0 ≤ nd) then none else
      match opnd? rest with
      | some (u, []) =>
          let (ret, s) := mpf_out_str_obj {} base nd.toNat u
          some [.num ret, bytesTok s.out]
      | _ => none
  | "mpf_inp_str_x", [.num base, .num prec, .str s, .num k] =>
      if prec < 2 then none else
      let st : Stream := ⟨ofU8 s, if k < 0 then none else some k.toNat⟩
      let (ret, y, r) := mpf_inp_str (preset prec.toNat) st base
      some (natTok ret :: render y ++ [cTok (getc r).1])
  | "mpf_out_inp_str_x", .num base :: .num nd :: .num rbase :: rest =>
      if !(outBaseOk base && 0 ≤ nd) then none else
      match opnd? rest with
      | some (u, []) =>
          let (wret, s) := mpf_out_str_obj {} base nd.toNat u
          let (rret, y, _) := mpf_inp_str_rd (preset u.prec) s.out rbase
          some ([.num wret, bytesTok s.out, natTok rret] ++ render y)
      | _ => none
  | "mpz_import_obj", [.num dvar, .num order, .num size, .num endian, .num nails, .num align, .str data, .num count] =>
      if !(0 ≤ dvar && dvar ≤ 2 && ieOk order size endian nails align && 0 ≤ count) then none else
      let d := ofU8 data
      if d.length ≠ count.toNat * size.toNat then none else
      let zsize := (count.toNat * (8 * size.toNat - nails.toNat) + 63) / 64
      let r := mpz_import_obj (importDest dvar zsize) count.toNat order size.toNat endian nails.toNat align.toNat d (fun _ => 0xA5A5)
      let g := mpz_import_generic count.toNat order size.toNat endian nails.toNat d
      if ¬ r.WF then some [.err "malformed"]
      else if r.limbs ≠ g ∨ r.size < 0 then some [.err "modelobj"]
      else some [.num r.toInt]
  | "mpz_export_obj", [.num order, .num size, .num endian, .num nails, .num align, .num extra, .num x] =>
      if !(ieOk order size endian nails align && 0 ≤ extra && extra ≤ 16) then none else
      let zl := natLimbs x.natAbs
      let al := max (zl.length + extra.toNat) 1
      let z : Mpz := ⟨al, if x < 0 then -(zl.length : Int) else zl.length, zl ++ List.replicate (al - zl.length) (B - 1)⟩
      let m := mpz_export_obj order size.toNat endian nails.toNat align.toNat z
      let g := if x = 0 then (0, []) else mpz_export_generic order size.toNat endian nails.toNat zl
      if m ≠ g then some [.err "modelobj"] else some [natTok m.1, bytesTok m.2]
  | "mpz_out_raw_sink", [.num x, .num mode, .num k] =>
      match sinkOf mode k with
      | none => none
      | some s0 => let (ret, s) := mpz_out_raw s0 (Mpz.ofInt x); some (sinkOut (natTok ret) s)
  | "mpz_out_str_sink", [.num base, .num x, .num mode, .num k] =>
      if !baseOk base then none else
      match sinkOf mode k with
      | none => none
      | some s0 => let (ret, s) := mpz_out_str s0 base x; some (sinkOut (natTok ret) s)
  | "mpq_out_str_sink", [.num base, .num n, .num d, .num mode, .num k] =>
      if !baseOk base then none else
      match sinkOf mode k with
      | none => none
      | some s0 => let (ret, s) := mpq_out_str s0 base n d; some (sinkOut (natTok ret) s)
  | "mpf_out_str_sink", .num base :: .num nd :: .num mode :: .num k :: rest =>
      if !(outBaseOk base && 0 ≤ nd) then none else
      match sinkOf mode k, opnd? rest with
      | some s0, some (u, []) => let (ret, s) := mpf_out_str_obj s0 base nd.toNat u; some (sinkOut (.num ret) s)
      | _, _ => none
  | "gmp_fprintf_sink", [.str pre, .num width, .num base, .num x, .str post, .num mode, .num k] =>
      if !(0 ≤ width && (base == 10 || base == 16)) then none else
      match sinkOf mode k with
      | none => none
      | some s0 =>
          let (ret, s) := gmpFprintfModel true s0 (ofU8 pre) width.toNat base.toNat x (ofU8 post)
          -- theorem fprintf_fault_returns_m1, evaluated: -1 exactly when a write call came back short
          if (ret == -1) != (s.fired != 0) then some [.err "modelspec"] else some (sinkOut (.num ret) s)
  | "mpz_raw_big", [.num neg, .num nb] =>
      if nb < 1 ∨ nb > 8589934592 ∨ neg < 0 ∨ neg > 1 then none else
      let spec := rawBigSpec (neg == 1) nb.toNat
      if nb ≤ 4096 then
        -- small sizes: the executable model itself must agree with the formulas
        let x : Int := (if neg == 1 then -1 else 1) * ((2 : Int) ^ (8 * nb.toNat - 1) + 5)
        let (wret, s) := mpz_out_raw {} (Mpz.ofInt x)
        let (rret, y, r) := mpz_inp_raw ⟨1, 0, [0]⟩ ⟨s.out, none⟩ (fun _ => 0)
        let rel : Int := if y.toInt = x then 1 else if y.toInt = -x then -1 else 0
        let m := [natTok wret, bytesTok (s.out.take 4), natTok rret, .num rel, natTok (s.out.length - r.length)]
        if m != spec then some [.err "modelspec"] else some spec
      else some spec
  | _, _ => none

end Mpir.Ops.IoStream
