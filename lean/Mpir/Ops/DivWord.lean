/- Driver handlers for the word-level division macros and one-limb division kernels (C02, word part).
   Inputs the C harness refuses (`?args`) are refused here too (`none` -> `?op`). -/
import Mpir.Proto
import Mpir.Model.DivWord
namespace Mpir.Ops.DivWord
open Mpir Mpir.DivWord

private def limb? : Tok → Option Nat
  | .num v => if 0 ≤ v ∧ v < (B : Int) then some v.toNat else none
  | _ => none

private def limbs? (ts : List Tok) : Option (List Nat) := ts.mapM limb?

private def pair (p : List Nat × Nat) : List Tok := [.vec p.1, natTok p.2]
private def two (p : Nat × Nat) : List Tok := [natTok p.1, natTok p.2]
private def norm (d : Nat) : Bool := decide (HIGHBIT ≤ d)

def handleWords (op : String) (a : List Nat) : Option (List Tok) :=
  match op, a with
  | "udiv_qrnnd", [n1, n0, d] => if n1 < d then some (two (udiv_qrnnd n1 n0 d)) else none
  | "add_ssaaaa", [ah, al, bh, bl] => some (two (add_ssaaaa ah al bh bl))
  | "sub_ddmmss", [ah, al, bh, bl] => some (two (sub_ddmmss ah al bh bl))
  | "count_leading_zeros", [x] => if x ≠ 0 then some [natTok (count_leading_zeros x)] else none
  | "count_trailing_zeros", [x] => if x ≠ 0 then some [natTok (count_trailing_zeros x)] else none
  | "invert_limb", [d] => if norm d then some [natTok (invert_limb d)] else none
  | "udiv_qrnnd_preinv", [nh, nl, d] =>
      if norm d ∧ nh < d then some (two (udiv_qrnnd_preinv nh nl d (invert_limb d))) else none
  | "udiv_qrnnd_preinv1", [nh, nl, d] =>
      if norm d ∧ nh < d then some (two (udiv_qrnnd_preinv1 nh nl d (invert_limb d))) else none
  | "udiv_qrnnd_preinv2", [nh, nl, d] =>
      if norm d ∧ nh < d then some (two (udiv_qrnnd_preinv2 nh nl d (invert_limb d))) else none
  | "invert_pi1", [d1, d0] => if norm d1 then some [natTok (invert_pi1 d1 d0)] else none
  | "udiv_qr_3by2", [n2, n1, n0, d1, d0] =>
      if norm d1 ∧ (n2 < d1 ∨ (n2 = d1 ∧ n1 < d0)) then
        let (q, r1, r0) := udiv_qr_3by2 n2 n1 n0 d1 d0 (invert_pi1 d1 d0)
        some [natTok q, natTok r1, natTok r0]
      else none
  | "modlimb_invert", [n] => if n % 2 = 1 then some [natTok (modlimb_invert n)] else none
  | _, _ => none

def handle : Handler := fun op toks =>
  match op, toks with
  | "mpn_divrem_1", [.vec u, d, q] | "mpn_divrem_1_ip", [.vec u, d, q] => do
      let d ← limb? d; let qxn ← limb? q
      if d ≠ 0 ∧ qxn ≤ 4096 ∧ u.length + qxn ≥ 1 then some (pair (divrem_1 qxn u d)) else none
  | "mpn_divrem_euclidean_qr_1", [.vec u, d] => do
      let d ← limb? d
      if d ≠ 0 ∧ u.length ≥ 1 then some (pair (divrem_euclidean_qr_1 u d)) else none
  | "mpn_divrem_euclidean_r_1", [.vec u, d] => do
      let d ← limb? d
      if d ≠ 0 ∧ u.length ≥ 1 then some [natTok (divrem_euclidean_r_1 u d)] else none
  | "mpn_rsh_divrem_hensel_qr_1", [.vec u, d, s, c] => do
      let d ← limb? d; let s ← limb? s; let c ← limb? c
      if d % 2 = 1 ∧ s ≤ 63 ∧ u.length ≥ 1 then some (pair (rsh_divrem_hensel_qr_1 u d s c)) else none
  | "mpn_rsh_divrem_hensel_qr_1_1", [.vec u, d, s, c] => do
      let d ← limb? d; let s ← limb? s; let c ← limb? c
      if d % 2 = 1 ∧ s ≤ 63 ∧ u.length ≥ 1 then some (pair (rsh_divrem_hensel_qr_1_1 u d s c)) else none
  | "mpn_rsh_divrem_hensel_qr_1_2", [.vec u, d, s, c] => do
      let d ← limb? d; let s ← limb? s; let c ← limb? c
      if d % 2 = 1 ∧ s ≤ 63 ∧ u.length ≥ 2 then some (pair (rsh_divrem_hensel_qr_1_2 u d s c)) else none
  | "mpn_mod_1", [.vec u, d] => do
      let d ← limb? d
      if d ≠ 0 then some [natTok (mod_1 u d)] else none
  | "mpn_preinv_mod_1", [.vec u, d] => do
      let d ← limb? d
      if norm d ∧ u.length ≥ 1 then some [natTok (preinv_mod_1 u d (invert_limb d))] else none
  | "mpn_divexact_1", [.vec u, d] | "mpn_divexact_1_ip", [.vec u, d] => do
      let d ← limb? d
      if d ≠ 0 ∧ u.length ≥ 1 then some [.vec (divexact_1 u d)] else none
  | "mpn_divexact_by3c", [.vec u, c] | "mpn_divexact_by3c_ip", [.vec u, c] => do
      let c ← limb? c
      if u.length ≥ 1 then some (pair (divexact_by3c u c)) else none
  | "mpn_modexact_1c_odd", [.vec u, d, c] => do
      let d ← limb? d; let c ← limb? c
      if d % 2 = 1 ∧ u.length ≥ 1 then some [natTok (modexact_1c_odd u d c)] else none
  | op, toks => (limbs? toks).bind (handleWords op)

/-- predicate ops: the property itself is evaluated on the implementation's output (used so that a wrong
    `modlimb_invert_table` entry, which the regenerated model would faithfully reproduce, still yields a failing input) -/
def pred : PredHandler := fun op toks impl =>
  match op, toks, impl with
  | "modlimb_invert_ok", [.num n], [.num inv] =>
      if n.toNat % 2 = 1 ∧ 0 ≤ inv ∧ inv < (B : Int) then
        some (if n.toNat * inv.toNat % B = 1 then none else some "n*inv mod 2^64 != 1")
      else none
  | "mpn_divexact_1_ok", [.vec u, .num d], [.vec q] =>
      if 0 < d ∧ d < (B : Int) ∧ u.length ≥ 1 ∧ val u % d.toNat = 0 then
        some (if val q * d.toNat = val u ∧ q.length = u.length then none else some "quotient*d != dividend")
      else none
  | _, _, _ => none

end Mpir.Ops.DivWord
