/- Driver handlers for the middle product (property C01, part c01_mulmid): the limb-level models of Mpir/Model/MulMid.lean with
   MULMID_TOOM42_THRESHOLD of the tree under check; every output limb is compared.  mpn_toom42_mulmid enters by its
   specification (`tmSpec`). -/
import Mpir.Proto
import Mpir.Model.MulMid
import Mpir.Gen.Params
namespace Mpir.Ops.MulMid
open Mpir Mpir.MulMid

def T : Nat := Mpir.Gen.params.MULMID_TOOM42_THRESHOLD.toNat

def handle : Handler
  | "mm_basecase", [.vec a, .vec b] =>
      if b.length ≥ 1 && a.length ≥ b.length then some [.vec (mulmid_basecase a a.length b)] else none
  | "mm_mulmid_n", [.vec a, .vec b] =>
      if b.length ≥ 1 && a.length == 2 * b.length - 1 then some [.vec (mulmid_n T tmSpec a b b.length)] else none
  | "mm_mulmid", [.vec a, .vec b] =>
      if b.length ≥ 1 && a.length ≥ b.length then
        let r := mulmid T tmSpec a.length a a.length b
        if r.length == a.length - b.length + 3 then some [.vec r] else some [.err "model"]
      else none
  | _, _ => none

end Mpir.Ops.MulMid
