/- Driver handlers for the middle product (property C01, part c01_mulmid): the limb-level models of Mpir/Model/MulMid.lean with
   MULMID_TOOM42_THRESHOLD of the tree under check; every output limb is compared.  mpn_toom42_mulmid is the limb-level model
   of Mpir/Model/MulMidToom.lean (op mm_toom42 ties it directly). -/
import Mpir.Proto
import Mpir.Model.MulMid
import Mpir.Model.MulMidToom
import Mpir.Gen.Params
namespace Mpir.Ops.MulMid
open Mpir Mpir.MulMid

def T : Nat := Mpir.Gen.params.MULMID_TOOM42_THRESHOLD.toNat

/-- mpn_toom42_mulmid as modelled (Mpir/Model/MulMidToom.lean), in the shape `mulmid_n` / `mulmid` take their callee -/
def tmModel (a b : List Nat) (n : Nat) : List Nat := toom42 T n a b n

def handle : Handler
  | "mm_basecase", [.vec a, .vec b] =>
      if b.length ≥ 1 && a.length ≥ b.length then some [.vec (mulmid_basecase a a.length b)] else none
  | "mm_mulmid_n", [.vec a, .vec b] =>
      if b.length ≥ 1 && a.length == 2 * b.length - 1 then some [.vec (mulmid_n T tmModel a b b.length)] else none
  | "mm_mulmid", [.vec a, .vec b] =>
      if b.length ≥ 1 && a.length ≥ b.length then
        let r := mulmid T tmModel a.length a a.length b
        if r.length == a.length - b.length + 3 then some [.vec r] else some [.err "model"]
      else none
  | "mm_toom42", [.vec a, .vec b] =>
      if b.length ≥ 4 && a.length == 2 * b.length - 1 then
        let r := toom42 T b.length a b b.length
        if r.length == b.length + 2 then some [.vec r] else some [.err "model"]
      else none
  | _, _ => none

end Mpir.Ops.MulMid
