/- Driver handlers for the half-gcd layer of C07 (models in Mpir/Model/Hgcd.lean).
   `handle`: exact comparison of the full output (matrix entries, reduced numbers, sizes);
   `pred`: the hgcd contract evaluated on the implementation's own output (ops `*_p`). -/
import Mpir.Proto
import Mpir.Model.Hgcd
import Mpir.Gen.Params
namespace Mpir.Ops.Hgcd
open Mpir Mpir.Gcd Mpir.Hgcd

private def P := Mpir.Gen.params

/-- mpn_mulmod_bnm1_next_size of the pinned build -/
def nextSize : Nat → Nat :=
  bnm1NextSize P.FFT_MULMOD_2EXPP1_CUTOFF.toNat P.FFT_N_NUM.toNat (P.MULMOD_TAB.map Int.toNat)

private def isUlong (x : Int) : Bool := 0 ≤ x ∧ x < 2 ^ 64

private def matToks (M : HM) : List Tok :=
  [natTok M.n, .vec (toLimbs M.n M.e00), .vec (toLimbs M.n M.e01), .vec (toLimbs M.n M.e10), .vec (toLimbs M.n M.e11)]

/-- `mn [e00] [e01] [e10] [e11]` with vectors of exactly mn limbs, 1 ≤ mn ≤ alloc -/
private def matOf (alloc : Nat) (mn : Int) (e00 e01 e10 e11 : List Nat) : Option HM :=
  if 1 ≤ mn ∧ mn.toNat ≤ alloc ∧ e00.length = mn.toNat ∧ e01.length = mn.toNat ∧ e10.length = mn.toNat ∧ e11.length = mn.toNat
  then some ⟨alloc, mn.toNat, val e00, val e01, val e10, val e11⟩ else none

private def thrOf (t0 t1 t2 t3 : Int) : Option Thr :=
  if isUlong t0 ∧ isUlong t1 ∧ isUlong t2 ∧ isUlong t3 then some ⟨t0.toNat, t1.toNat, t2.toNat, t3.toNat⟩ else none

private def abToks (ret n a b : Nat) : List Tok :=
  let k := if ret > 0 then ret else n
  if ret > n + 1 then [natTok ret, .err "size"] else [natTok ret, .vec (toLimbs k a), .vec (toLimbs k b)]

private def topNonzero (a b : List Nat) : Bool := (a.getLast?.getD 0 ||| b.getLast?.getD 0) != 0

def handle : Handler
  | "hgcd_matrix_init", [.num n] =>
      if 1 ≤ n ∧ n ≤ 100000 then
        let M := matInit n.toNat
        some (natTok M.alloc :: matToks M)
      else none
  | "hgcd_matrix_update_q", [.num alloc, .num mn, .vec e00, .vec e01, .vec e10, .vec e11, .vec q, .num col] =>
      if 2 ≤ alloc ∧ alloc ≤ 100000 ∧ (0 ≤ col ∧ col ≤ 1) ∧ q.length ≥ 1 ∧ q.getLast?.getD 0 ≠ 0 then
        match matOf alloc.toNat mn e00 e01 e10 e11 with
        | some M => if M.n + q.length + 1 > M.alloc then none else some (matToks (updateQ M (val q) col.toNat))
        | none => none
      else none
  | "hgcd_matrix_mul_1", [.num alloc, .num mn, .vec e00, .vec e01, .vec e10, .vec e11, .num u00, .num u01, .num u10, .num u11] =>
      if 2 ≤ alloc ∧ alloc ≤ 100000 ∧ isUlong u00 ∧ isUlong u01 ∧ isUlong u10 ∧ isUlong u11 then
        match matOf alloc.toNat mn e00 e01 e10 e11 with
        | some M => if M.n + 1 > M.alloc then none else some (matToks (matMul1 M ⟨u00.toNat, u01.toNat, u10.toNat, u11.toNat⟩))
        | none => none
      else none
  | "hgcd_matrix_mul", [.num thr, .num alloc, .num mn, .vec e00, .vec e01, .vec e10, .vec e11,
                        .num mn1, .vec f00, .vec f01, .vec f10, .vec f11] =>
      if isUlong thr ∧ 3 ≤ alloc ∧ alloc ≤ 100000 then
        match matOf alloc.toNat mn e00 e01 e10 e11, matOf alloc.toNat mn1 f00 f01 f10 f11 with
        | some M, some M1 => if M.n + M1.n ≥ M.alloc then none else some (matToks (matMul thr.toNat M M1))
        | _, _ => none
      else none
  | "mpn_matrix22_mul", [.num thr, .num which, .vec r0, .vec r1, .vec r2, .vec r3, .vec m0, .vec m1, .vec m2, .vec m3] =>
      let rn := r0.length; let mn := m0.length
      if isUlong thr ∧ (0 ≤ which ∧ which ≤ 1) ∧ rn ≥ 1 ∧ mn ≥ 1 ∧ r1.length = rn ∧ r2.length = rn ∧ r3.length = rn
          ∧ m1.length = mn ∧ m2.length = mn ∧ m3.length = mn then
        let p := if which = 1 then strassen (val r0) (val r1) (val r2) (val r3) rn (val m0) (val m1) (val m2) (val m3) mn
                 else matrix22Mul thr.toNat (val r0) (val r1) (val r2) (val r3) rn (val m0) (val m1) (val m2) (val m3) mn
        let k := rn + mn + 1
        some [.vec (toLimbs k p.1), .vec (toLimbs k p.2.1), .vec (toLimbs k p.2.2.1), .vec (toLimbs k p.2.2.2)]
      else none
  | "hgcd_matrix_adjust", [.vec a, .vec b, .num p, .num mn, .vec e00, .vec e01, .vec e10, .vec e11] =>
      let n := a.length
      if b.length = n ∧ 1 ≤ p ∧ 0 ≤ mn ∧ p.toNat + mn.toNat < n then
        match matOf (mn.toNat + 1) mn e00 e01 e10 e11 with
        | some M =>
            let r := matAdjust M n (val a) (val b) p.toNat
            if 1 ≤ r.1 ∧ r.1 ≤ n + 1 then some [natTok r.1, .vec (toLimbs r.1 r.2.1), .vec (toLimbs r.1 r.2.2)]
            else some [natTok r.1]
        | none => none
      else none
  | "mpn_matrix22_mul1_inverse_vector", [.num u00, .num u01, .num u10, .num u11, .vec a, .vec b] =>
      let n := a.length
      if isUlong u00 ∧ isUlong u01 ∧ isUlong u10 ∧ isUlong u11 ∧ b.length = n ∧ n ≥ 1 then
        let r := mul1InvVec ⟨u00.toNat, u01.toNat, u10.toNat, u11.toNat⟩ (val a) (val b) n
        some [natTok r.2.2, .vec (toLimbs n r.1), .vec (toLimbs n r.2.1)]
      else none
  | "mpn_hgcd_mul_matrix1_vector", [.num u00, .num u01, .num u10, .num u11, .vec a, .vec b] =>
      let n := a.length
      if isUlong u00 ∧ isUlong u01 ∧ isUlong u10 ∧ isUlong u11 ∧ b.length = n ∧ n ≥ 1 then
        let r := mulMatrix1Vector ⟨u00.toNat, u01.toNat, u10.toNat, u11.toNat⟩ (val a) (val b) n
        some [natTok r.2.2, .vec (toLimbs (n + 1) r.1), .vec (toLimbs (n + 1) r.2.1)]
      else none
  | "mpn_hgcd_step", [.num s, .vec a, .vec b, .num alloc, .num mn, .vec e00, .vec e01, .vec e10, .vec e11] =>
      let n := a.length
      if b.length = n ∧ 1 ≤ s ∧ s.toNat < n ∧ topNonzero a b ∧ 2 ≤ alloc ∧ alloc ≤ 100000 then
        match matOf alloc.toNat mn e00 e01 e10 e11 with
        | some M =>
            if M.n + (n - s.toNat) + 1 > M.alloc then none
            else
              let r := hgcdStep n (val a) (val b) s.toNat M
              some (abToks r.ret n r.a r.b ++ matToks r.M)
        | none => none
      else none
  | "mpn_hgcd", [.num t0, .num t1, .num t2, .num t3, .vec a, .vec b] =>
      let n := a.length
      match thrOf t0 t1 t2 t3 with
      | some thr =>
          if b.length = n ∧ n ≥ 1 ∧ topNonzero a b then
            let r := hgcd thr nextSize n (val a) (val b) (matInit n)
            some (abToks r.ret n r.a r.b ++ matToks r.M)
          else none
      | none => none
  | "mpn_hgcd_reduce", [.num t0, .num t1, .num t2, .num t3, .num p, .vec a, .vec b] =>
      let n := a.length
      match thrOf t0 t1 t2 t3 with
      | some thr =>
          if b.length = n ∧ n ≥ 2 ∧ 1 ≤ p ∧ p.toNat < n ∧ topNonzero a b then
            let r := hgcdReduce thr nextSize (matInit (n - p.toNat)) (val a) (val b) n p.toNat
            some (abToks r.ret n r.a r.b ++ matToks r.M)
          else none
      | none => none
  | "mpn_hgcd_appr", [.num t0, .num t1, .num t2, .num t3, .vec a, .vec b] =>
      let n := a.length
      match thrOf t0 t1 t2 t3 with
      | some thr =>
          if b.length = n ∧ n ≥ 1 ∧ topNonzero a b then
            let r := hgcdAppr thr nextSize n (val a) (val b) (matInit n)
            some (natTok r.ret :: matToks r.M)
          else none
      | none => none
  | "mpn_gcdext_lehmer_n", [.vec a, .vec b] =>
      let n := a.length
      if b.length = n ∧ n ≥ 1 ∧ topNonzero a b ∧ val a ≠ 0 ∧ val b ≠ 0 then
        let r := gcdext_lehmer_n (val a) (val b) n
        some [.vec (natLimbs r.1), .num r.2]
      else none
  | _, _ => none

private def bad (s : String) : Option (Option String) := some (some s)
private def ok : Option (Option String) := some none

/-- the contract of mpn_hgcd (comment at hgcd.c:68 and the size analysis): on success det M = 1,
    (a; b) = M·(a'; b') exactly, a', b' have more than s = n/2 + 1 limbs, |a' - b'| fits in s limbs,
    the entries of M fit in M->n ≤ (n+1)/2 - 1 ... limbs (M->n < alloc = (n+1)/2 + 1). -/
def hgcdContract (n a b ret a' b' mn e00 e01 e10 e11 : Nat) : Option String :=
  let s := n / 2 + 1
  if ret = 0 then none
  else if ¬ (e00 * e11 = e01 * e10 + 1) then some "det"
  else if ¬ (a = e00 * a' + e01 * b' ∧ b = e10 * a' + e11 * b') then some "reconstruct"
  else if ¬ (B ^ s ≤ a' ∧ B ^ s ≤ b') then some "too-small"
  else if ¬ (a' < B ^ ret ∧ b' < B ^ ret ∧ (B ^ (ret - 1) ≤ a' ∨ B ^ (ret - 1) ≤ b')) then some "size"
  else if ¬ ((if a' ≥ b' then a' - b' else b' - a') < B ^ s) then some "not-reduced"
  else if ¬ (mn < (n + 1) / 2 + 1 ∧ e00 < B ^ mn ∧ e01 < B ^ mn ∧ e10 < B ^ mn ∧ e11 < B ^ mn) then some "matrix-size"
  else if e01 = 0 ∧ e10 = 0 then some "identity"
  else none

def pred : PredHandler
  | "mpn_hgcd_p", [.num t0, .num t1, .num t2, .num t3, .vec a, .vec b], out =>
      let n := a.length
      if (thrOf t0 t1 t2 t3).isSome ∧ b.length = n ∧ n ≥ 1 ∧ topNonzero a b then
        match out with
        | [.num ret, .vec a', .vec b', .num mn, .vec e00, .vec e01, .vec e10, .vec e11] =>
            if ret < 0 then bad "ret" else
            match hgcdContract n (val a) (val b) ret.toNat (val a') (val b') mn.toNat (val e00) (val e01) (val e10) (val e11) with
            | none => ok
            | some why => bad why
        | _ => bad "shape"
      else none
  | "mpn_gcdext_lehmer_n_p", [.vec a, .vec b], out =>
      let n := a.length
      if b.length = n ∧ n ≥ 1 ∧ topNonzero a b ∧ val a ≠ 0 ∧ val b ≠ 0 then
        match out with
        | [.vec g, .num s] =>
            let A := val a; let Bv := val b; let G := val g
            if G ≠ Nat.gcd A Bv then bad "gcd"
            else if ((G : Int) - A * s) % Bv ≠ 0 then bad "identity"
            else if A = Bv then (if s = 1 ∨ s = 0 then ok else bad "equal-operands")
            else if ¬ (s = 1 ∨ 2 * G * s.natAbs < Bv ∨ 2 * G * s.natAbs ≤ Bv) then bad "bound"
            else ok
        | _ => bad "shape"
      else none
  | _, _, _ => none

end Mpir.Ops.Hgcd
