/- Driver handlers for mpn_binvert (model Mpir/Model/Binvert.lean).
   `handle`: `bi_binvert thr dcthr [u]` — exact comparison of all n limbs (the thresholds of the tree under test come with
   the line; the C side refuses the line unless they are its compile-time constants), `bi_itch n`.
   `pred`: `bi_binvert_p [u]` — the predicate R·U mod B^n = 1 on the implementation's output. -/
import Mpir.Proto
import Mpir.Model.Binvert
import Mpir.Model.BinvertBdiv
import Mpir.Ops.Hgcd
import Mpir.Gen.Params
namespace Mpir.Ops.Binvert
open Mpir Mpir.Binvert Mpir.Powm

private def mthr : Nat := Mpir.Gen.params.MULMOD_2EXPM1_THRESHOLD.toNat
private def nextSize : Nat → Nat := Mpir.Ops.Hgcd.nextSize

def handle : Handler
  | "bi_binvert", [.num thr, .num dcthr, .vec u] =>
      let n := u.length
      -- binvert.c: n >= 1, up[0] odd (modlimb_invert's ASSERT)
      if n ≥ 1 && u.headD 0 % 2 == 1 && thr ≥ 0 && dcthr ≥ 0 then
        let r := mpnBinvert thr.toNat dcthr.toNat mthr Fft.mulmod_2expp1_basecase nextSize (fun _ => 0) u
          (zeros n) (zeros (binvItch nextSize n))
        some (if r.2 then [.vec r.1] else [.vec r.1, .err "oob"])
      else none
  | "bi_dc_bdiv_q", [.vec n, .vec d] =>
      -- dc_bdiv_q.c: ASSERT (dn >= 6), nn >= dn, dp[0] odd; the quotient modulo B^nn is unique
      if d.length ≥ 6 && n.length ≥ d.length && d.headD 0 % 2 == 1 then
        some [.vec (toLimbs n.length (bdivQVal (val n) (val d) n.length))]
      else none
  | "bi_dc_bdiv_qr_n", [.num thr, .vec n, .vec d] =>
      let k := d.length
      if k ≥ 2 && n.length = 2 * k && d.headD 0 % 2 == 1 && thr ≥ 0 then
        let r := dcBdivQrN thr.toNat sbBdivQrVal k (val n) (val d) k
        some [.vec (toLimbs k r.1), .vec (toLimbs k r.2.1), natTok r.2.2]
      else none
  | "bi_itch", [.num n] =>
      if n ≥ 1 then some [natTok (binvItch nextSize n.toNat)] else none
  | _, _ => none

def pred : PredHandler
  | "bi_binvert_p", [.vec u], out =>
      if u.length ≥ 1 && u.headD 0 % 2 == 1 then
        match out with
        | [.vec r] =>
            if r.length != u.length then some (some "length")
            else if (val r * val u) % B ^ u.length != 1 then some (some "not-inverse")
            else some none
        | _ => some (some "shape")
      else none
  | _, _, _ => none

end Mpir.Ops.Binvert
