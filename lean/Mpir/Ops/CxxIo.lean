/- Driver handlers for the C++ stream I/O ops (property C20, part c20_cxxio).  The implementation side is the C++
   program tools/cxxio_driver.cc (compiled against mpirxx.h and cxx/*.cc of the tree under test), which reads the
   same op lines.

     cxx_io_in_z  flags state text init          -> value-or-init  state  pos  next
     cxx_io_in_q  flags state text initn initd   -> num  den  state  pos  next
     cxx_io_in_f  flags state precbits text      -> state  pos  next  size exp limbs     (destination preset to 5)
     cxx_io_out_z flags state width fill prec v                  -> text  width-after  state
     cxx_io_out_q flags state width fill prec n d                -> text  width-after  state
     cxx_io_out_f flags state width fill prec bits exp size limbs-> text  width-after  state   (decimal streams only)

   flags: 1 dec, 2 oct, 4 hex, 8 showbase, 10 showpos, 20 uppercase, 40 left, 80 right, 100 internal, 200 fixed,
          400 scientific, 800 showpoint, 1000 skipws (hex);  state: 1 eofbit, 2 failbit, 4 badbit;
   pos = characters consumed (streambuf position), next = the next character of the stream or -1. -/
import Mpir.Proto
import Mpir.Model.CxxIo
import Mpir.Ops.Mpf
namespace Mpir.Ops.CxxIo
open Mpir Mpir.CxxIo

def toChars (bs : List UInt8) : List Char := bs.map (fun b => Char.ofNat b.toNat)
def strT (cs : List Char) : Tok := .str (cs.map (fun c => UInt8.ofNat c.toNat))

def fmtOf (n : Nat) : Fmt :=
  { dec := n.testBit 0, oct := n.testBit 1, hex := n.testBit 2, showbase := n.testBit 3, showpos := n.testBit 4,
    uppercase := n.testBit 5, left := n.testBit 6, right := n.testBit 7, internal := n.testBit 8, fixed := n.testBit 9,
    scientific := n.testBit 10, showpoint := n.testBit 11, skipws := n.testBit 12 }

def stateNum (eof fail bad : Bool) : Tok :=
  natTok ((if eof then 1 else 0) + (if fail then 2 else 0) + (if bad then 4 else 0))

def istream (flags state : Int) (text : List UInt8) : IStream :=
  { rest := toChars text, eof := state.toNat.testBit 0, fail := state.toNat.testBit 1, bad := state.toNat.testBit 2,
    fmt := fmtOf flags.toNat }

def ostream (flags state width fill prec : Int) : OStream :=
  { eof := state.toNat.testBit 0, fail := state.toNat.testBit 1, bad := state.toNat.testBit 2,
    fmt := fmtOf flags.toNat, width := width, fill := Char.ofNat fill.toNat, precision := prec }

def iTail (i : IStream) : List Tok :=
  [stateNum i.eof i.fail i.bad, natTok i.pos, match i.rest with | [] => .num (-1) | c :: _ => natTok c.toNat]

def oToks (o : OStream) : List Tok := [strT o.out, .num o.width, stateNum o.eof o.fail o.bad]

def valTok (init : Int) : Val → Tok
  | .unchanged => .num init
  | .value v => .num v
  | .invalid => .err "assert"

def okArgs (flags state : Int) : Bool := 0 ≤ flags && flags < 8192 && 0 ≤ state && state < 8

def handle : Handler
  | "cxx_io_in_z", [.num flags, .num state, .str text, .num init] =>
      if ¬ okArgs flags state then none else
      let (i, v) := extractZ (istream flags state text)
      some (valTok init v :: iTail i)
  | "cxx_io_in_q", [.num flags, .num state, .str text, .num n0, .num d0] =>
      if ¬ okArgs flags state then none else
      let (i, n, d) := extractQ (istream flags state text)
      some (valTok n0 n :: valTok d0 d :: iTail i)
  | "cxx_io_in_f", [.num flags, .num state, .num bits, .str text] =>
      if ¬ okArgs flags state ∨ bits < 0 then none else
      let f0 : Mpf.F := ⟨Mpf.BITS_TO_PREC bits.toNat, 1, 1, [5]⟩
      let (i, f, inv) := extractF (istream flags state text) f0
      some (iTail i ++ (if inv then [.err "assert"] else Mpir.Ops.Mpf.render (f.getD f0)))
  | "cxx_io_out_z", [.num flags, .num state, .num width, .num fill, .num prec, .num v] =>
      if ¬ okArgs flags state ∨ fill < 0 ∨ fill > 255 then none else
      some (oToks (insertZ (ostream flags state width fill prec) v))
  | "cxx_io_out_q", [.num flags, .num state, .num width, .num fill, .num prec, .num n, .num d] =>
      if ¬ okArgs flags state ∨ fill < 0 ∨ fill > 255 then none else
      some (oToks (insertQ (ostream flags state width fill prec) n d))
  | "cxx_io_out_f", [.num flags, .num state, .num width, .num fill, .num prec, .num bits, .num e, .num sz, .vec l] =>
      if ¬ okArgs flags state ∨ fill < 0 ∨ fill > 255 ∨ bits < 0 then none else
      match insertF (ostream flags state width fill prec) (Mpf.BITS_TO_PREC bits.toNat) (decide (sz < 0)) l
              (if l.isEmpty then 0 else e) with
      | some o => some (oToks o)
      | none => some [.err "unmodelled"]
  | _, _ => none

end Mpir.Ops.CxxIo
