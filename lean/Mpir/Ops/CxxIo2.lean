/- Driver handlers for the C++ stream I/O ops, second part (property C20, part c20_cxxio2).  The implementation side is
   tools/cxxio_driver.cc (see lean/Mpir/Ops/CxxIo.lean for the conventions: flags, state, tokens).

     cxx_io_out_fg flags state width fill prec bits exp size limbs -> text  width-after  state
         operator<< (ostream &, mpf) for EVERY basefield setting (hex / octal streams included), on the bit-exact model of
         mpf_get_str (mantissas of any length)

     cxx_io_rt_z foflags fiflags width fill v init      -> text  value-or-init  state  pos  next
     cxx_io_rt_q foflags fiflags width fill n d in id   -> text  num  den  state  pos  next
         `out << x` on a fresh ostringstream with flags `foflags`, then `in >> y` on an istringstream over the text written,
         with flags `fiflags` (the round trips of theorems roundtripZ / roundtripQ, and their exceptions)

   The C++ driver runs every op under a recording allocator (mp_set_memory_functions: ledger of block sizes) and appends
   `!alloc:free:<given>:<block>` / `!alloc:realloc:<given>:<block>` / `!leak` to the answer when the library passes a
   wrong size or keeps a block; the model never prints such a marker, so one is a disagreement. -/
import Mpir.Proto
import Mpir.Model.CxxIo2
import Mpir.Ops.CxxIo
namespace Mpir.Ops.CxxIo2
open Mpir Mpir.CxxIo Mpir.Ops.CxxIo

def handle : Handler
  | "cxx_io_out_fg", [.num flags, .num state, .num width, .num fill, .num prec, .num bits, .num e, .num sz, .vec l] =>
      if ¬ okArgs flags state ∨ fill < 0 ∨ fill > 255 ∨ bits < 0 ∨ sz.natAbs ≠ l.length ∨
          l.length > Mpf.BITS_TO_PREC bits.toNat + 1 ∨ l.getLast? = some 0 then none else
      let f : Mpf.F := ⟨Mpf.BITS_TO_PREC bits.toNat, sz, if l.isEmpty then 0 else e, l⟩
      some (oToks (insertFG (ostream flags state width fill prec) f))
  | "cxx_io_rt_z", [.num fo, .num fi, .num width, .num fill, .num v, .num init] =>
      if ¬ okArgs fo 0 ∨ ¬ okArgs fi 0 ∨ fill < 0 ∨ fill > 255 then none else
      let o := insertZ (ostream fo 0 width fill 6) v
      let (i, y) := extractZ { rest := o.out, fmt := fmtOf fi.toNat }
      some (strT o.out :: valTok init y :: iTail i)
  | "cxx_io_rt_q", [.num fo, .num fi, .num width, .num fill, .num n, .num d, .num n0, .num d0] =>
      if ¬ okArgs fo 0 ∨ ¬ okArgs fi 0 ∨ fill < 0 ∨ fill > 255 then none else
      let o := insertQ (ostream fo 0 width fill 6) n d
      let (i, a, b) := extractQ { rest := o.out, fmt := fmtOf fi.toNat }
      some (strT o.out :: valTok n0 a :: valTok d0 b :: iTail i)
  | _, _ => none

end Mpir.Ops.CxxIo2
