/- Driver handlers for the C04 part allocsafe6: the size-aware models of Mpir/Model/AllocSafeMpq6.lean (mpq_add, mpq_sub, mpq_mul,
   mpq_div, mpq_mul_2exp, mpq_div_2exp) on mpq variables whose two fields are objects of given allocations (token pairs
   `alloc value`).  Three-operand ops: `as6_<f> mode  rn rd  an ad  bn bd` (six token pairs), alias mode
     0 rop, op1, op2 distinct   1 rop is op1   2 rop is op2   3 op1 is op2 (rop distinct)   4 all one variable;
   two-operand ops: `as6_<f>_2exp mode  dn dd  sn sd  n`, mode 0 distinct, 1 dst is src.
   Answer: ALLOC, SIZ, value of NUM (rop), then of DEN (rop); `!oob` if the model's run clears `ok`, `!malformed` if a field is
   not well formed, `!div0` for mpq_div by zero. -/
import Mpir.Proto
import Mpir.Model.AllocSafeMpq6
namespace Mpir.Ops.AllocSafe6
open Mpir Mpir.AllocSafe Mpir.AllocSafe6

private def mk? (al v : Int) : Option Obj :=
  if 1 ≤ al && al ≤ 2 ^ 20 && (natLimbs v.natAbs).length ≤ al.toNat then some (mkObj al.toNat v) else none

private def outW (s : St) (w : Nat) : List Tok :=
  let m := view (s.h w)
  [.num m.alloc, .num m.size, if Mpz.WF m then .num (Mpz.toInt m) else .err "malformed"]

private def outQ (s : St) (n d : Nat) : List Tok :=
  if !s.ok then [.err "oob"] else outW s n ++ outW s d

/-- variables 0..5 = the six fields; scratch ids from 6 -/
private def heap6 (o : List Obj) : St := ⟨fun i => o.getD i ⟨0, 0, Buf.new 1⟩, true⟩

/-- (rop, op1, op2) field ids of an alias mode -/
private def ids3 : Int → Option ((Nat × Nat) × (Nat × Nat) × (Nat × Nat))
  | 0 => some ((0, 1), (2, 3), (4, 5))
  | 1 => some ((2, 3), (2, 3), (4, 5))
  | 2 => some ((4, 5), (2, 3), (4, 5))
  | 3 => some ((0, 1), (2, 3), (2, 3))
  | 4 => some ((2, 3), (2, 3), (2, 3))
  | _ => none

def handle : Handler
  | name, [.num m, .num a0, .num v0, .num a1, .num v1, .num a2, .num v2, .num a3, .num v3, .num a4, .num v4, .num a5, .num v5] => do
      if v1 ≤ 0 || v3 ≤ 0 || v5 ≤ 0 then none else
      let o0 ← mk? a0 v0; let o1 ← mk? a1 v1; let o2 ← mk? a2 v2; let o3 ← mk? a3 v3; let o4 ← mk? a4 v4; let o5 ← mk? a5 v5
      let s := heap6 [o0, o1, o2, o3, o4, o5]
      let ((rn, rd), (an, ad), (bn, bd)) ← ids3 m
      match name with
      | "as6_add" => some (outQ (mpq_add s rn rd an ad bn bd 6 7 8 9) rn rd)
      | "as6_sub" => some (outQ (mpq_sub s rn rd an ad bn bd 6 7 8 9) rn rd)
      | "as6_mul" => some (outQ (mpq_mul s rn rd an ad bn bd 6 7 8 9) rn rd)
      | "as6_div" =>
          match mpq_div s rn rd an ad bn bd 6 7 8 9 10 with
          | none => some [.err "div0"]
          | some s' => some (outQ s' rn rd)
      | _ => none
  | name, [.num m, .num a0, .num v0, .num a1, .num v1, .num a2, .num v2, .num a3, .num v3, .num n] => do
      if v1 ≤ 0 || v3 ≤ 0 || n < 0 || n ≥ 2 ^ 24 then none else
      let o0 ← mk? a0 v0; let o1 ← mk? a1 v1; let o2 ← mk? a2 v2; let o3 ← mk? a3 v3
      let s := heap6 [o0, o1, o2, o3]
      let (dn, dd) ← (match m with | 0 => some (0, 1) | 1 => some (2, 3) | _ => none : Option (Nat × Nat))
      match name with
      | "as6_mul_2exp" => some (outQ (mpq_mul_2exp s dn dd 2 3 n.toNat) dn dd)
      | "as6_div_2exp" => some (outQ (mpq_div_2exp s dn dd 2 3 n.toNat) dn dd)
      | _ => none
  | _, _ => none

end Mpir.Ops.AllocSafe6
