/- Driver handlers for property C10 (bitwise functions).  Every answer is the C-mirroring MODEL of
   Mpir/Model/Bits.lean; the four-case Int specification is evaluated beside it and a difference is printed as
   `!modelspec` (which then disagrees with the implementation's line). -/
import Mpir.Proto
import Mpir.Model.Bits
namespace Mpir.Ops.Bits
open Mpir Mpir.Bits

private def eqLen (u v : List Nat) : Bool := u.length == v.length && u.length ≥ 1

private def zOut (model : Z) (spec : Int) : List Tok :=
  let wf := decide model.WF
  (if wf then [Tok.num model.toInt] else [Tok.err "malformed"]) ++
  (if model.toInt == spec then [] else [Tok.err "modelspec"])

private def nOut (model spec : Nat) : List Tok :=
  [natTok model] ++ (if model == spec then [] else [Tok.err "modelspec"])

private def optOut : Option Nat → List Tok
  | some r => [natTok r]
  | none => [Tok.err "precond"]

private def pow2 (i : Nat) : Int := Int.ofNat (2 ^ i)

/-- spec of a single-bit update; not evaluated for astronomically large indices (2^i is not computable there;
    the generator uses such indices only where the C, and the model, leave the operand unchanged) -/
private def bitOut (model : Z) (f : Int → Int) (i : Nat) : List Tok :=
  if i ≤ 1000000 then zOut model (f (pow2 i)) else zOut model model.toInt

/-- bit length bound of an Int: beyond it the two's-complement expansion is constant -/
private def bound (x : Int) : Nat := 64 * (natLimbs x.natAbs).length

/-- `op [u] [v]` or `op [u] [v] mode`; mode 3 = both sources are u's buffer -/
private def logic (f : List Nat → List Nat → List Nat) : List Tok → Option (List Tok)
  | [.vec u, .vec v] => if eqLen u v then some [.vec (f u v)] else none
  | [.vec u, .vec v, .num m] =>
      if eqLen u v ∧ 0 ≤ m ∧ m ≤ 3 then some [.vec (if m == 3 then f u u else f u v)] else none
  | _ => none

/-- `mpz_op mode a b`; modes 3 and 4 use a for both operands -/
private def z3 (f : Z → Z → Z) (spec : Int → Int → Int) : List Tok → Option (List Tok)
  | [.num m, .num a, .num b] =>
      if 0 ≤ m ∧ m ≤ 4 then
        let b := if m ≥ 3 then a else b
        some (zOut (f (.ofInt a) (.ofInt b)) (spec a b))
      else none
  | _ => none

def handle : Handler
  | "mpn_and_n",  args => logic and_n args
  | "mpn_andn_n", args => logic andn_n args
  | "mpn_nand_n", args => logic nand_n args
  | "mpn_ior_n",  args => logic ior_n args
  | "mpn_iorn_n", args => logic iorn_n args
  | "mpn_nior_n", args => logic nior_n args
  | "mpn_xor_n",  args => logic xor_n args
  | "mpn_xnor_n", args => logic xnor_n args
  | "mpn_com_n",  [.vec u] => if u.length ≥ 1 then some [.vec (com_n u)] else none
  | "mpn_com_n",  [.vec u, .num _] => if u.length ≥ 1 then some [.vec (com_n u)] else none
  | "mpn_popcount", [.vec u] =>
      if u.length ≥ 1 then some (nOut (mpn_popcount u) (popcount (val u))) else none
  | "mpn_hamdist", [.vec u, .vec v] =>
      if eqLen u v then some (nOut (mpn_hamdist u v) (popcount (val u ^^^ val v))) else none
  | "mpn_scan0", [.vec u, .num s] => some (optOut (mpn_scan0 u s.toNat))
  | "mpn_scan1", [.vec u, .num s] => some (optOut (mpn_scan1 u s.toNat))
  | "mpz_and", args => z3 mpz_and land args
  | "mpz_ior", args => z3 mpz_ior lor args
  | "mpz_xor", args => z3 mpz_xor lxor args
  | "mpz_com", [.num _, .num a] => some (zOut (mpz_com (.ofInt a)) (lnot a))
  | "mpz_setbit", [.num a, .num i] => some (bitOut (mpz_setbit (.ofInt a) i.toNat) (fun p => lor a p) i.toNat)
  | "mpz_clrbit", [.num a, .num i] => some (bitOut (mpz_clrbit (.ofInt a) i.toNat) (fun p => land a (lnot p)) i.toNat)
  | "mpz_combit", [.num a, .num i] => some (bitOut (mpz_combit (.ofInt a) i.toNat) (fun p => lxor a p) i.toNat)
  | "mpz_tstbit", [.num a, .num i] =>
      some (nOut (mpz_tstbit (.ofInt a) i.toNat) (if testBit a i.toNat then 1 else 0))
  | "mpz_scan0", [.num a, .num s] => some (nOut (mpz_scan0 (.ofInt a) s.toNat) (specScan a false s.toNat (bound a)))
  | "mpz_scan1", [.num a, .num s] => some (nOut (mpz_scan1 (.ofInt a) s.toNat) (specScan a true s.toNat (bound a)))
  | "mpz_popcount", [.num a] => some (nOut (mpz_popcount (.ofInt a)) (specPopcount a))
  | "mpz_hamdist", [.num a, .num b] => some (nOut (mpz_hamdist (.ofInt a) (.ofInt b)) (specHamdist a b))
  | _, _ => none

end Mpir.Ops.Bits
