/- Driver handlers for the mpf layer (property C13).
   `handle` answers the plain ops with the bit-exact model (Mpir/Model/Mpf.lean).
   `pred` answers the `name?` ops by evaluating the PROPERTY'S OWN predicate on the implementation's
   output: format rules, |result - exact| < 2^(2-p)·|exact| (p = 64·prec - 64) computed exactly with
   integer cross-multiplication, and result = exact when operands and exact value fit in p bits. -/
import Mpir.Proto
import Mpir.Model.Mpf
namespace Mpir.Ops.Mpf
open Mpir Mpir.Mpf

/-- operand token group `prec size exp [limbs]` -/
def opnd? : List Tok → Option (F × List Tok)
  | .num p :: .num s :: .num e :: .vec d :: rest =>
      if p ≥ 0 ∧ s.natAbs = d.length then some (⟨p.toNat, s, e, d⟩, rest) else none
  | _ => none

def render (f : F) : List Tok :=
  if WF f then [.num f.size, .num f.exp, .vec f.d] else [.err "malformed"]

def renderRes : Res → List Tok
  | .ok f => render f
  | .div0 => [.err "div0"]
  | .sqrtneg => [.err "sqrtneg"]
  | .invalid => [.err "fpe"]          -- __gmp_invalid_operation raises SIGFPE without a gmp_errno code

/-- the bit-exact model of one op; `none` = not an mpf op / bad arguments -/
def model (op : String) (toks : List Tok) : Option (List Tok) :=
  match op, toks with
  | "mpf_sqrt_ui", [.num rp, .num w] => if rp < 2 then none else some (render (sqrt_ui rp.toNat w.toNat))
  | "mpf_set_ui", [.num rp, .num w] => if rp < 2 then none else some (render (set_ui rp.toNat w.toNat))
  | "mpf_set_si", [.num rp, .num w] => if rp < 2 then none else some (render (set_si rp.toNat w))
  | "mpf_set_z", [.num rp, .num z] => if rp < 2 then none else some (render (set_z rp.toNat z))
  | "mpf_set_q", [.num rp, .num n, .num d] => if rp < 2 ∨ d ≤ 0 then none else some (render (set_q rp.toNat n d.toNat))
  | "mpf_set_d13", [.num rp, .num b] => if rp < 2 then none else some (renderRes (set_d rp.toNat b.toNat))
  | "mpf_prec_rt", [.num b] => some [natTok (BITS_TO_PREC b.toNat), natTok (PREC_TO_BITS (BITS_TO_PREC b.toNat))]
  | "mpf_integer_p13", ts =>
      match opnd? ts with
      | some (u, []) => some [boolTok (integer_p u)]
      | _ => none
  | "mpf_cmp13", ts =>
      match opnd? ts with
      | some (u, r1) => match opnd? r1 with
        | some (v, []) => some [.num (cmp u v)]
        | _ => none
      | none => none
  | "mpf_eq", ts =>
      match opnd? ts with
      | some (u, r1) => match opnd? r1 with
        | some (v, [.num nb]) => some [boolTok (eq u v nb.toNat)]
        | _ => none
      | none => none
  | "mpf_set_prec", ts =>
      match opnd? ts with
      | some (u, [.num b]) => let x := set_prec u b.toNat; some (natTok (get_prec x) :: render x)
      | _ => none
  | "mpf_set_prec_raw", ts =>
      match opnd? ts with
      | some (u, [.num b, .num k]) =>
          let x := set_prec_raw u b.toNat
          let p := x.prec
          let out : List Tok :=
            if k = 1 then render (mul p x x)
            else if k = 2 then render (add p true true x x)
            else if k = 3 then renderRes (sqrt p x)
            else if k = 4 then render (mul_ui p x 3)
            else if k = 5 then renderRes (div_ui p x 3)
            else render u
          some (natTok (get_prec x) :: out)
      | _ => none
  | _, .num rp :: .num mode :: rest =>
    if rp < 2 then none else
    let prec := rp.toNat
    match opnd? rest with
    | none => none
    | some (u, rest1) =>
      match opnd? rest1 with
      | some (v0, []) =>
        -- binary: mode 0 distinct, 1 r==u, 2 r==v, 3 u==v, 4 r==u==v
        if mode < 0 ∨ mode > 4 then none else
        let v := if mode ≥ 3 then u else v0
        let rIsU := mode == 1 || mode == 4
        let rIsV := mode == 2 || mode == 4
        match op with
        | "mpf_add" => some (render (add prec rIsU rIsV u v))
        | "mpf_sub" => some (render (sub prec rIsU rIsV u v))
        | "mpf_mul" => some (render (mul prec u v))
        | "mpf_div" => some (renderRes (div prec u v))
        | _ => none
      | some _ => none
      | none =>
        if mode < 0 ∨ mode > 1 then none else
        let rIsU := mode == 1
        match op, rest1 with
        | "mpf_sqrt", [] => some (renderRes (sqrt prec u))
        | "mpf_neg", [] => some (render (neg prec rIsU u))
        | "mpf_abs", [] => some (render (Mpf.abs prec rIsU u))
        | "mpf_floor", [] => some (render (floor prec u))
        | "mpf_ceil", [] => some (render (ceil prec u))
        | "mpf_trunc", [] => some (render (trunc prec u))
        | "mpf_set", [] => some (render (set prec u))
        | "mpf_add_ui", [.num w] => some (render (add_ui prec rIsU u w.toNat))
        | "mpf_sub_ui", [.num w] => some (render (sub_ui prec rIsU u w.toNat))
        | "mpf_ui_sub", [.num w] => some (render (ui_sub prec rIsU w.toNat u))
        | "mpf_mul_ui", [.num w] => some (render (mul_ui prec u w.toNat))
        | "mpf_div_ui", [.num w] => some (renderRes (div_ui prec u w.toNat))
        | "mpf_ui_div", [.num w] => some (renderRes (ui_div prec w.toNat u))
        | "mpf_mul_2exp", [.num w] => some (render (mul_2exp prec u w.toNat))
        | "mpf_div_2exp", [.num w] => some (render (div_2exp prec u w.toNat))
        | _, _ => none
  | _, _ => none

def handle : Handler := fun op toks =>
  if op.endsWith "?" then none else model op toks

/- ------------------------------------------------------------------------------------------------
   The property's predicate, evaluated exactly.  `Dy` = n/d · 2^e. -/

structure Dy where
  n : Int
  d : Nat
  e : Int
  deriving Repr

namespace Dy
def ofF (f : F) : Dy := ⟨(if f.size < 0 then -1 else 1) * (val f.d : Int), 1, 64 * (f.exp - (f.d.length : Int))⟩
def ofInt (z : Int) : Dy := ⟨z, 1, 0⟩
def neg (x : Dy) : Dy := {x with n := -x.n}
def abs (x : Dy) : Dy := {x with n := x.n.natAbs}
def mul (x y : Dy) : Dy := ⟨x.n * y.n, x.d * y.d, x.e + y.e⟩
def shift (x : Dy) (k : Int) : Dy := {x with e := x.e + k}
/-- approximate position of the top bit (exact up to ±1) -/
def tb (x : Dy) : Int := (x.n.natAbs.log2 : Int) - (x.d.log2 : Int) + x.e
/-- exponent gap above which an exact sum is not formed (2^(gap) would not fit in memory) -/
def far : Nat := 2 ^ 27
def add (x y : Dy) : Option Dy :=
  if x.n = 0 then some y else if y.n = 0 then some x else
  let m := min x.e y.e
  if (x.e - y.e).natAbs > far then none else
  some ⟨x.n * y.d * 2 ^ (x.e - m).toNat + y.n * x.d * 2 ^ (y.e - m).toNat, x.d * y.d, m⟩
def div (x y : Dy) : Dy :=
  ⟨(if y.n < 0 then -1 else 1) * x.n * y.d, x.d * y.n.natAbs, x.e - y.e⟩
end Dy

/-- compare a·2^ea with b·2^eb (a, b naturals): -1, 0, 1 -/
def cmpMag (a : Nat) (ea : Int) (b : Nat) (eb : Int) : Int :=
  if a = 0 then (if b = 0 then 0 else -1) else if b = 0 then 1 else
  let ta : Int := (a.log2 : Int) + ea
  let tb : Int := (b.log2 : Int) + eb
  if ta > tb then 1 else if ta < tb then -1 else
  let m := min ea eb
  let x := a * 2 ^ (ea - m).toNat
  let y := b * 2 ^ (eb - m).toNat
  if x > y then 1 else if x < y then -1 else 0

/-- sign of x - y for rationals n/d·2^e -/
def cmpDy (x y : Dy) : Int :=
  let sx : Int := if x.n < 0 then -1 else if x.n = 0 then 0 else 1
  let sy : Int := if y.n < 0 then -1 else if y.n = 0 then 0 else 1
  if sx ≠ sy then (if sx > sy then 1 else -1)
  else if sx = 0 then 0
  else sx * cmpMag (x.n.natAbs * y.d) x.e (y.n.natAbs * x.d) y.e

/-- |R - E| · 2^p < 4 · |E|   (E ≠ 0) -/
def closeTo (R E : Dy) (p : Nat) : Bool :=
  if (R.n < 0) != (E.n < 0) ∨ R.n = 0 then false
  else if (R.tb - E.tb).natAbs > 4 then false
  else
    let m := min R.e E.e
    let a : Int := R.n * E.d * 2 ^ (R.e - m).toNat
    let b : Int := E.n * R.d * 2 ^ (E.e - m).toNat
    (a - b).natAbs * 2 ^ p < 4 * b.natAbs

def tz (n : Nat) : Nat := if n = 0 then 0 else (n - (n &&& (n - 1))).log2
def bitlen (n : Nat) : Nat := if n = 0 then 0 else n.log2 + 1

/-- the rational is a dyadic whose odd part has at most p bits -/
def fits (x : Dy) (p : Nat) : Bool :=
  if x.n = 0 then true else
  let g := Nat.gcd x.n.natAbs x.d
  let n := x.n.natAbs / g
  let d := x.d / g
  (d &&& (d - 1)) == 0 && bitlen n - tz n ≤ p

inductive Spec where
  /-- result must be an mpf of precision `prec` near E; `exactIf` = an additional sufficient condition
      for exactness (beyond "operands and E fit in p bits", which is `opsFit`) -/
  | val (prec : Nat) (E : Dy) (opsFit : Bool) (exactIf : Bool)
  | sqrtOf (prec : Nat) (U : Dy)
  | exc (name : String)
  | int (v : Int)
  | unknown (why : String)

def pbits (prec : Nat) : Nat := 64 * prec - 64

def floorLike (u : F) (dir : Int) : Dy :=
  -- exact floor (dir=-1), ceil (1), trunc (0) of the stored value
  if u.size = 0 then Dy.ofInt 0 else
  let neg := u.size < 0
  let sgn : Int := if neg then -1 else 1
  if u.exp ≤ 0 then
    Dy.ofInt (if dir = -1 ∧ neg then -1 else if dir = 1 ∧ ¬neg then 1 else 0)
  else
    let k := u.d.length - u.exp.toNat
    if u.exp.toNat ≥ u.d.length then Dy.ofF u else
    let ip := val u.d / B ^ k
    let fr := val u.d % B ^ k ≠ 0
    let up := (dir = -1 ∧ neg ∧ fr) ∨ (dir = 1 ∧ ¬neg ∧ fr)
    Dy.ofInt (sgn * ((ip + (if up then 1 else 0) : Nat) : Int))

def dblValue (bits : Nat) : Dy :=
  let sign : Int := if bits / 2 ^ 63 % 2 = 1 then -1 else 1
  let bexp : Nat := bits / 2 ^ 52 % 2 ^ 11
  let man : Nat := bits % 2 ^ 52
  if bexp = 0 then ⟨sign * (man : Int), 1, -1074⟩ else ⟨sign * ((2 ^ 52 + man : Nat) : Int), 1, (bexp : Int) - 1075⟩

/-- what the property demands of op `op` on these arguments -/
def spec (op : String) (toks : List Tok) : Option Spec :=
  match op, toks with
  | "mpf_sqrt_ui", [.num rp, .num w] => if rp < 2 then none else some (.sqrtOf rp.toNat (Dy.ofInt w))
  | "mpf_set_ui", [.num rp, .num w] => if rp < 2 then none else some (.val rp.toNat (Dy.ofInt w) true true)
  | "mpf_set_si", [.num rp, .num w] => if rp < 2 then none else some (.val rp.toNat (Dy.ofInt w) true true)
  | "mpf_set_z", [.num rp, .num z] =>
      if rp < 2 then none else some (.val rp.toNat (Dy.ofInt z) (fits (Dy.ofInt z) (pbits rp.toNat)) false)
  | "mpf_set_q", [.num rp, .num n, .num d] =>
      if rp < 2 ∨ d ≤ 0 then none else
      let p := pbits rp.toNat
      some (.val rp.toNat ⟨n, d.toNat, 0⟩ (fits (Dy.ofInt n) p && fits (Dy.ofInt d) p) false)
  | "mpf_set_d13", [.num rp, .num b] =>
      if rp < 2 then none else
      some (if b.toNat / 2 ^ 52 % 2 ^ 11 = 0x7FF then .exc "fpe" else .val rp.toNat (dblValue b.toNat) true true)
  | "mpf_integer_p13", ts =>
      match opnd? ts with
      | some (u, []) =>
          let U := Dy.ofF u
          -- n·2^e is an integer iff n = 0, e ≥ 0, or 2^(-e) divides n
          some (.int (if U.n = 0 ∨ U.e ≥ 0 ∨ (-U.e).toNat ≤ tz U.n.natAbs then 1 else 0))
      | _ => none
  | "mpf_cmp13", ts =>
      match opnd? ts with
      | some (u, r1) => match opnd? r1 with
        | some (v, []) => some (.int (cmpDy (Dy.ofF u) (Dy.ofF v)))
        | _ => none
      | none => none
  | _, .num rp :: .num mode :: rest =>
    if rp < 2 then none else
    let prec := rp.toNat
    let p := pbits prec
    match opnd? rest with
    | none => none
    | some (u, rest1) =>
      let U := Dy.ofF u
      match opnd? rest1 with
      | some (v0, []) =>
        if mode < 0 ∨ mode > 4 then none else
        let v := if mode ≥ 3 then u else v0
        let V := Dy.ofF v
        let opsFit := fits U p && fits V p
        match op with
        | "mpf_add" => some (match Dy.add U V with | some E => .val prec E opsFit false | none => .unknown "huge")
        | "mpf_sub" => some (match Dy.add U V.neg with | some E => .val prec E opsFit false | none => .unknown "huge")
        | "mpf_mul" => some (.val prec (Dy.mul U V) opsFit false)
        | "mpf_div" => some (if V.n = 0 then .exc "div0" else .val prec (Dy.div U V) opsFit false)
        | _ => none
      | some _ => none
      | none =>
        if mode < 0 ∨ mode > 1 then none else
        let ufit := fits U p
        let n := u.d.length
        match op, rest1 with
        | "mpf_sqrt", [] => some (if U.n < 0 then .exc "sqrtneg" else .sqrtOf prec U)
        | "mpf_neg", [] => some (.val prec U.neg ufit (n ≤ prec + 1))
        | "mpf_abs", [] => some (.val prec U.abs ufit (n ≤ prec + 1))
        | "mpf_set", [] => some (.val prec U ufit (n ≤ prec + 1))
        | "mpf_floor", [] => some (.val prec (floorLike u (-1)) ufit (min n u.exp.toNat ≤ prec + 1))
        | "mpf_ceil", [] => some (.val prec (floorLike u 1) ufit (min n u.exp.toNat ≤ prec + 1))
        | "mpf_trunc", [] => some (.val prec (floorLike u 0) ufit (min n u.exp.toNat ≤ prec + 1))
        | "mpf_add_ui", [.num w] => some (match Dy.add U (Dy.ofInt w) with | some E => .val prec E ufit false | none => .unknown "huge")
        | "mpf_sub_ui", [.num w] => some (match Dy.add U (Dy.ofInt (-w)) with | some E => .val prec E ufit false | none => .unknown "huge")
        | "mpf_ui_sub", [.num w] => some (match Dy.add (Dy.ofInt w) U.neg with | some E => .val prec E ufit false | none => .unknown "huge")
        | "mpf_mul_ui", [.num w] => some (.val prec (Dy.mul U (Dy.ofInt w)) ufit false)
        | "mpf_div_ui", [.num w] => some (if w = 0 then .exc "div0" else .val prec (Dy.div U (Dy.ofInt w)) ufit false)
        | "mpf_ui_div", [.num w] => some (if U.n = 0 then .exc "div0" else .val prec (Dy.div (Dy.ofInt w) U) ufit false)
        | "mpf_mul_2exp", [.num w] => some (.val prec (U.shift w) ufit (if w % 64 = 0 then n ≤ prec + 1 else n ≤ prec))
        | "mpf_div_2exp", [.num w] => some (.val prec (U.shift (-w)) ufit (if w % 64 = 0 then n ≤ prec + 1 else n ≤ prec))
        | _, _ => none
  | _, _ => none

def implF? (prec : Nat) : List Tok → Option F
  | [.num s, .num e, .vec d] => some ⟨prec, s, e, d⟩
  | _ => none

def evalSpec (s : Spec) (impl : List Tok) : Option String :=
  match s with
  | .unknown why => some ("cannot-evaluate:" ++ why)
  | .exc name => if impl == [.err name] then none else some ("expected-!" ++ name)
  | .int v => if impl == [.num v] then none else some "wrong-value"
  | .val prec E opsFit exactIf =>
      match implF? prec impl with
      | none => some "format"            -- `!malformed`, an exception, a monitor marker, ...
      | some r =>
        if ¬ WF r then some "format" else
        let R := Dy.ofF r
        let p := pbits prec
        if E.n = 0 then (if R.n = 0 then none else some "nonzero-for-zero")
        else if ¬ closeTo R E p then some "error-bound"
        else if (exactIf ∨ (opsFit ∧ fits E p)) ∧ cmpDy R E ≠ 0 then some "inexact-though-representable"
        else none
  | .sqrtOf prec U =>
      match implF? prec impl with
      | none => some "format"
      | some r =>
        if ¬ WF r then some "format" else
        let R := Dy.ofF r
        let p := pbits prec
        if U.n = 0 then (if R.n = 0 then none else some "nonzero-for-zero")
        else if R.n ≤ 0 then some "error-bound"
        else
          -- (2^p - 4)^2 · U < 2^(2p) · R^2 < (2^p + 4)^2 · U
          let un := U.n.natAbs
          let r2 := R.n.natAbs * R.n.natAbs
          let lo := cmpMag ((2 ^ p - 4) * (2 ^ p - 4) * un) U.e (2 ^ (2 * p) * r2) (2 * R.e)
          let hi := cmpMag (2 ^ (2 * p) * r2) (2 * R.e) ((2 ^ p + 4) * (2 ^ p + 4) * un) U.e
          if ¬ (lo < 0 ∧ hi < 0) then some "error-bound"
          else
            -- U = m · 2^K, m odd; exactly representable root iff K even and m a square
            let t := tz un
            let m := un / 2 ^ t
            let K : Int := U.e + t
            let s := Nat.sqrt m
            if K % 2 = 0 ∧ s * s = m ∧ bitlen m ≤ p ∧ bitlen s ≤ p then
              (if cmpDy R ⟨s, 1, K / 2⟩ = 0 then none else some "inexact-though-representable")
            else none

def pred : PredHandler := fun op toks impl =>
  if op.endsWith "?" then
    match spec ((op.dropEnd 1).toString) toks with
    | some s => some (evalSpec s impl)
    | none => none
  else none

end Mpir.Ops.Mpf
