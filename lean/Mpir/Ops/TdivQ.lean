/-
  Driver handlers for C02 part c02_tdivq (harness/ops_tdivq.c): the glue of mpn_tdiv_q.
    tdiv_q_model [n] [d] t1 t2 t3 t4   answered from the model Mpir.TdivQ.tdivQF (q, branch tag, callee tag)
    tdiv_q_guard [n] [d]               predicate on the implementation's tp[], flags and qp
-/
import Mpir.Proto
import Mpir.Model.TdivQ
namespace Mpir.Ops.TdivQ
open Mpir Mpir.TdivQ

/-- a threshold printed by the generator: MP_SIZE_T_MAX = 2^63-1 is "never" -/
def thrOfInt (x : Int) : Gen.Threshold := if x.toNat = 2 ^ 63 - 1 then none else some x.toNat

/-- the ASSERTs of mpn_tdiv_q (tdiv_q.c:94-96) plus proper limbs -/
def inDomain (n d : List Nat) : Bool :=
  decide (1 ≤ d.length) && decide (d.length ≤ n.length) && (d.getD (d.length - 1) 0 != 0) &&
    n.all (· < B) && d.all (· < B)

/-- The approximate callees are instantiated with error e = 0 (exact).  By `Mpir.TdivQ.tdiv_q_error_irrelevant`
    (MpirProofs/Props/C02_tdivq.lean) every admissible e gives the same limbs, so the answer does not depend on what the
    real mpn_*_divappr_q chose to do; the guard-limb logic itself is exercised by `tdiv_q_guard` below. -/
def handle : Handler
  | "tdiv_q_model", [.vec n, .vec d, .num t1, .num t2, .num t3, .num t4] =>
      if ¬ inDomain n d ∨ t1 < 0 ∨ t2 < 0 ∨ t3 < 0 ∨ t4 < 0 then none else
      let T : Thresholds := ⟨thrOfInt t1, thrOfInt t2, thrOfInt t3, thrOfInt t4⟩
      let r := tdivQF FUDGE T 0 n d
      some [.vec r.1, natTok r.2.1, natTok r.2.2.tag]
  | _, _ => none

/-- `tdiv_q_guard`: the implementation's tp[] (produced by the REAL approximate division on the truncated, shifted
    operands of the model's `prep2`), the two flags and qp are checked against what the theorems claim:
     1. tp has qn+1 limbs and ⌊N'/D'⌋ ≤ val tp ≤ ⌊N'/D'⌋ + 1 (callee contract, incl. the all-ones saturation:
        `saturation_within_budget`);
     2. ⌊N/D⌋ ≤ ⌊val tp / B⌋ ≤ ⌊N/D⌋ + 1, and the high part is one too large only with guard limb ≤ E + 1 = 2
        (`truncated_quotient_budget` with E = 1);
     3. guard limb > 4 ⇒ no multiply-back, high part exact; guard limb ≤ 4 ⇔ multiply-back (`guard_constant_sound`);
     4. decrement ⇔ multiply-back done and high part one too large;
     5. (qp, flags) = the model's `finish2` on that tp, and qp = the limbs of ⌊N/D⌋. -/
def pred : PredHandler
  | "tdiv_q_guard", [.vec n, .vec d], out =>
      if ¬ inDomain n d ∨ ¬ (n.length - d.length + 1 + 2 ≤ d.length) then none else
      match out with
      | [.vec tp, .num mb, .num dec, .vec qp] =>
          let qn := n.length - d.length + 1
          let p := prep2 n d
          let lo := val p.1 / val p.2.1
          let Q' := val tp
          let Q := val n / val d
          let Qh := Q' / B
          let guard := tp.getD 0 0
          let f := finish2 n d tp
          some (
            if tp.length ≠ qn + 1 ∨ ¬ tp.all (· < B) then some "tp is not qn+1 proper limbs"
            else if ¬ (lo ≤ Q' ∧ Q' ≤ lo + 1) then some "tp outside [floor, floor+1] of the truncated division"
            else if ¬ (Q ≤ Qh ∧ Qh ≤ Q + 1) then some "high part of tp is neither floor(N/D) nor floor(N/D)+1"
            else if Qh = Q + 1 ∧ guard > 2 then some "high part too large with guard limb > 2"
            else if guard > 4 ∧ (mb ≠ 0 ∨ dec ≠ 0 ∨ Qh ≠ Q) then some "guard limb > 4 but a correction was needed or done"
            else if guard ≤ 4 ∧ mb ≠ 1 then some "guard limb <= 4 but no multiply-back"
            else if (dec = 1) ≠ (guard ≤ 4 ∧ Qh = Q + 1) then some "decrement flag differs from (high part too large)"
            else if f ≠ (qp, mb == 1, dec == 1) then some "finish2 of the model differs"
            else if qp ≠ toLimbs qn Q then some "qp is not floor(N/D)"
            else none)
      | _ => some (some "unexpected output shape")
  | _, _, _ => none

end Mpir.Ops.TdivQ
