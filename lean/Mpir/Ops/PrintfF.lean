/- Driver handlers for the float layout ops (property C18, part c18_flayout); C side: harness/ops_flayout.c. -/
import Mpir.Proto
import Mpir.Model.PrintfF
namespace Mpir.Ops.PrintfF
open Mpir Mpir.Printf Mpir.PrintfF

def toChars (bs : List UInt8) : List Char := bs.map (fun b => Char.ofNat b.toNat)
def strT (cs : List Char) : Tok := .str (cs.map (fun c => UInt8.ofNat c.toNat))

def takeFlagChars : List Char → List Char × List Char
  | [] => ([], [])
  | c :: cs => if ['-', '+', ' ', '#', '0'].contains c then let (a, b) := takeFlagChars cs; (c :: a, b) else ([], c :: cs)

/-- `% flags [width|*] [. [prec|*]] F conv` and nothing else; star values in argument order -/
def parseF (fmt : List Char) (stars : List Int) : Option (List Char × WidthArg × PrecArg × FConv) :=
  match fmt with
  | '%' :: cs =>
    let (fl, cs) := takeFlagChars cs
    let wr : Option (WidthArg × List Char × List Int) := match cs with
      | '*' :: r => (match stars with | n :: st => some (.star (wrapSigned 32 n), r, st) | [] => none)
      | c :: r => if isDigit c then let (n, r') := takeNum (c :: r) 0; some (.num n, r', stars) else some (.none, c :: r, stars)
      | [] => none
    match wr with
    | none => none
    | some (w, cs, stars) =>
    let pr : Option (PrecArg × List Char) := match cs with
      | '.' :: '*' :: r => (match stars with | n :: _ => some (.star (wrapSigned 32 n), r) | [] => none)
      | '.' :: c :: r => if isDigit c then let (n, r') := takeNum (c :: r) 0; some (.num n, r') else some (.dot, c :: r)
      | r => some (.none, r)
    match pr with
    | none => none
    | some (p, cs) =>
      match cs with
      | ['F', c] => (FConv.ofChar c).map (fun cv => (fl, w, p, cv))
      | _ => none
  | _ => none

def mkF (bits : Int) (e : Int) (sz : Int) (l : List Nat) : Mpf.F :=
  ⟨Mpf.BITS_TO_PREC bits.toNat, sz, if l.isEmpty then 0 else e, l⟩

/-- |u| as num/den -/
def magnitude (u : Mpf.F) : Nat × Nat :=
  let k : Int := 64 * (u.exp - (u.d.length : Int))
  (if k ≥ 0 then val u.d * 2 ^ k.toNat else val u.d, if k ≥ 0 then 1 else 2 ^ (-k).toNat)

/-- the answer from the specification function, on the digits of the bit-exact mpf_get_str model; `!getok` when the
    hypothesis of `doprntf_eq_spec` does not hold for them -/
def fspec (size : Nat) (fmt : List Char) (stars : List Int) (u : Mpf.F) : List Tok :=
  match parseF fmt stars with
  | none => [.err "unsupported"]
  | some (fl, w, p, c) =>
    let P := fSpecParams fl w p c
    let rq := request P u.prec u.exp
    let g := MpfStr.get_digits c.base rq.2.toNat u
    let md := magnitude u
    let hyp : Bool := (g.1.isEmpty && g.2 == 0 && u.d.isEmpty) ||
      (!u.d.isEmpty && MpfStr.GetOk c.base g.1 g.2 (workDigits P u.prec u.exp) md.1 md.2)
    let out := specF c (cFlags fl w) (cWidth w) (cPrecF p) (MpfStr.maxDigits c.base u.prec) (decide (u.size < 0)) g.1 g.2
    [natTok out.length, strT (out.take (size - 1))] ++ (if hyp then [] else [.err "getok"])

def justOf : Int → Option Justify
  | 0 => some .none | 1 => some .left | 2 => some .right | 3 => some .internal | _ => none
def showOf : Int → Option Showbase
  | 1 => some .yes | 2 => some .no | 3 => some .nonzero | _ => none

def handle : Handler
  | "gmp_snprintf_Fspec", .num sz :: .str f :: r =>
      let ns := ((toChars f).filter (· = '*')).length
      (match (r.take ns).mapM (fun t => match t with | Tok.num v => some v | _ => none), r.drop ns with
       | some stars, [.num bits, .num e, .num s, .vec l] => some (fspec sz.toNat (toChars f) stars (mkF bits e s l))
       | _, _ => none)
  | "doprnt_mpf_direct", [.num base, .num conv, .num ehex, .num eup, .num e4, .num fill, .num just, .num prec, .num sb, .num sp, .num st,
                          .num sign, .num width, .num bits, .num e, .num s, .vec l] =>
      (match justOf just, showOf sb with
       | some j, some sh =>
         let p : Params := { base := base, conv := conv.toNat, expUpper := eup != 0, expHex := ehex != 0, exptimes4 := e4 != 0,
                             fill := Char.ofNat fill.toNat, justify := j, prec := prec, showbase := sh, showpoint := sp != 0,
                             showtrailing := st != 0, sign := if sign = 0 then none else some (Char.ofNat sign.toNat), width := width }
         let out := callsBytes (doprntMpfOn p (mkF bits e s l))
         some [natTok out.length, strT out]
       | _, _ => none)
  | _, _ => none

end Mpir.Ops.PrintfF
