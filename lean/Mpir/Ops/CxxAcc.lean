/- `cxx_acc s<prefix syntax> z0 z1 z2 z3 q0n q0d q1n q1d q2n q2d leaf…`
   Statements through the accessors of mpq_class (Model/CxxAcc.lean); tokens as for `cxx_eval` (Ops/Cxx.lean).

     stmt := "acc" idx count step…        `Q[idx].get_num()/get_den() …; …; Q[idx].canonicalize();`
           | "new2" tree tree             `mpq_class t(tree, tree); t.canonicalize();`
     step := ("n" | "d") "set" tree       `Q[idx].get_num() = tree;`   ("d": get_den())
           | ("n" | "d") bin opnd         `Q[idx].get_num() bin= opnd;`
     tree, opnd: as in `cxx_eval` (leaves zK qnK qdK, built-ins i u d, shift counts n)

   Answer: `num den` of the object afterwards as given by `accTmp` (every right-hand side into temporaries from the
   current raw fields, then n/d in lowest terms), `!fpe` when an exception is raised (division by zero, sqrt of a negative,
   a zero denominator at `canonicalize()`).  Cross-checked against the model of what mpirxx.h does (`execAcc`,
   `execInit2`, both answers of `__builtin_constant_p`; every other variable unchanged): a difference prints `!strategy`. -/
import Mpir.Proto
import Mpir.Model.CxxAcc
import Mpir.Ops.Cxx
namespace Mpir.Ops.CxxAcc
open Mpir Mpir.Cxx
open Mpir.Ops.Cxx (PS parseTree parseOpnd binOf parseIdx nums mkHeap)

def parseSteps (i : Nat) : Nat → Nat → PS → Option (List (Bool × E) × PS)
  | _, 0, ps => some ([], ps)
  | 0, _, _ => none
  | fuel + 1, n + 1, ps =>
    match ps.toks with
    | f :: k :: rest => do
      let d ← (match f with | "n" => some false | "d" => some true | _ => none)
      let ps1 : PS := { ps with toks := rest }
      let (e, ps2) ←
        (if k = "set" then parseTree (rest.length + 1) ps1
         else do
           let o ← binOf k
           let (r, ps2) ← parseOpnd (rest.length + 1) ps1
           -- the tree mpirxx.h's compound operator builds: `get_X() op r`
           match r with
           | .ex e => pure (E.bin o (fldLeaf i d) e, ps2)
           | .bi c => pure (E.binR o (fldLeaf i d) c, ps2))
      let (r, ps3) ← parseSteps i fuel n ps2
      pure ((d, e) :: r, ps3)
    | _ => none

def parseStmt (ps : PS) : Option (AStmt × PS) :=
  match ps.toks with
  | "acc" :: i :: n :: rest => do
      let i ← parseIdx i; let n ← parseIdx n
      let (steps, ps') ← parseSteps i (n + 1) n { ps with toks := rest }
      pure (.acc i steps, ps')
  | "new2" :: rest => do
      let (a, ps1) ← parseTree (rest.length + 1) { ps with toks := rest }
      let (b, ps2) ← parseTree (ps1.toks.length + 1) ps1
      pure (.init2 a b, ps2)
  | _ => none

/-- the model of what mpirxx.h does against the specification, for both answers of `__builtin_constant_p` -/
def strategyOk (h : Heap) (s : AStmt) : Bool :=
  [false, true].all fun c =>
    match s with
    | .acc i steps =>
      (match execAcc c 4 i steps h, accTmp h s with
       | some h', some r =>
         h' (.num i) == r.num && h' (.den i) == Int.ofNat r.den &&
         ([0, 1, 2, 3].all fun j => h' (.v j) == h (.v j)) &&
         ([0, 1, 2].all fun j => j == i || (h' (.num j) == h (.num j) && h' (.den j) == h (.den j)))
       | none, none => true
       | _, _ => false)
    | .init2 n d =>
      (match execInit2 c 4 n d h, accTmp h s with
       | some h', some r =>
         h' (.num 4) == r.num && h' (.den 4) == Int.ofNat r.den &&
         ([0, 1, 2, 3].all fun j => h' (.v j) == h (.v j)) &&
         ([0, 1, 2].all fun j => h' (.num j) == h (.num j) && h' (.den j) == h (.den j))
       | none, none => true
       | _, _ => false)

def handle : Handler
  | "cxx_acc", .str bs :: rest =>
    match nums rest with
    | none => some [.err "args"]
    | some (z0 :: z1 :: z2 :: z3 :: a :: b :: c :: d :: e :: f :: leaves) =>
      if b ≤ 0 ∨ d ≤ 0 ∨ f ≤ 0 then some [.err "args"] else
      let src := String.ofList (bs.map fun u => Char.ofNat u.toNat)
      let toks := (src.splitOn " ").filter (· ≠ "")
      match parseStmt { toks := toks, leaves := leaves } with
      | some (s, { toks := [], leaves := [] }) =>
        if !s.wt then some [.err "illtyped"] else
        let h := mkHeap [z0, z1, z2, z3] [(a, b), (c, d), (e, f)]
        if !strategyOk h s then some [.err "strategy"] else
        match accTmp h s with
        | none => some [.err "fpe"]
        | some r => some [.num r.num, .num (Int.ofNat r.den)]
      | _ => some [.err "syntax"]
    | some _ => some [.err "args"]
  | _, _ => none

end Mpir.Ops.CxxAcc
