/- Driver handlers for property C16, part sieve (prime sieve, sieve-based factorial / primorial / binomial
   internals, next-prime candidate).  Every answer is the MODEL's value; where an executable spec exists the
   answer is also compared with it and a difference printed as `!model-ne-spec`. -/
import Mpir.Proto
import Mpir.Model.Numth
import Mpir.Model.Sieve
namespace Mpir.Ops.Sieve
open Mpir Mpir.Numth Mpir.Sieve

private def isUi (n : Int) : Bool := 0 ≤ n && n < (B : Int)

/-- the executable meaning of a sieved array: bit b clear ⇔ bit_to_n b prime, for b ≤ bits; pad bits set -/
def sieveOk (a : Array Nat) (bits : Nat) : Bool :=
  (List.range (64 * a.size)).all fun b =>
    if b ≤ bits then sieveBit a b == !isPrimeTD (bit_to_n b) else sieveBit a b

def handle : Handler
  | "gmp_primesieve", [.num n] =>
      if isUi n && 4 < n && n ≤ 400000000 then
        match gmp_primesieve n.toNat with
        | some (a, c) =>
            -- run-time model = spec comparison only on small arrays (trial division is slow); the theorem covers all n
            let ok := a.size > 64 || sieveOk a (n_to_bit n.toNat)
            some ([.vec a.toList, natTok c] ++ (if ok then [] else [.err "model-ne-spec"]))
        | none => some [.err "model-oob"]
      else none
  | "first_block_primesieve", [.num n] =>
      if isUi n && 4 < n && n ≤ 400000000 then
        match first_block_primesieve n.toNat with
        | some a => some [.vec a.toList]
        | none => some [.err "model-oob"]
      else none
  | "block_resieve", [.num limbs, .num offset, .vec sieve, .num sieve_bits] =>
      if isUi limbs && isUi offset && isUi sieve_bits && 0 < limbs && limbs ≤ 100000 && offset ≤ 400000000
          && sieve_bits.toNat / 64 < sieve.length then
        some [.vec (block_resieve limbs.toNat offset.toNat sieve.toArray sieve_bits.toNat).toList]
      else none
  | "mpz_oddfac_1", [.num n, .num flag] =>
      if isUi n && n ≤ 3000000 && (flag = 0 || flag = 1) then
        let v := mpz_oddfac_1 n.toNat flag.toNat
        -- model = spec at run time where the spec is cheap; the theorems cover every n
        let ok := n > 6000 || (if flag = 0 ∨ !(aboveThreshold n.toNat Gen.NumthTabs.FAC_DSC_THRESHOLD)
                    then v * 2 ^ (n.toNat - popcount n.toNat) = factorial n.toNat
                    else n.toNat % 2 = 0 || v = doubleFactorial n.toNat)
        some ([natTok v] ++ (if ok then [] else [.err "model-ne-spec"]))
      else none
  | "mpz_2multiswing_1", [.num n] =>
      if isUi n && 26 ≤ n && n ≤ 3000000 then
        match gmp_primesieve n.toNat with
        | some (a, _) =>
            let v := multiswingArr a n.toNat
            let ok := n > 3000 || v = mpz_2multiswing_1 n.toNat
            some ([natTok v] ++ (if ok then [] else [.err "model-ne-spec"]))
        | none => some [.err "model-oob"]
      else none
  | "mpz_prodlimbs", [.vec l] =>
      if l.length ≥ 2 && l.all (· ≠ 0) then some [natTok (prodList l)] else none
  | "bin_uiui_sel", [.num n, .num k, .num alg] =>
      if isUi n && isUi k && isUi alg then
        let d := binDispatch n.toNat k.toNat
        let idx : Int := match d.1 with
          | .zero => 0 | .tiny => 1 | .bc => 2 | .smallk => 3 | .smallkdc => 4 | .goetgheluck => 5 | .bdiv => 6
        if idx ≠ alg then some [.err "wrong-alg"] else
        let v : Option Nat :=
          if d.1 == .goetgheluck then (gmp_primesieve n.toNat).map (fun r => goetgheluckArr r.1 n.toNat d.2)
          else mpz_bin_uiui n.toNat k.toNat
        match v with
        | some v =>
            let ok := k.toNat.min (n.toNat - k.toNat) > 3000 || v = binom n.toNat k.toNat
            some ([natTok v] ++ (if ok then [] else [.err "model-ne-spec"]))
        | none => some [.err "model-assert"]
      else none
  | "goetgheluck_bin_uiui", [.num n, .num k] =>
      if isUi n && isUi k && 25 ≤ n && n ≤ 50000000 && 2 * k ≤ n && n_to_bit (n.toNat - k.toNat) < n_to_bit n.toNat then
        match gmp_primesieve n.toNat with
        | some (a, _) =>
            let v := goetgheluckArr a n.toNat k.toNat
            let ok := k > 3000 || (v = binom n.toNat k.toNat && (n > 20000 || v = goetgheluck_bin_uiui n.toNat k.toNat))
            some ([natTok v] ++ (if ok then [] else [.err "model-ne-spec"]))
        | none => some [.err "model-oob"]
      else none
  | "smallk_bin_uiui", [.num n, .num k] =>
      if isUi n && isUi k && 2 ≤ k && k ≤ Gen.NumthTabs.ODD_FACTORIAL_TABLE_LIMIT && 2 * k ≤ n then
        let v := smallk_bin_uiui n.toNat k.toNat
        some ([natTok v] ++ (if v = binom n.toNat k.toNat then [] else [.err "model-ne-spec"]))
      else none
  | "smallkdc_bin_uiui", [.num n, .num k] =>
      if isUi n && isUi k && Gen.NumthTabs.ODD_FACTORIAL_TABLE_LIMIT < k && k ≤ 2 * Gen.NumthTabs.ODD_CENTRAL_BINOMIAL_TABLE_LIMIT
          && 2 * k ≤ n && Gen.NumthTabs.ODD_FACTORIAL_EXTTABLE_LIMIT < n then
        let v := smallkdc_bin_uiui 8 n.toNat k.toNat
        some ([natTok v] ++ (if v = binom n.toNat k.toNat then [] else [.err "model-ne-spec"]))
      else none
  | "bdiv_bin_uiui", [.num n, .num k] =>
      if isUi n && isUi k && Gen.NumthTabs.ODD_FACTORIAL_TABLE_LIMIT < k && 2 * k ≤ n && k ≤ 200000 then
        match bdiv_bin_uiui n.toNat k.toNat with
        | some v => some ([natTok v] ++ (if k > 3000 || v = binom n.toNat k.toNat then [] else [.err "model-ne-spec"]))
        | none => some [natTok (binom n.toNat k.toNat), .err "model-assert"]
      else none
  | _, _ => none

/-- mpz_next_prime_candidate's answer r for argument n is accepted iff the walk of the residue loop
    (Mpir.Sieve.npcModel) with the oracle "c = r, or c is a prime" stops exactly at r: r ≥ the first candidate, every
    candidate the loop would have submitted to Miller-Rabin before r is composite (no prime was skipped), and r
    itself is a candidate the loop submits (no factor in the prime table) — or r is the small-number answer. -/
def npcOk (n r : Int) : Option String :=
  if r < 0 then some "negative" else
  match npcModel (fun c => c == r.toNat || isPrime c) 4000 n with
  | some m => if m = r.toNat then none else some s!"walk-stops-at-{m}"
  | none => some "walk-does-not-stop"

def pred : PredHandler
  | "npc_walk", [.num n, .num _], [.num r] => some (npcOk n r)
  | "npc_walk", _, _ => some (some "unexpected-output")
  | _, _, _ => none

end Mpir.Ops.Sieve
