/- Driver handlers for property C16, part sieve (prime sieve, sieve-based factorial / primorial / binomial
   internals, next-prime candidate).  Every answer is the MODEL's value; where an executable spec exists the
   answer is also compared with it and a difference printed as `!model-ne-spec`. -/
import Mpir.Proto
import Mpir.Model.Numth
import Mpir.Model.Sieve
namespace Mpir.Ops.Sieve
open Mpir Mpir.Numth Mpir.Sieve

private def isUi (n : Int) : Bool := 0 ≤ n && n < (B : Int)

/-- the executable meaning of a sieved array: bit b clear ⇔ bit_to_n b prime, for b ≤ bits; pad bits set -/
def sieveOk (a : Array Nat) (bits : Nat) : Bool :=
  (List.range (64 * a.size)).all fun b =>
    if b ≤ bits then sieveBit a b == !isPrimeTD (bit_to_n b) else sieveBit a b

def handle : Handler
  | "gmp_primesieve", [.num n] =>
      if isUi n && 4 < n && n ≤ 400000000 then
        match gmp_primesieve n.toNat with
        | some (a, c) =>
            -- run-time model = spec comparison only on small arrays (trial division is slow); the theorem covers all n
            let ok := a.size > 64 || sieveOk a (n_to_bit n.toNat)
            some ([.vec a.toList, natTok c] ++ (if ok then [] else [.err "model-ne-spec"]))
        | none => some [.err "model-oob"]
      else none
  | "first_block_primesieve", [.num n] =>
      if isUi n && 4 < n && n ≤ 400000000 then
        match first_block_primesieve n.toNat with
        | some a => some [.vec a.toList]
        | none => some [.err "model-oob"]
      else none
  | "block_resieve", [.num limbs, .num offset, .vec sieve, .num sieve_bits] =>
      if isUi limbs && isUi offset && isUi sieve_bits && 0 < limbs && limbs ≤ 100000 && offset ≤ 400000000
          && sieve_bits.toNat / 64 < sieve.length then
        some [.vec (block_resieve limbs.toNat offset.toNat sieve.toArray sieve_bits.toNat).toList]
      else none
  | _, _ => none

end Mpir.Ops.Sieve
