/- Driver handlers for the C04 part allocsafe4: the size-aware models of Mpir/Model/AllocSafeMpz4.lean on objects of
   given allocations (conventions of Mpir/Ops/AllocSafe.lean: token pairs `alloc value`, leading alias-mode token
     0 all variables distinct   1 w is u   2 w is v   3 u is v (w distinct)   4 all one variable).
   Answer: ALLOC (w), SIZ (w), value of w; `!oob` if the model's run clears `ok`, `!malformed` if the result is not
   well formed. -/
import Mpir.Proto
import Mpir.Model.AllocSafeMpz4
namespace Mpir.Ops.AllocSafe4
open Mpir Mpir.AllocSafe

private def mk? (al v : Int) : Option Obj :=
  if 1 ≤ al && al ≤ 2 ^ 20 && (natLimbs v.natAbs).length ≤ al.toNat then some (mkObj al.toNat v) else none

private def outW (s : St) (w : Nat) : List Tok :=
  if !s.ok then [.err "oob"] else
  let m := view (s.h w)
  [.num m.alloc, .num m.size, if Mpz.WF m then .num (Mpz.toInt m) else .err "malformed"]

private def heap (w u v : Obj) : St := ⟨fun i => if i = 0 then w else if i = 1 then u else v, true⟩

private def run3 (f : St → Nat → Nat → Nat → St) (m : Int) (w u v : Obj) : Option (List Tok) :=
  let s := heap w u v
  match m with
  | 0 => some (outW (f s 0 1 2) 0)
  | 1 => some (outW (f s 1 1 2) 1)
  | 2 => some (outW (f s 2 1 2) 2)
  | 3 => some (outW (f s 0 1 1) 0)
  | 4 => some (outW (f s 1 1 1) 1)
  | _ => none

private def run2 (f : St → Nat → Nat → St) (m : Int) (w u : Obj) : Option (List Tok) :=
  let s := heap w u u
  match m with
  | 0 => some (outW (f s 0 1) 0)
  | 1 => some (outW (f s 1 1) 1)
  | _ => none

private def f3 (name : String) : Option (St → Nat → Nat → Nat → St) :=
  match name with
  | "as4_addmul" => some mpz_addmul
  | "as4_submul" => some mpz_submul
  | "as4_mul" => some mpz_mul
  | _ => none

private def fdiv (name : String) : Option (St → Nat → Nat → Nat → Option St) :=
  match name with
  | "as4_tdiv_q" => some mpz_tdiv_q
  | "as4_tdiv_r" => some mpz_tdiv_r
  | _ => none

/-- `f (w, u, v)` that may raise DIVIDE_BY_ZERO -/
private def run3o (f : St → Nat → Nat → Nat → Option St) (m : Int) (w u v : Obj) : Option (List Tok) :=
  let s := heap w u v
  let go (r : Option St) (i : Nat) : List Tok := match r with | none => [.err "div0"] | some s' => outW s' i
  match m with
  | 0 => some (go (f s 0 1 2) 0)
  | 1 => some (go (f s 1 1 2) 1)
  | 2 => some (go (f s 2 1 2) 2)
  | 3 => some (go (f s 0 1 1) 0)
  | 4 => some (go (f s 1 1 1) 1)
  | _ => none

private def fui (name : String) : Option (St → Nat → Nat → Nat → St) :=
  match name with
  | "as4_addmul_ui" => some mpz_addmul_ui
  | "as4_submul_ui" => some mpz_submul_ui
  | _ => none

def handle : Handler
  | "as4_mpq_inv", [.num m, .num a0, .num v0, .num a1, .num v1, .num a2, .num v2, .num a3, .num v3] => do
      if v3 ≤ 0 then none else
      let dn ← mk? a0 v0; let dd ← mk? a1 v1; let sn ← mk? a2 v2; let sd ← mk? a3 v3
      let s : St := ⟨fun i => if i = 0 then dn else if i = 1 then dd else if i = 2 then sn else sd, true⟩
      -- mode 0: dest = (0, 1), src = (2, 3); mode 1: dest == src = (2, 3)
      let ids : Option (Nat × Nat) := match m with | 0 => some (0, 1) | 1 => some (2, 3) | _ => none
      let (N, D) ← ids
      match mpq_inv s N D 2 3 with
      | none => some [.err "div0"]
      | some s' => if !s'.ok then some [.err "oob"] else some (outW s' N ++ outW s' D)
  | "as4_set_d", [.num wa, .num wv, .num d] => do
      let w ← mk? wa wv
      if !(0 ≤ d && d < 2 ^ 64) then none else
      match mpz_set_d (heap w w w) 0 d.toNat with
      | none => some [.err "fpe"]
      | some s' => some (outW s' 0)
  | "as4_sqrtrem", [.num m, .num qa, .num qv, .num ra, .num rv, .num ua, .num uv] => do
      let q ← mk? qa qv; let r ← mk? ra rv; let u ← mk? ua uv
      let s : St := ⟨fun i => if i = 0 then q else if i = 1 then r else u, true⟩
      -- ids: root = 0, rem = 1, op = 2; mode 0 distinct, 1 root is op, 2 rem is op
      let ids : Option (Nat × Nat) := match m with | 0 => some (0, 1) | 1 => some (2, 1) | 2 => some (0, 2) | _ => none
      let (Q, R) ← ids
      match mpz_sqrtrem s Q R 2 with
      | none => some [.err "sqrtneg"]
      | some s' => if !s'.ok then some [.err "oob"] else some (outW s' Q ++ outW s' R)
  | "as4_mpf_urandomb", [.num seed, .num precBits, .num nbits] =>
      if !(0 ≤ seed && seed < 2 ^ 64 && 0 ≤ precBits && precBits < 2 ^ 20 && 0 ≤ nbits && nbits < 2 ^ 20) then none else
      let g := (Rand.Gen.mt Rand.mtDefault).seedUi seed.toNat
      let s := (mpf_urandomb 0 (mkF (Rand.bitsToPrec precBits.toNat)) g nbits.toNat).1
      if !s.ok then some [.err "oob"] else
      let o := s.out
      some [.num o.1, .num o.2.size, .num o.2.exp, .vec o.2.d]
  | name, [.num m, .num wa, .num wv, .num ua, .num uv, .num va, .num vv] => do
      let w ← mk? wa wv; let u ← mk? ua uv; let v ← mk? va vv
      match fdiv name with
      | some g => run3o g m w u v
      | none => do
        let f ← f3 name
        run3 f m w u v
  | "as4_tdiv_qr", [.num m, .num qa, .num qv, .num ra, .num rv, .num na, .num nv, .num da, .num dv] => do
      let q ← mk? qa qv; let r ← mk? ra rv; let n ← mk? na nv; let d ← mk? da dv
      let s : St := ⟨fun i => if i = 0 then q else if i = 1 then r else if i = 2 then n else d, true⟩
      -- ids: q = 0, r = 1, n = 2, d = 3
      let ids : Option (Nat × Nat × Nat × Nat) :=
        match m with
        | 0 => some (0, 1, 2, 3) | 1 => some (2, 1, 2, 3) | 2 => some (3, 1, 2, 3) | 3 => some (0, 2, 2, 3) | 4 => some (0, 3, 2, 3)
        | 5 => some (2, 3, 2, 3) | 6 => some (3, 2, 2, 3) | 7 => some (0, 1, 2, 2) | 8 => some (2, 1, 2, 2) | 9 => some (0, 2, 2, 2)
        | _ => none
      let (Q, R, N, D) ← ids
      match mpz_tdiv_qr s Q R N D with
      | none => some [.err "div0"]
      | some s' => if !s'.ok then some [.err "oob"] else some (outW s' Q ++ outW s' R)
  | "as4_sqrt", [.num m, .num wa, .num wv, .num ua, .num uv] => do
      let w ← mk? wa wv; let u ← mk? ua uv
      let s := heap w u u
      match m with
      | 0 => some (match mpz_sqrt s 0 1 with | none => [.err "sqrtneg"] | some s' => outW s' 0)
      | 1 => some (match mpz_sqrt s 1 1 with | none => [.err "sqrtneg"] | some s' => outW s' 1)
      | _ => none
  | name, [.num m, .num wa, .num wv, .num ua, .num uv, .num k] => do
      let f ← fui name
      if !(0 ≤ k && k < (B : Int)) then none else
      let w ← mk? wa wv; let u ← mk? ua uv
      run2 (fun s a b => f s a b k.toNat) m w u
  | _, _ => none

end Mpir.Ops.AllocSafe4
