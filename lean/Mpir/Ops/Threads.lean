/- `threads N seed nops` / `threadsx N seed nops profile`: the harness runs N seeded operation lists concurrently and
   then sequentially and answers 0 when every thread's digest (and, for `threadsx`, its memory accounting) equals the
   sequential one — which is what the footprint theorems (MpirProofs/Props/C15.lean, C15_globals.lean) predict for
   every interleaving.
   `cells_trace [codes]`: a sequential trace of the API calls that touch the documented shared cells; answered by
   the executable cell model `Mpir.Threads.runApi`. -/
import Mpir.Proto
import Mpir.Model.Threads
namespace Mpir.Ops.Threads
open Mpir
def handle : Handler
  | "threads", [.num _, .num _, .num _] => some [natTok 0]
  | "threadsx", [.num _, .num _, .num _, .num p] => if 0 ≤ p ∧ p ≤ 127 then some [natTok 0] else none
  | "cells_trace", [.vec codes] =>
      match Threads.decodeCalls codes with
      | some calls => some [.vec (Threads.runApi Threads.cells0 calls).2]
      | none => none
  | _, _ => none
end Mpir.Ops.Threads
