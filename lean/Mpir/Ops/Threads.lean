/- `threads N seed nops`: the harness runs N seeded operation lists concurrently and then sequentially and
   answers 0 when every thread's digest equals its sequential digest — which is what the footprint
   theorem (MpirProofs/Props/C15.lean) predicts for every interleaving. -/
import Mpir.Proto
namespace Mpir.Ops.Threads
open Mpir
def handle : Handler
  | "threads", [.num _, .num _, .num _] => some [natTok 0]
  | _, _ => none
end Mpir.Ops.Threads
