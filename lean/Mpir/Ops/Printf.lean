/- Driver handlers for the formatted output / input ops (property C18); C side: harness/ops_printf.c. -/
import Mpir.Proto
import Mpir.Model.Printf
import Mpir.Model.Scanf
namespace Mpir.Ops.Printf
open Mpir Mpir.Printf

def toChars (bs : List UInt8) : List Char := bs.map (fun b => Char.ofNat b.toNat)
def toBytes (cs : List Char) : List UInt8 := cs.map (fun c => UInt8.ofNat c.toNat)
def strT (cs : List Char) : Tok := .str (toBytes cs)

def sentinel : Int := 0x7e57

/-- a target the call may store into: its value if untouched -/
inductive Target where
  | cell (init : Int) | mpz | mpq | buf
  deriving Repr

/-- argument list from the `types` string (see build_args in ops_printf.c) -/
def buildArgs : List Char → List Tok → Option (List Arg × List Target)
  | [], [] => some ([], [])
  | [], _ => none
  | t :: ts, toks =>
    let cont (a : List Arg) (tg : List Target) (rest : List Tok) :=
      match buildArgs ts rest with
      | some (as, tgs) => some (a ++ as, tg ++ tgs)
      | none => none
    match t, toks with
    | 'i', .num v :: r => cont [.int v] [] r
    | 'M', .num v :: r => cont [.int v] [] r
    | 's', .str s :: r => cont [.str (toChars s)] [] r
    | 'Z', .num v :: r => cont [.mpz v] [] r
    | 'Q', .num n :: .num d :: r => cont [.mpq n d] [] r
    | 'N', .vec l :: .num n :: r => cont [.limbs l, .int n] [] r
    | 'F', .num bits :: .num e :: .num sz :: .vec l :: r =>
        -- __GMPF_BITS_TO_PREC: (max (53, bits) + 2*64 - 1) / 64
        cont [.mpf ((max 53 bits.toNat + 127) / 64) (decide (sz < 0)) l (if l.isEmpty then 0 else e)] [] r
    | 'n', r => cont [.cell] [.cell 0] r
    | 'l', r => cont [.cell] [.cell sentinel] r
    | 'z', r => cont [.mpzOut] [.mpz] r
    | 'q', r => cont [.mpqOut] [.mpq] r
    | 'b', r => cont [.cell] [.buf] r
    | _, _ => none

def storeToks : Store → List Tok
  | .cell v => [natTok v]
  | .mpz v => [.num v]
  | .mpq n d => [.num n, .num d]

def targetToks : Target → List Tok
  | .cell i => [.num i]
  | .mpz => [.num sentinel]
  | .mpq => [.num sentinel, .num 1]
  | .buf => [.str []]

/-- stores happen in argument order, so they fill a prefix of the targets -/
def storesOut (stores : List Store) (tgs : List Target) : List Tok :=
  (stores.flatMap storeToks) ++ ((tgs.drop stores.length).flatMap targetToks)

def bounded (size : Nat) (out : List Char) : List Tok :=
  [natTok out.length, strT (out.take (size - 1))]

def unsupported : List Tok := [.err "unsupported"]

inductive Fam where
  | sn | s | as | ob
  deriving DecidableEq

def famOut (k : Fam) (size : Nat) (fmt : List Char) (args : List Arg) (tgs : List Target) : List Tok :=
  match doprnt fmt args with
  | none => unsupported
  | some r =>
    let st := storesOut r.stores tgs
    match k with
    | .sn => let s := snRun size r.calls; [natTok s.ret, strT s.text] ++ st
    | .s => [natTok r.retval, strT (callsBytes r.calls)] ++ st
    | .ob => [natTok r.retval, strT ('a' :: 'b' :: callsBytes r.calls)] ++ st
    | .as =>
      match asRun r.calls with
      | some a => [natTok a.ret, strT a.text, natTok a.block] ++ (if a.ok then [] else [.err "model-overrun"]) ++ st
      | none => unsupported

def fam (k : Fam) (size : Nat) (fmt types : List UInt8) (toks : List Tok) : List Tok :=
  match buildArgs (toChars types) toks with
  | some (args, tgs) => famOut k size (toChars fmt) args tgs
  | none => unsupported

/-! single conversion with the glibc column -/

def takeWhileIn (set : List Char) : List Char → List Char × List Char
  | [] => ([], [])
  | c :: cs => if set.contains c then let (a, b) := takeWhileIn set cs; (c :: a, b) else ([], c :: cs)

structure OneSpec where
  fl : List Char
  wStar : Bool
  wNum : Option Nat
  pDot : Bool
  pStar : Bool
  pNum : Option Nat
  ty : Char
  conv : Conv

/-- `% flags [width|*] [. [prec|*]] type conv` and nothing else -/
def parseOne (fmt : List Char) : Option OneSpec :=
  match fmt with
  | '%' :: cs =>
    let (fl, cs) := takeWhileIn ['-', '+', ' ', '#', '0'] cs
    let (wStar, wNum, cs) : Bool × Option Nat × List Char := match cs with
      | '*' :: r => (true, none, r)
      | c :: r => if isDigit c then let (n, r') := takeNum (c :: r) 0; (false, some n, r') else (false, none, c :: r)
      | [] => (false, none, [])
    let (pDot, pStar, pNum, cs) : Bool × Bool × Option Nat × List Char := match cs with
      | '.' :: '*' :: r => (true, true, none, r)
      | '.' :: c :: r => if isDigit c then let (n, r') := takeNum (c :: r) 0; (true, false, some n, r') else (true, false, none, c :: r)
      | r => (false, false, none, r)
    match cs with
    | [ty, c] => match convOfChar c with
      | some conv => some { fl, wStar, wNum, pDot, pStar, pNum, ty, conv }
      | none => none
    | _ => none
  | _ => none

def fitsLong (v : Int) : Bool := decide (-(2 ^ 63 : Int) ≤ v) && decide (v < 2 ^ 63)

/-- replace the first occurrence of the type letter -/
def replaceTy (ty : Char) (by_ : List Char) : List Char → List Char
  | [] => []
  | c :: cs => if c = ty then by_ ++ cs else c :: replaceTy ty by_ cs

def oneConv (ty : Char) (size : Nat) (fmtB : List UInt8) (rest : List Tok) : List Tok :=
  let fmt := toChars fmtB
  let nstars := (fmt.filter (· = '*')).length
  let stars := rest.take nstars
  let vals := rest.drop nstars
  match stars.mapM (fun t => match t with | Tok.num v => some v | _ => none) with
  | none => unsupported
  | some sv =>
  let ints := sv.map Arg.int
  -- the MPIR argument(s), whether the glibc column is printed, and the long it is printed for
  let av : Option (List Arg × Bool × Int) := match ty, vals with
    | 'Z', [.num v] => some ([.mpz v], fitsLong v, v)
    | 'M', [.num v] => some ([.int v], true, v)
    | 'Q', [.num n, .num d] => some ([.mpq n d], fitsLong n && d == 1, n)
    | 'N', [.num sz, .vec l] =>
        (match mpnValue l sz with
         | some v => some ([.limbs l, .int sz], fitsLong v, v)
         | none => none)
    | _, _ => none
  match av with
  | none => unsupported
  | some (a, cmp, lv) =>
  match doprnt fmt (ints ++ a) with
  | none => unsupported
  | some r =>
    let s := snRun size r.calls
    let impl := [natTok s.ret, strT s.text]
    if ¬ cmp then impl else
    match libcFormat (replaceTy ty (if ty = 'M' then ['l', 'l'] else ['l']) fmt) (ints ++ [.int lv]) with
    | none => unsupported
    | some g =>
      let spec := bounded size g
      let same := s.ret == g.length && s.text == g.take (size - 1)
      -- does the property demand equality with the C library here?
      let demanded : Bool := match parseOne fmt with
        | none => same
        | some o =>
          let p : PrecArg := if o.pStar then .star (wrapSigned 32 (sv.getLastD 0)) else
            match o.pNum with | some n => .num n | none => if o.pDot then .dot else .none
          if ty = 'M' then true                                       -- a proxy for `ll`: always
          else if ty = 'Q' ∧ p ≠ .none then same                      -- precision is undefined for Q
          else if decide (Comparable o.fl p o.conv lv) then true else same
      impl ++ spec ++ [boolTok demanded] ++ (if demanded && !same then [.err "c99"] else [])

/-! input -/

/-- assigned values fill the targets in order; kinds must agree -/
def scanOuts : List Scanf.Out → List Target → Option (List Tok)
  | [], tgs => some (tgs.flatMap targetToks)
  | _ :: _, [] => none
  | o :: os, t :: ts =>
    let here : Option (List Tok) := match o, t with
      | .int v, .cell _ => some [.num v]
      | .str s, .buf => some [strT s]
      | .z v, .mpz => some [.num v]
      | .q n d, .mpq => some [.num n, .num d]
      | _, _ => none
    match here, scanOuts os ts with
    | some a, some b => some (a ++ b)
    | _, _ => none

def scan (file : Bool) (fmt types inp : List UInt8) : List Tok :=
  match buildArgs (toChars types) [] with
  | none => unsupported
  | some (_, tgs) =>
    match Scanf.doscan (toChars fmt) (toChars inp) with
    | none => unsupported
    | some r =>
      match scanOuts r.outs tgs with
      | none => unsupported
      | some ts => [.num r.fields] ++ ts ++ (if file then [natTok (inp.length - r.rest.length)] else [])

/-- Does the property demand that scanning the printed text with `sfmt` gives the value back?
    Yes for the matching conversion (d/i/u→d, o→o, x/X→x) and for %Zi on text that carries its base,
    when there is at least one digit to read.  Not demanded: `#` with x/X read by %Zx (the scanner takes no 0x
    prefix in a fixed base — reported as finding S1), precision 0 on the value 0 (no characters printed). -/
def roundTripDemanded (pfmt sfmt : List Char) (zero : Bool) : Bool :=
  match parseOne pfmt with
  | none => false
  | some o =>
    let hash := o.fl.contains '#'
    let zeroFlag := o.fl.contains '0'
    let precZero := o.pNum == some 0
    let noDigits := precZero && zero
    let base := o.conv.base
    if o.pStar || o.wStar || noDigits then false else
    match sfmt with
    | ['%', _, c] =>
      if c = 'i' then zero || (base == 10 && !zeroFlag && o.pNum.isNone) || (hash && base != 10)
      else
        let sb := if c = 'd' || c = 'u' then 10 else if c = 'o' then 8 else if c = 'x' || c = 'X' then 16 else 0
        sb == base && !(hash && base == 16 && !zero)
    | _ => false

def printScan (q : Bool) (pfmtB sfmtB : List UInt8) (vals : List Int) : List Tok :=
  let pfmt := toChars pfmtB
  let sfmt := toChars sfmtB
  let arg : Option (Arg × Bool) := match q, vals with
    | false, [v] => some (.mpz v, v == 0)
    | true, [n, d] => some (.mpq n d, false)
    | _, _ => none
  match arg with
  | none => unsupported
  | some (a, zero) =>
  match doprnt pfmt [a] with
  | none => unsupported
  | some r =>
    let text := callsBytes r.calls
    match Scanf.doscan sfmt text with
    | none => unsupported
    | some sr =>
      let (valToks, same) : List Tok × Bool := match q, sr.outs, vals with
        | false, [.z y], [v] => ([.num y], y == v)
        | false, [], [v] => ([.num sentinel], sentinel == v)
        | true, [.q yn yd], [n, d] => ([.num yn, .num yd], yn == n && yd == d)
        | true, [], [n, d] => ([.num sentinel, .num 1], sentinel == n && d == 1)
        | _, _, _ => ([.err "unsupported"], false)
      let demanded := roundTripDemanded pfmt sfmt zero && (!q || !(pfmt.contains '.'))
      [strT text, .num sr.fields] ++ valToks ++ [boolTok (demanded || same)] ++
        (if demanded && !same then [.err "roundtrip"] else [])

def handle : Handler
  | "gmp_snprintf_Z", .num sz :: .str f :: r => some (oneConv 'Z' sz.toNat f r)
  | "gmp_snprintf_Q", .num sz :: .str f :: r => some (oneConv 'Q' sz.toNat f r)
  | "gmp_snprintf_N", .num sz :: .str f :: r => some (oneConv 'N' sz.toNat f r)
  | "gmp_snprintf_M", .num sz :: .str f :: r => some (oneConv 'M' sz.toNat f r)
  | "gmp_snprintf_F", .num sz :: .str f :: r =>
      let ns := ((toChars f).filter (· = '*')).length
      some (fam .sn sz.toNat f (toBytes (List.replicate ns 'i' ++ ['F'])) r)
  | "gmp_snprintf", .num sz :: .str f :: .str t :: r => some (fam .sn sz.toNat f t r)
  | "gmp_snprintf_mixed", .num sz :: .str f :: .str t :: r => some (fam .sn sz.toNat f t r)
  | "gmp_vsnprintf", .num sz :: .str f :: .str t :: r => some (fam .sn sz.toNat f t r)
  | "gmp_sprintf", .str f :: .str t :: r => some (fam .s 0 f t r)
  | "gmp_vsprintf", .str f :: .str t :: r => some (fam .s 0 f t r)
  | "gmp_fprintf", .str f :: .str t :: r => some (fam .s 0 f t r)
  | "gmp_vfprintf", .str f :: .str t :: r => some (fam .s 0 f t r)
  | "gmp_printf", .str f :: .str t :: r => some (fam .s 0 f t r)
  | "gmp_vprintf", .str f :: .str t :: r => some (fam .s 0 f t r)
  | "gmp_asprintf", .str f :: .str t :: r => some (fam .as 0 f t r)
  | "gmp_vasprintf", .str f :: .str t :: r => some (fam .as 0 f t r)
  | "gmp_obstack_printf", .str f :: .str t :: r => some (fam .ob 0 f t r)
  | "gmp_obstack_vprintf", .str f :: .str t :: r => some (fam .ob 0 f t r)
  | "gmp_print_scan_Z", [.str pf, .str sf, .num v] => some (printScan false pf sf [v])
  | "gmp_print_scan_Q", [.str pf, .str sf, .num n, .num d] => some (printScan true pf sf [n, d])
  | "gmp_sscanf", [.str f, .str t, .str i] => some (scan false f t i)
  | "gmp_vsscanf", [.str f, .str t, .str i] => some (scan false f t i)
  | "gmp_fscanf", [.str f, .str t, .str i] => some (scan true f t i)
  | "gmp_vfscanf", [.str f, .str t, .str i] => some (scan true f t i)
  | _, _ => none

end Mpir.Ops.Printf
