/-
  Layer L-mem: the mpn kernels of Mpir/Model/Kernels.lean once more, this time over a *memory*
  (address → limb) with pointer arguments, so that overlap of source and destination is visible.
  Each function performs the loads and stores of the C in the order of the C text; a load that comes
  after a store sees the stored value.  Core Lean only (linked into the driver: ops `mem_*`).

  Source mirrored (64-bit limbs, GMP_NAIL_BITS == 0; all of these are compiled from C in the pinned build):
    mpn/generic/lshift.c rshift.c add_n.c sub_n.c mul_1.c addmul_1.c submul_1.c com_n.c
    gmp-impl.h  MPN_COPY_INCR (= mpn/generic/copyi.c), MPN_COPY_DECR (= copyd.c),
                MPN_OVERLAP_P, MPN_SAME_OR_SEPARATE_P, MPN_SAME_OR_SEPARATE2_P, MPN_SAME_OR_INCR_P, MPN_SAME_OR_DECR_P
    mpir.h      __GMPN_AORS_1 (mpn_add_1, mpn_sub_1), __GMPN_AORS/__GMPN_ADD/__GMPN_SUB (mpn_add, mpn_sub),
                __GMPN_COPY_REST, mpn_neg_n

  Conventions.  A pointer is an address (`Nat`).  Where the C walks a pointer upwards (`*up++`) the
  loop function carries the current pointer; where it walks downwards (`*--up`, `*dst--`) or indexes
  (`(src)[i]`) the loop carries the base pointer and the index, so that no truncated subtraction occurs:
  "`up + i`" below is the value of the C pointer at that moment.  The loop counter is the C's counter.
  Arithmetic on limbs is the list-level model's (`% B`, `boolToNat`), so the two layers can be compared
  by equality.  Sizes outside the C's domain (n = 0 where the C ASSERTs n ≥ 1) are not given a meaning
  the theorems rely on: every theorem carries the C's `n ≥ 1` where the C has it.
-/
import Mpir.Model.Kernels
namespace Mpir.Mem
open Mpir

/-- memory: address → limb.  A one-field structure rather than the bare function type so that a loop
    returning a `Memory` is compiled as a loop that returns a value (with the bare function type the
    compiler eta-expands `loop … : Nat → Nat` and re-runs the loop on every later load). -/
structure Memory where
  get : Nat → Nat

instance : CoeFun Memory (fun _ => Nat → Nat) := ⟨Memory.get⟩

/-- `*p = v` -/
def write (m : Memory) (p v : Nat) : Memory := ⟨fun a => if a = p then v else m a⟩

/-- the `n` words at `p, p+1, …` (least significant first, as the list-level model wants them) -/
def read (m : Memory) (p : Nat) : Nat → List Nat
  | 0 => []
  | n + 1 => m p :: read m (p + 1) n

/-- store a whole list at `p, p+1, …` (specification device: "the region holds this list afterwards") -/
def writeList (m : Memory) (p : Nat) : List Nat → Memory
  | [] => m
  | x :: xs => writeList (write m p x) (p + 1) xs

/-- a memory whose first words are the given buffer (0 elsewhere) -/
def ofList (l : List Nat) : Memory := ⟨fun a => l.getD a 0⟩
def ofArray (l : Array Nat) : Memory := ⟨fun a => l.getD a 0⟩

/-! ### The overlap predicates of gmp-impl.h (lines 2095–2118), verbatim -/

/-- `MPN_OVERLAP_P(xp, xsize, yp, ysize)`: `xp + xsize > yp && yp + ysize > xp` -/
def Overlap (xp xsize yp ysize : Nat) : Prop := xp + xsize > yp ∧ yp + ysize > xp
/-- `MPN_SAME_OR_SEPARATE2_P`: identical pointers or not overlapping -/
def SameOrSeparate2 (xp xsize yp ysize : Nat) : Prop := xp = yp ∨ ¬ Overlap xp xsize yp ysize
/-- `MPN_SAME_OR_SEPARATE_P(xp, yp, size)` -/
def SameOrSeparate (xp yp size : Nat) : Prop := SameOrSeparate2 xp size yp size
/-- `MPN_SAME_OR_INCR_P(dst, src, size)`: `dst <= src || ! MPN_OVERLAP_P (dst, size, src, size)` -/
def SameOrIncr (dst src size : Nat) : Prop := dst ≤ src ∨ ¬ Overlap dst size src size
/-- `MPN_SAME_OR_DECR_P(dst, src, size)`: `dst >= src || ! MPN_OVERLAP_P (dst, size, src, size)` -/
def SameOrDecr (dst src size : Nat) : Prop := dst ≥ src ∨ ¬ Overlap dst size src size

instance (a b c d : Nat) : Decidable (Overlap a b c d) := by unfold Overlap; infer_instance
instance (a b c d : Nat) : Decidable (SameOrSeparate2 a b c d) := by unfold SameOrSeparate2; infer_instance
instance (a b c : Nat) : Decidable (SameOrSeparate a b c) := by unfold SameOrSeparate; infer_instance
instance (a b c : Nat) : Decidable (SameOrIncr a b c) := by unfold SameOrIncr; infer_instance
instance (a b c : Nat) : Decidable (SameOrDecr a b c) := by unfold SameOrDecr; infer_instance

/-- C subtraction of limbs `a - b` (mod 2^64); equal to the list-level model's `(a + B - b) % B`
    (`wsub_eq`).  Written `B + a` because a term `a + B` inside a function recursive on a `Nat` counter
    sends Lean's equation compiler into unfolding the numeral 2^64 as a successor chain. -/
def wsub (a b : Nat) : Nat := (B + a - b) % B

/-! ### mpn_lshift (lshift.c) — works from the most significant limb downwards -/

/-- the `for (i = n - 1; i != 0; i--)` loop and the final store.  At counter `i` the C pointers are
    `up = up₀ + i` and `rp = rp₀ + i + 1` (before their pre-decrement). -/
def lshiftLoop (cnt rp up : Nat) : Nat → Memory → Nat → Memory
  | 0, m, high_limb => write m rp high_limb                          -- *--rp = high_limb;
  | i + 1, m, high_limb =>
      let low_limb := m (up + i)                                       -- low_limb = *--up;
      let m := write m (rp + (i + 1)) (high_limb ||| (low_limb >>> (64 - cnt)))   -- *--rp = high_limb | (low_limb >> tnc);
      lshiftLoop cnt rp up i m ((low_limb <<< cnt) % B)                -- high_limb = (low_limb << cnt) & GMP_NUMB_MASK;

def lshift (m : Memory) (rp up n cnt : Nat) : Memory × Nat :=
  let low_limb := m (up + (n - 1))             -- up += n; rp += n; low_limb = *--up;
  let retval := low_limb >>> (64 - cnt)        -- retval = low_limb >> tnc;
  let high_limb := (low_limb <<< cnt) % B      -- high_limb = (low_limb << cnt) & GMP_NUMB_MASK;
  (lshiftLoop cnt rp up (n - 1) m high_limb, retval)

/-! ### mpn_rshift (rshift.c) — works from the least significant limb upwards -/

def rshiftLoop (cnt : Nat) : Nat → Memory → Nat → Nat → Nat → Memory
  | 0, m, rp, _, low_limb => write m rp low_limb                       -- *rp = low_limb;
  | i + 1, m, rp, up, low_limb =>
      let high_limb := m up                                            -- high_limb = *up++;
      let m := write m rp (low_limb ||| ((high_limb <<< (64 - cnt)) % B))   -- *rp++ = low_limb | ((high_limb << tnc) & MASK);
      rshiftLoop cnt i m (rp + 1) (up + 1) (high_limb >>> cnt)         -- low_limb = high_limb >> cnt;

def rshift (m : Memory) (rp up n cnt : Nat) : Memory × Nat :=
  let high_limb := m up                              -- high_limb = *up++;
  let retval := (high_limb <<< (64 - cnt)) % B       -- retval = (high_limb << tnc) & GMP_NUMB_MASK;
  let low_limb := high_limb >>> cnt                  -- low_limb = high_limb >> cnt;
  (rshiftLoop cnt (n - 1) m rp (up + 1) low_limb, retval)

/-! ### mpn_copyi / mpn_copyd (copyi.c, copyd.c = MPN_COPY_INCR / MPN_COPY_DECR, gmp-impl.h:1578, 1614)
    software-pipelined: the next word is loaded *after* the previous one has been stored. -/

def copyiLoop : Nat → Memory → Nat → Nat → Nat → Memory
  | 0, m, dst, _, x => write m dst x                   -- *__dst++ = __x;   (after the loop)
  | k + 1, m, dst, src, x =>
      let m := write m dst x                           -- *__dst++ = __x;
      let x := m src                                   -- __x = *__src++;
      copyiLoop k m (dst + 1) (src + 1) x              -- while (--__n);

def copyi (m : Memory) (rp up n : Nat) : Memory :=
  if n ≠ 0 then                                        -- if ((n) != 0)
    copyiLoop (n - 1) m rp (up + 1) (m up)             -- __n = n - 1; __x = *__src++; if (__n != 0) do …
  else m

/-- `__dst = dst + k + 1`, `__src = src + k` at counter `k + 1` -/
def copydLoop (rp up : Nat) : Nat → Memory → Nat → Memory
  | 0, m, x => write m rp x                            -- *__dst-- = __x;   (after the loop)
  | k + 1, m, x =>
      let m := write m (rp + (k + 1)) x                -- *__dst-- = __x;
      let x := m (up + k)                              -- __x = *__src--;
      copydLoop rp up k m x

def copyd (m : Memory) (rp up n : Nat) : Memory :=
  if n ≠ 0 then
    copydLoop rp up (n - 1) m (m (up + (n - 1)))       -- __dst = dst + __n; __src = src + __n; __x = *__src--;
  else m

/-! ### mpn_add_n / mpn_sub_n (add_n.c, sub_n.c) -/

def addNLoop : Nat → Memory → Nat → Nat → Nat → Nat → Memory × Nat
  | 0, m, _, _, _, cy => (m, cy)
  | n + 1, m, rp, up, vp, cy =>
      let ul := m up                                   -- ul = *up++;
      let vl := m vp                                   -- vl = *vp++;
      let sl := (ul + vl) % B
      let cy1 := boolToNat (sl < ul)
      let rl := (sl + cy) % B
      let cy2 := boolToNat (rl < sl)
      addNLoop n (write m rp rl) (rp + 1) (up + 1) (vp + 1) (cy1 ||| cy2)   -- cy = cy1 | cy2; *rp++ = rl;

def add_n (m : Memory) (rp up vp n : Nat) : Memory × Nat := addNLoop n m rp up vp 0

def subNLoop : Nat → Memory → Nat → Nat → Nat → Nat → Memory × Nat
  | 0, m, _, _, _, cy => (m, cy)
  | n + 1, m, rp, up, vp, cy =>
      let ul := m up
      let vl := m vp
      let sl := wsub ul vl                              -- sl = ul - vl;
      let cy1 := boolToNat (sl > ul)
      let rl := wsub sl cy                              -- rl = sl - cy;
      let cy2 := boolToNat (rl > sl)
      subNLoop n (write m rp rl) (rp + 1) (up + 1) (vp + 1) (cy1 ||| cy2)

def sub_n (m : Memory) (rp up vp n : Nat) : Memory × Nat := subNLoop n m rp up vp 0

/-! ### mpn_mul_1 / mpn_addmul_1 / mpn_submul_1 (mul_1.c, addmul_1.c, submul_1.c) -/

def mul1Loop (vl : Nat) : Nat → Memory → Nat → Nat → Nat → Memory × Nat
  | 0, m, _, _, cl => (m, cl)
  | n + 1, m, rp, up, cl =>
      let ul := m up                                   -- ul = *up++;
      let (hpl, lpl0) := umul_ppmm ul vl               -- umul_ppmm (hpl, lpl, ul, vl);
      let lpl := (lpl0 + cl) % B                       -- lpl += cl;
      let cl' := (boolToNat (lpl < cl) + hpl) % B      -- cl = (lpl < cl) + hpl;
      mul1Loop vl n (write m rp lpl) (rp + 1) (up + 1) cl'   -- *rp++ = lpl;

def mul_1 (m : Memory) (rp up n vl : Nat) : Memory × Nat := mul1Loop vl n m rp up 0

def addmul1Loop (vl : Nat) : Nat → Memory → Nat → Nat → Nat → Memory × Nat
  | 0, m, _, _, cl => (m, cl)
  | n + 1, m, rp, up, cl =>
      let ul := m up
      let (hpl, lpl0) := umul_ppmm ul vl
      let lpl1 := (lpl0 + cl) % B
      let cl1 := (boolToNat (lpl1 < cl) + hpl) % B
      let rl := m rp                                   -- rl = *rp;
      let lpl := (rl + lpl1) % B                       -- lpl = rl + lpl;
      let cl2 := (cl1 + boolToNat (lpl < rl)) % B      -- cl += lpl < rl;
      addmul1Loop vl n (write m rp lpl) (rp + 1) (up + 1) cl2

def addmul_1 (m : Memory) (rp up n vl : Nat) : Memory × Nat := addmul1Loop vl n m rp up 0

def submul1Loop (vl : Nat) : Nat → Memory → Nat → Nat → Nat → Memory × Nat
  | 0, m, _, _, cl => (m, cl)
  | n + 1, m, rp, up, cl =>
      let ul := m up
      let (hpl, lpl0) := umul_ppmm ul vl
      let lpl1 := (lpl0 + cl) % B
      let cl1 := (boolToNat (lpl1 < cl) + hpl) % B
      let rl := m rp
      let lpl := wsub rl lpl1                          -- lpl = rl - lpl;
      let cl2 := (cl1 + boolToNat (lpl > rl)) % B      -- cl += lpl > rl;
      submul1Loop vl n (write m rp lpl) (rp + 1) (up + 1) cl2

def submul_1 (m : Memory) (rp up n vl : Nat) : Memory × Nat := submul1Loop vl n m rp up 0

/-! ### mpn_com_n (com_n.c) -/

def comNLoop : Nat → Memory → Nat → Nat → Memory
  | 0, m, _, _ => m
  | n + 1, m, rp, up =>
      let ul := m up                                   -- ul = *up++;
      comNLoop n (write m rp (B - 1 - ul)) (rp + 1) (up + 1)   -- *rp++ = ~ul & GMP_NUMB_MASK;

def com_n (m : Memory) (rp up n : Nat) : Memory := comNLoop n m rp up

/-! ### __GMPN_COPY_REST (mpir.h:2353): `for (j = start; j < size; j++) dst[j] = src[j];` -/

/-- first argument: `size - j` (iterations left) -/
def copyRestLoop (dst src : Nat) : Nat → Nat → Memory → Memory
  | 0, _, m => m
  | k + 1, j, m => copyRestLoop dst src k (j + 1) (write m (dst + j) (m (src + j)))

def copyRest (m : Memory) (dst src size start : Nat) : Memory := copyRestLoop dst src (size - start) start m

/-! ### mpn_add_1 / mpn_sub_1 (__GMPN_AORS_1, mpir.h:2228; CB = __GMPN_ADDCB `r < y` / __GMPN_SUBCB `x < y`) -/

/-- `for (__gmp_i = 1; __gmp_i < (n);)`, first argument `n - i` -/
def incrLoop (dst src n : Nat) : Nat → Nat → Memory → Memory × Nat
  | 0, _, m => (m, 1)                                  -- loop ends with (cout) = 1
  | k + 1, i, m =>
      let x := m (src + i)                             -- __gmp_x = (src)[__gmp_i];
      let r := (x + 1) % B                             -- __gmp_r = __gmp_x OP 1;
      let m := write m (dst + i) r                     -- (dst)[__gmp_i] = __gmp_r;  ++__gmp_i;
      if r < 1 then incrLoop dst src n k (i + 1) m     -- if (!CB (__gmp_r, __gmp_x, 1)) … else continue
      else ((if src ≠ dst then copyRest m dst src n (i + 1) else m), 0)   -- if ((src) != (dst)) __GMPN_COPY_REST (dst, src, n, __gmp_i); (cout) = 0; break;

def add_1 (m : Memory) (dst src n v : Nat) : Memory × Nat :=
  let x := m src                                       -- __gmp_x = (src)[0];
  let r := (x + v) % B                                 -- __gmp_r = __gmp_x OP (v);
  let m := write m dst r                               -- (dst)[0] = __gmp_r;
  if r < v then incrLoop dst src n (n - 1) 1 m         -- if (CB (__gmp_r, __gmp_x, (v))) { (cout) = 1; for … }
  else ((if src ≠ dst then copyRest m dst src n 1 else m), 0)   -- else { if ((src) != (dst)) __GMPN_COPY_REST (dst, src, n, 1); (cout) = 0; }

def decrLoop (dst src n : Nat) : Nat → Nat → Memory → Memory × Nat
  | 0, _, m => (m, 1)
  | k + 1, i, m =>
      let x := m (src + i)
      let r := wsub x 1
      let m := write m (dst + i) r
      if x < 1 then decrLoop dst src n k (i + 1) m
      else ((if src ≠ dst then copyRest m dst src n (i + 1) else m), 0)

def sub_1 (m : Memory) (dst src n v : Nat) : Memory × Nat :=
  let x := m src
  let r := wsub x v
  let m := write m dst r
  if x < v then decrLoop dst src n (n - 1) 1 m
  else ((if src ≠ dst then copyRest m dst src n 1 else m), 0)

/-! ### mpn_add / mpn_sub (__GMPN_AORS with __GMPN_ADD / __GMPN_SUB, mpir.h:2161)
    `do { if (i >= xsize) { cout = 1; goto done; } x = xp[i]; } while (TEST);` then
    `if (wp != xp) __GMPN_COPY_REST (wp, xp, xsize, i); cout = 0;` — the tail shared with the
    no-carry path is written out at the loop exit. -/

/-- first argument `xsize - i`; TEST = `((wp)[__gmp_i++] = (__gmp_x + 1) & GMP_NUMB_MASK) == 0` -/
def addTestLoop (wp xp xsize : Nat) : Nat → Nat → Memory → Memory × Nat
  | 0, _, m => (m, 1)                                  -- if (__gmp_i >= (xsize)) { (cout) = 1; goto __gmp_done; }
  | k + 1, i, m =>
      let x := m (xp + i)                              -- __gmp_x = (xp)[__gmp_i];
      let m := write m (wp + i) ((x + 1) % B)          -- (wp)[__gmp_i++] = (__gmp_x + 1) & GMP_NUMB_MASK
      if (x + 1) % B = 0 then addTestLoop wp xp xsize k (i + 1) m
      else ((if wp ≠ xp then copyRest m wp xp xsize (i + 1) else m), 0)

def add (m : Memory) (wp xp xsize yp ysize : Nat) : Memory × Nat :=
  if ysize ≠ 0 then                                    -- __gmp_i = (ysize); if (__gmp_i != 0)
    let (m1, c) := add_n m wp xp yp ysize              -- if (FUNCTION (wp, xp, yp, __gmp_i))
    if c ≠ 0 then addTestLoop wp xp xsize (xsize - ysize) ysize m1
    else ((if wp ≠ xp then copyRest m1 wp xp xsize ysize else m1), 0)
  else ((if wp ≠ xp then copyRest m wp xp xsize 0 else m), 0)

/-- TEST = `((wp)[__gmp_i++] = (__gmp_x - 1) & GMP_NUMB_MASK), __gmp_x == 0` -/
def subTestLoop (wp xp xsize : Nat) : Nat → Nat → Memory → Memory × Nat
  | 0, _, m => (m, 1)
  | k + 1, i, m =>
      let x := m (xp + i)
      let m := write m (wp + i) (wsub x 1)
      if x = 0 then subTestLoop wp xp xsize k (i + 1) m
      else ((if wp ≠ xp then copyRest m wp xp xsize (i + 1) else m), 0)

def sub (m : Memory) (wp xp xsize yp ysize : Nat) : Memory × Nat :=
  if ysize ≠ 0 then
    let (m1, c) := sub_n m wp xp yp ysize
    if c ≠ 0 then subTestLoop wp xp xsize (xsize - ysize) ysize m1
    else ((if wp ≠ xp then copyRest m1 wp xp xsize ysize else m1), 0)
  else ((if wp ≠ xp then copyRest m wp xp xsize 0 else m), 0)

/-! ### mpn_neg_n (mpir.h:2460) -/

def negNLoop : Nat → Memory → Nat → Nat → Memory × Nat
  | 0, m, _, _ => (m, 0)                               -- outside the C domain (n ≥ 1)
  | n + 1, m, rp, up =>
      if m up = 0 then                                 -- while (*__gmp_up == 0)
        let m := write m rp 0                          -- *__gmp_rp = 0;
        if n = 0 then (m, 0)                           -- if (!--__gmp_n) return 0;
        else negNLoop n m (rp + 1) (up + 1)               -- ++__gmp_up; ++__gmp_rp;
      else
        let m := write m rp ((B - m up) % B)           -- *__gmp_rp = (- *(mp_limb_signed_t*)__gmp_up) & GMP_NUMB_MASK;
        ((if n ≠ 0 then com_n m (rp + 1) (up + 1) n else m), 1)   -- if (--__gmp_n) mpn_com (++__gmp_rp, ++__gmp_up, __gmp_n); return 1;

def neg_n (m : Memory) (rp up n : Nat) : Memory × Nat := negNLoop n m rp up

end Mpir.Mem
