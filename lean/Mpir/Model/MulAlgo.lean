/-
  Layer V: value-level models of the multiplication ALGORITHMS of MPIR — Karatsuba, Toom-3 (balanced and
  unbalanced), Toom-4.2, Toom-3.2, Toom-4 (balanced and unbalanced), Toom-5.3 — as "the sequence of integer
  operations the C performs".  Operands are (value : Nat, limb count); splitting is at limb boundaries
  (`B^k`); evaluation sums, signs, pointwise products and the exact interpolation SEQUENCE (each
  subtraction, shift and exact division, in the C's order) are mirrored; sub-results are unbounded
  integers.  Limb-level carry/buffer bookkeeping is NOT modelled (DESIGN 4, C01 "modelled, not verified").

  Recursive calls are made through a parameter `mul : Nat → Nat → Nat` (the callee, replaced by its
  specification in the theorems: `∀ x y, mul x y = x * y`).  Karatsuba models its own recursion.

  Core Lean only.  Sources: /repo/mpn/generic/{mul_n.c, toom3_mul_n.c, toom3_mul.c, toom4_mul_n.c, toom4_mul.c}.
-/
import Mpir.Base
namespace Mpir.MulAlgo

/-- sign of `a - b` as mpn_cmp reports it: 1, 0, -1 -/
def cmpS (a b : Nat) : Int := if a > b then 1 else if a < b then -1 else 0

/-- |a - b| -/
def absDiff (a b : Nat) : Nat := if a ≥ b then a - b else b - a

/-! ### Karatsuba — mul_n.c:143-223 (mpn_kara_mul_n) with mpn_karasub :93-120 / mpn_karaadd :125-139 -/

/-- `mpn_kara_mul_n (rp, xp, yp, n, tp)`, recursion threshold `T = MUL_KARATSUBA_THRESHOLD`.
    `none` = outside the C's domain (n < 2: the C would call mpn_mul_basecase with size 0). -/
def kara_mul_n (T : Nat) (x y n : Nat) : Option Nat :=
  if _h : n < 2 then none else
  let n2 := n / 2                                   -- :151  n2 = n>>1
  let n3 := n - n2                                  -- :157
  let xl := x % B ^ n2; let xh := x / B ^ n2        -- :153-154  xl = xp, xh = xp + n2  (xh has n3 limbs)
  let yl := y % B ^ n2; let yh := y / B ^ n2        -- :155-156
  -- :161-204  dx = |xh - xl|, dy = |yh - yl|; suboradd starts at -1 and is negated for each xl > xh / yl > yh.
  -- (odd n: `xh[n2] != 0 || mpn_cmp(xh, xl, n2) >= 0` is exactly xh ≥ xl)
  let dx := absDiff xh xl
  let dy := absDiff yh yl
  let suboradd : Int := (if xh ≥ xl then 1 else -1) * (if yh ≥ yl then 1 else -1) * (-1)
  -- :206-217  three products, by mpn_mul_basecase below the threshold, else recursively
  let sub (a b m : Nat) : Option Nat :=
    if n3 < T then some (a * b)                     -- mpn_mul_basecase (spec: mul_basecase_val)
    else if _hm : m < n then kara_mul_n T a b m else none
  match sub xl yl n2, sub dx dy n3, sub xh yh n3 with
  | some p0, some t, some p2 =>
    -- :219-222  karasub: rp = p0 + B^(2 n2) p2 + B^n2 (p0 + p2 - t);  karaadd: ... + t
    if suboradd = -1 then some (p0 + B ^ (2 * n2) * p2 + B ^ n2 * (p0 + p2 - t))
    else some (p0 + B ^ (2 * n2) * p2 + B ^ n2 * (p0 + p2 + t))
  | _, _, _ => none
termination_by n
decreasing_by all_goals omega

/-! ### Five-point interpolation — toom3_mul.c:69-187 (mpn_toom3_interpolate) -/

/-- Result of an interpolation: the coefficients and the log of exact divisions (dividend, divisor)
    and of logical right shifts (value that must be non-negative, shift count). -/
structure Interp where
  coeffs : List Int
  divs : List (Int × Int)
  shifts : List (Int × Nat)
  deriving Repr, DecidableEq

/-- `mpn_toom3_interpolate (c, v1, v2, vm1, vinf, k, rr2, sa, vinf0, ws)`: `vm1` is the magnitude
    |p(-1)|, `sa` its sign (only `sa < 0` is tested).  Returns c0..c4. -/
def toom3Interp (v0 v1 v2 vm1 vinf : Int) (sa : Int) : Interp :=
  let v2a := if sa < 0 then v2 + vm1 else v2 - vm1          -- :95-101  v2 <- v2 - vm1
  let v2b := v2a / 3                                        -- :103     v2 <- v2 / 3 (mpn_divexact_by3)
  let t2 := if sa < 0 then vm1 + v1 else v1 - vm1           -- :107-124 vm1 <- (v1 - sa*vm1)
  let vm1a := t2 / 2                                        --          ... / 2 (mpn_half)
  let v1a := v1 - v0 - vinf                                 -- :128-142 v1 <- v1 - v0 - vinf
  let v2c := v2b - 5 * vinf                                 -- :148     v2 <- v2 - 5*vinf
  let v2d := (v2c - v1a) / 2                                -- :157-158 v2 <- (v2 - v1)/2
  let v1b := v1a - vm1a                                     -- :163     v1 <- v1 - vm1
  let vm1b := vm1a - v2d                                    -- :169     vm1 <- vm1 - v2
  -- :170-184: vm1 is added at c+k, v1 sits at c+2k, v2 is added at c+3k, vinf sits at c+4k
  ⟨[v0, vm1b, v1b, v2d, vinf], [(v2a, 3), (t2, 2), (v2c - v1a, 2)], []⟩

/-- value of coefficient list at `t` -/
def evalAt (t : Int) : List Int → Int
  | [] => 0
  | c :: cs => c + t * evalAt t cs

def recompose (k : Nat) (r : Interp) : Nat := (evalAt ((B : Int) ^ k) r.coeffs).toNat

/-! ### Toom-3 — toom3_mul_n.c:79-251 (balanced), toom3_mul.c:244-414 (unbalanced) -/

/-- `mpn_toom3_mul (c, a, an, b, bn, t)` (C domain: an ≥ 20, bn > 2k, an ≥ bn);
    `mpn_toom3_mul_n (c, a, b, n, t)` is the case an = bn = n (C domain: n ≥ 17). -/
def toom3_mul (mul : Nat → Nat → Nat) (a an b _bn : Nat) : Nat :=
  let k := (an + 2) / 3                                     -- toom3_mul.c:255 / toom3_mul_n.c:90
  let t := B ^ k
  let a0 := a % t; let a1 := a / t % t; let a2 := a / t ^ 2     -- a2: r = an - 2k limbs
  let b0 := b % t; let b1 := b / t % t; let b2 := b / t ^ 2     -- b2: r2 = bn - 2k limbs
  let sa02 := a0 + a2; let sb02 := b0 + b2                  -- :281-290   a0+a2, b0+b2
  let v1 := mul (sa02 + a1) (sb02 + b1)                     -- :291-296   (a0+a1+a2)*(b0+b1+b2)
  let sa := cmpS sa02 a1                                    -- :305  sa = (t[k] != 0) ? 1 : mpn_cmp (t, a + k, k)
  let sb := cmpS sb02 b1                                    -- :309
  let da := if sa ≥ 0 then sa02 - a1 else a1 - sa02         -- :306-307  |a0-a1+a2|
  let db := if sb ≥ 0 then sb02 - b1 else b1 - sb02         -- :310-311
  let s := sa * sb                                          -- :312  sa *= sb
  let vm1 := mul da db                                      -- :316
  let ea := (2 * a2 + a1) * 2 + a0                          -- :344-359  a0+2a1+4a2 as ((2 a2 + a1)*2 + a0)
  let eb := (2 * b2 + b1) * 2 + b0
  let v2 := mul ea eb                                       -- :366
  let v0 := mul a0 b0                                       -- :379
  let vinf := mul a2 b2                                     -- :394-396 (TOOM3_MUL_REC if r == r2, else mpn_mul)
  recompose k (toom3Interp v0 v1 v2 vm1 vinf s)             -- :410

def toom3_mul_n (mul : Nat → Nat → Nat) (a b n : Nat) : Nat := toom3_mul mul a n b n

/-! ### Toom-4.2 — toom3_mul.c:416-608 -/

/-- `mpn_toom42_mul (c, a, an, b, bn, t)`; C domain: an ≥ 20, k < bn ≤ 2k with k = ceil(an/4). -/
def toom42_mul (mul : Nat → Nat → Nat) (a an b _bn : Nat) : Nat :=
  let k := (an + 3) / 4                                     -- :428
  let t := B ^ k
  let a0 := a % t; let a1 := a / t % t; let a2 := a / t ^ 2 % t; let a3 := a / t ^ 3   -- a3: r = an - 3k limbs
  let b0 := b % t; let b1 := b / t                          -- b1: r2 = bn - k limbs
  let e := a0 + a2                                          -- :456
  let o := a1 + a3                                          -- :458-460
  let sb01 := b0 + b1                                       -- :464-466
  let v1 := mul (e + o) sb01                                -- :462, :470   (a0+a1+a2+a3)*(b0+b1)
  let sa := cmpS e o                                        -- :481
  let da := if sa ≥ 0 then e - o else o - e                 -- :482-483
  let sb := cmpS b0 b1                                      -- :485-490 (normalised sizes, then mpn_cmp)
  let db := if sb ≥ 0 then b0 - b1 else b1 - b0             -- :492-500
  let s := sa * sb                                          -- :501
  let vm1 := mul da db                                      -- :505
  let ea := ((2 * a3 + a2) * 2 + a1) * 2 + a0               -- :536-545  a0+2a1+4a2+8a3
  let eb := 2 * b1 + b0                                     -- :547-552
  let v2 := mul ea eb                                       -- :559
  let v0 := mul a0 b0                                       -- :573
  let vinf := mul a3 b1                                     -- :588-590
  recompose k (toom3Interp v0 v1 v2 vm1 vinf s)             -- :604

/-! ### Toom-3.2 — toom3_mul.c:617-812 (four points 0, inf, -1, 1; interpolation inline) -/

def toom32Interp (v0 v1 vm1 vinf : Int) (sa : Int) : Interp :=
  let t1 := if sa > 0 then vm1 + v1 else v1 - vm1           -- :728-744  vm1 <- (v1 + sa*vm1)
  let vm1a := t1 / 2                                        --           ... / 2
  let v1a := v1 - vm1a                                      -- :748  v1 <- v1 - vm1
  -- :761-774 vm1 added at c+2k; :778-786 vinf computed and added at c+3k
  let v1b := v1a - vinf                                     -- :790-791  v1 <- v1 - vinf
  -- :795-801 v0 copied/added at c
  let vm1b := vm1a - v0                                     -- :805-811  vm1 <- vm1 - v0
  ⟨[v0, v1b, vm1b, vinf], [(t1, 2)], []⟩

/-- `mpn_toom32_mul (c, a, an, b, bn, t)`; C domain: an ≥ 20, k < bn ≤ 2k with k = ceil(an/3). -/
def toom32_mul (mul : Nat → Nat → Nat) (a an b _bn : Nat) : Nat :=
  let k := (an + 2) / 3                                     -- :629
  let t := B ^ k
  let a0 := a % t; let a1 := a / t % t; let a2 := a / t ^ 2     -- a2: r = an - 2k limbs
  let b0 := b % t; let b1 := b / t                          -- b1: r2 = bn - k limbs
  let sa02 := a0 + a2                                       -- :657-662
  let v1 := mul (sa02 + a1) (b0 + b1)                       -- :658-671
  let sa := cmpS sa02 a1                                    -- :682
  let da := if sa ≥ 0 then sa02 - a1 else a1 - sa02         -- :683-684
  let sb := cmpS b0 b1                                      -- :686-691
  let db := if sb ≥ 0 then b0 - b1 else b1 - b0             -- :693-701
  let s := sa * sb                                          -- :703
  let vm1 := mul db da                                      -- :707
  let vinf := mul a2 b1                                     -- :778-780
  let v0 := mul a0 b0                                       -- :795
  recompose k (toom32Interp v0 v1 vm1 vinf s)

/-! ### Seven-point interpolation — toom4_mul_n.c:852-976 (mpn_toom4_interpolate) -/

/-- Inputs: r1 = p(oo), r2 = p(2), r3 = p(1), r4 = |p(-1)|, r5 = 2^6 p(1/2), r6 = |2^6 p(-1/2)|, r7 = p(0);
    `n4neg`/`n6neg` = (n4 < 0)/(n6 < 0).  Returns c0..c6. -/
def toom4Interp (r1 r2 r3 r4 r5 r6 r7 : Int) (n4neg n6neg : Bool) : Interp :=
  let r2 := r2 + r5                                         -- :860
  let r6 := if n6neg then r5 + r6 else r5 - r6              -- :862-865
  let r4 := if n4neg then r3 + r4 else r3 - r4              -- :870-873
  let r5 := r5 - r1                                         -- :877
  let r5 := r5 - 64 * r7                                    -- :882  (r7 has s4-1 limbs, borrow into the top limb)
  let d1 := r4
  let r4 := r4 / 2                                          -- :885  TC4_RSHIFT1 (arithmetic shift)
  let r3 := r3 - r4                                         -- :889
  let r5 := 2 * r5                                          -- :893
  let r5 := r5 - r6                                         -- :895
  let r2 := r2 - 65 * r3                                    -- :899
  let r3 := r3 - r7 - r1                                    -- :909-910
  let r2 := r2 + 45 * r3                                    -- :915
  let r5 := r5 - 8 * r3                                     -- :920-923 (top limb fixed up through r3[0])
  let d2 := r5
  let r5 := r5 / 8                                          -- :925  mpn_rshift by 3 (logical)
  let d3 := r5
  let r5 := r5 / 3                                          -- :927
  let r6 := r6 - r2                                         -- :929
  let r2 := r2 - 16 * r4                                    -- :934
  let d4 := r2
  let r2 := r2 / 2                                          -- :937  mpn_rshift by 1 (logical)
  let d5 := r2
  let r2 := r2 / 3                                          -- :939
  let d6 := r2
  let r2 := r2 / 3                                          -- :941
  let r3 := r3 - r5                                         -- :945-948
  let r4 := r4 - r2                                         -- :950
  let r6 := r6 + 30 * r2                                    -- :952
  let d7 := r6
  let r6 := r6 / 15                                         -- :954  mpn_divexact_byfobm1 (15)
  let d8 := r6
  let r6 := r6 / 4                                          -- :956  mpn_rshift by 2 (logical)
  let r2 := r2 - r6                                         -- :958
  -- :963-975  rp = r7 + r6 x + r5 x^2 + r4 x^3 + r3 x^4 + r2 x^5 + r1 x^6,  x = B^sn
  ⟨[r7, r6, r5, r4, r3, r2, r1],
   [(d1, 2), (d2, 8), (d3, 3), (d4, 2), (d5, 3), (d6, 3), (d7, 15), (d8, 4)],
   [(d2, 3), (d4, 1), (d8, 2)]⟩

/-! ### Toom-4 — toom4_mul.c:128-306 (unbalanced) / toom4_mul_n.c:560-735 (balanced, h2 = h1) -/

/-- `mpn_toom4_mul (rp, up, un, vp, vn)`; C domain: vn > 3*sn, sn = ceil(un/4), un ≥ vn. -/
def toom4_mul (mul : Nat → Nat → Nat) (a un b _vn : Nat) : Nat :=
  let sn := (un + 3) / 4                                    -- :138
  let t := B ^ sn
  let a0 := a % t; let a1 := a / t % t; let a2 := a / t ^ 2 % t; let a3 := a / t ^ 3   -- a3: h1 limbs
  let b0 := b % t; let b1 := b / t % t; let b2 := b / t ^ 2 % t; let b3 := b / t ^ 3   -- b3: h2 limbs
  let ao := a1 + a3; let ae := a2 + a0                      -- :166-167
  let u3 := ae + ao                                         -- :168
  let u4 := absDiff ae ao; let s4 := decide (ae < ao)       -- :169-176  n4 = -n4 when u5 < u6
  let bo := b1 + b3; let be := b2 + b0                      -- :178-179
  let w2 := be + bo                                         -- :180
  let u5 := absDiff be bo; let s5 := decide (be < bo)       -- :181-188
  let r3 := mul u3 w2                                       -- :190  p(1)
  let r4 := mul u4 u5                                       -- :191  |p(-1)|, sign n4 ^ n5
  let n4neg := (s4 != s5) && r4 != 0
  let ah := 2 * a2 + 8 * a0; let al := a3 + 4 * a1          -- :198-208   r1 = 2a2+8a0, r2 = a3+4a1
  let u5' := ah + al                                        -- :209
  let u6 := absDiff ah al; let s6 := decide (ah < al)       -- :210-217
  let bh := 2 * b2 + 8 * b0; let bl := b3 + 4 * b1          -- :224-234
  let u2 := bh + bl                                         -- :235
  let w8 := absDiff bh bl; let s8 := decide (bh < bl)       -- :236-243
  let r5 := mul u5' u2                                      -- :247  2^6 p(1/2)
  let r6 := mul u6 w8                                       -- :248  |2^6 p(-1/2)|
  let n6neg := (s6 != s8) && r6 != 0
  let e2a := a0 + 2 * a1 + 4 * a2 + 8 * a3                  -- :259-264
  let e2b := b0 + 2 * b1 + 4 * b2 + 8 * b3                  -- :275-280
  let r2 := mul e2a e2b                                     -- :283  p(2)
  let r1 := mul a3 b3                                       -- :285  p(oo)
  let r7 := mul a0 b0                                       -- :286  p(0)
  recompose sn (toom4Interp r1 r2 r3 r4 r5 r6 r7 n4neg n6neg)   -- :298

def toom4_mul_n (mul : Nat → Nat → Nat) (a b n : Nat) : Nat := toom4_mul mul a n b n

/-! ### Toom-5.3 — toom4_mul.c:314-435 -/

/-- `mpn_toom53_mul (rp, up, un, vp, vn)`; C domain: 2*sn < vn ≤ 3*sn, sn = ceil(un/5). -/
def toom53_mul (mul : Nat → Nat → Nat) (a un b _vn : Nat) : Nat :=
  let sn := (un + 4) / 5                                    -- :324
  let t := B ^ sn
  let a0 := a % t; let a1 := a / t % t; let a2 := a / t ^ 2 % t; let a3 := a / t ^ 3 % t; let a4 := a / t ^ 4
  let b0 := b % t; let b1 := b / t % t; let b2 := b / t ^ 2
  let ao := a3 + a1                                         -- :355
  let ae := a2 + a0 + a4                                    -- :356-357
  let u3 := ae + ao                                         -- :358
  let u4 := absDiff ae ao; let s4 := decide (ae < ao)       -- :359  tc4_sub
  let be := b2 + b0                                         -- :361
  let w8 := be + b1                                         -- :362
  let u5 := absDiff be b1; let s5 := decide (be < b1)       -- :363
  let r3 := mul u3 w8                                       -- :365  p(1)
  let r4 := mul u4 u5                                       -- :366  |p(-1)|
  let n4neg := (s4 != s5) && r4 != 0
  let ah := 16 * a0 + 4 * a2 + a4                           -- :368-371
  let al := 8 * a1 + 2 * a3                                 -- :372-373
  let u5' := ah + al                                        -- :374
  let u3' := absDiff ah al; let s9 := decide (ah < al)      -- :375
  let bh := 4 * b0 + b2                                     -- :377-378
  let bl := 2 * b1                                          -- :379
  let u2 := bh + bl                                         -- :380
  let w8' := absDiff bh bl; let s8 := decide (bh < bl)      -- :381
  let r5 := mul u5' u2                                      -- :386  2^6 p(1/2)
  let r6 := mul u3' w8'                                     -- :387
  let n6neg := (s9 != s8) && r6 != 0
  let e2a := 16 * a4 + 8 * a3 + 4 * a2 + 2 * a1 + a0        -- :390-394
  let e2b := 4 * b2 + 2 * b1 + b0                           -- :396-398
  let r2 := mul e2a e2b                                     -- :400
  let r1 := mul a4 b2                                       -- :402
  let r7 := mul a0 b0                                       -- :403
  recompose sn (toom4Interp r1 r2 r3 r4 r5 r6 r7 n4neg n6neg)   -- :427

end Mpir.MulAlgo
