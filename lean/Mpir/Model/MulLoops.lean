/-
  The two COMBINING loops of mpn_mul (/repo/mpn/generic/mul.c) at limb-window level, and a model of the whole of
  mpn_mul on top of them.  Core Lean only.

  (A) mul.c:108-137  long-by-short schoolbook (vn < MUL_KARATSUBA_THRESHOLD, un > MUL_BASECASE_MAX_UN):
      u is cut into chunks of MUL_BASECASE_MAX_UN limbs; every chunk product is written by mpn_mul_basecase over
      the top vn limbs of the previous one, which were saved in tp[] and are added back
      (`mpn_add_n` on vn limbs, `mpn_incr_u (prodp + vn, cy)` — the two lines commented `/* safe? */`).
      Limb level throughout: `mul_basecase`, `add_n`, `add_1`/`incr` of Mpir/Model/Kernels.lean.  mpn_incr_u has no
      length: it runs until the carry dies.  The model gives it exactly the limbs of the chunk product above vn and
      answers `none` if the carry leaves them (that is the "safe?" question).
  (B) mul.c:210-277  very unbalanced operands: mpn_mul_n on vn-limb pieces of u, each product added into a sliding
      window of the result (`l` live limbs at prodp, pending carry `t` at prodp + l), operands swapped when the
      rest of u is shorter than v, last piece by mpn_mul_basecase.  The accumulation (mpn_add_n / mpn_add_1, the
      bookkeeping of `l` and `t`) is at limb level; the callee mpn_mul_n is a parameter `mulN` (an oracle that may
      refuse, `none`).
  (C) `mpnMulModel`: mpn_mul as selected by the GENERATED call skeleton (Mpir/Gen/MulDispatch.lean): single calls
      by their value-level models (`callValue`), the two loops by (A) and (B).
-/
import Mpir.Model.Kernels
import Mpir.Model.MulDispatch
namespace Mpir.MulLoops
open Mpir Mpir.Skel Mpir.Gen Mpir.MulDispatch

/-! ## (A) chunk loop, mul.c:108-137 -/

/-- "add back preserved triangle", mul.c:120-121 and :136-137, on the freshly written product `p`:
      cy = mpn_add_n (prodp, prodp, tp, vn);
      mpn_incr_u (prodp + vn, cy);          /* safe? */
    mpn_incr_u (gmp-impl.h:2507, non-constant increment): `x = *p + incr; *p = x; if (x < incr) while (++(*(++p)) == 0);`
    which is `add_1` of Kernels.lean without a length.  The limbs it may touch are those of `p` above vn; `none` =
    there is no such limb, or the carry runs past the last limb of the product (out-of-bounds write in the C). -/
def addBack (p tp : List Nat) : Option (List Nat) :=
  let vn := tp.length
  if p.length ≤ vn then none else
  let a := add_n (p.take vn) tp            -- :120 / :136
  let i := add_1 (p.drop vn) a.2           -- :121 / :137
  if i.2 != 0 then none else some (a.1 ++ i.1)

/-- State between two chunks. -/
structure ChunkSt where
  /-- limbs of the result below the current `prodp` (never touched again) -/
  done : List Nat
  /-- the saved high triangle `tp[0..vn)` (mul.c:114, :123) -/
  tp : List Nat
  /-- the rest of u, from the current `up` -/
  up : List Nat
  deriving Repr

/-- mul.c:112-116: first chunk, `prodp += M`, `MPN_COPY (tp, prodp, vn)`, `up += M`, `un -= M`. -/
def chunkInit (M : Nat) (up vp : List Nat) : ChunkSt :=
  let p := mul_basecase (up.take M) vp                      -- :112
  ⟨p.take M, (p.drop M).take vp.length, up.drop M⟩          -- :113-116

/-- mul.c:119-125: one iteration of `while (un > MUL_BASECASE_MAX_UN)`. -/
def chunkIter (M : Nat) (vp : List Nat) (s : ChunkSt) : Option ChunkSt :=
  let p := mul_basecase (s.up.take M) vp                    -- :119
  match addBack p s.tp with                                 -- :120-121
  | none => none
  | some p' => some ⟨s.done ++ p'.take M, (p'.drop M).take vp.length, s.up.drop M⟩   -- :122-125

/-- mul.c:127-137: the last piece (un ≤ MUL_BASECASE_MAX_UN limbs), operands in the order mpn_mul_basecase wants. -/
def chunkFinal (vp : List Nat) (s : ChunkSt) : Option (List Nat) :=
  if s.up.length > vp.length then                           -- :127
    (addBack (mul_basecase s.up vp) s.tp).map (s.done ++ ·) -- :129, :136-137
  else if s.up.length = 0 then none                         -- :133 ASSERT_ALWAYS (un > 0)
  else (addBack (mul_basecase vp s.up) s.tp).map (s.done ++ ·)   -- :134, :136-137

/-- mul.c:117-137, one unit of fuel per iteration. -/
def chunkLoop (M : Nat) (vp : List Nat) : Nat → ChunkSt → Option (List Nat)
  | 0, _ => none
  | fuel + 1, s =>
    if s.up.length > M then                                 -- :117
      match chunkIter M vp s with
      | none => none
      | some s' => chunkLoop M vp fuel s'
    else chunkFinal vp s

/-- The `else` branch of mul.c:80 (M = MUL_BASECASE_MAX_UN): all limbs of the product, or `none` if an
    mpn_incr_u leaves its chunk product.  Entered only for un > M (:80) and vn ≥ 1 (:60). -/
def mulChunked (M : Nat) (up vp : List Nat) : Option (List Nat) :=
  if up.length ≤ M ∨ vp.length = 0 then none
  else chunkLoop M vp up.length (chunkInit M up vp)

/-! ## (B) slide loop, mul.c:210-277 -/

/-- mul.c:235-248 (m = 2·vn) and :263-273 (m = un + vn): add the product `ws` (m limbs) into the window `w`
    (the l live limbs at prodp); `t` is the carry pending at prodp + l.  Returns the new window and the new `t`.
    `t` is an mp_limb_t: `t += …` is modulo B. -/
def accum (w ws : List Nat) (t : Nat) : List Nat × Nat :=
  let l := w.length
  if l ≤ ws.length then                                    -- :235 / :263
    let a := add_n w (ws.take l)                           -- :237 / :265   t += mpn_add_n (prodp, prodp, ws, l)
    let t1 := (t + a.2) % B
    if l ≠ ws.length then                                  -- :238 / :266
      let h := add_1 (ws.drop l) t1                        -- :240 / :267   t = mpn_add_1 (prodp + l, ws + l, m - l, t); (l = m)
      (a.1 ++ h.1, h.2)
    else (a.1, t1)
  else
    let m := ws.length
    let a := add_n (w.take m) ws                           -- :246 / :271   c = mpn_add_n (prodp, prodp, ws, m)
    let h := add_1 (w.drop m) a.2                          -- :247 / :272   t += mpn_add_1 (prodp + m, prodp + m, l - m, c)
    (a.1 ++ h.1, (t + h.2) % B)

/-- mul.c:232-277.  `done` = limbs below prodp, `w` = the l live limbs at prodp, `t`, and the current (up, un), (vp, vn)
    as lists.  `kt` = MUL_KARATSUBA_THRESHOLD, `mulN` = mpn_mul_n.  One unit of fuel per iteration. -/
def slideLoop (kt : Nat) (mulN : List Nat → List Nat → Option (List Nat)) :
    Nat → List Nat → List Nat → Nat → List Nat → List Nat → Option (List Nat)
  | 0, _, _, _, _, _ => none
  | fuel + 1, done, w, t, up, vp =>
    let vn := vp.length
    if vn ≥ kt then                                        -- :232
      match mulN (up.take vn) vp with                      -- :234   mpn_mul_n (ws, up, vp, vn)
      | none => none
      | some ws =>
        let r := accum w ws t                              -- :235-248
        let done' := done ++ r.1.take vn                   -- :249   prodp += vn
        let w' := r.1.drop vn                              -- :250   l -= vn
        let up' := up.drop vn                              -- :251-252
        if up'.length < vn then slideLoop kt mulN fuel done' w' r.2 vp up'    -- :253-257  MPN_SRCPTR_SWAP
        else slideLoop kt mulN fuel done' w' r.2 up' vp
    else if vn ≠ 0 then                                    -- :260
      let r := accum w (mul_basecase up vp) t              -- :262-273   (the final `t` is dropped, :276)
      some (done ++ r.1)
    else some (done ++ w)

/-- mul.c:210-277 (after all the Toom tests failed): `mpn_mul_n (prodp, up, vp, vn)` then the slide loop.
    Reached with un > vn ≥ MUL_KARATSUBA_THRESHOLD only (:59-60, :64, :78). -/
def mulSlide (kt : Nat) (mulN : List Nat → List Nat → Option (List Nat)) (up vp : List Nat) : Option (List Nat) :=
  let vn := vp.length
  if vn = 0 ∨ up.length ≤ vn ∨ vn < kt then none else
  match mulN (up.take vn) vp with                          -- :210
  | none => none
  | some p =>
    -- :212 un != vn holds; :218-221 prodp += vn; l = vn; up += vn; un -= vn; :231 t = 0
    let up' := up.drop vn
    if up'.length < vn then slideLoop kt mulN (up.length + 1) (p.take vn) (p.drop vn) 0 vp up'   -- :223-227
    else slideLoop kt mulN (up.length + 1) (p.take vn) (p.drop vn) 0 up' vp

/-! ## (C) mpn_mul, mpn_mul_n through the generated skeletons -/

/-- the calls of the skeletons for which `callValue` has a value-level model (Mpir/Model/MulAlgo.lean) -/
def modelled1 (e : Ev) : Bool :=
  match sizeArgs e with
  | [_] => e.name = "mpn_kara_mul_n" || e.name = "mpn_toom3_mul_n" || e.name = "mpn_toom4_mul_n"
  | [_, _] => e.name = "mpn_toom3_mul" || e.name = "mpn_toom42_mul" || e.name = "mpn_toom32_mul"
      || e.name = "mpn_toom4_mul" || e.name = "mpn_toom53_mul"
  | _ => false

/-- mpn_mul_n (rp, a, b, n) for distinct a, b, as selected by the generated skeleton of mul_n.c:282-330:
    mpn_mul_basecase at limb level, Karatsuba / Toom-3 / Toom-4 by their value-level models (the 2n limbs of the
    value); `none`: toom8h, FFT (no model). -/
def mulNModel (P : Params) (a b : List Nat) : Option (List Nat) :=
  match products (runMulN P a.length) with
  | [e] =>
    if e.name = "mpn_mul_basecase" then some (mul_basecase a b)
    else (callValue P e (val a) (val b)).map (toLimbs (2 * a.length))
  | _ => none

/-- mpn_mul (prodp, up, un, vp, vn) for up ≠ vp, as selected by the generated skeleton of mul.c:52-280.
    `none`: outside the asserted domain (:59-60), or a callee without a model is reached (toom8h :157, FFT :145,
    or one of them inside mpn_mul_n). -/
def mpnMulModel (P : Params) (u v : List Nat) : Option (List Nat) :=
  let un := u.length; let vn := v.length
  if vn = 0 ∨ un < vn then none else                       -- :59-60
  match products (runMul P false un vn) with
  | [] => none
  | [e] =>
    if e.name = "mpn_mul_n" then (if un = vn then mulNModel P u v else none)        -- :73
    else if e.name = "mpn_mul_basecase" then some (mul_basecase u v)                -- :81
    else (callValue P e (val u) (val v)).map (toLimbs (un + vn))                    -- :165 :174 :189 :198 :204
  | e :: _ :: _ =>
    if e.name = "mpn_mul_basecase" then mulChunked P.MUL_BASECASE_MAX_UN.toNat u v  -- :112-137
    else if e.name = "mpn_mul_n" then mulSlide P.MUL_KARATSUBA_THRESHOLD.toNat (mulNModel P) u v   -- :210-277
    else none

/-- sizes n at which the model of mpn_mul_n is defined: its skeleton makes one product call, to the basecase or to
    a value-modelled algorithm -/
def coveredN (P : Params) (n : Nat) : Bool :=
  match products (runMulN P n) with
  | [e] => e.name = "mpn_mul_basecase" || modelled1 e
  | _ => false

/-- (un, vn) at which `mpnMulModel` is defined: the trace of the generated skeleton of mpn_mul contains only
    mpn_mul_basecase (one call or the chunk loop), value-modelled Toom/Karatsuba calls, or the slide loop with
    mpn_mul_n covered at every size it can be called with there (MUL_KARATSUBA_THRESHOLD ≤ n ≤ vn). -/
def covered (P : Params) (un vn : Nat) : Bool :=
  match products (runMul P false un vn) with
  | [] => false
  | [e] =>
    if e.name = "mpn_mul_n" then un = vn && coveredN P un
    else e.name = "mpn_mul_basecase" || modelled1 e
  | e :: _ :: _ =>
    if e.name = "mpn_mul_basecase" then decide (un > P.MUL_BASECASE_MAX_UN.toNat)
    else e.name = "mpn_mul_n" && decide (un > vn) && decide (P.MUL_KARATSUBA_THRESHOLD.toNat ≤ vn) &&
      (List.range (vn + 1)).all (fun n => decide (n < P.MUL_KARATSUBA_THRESHOLD.toNat) || coveredN P n)

end Mpir.MulLoops
