/-
  Executable, bit-exact models of MPIR's random number generators and of the functions built on
  them (property C19).  Core Lean only.

  Every generator is a pure function `State → nbits → (bits, State)`; `bits` is the content of the
  destination buffer after `_gmp_rand (rp, state, nbits)` read as a little-endian natural number
  (buffer initially zero; the C never reads a limb it has not written, see `randgetLc`).

  Sources mirrored (line numbers of /repo at the pinned commit + the C19 repairs):
    randmt.h, randmt.c     MT19937 recurrence `__gmp_mt_recalc_buffer`, tempering, `__gmp_randget_mt`
    randmts.c              `mangle_seed`, `randseed_mt`, `gmp_randinit_mt`
    randlc2x.c             `lc`, `randget_lc`, `randseed_lc`, `gmp_randinit_lc_2exp`, `randiset_lc`
    randlc2s.c             `gmp_randinit_lc_2exp_size`
    randdef.c randiset.c randsd.c randsdui.c randbui.c randmui.c
    mpz/urandomb.c mpz/urandomm.c mpz/rrandomb.c mpf/urandomb.c
    mpn/generic/{urandomb,urandomm,randomb,rrandom}.c
  Tables and constants come from `Mpir.Gen.RandTabs` (regenerated from the source on every check).
-/
import Mpir.Base
import Mpir.Gen.RandTabs
namespace Mpir.Rand
open Mpir

/-! ## Mersenne Twister (randmt.c) -/

/-- `gmp_rand_mt_struct` (randmt.h:32-36): `mt[N]` 32-bit words and the index `mti`. -/
structure MtState where
  mt : Array Nat
  mti : Nat
  deriving Repr, BEq, Inhabited

/-- One step of the recurrence (randmt.c:168-169):
    `y = (hi & 0x80000000) | (lo & 0x7FFFFFFF);  (y >> 1) ^ ((y & 1) != 0 ? MATRIX_A : 0)`. -/
def twist (hi lo : Nat) : Nat :=
  let y := (hi &&& 0x80000000) ||| (lo &&& 0x7FFFFFFF)
  (y >>> 1) ^^^ (if y &&& 1 != 0 then Tabs.matrixA else 0)

/-- `__gmp_mt_recalc_buffer` (randmt.c:160-179), in place, in the C order (the second loop reads
    entries already replaced by the first). -/
def recalc (mt : Array Nat) : Array Nat :=
  let n := Tabs.mtN; let m := Tabs.mtM
  -- for (kk = 0; kk < N - M; kk++) mt[kk] = mt[kk + M] ^ twist (mt[kk], mt[kk + 1])
  let mt := (List.range (n - m)).foldl (fun mt kk => mt.set! kk (mt[kk + m]! ^^^ twist mt[kk]! mt[kk + 1]!)) mt
  -- for (; kk < N - 1; kk++) mt[kk] = mt[kk - (N - M)] ^ twist (mt[kk], mt[kk + 1])
  let mt := (List.range' (n - m) (m - 1)).foldl
    (fun mt kk => mt.set! kk (mt[kk - (n - m)]! ^^^ twist mt[kk]! mt[kk + 1]!)) mt
  -- mt[N - 1] = mt[M - 1] ^ twist (mt[N - 1], mt[0])
  mt.set! (n - 1) (mt[m - 1]! ^^^ twist mt[n - 1]! mt[0]!)

/-- Tempering inside `NEXT_RANDOM` (randmt.c:210-213) on a 32-bit `y`
    (`y << 7`, `y << 15` are 32-bit shifts; the masks make the truncation invisible). -/
def temper (y : Nat) : Nat :=
  let y := y ^^^ (y >>> 11)
  let y := y ^^^ ((y <<< 7) &&& Tabs.mask1)
  let y := y ^^^ ((y <<< 15) &&& Tabs.mask2)
  y ^^^ (y >>> 18)

/-- `NEXT_RANDOM` (randmt.c:201-215): refill when `mti >= N`, read `y = mt[mti++]`, temper.
    `y` is a `gmp_uint_least32_t` (exactly 32 bits on the pinned platform): the read is typed. -/
def nextWord (s : MtState) : Nat × MtState :=
  let s := if s.mti ≥ Tabs.mtN then { mt := recalc s.mt, mti := 0 } else s
  let y := s.mt[s.mti]! % 2 ^ 32
  (temper y, { s with mti := s.mti + 1 })

/-- One full limb of the 64-bit branch (randmt.c:242-246): `dest[i] = y; dest[i] |= y' << 32`. -/
def mtLimb (s : MtState) : Nat × MtState :=
  let p0 := nextWord s
  let p1 := nextWord p0.2
  (p0.1 ||| (p1.1 <<< 32), p1.2)

/-- `for (i = 0; i < nlimbs; i++)` of the 64-bit branch. -/
def mtLimbs : Nat → MtState → List Nat × MtState
  | 0, s => ([], s)
  | n + 1, s =>
    let p := mtLimb s
    let q := mtLimbs n p.2
    (p.1 :: q.1, q.2)

/-- The partial top limb (randmt.c:247-265), `0 < rbits < 64`;
    `y & ~(ULONG_MAX << k)` is `y % 2^k`. -/
def mtTail (rbits : Nat) (s : MtState) : Nat × MtState :=
  if rbits < 32 then
    let p := nextWord s
    (p.1 % 2 ^ rbits, p.2)
  else
    let p := nextWord s
    if rbits > 32 then
      let q := nextWord p.2
      (p.1 ||| ((q.1 % 2 ^ (rbits - 32)) <<< 32), q.2)
    else (p.1, p.2)

/-- `__gmp_randget_mt` (randmt.c:185-346, the `GMP_NUMB_BITS == 64` branch): the value of the
    `BITS_TO_LIMBS (nbits)` limbs written to `dest`. -/
def randgetMt (s : MtState) (nbits : Nat) : Nat × MtState :=
  let nlimbs := nbits / 64
  let rbits := nbits % 64
  let p := mtLimbs nlimbs s
  if rbits = 0 then (val p.1, p.2)
  else
    let t := mtTail rbits p.2
    (val (p.1 ++ [t.1]), t.2)

/-- `__gmp_randinit_mt_noseed` + `gmp_randinit_mt` (randmt.c:384-403, randmts.c:154-159);
    `gmp_randinit_default` (randdef.c) is the same call. -/
def mtDefault : MtState := { mt := Tabs.defaultState, mti := Tabs.warmUp % Tabs.mtN }

/-- The reduction loop of `mangle_seed` (randmts.c:44-52):
    `for (;;) { t = r >> 19937; if (t == 0) break; r = r mod 2^19937; r += t * 20023; }`. -/
def mtReduce (r : Nat) : Nat :=
  let t := r >>> Tabs.mtExp
  if _h : t = 0 then r else mtReduce (r % 2 ^ Tabs.mtExp + t * Tabs.mangleK)
termination_by r
decreasing_by
  have hk : Tabs.mangleK < 2 ^ Tabs.mtExp :=
    Nat.lt_of_lt_of_le (show Tabs.mangleK < 2 ^ 15 by decide) (Nat.pow_le_pow_right (by decide) (by decide))
  have h1 := Nat.div_add_mod r (2 ^ Tabs.mtExp)
  have h2 : r >>> Tabs.mtExp * Tabs.mangleK < 2 ^ Tabs.mtExp * (r >>> Tabs.mtExp) := by
    rw [Nat.mul_comm]; exact Nat.mul_lt_mul_of_pos_right hk (Nat.pos_of_ne_zero _h)
  rw [Nat.shiftRight_eq_div_pow] at h2 ⊢
  omega

/-- The `do … while (bit != 0)` loop of `mangle_seed` (randmts.c:40-63): square, reduce, and when the
    exponent bit is set multiply by `b` and reduce again. -/
def mangleLoop (b e bit r : Nat) : Nat :=
  if _h : bit = 0 then r else
    let r := mtReduce (r * r)
    let r := if e &&& bit != 0 then mtReduce (r * b) else r
    mangleLoop b e (bit >>> 1) r
termination_by bit
decreasing_by
  have := Nat.shiftRight_eq_div_pow bit 1
  omega

/-- `mangle_seed (r, b)` (randmts.c:29-67): `b^e mod (2^19937 - 20023)` up to the lazy reduction. -/
def mangleSeed (b : Nat) : Nat := mangleLoop b Tabs.mangleE Tabs.mangleBit b

/-- `randseed_mt` (randmts.c:100-143). -/
def seedMt (seed : Int) : MtState :=
  let md : Int := ((2 ^ Tabs.mtExp - Tabs.seedSub : Nat) : Int)       -- mod = 2^19937 - 20027
  let seed1 := (seed % md).toNat + Tabs.seedAdd                       -- mpz_mod (result ≥ 0); + 2
  let seed1 := mangleSeed seed1
  let top := seed1.testBit Tabs.seedTopBit
  let mt0 := if top then 0x80000000 else 0                            -- randmts.c:123
  let seed1 := if top then seed1 - 2 ^ Tabs.seedTopBit else seed1     -- mpz_clrbit
  -- mpz_export of 32-bit words into mt[1..], zero fill (randmts.c:127-132)
  let mt := (Array.range Tabs.mtN).map fun i =>
    if i = 0 then mt0 else (seed1 >>> (32 * (i - 1))) % 2 ^ 32
  -- warm up (randmts.c:138-142)
  let mt := (List.range (Tabs.warmUp / Tabs.mtN)).foldl (fun mt _ => recalc mt) mt
  { mt := mt, mti := Tabs.warmUp % Tabs.mtN }

/-! ## Linear congruential generator (randlc2x.c) -/

/-- `gmp_rand_lc_struct` (randlc2x.c:50-56) at value level: `_mp_seed` = X, `_mp_a`, `_cp` = c, `_mp_m2exp`. -/
structure LcState where
  seed : Nat
  a : Nat
  c : Nat
  m2exp : Nat
  deriving Repr, BEq, Inhabited

/-- `gmp_randinit_lc_2exp` (randlc2x.c:290-330): seed 1, `a` forced into `[0, 2^m2exp)` by
    `mpz_fdiv_r_2exp` (floor remainder, also for a negative `a`), `c` kept as given. -/
def lcInit (a : Int) (c m2exp : Nat) : LcState :=
  { seed := 1, a := (a % ((2 ^ m2exp : Nat) : Int)).toNat, c := c, m2exp := m2exp }

/-- `randseed_lc` (randlc2x.c:228-240): `mpz_fdiv_r_2exp (seedz, seed, m2exp)`. -/
def lcSeed (s : LcState) (seed : Int) : LcState :=
  { s with seed := (seed % ((2 ^ s.m2exp : Nat) : Int)).toNat }

/-- `lc` (randlc2x.c:63-144, repaired version): `X ← (a·X + c) mod 2^m2exp`; delivered are the
    `m2exp - (m2exp+1)/2 = m2exp/2` bits above the discarded low `(m2exp+1)/2` bits. -/
def lcStep (s : LcState) : Nat × LcState :=
  let x := (s.a * s.seed + s.c) % 2 ^ s.m2exp
  (x >>> ((s.m2exp + 1) / 2), { s with seed := x })

/-- limbs `[i, i+k)` of the buffer `R` replaced by the `k` low limbs of `v`. -/
def setLimbs (R i k v : Nat) : Nat :=
  R % 2 ^ (64 * i) + (v % 2 ^ (64 * k)) * 2 ^ (64 * i) + (R / 2 ^ (64 * (i + k))) * 2 ^ (64 * (i + k))

/-- limb `i` of the buffer `R`. -/
def getLimb (R i : Nat) : Nat := R / 2 ^ (64 * i) % 2 ^ 64

/-- Place the `tn` limbs `t` at bit position `pos` of the buffer, as `randget_lc` does
    (randlc2x.c:170-191 and 202-216): limb aligned → the limbs are stored directly; otherwise
    `savelimb = r2p[0]; rcy = mpn_lshift (r2p, tp, tn, sh); r2p[0] |= savelimb;` and `r2p[tn] = rcy`
    when `carry` (the C's condition for storing the shifted-out bits) holds. -/
def placeChunk (R pos tn t : Nat) (carry : Bool) : Nat :=
  let q := pos / 64
  let sh := pos % 64
  if sh ≠ 0 then
    let t := t % 2 ^ (64 * tn)                          -- the tn limbs of tp read by mpn_lshift
    let savelimb := getLimb R q
    let lo := (t <<< sh) % 2 ^ (64 * tn)                -- limbs written by mpn_lshift
    let rcy := t >>> (64 * tn - sh)                     -- its return value
    let R := setLimbs R q tn lo
    let R := setLimbs R q 1 (getLimb R q ||| savelimb)
    if carry then setLimbs R (q + tn) 1 rcy else R
  else setLimbs R q tn t

/-- The `while (rbitpos + chunk_nbits <= nbits)` loop of `randget_lc` (randlc2x.c:168-193). -/
def lcFull (chunk nbits : Nat) (hc : 0 < chunk) (rbitpos R : Nat) (s : LcState) : Nat × Nat × LcState :=
  if _h : rbitpos + chunk ≤ nbits then
    let p := lcStep s
    let tn := (chunk + 63) / 64
    let R := placeChunk R rbitpos tn p.1 (decide (chunk % 64 + rbitpos % 64 > 64))
    lcFull chunk nbits hc (rbitpos + chunk) R p.2
  else (rbitpos, R, s)
termination_by nbits - rbitpos
decreasing_by omega

/-- `randget_lc` (randlc2x.c:147-224).  `m2exp < 2` gives `chunk_nbits = 0`, for which the C loop does
    not terminate (reported finding); the model returns no bits there and every theorem assumes
    `2 ≤ m2exp`; the driver never creates such a state. -/
def randgetLc (s : LcState) (nbits : Nat) : Nat × LcState :=
  let chunk := s.m2exp / 2
  if hc : 0 < chunk then
    let r := lcFull chunk nbits hc 0 0 s
    let rbitpos := r.1; let R := r.2.1; let s := r.2.2
    if rbitpos ≠ nbits then
      -- last [1..chunk_nbits) bits (randlc2x.c:195-221)
      let last := nbits - rbitpos
      let tn := (last + 63) / 64
      let p := lcStep s
      let R := placeChunk R rbitpos tn p.1 (decide (rbitpos + tn * 64 - rbitpos % 64 < nbits))
      -- if (nbits % 64 != 0) rp[nbits / 64] &= ~(~0 << nbits % 64)
      let R := if nbits % 64 ≠ 0 then setLimbs R (nbits / 64) 1 (getLimb R (nbits / 64) % 2 ^ (nbits % 64)) else R
      (R, p.2)
    else (R, s)
  else (0, s)

/-- first row of `__gmp_rand_lc_scheme` with `m2exp / 2 >= size` (randlc2s.c:69-72). -/
def lcSchemeFind (size : Nat) : Option (Nat × Nat × Nat) :=
  Tabs.lcScheme.find? (fun r => r.1 / 2 ≥ size)

/-- `gmp_randinit_lc_2exp_size` (randlc2s.c:63-84): `none` = returns 0, state untouched. -/
def lcInitSize (size : Nat) : Option LcState :=
  (lcSchemeFind size).map fun r => lcInit (Int.ofNat r.2.1) r.2.2 r.1

/-! ## `gmp_randstate_t`: algorithm-tagged state, `_gmp_rand` dispatch -/

inductive Gen where
  | mt (s : MtState)
  | lc (s : LcState)
  deriving Repr, BEq, Inhabited

/-- `_gmp_rand (rp, state, nbits)` (gmp-impl.h:1336-1341): dispatch through `randget_fn`. -/
def Gen.get : Gen → Nat → Nat × Gen
  | .mt s, n => let p := randgetMt s n; (p.1, .mt p.2)
  | .lc s, n => let p := randgetLc s n; (p.1, .lc p.2)

/-- `gmp_randseed` (randsd.c): dispatch through `randseed_fn`. -/
def Gen.seed : Gen → Int → Gen
  | .mt _, z => .mt (seedMt z)
  | .lc s, z => .lc (lcSeed s z)

/-- `gmp_randseed_ui` (randsdui.c): `MPZ_FAKE_UI` then `gmp_randseed`. -/
def Gen.seedUi (g : Gen) (u : Nat) : Gen := g.seed (Int.ofNat (u % 2 ^ 64))

/-- `gmp_randinit_set` (randiset.c → `__gmp_randiset_mt` randmt.c:365-380 / `randiset_lc`
    randlc2x.c:263-287): field-by-field deep copy. -/
def Gen.iset : Gen → Gen
  | .mt s => .mt { mt := s.mt, mti := s.mti }
  | .lc s => .lc { seed := s.seed, a := s.a, c := s.c, m2exp := s.m2exp }

/-- `2 ≤ m2exp` for the linear congruential generator (see `randgetLc`). -/
def Gen.Valid : Gen → Prop
  | .mt _ => True
  | .lc s => 2 ≤ s.m2exp

instance (g : Gen) : Decidable g.Valid := by cases g <;> unfold Gen.Valid <;> infer_instance

/-! ## Functions on top of `_gmp_rand` -/

/-- `BITS_TO_LIMBS`. -/
def bitsToLimbs (n : Nat) : Nat := (n + 63) / 64

/-- `mpz_urandomb` (mpz/urandomb.c:26-38): value of the `BITS_TO_LIMBS (nbits)` limbs. -/
def urandomb (g : Gen) (nbits : Nat) : Nat × Gen :=
  let size := bitsToLimbs nbits
  let p := g.get nbits
  (p.1 % 2 ^ (64 * size), p.2)

/-- `mpn_urandomb` (mpn/generic/urandomb.c): the `BITS_TO_LIMBS (n)` limbs written. -/
def mpnUrandomb (g : Gen) (n : Nat) : List Nat × Gen :=
  let p := g.get n
  (toLimbs (bitsToLimbs n) p.1, p.2)

/-- `gmp_urandomb_ui` (randbui.c:30-48): `a[0] = 0; _gmp_rand (a, rstate, MIN (bits, 64)); return a[0]`. -/
def urandombUi (g : Gen) (bits : Nat) : Nat × Gen :=
  let p := g.get (min bits 64)
  (p.1 % 2 ^ 64, p.2)

/-- `POW2_P (n)` (gmp-impl.h:623). -/
def pow2P (n : Nat) : Bool := n &&& (n - 1) == 0

/-- `count_leading_zeros` of a non-zero limb. -/
def clz (x : Nat) : Nat := 63 - x.log2

/-- The rejection loop `do { _gmp_rand (rp, rstate, nbits); MPN_CMP (cmp, rp, np, size); } while (cmp >= 0)`
    (mpz/urandomm.c:73-78, mpn/generic/urandomm.c:37-40).  The C loop is unbounded (it ends with
    probability 1); the model gives up after `fuel` draws (`none`). -/
def rejectLoop (n size nbits : Nat) : Nat → Gen → Option (Nat × Gen)
  | 0, _ => none
  | fuel + 1, g =>
    let p := g.get nbits
    let r := p.1 % 2 ^ (64 * size)
    if r < n then some (r, p.2) else rejectLoop n size nbits fuel p.2

/-- `mpz_urandomm` (mpz/urandomm.c:27-84) for `n ≠ 0` (the caller maps `n = 0` to `DIVIDE_BY_ZERO`);
    only `|n|` is used.  `rop == n` takes a private copy of `n` first, same result. -/
def urandomm (fuel : Nat) (g : Gen) (n : Int) : Option (Nat × Gen) :=
  let np := natLimbs n.natAbs
  let size := np.length
  let nlast := np.getLast!
  -- power-of-two detection (urandomm.c:44-52)
  let pow2 := pow2P nlast && (np.dropLast.all (· == 0))
  let count := clz nlast
  let nbits := size * 64 - count - boolToNat pow2
  if nbits = 0 then some (0, g)                       -- n == 1
  else rejectLoop n.natAbs size nbits fuel g

/-- `mpn_urandomm` (mpn/generic/urandomm.c:26-42); `mp` has `n > 0` limbs, top limb non-zero. -/
def mpnUrandomm (fuel : Nat) (g : Gen) (mp : List Nat) : Option (List Nat × Gen) :=
  let n := mp.length
  let c := 64 - clz mp.getLast!
  let b := 64 * (n - 1) + c
  (rejectLoop (val mp) n b fuel g).map fun p => (toLimbs n p.1, p.2)

/-- the `for (i = 0; i < MAX_URANDOMM_ITER; i++)` loop of `gmp_urandomm_ui` (randmui.c:56-66);
    returns the last `ret` and whether it was accepted. -/
def urandommUiLoop (n bits : Nat) : Nat → Nat → Gen → Nat × Bool × Gen
  | 0, ret, g => (ret, false, g)
  | i + 1, _, g =>
    let p := g.get bits
    let ret := p.1 % 2 ^ 64
    if ret < n then (ret, true, p.2) else urandommUiLoop n bits i ret p.2

/-- `gmp_urandomm_ui` (randmui.c:36-77) for `0 < n < 2^64`. -/
def urandommUi (g : Gen) (n : Nat) : Nat × Gen :=
  let leading := clz n
  let bits := 64 - leading - boolToNat (pow2P n)
  let r := urandommUiLoop n bits Tabs.maxUrandommIter 0 g
  if r.2.1 then (r.1, r.2.2)
  else ((r.1 + 2 ^ 64 - n) % 2 ^ 64, r.2.2)            -- ret -= n  (unsigned)

/-- `bi = (bi < chunksize) ? 0 : bi - chunksize` (mpz/rrandomb.c:74, 83). -/
def stepDown (bi chunksize : Nat) : Nat := if bi < chunksize then 0 else bi - chunksize

theorem stepDown_lt {bi c : Nat} (hc : 0 < c) (h : stepDown bi c ≠ 0) : stepDown bi c < bi := by
  unfold stepDown at *
  by_cases hb : bi < c
  · simp [hb] at h
  · simp only [hb, if_false] at h ⊢; omega

/-- the loop of `gmp_rrandomb` (mpz/rrandomb.c:70-90 = mpn/generic/rrandom.c:79-99). -/
def rrLoop (cap : Nat) (x bi : Nat) (g : Gen) : Nat × Gen :=
  let p := g.get 32                                     -- _gmp_rand (&ranm, rstate, BITS_PER_RANDCALL)
  let chunksize := 1 + (p.1 % 2 ^ 64) % cap
  let bi1 := stepDown bi chunksize
  if _h1 : bi1 = 0 then (x, p.2)                        -- low chunk is ...1
  else
    let x := x ^^^ (1 <<< bi1)                          -- rp[bi / 64] ^= 1 << bi % 64
    let q := p.2.get 32
    let chunksize2 := 1 + (q.1 % 2 ^ 64) % cap
    let bi2 := stepDown bi1 chunksize2
    let x := x + (1 <<< bi2)                            -- mpn_incr_u (rp + bi / 64, 1 << bi % 64)
    if _h2 : bi2 = 0 then (x, q.2)                      -- low chunk is ...0
    else rrLoop cap x bi2 q.2
termination_by bi
decreasing_by
  exact Nat.lt_trans (stepDown_lt (by omega) _h2) (stepDown_lt (by omega) _h1)

/-- `gmp_rrandomb (rp, rstate, nbits)` (mpz/rrandomb.c:50-91), `nbits ≥ 1`: value of the
    `BITS_TO_LIMBS (nbits)` limbs. -/
def gmpRrandomb (g : Gen) (nbits : Nat) : Nat × Gen :=
  let x := 2 ^ nbits - 1                                -- set entire result to 111..1
  let p := g.get 32
  let ranm := p.1 % 2 ^ 64
  let cap := (nbits / (ranm % 4 + 1)) % 2 ^ 32          -- `unsigned cap_chunksize`
  let cap := cap + boolToNat (cap == 0)
  rrLoop cap x nbits p.2

/-- `mpz_rrandomb` (mpz/rrandomb.c:27-39). -/
def rrandomb (g : Gen) (nbits : Nat) : Nat × Gen :=
  if nbits ≠ 0 then gmpRrandomb g nbits else (0, g)

/-- `mpn_rrandom (rp, rnd, n)` (mpn/generic/rrandom.c:40-56), `n ≥ 1`. -/
def mpnRrandom (g : Gen) (n : Nat) : List Nat × Gen :=
  let p := g.get 32
  let bitPos := (p.1 % 2 ^ 64) % 64
  let r := gmpRrandomb p.2 (n * 64 - bitPos)
  (toLimbs n r.1, r.2)

/-- `while (rp[n - 1] == 0) _gmp_rand (rp + n - 1, rnd, 64)` of `mpn_randomb`; unbounded in C. -/
def topLoop (lo : Nat) (n : Nat) : Nat → Nat → Gen → Option (Nat × Gen)
  | 0, _, _ => none
  | fuel + 1, top, g =>
    if top ≠ 0 then some (lo + top * 2 ^ (64 * (n - 1)), g)
    else
      let p := g.get 64
      topLoop lo n fuel (p.1 % 2 ^ 64) p.2

/-- `mpn_randomb (rp, rnd, n)` (mpn/generic/randomb.c:25-35), `n ≥ 1`. -/
def mpnRandomb (fuel : Nat) (g : Gen) (n : Nat) : Option (List Nat × Gen) :=
  let p := g.get (n * 64)
  let r := p.1 % 2 ^ (64 * n)
  (topLoop (r % 2 ^ (64 * (n - 1))) n fuel (r / 2 ^ (64 * (n - 1))) p.2).map fun q => (toLimbs n q.1, q.2)

/-- `__GMPF_BITS_TO_PREC` (gmp-impl.h:3943). -/
def bitsToPrec (n : Nat) : Nat := (max 53 n + 2 * 64 - 1) / 64

/-- result of `mpf_urandomb`: `_mp_size`, `_mp_exp`, the `size` limbs. -/
structure MpfOut where
  size : Nat
  exp : Int
  d : List Nat
  deriving Repr, BEq, DecidableEq

/-- `while (nlimbs != 0 && rp[nlimbs - 1] == 0) { nlimbs--; exp--; }` (mpf/urandomb.c:50-55):
    the limbs without their high zeros, and `exp = -(number of limbs dropped)`. -/
def mpfStrip (l : List Nat) : List Nat × Int :=
  let l' := normalize l
  (l', -((l.length - l'.length : Nat) : Int))

/-- the tail of `mpf_urandomb` (mpf/urandomb.c:50-57): strip, `EXP (rop) = (nlimbs == 0 ? 0 : exp)`, `SIZ (rop) = nlimbs`. -/
def mpfFinish (l : List Nat) : MpfOut :=
  let q := mpfStrip l
  { size := q.1.length, exp := if q.1.length = 0 then 0 else q.2, d := q.1 }

/-- `mpf_urandomb (rop, rstate, nbits)` (mpf/urandomb.c:28-60, repaired: a zero result has exponent 0);
    `prec` = `PREC (rop)` in limbs. -/
def mpfUrandomb (g : Gen) (prec nbits : Nat) : MpfOut × Gen :=
  let nlimbs0 := bitsToLimbs nbits
  let big := nlimbs0 > prec + 1 || nlimbs0 == 0
  let nlimbs := if big then prec + 1 else nlimbs0
  let nbits := if big then nlimbs * 64 else nbits
  let p := g.get nbits
  let r := p.1 % 2 ^ (64 * nlimbs)
  -- if (nbits % 64 != 0) mpn_lshift (rp, rp, nlimbs, 64 - nbits % 64)
  let r := if nbits % 64 ≠ 0 then (r <<< (64 - nbits % 64)) % 2 ^ (64 * nlimbs) else r
  (mpfFinish (toLimbs nlimbs r), p.2)

end Mpir.Rand
