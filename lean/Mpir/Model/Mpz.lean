/-
  Layer S: the integer object `mpz_t` — sign, size, allocation on top of the mpn kernels.
  Core Lean only (linked into the driver).

  An object is `{alloc, size, d}`: `alloc` = `_mp_alloc` (limbs in the block), `size` = `_mp_size`
  (sign = sign of the number, |size| = number of significant limbs), `d` = the |size| significant
  limbs of `_mp_d`, least significant first.  Limbs of the block above |size| are garbage in C and
  are not represented.  Each function mirrors the control flow of the C file cited (same tests, same
  order, same kernel calls); a write `wp[k] = x` followed by `SIZ(w) = n` becomes "the first n limbs of
  the buffer that was written".

  Aliasing.  Functions take the destination object `w` as an argument (its `alloc` decides whether the
  block is reallocated; for addmul/submul it is also an input).  "w is the same variable as u" is the
  call `f u u v`.  Where the C *tests* identity (`w != u`, `wp == up`) the model takes the identity
  pattern as an explicit `Alias` argument.  What a value-level model cannot show — a stale pointer
  after realloc, an in-place kernel call reading a limb it has already overwritten — is left to the
  differential run, which executes every alias pattern on the real library.

  `_mp_size` and `_mp_alloc` are 32-bit `int` in C; the model uses unbounded integers (objects of
  2^31 limbs are outside what the harness can reach).

  Source mirrored (tie = correspondence, ops `mpz_*` in Mpir/Ops/Mpz.lean):
    mpz/aors.h aors_ui.h ui_sub.c neg.c abs.c set.c swap.c mul_2exp.c realloc.c
    mpz/mul.c mul_i.h aorsmul.c aorsmul_i.c
-/
import Mpir.Model.Kernels
namespace Mpir.Mpz

structure Mpz where
  alloc : Nat
  size : Int
  d : List Nat
  deriving Repr, DecidableEq, Inhabited

/-- The integer an object stands for. -/
def toInt (x : Mpz) : Int := if x.size < 0 then -(val x.d : Int) else (val x.d : Int)

/-- Well-formed object (what `MPZ_CHECK_FORMAT` and the harness's `mpz_wf` test, plus "limbs are
    limbs"): block of at least one limb, |size| ≤ alloc, exactly |size| limbs present, each `< B`,
    most significant limb non-zero. -/
def WF (x : Mpz) : Prop :=
  1 ≤ x.alloc ∧ x.size.natAbs ≤ x.alloc ∧ x.d.length = x.size.natAbs ∧ Limbs x.d ∧
  x.d.getLast? ≠ some 0

instance (x : Mpz) : Decidable (WF x) := by unfold WF; infer_instance

/-- `mpz_init2 (x, bits)` with bits ≤ 64, and `mpz_init`: one limb, value 0 (mpz/init.c:28). -/
def init : Mpz := { alloc := 1, size := 0, d := [] }

/-- An object holding `z` in an exact-size block (the harness's `tok_mpz`). -/
def ofInt (z : Int) : Mpz :=
  let l := natLimbs z.natAbs
  { alloc := max l.length 1, size := if z < 0 then -(l.length : Int) else l.length, d := l }

/-- `_mpz_realloc` (mpz/realloc.c:27-46): never zero space; a value that no longer fits becomes 0. -/
def realloc (m : Mpz) (new_alloc : Nat) : Mpz :=
  let na := max new_alloc 1                                   -- realloc.c:33
  if m.size.natAbs > na then { alloc := na, size := 0, d := [] }   -- realloc.c:41-42
  else { m with alloc := na }

/-- `MPZ_REALLOC(z,n)` (gmp-impl.h:1737) = `if (ALLOC(z) < n) _mpz_realloc (z, n)`. -/
def grow (z : Mpz) (n : Nat) : Mpz := if n > z.alloc then realloc z n else z

/-- `(a ^ b) < 0` on two's-complement sizes: the sign bits differ (0 counts as non-negative). -/
def diffSign (a b : Int) : Bool := decide (a < 0) != decide (b < 0)

/-- `neg ? -n : n` -/
def sgn (neg : Bool) (n : Nat) : Int := if neg then -(n : Int) else (n : Int)

/-- `wp[n-1]` of an n-limb buffer. -/
def topLimb (l : List Nat) : Nat := l.getLastD 0

/-! ### mpz_add, mpz_sub — mpz/aors.h -/

/-- aors.h:63-116, after the swap: `|usize| ≥ |vsize|`. -/
def aorsCore (w u v : Mpz) (usize vsize : Int) : Mpz :=
  let abs_usize := usize.natAbs
  let abs_vsize := vsize.natAbs
  let w1 := grow w (abs_usize + 1)                            -- aors.h:66-68
  let up := u.d                                               -- aors.h:71-73 (after the realloc)
  let vp := v.d
  if diffSign usize vsize then                                -- aors.h:75
    if abs_usize != abs_vsize then                            -- aors.h:81
      let wd := normalize (Mpir.sub up vp).1                  -- aors.h:83-85
      { alloc := w1.alloc, size := sgn (usize < 0) wd.length, d := wd }      -- aors.h:86-87
    else if Mpir.cmp up vp < 0 then                           -- aors.h:89
      let wd := normalize (Mpir.sub_n vp up).1                -- aors.h:91-93
      { alloc := w1.alloc, size := sgn (usize ≥ 0) wd.length, d := wd }      -- aors.h:94-95
    else
      let wd := normalize (Mpir.sub_n up vp).1                -- aors.h:99-101
      { alloc := w1.alloc, size := sgn (usize < 0) wd.length, d := wd }      -- aors.h:102-103
  else
    let r := Mpir.add up vp                                   -- aors.h:109
    let wsize := abs_usize + r.2                              -- aors.h:110-111: wp[abs_usize] = cy
    { alloc := w1.alloc, size := sgn (usize < 0) wsize, d := (r.1 ++ [r.2]).take wsize }

/-- aors.h:41-61: `isSub` is VARIATION = `-`; operands swapped so that the first has more limbs. -/
def aors (isSub : Bool) (w u v : Mpz) : Mpz :=
  let usize := u.size                                         -- aors.h:50
  let vsize := if isSub then -v.size else v.size              -- aors.h:51
  if usize.natAbs < vsize.natAbs then aorsCore w v u vsize usize   -- aors.h:55-61
  else aorsCore w u v usize vsize

def add (w u v : Mpz) : Mpz := aors false w u v
def sub (w u v : Mpz) : Mpz := aors true w u v

/-! ### mpz_add_ui, mpz_sub_ui — mpz/aors_ui.h (BITS_PER_UI = GMP_NUMB_BITS: lines 57-69 compiled out) -/

/-- `isSub = false`: VARIATION_CMP `>=`, VARIATION_NEG nothing, VARIATION_UNNEG `-`;
    `isSub = true`: VARIATION_CMP `<`, VARIATION_NEG `-`, VARIATION_UNNEG nothing.  `vval < B`. -/
def aors_ui (isSub : Bool) (w u : Mpz) (vval : Nat) : Mpz :=
  let usize := u.size                                         -- aors_ui.h:71
  let abs_usize := usize.natAbs
  let w1 := grow w (abs_usize + 1)                            -- aors_ui.h:75-77
  let up := u.d
  if abs_usize == 0 then                                      -- aors_ui.h:83-88
    { alloc := w1.alloc, size := sgn isSub (if vval != 0 then 1 else 0),
      d := [vval].take (if vval != 0 then 1 else 0) }
  else if (if isSub then decide (usize < 0) else decide (usize ≥ 0)) then   -- aors_ui.h:90
    let r := add_1 up vval                                    -- aors_ui.h:93
    let n := abs_usize + r.2                                  -- aors_ui.h:94-95
    { alloc := w1.alloc, size := sgn isSub n, d := (r.1 ++ [r.2]).take n }
  else if abs_usize == 1 && up.headD 0 < vval then            -- aors_ui.h:101
    { alloc := w1.alloc, size := sgn isSub 1, d := [vval - up.headD 0] }    -- aors_ui.h:103-104
  else
    let r := sub_1 up vval                                    -- aors_ui.h:108
    let n := abs_usize - (if topLimb r.1 == 0 then 1 else 0)  -- aors_ui.h:110
    { alloc := w1.alloc, size := sgn (!isSub) n, d := r.1.take n }

def add_ui (w u : Mpz) (v : Nat) : Mpz := aors_ui false w u v
def sub_ui (w u : Mpz) (v : Nat) : Mpz := aors_ui true w u v

/-! ### mpz_ui_sub — mpz/ui_sub.c (lines 32-44 compiled out) -/

/-- `uval < B`.  Note lines 58-75 store to `wp[0]` without a realloc: they rely on `alloc ≥ 1`. -/
def ui_sub (w : Mpz) (uval : Nat) (v : Mpz) : Mpz :=
  let vp := v.d
  let vn := v.size                                            -- ui_sub.c:47
  if vn > 1 then                                              -- ui_sub.c:51
    let w1 := grow w vn.natAbs                                -- ui_sub.c:53
    let r := sub_1 vp uval                                    -- ui_sub.c:55
    let n := vn.natAbs - (if topLimb r.1 == 0 then 1 else 0)  -- ui_sub.c:56
    { alloc := w1.alloc, size := -(n : Int), d := r.1.take n }
  else if vn == 1 then                                        -- ui_sub.c:58
    if uval ≥ vp.headD 0 then                                 -- ui_sub.c:60
      let x := uval - vp.headD 0                              -- ui_sub.c:62
      { alloc := w.alloc, size := if x != 0 then 1 else 0, d := [x].take (if x != 0 then 1 else 0) }
    else
      { alloc := w.alloc, size := -1, d := [vp.headD 0 - uval] }             -- ui_sub.c:67-68
  else if vn == 0 then                                        -- ui_sub.c:71
    { alloc := w.alloc, size := if uval != 0 then 1 else 0,
      d := [uval].take (if uval != 0 then 1 else 0) }         -- ui_sub.c:73-74
  else
    let n := vn.natAbs                                        -- ui_sub.c:78
    let w1 := grow w (n + 1)                                  -- ui_sub.c:79
    let r := add_1 vp uval                                    -- ui_sub.c:81
    let wn := n + (if r.2 != 0 then 1 else 0)                 -- ui_sub.c:82-83
    { alloc := w1.alloc, size := wn, d := (r.1 ++ [r.2]).take wn }

/-! ### mpz_neg, mpz_abs, mpz_set, mpz_swap -/

/-- mpz/neg.c:28-49; `same` = `u == w` (then only the size field is touched). -/
def neg (same : Bool) (w u : Mpz) : Mpz :=
  let usize := u.size
  if !same then
    let w1 := grow w usize.natAbs                             -- neg.c:37-40
    { alloc := w1.alloc, size := -usize, d := u.d }           -- neg.c:45,48
  else { w with size := -usize }                              -- neg.c:48

/-- mpz/abs.c:28-47 -/
def abs (same : Bool) (w u : Mpz) : Mpz :=
  let size := u.size.natAbs                                   -- abs.c:33
  if !same then
    let w1 := grow w size                                     -- abs.c:37-38
    { alloc := w1.alloc, size := size, d := u.d }             -- abs.c:43,46
  else { w with size := size }

/-- mpz/set.c:30-46 -/
def set (w u : Mpz) : Mpz :=
  let w1 := grow w u.size.natAbs                              -- set.c:38-39
  { alloc := w1.alloc, size := u.size, d := u.d }             -- set.c:44-45

/-- mpz/swap.c:26-46: the three fields are exchanged. -/
def swap (u v : Mpz) : Mpz × Mpz := (v, u)

/-! ### mpz_mul_2exp — mpz/mul_2exp.c -/

/-- mul_2exp.c:49-62: the limbs stored from `wp + limb_cnt` upwards (`c = cnt % 64`). -/
def mul_2exp_hi (up : List Nat) (c : Nat) : List Nat :=
  if c != 0 then
    let r := lshift up c                                      -- mul_2exp.c:52
    if r.2 != 0 then r.1 ++ [r.2] else r.1                    -- mul_2exp.c:53-57
  else up                                                     -- mul_2exp.c:61

def mul_2exp (w u : Mpz) (cnt : Nat) : Mpz :=
  let usize := u.size
  let abs_usize := usize.natAbs
  if usize == 0 then { w with size := 0, d := [] }            -- mul_2exp.c:35-39
  else
    let limb_cnt := cnt / 64                                  -- mul_2exp.c:41
    let w1 := grow w (abs_usize + limb_cnt + 1)               -- mul_2exp.c:42-44
    let hi := mul_2exp_hi u.d (cnt % 64)                      -- mul_2exp.c:49-62
    let wd := List.replicate limb_cnt 0 ++ hi                 -- mul_2exp.c:66
    { alloc := w1.alloc, size := sgn (usize < 0) wd.length, d := wd }        -- mul_2exp.c:68

/-! ### mpz_mul — mpz/mul.c (HAVE_NATIVE_mpn_mul_2 undefined: lines 69-79 are the live ones) -/

/-- Which of the three arguments are the same variable. -/
structure Alias where
  wu : Bool := false
  wv : Bool := false
  uv : Bool := false
  deriving Repr, DecidableEq

/-- `mpn_mul (wp, up, un, vp, vn)`, un ≥ vn ≥ 1.  The algorithm dispatch (Karatsuba, Toom, FFT) is
    C01's V layer; at the object layer the product is the schoolbook one. -/
def mpn_mul (u v : List Nat) : List Nat := mul_basecase u v
/-- `mpn_sqr` / `mpn_sqr_basecase` (assembly in this build): same row structure. -/
def mpn_sqr (u : List Nat) : List Nat := mul_basecase u u

/-- `thr` = MUL_KARATSUBA_THRESHOLD (17 in the pinned build). -/
def mul (thr : Nat) (al : Alias) (w u v : Mpz) : Mpz :=
  let usize := u.size.natAbs                                  -- mul.c:42
  let vsize := v.size.natAbs                                  -- mul.c:43
  let neg := diffSign u.size v.size                           -- mul.c:41 sign_product < 0
  if usize == 0 || vsize == 0 then { w with size := 0, d := [] }             -- mul.c:45-49
  else if vsize == 1 then                                     -- mul.c:69
    let w1 := grow w (usize + 1)                              -- mul.c:71
    let r := mul_1 u.d (v.d.headD 0)                          -- mul.c:73
    let n := usize + (if r.2 != 0 then 1 else 0)              -- mul.c:74-75
    { alloc := w1.alloc, size := sgn neg n, d := (r.1 ++ [r.2]).take n }     -- mul.c:76
  else
    let wsize := usize + vsize                                -- mul.c:81
    if wsize ≤ thr && !al.wu && !al.wv then                   -- mul.c:83
      let w1 := grow w wsize                                  -- mul.c:85
      let wp :=
        if usize == vsize then                                -- mul.c:87
          if al.uv then mpn_sqr u.d                           -- mul.c:90-91 PTR(u) == PTR(v)
          else mul_basecase u.d v.d                           -- mul.c:94
        else if usize > vsize then mul_basecase u.d v.d       -- mul.c:95-96
        else mul_basecase v.d u.d                             -- mul.c:98
      let n := wsize - (if topLimb wp == 0 then 1 else 0)     -- mul.c:100
      { alloc := w1.alloc, size := sgn neg n, d := wp.take n }               -- mul.c:101
    else
      let sw := usize < vsize                                 -- mul.c:105-109
      let up := if sw then v.d else u.d
      let vp := if sw then u.d else v.d
      let usize' := if sw then vsize else usize
      let vsize' := if sw then usize else vsize
      -- mul.c:118-131: a block that is too small is replaced by a fresh one of exactly wsize limbs
      -- (the old one is freed at once, or at the end when it is also an operand); mul.c:132-152:
      -- otherwise an operand that shares w's block is copied to temporary space first.
      let walloc := if w.alloc < wsize then wsize else w.alloc
      let wp :=
        if al.uv && usize' == vsize' then mpn_sqr up          -- mul.c:154-157
        else mpn_mul up vp                                    -- mul.c:159
      let n := wsize - (if topLimb wp == 0 then 1 else 0)     -- mul.c:160-161
      { alloc := walloc, size := sgn neg n, d := wp.take n }  -- mul.c:163

/-! ### mpz_mul_ui, mpz_mul_si — mpz/mul_i.h (no nails: lines 75-97 compiled out) -/

/-- `sml` = |small_mult| as a limb (`< B`), `sneg` = LT_ZERO(small_mult). -/
def mul_i (w mult : Mpz) (sml : Nat) (sneg : Bool) : Mpz :=
  let size := mult.size                                       -- mul_i.h:51
  if size == 0 || sml == 0 then { w with size := 0, d := [] } -- mul_i.h:57-61
  else
    let n := size.natAbs                                      -- mul_i.h:63
    let w1 := grow w (n + 1)                                  -- mul_i.h:69
    let r := mul_1 mult.d sml                                 -- mul_i.h:71
    let n' := n + (if r.2 != 0 then 1 else 0)                 -- mul_i.h:72-73
    { alloc := w1.alloc, size := sgn (decide (size < 0) != sneg) n',         -- mul_i.h:99
      d := (r.1 ++ [r.2]).take n' }

def mul_ui (w u : Mpz) (v : Nat) : Mpz := mul_i w u v false
/-- `v` in the range of `long`; MULTIPLICAND_ABS = `(mpir_ui) ABS(x)` (2^63 for LONG_MIN). -/
def mul_si (w u : Mpz) (v : Int) : Mpz := mul_i w u v.natAbs (decide (v < 0))

/-! ### mpz_addmul_ui, mpz_submul_ui and `mpz_aorsmul_1` — mpz/aorsmul_i.c
    (HAVE_NATIVE_mpn_mul_1c undefined; BITS_PER_UI = GMP_NUMB_BITS) -/

/-- `MPN_MUL_1C (cout, dst, src, size, n, cin)` (aorsmul_i.c:36-41): `mul_1` then `add_1` in place. -/
def mul_1c (src : List Nat) (n cin : Nat) : List Nat × Nat :=
  let r := mul_1 src n
  let a := add_1 r.1 cin
  (a.1, (r.2 + a.2) % B)

/-- aorsmul_i.c:100-131, "addmul of absolute values": `wp`, `xp` are the magnitudes (wsize, xsize
    limbs).  Returns (new size, significant limbs). -/
def aorsmul_1_add (wp xp : List Nat) (y : Nat) : Nat × List Nat :=
  let wsize := wp.length
  let xsize := xp.length
  let new_wsize := max wsize xsize                            -- aorsmul_i.c:92
  let min_size := min wsize xsize                             -- aorsmul_i.c:96
  let r := addmul_1 (wp.take min_size) (xp.take min_size) y   -- aorsmul_i.c:102
  -- aorsmul_i.c:106-127
  let hi : List Nat × Nat :=
    if xsize != wsize then
      let m : List Nat × Nat :=
        if xsize > wsize then mul_1 (xp.drop min_size) y      -- aorsmul_i.c:120
        else (wp.drop min_size, 0)                            -- aorsmul_i.c:123-124
      let a := add_1 m.1 r.2                                  -- aorsmul_i.c:126
      (a.1, (m.2 + a.2) % B)
    else ([], r.2)
  let n := new_wsize + (if hi.2 != 0 then 1 else 0)           -- aorsmul_i.c:130-131
  (n, (r.1 ++ hi.1 ++ [hi.2]).take n)

/-- aorsmul_i.c:137-154 + 185, "submul of absolute values" when wsize ≥ xsize: propagate the borrow
    through w; on a borrow out take the two's complement and flip the sign.
    Returns (sign flipped, normalised limbs). -/
def aorsmul_1_sub_ge (wp xp : List Nat) (y : Nat) : Bool × List Nat :=
  let wsize := wp.length
  let xsize := xp.length
  let r := submul_1 (wp.take xsize) xp y                      -- aorsmul_i.c:137 (min_size = xsize)
  let hi : List Nat × Nat :=
    if wsize != xsize then sub_1 (wp.drop xsize) r.2          -- aorsmul_i.c:141-142
    else ([], r.2)
  let buf := r.1 ++ hi.1
  let cy := hi.2
  if cy != 0 then                                             -- aorsmul_i.c:144
    let top := B - 1 - (B - cy) % B                           -- aorsmul_i.c:148  ~-cy
    let buf1 := com_n buf ++ [top]                            -- aorsmul_i.c:149  mpn_not (wp, new_wsize)
    let buf2 := (incr buf1).1                                 -- aorsmul_i.c:150-151  MPN_INCR_U
    (true, normalize buf2)                                    -- aorsmul_i.c:152, 185
  else (false, normalize buf)                                 -- aorsmul_i.c:185

/-- aorsmul_i.c:155-181 + 185, "submul of absolute values" when wsize < xsize: want x*y - w; submul
    has given w - x*y on the low limbs, so two's complement those and `mul_1c` the rest.
    Returns the normalised limbs (the sign always flips). -/
def aorsmul_1_sub_lt (wp xp : List Nat) (y : Nat) : List Nat :=
  let wsize := wp.length
  let xsize := xp.length
  let r := submul_1 wp (xp.take wsize) y                      -- aorsmul_i.c:137 (min_size = wsize)
  let lo0 := com_n r.1                                        -- aorsmul_i.c:163
  let a := add_1 lo0 1                                        -- aorsmul_i.c:164
  let cy := (r.2 + a.2) % B
  let cy := (cy + B - 1) % B                                  -- aorsmul_i.c:165
  let cy2 := if cy == B - 1 then 1 else 0                     -- aorsmul_i.c:169
  let cy := (cy + cy2) % B                                    -- aorsmul_i.c:170
  let m := mul_1c (xp.drop wsize) y cy                        -- aorsmul_i.c:171
  let n := xsize + (if m.2 != 0 then 1 else 0)                -- aorsmul_i.c:172-173
  let hi := (m.1 ++ [m.2]).take (n - wsize)
  let hi := if cy2 != 0 then (decr hi).1 else hi              -- aorsmul_i.c:177-178  MPN_DECR_U
  normalize (a.1 ++ hi)                                       -- aorsmul_i.c:185

/-- `sub` = "sub < 0" (only the sign bit of the C variable is ever used; `sub ^= s` flips it when
    `s < 0`).  `y < B`. -/
def aorsmul_1 (w x : Mpz) (y : Nat) (sub : Bool) : Mpz :=
  let xsize_s := x.size                                       -- aorsmul_i.c:69
  if xsize_s == 0 || y == 0 then w                            -- aorsmul_i.c:70-71
  else
    let sub := sub != decide (xsize_s < 0)                    -- aorsmul_i.c:73
    let xsize := xsize_s.natAbs                               -- aorsmul_i.c:74
    let wsize_signed := w.size                                -- aorsmul_i.c:76
    if wsize_signed == 0 then                                 -- aorsmul_i.c:77
      let w1 := grow w (xsize + 1)                            -- aorsmul_i.c:80
      let r := mul_1 x.d y                                    -- aorsmul_i.c:82
      let n := xsize + (if r.2 != 0 then 1 else 0)            -- aorsmul_i.c:83-84
      { alloc := w1.alloc, size := sgn sub n, d := (r.1 ++ [r.2]).take n }   -- aorsmul_i.c:85
    else
      let sub := sub != decide (wsize_signed < 0)             -- aorsmul_i.c:89
      let wsize := wsize_signed.natAbs                        -- aorsmul_i.c:90
      let new_wsize := max wsize xsize                        -- aorsmul_i.c:92
      let w1 := grow w (new_wsize + 1)                        -- aorsmul_i.c:93
      let wneg := decide (wsize_signed < 0)
      if !sub then                                            -- aorsmul_i.c:98
        let r := aorsmul_1_add w.d x.d y
        { alloc := w1.alloc, size := sgn wneg r.1, d := r.2 }                -- aorsmul_i.c:188
      else if wsize ≥ xsize then                              -- aorsmul_i.c:138
        let r := aorsmul_1_sub_ge w.d x.d y
        { alloc := w1.alloc, size := sgn (wneg != r.1) r.2.length, d := r.2 }   -- aorsmul_i.c:152,188
      else
        let d := aorsmul_1_sub_lt w.d x.d y
        { alloc := w1.alloc, size := sgn (!wneg) d.length, d := d }          -- aorsmul_i.c:180,188

def addmul_ui (w x : Mpz) (y : Nat) : Mpz := aorsmul_1 w x y false         -- aorsmul_i.c:219
def submul_ui (w x : Mpz) (y : Nat) : Mpz := aorsmul_1 w x y true          -- aorsmul_i.c:247

/-! ### mpz_addmul, mpz_submul — mpz/aorsmul.c -/

/-- `mpn_cmp_twosizes_lt` (aorsmul.c:27-29) -/
def cmp_twosizes_lt (x y : List Nat) : Bool :=
  x.length < y.length || (x.length == y.length && Mpir.cmp x y < 0)

def aorsmul (w x y : Mpz) (sub : Bool) : Mpz :=
  if x.size == 0 || y.size == 0 then w                        -- aorsmul.c:51-54
  else
    let sw := y.size.natAbs > x.size.natAbs                   -- aorsmul.c:57-61
    let x' := if sw then y else x
    let y' := if sw then x else y
    let sub := sub != decide (y'.size < 0)                    -- aorsmul.c:63
    let ysize := y'.size.natAbs                               -- aorsmul.c:64
    if ysize == 1 then aorsmul_1 w x' (y'.d.headD 0) sub      -- aorsmul.c:67-71
    else
      let sub := sub != decide (x'.size < 0)                  -- aorsmul.c:73
      let xsize := x'.size.natAbs                             -- aorsmul.c:74
      let wsize_signed := w.size                              -- aorsmul.c:76
      let sub := sub != decide (wsize_signed < 0)             -- aorsmul.c:77
      let wsize := wsize_signed.natAbs                        -- aorsmul.c:78
      let tsize := xsize + ysize                              -- aorsmul.c:80
      let w1 := grow w (max wsize tsize + 1)                  -- aorsmul.c:81
      let wp := w.d
      let t := mpn_mul x'.d y'.d                              -- aorsmul.c:88 / 97
      let tsize := tsize - (if topLimb t == 0 then 1 else 0)  -- aorsmul.c:89 / 98
      let tp := t.take tsize
      if wsize_signed == 0 then                               -- aorsmul.c:84
        { alloc := w1.alloc, size := sgn sub tsize, d := tp } -- aorsmul.c:90
      else if !sub then                                       -- aorsmul.c:100
        let big := if wsize < tsize then tp else wp           -- aorsmul.c:105-113
        let small := if wsize < tsize then wp else tp
        let r := Mpir.add big small                           -- aorsmul.c:115
        let n := big.length + (if r.2 != 0 then 1 else 0)     -- aorsmul.c:116-117
        { alloc := w1.alloc, size := sgn (wsize_signed < 0) n, d := (r.1 ++ [r.2]).take n }
      else
        let lt := cmp_twosizes_lt wp tp                       -- aorsmul.c:124
        let big := if lt then tp else wp
        let small := if lt then wp else tp
        let wd := normalize (Mpir.sub big small).1            -- aorsmul.c:135-137
        { alloc := w1.alloc, size := sgn (decide (wsize_signed < 0) != lt) wd.length, d := wd }  -- :132,140

def addmul (w u v : Mpz) : Mpz := aorsmul w u v false          -- aorsmul.c:149
def submul (w u v : Mpz) : Mpz := aorsmul w u v true           -- aorsmul.c:155

end Mpir.Mpz
