/-
  Path semantics of the TMP_MARK / TMP_ALLOC / TMP_FREE skeletons (Mpir/Gen/TmpSkel.lean): what the
  data-flow procedure `Mpir.TmpSkel.balanced` (Mpir/Model/TmpSkel.lean) is supposed to decide.

  A *path* of a skeleton `f` is a non-empty list of node indices that starts at `f.entry` and in which
  every next node is a control-flow successor of the previous one; nodes of kind 4 (`return`) and 5 (call
  that does not return) have no outgoing step, an index outside the node table has none either.  No bound
  on the length: a loop of the skeleton may be traversed any number of times.

  *Running* a path executes the marker effect `xferBit` of every visited node in order, starting in the
  abstract marker state 1 (unmarked).  The path *violates* the TMP discipline when some visited node raises
  the flag of `xferBit` in the state in which it is reached:
    * TMP_ALLOC or TMP_FREE while unmarked or already freed,
    * TMP_MARK while an allocation is outstanding,
    * `return` while an allocation is outstanding.
  Everything here is executable (Bool / Option valued), so concrete paths can be evaluated.
-/
import Mpir.Model.TmpSkel
namespace Mpir.TmpSkel
open Mpir.Gen

/-- kind of node `i` (0 = "other" for an index outside the table) -/
def kindOf (f : TmpFn) (i : Nat) : Nat :=
  match f.nodes[i]? with
  | some (kind, _) => kind
  | none => 0

/-- control-flow successors of node `i`: none after a `return` (4) or a call that does not return (5) -/
def succsOf (f : TmpFn) (i : Nat) : List Nat :=
  match f.nodes[i]? with
  | some (kind, succs) => if kind == 4 || kind == 5 then [] else succs
  | none => []

/-- `i :: p` follows control-flow edges: every element of `p` is a successor of the node before it -/
def chain (f : TmpFn) : Nat → List Nat → Bool
  | _, [] => true
  | i, j :: p => (succsOf f i).contains j && chain f j p

/-- a path: starts at the entry node and follows control-flow edges -/
def isPath (f : TmpFn) : List Nat → Bool
  | [] => false
  | i :: p => i == f.entry && chain f i p

/-- execute the nodes of `p` in order from marker state `s`; `none` as soon as a node raises the flag,
    otherwise the marker state after the last node -/
def run (f : TmpFn) : Nat → List Nat → Option Nat
  | s, [] => some s
  | s, i :: p =>
      let r := xferBit (kindOf f i) s
      if r.2 then none else run f r.1 p

/-- `p` is a control-flow path of the skeleton from its entry -/
def IsPath (f : TmpFn) (p : List Nat) : Prop := isPath f p = true

/-- executing `p` from the unmarked state hits a violation of the TMP discipline at some node of `p` -/
def Violates (f : TmpFn) (p : List Nat) : Prop := run f 1 p = none

instance (f : TmpFn) (p : List Nat) : Decidable (IsPath f p) := inferInstanceAs (Decidable (_ = _))
instance (f : TmpFn) (p : List Nat) : Decidable (Violates f p) := inferInstanceAs (Decidable (_ = _))

end Mpir.TmpSkel
