/-
  C10 — bitwise functions.  Core Lean only.

  (a) Layer L: the mpn logic kernels.  In the pinned build every one of them is the generic C:
      mpn/generic/{and_n,andn_n,nand_n,ior_n,iorn_n,nior_n,xor_n,xnor_n}.c are one-line wrappers around the
      gmp-impl.h macros MPN_LOGOPS_N_INLINE (gmp-impl.h:2285-2345); com_n.c; popcount.c / hamdist.c (one SWAR
      source, POPHAM(u,v) = u resp. u ^ v); scan0.c, scan1.c.
  (b) Layer S: sign + magnitude models of mpz/{and,ior,xor,com,setbit,clrbit,combit,tstbit,scan0,scan1,
      hamdist}.c and of the inline mpz_popcount (mpir.h:2084-2095), following the C control flow.
  (c) A Mathlib-free specification of two's-complement and/or/xor/not/testBit on `Int` (four sign cases over
      `Nat` magnitudes).  MpirProofs/Lemmas/Bits.lean proves it equal to Mathlib's
      `Int.land/lor/xor/lnot/testBit`.

  Tie = correspondence: ops `mpn_and_n … mpz_hamdist` in Mpir/Ops/Bits.lean answer with the models of (a),(b).
-/
import Mpir.Base
namespace Mpir.Bits
open Mpir

/-! ## (a) limb-vector kernels -/

/-- `~x & GMP_NUMB_MASK` on one limb. -/
def lnotL (x : Nat) : Nat := B - 1 - x

/-- `-x` on one limb (unsigned wrap). -/
def negL (x : Nat) : Nat := (B - x) % B

/-- MPN_LOGOPS_N_INLINE: one operation per limb, both sources advance together (gmp-impl.h:2285-2297).
    `List.zipWith` stops at the shorter list; the C takes one size `n` for both. -/
def and_n  (u v : List Nat) : List Nat := List.zipWith (fun a b => a &&& b) u v            -- gmp-impl.h:2301
def andn_n (u v : List Nat) : List Nat := List.zipWith (fun a b => a &&& lnotL b) u v      -- :2307  s1 & ~s2
def nand_n (u v : List Nat) : List Nat := List.zipWith (fun a b => lnotL (a &&& b)) u v    -- :2313
def ior_n  (u v : List Nat) : List Nat := List.zipWith (fun a b => a ||| b) u v            -- :2319
def iorn_n (u v : List Nat) : List Nat := List.zipWith (fun a b => a ||| lnotL b) u v      -- :2325  s1 | ~s2
def nior_n (u v : List Nat) : List Nat := List.zipWith (fun a b => lnotL (a ||| b)) u v    -- :2331
def xor_n  (u v : List Nat) : List Nat := List.zipWith (fun a b => a ^^^ b) u v            -- :2337
def xnor_n (u v : List Nat) : List Nat := List.zipWith (fun a b => lnotL (a ^^^ b)) u v    -- :2343
/-- mpn/generic/com_n.c:33-36 -/
def com_n (u : List Nat) : List Nat := u.map lnotL

/-- Number of one bits among the low `k` bits. -/
def popcAux : Nat → Nat → Nat
  | 0, _ => 0
  | k + 1, x => x % 2 + popcAux k (x / 2)

/-- `popc_limb` (gmp-impl.h:3321-3334) and the per-limb SWAR of mpn/generic/popcount.c, *defined by its
    meaning* (number of one bits of a 64-bit limb): W-layer primitive, tied by correspondence only. -/
def popc (x : Nat) : Nat := popcAux 64 x

/-- mpn/generic/popcount.c (POPHAM(u,v) = u): sum over the limbs. -/
def mpn_popcount (u : List Nat) : Nat := (u.map popc).sum
/-- mpn/generic/hamdist.c (POPHAM(u,v) = u ^ v). -/
def mpn_hamdist (u v : List Nat) : Nat := ((xor_n u v).map popc).sum

/-- Index of the lowest one bit among the low `k` bits (0 if there is none). -/
def ctzAux : Nat → Nat → Nat
  | 0, _ => 0
  | k + 1, x => if x % 2 = 1 then 0 else 1 + ctzAux k (x / 2)

/-- `count_trailing_zeros` (`bsfq`, longlong.h:222-226), defined by its meaning; the C requires `x ≠ 0`. -/
def ctz (x : Nat) : Nat := ctzAux 64 x

/-- `- (mp_limb_t) 1 << k`  =  `MP_LIMB_T_MAX << k`  (bits k..63 set), 0 ≤ k ≤ 63. -/
def maskHi (k : Nat) : Nat := B - 2 ^ k
/-- `(CNST_LIMB(1) << k) - 1` (bits 0..k-1 set). -/
def maskLo (k : Nat) : Nat := 2 ^ k - 1

/-- `while (limb == 0) limb = *p++` : first non-zero limb and its index; `none` = ran off the data. -/
def skipZero : List Nat → Nat → Option (Nat × Nat)
  | [], _ => none
  | x :: xs, i => if x = 0 then skipZero xs (i + 1) else some (i, x)

/-- `while (limb == GMP_NUMB_MAX) limb = *p++`. -/
def skipOnes : List Nat → Nat → Option (Nat × Nat)
  | [], _ => none
  | x :: xs, i => if x = B - 1 then skipOnes xs (i + 1) else some (i, x)

/-- mpn/generic/scan1.c:35-52.  `none` = the C's documented precondition ("U must sooner or later have a
    limb != 0", at or after the starting position) is violated: the C would read past the operand. -/
def mpn_scan1 (u : List Nat) (start : Nat) : Option Nat :=
  let w := start / 64                                       -- :44
  match u.drop w with
  | [] => none
  | x :: rest =>
    let alimb := x &&& maskHi (start % 64)                  -- :46-48
    (skipZero (alimb :: rest) w).map fun (i, l) => i * 64 + ctz l   -- :49-52

/-- mpn/generic/scan0.c:35-52: the same on the complemented limbs (`*p++ ^ GMP_NUMB_MASK`). -/
def mpn_scan0 (u : List Nat) (start : Nat) : Option Nat :=
  let w := start / 64
  match u.drop w with
  | [] => none
  | x :: rest =>
    let alimb := lnotL x &&& maskHi (start % 64)
    (skipZero (alimb :: com_n rest) w).map fun (i, l) => i * 64 + ctz l

/-! ## helpers shared by the mpz models -/

/-- Tail of `__GMPN_AORS_1` for `+` (mpir.h:2242-2255): add 1 while the limb wraps; (limbs, carry out). -/
def incr : List Nat → List Nat × Nat
  | [] => ([], 1)
  | x :: xs =>
      let r := (x + 1) % B
      if r < 1 then let (rs, c) := incr xs; (r :: rs, c) else (r :: xs, 0)

/-- `mpn_add_1 (rp, up, n, v)` = `__GMPN_ADD_1` (mpir.h:2228-2263, 2308), n ≥ 1. -/
def addLimb : List Nat → Nat → List Nat × Nat
  | [], v => ([], v)                  -- outside the C domain (n ≥ 1); not reached by the models below
  | x :: xs, v =>
      let r := (x + v) % B
      if r < v then let (rs, c) := incr xs; (r :: rs, c) else (r :: xs, 0)

/-- Tail of `__GMPN_AORS_1` for `-`: subtract 1 while the limb was zero; (limbs, borrow out). -/
def decr : List Nat → List Nat × Nat
  | [] => ([], 1)
  | x :: xs =>
      let r := (x + B - 1) % B
      if x < 1 then let (rs, c) := decr xs; (r :: rs, c) else (r :: xs, 0)

/-- `mpn_sub_1 (rp, up, n, v)` = `__GMPN_SUB_1`, n ≥ 1. -/
def subLimb : List Nat → Nat → List Nat × Nat
  | [], v => ([], v)
  | x :: xs, v =>
      let r := (x + B - v) % B
      if x < v then let (rs, c) := decr xs; (r :: rs, c) else (r :: xs, 0)

/-- `for (i = n - 1; i >= 0; i--) if (l[i] != 0) break;  return i + 1;`  — also what MPN_NORMALIZE computes. -/
def scanTop (l : List Nat) : Nat := (l.reverse.dropWhile (· == 0)).length

/-- `for (zero_bound = 0; ; zero_bound++) if (dp[zero_bound] != 0) break;` -/
def zeroBound (l : List Nat) : Nat := (l.takeWhile (· == 0)).length

/-- `cy = mpn_add_1 (rp, rp, n, 1); if (cy) { rp[n] = cy; n++; }` -/
def addOneGrow (r : List Nat) : List Nat :=
  let (s, cy) := addLimb r 1
  if cy ≠ 0 then s ++ [cy] else s

/-- `size -= ptr[size - 1] == 0` -/
def dropTopZero (l : List Nat) : List Nat := if l.getLast? = some 0 then l.dropLast else l

/-- `__GMP_BITCNT_MAX`, `~(mp_bitcnt_t) 0` -/
def BITCNT_MAX : Nat := B - 1

/-- An mpz value: sign flag and magnitude limbs (`_mp_size = ± mag.length`).  `neg` with an empty magnitude
    has no C counterpart (`WF` excludes it). -/
structure Z where
  neg : Bool
  mag : List Nat
  deriving Repr, BEq, DecidableEq, Inhabited

def Z.toInt (z : Z) : Int := if z.neg then -(Int.ofNat (val z.mag)) else Int.ofNat (val z.mag)
def Z.ofInt (x : Int) : Z := ⟨decide (x < 0), natLimbs x.natAbs⟩

/-- Well-formed: proper limbs, high limb non-zero, zero is not negative. -/
def Z.WF (z : Z) : Prop := Limbs z.mag ∧ z.mag.getLast? ≠ some 0 ∧ (z.neg = true → z.mag ≠ [])

instance (z : Z) : Decidable z.WF := by unfold Z.WF; infer_instance

/-! ## (b) mpz_and  (mpz/and.c; ANDNEW is not defined, so lines 203-266 are the live positive-negative code) -/

/-- and.c:46-69 — both non-negative. -/
def andPP (a b : List Nat) : Z :=
  let rs := scanTop (and_n a b)                       -- :48-53  res_size = MIN, scan down for a non-zero limb
  ⟨false, and_n (a.take rs) (b.take rs)⟩              -- :65-67

/-- and.c:205-265 — `a` = op1 ≥ 0, `b` = |op2|, op2 < 0:  op1 & ~(|op2| - 1). -/
def andPN (a b : List Nat) : Z :=
  let o2 := (subLimb b 1).1                           -- :212-215
  if a.length > b.length then                         -- :217
    ⟨false, andn_n a o2 ++ a.drop b.length⟩           -- :221,234-239  (no normalisation: op1 is normalised)
  else
    let rs := scanTop (andn_n a o2)                   -- :245-248
    ⟨false, andn_n (a.take rs) (o2.take rs)⟩          -- :261-264

/-- and.c:77-142 — both negative:  -(((|a|-1) | (|b|-1)) + 1), possibly one limb longer. -/
def andNN (a b : List Nat) : Z :=
  let o1 := (subLimb a 1).1                           -- :98-100
  let o2 := (subLimb b 1).1                           -- :102-104
  let r := if a.length ≥ b.length then ior_n o1 o2 ++ o1.drop b.length     -- :115-122
           else ior_n o1 o2 ++ o2.drop a.length                             -- :123-130
  ⟨true, addOneGrow r⟩                                -- :132-139

def mpz_and (a b : Z) : Z :=
  if !a.neg then
    if !b.neg then andPP a.mag b.mag                  -- :44-69
    else andPN a.mag b.mag                            -- :70-73 fall through
  else
    if b.neg then andNN a.mag b.mag                   -- :77-142
    else andPN b.mag a.mag                            -- :143-149 swap

/-! ## mpz_ior  (mpz/ior.c) -/

/-- ior.c:46-85 -/
def iorPP (a b : List Nat) : Z :=
  if a.length ≥ b.length then ⟨false, ior_n a b ++ a.drop b.length⟩     -- :48-64
  else ⟨false, ior_n a b ++ b.drop a.length⟩                            -- :65-81

/-- ior.c:93-155 — both negative:  -(((|a|-1) & (|b|-1)) + 1); only MIN(sizes) limbs are decremented. -/
def iorNN (a b : List Nat) : Z :=
  let n := min a.length b.length                      -- :106
  let o1 := (subLimb (a.take n) 1).1                  -- :110-112
  let o2 := (subLimb (b.take n) 1).1                  -- :114-116
  let rs := scanTop (and_n o1 o2)                     -- :128-131
  if rs ≠ 0 then ⟨true, addOneGrow (and_n (o1.take rs) (o2.take rs))⟩   -- :133-145
  else ⟨true, [1]⟩                                    -- :146-150

/-- ior.c:165-235 — `a` = op1 ≥ 0, `b` = |op2|, op2 < 0:  -((~op1 & (|op2|-1)) + 1). -/
def iorPN (a b : List Nat) : Z :=
  let o2 := dropTopZero (subLimb b 1).1               -- :180-183
  if a.length ≥ o2.length then                        -- :194
    let rs := scanTop (andn_n o2 a)                   -- :200-204   ~op1[i] & op2[i]
    if rs ≠ 0 then ⟨true, addOneGrow (andn_n (o2.take rs) (a.take rs))⟩   -- :215-227
    else ⟨true, [1]⟩                                  -- :228-232
  else
    -- :208-212  res_size = op2_size (> op1_size ≥ 0, so the `res_size != 0` test at :215 holds)
    ⟨true, addOneGrow (andn_n o2 a ++ o2.drop a.length)⟩

def mpz_ior (a b : Z) : Z :=
  if !a.neg then
    if !b.neg then iorPP a.mag b.mag
    else iorPN a.mag b.mag
  else
    if b.neg then iorNN a.mag b.mag
    else iorPN b.mag a.mag                            -- :156-162 swap

/-! ## mpz_xor  (mpz/xor.c) -/

/-- The common shape xor.c:48-81 / 126-141 / 182-195: xor on the overlap, copy the longer operand's tail.
    (The strict / non-strict size tests of the three copies differ only when the sizes are equal, where both
    branches compute the same limbs.) -/
def xorCat (a b : List Nat) : List Nat :=
  if a.length > b.length then xor_n a b ++ a.drop b.length
  else xor_n a b ++ b.drop a.length

/-- xor.c:46-86 -/
def xorPP (a b : List Nat) : Z := ⟨false, normalize (xorCat a b)⟩          -- :83 MPN_NORMALIZE

/-- xor.c:94-147 — both negative: (|a|-1) ^ (|b|-1), non-negative. -/
def xorNN (a b : List Nat) : Z :=
  ⟨false, normalize (xorCat (subLimb a 1).1 (subLimb b 1).1)⟩            -- :108-114,126-144

/-- xor.c:157-207 — `a` = op1 ≥ 0, `b` = |op2|, op2 < 0:  -((op1 ^ (|op2|-1)) + 1). -/
def xorPN (a b : List Nat) : Z :=
  ⟨true, normalize (addOneGrow (xorCat a (subLimb b 1).1))⟩              -- :168-170,182-205

def mpz_xor (a b : Z) : Z :=
  if !a.neg then
    if !b.neg then xorPP a.mag b.mag
    else xorPN a.mag b.mag
  else
    if b.neg then xorNN a.mag b.mag
    else xorPN b.mag a.mag                            -- :148-154 swap

/-! ## mpz_com  (mpz/com.c) -/

def mpz_com (a : Z) : Z :=
  if !a.neg then                                      -- :33
    if a.mag.length = 0 then ⟨true, [1]⟩              -- :45-51
    else ⟨true, addOneGrow a.mag⟩                     -- :56-65   ~x = -(x+1)
  else
    ⟨false, dropTopZero (subLimb a.mag 1).1⟩          -- :72-84   ~(-m) = m-1

/-! ## mpz_tstbit  (mpz/tstbit.c) -/

/-- the limb of the infinite two's-complement expansion of `-val mag` at index `li < mag.length`:
    `-limb`, turned into `~limb` when some lower limb is non-zero (tstbit.c:54-67; same test in
    combit.c:51-60, scan0.c:75-87, scan1.c:82-111). -/
def twosLimb (mag : List Nat) (li : Nat) : Nat :=
  let l := negL (mag.getD li 0)
  if (mag.take li).any (· != 0) then (l + B - 1) % B else l

def mpz_tstbit (u : Z) (bit_index : Nat) : Nat :=
  let li := bit_index / 64                            -- :46
  if li ≥ u.mag.length then (if u.neg then 1 else 0)  -- :50-51
  else
    let limb := if u.neg then twosLimb u.mag li else u.mag.getD li 0     -- :53-67
    (limb >>> (bit_index % 64)) % 2                   -- :69

/-! ## mpz_setbit / mpz_clrbit / mpz_combit -/

/-- setbit.c:92-109, clrbit.c:92-110: the limb at `li` became 0 after the `+ 1`; carry into the limbs above,
    growing by one limb when it runs off the end. -/
def carryAbove (d : List Nat) (li : Nat) : List Nat :=
  let (r, c) := incr (d.drop (li + 1))
  d.take (li + 1) ++ (if c ≠ 0 then r ++ [1] else r)

/-- `do dsize--; while (dsize > 0 && dp[dsize-1] == 0)` entered when the high limb became zero. -/
def stripTop (d : List Nat) : List Nat := normalize d

def mpz_setbit (d : Z) (bit_index : Nat) : Z :=
  let li := bit_index / 64                            -- setbit.c:33
  let bit := 2 ^ (bit_index % 64)
  let n := d.mag.length
  if !d.neg then
    if li < n then ⟨false, d.mag.set li (d.mag.getD li 0 ||| bit)⟩          -- :36-40
    else ⟨false, d.mag ++ List.replicate (li - n) 0 ++ [bit]⟩               -- :41-50
  else
    let zb := zeroBound d.mag                         -- :65-67
    if li > zb then                                   -- :69
      if li < n then
        let dlimb := d.mag.getD li 0 &&& lnotL bit    -- :74-76
        let m := d.mag.set li dlimb
        if dlimb = 0 ∧ li = n - 1 then ⟨true, stripTop m⟩    -- :78-85
        else ⟨true, m⟩
      else d                                          -- bit already 1 in the sign extension
    else if li = zb then                              -- :88
      let x := (((d.mag.getD li 0 + B - 1) % B) &&& lnotL bit) + 1          -- :90-91
      let x := x % B
      let m := d.mag.set li x
      if x = 0 then ⟨true, carryAbove m li⟩           -- :92-109
      else ⟨true, m⟩
    else
      -- :111-117  mpn_decr_u (dp + limb_index, bit): the same borrow loop as mpn_sub_1, no size bound
      ⟨true, dropTopZero (d.mag.take li ++ (subLimb (d.mag.drop li) bit).1)⟩

def mpz_clrbit (d : Z) (bit_index : Nat) : Z :=
  let li := bit_index / 64                            -- clrbit.c:32
  let bit := 2 ^ (bit_index % 64)
  let n := d.mag.length
  if !d.neg then
    if li < n then
      let dlimb := d.mag.getD li 0 &&& lnotL bit      -- :38-40
      let m := d.mag.set li dlimb
      if dlimb = 0 ∧ li = n - 1 then ⟨false, stripTop m⟩     -- :42-49
      else ⟨false, m⟩
    else d                                            -- :51-52
  else
    let zb := zeroBound d.mag                         -- :67-69
    if li > zb then                                   -- :71
      if li < n then ⟨true, d.mag.set li (d.mag.getD li 0 ||| bit)⟩         -- :73-74
      else ⟨true, d.mag ++ List.replicate (li - n) 0 ++ [bit]⟩              -- :75-85
    else if li = zb then                              -- :87
      let x := ((((d.mag.getD li 0 + B - 1) % B) ||| bit) + 1) % B          -- :89-91
      let m := d.mag.set li x
      if x = 0 then ⟨true, carryAbove m li⟩           -- :92-110
      else ⟨true, m⟩
    else d                                            -- :112-113

def mpz_combit (d : Z) (bit_index : Nat) : Z :=
  let li := bit_index / 64                            -- combit.c:31
  let bit := 2 ^ (bit_index % 64)                     -- :32
  let dp := if li ≥ d.mag.length then d.mag ++ List.replicate (li + 1 - d.mag.length) 0 else d.mag   -- :34-41
  if !d.neg then                                      -- :43
    ⟨false, normalize (dp.set li (dp.getD li 0 ^^^ bit))⟩                  -- :45-47
  else
    let x := twosLimb dp li                           -- :51-60
    if x &&& bit ≠ 0 then                             -- :62
      -- :70-73  __GMPN_ADD_1 (c, dp+li, dp+li, dsize-li, bit); dp[dsize] = c; dsize += c
      let (r, c) := addLimb (dp.drop li) bit
      ⟨true, normalize (dp.take li ++ r ++ [c])⟩      -- :79 (a zero `c` limb is dropped by MPN_NORMALIZE / dsize += 0)
    else
      -- :77  mpn_sub_1 (dp+li, dp+li, dsize + li, bit).  NOTE the size argument `dsize + limb_index`
      -- (it should be `dsize - limb_index`).  The inline __GMPN_SUB_1 used by the build stops at the first
      -- limb that absorbs the borrow and copies nothing when src == dst, so only the limbs below `dsize` are
      -- touched; modelled as the subtraction on the `dsize - li` limbs that exist.
      ⟨true, normalize (dp.take li ++ (subLimb (dp.drop li) bit).1)⟩       -- :79-80

/-! ## mpz_scan0 / mpz_scan1 -/

/-- scan0.c:56-65 / scan1.c:113-130: seek a 0 bit at or after `start` in `limb :: rest`, `limb` being the
    (already adjusted) limb at index `p`; past the end the answer is `n * 64`. -/
def seekZero (limb : Nat) (rest : List Nat) (p start n : Nat) : Nat :=
  match skipOnes ((limb ||| maskLo (start % 64)) :: rest) p with
  | some (i, l) => i * 64 + ctz (lnotL l)
  | none => n * 64

/-- scan1.c:51-72 / scan0.c:92-113: seek a 1 bit at or after `start`; `none` = the masked limb was the high
    limb (no such bit).  For a normalised operand the inner search always succeeds. -/
def seekOne (limb : Nat) (rest : List Nat) (p start : Nat) : Option Nat :=
  let limb := limb &&& maskHi (start % 64)
  if limb = 0 then
    if rest.length = 0 then none                      -- `p++; if (p == u_end) return MAX`
    else (skipZero rest (p + 1)).map fun (i, l) => i * 64 + ctz l
  else some (p * 64 + ctz limb)

def mpz_scan1 (u : Z) (start : Nat) : Nat :=
  let n := u.mag.length
  let sl := start / 64                                -- scan1.c:37
  if sl ≥ n then (if !u.neg then BITCNT_MAX else start)          -- :44-45
  else
    let limb := u.mag.getD sl 0                       -- :47
    let rest := u.mag.drop (sl + 1)
    if !u.neg then (seekOne limb rest sl start).getD BITCNT_MAX   -- :49-73
    else
      if (u.mag.take sl).any (· != 0) then seekZero limb rest sl start n      -- :82-88 → inverted
      else if limb = 0 then
        -- :90-108 skip zero limbs, two's complement of the first non-zero one
        match skipZero rest (sl + 1) with
        | some (i, l) => i * 64 + ctz (negL l)
        | none => 0                                   -- not reachable for a normalised operand
      else seekZero ((limb + B - 1) % B) rest sl start n          -- :111 limb--, then inverted

def mpz_scan0 (u : Z) (start : Nat) : Nat :=
  let n := u.mag.length
  let sl := start / 64                                -- scan0.c:37
  if sl ≥ n then (if !u.neg then start else BITCNT_MAX)          -- :44-45
  else
    let limb := u.mag.getD sl 0
    let rest := u.mag.drop (sl + 1)
    if !u.neg then seekZero limb rest sl start n      -- :49-66
    else
      let limb := if (u.mag.take sl).any (· != 0) then limb else (limb + B - 1) % B   -- :75-87
      (seekOne limb rest sl start).getD BITCNT_MAX    -- :89-113

/-! ## mpz_popcount (mpir.h:2084-2095) and mpz_hamdist (mpz/hamdist.c) -/

def mpz_popcount (u : Z) : Nat :=
  if u.neg then BITCNT_MAX
  else if u.mag.length > 0 then mpn_popcount u.mag else 0

/-- hamdist.c:71-92: skip common low zero limbs; returns (ulimb, vlimb, rest of u, rest of v), swapped so that
    `ulimb ≠ 0`.  `none`: an operand ran out (the C's ASSERTs; impossible for normalised negatives). -/
def hamSkip : List Nat → List Nat → Option (Nat × Nat × List Nat × List Nat)
  | ul :: us, vl :: vs =>
      if ul ≠ 0 then some (ul, vl, us, vs)
      else if vl ≠ 0 then some (vl, 0, vs, us)
      else hamSkip us vs
  | _, _ => none

/-- hamdist.c:137-162: plain hamdist on the overlap, popcount of what remains of the longer one. -/
def hamTail (up vp : List Nat) : Nat :=
  let step := min up.length vp.length                 -- :139
  let c := if step ≠ 0 then mpn_hamdist (up.take step) (vp.take step) else 0
  let up := up.drop step
  let vp := vp.drop step
  if up.length ≠ 0 then c + mpn_popcount up           -- :151-155
  else if vp.length ≠ 0 then c + mpn_popcount vp      -- :156-161
  else c

/-- hamdist.c:94-162: after the common low zero limbs; `ul ≠ 0` and `vl` are the first limbs, `up`/`vp` the rest. -/
def hamBody (ul vl : Nat) (up vp : List Nat) : Nat :=
  let ulimb := negL ul                              -- :96
  let vlimb := negL vl                              -- :97
  let count := popc (ulimb ^^^ vlimb)               -- :98
  if vlimb = 0 then                                 -- :100
    match skipZero vp 0 with                        -- :105-112  first non-zero limb of v
    | none => 0                                     -- not reachable for a normalised operand
    | some (k, vl1) =>
      let vp := vp.drop (k + 1)
      let count := count + k * 64                   -- :115-116   step = number of skipped zero limbs
      let step := min k up.length                   -- :117
      let count := if step ≠ 0 then count - mpn_popcount (up.take step) else count   -- :118-123
      let up := up.drop step
      let vlimb := vl1 - 1                          -- :127
      let (vlimb, up) := match up with              -- :128-132
        | [] => (vlimb, [])
        | x :: xs => (vlimb ^^^ x, xs)
      count + popc vlimb + hamTail up vp            -- :133-134
  else count + hamTail up vp

/-- hamdist.c:65-163, both negative. -/
def hamNN (u v : List Nat) : Nat :=
  match hamSkip u v with
  | none => 0                                       -- not reachable for normalised operands
  | some (ul, vl, up, vp) => hamBody ul vl up vp

/-- hamdist.c:42-55, both non-negative, `up` the longer operand. -/
def hamLong (up vp : List Nat) : Nat :=
  let count := if vp.length ≠ 0 then mpn_hamdist up vp else 0        -- :47-49
  let rest := up.drop vp.length                     -- :51
  if rest.length ≠ 0 then count + mpn_popcount rest else count       -- :52-55

def mpz_hamdist (u v : Z) : Nat :=
  if !u.neg then
    if v.neg then BITCNT_MAX                          -- :39-40
    else if u.mag.length < v.mag.length then hamLong v.mag u.mag     -- :44-45 swap
    else hamLong u.mag v.mag
  else
    if !v.neg then BITCNT_MAX                         -- :62-63
    else hamNN u.mag v.mag

/-! ## (c) specification on `Int`: infinite two's complement, four sign cases over `Nat` magnitudes.
    `-[m+1] = -(m+1) = ~m`, so a negative operand contributes the complemented bits of `m`. -/

/-- bits of `m` that are not in `n` -/
def ldiff (m n : Nat) : Nat := Nat.bitwise (fun a b => a && !b) m n

def land : Int → Int → Int
  | .ofNat m, .ofNat n => Int.ofNat (m &&& n)
  | .ofNat m, .negSucc n => Int.ofNat (ldiff m n)
  | .negSucc m, .ofNat n => Int.ofNat (ldiff n m)
  | .negSucc m, .negSucc n => .negSucc (m ||| n)

def lor : Int → Int → Int
  | .ofNat m, .ofNat n => Int.ofNat (m ||| n)
  | .ofNat m, .negSucc n => .negSucc (ldiff n m)
  | .negSucc m, .ofNat n => .negSucc (ldiff m n)
  | .negSucc m, .negSucc n => .negSucc (m &&& n)

def lxor : Int → Int → Int
  | .ofNat m, .ofNat n => Int.ofNat (m ^^^ n)
  | .ofNat m, .negSucc n => .negSucc (m ^^^ n)
  | .negSucc m, .ofNat n => .negSucc (m ^^^ n)
  | .negSucc m, .negSucc n => Int.ofNat (m ^^^ n)

def lnot : Int → Int
  | .ofNat m => .negSucc m
  | .negSucc m => .ofNat m

def testBit : Int → Nat → Bool
  | .ofNat m, i => m.testBit i
  | .negSucc m, i => !(m.testBit i)

/-- number of one bits of a natural number -/
def popcount (n : Nat) : Nat := if h : n = 0 then 0 else n % 2 + popcount (n / 2)
decreasing_by omega

/-- spec answers of the scanning / counting functions (used by the driver's run-time model==spec check):
    smallest index ≥ start whose bit equals `b`, searching `fuel` positions. -/
def findBit (x : Int) (b : Bool) : Nat → Nat → Option Nat
  | 0, _ => none
  | fuel + 1, i => if testBit x i = b then some i else findBit x b fuel (i + 1)

/-- `bound` = a bit length beyond which `x` is constant (its sign). -/
def specScan (x : Int) (b : Bool) (start bound : Nat) : Nat :=
  if start ≥ bound then (if decide (x < 0) = b then start else BITCNT_MAX)
  else (findBit x b (bound + 1 - start) start).getD BITCNT_MAX

def specPopcount (x : Int) : Nat := if x < 0 then BITCNT_MAX else popcount x.toNat
def specHamdist (x y : Int) : Nat :=
  if decide (x < 0) ≠ decide (y < 0) then BITCNT_MAX else popcount (lxor x y).toNat

end Mpir.Bits
