/-
  The input language of `mpf_set_str` (property C13) as a GRAMMAR, written independently of the scanner model
  `MpfStr.parse` (Model/MpfStr.lean mirrors /repo/mpf/set_str.c:207-304, 352-376 statement by statement: it looks for
  the exponent marker from the RIGHT, then walks the mantissa with a right fold).  Here the language is described
  left to right, the way doc/mpir.texi ("mpf_set_str": `M@N`, or `MeN` for bases up to 10) describes it:

      string   ::= space* '-'? body                                  (the C string, i.e. up to the first NUL)
      body     ::= mant                                              exponent 0
                 | mant marker junk        if the mantissa is zero   (set_str.c:334-340 returns before reading N)
                 | mant marker expo junk   otherwise
      mant     ::= first item*             where, white space removed, it reads  D* ( '.' D* )?
      first    ::= D | '.' followed IMMEDIATELY by D                 (set_str.c:238-246: no white space here)
      item     ::= D | '.' | space
      marker   ::= '@' | ('e' | 'E' when the base of the digits is <= 10)
      expo     ::= ('+' | '-')? X+         X = digit of the exponent base: the base itself if base > 0, else decimal;
                                           the LONGEST run of such digits is the exponent
      junk     ::= any bytes not containing a marker (and, after expo, not starting with X)

  D = byte whose digit value (table of set_str.c:232-235: case-insensitive up to base 36, `0-9A-Za-z` above) is below
  the base.  The decimal point is '.', i.e. the C locale (the harness never calls setlocale).
  Core Lean only.
-/
import Mpir.Base
import Mpir.Model.MpfStr
namespace Mpir.MpfParse
open Mpir Mpir.MpfStr

/-- digit value of a byte under the alphabet used for digits of base `b` (set_str.c:220, 230-235) -/
def dv (b : Nat) (c : Nat) : Nat := Radix.digitValue (if 36 < b then 224 else 0) c

/-- `c` is a digit below `r` (alphabet of base `b`) -/
def isDig (b r c : Nat) : Bool := decide (dv b c < r)

/-- the C string: the bytes before the first NUL -/
def cstr (s : List Nat) : List Nat := s.takeWhile (· != 0)

/-- `D* ('.' D*)?` on the text without white space: the digit values and, when there is a point, the number of
    digits after it -/
def mantText (b : Nat) (t : List Nat) : Option (List Nat × Option Nat) :=
  let ip := t.takeWhile (· != 46)
  match t.dropWhile (· != 46) with
  | [] => if ip.all (isDig b b) then some (ip.map (dv b), none) else none
  | _ :: fp =>
    if ip.all (isDig b b) && fp.all (isDig b b) then some ((ip ++ fp).map (dv b), some fp.length) else none

/-- `mant`: white space is simply ignored -/
def mantissa (b : Nat) (m : List Nat) : Option (List Nat × Option Nat) :=
  mantText b (m.filter (fun c => !Radix.isSpace c))

/-- `expo junk`: optional sign, the longest run of digits of base `eb`, at least one -/
def exponent (b eb : Nat) (e : List Nat) : Option Int :=
  let signed := e.head? == some 43 || e.head? == some 45
  let run := (if signed then e.tail else e).takeWhile (isDig b eb)
  if run.length = 0 then none
  else
    let v : Int := (Radix.ofDigits eb (run.map (dv b)) : Nat)
    some (if e.head? == some 45 then -v else v)

/-- `body` for digits of base `b`, exponent digits of base `eb` -/
def body (neg : Bool) (b eb : Nat) : List Nat → Option Parsed
  | [] => none
  | c :: rest =>
    -- first ::= D | '.' D
    if !(isDig b b c || (c == 46 && isDig b b (rest.headD 0))) then none else
    let m := c :: rest.takeWhile (fun x => !isMarker b x)          -- up to the FIRST marker
    match mantissa b m with
    | none => none
    | some (ds, pt) =>
      let frac := pt.getD 0
      match rest.dropWhile (fun x => !isMarker b x) with
      | [] => some ⟨neg, b, ds, frac, 0⟩
      | _ :: e =>
        if e.any (isMarker b) then none                              -- a second marker anywhere: not in the language
        else if Radix.ofDigits b ds = 0 then some ⟨neg, b, ds, frac, 0⟩
        else match exponent b eb e with
          | none => none
          | some x => some ⟨neg, b, ds, frac, x⟩

/-- The grammar recogniser with its denotation: `none` = not in the language.  `base` as passed to mpf_set_str:
    2..62 (exponent in the base), -62..-2 (exponent in decimal), 0 (= 10). -/
def recog (base : Int) (s0 : List Nat) : Option Parsed :=
  let b := if base = 0 then 10 else base.natAbs
  let eb := if base ≤ 0 then 10 else b
  if b < 2 || 62 < b then none else
  match (cstr s0).dropWhile Radix.isSpace with
  | 45 :: r => body true b eb r
  | r => body false b eb r

/-- membership -/
def accepts (base : Int) (s : List Nat) : Bool := (recog base s).isSome

/-! ## The same language as an inductive grammar (the way the manual would state it)

    string ::= space* body | space* '-' body            (`Lang`)
    body   ::= mant | mant marker junk (mantissa zero) | mant marker expo-junk     (`Body`)
    mant   ::= text derivable by `Mant` that begins with a digit, or with '.' and a digit (`First`)
    Mant   ::= empty | space Mant | D Mant | '.' Mant-without-point
    expo-junk ::= ('+' | '-')? X+ junk, junk not beginning with X  (`Expo`);  no marker anywhere after the marker -/

/-- mantissa text: digits of base `b`, white space anywhere, at most one point.  `Mant b t ds pt`: the text `t`
    spells the digits `ds`; `pt` = number of digits after the point, if there is one -/
inductive Mant (b : Nat) : List Nat → List Nat → Option Nat → Prop
  | nil : Mant b [] [] none
  | space {c t ds pt} : Radix.isSpace c = true → Mant b t ds pt → Mant b (c :: t) ds pt
  | digit {c t ds pt} : dv b c < b → Mant b t ds pt → Mant b (c :: t) (dv b c :: ds) pt
  | point {t ds} : Mant b t ds none → Mant b (46 :: t) ds (some ds.length)

/-- the mantissa begins with a digit, or with a point immediately followed by a digit -/
def First (b : Nat) (m : List Nat) : Prop :=
  (∃ c t, m = c :: t ∧ dv b c < b) ∨ (∃ d t, m = 46 :: d :: t ∧ dv b d < b)

/-- no exponent marker in the text -/
def NoMarker (b : Nat) (l : List Nat) : Prop := ∀ x ∈ l, isMarker b x = false

/-- exponent text: optional sign, a non-empty run of digits of base `eb`, then anything that does not begin with
    such a digit (ignored) -/
inductive Expo (b eb : Nat) : List Nat → Int → Prop
  | unsigned {run tail} : run ≠ [] → (∀ c ∈ run, dv b c < eb) → (∀ c, tail.head? = some c → ¬ dv b c < eb) →
      Expo b eb (run ++ tail) ((Radix.ofDigits eb (run.map (dv b)) : Nat) : Int)
  | plus {run tail} : run ≠ [] → (∀ c ∈ run, dv b c < eb) → (∀ c, tail.head? = some c → ¬ dv b c < eb) →
      Expo b eb (43 :: (run ++ tail)) ((Radix.ofDigits eb (run.map (dv b)) : Nat) : Int)
  | minus {run tail} : run ≠ [] → (∀ c ∈ run, dv b c < eb) → (∀ c, tail.head? = some c → ¬ dv b c < eb) →
      Expo b eb (45 :: (run ++ tail)) (-((Radix.ofDigits eb (run.map (dv b)) : Nat) : Int))

/-- what follows white space and sign -/
inductive Body (neg : Bool) (b eb : Nat) : List Nat → Parsed → Prop
  /-- `M` -/
  | plain {m ds pt} : First b m → Mant b m ds pt → Body neg b eb m ⟨neg, b, ds, pt.getD 0, 0⟩
  /-- `M@…` with a zero mantissa: what follows the marker is not read (but must not contain a marker) -/
  | zero {m ds pt k junk} : First b m → Mant b m ds pt → Radix.ofDigits b ds = 0 → isMarker b k = true →
      NoMarker b junk → Body neg b eb (m ++ k :: junk) ⟨neg, b, ds, pt.getD 0, 0⟩
  /-- `M@N…` -/
  | expo {m ds pt k e x} : First b m → Mant b m ds pt → Radix.ofDigits b ds ≠ 0 → isMarker b k = true →
      NoMarker b e → Expo b eb e x → Body neg b eb (m ++ k :: e) ⟨neg, b, ds, pt.getD 0, x⟩

/-- base of the digits: |base|, 10 for 0 -/
def digitBase (base : Int) : Nat := if base = 0 then 10 else base.natAbs
/-- base of the exponent: the base itself if positive, else decimal -/
def expoBase (base : Int) : Nat := if base ≤ 0 then 10 else digitBase base

/-- **the language of mpf_set_str (base)**: `Lang base s p` — the C string `s` (no NUL) is accepted and denotes `p` -/
inductive Lang (base : Int) : List Nat → Parsed → Prop
  | pos {ws r p} : 2 ≤ digitBase base → digitBase base ≤ 62 → (∀ x ∈ ws, Radix.isSpace x = true) →
      Body false (digitBase base) (expoBase base) r p → Lang base (ws ++ r) p
  | neg {ws r p} : 2 ≤ digitBase base → digitBase base ≤ 62 → (∀ x ∈ ws, Radix.isSpace x = true) →
      Body true (digitBase base) (expoBase base) r p → Lang base (ws ++ 45 :: r) p

end Mpir.MpfParse
