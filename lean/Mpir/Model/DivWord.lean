/-
  C02, word level: the 64-bit division primitives of gmp-impl.h / longlong.h and the one-limb division
  kernels, mirrored statement by statement (64-bit limbs, no nails, x86_64 build of /repo).
  Core Lean only.  Every C unsigned operation is written `% B`, every comparison as in the C.

  Trusted W primitives (inline asm of longlong.h:154-199, defined here by their arithmetic meaning):
    umul_ppmm (mulq, in Model/Kernels.lean), add_ssaaaa (addq/adcq), sub_ddmmss (subq/sbbq),
    udiv_qrnnd (divq; traps unless n1 < d), count_leading_zeros (bsrq ^ 63), count_trailing_zeros (bsfq).

  Which code is compiled is decided by macros resolved in Mpir/Gen/DivParams.lean (regenerated):
    udiv_qrnnd_preinv = udiv_qrnnd_preinv2 (gmp-impl.h:2898), invert_limb = the udiv_qrnnd macro
    (gmp-impl.h:2822; no native mpn_invert_limb), UDIV_NEEDS_NORMALIZATION = 0, thresholds of
    mpn/x86_64/gmp-mparam.h.  Assembly in this build, modelled by the generic C of the same name
    (value-equal) or, for modexact_1c_odd, by the assembly's own dataflow:
      mpn_divrem_euclidean_qr_1 (mpn/x86_64/divrem_euclidean_qr_1.as ~ mpn/generic/divrem_euclidean_qr_1.c)
      mpn_divexact_by3c         (mpn/x86_64/divexact_by3c.as     = mpn/generic/divexact_by3c.c)
      mpn_modexact_1c_odd       (mpn/x86_64/modexact_1c_odd.as: no size==1 / high<=d shortcuts)
  Limb vectors are least significant first; loops that run from the top limb down recurse over the
  reversed list and produce the quotient most significant first.
-/
import Mpir.Base
import Mpir.Model.Kernels
import Mpir.Gen.ModlimbInvertTab
import Mpir.Gen.DivParams
namespace Mpir.DivWord
open Mpir

/-! ### trusted word primitives -/

/-- add_ssaaaa (longlong.h:154, addq/adcq): two-limb add mod B². Returns (sh, sl). -/
def add_ssaaaa (ah al bh bl : Nat) : Nat × Nat :=
  ((ah + bh + (al + bl) / B) % B, (al + bl) % B)

/-- sub_ddmmss (longlong.h:159, subq/sbbq): two-limb subtract mod B². Returns (sh, sl). -/
def sub_ddmmss (ah al bh bl : Nat) : Nat × Nat :=
  ((ah + B + B - bh - boolToNat (al < bl)) % B, (al + B - bl) % B)

/-- udiv_qrnnd (longlong.h:168, divq): quotient and remainder of n1·B+n0 by d.  The instruction
    faults unless n1 < d; the model is only used (and its theorems only stated) under n1 < d. -/
def udiv_qrnnd (n1 n0 d : Nat) : Nat × Nat :=
  (((n1 * B + n0) / d) % B, (n1 * B + n0) % d)

/-- count_leading_zeros (longlong.h:186, bsrq then ^63); x ≠ 0. -/
def count_leading_zeros (x : Nat) : Nat := 63 - Nat.log2 x

def ctzGo : Nat → Nat → Nat
  | 0, _ => 0
  | f + 1, x => if x % 2 = 1 then 0 else 1 + ctzGo f (x / 2)
/-- count_trailing_zeros (longlong.h:194, bsfq); x ≠ 0. -/
def count_trailing_zeros (x : Nat) : Nat := ctzGo 64 x

def HIGHBIT : Nat := B / 2          -- GMP_LIMB_HIGHBIT
def LIMB_MAX : Nat := B - 1         -- MP_LIMB_T_MAX

/-- LIMB_HIGHBIT_TO_MASK (gmp-impl.h:2806): arithmetic shift right by 63. -/
def LIMB_HIGHBIT_TO_MASK (n : Nat) : Nat := if HIGHBIT ≤ n then B - 1 else 0

/-- ABOVE_THRESHOLD (gmp-impl.h:1817): thresh == 0 || (thresh != MP_SIZE_T_MAX && size >= thresh). -/
def ABOVE_THRESHOLD (size : Nat) : Gen.Threshold → Bool
  | none => false
  | some t => t == 0 || decide (size ≥ t)
def BELOW_THRESHOLD (size : Nat) (t : Gen.Threshold) : Bool := !ABOVE_THRESHOLD size t

-- the configuration this model mirrors (a regenerated DivParams.lean that differs breaks the build)
example : Gen.UDIV_QRNND_PREINV_VARIANT = 2 := rfl
example : Gen.UDIV_NEEDS_NORMALIZATION = 0 := rfl

/-! ### gmp-impl.h macros -/

/-- invert_limb (gmp-impl.h:2822-2828): udiv_qrnnd (invxl, dummy, ~xl, ~0, xl).  Needs xl ≥ B/2
    (otherwise ~xl ≥ xl and divq faults). -/
def invert_limb (xl : Nat) : Nat := (udiv_qrnnd (B - 1 - xl) (B - 1) xl).1

/-- udiv_qrnnd_preinv1, gmp-impl.h:2916-2925: `if (_xh != 0) { sub_ddmmss (_xh, _r, _xh, _r, 0, d); _q += 1;
    if (_xh != 0) { _r -= d; _q += 1; } }`.  Returns (q, r). -/
def preinv1Adj1 (q xh r d : Nat) : Nat × Nat :=
  if xh != 0 then
    let s := sub_ddmmss xh r 0 d
    let q := (q + 1) % B
    if s.1 != 0 then ((q + 1) % B, (s.2 + B - d) % B) else (q, s.2)
  else (q, r)

/-- udiv_qrnnd_preinv1, gmp-impl.h:2926-2930: `if (_r >= d) { _r -= d; _q += 1; }`. -/
def preinv1Adj2 (q r d : Nat) : Nat × Nat :=
  if r ≥ d then ((q + 1) % B, (r + B - d) % B) else (q, r)

/-- udiv_qrnnd_preinv1 (gmp-impl.h:2907-2933).  Returns (q, r). -/
def udiv_qrnnd_preinv1 (nh nl d di : Nat) : Nat × Nat :=
  let p := umul_ppmm nh di
  let q := (p.1 + nh) % B            -- compensate, di is 2^64 too small
  let x := umul_ppmm q d
  let s := sub_ddmmss nh nl x.1 x.2
  let t := preinv1Adj1 q s.1 s.2 d
  preinv1Adj2 t.1 t.2 d

/-- udiv_qrnnd_preinv2 (gmp-impl.h:2936-2952), branch-free.  Returns (q, r). -/
def udiv_qrnnd_preinv2 (nh nl d di : Nat) : Nat × Nat :=
  let n2 := nh
  let n10 := nl
  let nmask := LIMB_HIGHBIT_TO_MASK n10
  let nadj := (n10 + (nmask &&& d)) % B
  let (xh, xl) := umul_ppmm di ((n2 + B - nmask) % B)
  let (xh, _xl) := add_ssaaaa xh xl n2 nadj
  let q1 := B - 1 - xh                              -- ~xh
  let (xh, xl) := umul_ppmm q1 d
  let (xh, xl) := add_ssaaaa xh xl nh nl
  let xh := (xh + B - d) % B                        -- 0 or -1
  ((xh + B - q1) % B, (xl + (d &&& xh)) % B)

/-- udiv_qrnnd_preinv (gmp-impl.h:2898-2900) -/
def udiv_qrnnd_preinv (nh nl d di : Nat) : Nat × Nat := udiv_qrnnd_preinv2 nh nl d di

/-- mpir_invert_pi1, gmp-impl.h:2837-2844: `if (_p < d0) { _v--; mask = -(_p >= d1); _p -= d1; _v += mask; _p -= mask & d1; }`.
    Returns (v, p). -/
def pi1PhaseA (v p d1 d0 : Nat) : Nat × Nat :=
  if p < d0 then
    let v := (v + B - 1) % B
    let mask := if p ≥ d1 then B - 1 else 0      -- -(mp_limb_t)(p >= d1)
    let p := (p + B - d1) % B
    let v := (v + mask) % B
    let p := (p + B - (mask &&& d1)) % B
    (v, p)
  else (v, p)

/-- mpir_invert_pi1, gmp-impl.h:2845-2857: add the high limb of d0·v, decrement v on carry (twice if p:t0 >= d). -/
def pi1PhaseB (v p d1 d0 : Nat) : Nat :=
  let (t1, t0) := umul_ppmm d0 v
  let p := (p + t1) % B
  if p < t1 then
    let v := (v + B - 1) % B
    if p ≥ d1 then
      if p > d1 || t0 ≥ d0 then (v + B - 1) % B else v
    else v
  else v

/-- mpir_invert_pi1 / invert_pi1 (gmp-impl.h:2831-2861). -/
def invert_pi1 (d1 d0 : Nat) : Nat :=
  let v := invert_limb d1
  let p := (d1 * v) % B
  let p := (p + d0) % B
  let vp := pi1PhaseA v p d1 d0
  pi1PhaseB vp.1 vp.2 d1 d0

/-- udiv_qr_3by2, gmp-impl.h:2877-2881: the two most significant limbs of n − q'·d (− d). -/
def tb2Rem (q n1 n0 d1 d0 : Nat) : Nat × Nat :=
  let r1 := (n1 + B - (d1 * q) % B) % B
  let (r1, r0) := sub_ddmmss r1 n0 d1 d0
  let (t1, t0) := umul_ppmm d0 q
  sub_ddmmss r1 r0 t1 t0

/-- udiv_qr_3by2, gmp-impl.h:2888-2895: `if (UNLIKELY (r1 >= d1)) if (r1 > d1 || r0 >= d0) { q++; r -= d }`. -/
def tb2Adj2 (q r1 r0 d1 d0 : Nat) : Nat × Nat × Nat :=
  if r1 ≥ d1 then
    if r1 > d1 || r0 ≥ d0 then
      let (r1, r0) := sub_ddmmss r1 r0 d1 d0
      ((q + 1) % B, r1, r0)
    else (q, r1, r0)
  else (q, r1, r0)

/-- udiv_qr_3by2, gmp-impl.h:2884-2895: conditionally adjust q and the remainder (q already incremented):
    `if (r1 >= q0) { q--; r += d }`, then the unlikely second correction. -/
def tb2Adjust (q q0 r1 r0 d1 d0 : Nat) : Nat × Nat × Nat :=
  if r1 ≥ q0 then
    let (r1, r0) := add_ssaaaa r1 r0 d1 d0
    tb2Adj2 ((q + B - 1) % B) r1 r0 d1 d0
  else tb2Adj2 q r1 r0 d1 d0

/-- udiv_qr_3by2 (gmp-impl.h:2871-2896).  Returns (q, r1, r0). -/
def udiv_qr_3by2 (n2 n1 n0 d1 d0 dinv : Nat) : Nat × Nat × Nat :=
  let (q, q0) := umul_ppmm n2 dinv
  let (q, q0) := add_ssaaaa q q0 n2 n1
  let (r1, r0) := tb2Rem q n1 n0 d1 d0
  let q := (q + 1) % B
  tb2Adjust q q0 r1 r0 d1 d0

/-- one Newton step of modlimb_invert: inv = 2*inv - inv*inv*n (gmp-impl.h:3094). -/
def minvStep (inv n : Nat) : Nat := ((2 * inv) % B + B - (((inv * inv) % B) * n) % B) % B

/-- modlimb_invert (gmp-impl.h:3087-3110), n odd. -/
def modlimb_invert (n : Nat) : Nat :=
  let inv := Gen.modlimbInvertTab.getD ((n / 2) &&& 0x7F) 0      --  8 bits
  let inv := minvStep inv n                                       -- 16
  let inv := minvStep inv n                                       -- 32
  let inv := minvStep inv n                                       -- 64
  inv % B

/-! ### Euclidean one-limb division -/

/-- the `plain:` loops of divrem_1.c:128-142 / mod_1.c:88-95: udiv_qrnnd per limb, top limb first. -/
def plainLoop (d : Nat) : List Nat → Nat → List Nat × Nat
  | [], r => ([], r)
  | n0 :: ns, r =>
      let (q, r) := udiv_qrnnd r n0 d
      let (qs, rf) := plainLoop d ns r
      (q :: qs, rf)

/-- divrem_1.c:150-163 / mod_1.c:101-108 / preinv_mod_1.c:46-50: udiv_qrnnd_preinv per limb. -/
def preinvLoop (d dinv : Nat) : List Nat → Nat → List Nat × Nat
  | [], r => ([], r)
  | n0 :: ns, r =>
      let (q, r) := udiv_qrnnd_preinv r n0 d dinv
      let (qs, rf) := preinvLoop d dinv ns r
      (q :: qs, rf)

/-- divrem_1.c:226-239 / mod_1.c:163-173: shifted dividend limbs (n1<<norm)|(n0>>(64-norm)), 1 ≤ norm ≤ 63;
    `n1` is the limb whose low part is still to be fed. -/
def unnormLoop (d dinv norm : Nat) : Nat → List Nat → Nat → List Nat × Nat
  | n1, [], r =>
      let (q, r) := udiv_qrnnd_preinv r ((n1 <<< norm) % B) d dinv
      ([q], r)
  | n1, n0 :: ns, r =>
      let (q, r) := udiv_qrnnd_preinv r (((n1 <<< norm) % B) ||| (n0 >>> (64 - norm))) d dinv
      let (qs, rf) := unnormLoop d dinv norm n0 ns r
      (q :: qs, rf)

/-- loop of mpn/generic/divrem_euclidean_{qr,r}_1.c:96-108 (UDIV = udiv_qrnnd_preinv, NORMALIZE = 1):
    every limb is shifted by s on the fly, r keeps s low zero bits. -/
def euclidLoop (d i s : Nat) : List Nat → Nat → List Nat × Nat
  | [], r => ([], r)
  | l :: ls, r =>
      let h := (l >>> (63 - s)) >>> 1
      let l := (l <<< s) % B
      let h := (h + r) % B
      let (q, r) := udiv_qrnnd_preinv h l d i
      let (qs, rf) := euclidLoop d i s ls r
      (q :: qs, rf)

/-- mpn_divrem_euclidean_qr_1 (qxn = 0), mpn/generic/divrem_euclidean_qr_1.c:67-115; n > 0, d ≠ 0.
    Returns (quotient limbs, remainder). -/
def divrem_euclidean_qr_1 (x : List Nat) (d : Nat) : List Nat × Nat :=
  let s := count_leading_zeros d
  let d := (d <<< s) % B
  let i := invert_limb d
  let (qs, r) := euclidLoop d i s x.reverse 0
  (qs.reverse, r >>> s)

/-- `umul_ppmm (h, l, a, b); add_ssaaaa (sh, sl, sh, sl, h, l)`: accumulate a product into ⟨sh,sl⟩. -/
def accMul (s : Nat × Nat) (a b : Nat) : Nat × Nat :=
  let p := umul_ppmm a b
  add_ssaaaa s.1 s.2 p.1 p.2

/-- `umul_ppmm (th, tl, th, db); add_ssaaaa (th, tl, th, tl, sh, sl)`: new ⟨th,tl⟩ = th·db + ⟨sh,sl⟩. -/
def mulAcc (a b : Nat) (s : Nat × Nat) : Nat × Nat :=
  let p := umul_ppmm a b
  add_ssaaaa p.1 p.2 s.1 s.2

/-- `umul_ppmm (sh, sl, a, b); add_ssaaaa (sh, sl, sh, sl, 0, x)`. -/
def mulAddLimb (a b x : Nat) : Nat × Nat :=
  let p := umul_ppmm a b
  add_ssaaaa p.1 p.2 0 x

/-- the closing `umul_ppmm (h, l, th, db[0]); add_ssaaaa (h, l, h, l, 0, tl)`; returns (rem[0], rem[1]) = (l, h). -/
def foldFin (db0 th tl : Nat) : Nat × Nat :=
  let s := mulAddLimb th db0 tl
  (s.2, s.1)

/-- loop body of mpn_mod_1_1 (mod_1_1.c:43-49): returns the new (h, l). -/
def fold1Step (db0 db1 : Nat) (st : Nat × Nat) (xj : Nat) : Nat × Nat :=
  mulAcc st.1 db1 (mulAddLimb st.2 db0 xj)

/-- mpn_mod_1_1 (mpn/generic/mod_1_1.c:28-54) on the most-significant-first list h :: l :: rest. -/
def mod_1_1Go (db0 db1 : Nat) (rest : List Nat) (h l : Nat) : Nat × Nat :=
  let st := rest.foldl (fold1Step db0 db1) (h, l)
  foldFin db0 st.1 st.2

/-- loop body of mpn_mod_1_2 (mod_1_2.c:45-53): returns the new (th, tl). -/
def fold2Step (db0 db1 db2 xj1 xj th tl : Nat) : Nat × Nat :=
  mulAcc th db2 (accMul (mulAddLimb xj1 db0 xj) tl db1)

/-- mpn_mod_1_2 (mpn/generic/mod_1_2.c:29-66), state (th, tl), remaining limbs most significant first. -/
def mod_1_2Go (db0 db1 db2 : Nat) : List Nat → Nat → Nat → Nat × Nat
  | xj1 :: xj :: xs, th, tl =>
      mod_1_2Go db0 db1 db2 xs (fold2Step db0 db1 db2 xj1 xj th tl).1 (fold2Step db0 db1 db2 xj1 xj th tl).2
  | [x0], th, tl =>                              -- j > -2
      let t := mulAcc th db1 (mulAddLimb tl db0 x0)
      foldFin db0 t.1 t.2
  | [], th, tl => foldFin db0 th tl

/-- loop body of mpn_mod_1_3 (mod_1_3.c:47-57): returns the new (th, tl). -/
def fold3Step (db0 db1 db2 db3 xj2 xj1 xj th tl : Nat) : Nat × Nat :=
  mulAcc th db3 (accMul (accMul (mulAddLimb xj1 db0 xj) xj2 db1) tl db2)

/-- mpn_mod_1_3 (mpn/generic/mod_1_3.c:29-81). -/
def mod_1_3Go (db0 db1 db2 db3 : Nat) : List Nat → Nat → Nat → Nat × Nat
  | xj2 :: xj1 :: xj :: xs, th, tl =>
      mod_1_3Go db0 db1 db2 db3 xs (fold3Step db0 db1 db2 db3 xj2 xj1 xj th tl).1
        (fold3Step db0 db1 db2 db3 xj2 xj1 xj th tl).2
  | [x1, x0], th, tl =>                          -- j == -1: jj = 2
      let t := mulAcc th db2 (accMul (mulAddLimb x1 db0 x0) tl db1)
      foldFin db0 t.1 t.2
  | [x0], th, tl =>                              -- j == -2: jj = 1, sh = 0, sl = xp[0]
      let t := mulAcc th db1 (accMul (0, x0) tl db0)
      foldFin db0 t.1 t.2
  | [], th, tl => foldFin db0 th tl

/-- final reduction shared by the mpn_mod_1_k_wrap functions (divrem_euclidean_r_1.c:61-63):
    udiv_qrnnd_preinv (dummy, ret, (sh<<c) | ((sl>>(63-c))>>1), sl<<c, ds, i); return ret>>c. -/
def modWrapFinal (sl sh c ds i : Nat) : Nat :=
  let ret := (udiv_qrnnd_preinv (((sh <<< c) % B) ||| ((sl >>> (63 - c)) >>> 1)) ((sl <<< c) % B) ds i).2
  ret >>> c

/-- mpn_mod_1_1_wrap (divrem_euclidean_r_1.c:29-66). -/
def mod_1_1_wrap (x : List Nat) (d : Nat) : Nat :=
  match x.reverse with
  | [] => 0
  | [x0] => x0 % d
  | h :: l :: rest =>
      let c := count_leading_zeros d
      let ds := (d <<< c) % B
      let i := invert_limb ds
      let (_, db0) := udiv_qrnnd_preinv ((1 <<< c) % B) 0 ds i      -- B % ds
      let (_, db1) := udiv_qrnnd_preinv db0 0 ds i                   -- B^2 % ds
      let db0 := db0 >>> c
      let db1 := db1 >>> c
      let (sl, sh) := mod_1_1Go db0 db1 rest h l
      modWrapFinal sl sh c ds i

/-- mpn_mod_1_2_wrap (divrem_euclidean_r_1.c:69-108). -/
def mod_1_2_wrap (x : List Nat) (d : Nat) : Nat :=
  match x.reverse with
  | [] => 0
  | [x0] => x0 % d
  | th :: tl :: rest =>
      let c := count_leading_zeros d
      let ds := (d <<< c) % B
      let i := invert_limb ds
      let (_, db0) := udiv_qrnnd_preinv ((1 <<< c) % B) 0 ds i
      let (_, db1) := udiv_qrnnd_preinv db0 0 ds i
      let db0 := db0 >>> c
      let (_, db2) := udiv_qrnnd_preinv db1 0 ds i
      let db1 := db1 >>> c
      let db2 := db2 >>> c
      let (l, h) := mod_1_2Go db0 db1 db2 rest th tl
      modWrapFinal l h c ds i

/-- mpn_mod_1_3_wrap (divrem_euclidean_r_1.c:111-152). -/
def mod_1_3_wrap (x : List Nat) (d : Nat) : Nat :=
  match x.reverse with
  | [] => 0
  | [x0] => x0 % d
  | th :: tl :: rest =>
      let c := count_leading_zeros d
      let ds := (d <<< c) % B
      let i := invert_limb ds
      let (_, db0) := udiv_qrnnd_preinv ((1 <<< c) % B) 0 ds i
      let (_, db1) := udiv_qrnnd_preinv db0 0 ds i
      let db0 := db0 >>> c
      let (_, db2) := udiv_qrnnd_preinv db1 0 ds i
      let db1 := db1 >>> c
      let (_, db3) := udiv_qrnnd_preinv db2 0 ds i
      let db2 := db2 >>> c
      let db3 := db3 >>> c
      let (l, h) := mod_1_3Go db0 db1 db2 db3 rest th tl
      modWrapFinal l h c ds i

/-- mpn_divrem_euclidean_r_1 (mpn/generic/divrem_euclidean_r_1.c:292-338, STORE_QUOTIENT = 0); n > 0, d ≠ 0. -/
def divrem_euclidean_r_1 (x : List Nat) (d : Nat) : Nat :=
  let n := x.length
  if d ≤ HIGHBIT / 2 + 1 && ABOVE_THRESHOLD n Gen.MOD_1_3_THRESHOLD then mod_1_3_wrap x d
  else if d ≤ LIMB_MAX / 3 + 1 && ABOVE_THRESHOLD n Gen.MOD_1_2_THRESHOLD then mod_1_2_wrap x d
  else if d ≤ HIGHBIT + 1 && ABOVE_THRESHOLD n Gen.MOD_1_1_THRESHOLD then mod_1_1_wrap x d
  else
    let s := count_leading_zeros d
    let d := (d <<< s) % B
    let i := invert_limb d
    let (_, r) := euclidLoop d i s x.reverse 0
    r >>> s

/-! ### Hensel (2-adic) one-limb division with on-the-fly right shift -/

/-- one step of rsh_divrem_hensel_qr_1_1.c:60-79 (also the tail step of _1_2.c:101-122):
    t = h + c; borrow test; h1 -= t; q = h1*m; returns (q, new h, new c). -/
def henselStep (d m x h c : Nat) : Nat × Nat × Nat :=
  let t := (h + c) % B
  let c := if t > x then 1 else 0
  let h1 := (x + B - t) % B
  let q := (h1 * m) % B
  let (h, _) := umul_ppmm q d
  (q, h, c)

/-- `qo | (q << (63 - s) << 1)` -/
def henselOr (qo q s : Nat) : Nat := qo ||| ((((q <<< (63 - s)) % B) <<< 1) % B)

def hensel11Go (d m s : Nat) : List Nat → Nat → Nat → Nat → List Nat × Nat
  | [], h, c, qo => ([qo], (h + c) % B)                     -- qp[n-1] = qo; return h + c
  | x :: xs, h, c, qo =>
      let (q, h, c) := henselStep d m x h c
      let (rest, ret) := hensel11Go d m s xs h c (q >>> s)
      (henselOr qo q s :: rest, ret)

/-- mpn_rsh_divrem_hensel_qr_1_1 (mpn/generic/rsh_divrem_hensel_qr_1_1.c:27-83); n > 0, d odd, 0 ≤ s ≤ 63. -/
def rsh_divrem_hensel_qr_1_1 (x : List Nat) (d s cin : Nat) : List Nat × Nat :=
  match x with
  | [] => ([], cin)
  | x0 :: xs =>
      let m := modlimb_invert d
      let (q, h, c) := henselStep d m x0 cin 0
      hensel11Go d m s xs h c (q >>> s)

/-- two limbs at a time, rsh_divrem_hensel_qr_1_2.c:74-98 without the output shifting:
    returns (ql, qh, new h, new c). -/
def henselPair (d ml mh xl xh h c : Nat) : Nat × Nat × Nat × Nat :=
  let t := (h + c) % B
  let c := if xh == 0 && t > xl then 1 else 0
  let x := sub_ddmmss xh xl 0 t                         -- (xh, xl)
  let p := umul_ppmm x.2 ml                             -- (qh, ql)
  let qh := ((p.1 + (x.1 * ml) % B) % B + (x.2 * mh) % B) % B
  let hh := umul_ppmm qh d                              -- (h, h1)
  let h := if hh.2 > x.1 then (hh.1 + 1) % B else hh.1
  (p.2, qh, h, c)

def hensel12Go (d ml mh s : Nat) : List Nat → Nat → Nat → Nat → List Nat × Nat
  | xl :: xh :: xs, h, c, qo =>                              -- rsh_divrem_hensel_qr_1_2.c:72-99
      let p := henselPair d ml mh xl xh h c
      let r := hensel12Go d ml mh s xs p.2.2.1 p.2.2.2 (p.2.1 >>> s)
      (henselOr qo p.1 s :: henselOr (p.1 >>> s) p.2.1 s :: r.1, r.2)
  | [x], h, c, qo =>                                         -- :101-122
      let st := henselStep d ml x h c
      ([henselOr qo st.1 s, st.1 >>> s], (st.2.1 + st.2.2) % B)
  | [], h, c, qo => ([qo], (h + c) % B)

/-- mpn_rsh_divrem_hensel_qr_1_2 (mpn/generic/rsh_divrem_hensel_qr_1_2.c:31-127); n ≥ 2. -/
def rsh_divrem_hensel_qr_1_2 (x : List Nat) (d s cin : Nat) : List Nat × Nat :=
  match x with
  | [] => ([], cin)
  | x0 :: xs =>
      let ml := modlimb_invert d
      let (h, _) := umul_ppmm d ml
      let h := (B - h) % B
      let mh := (ml * h) % B
      let (q, h, c) := henselStep d ml x0 cin 0
      hensel12Go d ml mh s xs h c (q >>> s)

/-- mpn_rsh_divrem_hensel_qr_1 (mpn/generic/rsh_divrem_hensel_qr_1.c:26-40). -/
def rsh_divrem_hensel_qr_1 (x : List Nat) (d s cin : Nat) : List Nat × Nat :=
  if BELOW_THRESHOLD x.length Gen.RSH_DIVREM_HENSEL_QR_1_THRESHOLD then rsh_divrem_hensel_qr_1_1 x d s cin
  else rsh_divrem_hensel_qr_1_2 x d s cin

/-! ### mpn_divrem_1, mpn_mod_1, mpn_preinv_mod_1 -/

/-- divrem_1.c:115-167, divisor normalised: `ms` = dividend limbs most significant first, then `frac`
    zero limbs.  Returns (quotient most significant first, remainder). -/
def divrem1Norm (ms frac : List Nat) (d : Nat) : List Nat × Nat :=
  let (qh, r, ms) :=
    match ms with
    | [] => ([], 0, [])
    | top :: rest =>                                     -- :117-128 high quotient limb is 0 or 1
        let r := top
        let q := if r ≥ d then 1 else 0
        let r := (r + B - (d &&& ((B - q) % B))) % B
        ([q], r, rest)
  let n := ms.length + frac.length
  if BELOW_THRESHOLD n Gen.DIVREM_1_NORM_THRESHOLD then
    let (qs, r) := plainLoop d (ms ++ frac) r            -- :132-146
    (qh ++ qs, r)
  else
    let dinv := invert_limb d                            -- :150-166
    let (qs, r) := preinvLoop d dinv (ms ++ frac) r
    (qh ++ qs, r)

/-- divrem_1.c:176-189: skip a division if high < divisor.  Returns (high quotient limbs, r, remaining limbs). -/
def divrem1Skip (ms : List Nat) (d : Nat) : List Nat × Nat × List Nat :=
  match ms with
  | [] => ([], 0, [])
  | n1 :: rest => if n1 < d then ([0], n1, rest) else ([], 0, n1 :: rest)

/-- divrem_1.c:226-243: `if (un != 0) { n1 = up[un-1]; r |= n1 >> (64-norm); loop }`. -/
def unnormFeed (d dinv norm : Nat) (ms : List Nat) (r : Nat) : List Nat × Nat :=
  match ms with
  | [] => ([], r)
  | n1 :: rest => unnormLoop d dinv norm n1 rest (r ||| (n1 >>> (64 - norm)))

/-- divrem_1.c:169-250, most significant bit of the divisor clear. -/
def divrem1Unnorm (ms frac : List Nat) (d : Nat) : List Nat × Nat :=
  let (qh, r, ms) := divrem1Skip ms d                    -- :176-189
  let n := ms.length + frac.length
  if n = 0 then (qh, r) else                             -- :184-185
  if Gen.UDIV_NEEDS_NORMALIZATION = 0 && BELOW_THRESHOLD n Gen.DIVREM_1_UNNORM_THRESHOLD then  -- :191-193 goto plain
    let (qs, r) := plainLoop d (ms ++ frac) r
    (qh ++ qs, r)
  else
    let norm := count_leading_zeros d                    -- :195-197
    let d := (d <<< norm) % B
    let r := (r <<< norm) % B
    let dinv := invert_limb d                            -- :224-250
    let (q1, r) := unnormFeed d dinv norm ms r
    let (q2, r) := preinvLoop d dinv frac r
    (qh ++ q1 ++ q2, r >>> norm)

/-- mpn_divrem_1 (mpn/generic/divrem_1.c:83-251): `qxn` fraction limbs, dividend `u`, divisor d ≠ 0.
    Returns (un + qxn quotient limbs least significant first, remainder). -/
def divrem_1 (qxn : Nat) (u : List Nat) (d : Nat) : List Nat × Nat :=
  let un := u.length
  let n := un + qxn
  if n = 0 then ([], 0) else
  if qxn = 0 && (d ≤ HIGHBIT / 2 + 1 && ABOVE_THRESHOLD un Gen.DIVREM_EUCLID_HENSEL_THRESHOLD) then  -- :102-108
    let r := divrem_euclidean_r_1 u d
    let i := count_trailing_zeros d
    let (q, _) := rsh_divrem_hensel_qr_1 u (d >>> i) i r
    (q, r)
  else if qxn = 0 then divrem_euclidean_qr_1 u d        -- :109-111, HAVE_NATIVE_mpn_divrem_euclidean_qr_1
  else
    let (q, r) :=
      if d &&& HIGHBIT != 0 then divrem1Norm u.reverse (List.replicate qxn 0) d      -- :115
      else divrem1Unnorm u.reverse (List.replicate qxn 0) d
    (q.reverse, r)

/-- mod_1.c:76-111, divisor normalised; `top :: rest` = dividend most significant first. -/
def mod1Norm (top : Nat) (rest : List Nat) (d : Nat) : Nat :=
  let r := if top ≥ d then (top + B - d) % B else top
  if rest.isEmpty then r
  else if BELOW_THRESHOLD rest.length Gen.MOD_1_NORM_THRESHOLD then (plainLoop d rest r).2
  else
    let inv := invert_limb d
    (preinvLoop d inv rest r).2

/-- mod_1.c:112-179, most significant bit of the divisor clear. -/
def mod1Unnorm (top : Nat) (rest : List Nat) (d : Nat) : Nat :=
  let (r, ms) := if top < d then (top, rest) else (0, top :: rest)    -- :117-125
  match ms with
  | [] => r
  | n1 :: ns =>
    if Gen.UDIV_NEEDS_NORMALIZATION = 0 && BELOW_THRESHOLD ms.length Gen.MOD_1_UNNORM_THRESHOLD then
      (plainLoop d ms r).2
    else
      let norm := count_leading_zeros d              -- :133-137
      let d := (d <<< norm) % B
      let r := ((r <<< norm) % B) ||| (n1 >>> (64 - norm))
      let inv := invert_limb d                       -- :156-176
      let (_, r) := unnormLoop d inv norm n1 ns r
      r >>> norm

/-- mpn_mod_1 (mpn/generic/mod_1.c:56-180); un = 0 gives 0; d ≠ 0. -/
def mod_1 (u : List Nat) (d : Nat) : Nat :=
  match u.reverse with
  | [] => 0
  | top :: rest =>
    if d &&& HIGHBIT != 0 then mod1Norm top rest d   -- :76
    else mod1Unnorm top rest d

/-- mpn_preinv_mod_1 (mpn/generic/preinv_mod_1.c:34-53); un ≥ 1, d normalised, dinv = invert_limb d. -/
def preinv_mod_1 (u : List Nat) (d dinv : Nat) : Nat :=
  match u.reverse with
  | [] => 0
  | top :: rest =>
      let r := if top ≥ d then (top + B - d) % B else top
      (preinvLoop d dinv rest r).2

/-! ### exact division -/

/-- divexact_1.c:106-131 (shift != 0): state = current limb s, borrow/carry c. -/
def divexactEvenGo (d inv shift : Nat) : Nat → List Nat → Nat → List Nat
  | s, [], c =>
      let ls := s >>> shift
      let l := (ls + B - c) % B
      [(l * inv) % B]
  | s, sn :: rest, c =>
      let ls := (s >>> shift) ||| ((sn <<< (64 - shift)) % B)
      let l := (ls + B - c) % B                       -- SUBC_LIMB (c, l, ls, c)
      let c := if l > ls then 1 else 0
      let l := (l * inv) % B
      let (h, _) := umul_ppmm l d
      let c := (c + h) % B
      l :: divexactEvenGo d inv shift sn rest c

/-- divexact_1.c:134-150 (shift == 0): state = last quotient limb l, carry c. -/
def divexactOddGo (d inv : Nat) : Nat → List Nat → Nat → List Nat
  | _, [], _ => []
  | l, s :: rest, c =>
      let (h, _) := umul_ppmm l d
      let c := (c + h) % B
      let l := (s + B - c) % B                        -- SUBC_LIMB (c, l, s, c)
      let c := if l > s then 1 else 0
      let l := (l * inv) % B
      l :: divexactOddGo d inv l rest c

/-- mpn_divexact_1 (mpn/generic/divexact_1.c:67-152); size ≥ 1, divisor ≠ 0. -/
def divexact_1 (src : List Nat) (divisor : Nat) : List Nat :=
  match src with
  | [] => []
  | [s] => [s / divisor]
  | s :: rest =>
      let shift := if divisor &&& 1 = 0 then count_trailing_zeros divisor else 0
      let divisor := divisor >>> shift
      let inverse := modlimb_invert divisor
      if shift != 0 then divexactEvenGo divisor inverse shift s rest 0
      else
        let l := (s * inverse) % B
        l :: divexactOddGo divisor inverse l rest 0

def divexactBy3Go (m : Nat) : List Nat → Nat → List Nat × Nat
  | [], acc => ([], acc)
  | x :: xs, acc =>
      let (dx, ax) := umul_ppmm x m
      let acc1 := (acc + B - ax) % B                  -- SUBC_LIMB (c, acc, acc, ax)
      let c := if acc1 > acc then 1 else 0
      let acc2 := (acc1 + B - (dx + c) % B) % B
      let (qs, a) := divexactBy3Go m xs acc2
      (acc1 :: qs, a)

/-- mpn_divexact_by3c (mpn/generic/divexact_by3c.c:27-56 = mpn/x86_64/divexact_by3c.as); n > 0.
    Returns (quotient limbs, return value). -/
def divexact_by3c (x : List Nat) (ci : Nat) : List Nat × Nat :=
  let m := (B - 1) / 3
  let (qs, acc) := divexactBy3Go m x ((ci * m) % B)
  (qs, (acc * (B - 3)) % B)

/-- body shared by label0 and label1 of mpn/x86_64/modexact_1c_odd.as:
    `sub rax, rdx ; adc rcx, 0 ; imul rax, r9 ; mul r8`.  x = current limb with the previous borrow already
    subtracted, cb = that borrow, h = high product (initially the carry-in).  Returns (rcx, rdx). -/
def modexactStep (d inv x cb h : Nat) : Nat × Nat :=
  let y := (x + B - h) % B                        -- sub rax, rdx
  let cb := cb + (if x < h then 1 else 0)         -- adc rcx, 0
  let q := (y * inv) % B                          -- imul rax, r9
  (cb, (umul_ppmm q d).1)                         -- mul r8

/-- one trip through label0 of mpn/x86_64/modexact_1c_odd.as with the next limb s:
    state = (rax, rcx, rdx) = (x, cb, h). -/
def modexactNext (d inv : Nat) (st : Nat × Nat × Nat) (s : Nat) : Nat × Nat × Nat :=
  let r := modexactStep d inv st.1 st.2.1 st.2.2
  ((s + B - r.1) % B,                                 -- mov rax,[..]; sub rax, rcx
   if s < r.1 then 1 else 0,                          -- setc cl
   r.2)

/-- loop of mpn/x86_64/modexact_1c_odd.as: label0 for every further limb, then label1. -/
def modexactGo (d inv : Nat) (rest : List Nat) (x cb h : Nat) : Nat :=
  let st := rest.foldl (modexactNext d inv) (x, cb, h)
  let r := modexactStep d inv st.1 st.2.1 st.2.2
  (r.1 + r.2) % B                                     -- lea rax, [rcx+rdx]

/-- mpn_modexact_1c_odd (assembly, mpn/x86_64/modexact_1c_odd.as); size ≥ 1, d odd. -/
def modexact_1c_odd (src : List Nat) (d c : Nat) : Nat :=
  match src with
  | [] => c
  | s :: ss => modexactGo d (modlimb_invert d) ss s 0 c

end Mpir.DivWord
