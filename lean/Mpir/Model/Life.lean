/-
  Object life cycle and allocator ledger (property C04), mirroring
    mpz/init.c (alloc 1), mpz/init2.c (alloc = max(⌈bits/64⌉,1)), mpz/realloc2.c / mpz/realloc.c
    (never zero space; value cleared to 0 when it no longer fits), mpz/set.c (MPZ_REALLOC: grow to exactly
    the needed size only when alloc is too small), mpz/clear.c (free with the current alloc).
  Every allocation event goes through a ledger of live blocks with their sizes: that is the contract of
  mp_set_memory_functions (realloc/free receive the exact current size).
  Slot table: `objs[k]? = none` — no such slot; `some none` — not initialised / cleared; `some (some o)` — live.
  Operations on slots that do not exist, init of a live slot and realloc2/set/clear of a dead slot are ignored.
  Invariant and theorems: MpirProofs/Lemmas/Life.lean, MpirProofs/Props/C04.lean.
-/
import Mpir.Base
namespace Mpir.Life

/-- number of limbs of |v| -/
def limbsOf (v : Int) : Nat := (natLimbs v.natAbs).length

structure Obj where
  alloc : Nat
  val : Int
  blk : Nat
  deriving Repr, BEq

structure State where
  objs : List (Option Obj)          -- slot table; none = not initialised / cleared
  ledger : List (Nat × Nat)          -- live blocks: (id, size in limbs)
  next : Nat                         -- fresh block id
  breaches : Nat                     -- allocator-contract breaches observed (wrong old size / unknown block)
  deriving Repr

inductive Op where
  | init (k : Nat)
  | init2 (k bits : Nat)
  | realloc2 (k bits : Nat)
  | set (k : Nat) (v : Int)
  | clear (k : Nat)
  deriving Repr

def bitsToLimbs (bits : Nat) : Nat := max ((bits + 63) / 64) 1

def ledgerAlloc (s : State) (size : Nat) : State × Nat :=
  ({ s with ledger := (s.next, size) :: s.ledger, next := s.next + 1 }, s.next)

/-- free/realloc of block `b` announced with size `old`: a breach unless the ledger has exactly (b, old) -/
def ledgerRelease (s : State) (b old : Nat) : State :=
  if s.ledger.contains (b, old) then { s with ledger := s.ledger.erase (b, old) }
  else { s with breaches := s.breaches + 1, ledger := s.ledger.filter (fun p => p.1 != b) }

def getObj (s : State) (k : Nat) : Option Obj := (s.objs.getD k none)

def setObj (s : State) (k : Nat) (o : Option Obj) : State :=
  { s with objs := s.objs.set k o }

/-- _mpz_realloc / mpz_realloc2 body on an object -/
def reallocObj (s : State) (k : Nat) (o : Obj) (newAlloc : Nat) : State :=
  let s1 := ledgerRelease s o.blk o.alloc
  let (s2, b) := ledgerAlloc s1 newAlloc
  let v := if limbsOf o.val > newAlloc then 0 else o.val
  setObj s2 k (some { alloc := newAlloc, val := v, blk := b })

def step (s : State) : Op → State
  | .init k =>
      match s.objs[k]? with
      | some none => let (s1, b) := ledgerAlloc s 1; setObj s1 k (some { alloc := 1, val := 0, blk := b })
      | _ => s          -- no such slot, or double init (outside the API contract): ignored by the model
  | .init2 k bits =>
      match s.objs[k]? with
      | some none => let n := bitsToLimbs bits
                     let (s1, b) := ledgerAlloc s n; setObj s1 k (some { alloc := n, val := 0, blk := b })
      | _ => s
  | .realloc2 k bits =>
      match getObj s k with
      | none => s
      | some o => reallocObj s k o (bitsToLimbs bits)
  | .set k v =>
      match getObj s k with
      | none => s
      | some o =>
          let need := limbsOf v
          if need > o.alloc then
            let s1 := reallocObj s k o (max need 1)        -- MPZ_REALLOC → _mpz_realloc (w, need)
            match getObj s1 k with
            | some o1 => setObj s1 k (some { o1 with val := v })
            | none => s1
          else setObj s k (some { o with val := v })
  | .clear k =>
      match getObj s k with
      | none => s
      | some o => setObj (ledgerRelease s o.blk o.alloc) k none

def init (nslots : Nat) : State := { objs := List.replicate nslots none, ledger := [], next := 0, breaches := 0 }

def run (s : State) (ops : List Op) : State := ops.foldl step s

/-- clear every slot -/
def clearAll (s : State) : State := (List.range s.objs.length).foldl (fun s k => step s (.clear k)) s

end Mpir.Life
