/-
  C02, multi-limb layer: divide-and-conquer division, VALUE level with explicit limb counts.  Core Lean only.

  Sources mirrored (tie = correspondence, ops `dc_div_qr_n`, `dc_div_qr_model`, `dc_div_q` in Mpir/Ops/DcDiv.lean,
  harness/ops_dcdiv.c):
    mpn/generic/dc_div_qr_n.c   mpn_dc_div_qr_n   (whole file)
    mpn/generic/dc_div_qr.c     mpn_dc_div_qr     (whole file)
    mpn/generic/dc_div_q.c      mpn_dc_div_q      (whole file; the callee mpn_dc_divappr_q enters as a parameter)

  Shape of the model.  A limb area of k limbs is a natural number below B^k together with the count k; a pointer
  offset is a division by a power of B, a sub-area is `/ B^off % B^len`.  The C works modulo B^n on such areas and
  keeps the borrows/carries in the limb variables `cy`, `qh`; `subN`/`addN` return exactly that pair, and the
  `while (cy != 0)` correction loops are explicit loops (`corrLoop`) that also count their iterations (add-backs).
  Callees that belong to other parts are replaced by their contracts:
    mpn_sb_div_qr   -> exact quotient (with qh) and remainder, PROVED for the limb-level model of sb_div_qr.c in
                       MpirProofs/Props/C02_sb.lean (Mpir.SbDiv.sb_div_qr_val / sb_div_qr_contract); its ASSERTed
                       domain (dn > 2, normalised divisor) is recorded in the `ok` flag of the result
    mpn_divrem_2    -> exact quotient and remainder of 4 limbs by 2 normalised limbs (dc_div_qr.c:125)
    mpn_mul         -> `*`;  mpn_cmp -> `<`/`≥`
    the qn == 1 sub-case of dc_div_qr.c:67-120 (one schoolbook step: 3/2 division, submul_1, add-back) is taken at
    value level: the exact division of the (dn+1)-limb window after the `qh` subtraction (the same code shape is
    proved limb for limb as Mpir.SbDiv.sbStep_spec).
  Every record carries `ok`: all callees were inside their ASSERTed domains, every correction loop left through
  `cy == 0` within the loop fuel, every ASSERT_NOCARRY held.  Theorems: MpirProofs/Props/C02_dc.lean.
-/
import Mpir.Base
namespace Mpir.DcDiv
open Mpir

/-- mpn_sub_n (rp, ap, bp, k) on areas a, b < B^k: (difference mod B^k, borrow) -/
def subN (k a b : Nat) : Nat × Nat := if a < b then (a + B ^ k - b, 1) else (a - b, 0)

/-- mpn_add_n (rp, ap, bp, k) on areas a, b < B^k: (sum mod B^k, carry) -/
def addN (k a b : Nat) : Nat × Nat := if B ^ k ≤ a + b then (a + b - B ^ k, 1) else (a + b, 0)

/-- state of a correction loop: quotient block `q` (k limbs), its high limb `qh`, remainder area `r` (n limbs),
    the limb variable `cy`, and the number of iterations done so far -/
structure Corr where
  q : Nat
  qh : Nat
  r : Nat
  cy : Nat
  adds : Nat
  deriving DecidableEq, Repr

/-- number of iterations after which the model gives up on a correction loop (the C has no bound; the theorems show
    that 4 iterations always suffice, and 2 when the quotient block has no high limb) -/
def loopFuel : Nat := 6

/-- `while (cy != 0) { qh -= mpn_sub_1 (qp, qp, k, 1); cy -= mpn_add_n (np, np, dp, n); }`
    dc_div_qr_n.c:55-59, :72-76 (there the borrow of mpn_sub_1 is dropped), dc_div_qr.c:142-146, :181-185.
    `qh` and `cy` are mp_limb_t: the subtractions are modulo B. -/
def corrLoop (k n D : Nat) : Nat → Corr → Corr
  | 0, s => s
  | fuel + 1, s =>
    if s.cy = 0 then s else                                   -- while (cy != 0)
    let b := subN k s.q 1                                     -- mpn_sub_1 (qp, qp, k, 1)
    let a := addN n s.r D                                     -- mpn_add_n (np, np, dp, n)
    corrLoop k n D fuel
      { q := b.1, qh := (s.qh + B - b.2) % B, r := a.1, cy := (s.cy + B - a.2) % B, adds := s.adds + 1 }

/-- result of a multiply-subtract-correct block -/
structure Blk where
  q : Nat
  qh : Nat
  r : Nat
  adds : Nat
  ok : Bool
  deriving DecidableEq, Repr

/-- The block that follows every 2k/k division:
      mpn_mul (tp, qp, k, dp, m);  cy = mpn_sub_n (np, np, tp, n);
      if (qh != 0) cy += mpn_sub_n (np + k, np + k, dp, m);
      while (cy != 0) { … }
    dc_div_qr_n.c:49-59 (k = hi, m = lo, np = np+lo), :66-76 (k = lo, m = hi), dc_div_qr.c:133-146 and :172-185
    (k = qn, m = dn-qn, np = np-dn; the two argument orders of mpn_mul give the same product).
    D: the whole divisor (n = k+m limbs); (Q, qh, R1): quotient block, its high limb and the k-limb remainder the
    division left; Wl: the m dividend limbs below the divided window.  The area np … np+n is Wl + B^m·R1. -/
def mulSubCorr (k m D Q qh R1 Wl : Nat) : Blk :=
  let n := k + m
  let Dl := D % B ^ m                                         -- dp, m limbs
  let tp := Q * Dl                                            -- mpn_mul
  let s1 := subN n (Wl + B ^ m * R1) tp                       -- cy = mpn_sub_n (np, np, tp, n)
  let s2 :=
    if qh ≠ 0 then                                            -- if (qh != 0)
      let t := subN m (s1.1 / B ^ k) Dl                       --   cy += mpn_sub_n (np + k, np + k, dp, m)
      (s1.1 % B ^ k + B ^ k * t.1, s1.2 + t.2)
    else s1
  let c := corrLoop k n D loopFuel { q := Q, qh := qh, r := s2.1, cy := s2.2, adds := 0 }
  { q := c.q, qh := c.qh, r := c.r, adds := c.adds, ok := c.cy == 0 }

/-- result of a division routine: quotient limbs `q`, remainder `r`, returned high quotient limb `qh`;
    `ah`, `al`: add-backs of the routine's own first / second correction loop; `mx`: largest number of add-backs of
    any correction loop in the whole call tree; `ok`: see the file header -/
structure Res where
  q : Nat
  r : Nat
  qh : Nat
  ah : Nat
  al : Nat
  mx : Nat
  ok : Bool
  deriving DecidableEq, Repr

def bad : Res := { q := 0, r := 0, qh := 0, ah := 0, al := 0, mx := 0, ok := false }

/-- contract of mpn_sb_div_qr (qp, np, 2k, dp, k, dinv) (sb_div_qr.c; ASSERTs dn > 2 and the high bit of dp[dn-1]):
    qh·B^k + q = ⌊Nw/Dw⌋, r = Nw mod Dw.  Proved for the limb-level model: Mpir.SbDiv.sb_div_qr_contract. -/
def sbLeaf (k Nw Dw : Nat) : Res :=
  { q := Nw / Dw % B ^ k, r := Nw % Dw, qh := Nw / Dw / B ^ k, ah := 0, al := 0, mx := 0,
    ok := decide (2 < k) && decide (B ^ k / 2 ≤ Dw) && decide (Dw < B ^ k) && decide (Nw < B ^ (2 * k)) }

/-- contract of mpn_divrem_2 (qp, 0, np, 4, dp) (dc_div_qr.c:125): 4 limbs by 2 normalised limbs -/
def divrem2Leaf (Nw Dw : Nat) : Res :=
  { q := Nw / Dw % B ^ 2, r := Nw % Dw, qh := Nw / Dw / B ^ 2, ah := 0, al := 0, mx := 0,
    ok := decide (B ^ 2 / 2 ≤ Dw) && decide (Dw < B ^ 2) && decide (Nw < B ^ 4) }

/-- mpn_dc_div_qr_n (qp, np, dp, n, dinv, tp) with DC_DIV_QR_THRESHOLD = T; N = {np, 2n}, D = {dp, n}.
    `fuel` bounds the recursion depth (structural recursion; `dcDivQrN` passes n, which is more than enough). -/
def dcDivQrNF (T : Nat) : Nat → Nat → Nat → Nat → Res
  | 0, _, _, _ => bad
  | fuel + 1, n, N, D =>
    let lo := n / 2                                           -- dc_div_qr_n.c:40  lo = n >> 1
    let hi := n - lo                                          -- :41
    let h :=
      if hi < T then sbLeaf hi (N / B ^ (2 * lo)) (D / B ^ lo)        -- :44-45 mpn_sb_div_qr (qp+lo, np+2lo, 2hi, dp+lo, hi)
      else dcDivQrNF T fuel hi (N / B ^ (2 * lo)) (D / B ^ lo)        -- :47
    let b1 := mulSubCorr hi lo D h.q h.qh h.r (N / B ^ lo % B ^ lo)   -- :49-59 on np+lo … np+lo+n
    let P := N % B ^ lo + B ^ lo * b1.r                       -- np … np+n+lo now
    let l :=
      if lo < T then sbLeaf lo (P / B ^ hi) (D / B ^ hi)              -- :61-62 mpn_sb_div_qr (qp, np+hi, 2lo, dp+hi, lo)
      else dcDivQrNF T fuel lo (P / B ^ hi) (D / B ^ hi)              -- :64
    let b2 := mulSubCorr lo hi D l.q l.qh l.r (P % B ^ hi)    -- :66-76 on np … np+n; ql and the borrow of :74 are dropped
    { q := b2.q + B ^ lo * b1.q, r := b2.r, qh := b1.qh,      -- :78 return qh
      ah := b1.adds, al := b2.adds, mx := max (max h.mx l.mx) (max b1.adds b2.adds),
      ok := h.ok && b1.ok && l.ok && b2.ok }

def dcDivQrN (T n N D : Nat) : Res := dcDivQrNF T n n N D

/-- dc_div_qr.c:59-61 `do qn -= dn; while (qn > dn);` — returns (reduced qn, number of subtractions) -/
def reduceQn (dn : Nat) : Nat → Nat → Nat → Nat × Nat
  | 0, qn, j => (qn, j)
  | fuel + 1, qn, j =>
    let qn := qn - dn
    if qn > dn then reduceQn dn fuel qn (j + 1) else (qn, j + 1)

/-- dc_div_qr.c:67-120, the sub-case qn == 1: W = {np-dn, dn+1}.  `qh` and its subtraction as in the C (:72-74), then
    the single schoolbook step at value level (see the file header). -/
def oneStep (W D : Nat) : Res :=
  let qh := if W / B ≥ D then 1 else 0                        -- :72 qh = mpn_cmp (np-dn+1, dp-dn, dn) >= 0
  let W1 := if qh ≠ 0 then W - B * D else W                   -- :73-74 ASSERT_NOCARRY (mpn_sub_n (np-dn+1, …, dn))
  { q := W1 / D, r := W1 % D, qh := qh, ah := 0, al := 0, mx := 0,
    ok := decide (W1 / D < B) }                               -- :119 qp[0] = q, one limb (:84 ASSERT)

/-- dc_div_qr.c:123-147 (`two` = true: inside `qn > dn`, where qn == 2 goes to mpn_divrem_2) and :165-186:
    a 2qn/qn division of the top of the window W = {np-dn, dn+qn}, then, if qn != dn, the correction block. -/
def blockQR (T : Nat) (two : Bool) (qn dn W D : Nat) : Res :=
  let m := dn - qn
  let h :=
    if two && qn == 2 then divrem2Leaf (W / B ^ m) (D / B ^ m)        -- :124-125
    else if qn < T then sbLeaf qn (W / B ^ m) (D / B ^ m)             -- :126-127, :165-166
    else dcDivQrN T qn (W / B ^ m) (D / B ^ m)                        -- :129, :168
  if qn ≠ dn then                                             -- :131, :170
    let b := mulSubCorr qn m D h.q h.qh h.r (W % B ^ m)       -- :133-146, :172-185
    { q := b.q, r := b.r, qh := b.qh, ah := b.adds, al := 0, mx := max h.mx b.adds, ok := h.ok && b.ok }
  else h

/-- dc_div_qr.c:151-158: `j` further blocks of dn quotient limbs, each one mpn_dc_div_qr_n on the 2dn limbs made of the
    current remainder and the next dn dividend limbs; ASSERT_NOCARRY: its qh is 0. -/
def mainLoop (T dn N D : Nat) : Nat → Res → Res
  | 0, acc => acc
  | j + 1, acc =>
    let r := dcDivQrN T dn (N / B ^ (j * dn) % B ^ dn + B ^ dn * acc.r) D     -- :155
    mainLoop T dn N D j
      { q := r.q + B ^ dn * acc.q, r := r.r, qh := acc.qh, ah := acc.ah, al := max acc.al (max r.ah r.al),
        mx := max acc.mx r.mx, ok := acc.ok && r.ok && r.qh == 0 }

/-- mpn_dc_div_qr (qp, np, nn, dp, dn, dinv) with DC_DIV_QR_THRESHOLD = T; N = {np, nn}, D = {dp, dn}.
    ASSERTs (:45-47): dn ≥ 6, nn - dn ≥ 3, high bit of dp[dn-1].  `ah`: add-backs of the first block's own loop;
    `al`: the largest number of add-backs in the two top-level loops of any mpn_dc_div_qr_n call of the main loop
    (and of the first block when that is a plain mpn_dc_div_qr_n call, qn == dn: its second loop). -/
def dcDivQr (T nn dn N D : Nat) : Res :=
  let qn := nn - dn                                           -- :51
  if qn > dn then                                             -- :56
    let rj := reduceQn dn qn qn 0                             -- :59-61
    let qn0 := rj.1
    let j := rj.2
    let W := N / B ^ (j * dn)                                 -- the dn+qn0 top limbs: np-dn … np+qn0 after :63-64
    let first :=
      if qn0 = 1 then oneStep W D                             -- :67-120
      else blockQR T true qn0 dn W D                          -- :121-148
    mainLoop T dn N D j first                                 -- :150-158 (nn-dn-qn0 = j·dn further quotient limbs)
  else
    blockQR T false qn dn N D                                 -- :160-187

/-- mpn_dc_div_q (qp, np, nn, dp, dn, dinv), dc_div_q.c:31-76.  (A, ah): the qn+1 limbs {wp, qn+1} and the return
    value of the callee mpn_dc_divappr_q (wp, tp, nn+1, dp, dn, dinv) on tp = N·B (:46-53).  Returns (q, qh). -/
def dcDivQ (nn dn N D A ah : Nat) : Nat × Nat :=
  let qn := nn - dn                                           -- :50
  let qh := ah                                                -- :53
  let W := A / B                                              -- wp+1, qn limbs
  if A % B = 0 then                                           -- :55 if (wp[0] == 0)
    let tp := W * D                                           -- :59-62 mpn_mul, nn limbs
    let s :=                                                  -- :64 cy = (qh != 0) ? mpn_add_n (tp+qn, tp+qn, dp, dn) : 0
      if qh ≠ 0 then
        let a := addN dn (tp / B ^ qn) D
        (tp % B ^ qn + B ^ qn * a.1, a.2)
      else (tp, 0)
    if s.2 ≠ 0 ∨ s.1 > N then                                 -- :66 if (cy || mpn_cmp (tp, np, nn) > 0)
      let b := subN qn W 1                                    -- :67 qh -= mpn_sub_1 (qp, wp+1, qn, 1)
      (b.1, (qh + B - b.2) % B)
    else (W, qh)                                              -- :69
  else (W, qh)                                                -- :72

/-! ## limb-vector interface (what the driver prints) -/

/-- mpn_dc_div_qr_n on limb vectors: {np, 2n}, {dp, n} -> (n quotient limbs, the n remainder limbs left in np, qh) -/
def dc_div_qr_n (T : Nat) (np dp : List Nat) : List Nat × List Nat × Nat :=
  let n := dp.length
  let r := dcDivQrN T n (val np) (val dp)
  (toLimbs n r.q, toLimbs n r.r, r.qh)

/-- mpn_dc_div_qr on limb vectors: (nn-dn quotient limbs, the dn remainder limbs left in np, qh) -/
def dc_div_qr (T : Nat) (np dp : List Nat) : List Nat × List Nat × Nat :=
  let r := dcDivQr T np.length dp.length (val np) (val dp)
  (toLimbs (np.length - dp.length) r.q, toLimbs dp.length r.r, r.qh)

/-- mpn_dc_div_q on limb vectors, given what mpn_dc_divappr_q returned ({wp, qn+1}, its qh): (qn quotient limbs, qh) -/
def dc_div_q (np dp wp : List Nat) (wh : Nat) : List Nat × Nat :=
  let r := dcDivQ np.length dp.length (val np) (val dp) (val wp) wh
  (toLimbs (np.length - dp.length) r.1, r.2)

end Mpir.DcDiv
