/-
  Stream I/O of the C++ interface, second part (property C20, part c20_cxxio2).  Core Lean only.
  Extends Mpir/Model/CxxIo.lean (same namespace) with
    `floatSpec`, `specScanF`, `specF`   the grammar `operator>> (istream &, mpf_ptr)` (cxx/ismpf.cc) implements, as a
                                        specification of `scanF` / `extractF`
-/
import Mpir.Model.CxxIo
namespace Mpir.CxxIo

/-! ## what `operator>> (istream &, mpf_ptr)` reads (specification side) -/

/-- outcome of scanning one floating-point number: characters that stay consumed, the text handed to mpf_set_str
    (`none`: nothing is stored), eofbit, failbit -/
structure FloatSpec where
  n : Nat
  text : Option (List Char)
  eof : Bool
  fail : Bool
  deriving Repr, DecidableEq

/-- the optional sign of the exponent: (sign text, rest) -/
def expSign : List Char → List Char × List Char
  | '-' :: r => (['-'], r)
  | '+' :: r => (['+'], r)
  | t => ([], t)

/-- the exponent part.  `m` = mantissa text collected so far (it contains a digit), `k` = characters consumed so far,
    `u` = what follows.  Without an 'e' / 'E' the number ends here.  With one, the letter, an optional sign (kept, also
    '+') and the longest run of decimal digits are consumed; the digits are mandatory: without one the read FAILS with
    letter and sign consumed (no backtracking to the mantissa), eofbit as well if the text ended there. -/
def expSpec (k : Nat) (m u : List Char) : FloatSpec :=
  match u with
  | e :: t =>
    if e = 'e' ∨ e = 'E' then
      let st := expSign t
      let ed := st.2.takeWhile isdigit
      if ed = [] then ⟨k + 1 + st.1.length, none, st.2.isEmpty, true⟩
      else ⟨k + 1 + st.1.length + ed.length, some (m ++ e :: st.1 ++ ed), false, false⟩
    else ⟨k, some m, false, false⟩
  | [] => ⟨k, some m, false, false⟩

/-- mantissa and exponent after the sign (`sg` = the sign text kept: "-" or nothing; `k` characters consumed):
    the longest run of decimal digits, then, if the next character is the point '.', the point (consumed in any case) and
    again the longest run of digits; at least one digit in the two runs together, else the read fails (eofbit as well if
    the text ended there); then `expSpec`. -/
def mantSpec (sg : List Char) (k : Nat) (u : List Char) : FloatSpec :=
  let ip := u.takeWhile isdigit
  let u2 := u.dropWhile isdigit
  match u2 with
  | '.' :: t =>
    let fp := t.takeWhile isdigit
    let u3 := t.dropWhile isdigit
    if ip = [] ∧ fp = [] then ⟨k + 1, none, u3.isEmpty, true⟩
    else expSpec (k + ip.length + 1 + fp.length) (sg ++ ip ++ '.' :: fp) u3
  | _ =>
    if ip = [] then ⟨k, none, u2.isEmpty, true⟩
    else expSpec (k + ip.length) (sg ++ ip) u2

/-- one floating-point number as `operator>>` reads it from the text `u` (no white space): [+-] (a '+' is consumed but
    not handed to mpf_set_str), then `mantSpec`.  Decimal only, whatever basefield says (ismpf.cc:86 `base = 10`). -/
def floatSpec (u : List Char) : FloatSpec :=
  match u with
  | '-' :: t => mantSpec ['-'] 1 t
  | '+' :: t => mantSpec [] 1 t
  | _ => mantSpec [] 0 u

/-- the scanning part of `operator>> (istream, mpf)` on the text `t`: white space (if skipws), then `floatSpec` -/
def specScanF (f : Fmt) (t : List Char) : IStream × Option (List Char) :=
  let w := wsPrefix f t
  let u := t.drop w.length
  let r := floatSpec u
  (after f w.reverse u r.n r.eof r.fail, r.text)

/-- `operator>> (istream, mpf)` as a specification: the text `specScanF` collects is converted by `mpf_set_str` in
    base 10 at the precision of the destination `f0`; the flag says that mpf_set_str refused it -/
def specF (f : Fmt) (t : List Char) (f0 : Mpf.F) : IStream × Option Mpf.F × Bool :=
  match specScanF f t with
  | (i, none) => (i, none, false)
  | (i, some s) => (i, some (MpfStr.set_str f0.prec f0 10 (s.map Char.toNat)).2,
                    decide ((MpfStr.set_str f0.prec f0 10 (s.map Char.toNat)).1 ≠ 0))

/-! ## round trips -/

/-- the condition under which an input stream with flags `fi` reads back what an output stream with flags `fo` writes:
    EITHER basefield of `fi` names (with exactly one bit) the base `fo` prints in, and `fo` is not a hex stream with
    showbase (a hex input stream does not accept the "0x" prefix: it reads the 0 and stops at the x),
    OR `fi` has no single basefield bit (the base is detected from a 0x / 0X / 0 prefix) and `fo` prints decimal or
    prints with showbase (hex / octal text without a prefix is taken for decimal). -/
def ReadsBack (fo fi : Fmt) : Prop :=
  (fi.base? = some fo.outBase ∧ ¬ (fo.showbase = true ∧ fo.hexOnly = true)) ∨
  (fi.base? = none ∧ (fo.outBase = 10 ∨ fo.showbase = true))

end Mpir.CxxIo
