/-
  Stream I/O of the C++ interface, second part (property C20, part c20_cxxio2).  Core Lean only.
  Extends Mpir/Model/CxxIo.lean (same namespace) with
    `floatSpec`, `specScanF`, `specF`   the grammar `operator>> (istream &, mpf_ptr)` (cxx/ismpf.cc) implements, as a
                                        specification of `scanF` / `extractF`
    `ReadsBack`                         the condition of the round-trip theorems
    `mpfPieces`, `emitPieces`, `doprntMpfG`  = printf/doprntf.c `__gmp_doprnt_mpf` in every base, on the bit-exact
                                        `MpfStr.get_str` (mpf/get_str.c), with the exponent formats of osfuns.cc
                                        ("@%c%02d" on a hex stream, "e%c%02d" / "E%c%02d" otherwise)
    `insertFG`                          = osmpf.cc `operator<< (ostream &, mpf_srcptr)` for every basefield setting
    `floatBody`, `specInsertF`          the closed form of what it writes
-/
import Mpir.Model.CxxIo
namespace Mpir.CxxIo
open Mpir.Printf

/-! ## what `operator>> (istream &, mpf_ptr)` reads (specification side) -/

/-- outcome of scanning one floating-point number: characters that stay consumed, the text handed to mpf_set_str
    (`none`: nothing is stored), eofbit, failbit -/
structure FloatSpec where
  n : Nat
  text : Option (List Char)
  eof : Bool
  fail : Bool
  deriving Repr, DecidableEq

/-- the optional sign of the exponent: (sign text, rest) -/
def expSign : List Char → List Char × List Char
  | '-' :: r => (['-'], r)
  | '+' :: r => (['+'], r)
  | t => ([], t)

/-- the exponent part.  `m` = mantissa text collected so far (it contains a digit), `k` = characters consumed so far,
    `u` = what follows.  Without an 'e' / 'E' the number ends here.  With one, the letter, an optional sign (kept, also
    '+') and the longest run of decimal digits are consumed; the digits are mandatory: without one the read FAILS with
    letter and sign consumed (no backtracking to the mantissa), eofbit as well if the text ended there. -/
def expSpec (k : Nat) (m u : List Char) : FloatSpec :=
  match u with
  | e :: t =>
    if e = 'e' ∨ e = 'E' then
      let st := expSign t
      let ed := st.2.takeWhile isdigit
      if ed = [] then ⟨k + 1 + st.1.length, none, st.2.isEmpty, true⟩
      else ⟨k + 1 + st.1.length + ed.length, some (m ++ e :: st.1 ++ ed), false, false⟩
    else ⟨k, some m, false, false⟩
  | [] => ⟨k, some m, false, false⟩

/-- mantissa and exponent after the sign (`sg` = the sign text kept: "-" or nothing; `k` characters consumed):
    the longest run of decimal digits, then, if the next character is the point '.', the point (consumed in any case) and
    again the longest run of digits; at least one digit in the two runs together, else the read fails (eofbit as well if
    the text ended there); then `expSpec`. -/
def mantSpec (sg : List Char) (k : Nat) (u : List Char) : FloatSpec :=
  let ip := u.takeWhile isdigit
  let u2 := u.dropWhile isdigit
  match u2 with
  | '.' :: t =>
    let fp := t.takeWhile isdigit
    let u3 := t.dropWhile isdigit
    if ip = [] ∧ fp = [] then ⟨k + 1, none, u3.isEmpty, true⟩
    else expSpec (k + ip.length + 1 + fp.length) (sg ++ ip ++ '.' :: fp) u3
  | _ =>
    if ip = [] then ⟨k, none, u2.isEmpty, true⟩
    else expSpec (k + ip.length) (sg ++ ip) u2

/-- one floating-point number as `operator>>` reads it from the text `u` (no white space): [+-] (a '+' is consumed but
    not handed to mpf_set_str), then `mantSpec`.  Decimal only, whatever basefield says (ismpf.cc:86 `base = 10`). -/
def floatSpec (u : List Char) : FloatSpec :=
  match u with
  | '-' :: t => mantSpec ['-'] 1 t
  | '+' :: t => mantSpec [] 1 t
  | _ => mantSpec [] 0 u

/-- the scanning part of `operator>> (istream, mpf)` on the text `t`: white space (if skipws), then `floatSpec` -/
def specScanF (f : Fmt) (t : List Char) : IStream × Option (List Char) :=
  let w := wsPrefix f t
  let u := t.drop w.length
  let r := floatSpec u
  (after f w.reverse u r.n r.eof r.fail, r.text)

/-- `operator>> (istream, mpf)` as a specification: the text `specScanF` collects is converted by `mpf_set_str` in
    base 10 at the precision of the destination `f0`; the flag says that mpf_set_str refused it -/
def specF (f : Fmt) (t : List Char) (f0 : Mpf.F) : IStream × Option Mpf.F × Bool :=
  match specScanF f t with
  | (i, none) => (i, none, false)
  | (i, some s) => (i, some (MpfStr.set_str f0.prec f0 10 (s.map Char.toNat)).2,
                    decide ((MpfStr.set_str f0.prec f0 10 (s.map Char.toNat)).1 ≠ 0))

/-! ## round trips -/

/-- the condition under which an input stream with flags `fi` reads back what an output stream with flags `fo` writes:
    EITHER basefield of `fi` names (with exactly one bit) the base `fo` prints in, and `fo` is not a hex stream with
    showbase (a hex input stream does not accept the "0x" prefix: it reads the 0 and stops at the x),
    OR `fi` has no single basefield bit (the base is detected from a 0x / 0X / 0 prefix) and `fo` prints decimal or
    prints with showbase (hex / octal text without a prefix is taken for decimal). -/
def ReadsBack (fo fi : Fmt) : Prop :=
  (fi.base? = some fo.outBase ∧ ¬ (fo.showbase = true ∧ fo.hexOnly = true)) ∨
  (fi.base? = none ∧ (fo.outBase = 10 ∨ fo.showbase = true))

/-! ## `operator<< (ostream &, mpf_srcptr)` in every base

`Mpir.CxxIo.insertF` (part c20_cxxio) goes through `Printf.doprntMpf`, which knows decimal and the printf exponent
formats only and takes its digits from a specification of mpf_get_str.  Here the same C (printf/doprntf.c:55-385) is
mirrored again with the base as a parameter, on the bit-exact model of mpf_get_str. -/

/-- `snprintf (exponent, sizeof exponent, p->expfmt, expsign, expval)` (doprntf.c:241-244) for the formats
    `__gmp_doprnt_params_from_ios` chooses (osfuns.cc:52-64): "@%c%02d", "e%c%02d", "E%c%02d" — the letter, the sign,
    the magnitude in DECIMAL (also on a hex or octal stream) with at least two digits -/
def expTextIos (letter : Char) (expval : Int) : List Char :=
  let ds := natDigits 10 false expval.natAbs
  letter :: (if expval ≥ 0 then '+' else '-') :: (if ds.length < 2 then '0' :: ds else ds)

/-- DIGIT_VALUE (doprntf.c:50-53) -/
def DIGIT_VALUE (c : Char) : Nat :=
  if isdigit c then c.toNat - 48 else if 'a' ≤ c ∧ c ≤ 'z' then c.toNat - 97 + 10 else c.toNat - 65 + 10

/-- what `__gmp_doprnt_mpf` has decided when it starts to write (doprntf.c:296-336) -/
structure Pieces where
  sign : Option Char
  showbase : List Char
  s : List Char            -- the digits (after the rounding of the fixed format)
  intlen : Int
  intzeros : Int
  pointlen : Int
  fraczeros : Int
  fraclen : Int
  preczeros : Int
  expStr : List Char
  deriving Repr, DecidableEq

/-- doprntf.c:150-215: the fixed format keeps `exp + prec` digits, rounding to nearest on the next one -/
def fixedRound (base : Nat) (upper : Bool) (s : List Char) (exp prec : Int) : List Char × Int :=
  let newlen := exp + prec                                                       -- :152
  if newlen < 0 then ([], 0)                                                     -- :153-159
  else if (s.length : Int) ≤ newlen then (s, exp)                                -- :160-163
  else
    let keep := s.take newlen.toNat                                              -- :176 len = newlen
    let n := DIGIT_VALUE (s.getD newlen.toNat '0')                               -- :177
    if n ≥ (base + 1) / 2 then                                                   -- :179
      -- :181-199 propagate a carry: digits base-1 are dropped, the first other one is incremented
      match keep.reverse.dropWhile (fun c => DIGIT_VALUE c + 1 == base) with
      | [] => (['1'], exp + 1)                                                   -- :184-190
      | last :: restRev => (restRev.reverse ++ [digitChar upper (DIGIT_VALUE last + 1)], exp)   -- :191-197
    else
      let t := (keep.reverse.dropWhile (· == '0')).reverse                       -- :203-205
      (t, if t.isEmpty then 0 else exp)                                          -- :211-212

/-- what `__gmp_doprnt_mpf` has decided about the digits (doprntf.c:73-215, 249-252, 276) -/
structure FDigits where
  neg : Bool               -- mpf_get_str delivered a '-'
  s : List Char            -- the digits, after the rounding of the fixed format: the value is 0.s × base^exp
  exp : Int
  prec : Int               -- the precision in force
  sci : Bool               -- scientific notation (d.ddd and an exponent), else positional notation
  deriving Repr, DecidableEq

/-- doprntf.c:73-215 and the choice of the notation (:140, :247, :276) -/
def mpfDigits (p : Params) (f : Mpf.F) : FDigits :=
  let base := p.base.natAbs
  let upper := decide (p.base < 0)
  -- :73-114 how many digits to ask for: (prec, ndigits)
  let pn : Int × Int :=
    if p.prec ≤ -1 then (if p.conv = 3 then (MpfStr.maxDigits base f.prec : Int) else p.prec, 0)      -- :74-83
    else if p.conv = 1 then                                                                           -- :87-99
      (p.prec, max (p.prec + 2 + f.exp * ((Radix.charsPerLimb base : Int) + (if f.exp ≥ 0 then 1 else 0))) 1)
    else if p.conv = 2 then (p.prec, p.prec + 1)                                                      -- :101-105
    else (p.prec, max p.prec 1)                                                                       -- :111-115
  -- :120 s = mpf_get_str (NULL, &exp, p->base, ndigits, f)
  let g := MpfStr.get_str p.base pn.2.toNat f
  let str := g.1.map Char.ofNat
  let exp0 := g.2
  -- :131-138 sign
  let neg : Bool := str.head? = some '-'
  let s0 := if neg then str.tail else str
  if p.conv = 1 then
    let prec := if pn.1 ≤ -1 then max 0 ((s0.length : Int) - exp0) else pn.1                          -- :142-143
    let fr := fixedRound base upper s0 exp0 prec                                                      -- :146-215
    ⟨neg, fr.1, fr.2, prec, false⟩
  else if p.conv = 2 then
    ⟨neg, s0, exp0, if pn.1 ≤ -1 then max 0 ((s0.length : Int) - 1) else pn.1, true⟩                 -- :251-252
  else ⟨neg, s0, exp0, pn.1, decide (exp0 - 1 < -4 ∨ exp0 - 1 ≥ max 1 pn.1)⟩                         -- :276

/-- doprntf.c:131-138 (the sign character), :226-262 (the lengths), :288-328 (trailing zeros, point, base prefix) -/
def piecesOf (p : Params) (letter : Char) (D : FDigits) : Pieces :=
  let sign : Option Char := if D.neg then some '-' else p.sign
  let len : Int := D.s.length
  let intlen : Int := if D.sci then min 1 len else if D.exp ≤ 0 then 0 else min len D.exp             -- :253 / :230, :238
  let intzeros : Int := if D.sci then (if intlen = 0 then 1 else 0) else if D.exp ≤ 0 then 1 else D.exp - intlen
  let fraczeros : Int := if D.sci then 0 else if D.exp ≤ 0 then -D.exp else 0
  let fraclen : Int := if D.sci ∨ 0 < D.exp then len - intlen else len
  let expStr : List Char := if D.sci then expTextIos letter (D.exp - intlen) else []                  -- :258-262, exptimes4 = 0
  -- :288-298 trailing zeros up to the precision
  let preczeros : Int :=
    if p.showtrailing then max 0 (D.prec - (fraczeros + fraclen + (if p.conv = 3 then intlen + intzeros else 0))) else 0
  -- :302-303 radix point
  let pointlen : Int := if fraczeros + fraclen + preczeros ≠ 0 ∨ p.showpoint then 1 else 0
  -- :308-328 base prefix
  let showbase : List Char :=
    if p.showbase = .no then []
    else if p.showbase = .nonzero ∧ intlen = 0 ∧ fraclen = 0 then []
    else (if p.base = 16 then ['0', 'x'] else if p.base = -16 then ['0', 'X'] else if p.base = 8 then ['0'] else [])
  ⟨sign, showbase, D.s, intlen, intzeros, pointlen, fraczeros, fraclen, preczeros, expStr⟩

/-- doprntf.c:73-328 -/
def mpfPieces (p : Params) (letter : Char) (f : Mpf.F) : Pieces := piecesOf p letter (mpfDigits p f)

/-- doprntf.c:333-372: the calls of the output functions (decimal point ".") -/
def emitPieces (p : Params) (q : Pieces) : List Call :=
  let signlen : Int := if q.sign.isSome then 1 else 0
  let justlen : Int := p.width - (signlen + (q.showbase.length : Int) + q.intlen + q.intzeros + q.pointlen + q.fraczeros +
    q.fraclen + q.preczeros + (q.expStr.length : Int))                                                -- :333-334
  let justify := if justlen ≤ 0 then Justify.none else p.justify                                      -- :337-339
  (if justify = .right then [Call.reps p.fill justlen.toNat] else []) ++                              -- :344-345
  (match q.sign with | some c => [Call.reps c 1] | none => []) ++                                     -- :347-348
  memoryMaybe q.showbase ++                                                                           -- :350
  (if justify = .internal then [Call.reps p.fill justlen.toNat] else []) ++                           -- :352-353
  [Call.memory (q.s.take q.intlen.toNat)] ++                                                          -- :355
  repsMaybe '0' q.intzeros.toNat ++                                                                   -- :356
  (if q.pointlen ≠ 0 then [Call.memory ['.']] else []) ++                                             -- :358
  repsMaybe '0' q.fraczeros.toNat ++                                                                  -- :360
  memoryMaybe ((q.s.drop q.intlen.toNat).take q.fraclen.toNat) ++                                     -- :361
  repsMaybe '0' q.preczeros.toNat ++                                                                  -- :363
  memoryMaybe q.expStr ++                                                                             -- :365
  (if justify = .left then [Call.reps p.fill justlen.toNat] else [])                                  -- :367-368

/-- `__gmp_doprnt_mpf (funs, data, p, ".", f)` with `p->expfmt` = letter "%c%02d" -/
def doprntMpfG (p : Params) (letter : Char) (f : Mpf.F) : List Call := emitPieces p (mpfPieces p letter f)

/-- the letter of `p->expfmt` (osfuns.cc:52-64) -/
def expLetter (f : Fmt) : Char := if f.hexOnly then '@' else if f.uppercase then 'E' else 'e'

/-- `operator<< (ostream &o, mpf_srcptr f)` (osmpf.cc:38-64) for every basefield setting -/
def insertFG (o : OStream) (f : Mpf.F) : OStream :=
  let po := paramsFromIos o
  po.2.write (callsBytes (doprntMpfG po.1 (expLetter o.fmt) f))

/-! ### the closed form of what `operator<< (ostream &, mpf)` writes (specification side) -/

def zeros (n : Int) : List Char := List.replicate n.toNat '0'

/-- positional notation of 0.s × base^exp: (integer part, fraction part) -/
def fixedText (s : List Char) (exp : Int) : List Char × List Char :=
  if exp ≤ 0 then (['0'], zeros (-exp) ++ s) else (s.take exp.toNat ++ zeros (exp - s.length), s.drop exp.toNat)

/-- scientific notation: (the first digit, or 0 when there is none; the other digits) -/
def sciText (s : List Char) : List Char × List Char := (if s = [] then ['0'] else s.take 1, s.drop 1)

/-- integer part, point, fraction, trailing zeros, exponent.  Trailing zeros (under `showtrailing`: fixed, scientific, or
    showpoint) fill the fraction up to `prec` digits — in the general format `prec` counts the digits of the integer part
    too.  The point is written when a fraction digit or trailing zero follows it, or under showpoint. -/
def floatBody (general showtrailing showpoint : Bool) (prec : Int) (ip fp expStr : List Char) : List Char :=
  let pz := if showtrailing then zeros (prec - ((fp.length + (if general then ip.length else 0) : Nat) : Int)) else []
  ip ++ (if fp ++ pz ≠ [] ∨ showpoint = true then ['.'] else []) ++ fp ++ pz ++ expStr

/-- the text of an mpf on a stream with flags `fm`, width, fill, for the digits `D` and the parameters derived from the
    stream: [padding] sign prefix [padding] body [padding] as for integers (`fieldLayout`), the prefix being "0x"/"0X" on a
    hex stream with showbase and "0" on an octal stream with showbase unless there is no digit at all -/
def specInsertF (fm : Fmt) (width : Int) (fill : Char) (p : Params) (D : FDigits) : List Char :=
  let t := if D.sci then sciText D.s else fixedText D.s D.exp
  let expStr := if D.sci then expTextIos (expLetter fm) (D.exp - (min 1 D.s.length : Nat)) else []
  fieldLayout fm width fill (if D.neg then ['-'] else if fm.showpos then ['+'] else []) (prefixStr fm (decide (D.s = [])))
    (floatBody (decide (p.conv = 3)) p.showtrailing p.showpoint D.prec t.1 t.2 expStr)

end Mpir.CxxIo
