/-
  C05 (aliasing), pointer level, part c05_ptr2: the mpf functions whose limb traffic depends on `r == u`
  (mpf_div, mpf_mul, mpf_sqrt, mpf_div_ui) on the memory model of Mpir/Model/AliasMem.lean.  Core Lean only.

  An `mpf_t` is a header {prec, size, exp, ptr} and a limb block.  mpf functions never reallocate: they write at
  most PREC (r) + 1 limbs through `r->_mp_d`, so the object invariant is `PREC + 1 ≤ block length` (mpf_init2 allocates
  exactly PREC + 1 limbs; mpf_set_prec_raw lowers PREC and leaves block, size and limbs alone — an operand may then
  have MORE than PREC + 1 limbs, which is the state in which `mpf_div (x, x, v)` needs its dividend copied even though
  the dividend is going to be chopped).  The model keeps the block length in the `alloc` field of the underlying
  `St` variable (C does not store it), `size` is `_mp_size`, and `prec`, `exp` are separate maps.

  The value-level answers (which limbs, which exponent) are those of the bit-exact model Mpir/Model/Mpf.lean (C13);
  here the question is WHICH BLOCK is read after WHICH was written.
-/
import Mpir.Model.AliasMem
import Mpir.Model.Mpf
namespace Mpir.AliasMem
open Mpir
open Mpir.DivZ (sizeNat siz sameSign)

/-- mpf variables `0 … st.nv-1`: header fields size / ptr (and the block length, as `alloc`) in `st`, `_mp_prec`, `_mp_exp` here -/
structure FSt where
  st : St
  prec : Nat → Nat
  exp : Nat → Int

namespace FSt

/-- the operand as the bit-exact model sees it -/
def F (s : FSt) (i : Nat) : Mpf.F := ⟨s.prec i, s.st.size i, s.exp i, s.st.limbs i⟩

/-- `r->_mp_size = sz; r->_mp_exp = e;` -/
def setSE (s : FSt) (r : Nat) (sz e : Int) : FSt :=
  { s with st := s.st.setSize r sz, exp := fun j => if j = r then e else s.exp j }

/-- `r->_mp_exp = e;` -/
def setExp (s : FSt) (r : Nat) (e : Int) : FSt := { s with exp := fun j => if j = r then e else s.exp j }

def withSt (s : FSt) (st : St) : FSt := { s with st := st }

end FSt

/-- the C as it is, and wrong versions for the negative examples -/
structure FVariant where
  copyUIfOverlap : Bool := true   -- div.c:96 `copy_u = (zeros > 0 || rp == up)`
  copyV : Bool := true            -- div.c:131-135 "ensure divisor doesn't overlap quotient"
  productInTmp : Bool := true     -- mul.c:68-82: the product is formed in TMP space and copied
  sqrtLocals : Bool := true       -- sqrt.c:63, :75-77: size, exponent and pointer of u are fetched before r's header is written (:81-82)
  dividendInTmp : Bool := true    -- div_ui.c:75-91 "Move the dividend to the remainder"
  deriving Repr

def FVariant.c : FVariant := {}

/-- mpn_tdiv_qr (qp, rp, 0, np + noff, nl, dp, dl) with the numerator at an offset of its block (`up += chop`, div.c:99):
    mpn/generic/tdiv_qr.c:43-47, no overlap between arguments. -/
def mpn_tdiv_qr_off (qp rp np noff nl dp dl : Nat) (s : St) : R St := do
  if qp = np ∨ qp = dp ∨ rp = np ∨ rp = dp ∨ qp = rp then throw "ub:mpn_tdiv_qr operands overlap"
  let n ← s.loadAt np noff nl
  let d ← s.load dp dl
  if ¬ (1 ≤ dl ∧ dl ≤ nl) then throw "ub:mpn_tdiv_qr sizes"
  if d.getD (dl - 1) 0 = 0 then throw "ub:mpn_tdiv_qr divisor not normalised"
  let s ← s.store qp (toLimbs (nl - dl + 1) (val n / val d))
  s.store rp (toLimbs dl (val n % val d))

/-- div.c:121-128 "copy and possibly extend u if necessary": returns (up, offset, usize, TMP blocks, state) -/
def divPrepU (copy_u : Bool) (up uoff usize zeros : Nat) (st : St) : R (Nat × Nat × Nat × List Nat × St) :=
  if copy_u then do
    let l ← st.loadAt up uoff usize                           -- :125 MPN_COPY (tp+zeros, up, usize)
    let r2 := st.malloc (List.replicate zeros 0 ++ l)         -- :124 MPN_ZERO (tp, zeros)
    pure (r2.1, 0, usize + zeros, [r2.1], r2.2)               -- :126-127 up = tp; usize = tsize
  else pure (up, uoff, usize, [], st)

/-- div.c:130-135 "ensure divisor doesn't overlap quotient" -/
def divPrepV (c : Bool) (vp vsize : Nat) (st : St) : R (Nat × List Nat × St) :=
  if c then do
    let r3 ← st.tmpCopy vp vsize                              -- :133
    pure (r3.1, [r3.1], r3.2)                                 -- :134
  else pure (vp, [], st)

/-- div.c:137-147: the division, "strip possible zero high limb", the two header stores, TMP_FREE -/
def divFinish (s : FSt) (r rp remp up uoff usize vp vsize prec : Nat) (neg : Bool) (rexp : Int) (tmps : List Nat) (st : St) : R FSt := do
  let st ← mpn_tdiv_qr_off rp remp up uoff usize vp vsize st  -- :138
  let top ← limbAt st rp prec                                 -- :141 high_zero = (rp[rsize-1] == 0), rsize = prec + 1
  let hz := if top = 0 then 1 else 0
  let rsize := prec + 1 - hz                                  -- :142
  let s' := (s.withSt st).setSE r (if neg then -(rsize : Int) else (rsize : Int)) (rexp - hz)   -- :143, :145-146
  pure (s'.withSt (tmps.foldl St.free s'.st))                 -- :147 TMP_FREE

/-- mpf_div (r, u, v): mpf/div.c:58-148.  The three TMP areas (remainder, copy of v, padded copy of u) are carved out of
    one TMP block in the C (:114-119); they are separate blocks here, as under WANT_TMP_DEBUG (:105-111). -/
def mpf_divV (V : FVariant) (r u v : Nat) (s : FSt) : R FSt := do
  let us := s.st.size u                                       -- div.c:68
  let vs := s.st.size v                                       -- :69
  let neg : Bool := !(sameSign us vs)                         -- :70 sign_quotient = usize ^ vsize
  let usize := us.natAbs                                      -- :71
  let vsize := vs.natAbs                                      -- :72
  let prec := s.prec r                                        -- :73
  if vsize = 0 then throw "div0"                              -- :75-76
  if usize = 0 then pure (s.setSE r 0 0)                      -- :78-83
  else
    let rexp := s.exp u - s.exp v + 1                         -- :86
    let rp := s.st.ptr r                                      -- :88
    let up := s.st.ptr u                                      -- :89
    let vp := s.st.ptr v                                      -- :90
    let prospective : Int := (usize : Int) - (vsize : Int) + 1   -- :92
    let zeros : Int := ((prec + 1 : Nat) : Int) - prospective -- :93, :95
    let copy_u : Bool := zeros > 0 ∨ (V.copyUIfOverlap ∧ rp = up)   -- :96
    let chop := (max (-zeros) 0).toNat                        -- :98
    let r1 := s.st.tmpAlloc vsize                             -- :108 / :116 remp
    let pu ← divPrepU copy_u up chop (usize - chop) (zeros + chop).toNat r1.2   -- :99-103, :121-128
    let pv ← divPrepV (V.copyV ∧ rp = vp) vp vsize pu.2.2.2.2 -- :130-135
    divFinish s r rp r1.1 pu.1 pu.2.1 pu.2.2.1 pv.1 vsize prec neg rexp (r1.1 :: pu.2.2.2.1 ++ pv.2.1) pv.2.2

def mpf_div := mpf_divV .c

/-- mpf_mul (r, u, v): mpf/mul.c:26-87. -/
def mpf_mulV (V : FVariant) (r u v : Nat) (s : FSt) : R FSt := do
  let prec := s.prec r                                        -- mul.c:31
  let us := s.st.size u                                       -- :35
  let vs := s.st.size v                                       -- :36
  let neg : Bool := !(sameSign us vs)                         -- :37
  let usize := us.natAbs                                      -- :39
  let vsize := vs.natAbs                                      -- :40
  let up := s.st.ptr u                                        -- :42
  let vp := s.st.ptr v                                        -- :43
  let uoff := if usize > prec then usize - prec else 0        -- :44-48
  let usize := if usize > prec then prec else usize
  let voff := if vsize > prec then vsize - prec else 0        -- :49-53
  let vsize := if vsize > prec then prec else vsize
  if usize = 0 ∨ vsize = 0 then pure (s.setSE r 0 0)          -- :55-59
  else
    let rsize := usize + vsize                                -- :67
    let a ← s.st.loadAt up uoff usize                         -- :69-71 mpn_mul reads both factors …
    let b ← s.st.loadAt vp voff vsize
    let p := val a * val b
    let adj := if p / B ^ (rsize - 1) = 0 then 1 else 0       -- :73 adj = cy_limb == 0
    let rsize := rsize - adj                                  -- :74
    let prec1 := prec + 1                                     -- :75
    let toff := if rsize > prec1 then rsize - prec1 else 0    -- :76-80
    let rsize := if rsize > prec1 then prec1 else rsize
    let rp := s.st.ptr r                                      -- :81
    if V.productInTmp then do
      let r1 := s.st.malloc (toLimbs (usize + vsize) p)       -- :68 tp, … and writes the product there
      let l ← r1.2.loadAt r1.1 toff rsize                     -- :82 MPN_COPY (rp, tp, rsize)
      let st ← r1.2.store rp l
      let e := s.exp u + s.exp v - adj                        -- :83 (u->_mp_exp, v->_mp_exp read here, before the stores to r's header)
      let s' := (s.withSt st).setSE r (if neg then -(rsize : Int) else (rsize : Int)) e   -- :83-84
      pure (s'.withSt (s'.st.free r1.1))                      -- :86
    else do
      -- (wrong variant) the product formed in place: mpn_mul refuses a product that overlaps a factor, and r has only prec+1 limbs
      if rp = up ∨ rp = vp then throw "ub:mpn_mul product overlaps a factor"
      let st ← s.st.store rp (toLimbs (usize + vsize) p)
      let e := s.exp u + s.exp v - adj
      pure ((s.withSt st).setSE r (if neg then -(rsize : Int) else (rsize : Int)) e)

def mpf_mul := mpf_mulV .c

/-- mpf_sqrt (r, u): mpf/sqrt.c:55-104. -/
def mpf_sqrtV (V : FVariant) (r u : Nat) (s : FSt) : R FSt := do
  let usize := s.st.size u                                    -- sqrt.c:63
  if usize < 0 then throw "sqrtneg"                           -- :66-67
  if usize = 0 then pure (s.setSE r 0 0)                      -- :68-70
  else
    let uexp := s.exp u                                       -- :75
    let prec := s.prec r                                      -- :76
    let up := s.st.ptr u                                      -- :77
    let expodd : Nat := (uexp % 2).toNat                      -- :79
    let tsize := 2 * prec - expodd                            -- :80
    let s1 := s.setSE r prec ((uexp + expodd) / 2)            -- :81-82  (r's header is written here already)
    let usize := if V.sqrtLocals then usize.natAbs else (s1.st.size u).natAbs   -- (wrong variant: u->_mp_size read again)
    -- :87-99 tp = the top tsize limbs of u, or u padded with low zero limbs
    let l ← (if usize > tsize then s1.st.loadAt up (usize - tsize) tsize      -- :89-94
             else do
               let l ← s1.st.loadAt up 0 usize                               -- :98
               pure (List.replicate (tsize - usize) 0 ++ l))                  -- :97
    let r1 := s1.st.malloc l                                  -- :87
    let res ← mpn_sqrtrem_root (s1.st.ptr r) r1.1 tsize r1.2  -- :101 mpn_sqrtrem (r->_mp_d, NULL, tp, tsize)
    pure (s1.withSt (res.free r1.1))                          -- :103
where
  /-- mpn_sqrtrem (sp, NULL, np, nn): root only; S may not overlap N (sqrtrem.c:298-301) -/
  mpn_sqrtrem_root (sp np nn : Nat) (s : St) : R St := do
    if sp = np then throw "ub:mpn_sqrtrem operands overlap"
    let n ← s.load np nn
    if ¬ 1 ≤ nn then throw "ub:mpn_sqrtrem sizes"
    if n.getD (nn - 1) 0 = 0 then throw "ub:mpn_sqrtrem operand not normalised"
    s.store sp (toLimbs ((nn + 1) / 2) (Nat.sqrt (val n)))

def mpf_sqrt := mpf_sqrtV .c

/-- mpf_div_ui (r, u, v): mpf/div_ui.c:28-101 (BITS_PER_UI == GMP_NUMB_BITS: :40-53 compiled out).  mpn_divmod_1 (rp, tp, n, v)
    = mpn_divrem_1 (rp, 0, tp, n, v): quotient and dividend may be the same area or separate. -/
def mpf_div_uiV (V : FVariant) (r u : Nat) (v : Nat) (s : FSt) : R FSt := do
  let us := s.st.size u                                       -- div_ui.c:55
  let usize := us.natAbs                                      -- :57
  let prec := s.prec r                                        -- :58
  if v = 0 then throw "div0"                                  -- :60-61
  if usize = 0 then pure (s.setSE r 0 0)                      -- :63-68
  else
    let rp := s.st.ptr r                                      -- :72
    let up := s.st.ptr u                                      -- :73
    let tsize := 1 + prec                                     -- :75
    let l ← (if usize > tsize then s.st.loadAt up (usize - tsize) tsize      -- :78-83, :91
             else do
               let l ← s.st.loadAt up 0 usize                                -- :91
               pure (List.replicate (tsize - usize) 0 ++ l))                  -- :86-87
    let q := val l / v
    let (st, tmp) ← (if V.dividendInTmp then do
        let r1 := s.st.malloc (l ++ [junk])                   -- :76 tp, tsize + 1 limbs
        let st ← r1.2.store rp (toLimbs tsize q)              -- :93 mpn_divmod_1 (rp, tp, tsize, v)
        pure (st, [r1.1])
      else do
        -- (wrong variant) dividing u's limbs where they are: with more than prec+1 limbs in u only the top ones take part, and
        -- `rp == up` then is a quotient area that overlaps the dividend area at an offset
        if rp = up ∧ usize > tsize then throw "ub:mpn_divrem_1 quotient overlaps the dividend at an offset"
        let st ← s.st.store rp (toLimbs tsize q)
        pure (st, []))
    let top ← limbAt st rp (tsize - 1)                        -- :94 q_limb = rp[tsize - 1]
    let hz := if top = 0 then 1 else 0
    let rsize := tsize - hz                                   -- :96
    let rexp := s.exp u - hz                                  -- :97
    let s' := (s.withSt st).setSE r (if us ≥ 0 then (rsize : Int) else -(rsize : Int)) rexp   -- :98-99
    pure (s'.withSt (tmp.foldl St.free s'.st))                -- :100

def mpf_div_ui := mpf_div_uiV .c

/-- variables holding the given operands: block of `max (prec + 1) n` limbs (what harness `fv_new` allocates), the limbs at
    its start, stale data (junk) above -/
def ofFs (fs : List Mpf.F) : FSt :=
  { st :=
      { nv := fs.length
        vars := fun i =>
          let f := fs.getD i default
          { alloc := max (f.prec + 1) f.d.length, size := f.size, ptr := i }
        blk := fun p =>
          if p < fs.length then
            let f := fs.getD p default
            some (f.d ++ List.replicate (max (f.prec + 1) f.d.length - f.d.length) junk)
          else none
        next := fs.length }
    prec := fun i => (fs.getD i default).prec
    exp := fun i => (fs.getD i default).exp }

end Mpir.AliasMem
