/-
  C20 — mpf_class expressions (mpirxx.h).  Core Lean only.

  The mpf layer is the BIT-EXACT model `Mpir.Mpf` (same limbs, size, exponent as the C), so everything
  here is limb-exact.

  Part 1 (specification): trees `FE` over mpf_class variables, embedded mpz/mpq-typed sub-expressions
  (`Cxx.E`) and built-in operands; `evalTmpF P` = "evaluate every mpf-typed sub-expression into its own
  fresh temporary of precision `P` limbs with the C function the function object calls; an mpz/mpq-typed
  sub-expression is evaluated exactly (`Cxx.evalTmp`) and converted with mpf_set_z / mpf_set_q at
  precision `P`; a double goes through a 2-limb temporary and mpf_set_d".  The precision rule of
  mpirxx.h: `P` = the destination's precision inside `eval(p)`; a constructor / comparison / conversion
  temporary is created with `get_prec()` of the expression = max over the mpf_class leaves of their
  precision, `mpf_get_default_prec()` for mpz_class/mpq_class leaves (`getPrec`).

  Part 2 (what mpirxx.h does): an array of mpf_t objects (variables and `mpf_class` temporaries),
  the mpf function objects `__gmp_unary_*/__gmp_binary_*::eval(mpf_ptr, ...)` statement by statement
  with the pointer identities the C functions test (`r == u`) as explicit flags, and the
  expression-template strategy `evalF` (which `__gmp_expr<mpf_t,...>::eval(p)` specialisation applies
  to which tree shape; `__gmp_temp<mpf_t>` = `mpf_class(expr, mpf_get_prec(p))`).
  Line numbers refer to /repo/mpirxx.h.
-/
import Mpir.Model.Cxx
import Mpir.Model.Mpf
namespace Mpir.CxxF
open Mpir Mpir.Cxx Mpir.Mpf

/-! ## Part 1: trees and the temporaries semantics -/

inductive FUn where
  | pos | neg | abs | sqrt | trunc | floor | ceil
  deriving Repr, DecidableEq, Inhabited

inductive FBin where
  | add | sub | mul | div | hypot
  deriving Repr, DecidableEq, Inhabited

/-- mpf-typed expression trees.  `fv i` is an mpf_class object; `zq e` is an operand of type
    mpz/mpq (an mpz_class / mpq_class object or any expression over them), which C++ converts where
    it meets the mpf world. -/
inductive FE where
  | fv (i : Nat)
  | zq (e : E)
  | un (o : FUn) (a : FE)
  | bin (o : FBin) (a b : FE)
  | binL (o : FBin) (c : Bi) (b : FE)
  | binR (o : FBin) (a : FE) (c : Bi)
  | sh (o : Sh) (a : FE) (n : Nat)
  deriving Repr, DecidableEq, Inhabited

def FE.isZq : FE → Bool
  | .zq _ => true
  | _ => false

def FE.leaf? : FE → Option Nat
  | .fv i => some i
  | _ => none

/-- the tree compiles and is mpf-typed at every inner node: a unary function / shift / built-in partner
    needs an mpf-typed operand (otherwise the node would be an mpz/mpq expression, i.e. inside a `zq`),
    a binary node needs at least one mpf-typed operand -/
def FE.wt : FE → Bool
  | .fv _ => true
  | .zq e => e.wt
  | .un _ a => a.wt && !a.isZq
  | .bin _ a b => a.wt && b.wt && !(a.isZq && b.isZq)
  | .binL _ c b => c.ok && b.wt && !b.isZq
  | .binR _ a c => c.ok && a.wt && !a.isZq
  | .sh _ a n => a.wt && !a.isZq && decide (UiRange n)

/-- an operand handed to a function object: the contents of an mpf_t or a built-in value -/
inductive FVal where
  | f (x : F)
  | bi (c : Bi)
  deriving Repr, DecidableEq, Inhabited

def ok : Mpf.Res → Option F
  | .ok f => some f
  | _ => none

/-- `mpf_t temp; mpf_init2(temp, 8*sizeof(double)); mpf_set_d(temp, d);` (mpirxx.h:297-299) -/
def dTemp (bits : Nat) : Option F := ok (set_d (BITS_TO_PREC 64) bits)

/-- precision (limbs) of `mpf_init2(temp, mpf_get_prec(f))` for a destination of `P` limbs -/
def tp (P : Nat) : Nat := BITS_TO_PREC (PREC_TO_BITS P)

/-! ### the function objects as functions of the operand contents

  `P` = `PREC(f)` of the destination; `aP` / `bP` say whether the first / second mpf operand is the
  destination object itself (the `r == u` tests of mpf/neg.c, abs.c, add.c, sub.c, add_ui.c). -/

/-- `__gmp_unary_plus/minus`, `__gmp_abs/trunc/floor/ceil/sqrt_function` (mpirxx.h:180, 187, 1149-1170) -/
def fnUnV (P : Nat) (o : FUn) (aP : Bool) (g : F) : Option F :=
  match o with
  | .pos => some (Mpf.set P g)
  | .neg => some (Mpf.neg P aP g)
  | .abs => some (Mpf.abs P aP g)
  | .sqrt => ok (Mpf.sqrt P g)
  | .trunc => some (Mpf.trunc P g)
  | .floor => some (Mpf.floor P g)
  | .ceil => some (Mpf.ceil P g)

/-- `__gmp_binary_lshift/rshift` (mpirxx.h:485, 509) -/
def fnShV (P : Nat) (o : Sh) (g : F) (n : Nat) : F :=
  match o with
  | .shl => mul_2exp P g n
  | .shr => div_2exp P g n

/-- tail of `__gmp_hypot_function::eval` (mpirxx.h:1179-1182 …): `f` already holds the second operand;
    `mpf_mul(f, f, f); mpf_add(f, f, temp); mpf_sqrt(f, f);` -/
def hypotTail (P : Nat) (t f0 : F) (square : Bool) : Option F :=
  let f1 := if square then Mpf.mul P f0 f0 else f0
  let f2 := Mpf.add P true false f1 t
  ok (Mpf.sqrt P f2)

def fnBinV (P : Nat) (o : FBin) (aP bP : Bool) : FVal → FVal → Option F
  -- __gmp_binary_plus, mpirxx.h:279-305
  | .f g, .f h => match o with
      | .add => some (Mpf.add P aP bP g h)                                   -- :280
      | .sub => some (Mpf.sub P aP bP g h)                                   -- :416
      | .mul => some (Mpf.mul P g h)                                         -- :619
      | .div => ok (Mpf.div P g h)                                           -- :788
      | .hypot => hypotTail P (Mpf.mul (tp P) g g) (Mpf.mul P h h) false      -- :1175-1184
  | .f g, .bi (.ui l) => match o with
      | .add => some (add_ui P aP g l)                                       -- :283
      | .sub => some (sub_ui P aP g l)                                       -- :419
      | .mul => some (mul_ui P g l)                                          -- :622
      | .div => ok (div_ui P g l)                                            -- :791
      | .hypot => hypotTail P (Mpf.mul (tp P) g g) (set_ui P l) true          -- :1186-1196
  | .bi (.ui l), .f g => match o with
      | .add => some (add_ui P bP g l)                                       -- :285
      | .sub => some (ui_sub P bP l g)                                       -- :421
      | .mul => some (mul_ui P g l)                                          -- :624
      | .div => ok (ui_div P l g)                                            -- :793
      | .hypot => hypotTail P (Mpf.mul (tp P) g g) (set_ui P l) true          -- :1197
  | .f g, .bi (.si l) => match o with
      | .add => some (if l ≥ 0 then add_ui P aP g (toUi l) else sub_ui P aP g (negUi l))      -- :286-292
      | .sub => some (if l ≥ 0 then sub_ui P aP g (toUi l) else add_ui P aP g (negUi l))      -- :422-428
      | .mul => some (if l ≥ 0 then mul_ui P g (toUi l) else Mpf.neg P true (mul_ui P g (negUi l)))   -- :625-634
      | .div => if l ≥ 0 then ok (div_ui P g (toUi l)) else (ok (div_ui P g (negUi l))).map (Mpf.neg P true)   -- :794-803
      | .hypot => hypotTail P (Mpf.mul (tp P) g g) (set_si P l) true          -- :1199-1209
  | .bi (.si l), .f g => match o with
      | .add => some (if l ≥ 0 then add_ui P bP g (toUi l) else sub_ui P bP g (negUi l))      -- :293
      | .sub => some (Mpf.neg P true (if l ≥ 0 then sub_ui P bP g (toUi l) else add_ui P bP g (negUi l)))   -- :429-436
      | .mul => some (if l ≥ 0 then mul_ui P g (toUi l) else Mpf.neg P true (mul_ui P g (negUi l)))   -- :635
      | .div => if l ≥ 0 then ok (ui_div P (toUi l) g) else (ok (ui_div P (negUi l) g)).map (Mpf.neg P true)   -- :804-813
      | .hypot => hypotTail P (Mpf.mul (tp P) g g) (set_si P l) true          -- :1210
  | .f g, .bi (.d d) => match o with
      | .add => (dTemp d).map fun t => Mpf.add P aP false g t                 -- :295-302
      | .sub => (dTemp d).map fun t => Mpf.sub P aP false g t                 -- :437-444
      | .mul => (dTemp d).map fun t => Mpf.mul P g t                          -- :637-644
      | .div => (dTemp d).bind fun t => ok (Mpf.div P g t)                    -- :814-821
      | .hypot => (ok (set_d P d)).bind fun f0 => hypotTail P (Mpf.mul (tp P) g g) f0 true   -- :1212-1222
  | .bi (.d d), .f g => match o with
      | .add => (dTemp d).map fun t => Mpf.add P bP false g t                 -- :303
      | .sub => (dTemp d).map fun t => Mpf.sub P false bP t g                 -- :445-452
      | .mul => (dTemp d).map fun t => Mpf.mul P g t                          -- :645
      | .div => (dTemp d).bind fun t => ok (Mpf.div P t g)                    -- :822-829
      | .hypot => (ok (set_d P d)).bind fun f0 => hypotTail P (Mpf.mul (tp P) g g) f0 true   -- :1223
  | .bi _, .bi _ => none            -- no such overload

/-- `mpf_set_z` / `mpf_set_q` of an exact mpz / mpq value into a destination of `P` limbs (mpirxx.h:2345-2357) -/
def convF (P : Nat) : Val → F
  | .z v => set_z P v
  | .q r => set_q P r.num r.den

/-- evaluation into temporaries of precision `P`.  An mpf_class operand of a function object is read in
    place (`opnd`), everything else is a temporary of its own. -/
def evalTmpF (P : Nat) (zenv : Env) (fenv : Nat → F) : FE → Option F
  | .fv i => some (Mpf.set P (fenv i))
  | .zq e => (evalTmp zenv e).map (convF P)
  | .un o a =>
      (match a.leaf? with | some i => some (fenv i) | none => evalTmpF P zenv fenv a).bind (fnUnV P o false)
  | .bin o a b =>
      (match a.leaf? with | some i => some (fenv i) | none => evalTmpF P zenv fenv a).bind fun x =>
      (match b.leaf? with | some j => some (fenv j) | none => evalTmpF P zenv fenv b).bind fun y =>
        fnBinV P o false false (.f x) (.f y)
  | .binL o c b =>
      (match b.leaf? with | some j => some (fenv j) | none => evalTmpF P zenv fenv b).bind fun y =>
        fnBinV P o false false (.bi c) (.f y)
  | .binR o a c =>
      (match a.leaf? with | some i => some (fenv i) | none => evalTmpF P zenv fenv a).bind fun x =>
        fnBinV P o false false (.f x) (.bi c)
  | .sh o a n =>
      (match a.leaf? with | some i => some (fenv i) | none => evalTmpF P zenv fenv a).map fun x => fnShV P o x n

/-- an operand bound by `mpf_class const& temp(expr)`: the object itself for an mpf_class, else a temporary -/
def opndTmpF (P : Nat) (zenv : Env) (fenv : Nat → F) (e : FE) : Option F :=
  match e.leaf? with
  | some i => some (fenv i)
  | none => evalTmpF P zenv fenv e

/-- `get_prec()` of an expression, in bits (mpirxx.h:1603, 1807, 2017, 2425, 2443, 2475-2480, 2501, 2519, …):
    max over the class operands; an mpz/mpq-typed operand reports `mpf_get_default_prec()` -/
def getPrec (dflt : Nat) (fenv : Nat → F) : FE → Nat
  | .fv i => get_prec (fenv i)
  | .zq _ => dflt
  | .un _ a => getPrec dflt fenv a
  | .bin _ a b => max (getPrec dflt fenv a) (getPrec dflt fenv b)
  | .binL _ _ b => getPrec dflt fenv b
  | .binR _ a _ => getPrec dflt fenv a
  | .sh _ a _ => getPrec dflt fenv a

/-- exact value of an mpf (core `Rat`) -/
def fRat (f : F) : Rat :=
  let m : Int := if f.size < 0 then -(Int.ofNat (val f.d)) else Int.ofNat (val f.d)
  let s : Int := f.exp - Int.ofNat f.d.length
  if s ≥ 0 then ((m * (Int.ofNat B) ^ s.toNat : Int) : Rat) else mkRat m (B ^ (-s).toNat)

/-- `mpz_set_f`: truncation toward zero; `mpq_set_f`: exact -/
def fTrunc (f : F) : Int := qtrunc (fRat f)
def fSgn (f : F) : Int := if f.size < 0 then -1 else if f.size = 0 then 0 else 1

/-- sign of `mpf_cmp(f, g)` (bit-level model), `mpf_cmp_ui/si/d(f, l)` (exact comparisons) -/
def cmpFV : FVal → FVal → Option Int
  | .f x, .f y => some (Mpf.cmp x y)
  | .f x, .bi c => (biRat c).map fun r => qcmp (fRat x) r
  | .bi c, .f x => (biRat c).map fun r => -(qcmp (fRat x) r)         -- mpirxx.h:1351-1359, 1054, 1118
  | .bi _, .bi _ => none

inductive FOpnd where
  | ex (e : FE)
  | bi (c : Bi)
  deriving Repr, DecidableEq, Inhabited

def FOpnd.wt : FOpnd → Bool
  | .ex e => e.wt
  | .bi c => c.ok

/-- statements -/
inductive FStmt where
  | assignF (i : Nat) (e : FE)                      -- `f_i = e;`  (e of any type)
  | assignZQ (t : Ty) (i : Nat) (e : FE)            -- `z_i = e;` / `q_i = e;`  (e mpf-typed)
  | initF (e : FE)                                  -- `mpf_class nw(e);`
  | initZQ (t : Ty) (e : FE)                        -- `mpz_class nw(e);` / `mpq_class nw(e);`  (e mpf-typed)
  | compound (o : FBin) (i : Nat) (r : FOpnd)       -- `f_i op= r;`
  | compoundSh (o : Sh) (i : Nat) (n : Nat)         -- `f_i <<= n;`
  | incr (dec : Bool) (i : Nat)                     -- `++f_i; --f_i; f_i++; f_i--;`
  | cmp (o : Cmp) (a b : FOpnd)
  | sgn (a : FE)
  deriving Repr, DecidableEq, Inhabited

inductive FRes where
  | f (x : F)
  | z (v : Int)
  | q (r : Rat)
  | int (v : Int)
  deriving Repr, DecidableEq, Inhabited

/-- `x op= r` ≡ `x = x op r` (mpirxx.h:3188-3207) -/
def expandF (o : FBin) (i : Nat) : FOpnd → FE
  | .ex e => .bin o (.fv i) e
  | .bi c => .binR o (.fv i) c

def convZQ (t : Ty) (x : F) : FRes :=
  match t with
  | .z => .z (fTrunc x)
  | .q => .q (fRat x)

def FStmt.wt : FStmt → Bool
  | .assignF _ e => e.wt
  | .assignZQ _ _ e => e.wt && !e.isZq
  | .initF e => e.wt
  | .initZQ _ e => e.wt && !e.isZq
  | .compound o i r => r.wt && (expandF o i r).wt
  | .compoundSh _ _ n => decide (UiRange n)
  | .incr _ _ => true
  | .cmp _ a b => a.wt && b.wt &&
      (match a, b with
       | .ex a, .ex b => !(a.isZq && b.isZq)
       | .ex a, .bi _ => !a.isZq
       | .bi _, .ex b => !b.isZq
       | .bi _, .bi _ => false)
  | .sgn a => a.wt && !a.isZq

/-- the value an operand of a comparison has: bound by `const&` at the precision `get_prec()` gives -/
def opndVal (dflt : Nat) (zenv : Env) (fenv : Nat → F) : FOpnd → Option FVal
  | .ex e => (opndTmpF (BITS_TO_PREC (getPrec dflt fenv e)) zenv fenv e).map .f
  | .bi c => some (.bi c)

/-- the temporaries semantics of a statement: result of the target / the new object / the int -/
def execTmpF (dflt : Nat) (zenv : Env) (fenv : Nat → F) : FStmt → Option FRes
  | .assignF i e => (evalTmpF (fenv i).prec zenv fenv e).map .f
  | .assignZQ t _ e => (opndTmpF (BITS_TO_PREC (getPrec dflt fenv e)) zenv fenv e).map (convZQ t)
  | .initF e => (evalTmpF (BITS_TO_PREC (getPrec dflt fenv e)) zenv fenv e).map .f
  | .initZQ t e => (opndTmpF (BITS_TO_PREC (getPrec dflt fenv e)) zenv fenv e).map (convZQ t)
  | .compound o i r => (evalTmpF (fenv i).prec zenv fenv (expandF o i r)).map .f
  | .compoundSh o i n => (evalTmpF (fenv i).prec zenv fenv (.sh o (.fv i) n)).map .f
  | .incr dec i => some (.f (if dec then sub_ui (fenv i).prec false (fenv i) 1 else add_ui (fenv i).prec false (fenv i) 1))
  | .cmp o a b => (opndVal dflt zenv fenv a).bind fun x => (opndVal dflt zenv fenv b).bind fun y =>
      (cmpFV x y).map fun c => .int (cmpRes o c)
  | .sgn a => (opndTmpF (BITS_TO_PREC (getPrec dflt fenv a)) zenv fenv a).map fun x => .int (fSgn x)


/-! ## Part 2: what mpirxx.h does -/

/-- contents of every mpf_t object: `mpf_class` variables (indices below `K`) and temporaries -/
structure FHeap where
  get : Nat → F

def FHeap.set (h : FHeap) (p : Nat) (x : F) : FHeap := ⟨fun i => if i = p then x else h.get i⟩

abbrev FM := FHeap → Option FHeap

inductive FArg where
  | loc (i : Nat)
  | bi (c : Bi)
  deriving DecidableEq, Repr

def FArg.val (h : FHeap) : FArg → FVal
  | .loc i => .f (h.get i)
  | .bi c => .bi c

/-- pointer equality with the destination -/
def FArg.is (p : Nat) : FArg → Bool
  | .loc i => i == p
  | .bi _ => false

/-- `Op::eval(p, g)` on the heap: all operands are read before `p` is written (every modelled
    `eval` reads its sources in its first C call; later calls touch only `f` and a local temporary) -/
def fnUnF (o : FUn) (p g : Nat) : FM := fun h =>
  (fnUnV (h.get p).prec o (g == p) (h.get g)).map (h.set p)

def fnBinF (o : FBin) (p : Nat) (a b : FArg) : FM := fun h =>
  (fnBinV (h.get p).prec o (a.is p) (b.is p) (a.val h) (b.val h)).map (h.set p)

def fnShF (o : Sh) (p g : Nat) (n : Nat) : FM := fun h =>
  some (h.set p (fnShV (h.get p).prec o (h.get g) n))

/-- `__gmp_set_expr(mpf_ptr f, const __gmp_expr<mpz_t/mpq_t, T> &expr)` (mpirxx.h:2345-2357):
    `mpz_class const& temp(expr); mpf_set_z(f, temp)` resp. `mpq_class const& temp(expr); mpf_set_q(f, temp)`.
    The mpz/mpq world (`zh`, temporaries from `KZ` on) is that of `Mpir.Cxx`; no mpz/mpq *variable* is
    ever written while an mpf expression is evaluated, so `zh` is read-only here. -/
def zqConv (cst : Bool) (KZ : Nat) (zh : Heap) (P : Nat) (e : E) : Option F :=
  if e.ty = .z then (bindZ cst KZ e zh).map fun r => set_z P (r.2 r.1)
  else (bindQ cst KZ e zh).map fun r => set_q P (r.2 (.num r.1)) (r.2 (.den r.1)).toNat

/-- `mpf_class val(u, mpf_get_prec(res))`'s `mpf_init2` (mpirxx.h:2390, 2038) -/
def newTemp (k : Nat) (P : Nat) (h : FHeap) : FHeap := h.set k (Mpf.zero P)

/-- the expression-template strategy for an mpf destination `p` (mpirxx.h:2359-2368, 2413-2795);
    `k` = index of the next unused `mpf_class` temporary. -/
def evalF (cst : Bool) (KZ : Nat) (zh : Heap) : (k p : Nat) → FE → FM
  | _, p, .fv i => fun h => some (h.set p (Mpf.set (h.get p).prec (h.get i)))         -- :2359 mpf_set
  | _, p, .zq e => fun h => (zqConv cst KZ zh (h.get p).prec e).map (h.set p)        -- :2345-2357
  | k, p, .un o a =>
    match a.leaf? with
    | some i => fnUnF o p i                                                            -- :2422
    | none => fun h => (evalF cst KZ zh k p a h).bind (fnUnF o p p)                    -- :2440
  | k, p, .bin o a b =>
    match a.leaf?, b.leaf? with
    | some i, some j => fnBinF o p (.loc i) (.loc j)                                   -- :2471
    | some i, none => fun h =>                                                         -- :2537, :2607
        if p ≠ i then (evalF cst KZ zh k p b h).bind (fnBinF o p (.loc i) (.loc p))
        else (evalF cst KZ zh (k + 1) k b (newTemp k (tp (h.get p).prec) h)).bind (fnBinF o p (.loc i) (.loc k))
    | none, some j => fun h =>                                                         -- :2572, :2642
        if p ≠ j then (evalF cst KZ zh k p a h).bind (fnBinF o p (.loc p) (.loc j))
        else (evalF cst KZ zh (k + 1) k a (newTemp k (tp (h.get p).prec) h)).bind (fnBinF o p (.loc k) (.loc j))
    | none, none => fun h =>
        if a.isZq then                                                                 -- :2753  <U,V>, <T,W>
          (evalF cst KZ zh (k + 1) k a (newTemp k (tp (h.get p).prec) h)).bind fun h1 =>
          (evalF cst KZ zh (k + 1) p b h1).bind (fnBinF o p (.loc k) (.loc p))
        else                                                                           -- :2725, :2781
          (evalF cst KZ zh (k + 1) k b (newTemp k (tp (h.get p).prec) h)).bind fun h1 =>
          (evalF cst KZ zh (k + 1) p a h1).bind (fnBinF o p (.loc p) (.loc k))
  | k, p, .binL o c b =>
    match b.leaf? with
    | some j => fnBinF o p (.bi c) (.loc j)                                            -- :2515
    | none => fun h => (evalF cst KZ zh k p b h).bind (fnBinF o p (.bi c) (.loc p))    -- :2700
  | k, p, .binR o a c =>
    match a.leaf? with
    | some i => fnBinF o p (.loc i) (.bi c)                                            -- :2497
    | none => fun h => (evalF cst KZ zh k p a h).bind (fnBinF o p (.loc p) (.bi c))    -- :2679
  | k, p, .sh o a n =>
    match a.leaf? with
    | some i => fnShF o p i n
    | none => fun h => (evalF cst KZ zh k p a h).bind (fnShF o p p n)

/-- `mpf_class const& temp(expr)` (mpirxx.h:2311, 2341, 3014, 3123): the object itself for an mpf_class,
    else `mpf_class(expr)`: `mpf_init2(mp, expr.get_prec()); __gmp_set_expr(mp, expr)` (mpirxx.h:2035) -/
def bindF (cst : Bool) (KZ : Nat) (zh : Heap) (dflt : Nat) (k : Nat) (e : FE) (h : FHeap) : Option (Nat × FHeap) :=
  match e.leaf? with
  | some i => some (i, h)
  | none => (evalF cst KZ zh (k + 1) k e (newTemp k (BITS_TO_PREC (getPrec dflt h.get e)) h)).map fun h' => (k, h')

def bindOpnd (cst : Bool) (KZ : Nat) (zh : Heap) (dflt : Nat) (k : Nat) (a : FOpnd) (h : FHeap) : Option (FArg × FHeap) :=
  match a with
  | .ex e => (bindF cst KZ zh dflt k e h).map fun r => (.loc r.1, r.2)
  | .bi c => some (.bi c, h)

/-- a whole statement; `K` = number of mpf variables (first temporary).  Result: what the statement
    leaves in its target / new object / int, and the final heap. -/
def execF (cst : Bool) (KZ : Nat) (zh : Heap) (dflt : Nat) (K : Nat) (h : FHeap) : FStmt → Option (FRes × FHeap)
  | .assignF i e => (evalF cst KZ zh K i e h).map fun h' => (.f (h'.get i), h')
  | .assignZQ t _ e => (bindF cst KZ zh dflt K e h).map fun r => (convZQ t (r.2.get r.1), r.2)     -- :2308-2313, :2338-2343
  | .initF e =>                                                                                   -- :2035 (and :2026 for a copy)
      (evalF cst KZ zh (K + 1) K e (newTemp K (BITS_TO_PREC (getPrec dflt h.get e)) h)).map fun h' => (.f (h'.get K), h')
  | .initZQ t e => (bindF cst KZ zh dflt K e h).map fun r => (convZQ t (r.2.get r.1), r.2)
  | .compound o i r => (evalF cst KZ zh K i (expandF o i r) h).map fun h' => (.f (h'.get i), h')
  | .compoundSh o i n => (evalF cst KZ zh K i (.sh o (.fv i) n) h).map fun h' => (.f (h'.get i), h')
  | .incr dec i =>                                                                                -- :1134, :1142
      let x := if dec then sub_ui (h.get i).prec true (h.get i) 1 else add_ui (h.get i).prec true (h.get i) 1
      some (.f x, h.set i x)
  | .cmp o a b =>                                                                                 -- :3119-3148
      (bindOpnd cst KZ zh dflt K a h).bind fun ra => (bindOpnd cst KZ zh dflt (K + 1) b ra.2).bind fun rb =>
        (cmpFV (ra.1.val rb.2) (rb.1.val rb.2)).map fun c => (.int (cmpRes o c), rb.2)
  | .sgn a => (bindF cst KZ zh dflt K a h).map fun r => (.int (fSgn (r.2.get r.1)), r.2)           -- :3010-3015

end Mpir.CxxF
