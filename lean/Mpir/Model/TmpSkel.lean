/-
  Decision procedure over the TMP_MARK / TMP_ALLOC / TMP_FREE skeletons extracted from the C source
  (Mpir/Gen/TmpSkel.lean, regenerated on every run).  Abstract state of one marker:
    1 unmarked   2 marked, nothing allocated   4 marked, something allocated   8 freed
  A forward data-flow analysis computes, for every node, the set of states (a 4-bit mask) that can reach
  it along some path from the entry, and flags
    * TMP_ALLOC or TMP_FREE while unmarked or already freed,
    * TMP_MARK while an allocation is still outstanding,
    * a `return` (or falling off the end) with an allocation outstanding  — the leak on an early exit.
  All node sets are packed into one natural number (4 bits per node) so that the kernel's bignum
  primitives carry the computation.
-/
import Mpir.Gen.TmpSkel
namespace Mpir.TmpSkel
open Mpir.Gen

/-- effect of one node kind on one abstract state: (successor state, violation?) -/
def xferBit (kind s : Nat) : Nat × Bool :=
  match kind with
  | 1 => if s == 4 then (2, true) else (2, false)                      -- MARK
  | 2 => if s == 2 || s == 4 then (4, false) else (s, true)            -- ALLOC
  | 3 => if s == 2 || s == 4 then (8, false) else (s, true)            -- FREE
  | 4 => (s, s == 4)                                                   -- RETURN
  | _ => (s, false)                                                    -- OTHER / NORETURN

def xfer (kind mask : Nat) : Nat × Bool :=
  [1, 2, 4, 8].foldl (fun acc b =>
    if mask &&& b != 0 then let r := xferBit kind b; (acc.1 ||| r.1, acc.2 || r.2) else acc) (0, false)

def getMask (st i : Nat) : Nat := (st >>> (4 * i)) &&& 15
def addMask (st i m : Nat) : Nat := st ||| (m <<< (4 * i))

/-- one pass over all nodes (highest index first: successors were numbered before their predecessors) -/
def round (nodes : List (Nat × List Nat)) (st : Nat) : Nat × Bool :=
  (nodes.zipIdx.reverse).foldl (fun acc p =>
    let ((kind, succs), i) := p
    let m := getMask acc.1 i
    if m == 0 then acc else
    let r := xfer kind m
    let st' := if kind == 4 || kind == 5 then acc.1 else succs.foldl (fun s j => addMask s j r.1) acc.1
    (st', acc.2 || r.2)) (st, false)

def iterate (nodes : List (Nat × List Nat)) : Nat → Nat → Bool
  | 0, _ => false                                  -- did not stabilise within the fuel: not accepted
  | fuel + 1, st =>
      let r := round nodes st
      if r.2 then false
      else if r.1 == st then true
      else iterate nodes fuel r.1

/-- the skeleton is balanced: no violation is reachable from the entry in the unmarked state -/
def balanced (f : TmpFn) : Bool :=
  f.nodes.all (fun n => n.2.all (· < f.nodes.length)) && f.entry < f.nodes.length &&
  iterate f.nodes (4 * f.nodes.length + 2) (addMask 0 f.entry 1)

/-- names of the skeletons that are not balanced (for the violation search / replay file) -/
def unbalanced : List String := (tmpFns.filter (fun f => !balanced f)).map (fun f => f.file ++ ":" ++ f.name)

end Mpir.TmpSkel
