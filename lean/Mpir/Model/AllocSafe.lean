/-
  C04 — object-layer memory safety as theorems: the reusable core.  Core Lean only.

  A SIZE-AWARE memory model for the public mpz functions.  Every block of limbs carries its allocated
  length; every load and store carries its index; a flag `ok` in the state is cleared by any access
  outside a block, and by any access through a pointer that was taken before the block was replaced by
  `_mpz_realloc` (each object has a generation counter, a pointer remembers the generation it was taken
  at: "new block, old contents copied, stale pointers dangle").  The C's implicit claim
  "MPZ_REALLOC (w, n) made room for everything written afterwards" becomes the theorem `ok = true`
  (MpirProofs/Props/C04_allocsafe.lean).

  Objects live in a heap indexed by variable ids; "w is the same variable as u" is the call with equal
  ids, so one theorem over all ids covers every alias pattern.

  Kernels (`mpn_add_n` …) are the list functions of Mpir/Model/Kernels.lean applied to the limbs read
  from [p, p+n) of the sources, the result stored to [p, p+n) of the destination; all reads happen
  before the stores (the order of possibly-overlapping accesses inside a kernel is C03's overlap model,
  not this one).  Each wrapper checks the ranges it touches.

  Mirrors mpz/realloc.c (`_mpz_realloc`), gmp-impl.h:1737 (`MPZ_REALLOC`).
-/
import Mpir.Base
import Mpir.Model.Kernels
import Mpir.Model.Mpz
namespace Mpir.AllocSafe
open Mpir

/-- what an uninitialised limb holds (the recording allocator of the harness poisons new space) -/
def junk : Nat := 0xA5A5A5A5A5A5A5A5

/-- a block of `alloc` limbs -/
structure Buf where
  alloc : Nat
  limbs : List Nat
  deriving Repr, DecidableEq, Inhabited

/-- `p[i]` -/
def Buf.load (b : Buf) (i : Nat) : Nat × Bool := (b.limbs.getD i junk, decide (i < b.alloc))

/-- `p[i] = v`; outside the block nothing is stored and the access is reported -/
def Buf.store (b : Buf) (i v : Nat) : Buf × Bool :=
  if i < b.alloc then ({ b with limbs := b.limbs.set i v }, true) else (b, false)

/-- the limbs [off, off+n) -/
def Buf.read (b : Buf) (off n : Nat) : List Nat × Bool :=
  ((b.limbs.drop off).take n, decide (off + n ≤ b.alloc))

/-- store `l` to [off, off + |l|) -/
def Buf.write (b : Buf) (off : Nat) (l : List Nat) : Buf × Bool :=
  if off + l.length ≤ b.alloc then
    ({ b with limbs := b.limbs.take off ++ l ++ b.limbs.drop (off + l.length) }, true)
  else (b, false)

/-- `Buf.write` as the sequence of single stores it stands for (index off, off+1, …) -/
def Buf.storeAll (b : Buf) (off : Nat) : List Nat → Buf × Bool
  | [] => (b, true)
  | x :: xs =>
      let r := b.store off x
      let r' := Buf.storeAll r.1 (off + 1) xs
      (r'.1, r.2 && r'.2)

/-- a fresh block (TMP_ALLOC_LIMBS, `(*__gmp_allocate_func)`) -/
def Buf.new (n : Nat) : Buf := ⟨n, List.replicate n junk⟩

/-- an `mpz_t`: `_mp_size`, and the block `_mp_d` points to with its length `_mp_alloc`; `gen` identifies
    the block (changed when `_mpz_realloc` replaces it) -/
structure Obj where
  size : Int
  gen : Nat
  buf : Buf
  deriving Repr, DecidableEq, Inhabited

/-- a limb pointer: variable it was read from (`PTR(x)`), generation of the block at that moment, offset -/
structure Ptr where
  id : Nat
  gen : Nat
  off : Nat
  deriving Repr, DecidableEq

def Ptr.add (p : Ptr) (k : Nat) : Ptr := { p with off := p.off + k }

abbrev Heap := Nat → Obj

def upd (h : Heap) (i : Nat) (o : Obj) : Heap := fun j => if j = i then o else h j

structure St where
  h : Heap
  ok : Bool

/-- `PTR (x)` evaluated now -/
def St.PTR (s : St) (x : Nat) : Ptr := ⟨x, (s.h x).gen, 0⟩
/-- `SIZ (x)`, `ALLOC (x)` -/
def St.SIZ (s : St) (x : Nat) : Int := (s.h x).size
def St.ABSIZ (s : St) (x : Nat) : Nat := (s.h x).size.natAbs
def St.ALLOC (s : St) (x : Nat) : Nat := (s.h x).buf.alloc

/-- the block `p` points into is still the block of its variable -/
def St.live (s : St) (p : Ptr) : Bool := (s.h p.id).gen == p.gen

def St.chk (s : St) (b : Bool) : St := { s with ok := s.ok && b }

/-- the limbs p[0, n) (whatever is there) … -/
def St.rd (s : St) (p : Ptr) (n : Nat) : List Nat := ((s.h p.id).buf.read p.off n).1
/-- … and whether reading them is inside a live block -/
def St.rdOk (s : St) (p : Ptr) (n : Nat) : Bool := s.live p && ((s.h p.id).buf.read p.off n).2

/-- store `l` to p[0, |l|) -/
def St.wr (s : St) (p : Ptr) (l : List Nat) : St :=
  let o := s.h p.id
  let r := o.buf.write p.off l
  { h := upd s.h p.id { o with buf := r.1 }, ok := s.ok && s.live p && r.2 }

/-- `SIZ (x) = n` -/
def St.setSize (s : St) (x : Nat) (n : Int) : St :=
  { s with h := upd s.h x { s.h x with size := n } }

/-- `_mpz_realloc (m, new_alloc)` (mpz/realloc.c:26-43): a NEW block of max (new_alloc, 1) limbs with the
    old contents (as far as they fit), the rest uninitialised; the old block is gone (generation + 1);
    a value that no longer fits becomes 0. -/
def _mpz_realloc (s : St) (m : Nat) (new_alloc : Nat) : St :=
  let o := s.h m
  let na := max new_alloc 1                                                      -- realloc.c:31
  let limbs := (o.buf.limbs ++ List.replicate (na - o.buf.alloc) junk).take na   -- :33 __GMP_REALLOCATE_FUNC_LIMBS
  let size := if o.size.natAbs > na then 0 else o.size                           -- :39-40
  { s with h := upd s.h m ⟨size, o.gen + 1, ⟨na, limbs⟩⟩ }                       -- :34-35

/-- `MPZ_REALLOC (z, n)` (gmp-impl.h:1737): `(n) > ALLOC(z) ? _mpz_realloc (z, n) : PTR(z)` -/
def MPZ_REALLOC (s : St) (z : Nat) (n : Nat) : St :=
  if n > s.ALLOC z then _mpz_realloc s z n else s

/-! ## kernels with their index ranges -/

/-- mpn_add_n (rp, up, vp, n): reads up[0,n), vp[0,n); writes rp[0,n); returns the carry -/
def mpn_add_n (s : St) (rp up vp : Ptr) (n : Nat) : St × Nat :=
  let r := Mpir.add_n (s.rd up n) (s.rd vp n)
  ((s.chk (s.rdOk up n && s.rdOk vp n)).wr rp r.1, r.2)

def mpn_sub_n (s : St) (rp up vp : Ptr) (n : Nat) : St × Nat :=
  let r := Mpir.sub_n (s.rd up n) (s.rd vp n)
  ((s.chk (s.rdOk up n && s.rdOk vp n)).wr rp r.1, r.2)

/-- mpn_add (rp, up, un, vp, vn), un ≥ vn: reads up[0,un), vp[0,vn); writes rp[0,un) -/
def mpn_add (s : St) (rp up : Ptr) (un : Nat) (vp : Ptr) (vn : Nat) : St × Nat :=
  let r := Mpir.add (s.rd up un) (s.rd vp vn)
  ((s.chk (s.rdOk up un && s.rdOk vp vn)).wr rp r.1, r.2)

def mpn_sub (s : St) (rp up : Ptr) (un : Nat) (vp : Ptr) (vn : Nat) : St × Nat :=
  let r := Mpir.sub (s.rd up un) (s.rd vp vn)
  ((s.chk (s.rdOk up un && s.rdOk vp vn)).wr rp r.1, r.2)

/-- mpn_add_1 (rp, up, n, v): reads up[0,n); writes rp[0,n) -/
def mpn_add_1 (s : St) (rp up : Ptr) (n v : Nat) : St × Nat :=
  let r := Mpir.add_1 (s.rd up n) v
  ((s.chk (s.rdOk up n)).wr rp r.1, r.2)

def mpn_sub_1 (s : St) (rp up : Ptr) (n v : Nat) : St × Nat :=
  let r := Mpir.sub_1 (s.rd up n) v
  ((s.chk (s.rdOk up n)).wr rp r.1, r.2)

def mpn_mul_1 (s : St) (rp up : Ptr) (n v : Nat) : St × Nat :=
  let r := Mpir.mul_1 (s.rd up n) v
  ((s.chk (s.rdOk up n)).wr rp r.1, r.2)

/-- mpn_addmul_1 (rp, up, n, v): reads rp[0,n), up[0,n); writes rp[0,n) -/
def mpn_addmul_1 (s : St) (rp up : Ptr) (n v : Nat) : St × Nat :=
  let r := Mpir.addmul_1 (s.rd rp n) (s.rd up n) v
  ((s.chk (s.rdOk rp n && s.rdOk up n)).wr rp r.1, r.2)

/-- mpn_lshift (rp, up, n, cnt), 1 ≤ cnt ≤ 63 -/
def mpn_lshift (s : St) (rp up : Ptr) (n cnt : Nat) : St × Nat :=
  let r := Mpir.lshift (s.rd up n) cnt
  ((s.chk (s.rdOk up n)).wr rp r.1, r.2)

def mpn_rshift (s : St) (rp up : Ptr) (n cnt : Nat) : St × Nat :=
  let r := Mpir.rshift (s.rd up n) cnt
  ((s.chk (s.rdOk up n)).wr rp r.1, r.2)

/-- MPN_COPY / MPN_COPY_INCR / MPN_COPY_DECR (rp, up, n) -/
def MPN_COPY (s : St) (rp up : Ptr) (n : Nat) : St :=
  (s.chk (s.rdOk up n)).wr rp (s.rd up n)

/-- MPN_ZERO (rp, n) -/
def MPN_ZERO (s : St) (rp : Ptr) (n : Nat) : St := s.wr rp (List.replicate n 0)

/-- mpn_com_n (rp, up, n) -/
def mpn_com_n (s : St) (rp up : Ptr) (n : Nat) : St :=
  (s.chk (s.rdOk up n)).wr rp (Mpir.com_n (s.rd up n))

/-- `rp[i] = v` -/
def St.store (s : St) (rp : Ptr) (i v : Nat) : St := s.wr (rp.add i) [v]

/-- `up[i]` (value, state with the access checked) -/
def St.load (s : St) (up : Ptr) (i : Nat) : Nat × St :=
  ((s.rd (up.add i) 1).headD junk, s.chk (s.rdOk (up.add i) 1))

/-- MPN_NORMALIZE (p, n): reads downwards from p[n-1]; the new n.  (Checked as a read of p[0,n).) -/
def MPN_NORMALIZE (s : St) (p : Ptr) (n : Nat) : Nat × St :=
  ((normalize (s.rd p n)).length, s.chk (s.rdOk p n))

/-- mpn_cmp (up, vp, n) -/
def mpn_cmp (s : St) (up vp : Ptr) (n : Nat) : Int × St :=
  (Mpir.cmp (s.rd up n) (s.rd vp n), s.chk (s.rdOk up n && s.rdOk vp n))

/-! ## the bridge to the value-level model -/

/-- the object as the value-level model sees it: alloc, size, the |size| significant limbs -/
def view (o : Obj) : Mpz.Mpz := ⟨o.buf.alloc, o.size, o.buf.limbs.take o.size.natAbs⟩

/-- an object as the harness builds it: block of `alloc` limbs holding `z` (alloc ≥ limbs of z, ≥ 1) -/
def mkObj (alloc : Nat) (z : Int) : Obj :=
  let l := natLimbs z.natAbs
  ⟨if z < 0 then -(l.length : Int) else l.length, 0, ⟨alloc, l ++ List.replicate (alloc - l.length) junk⟩⟩

end Mpir.AllocSafe
