/-
  Property C09, part `rootrem` — mpn_dc_sqrtrem (mpn/generic/sqrtrem.c:245-293) at LIMB-BUFFER level (core Lean only).

  `Model/Root.lean` has Zimmermann's recursion at value level (`dcCombine`: unbounded naturals, a signed remainder).
  Here every buffer is a natural reduced modulo `B^(its limb count)`, every mpn call returns what the C routine
  returns (difference / sum modulo the buffer size plus the borrow / carry limb; mpn_intdivrem: low quotient limbs,
  remainder, most significant quotient limb), `c` and `b` are the C's `int`s (`Int` here), `q` the C's `mp_limb_t`.
  Statement by statement, same order; cited lines are those of sqrtrem.c.
-/
import Mpir.Base
import Mpir.Model.Root
namespace Mpir.SqrtL
open Mpir

/-- sqrtrem.c:268-270 `if (q != 0) mpn_sub_n (np + 2 * l, np + 2 * l, sp + l, h); q += mpn_intdivrem (sp, 0, np + l, n, sp + l, h);`
    `W = B^l`, `H = B^h`, `{sp + l, h} = s1`, `{np + 2l, h} = r1`, `{np + l, l} = a1`.
    Result `(q, {sp, l}, {np + l, h})`: mpn_intdivrem returns the most significant quotient limb, stores the `l` low ones and
    leaves the `h`-limb remainder in place. -/
def divStep (W H s1 r1 q a1 : Nat) : Nat × Nat × Nat :=
  let r1 := if q ≠ 0 then (r1 + H - s1) % H else r1
  let num := r1 * W + a1
  (q + num / s1 / W, num / s1 % W, num % s1)

/-- sqrtrem.c:271-274 `c = sp[0] & 1; mpn_half (sp, l); sp[l - 1] |= (q << (GMP_NUMB_BITS - 1)) & GMP_NUMB_MASK; q >>= 1;`
    Result `(c, {sp, l}, q)`. -/
def halfStep (l q sp0 : Nat) : Nat × Nat × Nat :=
  (sp0 % 2, sp0 / 2 ||| ((q <<< 63) % B) * B ^ (l - 1), q >>> 1)

/-- sqrtrem.c:275-276 `if (c != 0) c = mpn_add_n (np + l, np + l, sp + l, h);`  Result `(c, {np + l, h})`. -/
def addBack (H s1 c us : Nat) : Nat × Nat :=
  if c ≠ 0 then ((us + s1) / H, (us + s1) % H) else (0, us)

/-- sqrtrem.c:277-279 `mpn_sqr (np + n, sp, l); b = q + mpn_sub_n (np, np, np + n, 2 * l);
    c -= (l == h) ? b : mpn_sub_1 (np + 2 * l, np + 2 * l, 1, (mp_limb_t) b);`
    `us = {np + l, h}`, `a0 = {np, l}`, `sp0 = {sp, l}`.  Result `(c, {np, n})`. -/
def subSquare (l h W c us a0 sp0 q : Nat) : Int × Nat :=
  let sq := sp0 * sp0
  let lo := us % W * W + a0                                 -- {np, 2l}
  let b := q + (if lo < sq then 1 else 0)
  let lo := (lo + W * W - sq) % (W * W)
  let top := us / W                                         -- np[2l], present only when h = l + 1
  if l = h then ((c : Int) - (b : Int), top * (W * W) + lo)
  else ((c : Int) - ((if top < b then 1 else 0 : Nat) : Int), (top + B - b) % B * (W * W) + lo)

/-- sqrtrem.c:280 `q = mpn_add_1 (sp + l, sp + l, h, q);`  Result `(q, {sp, n})`. -/
def addQ (W H s1 q sp0 : Nat) : Nat × Nat := ((s1 + q) / H, (s1 + q) % H * W + sp0)

/-- sqrtrem.c:282-287 `if (c < 0) { c += mpn_addmul_1 (np, sp, n, CNST_LIMB(2)) + 2 * q; c -= mpn_sub_1 (np, np, n, CNST_LIMB(1));
    q -= mpn_sub_1 (sp, sp, n, CNST_LIMB(1)); }`  `Bn = B^n`.  Result `({sp, n}, {np, n}, c)`. -/
def fixup (Bn : Nat) (c : Int) (rlo s q : Nat) : Nat × Nat × Int :=
  if c < 0 then
    let t := rlo + 2 * s
    let c := c + ((t / Bn : Nat) : Int) + ((2 * q : Nat) : Int)
    let rlo := t % Bn
    let c := c - ((if rlo = 0 then 1 else 0 : Nat) : Int)
    ((s + Bn - 1) % Bn, (rlo + Bn - 1) % Bn, c)
  else (s, rlo, c)

/-- the `else` branch of mpn_dc_sqrtrem (sqrtrem.c:267-289) after the recursive call (:267) returned
    `rec = ({sp + l, h}, {np + 2l, h}, q)`, on buffers of sizes `W = B^l`, `H = B^h`, `Bn = B^n`; `a1 = {np + l, l}`, `a0 = {np, l}`.
    Result: `({sp, n}, {np, n}, c)`. -/
def dcStepW (l h W H Bn a1 a0 : Nat) (rec : Nat × Nat × Nat) : Nat × Nat × Int :=
  let d := divStep W H rec.1 rec.2.1 rec.2.2 a1
  let hf := halfStep l d.1 d.2.1
  let ab := addBack H rec.1 hf.1 d.2.2
  let ss := subSquare l h W ab.1 ab.2 a0 hf.2.1 hf.2.2
  let aq := addQ W H rec.1 hf.2.2 hf.2.1
  fixup Bn ss.1 ss.2 aq.2 aq.1

/-- the same with `{np, 2n}` of value `N` on entry, `n = l + h`. -/
def dcStepL (l h N : Nat) (rec : Nat × Nat × Nat) : Nat × Nat × Int :=
  dcStepW l h (B ^ l) (B ^ h) (B ^ (l + h)) (N / B ^ l % B ^ l) (N % B ^ l) rec

/-- mpn_dc_sqrtrem (sp, np, n): `{np, 2n}` has the value `N`; result `({sp, n}, {np, n}, c)`, `c` the returned int. -/
def dcL : Nat → Nat → Nat → Nat × Nat × Int
  | 0, _, _ => (0, 0, 0)                -- fuel exhausted (never: fuel = n and n halves)
  | fuel + 1, n, N =>
    if n = 0 then (0, 0, 0)             -- outside the C domain
    else if n = 1 then Root.sqrtrem2 (N % B) (N / B % B)    -- :263-264 c = mpn_sqrtrem2 (sp, np, np)
    else
      let l := n / 2                                        -- :265
      let h := n - l                                        -- :266
      let r := dcL fuel h (N / B ^ (2 * l))
      dcStepL l h N (r.1, r.2.1, r.2.2.toNat)               -- q = (mp_limb_t) the returned int

/-- mpn_sqrtrem on an operand with an even number of limbs and a normalised top limb (`np[nn-1] ≥ B/4`): the branch
    sqrtrem.c:362-368, `rn = tn + (rp[tn] = mpn_dc_sqrtrem (sp, rp, tn))`.  Returns `({sp, tn}, {rp, tn + 1})`. -/
def sqrtremEvenL (tn N : Nat) : Nat × Int :=
  let r := dcL tn tn N
  (r.1, r.2.2 * (B ^ tn : Nat) + r.2.1)

end Mpir.SqrtL
