/-
  The negacyclic transforms and the word-sized negacyclic convolution used by mpir_fft_mulmod_2expp1 (property C01),
  continuing Mpir/Model/FftX.lean (value level: `List Int` of residues modulo p = 2^(wn)+1, exact integers).
  Core Lean only (linked into the driver).

  Mirrored (tie: ops `fftx_negacyclic`, `fftx_inegacyclic`, `fftx_naive_convolution_1` in Mpir/Ops/FftNeg.lean ↔
  harness/ops_fftneg.c):
    fft/fft_negacyclic.c:33-83        mpir_fft_negacyclic            fft_negacyclic
    fft/ifft_negacyclic.c:33-89       mpir_ifft_negacyclic           ifft_negacyclic
    fft/mulmod_2expp1.c:36-52         mpir_fft_naive_convolution_1   fft_naive_convolution_1   (limbs, arithmetic modulo 2^64)
  n = 2^d with d ≥ 1 (the C calls mpir_fft_radix2 with n/2: n = 1 would recurse with n = 0 and not terminate).
-/
import Mpir.Model.FftX
namespace Mpir.FftX
open Mpir

/-! ### mpir_fft_negacyclic (fft_negacyclic.c:33-83): 2n entries; the weights (√2)^(k·w) of position k, one butterfly
    layer, two radix-2 transforms of half the length -/

def fft_negacyclic (d w : Nat) (xs : List Int) : List Int :=
  let n := 2 ^ d
  let wn := wnOf n w                                                          -- :37
  let f := fun i =>
    if w % 2 = 1 then                                                         -- :40
      if i % 2 = 0 then
        bfly (adj (el xs i) (i / 2) w) (adj (el xs (n + i)) ((n + i) / 2) w) i w        -- :44-51
      else
        bfly (adjSqrt2 wn (el xs i) i w) (adjSqrt2 wn (el xs (n + i)) (n + i) w) i w    -- :55-63
    else
      bfly (adj (el xs i) i (w / 2)) (adj (el xs (n + i)) (n + i) (w / 2)) i w          -- :69-77
  fft_radix2 (d - 1) (2 * w) (fsts n f) ++ fft_radix2 (d - 1) (2 * w) (snds n f)        -- :81-82

/-! ### mpir_ifft_negacyclic (ifft_negacyclic.c:33-89) -/

def ifft_negacyclic (d w : Nat) (xs : List Int) : List Int :=
  let n := 2 ^ d
  let wn := wnOf n w                                                          -- :37
  let ys := ifft_radix2 (d - 1) (2 * w) (xs.take n) ++ ifft_radix2 (d - 1) (2 * w) (xs.drop n)     -- :39-40
  let g := fun i =>
    let uv := ibfly wn (el ys i) (el ys (n + i)) i w                          -- :46 / :60 / :77
    if w % 2 = 1 then                                                         -- :42
      if i % 2 = 0 then
        (- adj uv.1 (n - i / 2) w, - adj uv.2 (n - (n + i) / 2) w)            -- :50-56 (mpn_neg_n)
      else
        (- adjSqrt2 wn uv.1 (2 * n - i) w, - adjSqrt2 wn uv.2 (n - i) w)      -- :64-70
    else
      (- adj uv.1 (2 * n - i) (w / 2), - adj uv.2 (n - i) (w / 2))            -- :81-87
  fsts n g ++ snds n g

/-! ### mpir_fft_naive_convolution_1 (mulmod_2expp1.c:36-52): negacyclic convolution of two vectors of m limbs,
    every operation modulo 2^64 -/

/-- `r[k] = f(r[k])` -/
def updAt (r : List Nat) (k : Nat) (f : Nat → Nat) : List Nat :=
  (List.range r.length).map fun p => if p = k then f (r.getD p 0) else r.getD p 0

def fft_naive_convolution_1 (ii jj : List Nat) : List Nat :=
  let m := ii.length
  let r := (List.range m).map fun i => ii.getD 0 0 * jj.getD i 0 % B           -- :40-41
  (List.range (m - 1)).foldl (fun r i0 =>
    let i := i0 + 1                                                           -- :43
    let r := (List.range (m - i)).foldl (fun r j =>
      updAt r (i + j) fun v => (v + ii.getD i 0 * jj.getD j 0) % B) r         -- :45-46
    (List.range i).foldl (fun r j0 =>
      let j := m - i + j0
      updAt r (i + j - m) fun v => (v + (B - ii.getD i 0 * jj.getD j 0 % B)) % B) r) r    -- :48-49

end Mpir.FftX
