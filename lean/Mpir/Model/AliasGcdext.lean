/-
  C05 (aliasing), pointer level: mpz_gcdext (g, s, t, a, b) (mpz/gcdext.c:27-113) on the memory model of
  Mpir/Model/AliasMem.lean.  Core Lean only (linked into the driver).

  What makes every assignment of the five arguments work in the C:
    * both operands are copied to TMP space before mpn_gcdext (which destroys its inputs) runs (:71-73);
    * G and S are produced in TMP space (:75-77), so no output variable is written before
    * `SIZ (a)` is read (:80) and t = (g - s a) / b has been computed from the still untouched a and b (:82-97);
    * only then s (:99-106) and g (:108-110) are written.
  In the `bsize == 0` exit `PTR (s)[0] = 1` is stored WITHOUT a realloc (:64): it relies on ALLOC (s) ≥ 1.
-/
import Mpir.Model.AliasMul
import Mpir.Model.Gcd
namespace Mpir.AliasMem
open Mpir
open Mpir.DivZ (sizeNat siz sameSign)

/-- the C as it is, and plausible wrong versions for the negative examples -/
structure GcdextVariant where
  copyOperands : Bool := true   -- gcdext.c:71-73: mpn_gcdext works on TMP copies of {PTR (a)}, {PTR (b)}
  tBeforeS : Bool := true       -- gcdext.c:82-106: t (which reads a and b) is computed before s is written
  deriving Repr

def GcdextVariant.c : GcdextVariant := {}

/-- `__mpz_struct v; PTR (&v) = …; SIZ (&v) = …;`: a local header — the next unused variable id — that points at
    an EXISTING block.  (C leaves `ALLOC (&v)` uninitialised; nothing reads it, the variable is only ever a source
    operand.  The model records the length of the block it points at.) -/
def St.pushVar (s : St) (x : Var) : Nat × St := (s.nv, { s.setVar s.nv x with nv := s.nv + 1 })

/-- the innermost local variable goes out of scope; its limbs (TMP space) stay allocated until TMP_FREE -/
def St.popVar (s : St) : St := { s with nv := s.nv - 1 }

/-- mpn_gcdext (gp, sp, &sn, ap, an, bp, n): mpn/generic/gcdext.c:181-… ASSERTs `an >= n`, `n > 0`, `bp[n-1] > 0`;
    the manual: "Both source operands are destroyed", gp needs n limbs, sp n+1, no overlap.  Values from
    `Gcd.mpn_gcdext` (limb-level proofs: C07).  Stores G normalised at gp and |S| at sp; returns (gn, sn). -/
def mpn_gcdext (gp sp ap an bp n : Nat) (s : St) : R (Nat × Int × St) := do
  if ap = bp ∨ gp = sp ∨ gp = ap ∨ gp = bp ∨ sp = ap ∨ sp = bp then throw "ub:mpn_gcdext operands overlap"
  let a ← s.load ap an
  let b ← s.load bp n
  if ¬ (1 ≤ n ∧ n ≤ an) then throw "ub:mpn_gcdext sizes"
  if b.getD (n - 1) 0 = 0 then throw "ub:mpn_gcdext V not normalised"
  let r := Gcd.mpn_gcdext (val a) an (val b) n
  let s ← s.store ap (List.replicate an junk)                 -- "both source operands are destroyed"
  let s ← s.store bp (List.replicate n junk)
  let s ← s.store gp (toLimbs (sizeNat r.1) r.1)
  let s ← s.store sp (toLimbs (sizeNat r.2.natAbs) r.2.natAbs)
  pure (sizeNat r.1, siz r.2, s)

/-- `p = MPZ_REALLOC (w, n); MPN_COPY (p, src, n); SIZ (w) = sz;` (gcdext.c:103-105 and :108-110) -/
def gcdextOut (w src n : Nat) (sz : Int) (s : St) : R St := do
  let s := s.mpzRealloc w n
  let l ← s.load src n
  let s ← s.store (s.ptr w) l
  pure (s.setSize w sz)

/-- `if (t != NULL) SIZ (t) = 0;` (gcdext.c:59-60) -/
def St.zeroOpt (s : St) (tv : Option Nat) : St :=
  match tv with
  | some t => s.setSize t 0
  | none => s

/-- gcdext.c:50-67, the `bsize == 0` exit: g = |a|, s = sgn (a), t = 0 -/
def gcdextZero (g : Nat) (sv tv : Option Nat) (a asize : Nat) (s : St) : R St := do
  let ssize : Int := if s.size a ≥ 0 then (if asize ≠ 0 then 1 else 0) else -1     -- gcdext.c:53
  let s := s.mpzRealloc g asize                               -- :55 gp = MPZ_REALLOC (g, asize)
  let l ← s.load (s.ptr a) asize                              -- :56 MPN_COPY (gp, PTR (a), asize)  (PTR (a) fetched here)
  let s ← s.store (s.ptr g) l
  let s := s.setSize g asize                                  -- :57
  let s := s.zeroOpt tv                                       -- :59-60
  match sv with                                               -- :61
  | some sv =>
    let s := s.setSize sv ssize                               -- :63
    s.storeAt (s.ptr sv) 0 [1]                                -- :64 PTR (s)[0] = 1  (no realloc: relies on ALLOC ≥ 1)
  | none => pure s

/-- gcdext.c:82-97, the `t != NULL` block.  Returns the TMP block of `x` (released by TMP_FREE at :112) and the
    state after the three locals went out of scope. -/
def gcdextT (tv : Option Nat) (a b tmp_gp tmp_sp gsize : Nat) (tmp_ssize : Int) (ssize asize bsize : Nat)
    (s : St) : R (List Nat × St) :=
  match tv with                                               -- :82
  | none => pure ([], s)
  | some t => do
    let r := s.pushVar { alloc := bsize, size := gsize, ptr := tmp_gp }             -- :85, :87-88 gtmp
    let gtmp := r.1
    let r := r.2.pushVar { alloc := bsize + 1, size := tmp_ssize, ptr := tmp_sp }   -- :85, :90-91 stmp
    let stmp := r.1
    let r := r.2.tmpInit (ssize + asize + 1)                  -- :84, :93 MPZ_TMP_INIT (x, ssize + asize + 1)
    let x := r.1
    let s ← mpz_mul x stmp a r.2                              -- :94
    let s ← mpz_sub x gtmp x s                                -- :95
    let s ← divexact t x b s                                  -- :96
    let xp := s.ptr x
    pure ([xp], s.popVar.popVar.popVar)                       -- :97 `}`

/-- gcdext.c:99-106, the `s != NULL` block -/
def gcdextS (sv : Option Nat) (tmp_sp ssize : Nat) (tmp_ssize : Int) (s : St) : R St :=
  match sv with                                               -- :99
  | none => pure s
  | some sv => gcdextOut sv tmp_sp ssize tmp_ssize s          -- :103-105

/-- gcdext.c:50-112: everything after the operand swap (`asize >= bsize` now holds) -/
def gcdextMain (V : GcdextVariant) (g : Nat) (sv tv : Option Nat) (a b asize bsize : Nat) (st : St) : R St := do
  if bsize = 0 then gcdextZero g sv tv a asize st             -- :50-67
  else
    -- :71-73 TMP_ALLOC_LIMBS_2 (tmp_ap, asize, tmp_bp, bsize); MPN_COPY; MPN_COPY
    let (tmp_ap, s) ← st.copyIf V.copyOperands (st.ptr a) asize
    let (tmp_bp, s) ← s.copyIf V.copyOperands (s.ptr b) bsize
    let tmps := if V.copyOperands then [tmp_ap, tmp_bp] else []
    let r := s.tmpAlloc bsize                                 -- :75 TMP_ALLOC_LIMBS_2 (tmp_gp, bsize, tmp_sp, bsize + 1)
    let tmp_gp := r.1
    let r := r.2.tmpAlloc (bsize + 1)
    let tmp_sp := r.1
    let (gsize, tmp_ssize, s) ← mpn_gcdext tmp_gp tmp_sp tmp_ap asize tmp_bp bsize r.2   -- :77
    let ssize := tmp_ssize.natAbs                             -- :79
    let tmp_ssize := if s.size a ≥ 0 then tmp_ssize else -tmp_ssize     -- :80
    let (xs, s) ← (if V.tBeforeS then do
        let r ← gcdextT tv a b tmp_gp tmp_sp gsize tmp_ssize ssize asize bsize s    -- :82-97
        let s ← gcdextS sv tmp_sp ssize tmp_ssize r.2                              -- :99-106
        pure (r.1, s)
      else do                                                 -- (wrong variant: s written first)
        let s ← gcdextS sv tmp_sp ssize tmp_ssize s
        gcdextT tv a b tmp_gp tmp_sp gsize tmp_ssize ssize asize bsize s)
    let s ← gcdextOut g tmp_gp gsize gsize s                  -- :108-110
    pure ((tmps ++ [tmp_gp, tmp_sp] ++ xs).foldl St.free s)   -- :112 TMP_FREE

/-- mpz_gcdext (g, s, t, a, b): mpz/gcdext.c:27-113; `sv` / `tv` = `none` is a NULL pointer. -/
def gcdextV (V : GcdextVariant) (g : Nat) (sv tv : Option Nat) (a b : Nat) (st : St) : R St :=
  let asize := (st.size a).natAbs                             -- gcdext.c:40
  let bsize := (st.size b).natAbs                             -- :41
  if asize < bsize then                                       -- :43
    gcdextMain V g tv sv b a bsize asize st                   -- :45-47 swap (a, b), (asize, bsize), (s, t)
  else gcdextMain V g sv tv a b asize bsize st

def gcdext := gcdextV .c

end Mpir.AliasMem
