/-
  Threshold vectors (gmp-mparam.h after gmp-impl.h's defaults) and the conditions the algorithms put on them.
  Core Lean only.

  `Params` is one resolved tuning table.  `Valid` is the conjunction of every requirement on the thresholds that
  the sources state (an ASSERT on a size, a *_MINSIZE constant, a fixed-size stack buffer, a loop/recursion that
  must reach its base case, a signed product that must not overflow), written wherever possible as "the dispatch
  code, at every size below the callee's minimum, does not select that callee" — i.e. the C `if` chain is mirrored
  (`mulSel`, `sqrSel`, …) and quantified over the finitely many sizes below the largest minimum.  Each clause cites
  the file:line it comes from.  The generated file Mpir/Gen/ShippedParams.lean lists the vector of every
  gmp-mparam.h in the tree; MpirProofs/Props/C14.lean decides `Valid` for all of them.

  What `Valid` is not: a proof that these conditions are *sufficient* for every algorithm (that is what the
  threshold-parametric theorems of C01/C02/C06/C07/C08 assume); conditions on thresholds of code this file does
  not cite (toom53/toom42/toom32 internals, FFT parameter tables, gcd/gcdext DC split, fac_ui) are not included.
-/
namespace Mpir.Params

/-- MP_SIZE_T_MAX on the 64-bit ABI: the special threshold value "never" (gmp-impl.h:1811-1821). -/
def never : Nat := 2 ^ 63 - 1

/-- gmp-impl.h:1817 `ABOVE_THRESHOLD(size,thresh)`: thresh == 0 || (thresh != MP_SIZE_T_MAX && size >= thresh). -/
def above (size thresh : Nat) : Bool := thresh == 0 || (thresh != never && size ≥ thresh)
/-- gmp-impl.h:1821 `BELOW_THRESHOLD`. -/
def below (size thresh : Nat) : Bool := !above size thresh

/-- One resolved tuning table (the names are the macro names, camel-cased). -/
structure Params where
  file : String
  mulKaratsuba : Nat
  mulToom3 : Nat
  mulToom4 : Nat
  mulToom8h : Nat
  mulFftFull : Nat
  sqrBasecase : Nat
  sqrKaratsuba : Nat
  sqrToom3 : Nat
  sqrToom4 : Nat
  sqrToom8 : Nat
  sqrFftFull : Nat
  mulhighBasecase : Nat
  mulhighDc : Nat
  mulmidToom42 : Nat
  dcDivQr : Nat
  invDivQr : Nat
  dcDivQ : Nat
  invDivQ : Nat
  dcBdivQr : Nat
  dcBdivQ : Nat
  binvNewton : Nat
  redc1ToRedc2 : Nat
  redc2ToRedcN : Nat
  redc1ToRedcN : Nat
  hgcd : Nat
  hgcdAppr : Nat
  mod11 : Nat
  mod12 : Nat
  mod13 : Nat
  getStrDc : Nat
  getStrPrecompute : Nat
  setStrDc : Nat
  setStrPrecompute : Nat
  divremHenselQr1 : Nat
  rshDivremHenselQr1 : Nat
  deriving Repr

/-- Minimum operand sizes the algorithms state for themselves (gmp-impl.h `MPN_*_MINSIZE`, regenerated from the
    source into `Gen.minSizes`; the two values of the Karatsuba minimum are the two arms of the
    `#if defined(HAVE_NATIVE_mpn_karaadd) || defined(HAVE_NATIVE_mpn_karasub)` at gmp-impl.h:1419). -/
structure MinSizes where
  karaGeneric : Nat      -- 2: "need 2 so that n2>=1"
  karaNative : Nat       -- 8: the assembly mpn_karaadd/mpn_karasub "requires n>=8" (mpn/x86_64/*/karaadd.asm)
  toom3 : Nat            -- 17 = toom3_mul_n.c:92 ASSERT(n >= 17)
  toom4 : Nat            -- 32
  toom8h : Nat           -- 86 = toom8h_mul.c:84 ASSERT (bn >= 86)
  toom3Sqr : Nat         -- 17
  toom4Sqr : Nat         -- 32
  toom8Sqr : Nat         -- 58 (toom8_sqr_n.c:66 ASSERT ( an >= 40 ))
  fft : Nat              -- 64
  deriving Repr

/-- Facts of the build configuration that change which code the thresholds steer. -/
structure Cfg where
  nativeKara : Bool      -- HAVE_NATIVE_mpn_karaadd / karasub (CPU directories ship karaadd.asm / karasub.asm)
  wantRedc2 : Bool       -- powm.c:96 `#if HAVE_NATIVE_mpn_addmul_2 || HAVE_NATIVE_mpn_redc_2` => WANT_REDC_2
  deriving Repr, DecidableEq

def allCfgs : List Cfg := [⟨false, false⟩, ⟨false, true⟩, ⟨true, false⟩, ⟨true, true⟩]

def karaMin (m : MinSizes) (c : Cfg) : Nat := if c.nativeKara then m.karaNative else m.karaGeneric

/-! ### mpn_mul_n / mpn_sqr dispatch (mpn/generic/mul_n.c:289-330, 344-390) -/

inductive MulAlg | basecase | kara | toom3 | toom4 | toom8h | fft
  deriving DecidableEq, Repr

/-- mul_n.c:289-316: the `if (BELOW_THRESHOLD (n, …)) … else if …` chain of mpn_mul_n. -/
def mulSel (p : Params) (n : Nat) : MulAlg :=
  if below n p.mulKaratsuba then .basecase
  else if below n p.mulToom3 then .kara
  else if below n p.mulToom4 then .toom3
  else if below n p.mulToom8h then .toom4
  else if below n p.mulFftFull then .toom8h
  else .fft

def mulMin (m : MinSizes) (c : Cfg) : MulAlg → Nat
  | .basecase => 1 | .kara => karaMin m c | .toom3 => m.toom3 | .toom4 => m.toom4 | .toom8h => m.toom8h | .fft => m.fft

inductive SqrAlg | mulBasecase | sqrBasecase | kara | toom3 | toom4 | toom8 | fft
  deriving DecidableEq, Repr

/-- mul_n.c:344-388: the chain of mpn_sqr. -/
def sqrSel (p : Params) (n : Nat) : SqrAlg :=
  if below n p.sqrBasecase then .mulBasecase
  else if below n p.sqrKaratsuba then .sqrBasecase
  else if below n p.sqrToom3 then .kara
  else if below n p.sqrToom4 then .toom3
  else if below n p.sqrToom8 then .toom4
  else if below n p.sqrFftFull then .toom8
  else .fft

def sqrMin (m : MinSizes) (c : Cfg) : SqrAlg → Nat
  | .mulBasecase => 1 | .sqrBasecase => 1 | .kara => karaMin m c | .toom3 => m.toom3Sqr | .toom4 => m.toom4Sqr
  | .toom8 => m.toom8Sqr | .fft => m.fft

/-- largest stated minimum (86) is below this bound: sizes >= `sizeBound` satisfy every minimum trivially -/
def sizeBound : Nat := 100

/-! ### powm.c reduction choice (mpn/generic/powm.c:197-225, 232-258) -/

inductive Redc | redc1 | redc2 | redcN
  deriving DecidableEq, Repr

def redcSel (p : Params) (c : Cfg) (n : Nat) : Redc :=
  if c.wantRedc2 then
    (if below n p.redc1ToRedc2 then .redc1 else if below n p.redc2ToRedcN then .redc2 else .redcN)
  else
    (if below n p.redc1ToRedcN then .redc1 else .redcN)

/-! ### mpn_mulhigh_n (mpn/generic/mulhigh_n.c:255-270) -/

inductive HighAlg | mulBasecase | mulshortBasecase | dc
  deriving DecidableEq, Repr

def highSel (p : Params) (n : Nat) : HighAlg :=
  if below n p.mulhighBasecase then .mulBasecase else if below n p.mulhighDc then .mulshortBasecase else .dc

/-- mulhigh_n.c:141 ASSERT(n >= 3) in mpn_mulshort_n_basecase; mulhigh_n.c:270 ASSERT (n >= 4) on the DC path -/
def highMin : HighAlg → Nat
  | .mulBasecase => 1 | .mulshortBasecase => 3 | .dc => 4

/-! ### The conditions, clause by clause -/

/-- (V0) signed products of thresholds formed by the dispatch code must not overflow mp_size_t:
    mul.c:142 2*MUL_FFT_FULL_THRESHOLD, :152 2*MUL_TOOM8H_THRESHOLD, :161/:170 2* and 6*MUL_TOOM4_THRESHOLD,
    :180 2*MUL_TOOM3_THRESHOLD; tdiv_qr.c:138 2*INV_DIV_QR_THRESHOLD; tdiv_q.c:141 2*INV_DIV_Q_THRESHOLD -/
def NoOverflow (p : Params) : Prop :=
  2 * p.mulFftFull ≤ never ∧ 2 * p.mulToom8h ≤ never ∧ 6 * p.mulToom4 ≤ never ∧ 2 * p.mulToom3 ≤ never
    ∧ 2 * p.invDivQr ≤ never ∧ 2 * p.invDivQ ≤ never

/-- (V1) mpn_mul_n never hands an algorithm a size below its stated minimum (mul_n.c:289-316) -/
def MulNOk (m : MinSizes) (c : Cfg) (p : Params) : Prop := ∀ n, n < sizeBound → 1 ≤ n → mulMin m c (mulSel p n) ≤ n

/-- (V2) the same for mpn_sqr (mul_n.c:344-388) -/
def SqrOk (m : MinSizes) (c : Cfg) (p : Params) : Prop := ∀ n, n < sizeBound → 1 ≤ n → sqrMin m c (sqrSel p n) ≤ n

/-- (V3) mpn_kara_mul_n recurses on n2 = floor(n/2) as soon as n3 = ceil(n/2) >= MUL_KARATSUBA_THRESHOLD
    (mul_n.c:206-217), so it is entered with n = threshold-1; with threshold 0 the recursion never ends.
    mpn_kara_sqr_n (mul_n.c:260-276) likewise with max(SQR_BASECASE_THRESHOLD, SQR_KARATSUBA_THRESHOLD). -/
def KaraRecOk (m : MinSizes) (c : Cfg) (p : Params) : Prop :=
  (p.mulKaratsuba ≠ never → karaMin m c + 1 ≤ p.mulKaratsuba)
  ∧ (p.sqrKaratsuba ≠ never → p.sqrBasecase ≠ never → karaMin m c + 1 ≤ max p.sqrBasecase p.sqrKaratsuba)

/-- (V4) mpn_mul, unbalanced: toom42/toom3/toom32 are entered when un+vn >= 2*MUL_TOOM3_THRESHOLD, vn > ceil(un/4)
    and vn >= MUL_KARATSUBA_THRESHOLD (mul.c:78,180-207); all three ASSERT(an >= 20) (toom3_mul.c:257,431,631) -/
def MulUnbalancedRow (p : Params) (un : Nat) : Prop :=
  ∀ vn, vn < 20 → (vn < un ∧ 1 ≤ vn ∧ ¬ (vn < p.mulKaratsuba) ∧ above (un + vn) (2 * p.mulToom3) = true) → ¬ ((un + 3) / 4 < vn)
instance (p : Params) (un : Nat) : Decidable (MulUnbalancedRow p un) := by unfold MulUnbalancedRow; infer_instance
def MulUnbalancedOk (p : Params) : Prop := ∀ un, un < 20 → MulUnbalancedRow p un

/-- (V5) mulhigh_n.c:255-270 -/
def MulhighOk (p : Params) : Prop := ∀ n, n < 4 → 1 ≤ n → highMin (highSel p n) ≤ n

/-- (V6) mulmid_n.c:52 `n < MULMID_TOOM42_THRESHOLD` else mpn_toom42_mulmid, toom42_mulmid.c:61 ASSERT (n >= 4).
    (V7) schoolbook division needs dn > 2 (sb_div_qr.c:47), mpn_dc_div_qr_n halves (dc_div_qr_n.c:44-64) and is entered
         with n >= DC_DIV_QR_THRESHOLD; dc_div_qr.c:45 / dc_div_q.c:42 ASSERT (dn >= 6).
    (V8) Hensel division: dc_bdiv_qr.c:56 ASSERT (dn >= 2); dc_bdiv_q.c:51 / dc_bdiv_q_n.c:50 ASSERT (n >= 6), entered from
         binvert.c:84-87 with rn >= DC_BDIV_Q_THRESHOLD; dc_bdiv_q_n.c:75,97 recurse on halves > DC_BDIV_Q_THRESHOLD.
    (V9) binvert.c:73 `for (rn = n; ABOVE_THRESHOLD (rn, BINV_NEWTON_THRESHOLD); rn = (rn + 1) >> 1)` stays at rn = 1
         forever unless the threshold is at least 2.
    (V11) hgcd.c:60 `(n - 1) / (HGCD_THRESHOLD - 1)`, hgcd_appr.c:42 `(n - 1) / (HGCD_APPR_THRESHOLD - 1)`. -/
def LowerBoundsOk (p : Params) : Prop :=
  4 ≤ p.mulmidToom42 ∧ 6 ≤ p.dcDivQr ∧ 6 ≤ p.dcDivQ ∧ 2 ≤ p.dcBdivQr ∧ 6 ≤ p.dcBdivQ ∧ 2 ≤ p.binvNewton
  ∧ 2 ≤ p.hgcd ∧ 2 ≤ p.hgcdAppr

/-- (V10) redc_n.c:59 ASSERT (n > 8) -/
def RedcOk (c : Cfg) (p : Params) : Prop := ∀ n, n < 9 → 1 ≤ n → redcSel p c n ≠ .redcN

/-- (V12) divrem_euclidean_r_1.c:313-320 select mod_1_3 / mod_1_2 / mod_1_1 by ABOVE_THRESHOLD(n, MOD_1_k_THRESHOLD);
    mod_1_1.c:34 ASSERT(xn >= 3), mod_1_2.c:34 ASSERT(xn >= 4), mod_1_3.c:34 ASSERT(xn >= 5) -/
def Mod1Ok (p : Params) : Prop :=
  ∀ n, n < 5 → 1 ≤ n → (above n p.mod13 = true → 5 ≤ n) ∧ (above n p.mod12 = true → 4 ≤ n) ∧ (above n p.mod11 = true → 3 ≤ n)

/-- (V13) get_str.c:126-137: mpn_sb_get_str's buffers hold GET_STR_PRECOMPUTE_THRESHOLD limbs "given that we only get
    here for operands with un < GET_STR_PRECOMPUTE_THRESHOLD", but mpn_dc_get_str calls it for un < GET_STR_DC_THRESHOLD
    (get_str.c:272).  (V14) set_str.c:224-257: mpn_dc_set_str reaches mpn_bc_set_str only below SET_STR_DC_THRESHOLD. -/
def StrOk (p : Params) : Prop :=
  1 ≤ p.getStrDc ∧ p.getStrDc ≤ p.getStrPrecompute ∧ p.getStrPrecompute ≠ never ∧ 1 ≤ p.setStrDc

/-- (V15) divrem_hensel_qr_1.c:46 / rsh_divrem_hensel_qr_1.c: `BELOW_THRESHOLD(n, …_THRESHOLD)` selects the one-limb-inverse
    loop, otherwise the two-limb-inverse routine: divrem_hensel_qr_1_2.c:37 ASSERT(n >= 2); the assembly
    mpn_rsh_divrem_hensel_qr_1_2 of every CPU directory needs n >= 3 ("3limb minimum", k8/rsh_divrem_hensel_qr_1_2.asm:33 —
    it faults at n = 2, found by the C14 kernel run; tune/tuneup.c:930 uses min_size = 3). -/
def HenselOk (p : Params) : Prop :=
  (∀ n, n < 3 → 1 ≤ n → (above n p.divremHenselQr1 = true → 2 ≤ n) ∧ (above n p.rshDivremHenselQr1 = true → 3 ≤ n))

instance (p : Params) : Decidable (HenselOk p) := by unfold HenselOk; infer_instance
instance (p : Params) : Decidable (NoOverflow p) := by unfold NoOverflow; infer_instance
instance (m : MinSizes) (c : Cfg) (p : Params) : Decidable (MulNOk m c p) := by unfold MulNOk; infer_instance
instance (m : MinSizes) (c : Cfg) (p : Params) : Decidable (SqrOk m c p) := by unfold SqrOk; infer_instance
instance (m : MinSizes) (c : Cfg) (p : Params) : Decidable (KaraRecOk m c p) := by unfold KaraRecOk; infer_instance
instance (p : Params) : Decidable (MulUnbalancedOk p) := by unfold MulUnbalancedOk; infer_instance
instance (p : Params) : Decidable (MulhighOk p) := by unfold MulhighOk; infer_instance
instance (p : Params) : Decidable (LowerBoundsOk p) := by unfold LowerBoundsOk; infer_instance
instance (c : Cfg) (p : Params) : Decidable (RedcOk c p) := by unfold RedcOk; infer_instance
instance (p : Params) : Decidable (Mod1Ok p) := by unfold Mod1Ok; infer_instance
instance (p : Params) : Decidable (StrOk p) := by unfold StrOk; infer_instance

/-- The conditions, for one configuration. -/
def ValidFor (m : MinSizes) (c : Cfg) (p : Params) : Prop :=
  NoOverflow p ∧ MulNOk m c p ∧ SqrOk m c p ∧ KaraRecOk m c p ∧ MulUnbalancedOk p ∧ MulhighOk p ∧ LowerBoundsOk p
  ∧ RedcOk c p ∧ Mod1Ok p ∧ StrOk p ∧ HenselOk p

instance (m : MinSizes) (c : Cfg) (p : Params) : Decidable (ValidFor m c p) := by unfold ValidFor; infer_instance

/-- Valid under every build configuration (the same table is used whichever kernels the CPU path provides). -/
def Valid (m : MinSizes) (p : Params) : Prop := ∀ c ∈ allCfgs, ValidFor m c p

instance (m : MinSizes) (p : Params) : Decidable (Valid m p) := by unfold Valid; infer_instance

end Mpir.Params
