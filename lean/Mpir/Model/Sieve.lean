/-
  The prime sieve of /repo/primesieve.c (`gmp_primesieve`, `first_block_primesieve`, `block_resieve`,
  `id_to_n`, `n_to_bit`) on the bit array exactly as the C indexes it, and the sieve-reading loops
  (`LOOP_ON_SIEVE_BEGIN … END`) of mpz/oddfac_1.c, mpz/primorial_ui.c, mpz/bin_uiui.c.  Core Lean only.

  The bit array is an `Array Nat` of limbs (< 2^64).  Bit b (b = 0 is the least significant bit of limb 0)
  stands for the number `bit_to_n b = id_to_n (b+1)`, the (b+1)-st number ≥ 5 coprime to 6:
  5, 7, 11, 13, 17, 19, 23, 25, …  A set bit means "composite".

  Limb arithmetic: every quantity the C computes here stays below 2^64 for n < 2^64 (bit indices are
  < n/3, strides < 2^34), so `mp_limb_t` arithmetic is written in ℕ; the mask rotations are written
  with the explicit `% B`.  Theorems: MpirProofs/Props/C16_sieve.lean.
-/
import Mpir.Base
import Mpir.Model.Numth
namespace Mpir.Sieve
open Mpir Mpir.Numth

/-- primesieve.c:87-88 (GMP_LIMB_BITS > 61) -/
def SIEVE_SEED : Nat := 0x3294C9E069128480
def SEED_LIMIT : Nat := 202
/-- primesieve.c:232 -/
def BLOCK_SIZE : Nat := 2048

/-- id_to_n (primesieve.c:75): `id*3+1+(id&1)` -/
def id_to_n (id : Nat) : Nat := id * 3 + 1 + (id &&& 1)

/-- `x << r | x >> (GMP_LIMB_BITS - r)` on a limb x, 0 < r < 64 (primesieve.c:154, :164, :167, :210, :226, :56) -/
def rotl (x r : Nat) : Nat := (x <<< r) % B ||| x >>> (64 - r)

/-- `bit_array[idx] |= mask` -/
def orAt (a : Array Nat) (idx mask : Nat) : Array Nat := a.modify idx (· ||| mask)

/-- does `(bit_array[index] & mask) == 0` hold ? -/
def clearAt (a : Array Nat) (index mask : Nat) : Bool := a.getD index 0 &&& mask == 0

/-- bit b of the array (true = marked composite) -/
def sieveBit (a : Array Nat) (b : Nat) : Bool := (a.getD (b / 64) 0).testBit (b % 64)

/-- `for ( ; lindex <= bits; lindex += step) { bit_array[lindex / GMP_LIMB_BITS] |= lmask;
      lmask = lmask << maskrot | lmask >> (GMP_LIMB_BITS - maskrot); }`
    (primesieve.c:162-165, :208-211, :224-227; fuel = an upper bound for the number of passes) -/
def markFor (bits step maskrot : Nat) : Nat → Array Nat → Nat → Nat → Array Nat
  | 0, a, _, _ => a
  | fuel + 1, a, lindex, lmask =>
    if lindex ≤ bits then
      markFor bits step maskrot fuel (orAt a (lindex / 64) lmask) (lindex + step) (rotl lmask maskrot)
    else a

/-- `do { bit_array[lindex / 64] |= lmask; lmask = rot; lindex += step; } while (lindex <= bits);` (primesieve.c:152-156) -/
def markDo (bits step maskrot fuel : Nat) (a : Array Nat) (lindex lmask : Nat) : Array Nat :=
  markFor bits step maskrot fuel (orAt a (lindex / 64) lmask) (lindex + step) (rotl lmask maskrot)

/-- primesieve.c:143 / :194  `lindex = i*(step+1)-1+(-(i&1)&(i+1))` = n_to_bit (id_to_n(i)²) -/
def sqIndex (i step : Nat) : Nat := i * (step + 1) - 1 + (if i &&& 1 = 1 then i + 1 else 0)
/-- primesieve.c:159 / :214  `lindex = i*(i*3+6)+(i&1)` = n_to_bit (id_to_n(i)·id_to_n(i+1)) -/
def nextIndex (i : Nat) : Nat := i * (i * 3 + 6) + (i &&& 1)

/-- The `do { … } while (1)` of first_block_primesieve (primesieve.c:134-170); state (mask, index, i).
    `none`: the loop would read `bit_array[index]` with index ≥ limbs (or the fuel ran out) — proved impossible. -/
def fbLoop (bits : Nat) : Nat → Array Nat → Nat → Nat → Nat → Option (Array Nat)
  | 0, _, _, _, _ => none
  | fuel + 1, a, mask, index, i =>
    if index ≥ a.size then none else
    let mask' := rotl mask 1                                   -- :167
    let index' := index + (mask' &&& 1)                        -- :168
    if clearAt a index mask then                               -- :135
      let step := id_to_n i                                    -- :141
      let lindex := sqIndex i step                             -- :143
      if lindex > bits then some a else                        -- :145-146 break
      let step := step <<< 1                                   -- :148
      let maskrot := step % 64                                 -- :149
      let a := markDo bits step maskrot bits a lindex (1 <<< (lindex % 64))       -- :151-156
      let lindex := nextIndex i                                -- :159
      let a := markFor bits step maskrot (bits + 1) a lindex (1 <<< (lindex % 64))  -- :161-165
      fbLoop bits fuel a mask' index' (i + 1)
    else fbLoop bits fuel a mask' index' (i + 1)

/-- first_block_primesieve (primesieve.c:109-172), n > 4: the `limbs` limbs written -/
def first_block_primesieve (n : Nat) : Option (Array Nat) :=
  let bits := n_to_bit n                                       -- :116
  let limbs := bits / 64 + 1                                   -- :117
  let a := (Array.replicate limbs 0).setIfInBounds 0 SIEVE_SEED   -- :120-121
  let a := if (bits + 1) % 64 ≠ 0 then orAt a (limbs - 1) (((B - 1) <<< ((bits + 1) % 64)) % B) else a   -- :123-124
  if n > SEED_LIMIT then fbLoop bits (bits + 2) a 1 0 1 else some a   -- :126-171

/-- The LOOP_ON_SIEVE_BEGIN (step, 0, sieve_bits, 0, sieve) … LOOP_ON_SIEVE_END of block_resieve
    (primesieve.c:187-229); state (mask, index, i) = (__mask, __index, __i before `++__i`).
    NOTE the `continue` of :216: in a do-while it jumps to the loop condition and SKIPS the update of
    __mask/__index (:56-57), while `++__i` has been executed — mirrored here. -/
def brLoop (bits offset sieve_bits : Nat) (sieve : Array Nat) : Nat → Array Nat → Nat → Nat → Nat → Array Nat
  | 0, a, _, _, _ => a
  | fuel + 1, a, mask, index, i0 =>
    let i := i0 + 1                                            -- ++__i
    let mask' := rotl mask 1                                   -- LOOP_ON_SIEVE_STOP :56
    let index' := index + (mask' &&& 1)                        -- :57
    if clearAt sieve index mask then                           -- :39
      let step := id_to_n i                                    -- :41
      let lindex := sqIndex i step                             -- :194
      if lindex > bits + offset then a else                    -- :196-197 break
      let step := step <<< 1                                   -- :199
      let maskrot := step % 64                                 -- :200
      let lindex := if lindex < offset then lindex + step * ((offset - lindex - 1) / step + 1) else lindex   -- :202-203
      let lindex := lindex - offset                            -- :205
      let a := markFor bits step maskrot (bits + 1) a lindex (1 <<< (lindex % 64))   -- :207-211
      let lindex := nextIndex i                                -- :214
      if lindex > bits + offset then                           -- :215-216 continue (mask/index NOT advanced)
        (if i ≤ sieve_bits then brLoop bits offset sieve_bits sieve fuel a mask index i else a)
      else
      let lindex := if lindex < offset then lindex + step * ((offset - lindex - 1) / step + 1) else lindex   -- :218-219
      let lindex := lindex - offset                            -- :221
      let a := markFor bits step maskrot (bits + 1) a lindex (1 <<< (lindex % 64))   -- :223-227
      if i ≤ sieve_bits then brLoop bits offset sieve_bits sieve fuel a mask' index' i else a
    else
      if i ≤ sieve_bits then brLoop bits offset sieve_bits sieve fuel a mask' index' i else a

/-- block_resieve (primesieve.c:174-230): the `limbs` limbs written at bit_array, given the already
    sieved array `sieve` whose bits 0..sieve_bits are read -/
def block_resieve (limbs offset : Nat) (sieve : Array Nat) (sieve_bits : Nat) : Array Nat :=
  let bits := limbs * 64 - 1                                   -- :182
  brLoop bits offset sieve_bits sieve (sieve_bits + 2) (Array.replicate limbs 0) 1 0 0    -- :185-229

/-- `for ( ; off < size; off += BLOCK_SIZE) block_resieve (bit_array + off, BLOCK_SIZE, off * 64, bit_array, off * 64 - 1);`
    (primesieve.c:265-266); `a` = the first `off` limbs of bit_array -/
def blocks (size : Nat) : Nat → Nat → Array Nat → Array Nat
  | 0, _, a => a
  | fuel + 1, off, a =>
    if off < size then blocks size fuel (off + BLOCK_SIZE) (a ++ block_resieve BLOCK_SIZE (off * 64) a (off * 64 - 1))
    else a

/-- mpn_popcount -/
def popcountArr (a : Array Nat) : Nat := a.foldl (fun s x => s + popcount x) 0

/-- gmp_primesieve (primesieve.c:250-276), n > 4: (the `size` limbs written, the returned count) -/
def gmp_primesieve (n : Nat) : Option (Array Nat × Nat) :=
  let bits := n_to_bit n                                       -- :258
  let size := bits / 64 + 1                                    -- :259
  let r :=
    if size > BLOCK_SIZE * 2 then                              -- :261
      let off := BLOCK_SIZE + size % BLOCK_SIZE                -- :263
      (first_block_primesieve (id_to_n (off * 64))).map (blocks size size off)   -- :264-266
    else first_block_primesieve n                              -- :268
  r.map fun a =>
    let a := if (bits + 1) % 64 ≠ 0 then orAt a (size - 1) (((B - 1) <<< ((bits + 1) % 64)) % B) else a   -- :271-272
    (a, size * 64 - popcountArr a)                             -- :275

/-! ## Reading the sieve: LOOP_ON_SIEVE_BEGIN (prime, start, end, 0, sieve) … LOOP_ON_SIEVE_END -/

/-- oddfac_1.c:76-103 (= primorial_ui.c:42-69 = bin_uiui.c:527-554): the do-while over `__i`, with the
    rotating `__mask` and `__index`; the body runs with prime = id_to_n(__i) where the bit is clear.
    State (mask, index, i) = (__mask, __index, __i before `++__i`). -/
def sieveLoop (sieve : Array Nat) (maxI : Nat) (body : Nat → FL → FL) : Nat → Nat → Nat → Nat → FL → FL
  | 0, _, _, _, st => st
  | fuel + 1, mask, index, i0, st =>
    let i := i0 + 1                                            -- ++__i
    let st := if clearAt sieve index mask then body (id_to_n i) st else st
    let mask' := rotl mask 1
    let index' := index + (mask' &&& 1)
    if i ≤ maxI then sieveLoop sieve maxI body fuel mask' index' i st else st

/-- LOOP_ON_SIEVE_BEGIN (prime, start, stop, 0, sieve) body LOOP_ON_SIEVE_END -/
def loopOnSieveArr (sieve : Array Nat) (start stop : Nat) (body : Nat → FL → FL) (st : FL) : FL :=
  sieveLoop sieve stop body (stop - start + 2) (1 <<< (start % 64)) (start / 64) start st


/-! ## The sieve's users, reading the bit array (same statements as the models of Mpir/Model/Numth.lean, which
    replace the array by its meaning; `*_arr_eq` in MpirProofs/Lemmas/SieveUse.lean proves them equal) -/

/-- mpz_2multiswing_1 (x, n, sieve, factors) (oddfac_1.c:199-262) on a given sieve array -/
def multiswingArr (sieve : Array Nat) (n0 : Nat) : Nat :=
  let prod0 := if n0 % 2 = 1 then n0 else 1               -- :207-211
  let n := n0 - n0 % 2
  let maxProd := (B - 1) / (n - 1)                        -- :212
  let st : FL := swingAPrime n maxProd 3 ([], prod0)      -- :215
  let s := n_to_bit (limb_apprsqrt n)                     -- :224-226
  let st := loopOnSieveArr sieve (n_to_bit 5) s (swingAPrime n maxProd) st
  let st := loopOnSieveArr sieve (s + 1) (n_to_bit (n / 3)) (shSwingAPrime n (maxProd * 3 % B)) st
  let st := loopOnSieveArr sieve (n_to_bit (n / 2) + 1) (n_to_bit n) (fun p => flStore p maxProd) st
  prodList (st.2 :: st.1)

/-- mpz_goetgheluck_bin_uiui (bin_uiui.c:622-702) with the sieve it computes by gmp_primesieve (sieve, n) -/
def goetgheluckArr (sieve : Array Nat) (n k : Nat) : Nat :=
  let maxProd := (B - 1) / n
  let count := popcount (n - k) + popcount k - popcount n
  let st : FL := ([], 2 ^ count % B)
  let st := countAPrime n k maxProd 3 st
  let s := n_to_bit (limb_apprsqrt n)
  let st := loopOnSieveArr sieve (n_to_bit 5) s (countAPrime n k maxProd) st
  let st := loopOnSieveArr sieve (s + 1) (n_to_bit (n / 2)) (shCountAPrime n k (maxProd * 2 % B)) st
  let st := loopOnSieveArr sieve (n_to_bit (n - k) + 1) (n_to_bit n) (fun p => flStore p maxProd) st
  prodList (st.2 :: st.1)

/-- the sieve part of mpz_primorial_ui (primorial_ui.c:115-148), n ≥ 5 -/
def primorialArr (sieve : Array Nat) (n : Nat) : Nat :=
  let maxProd := (B - 1) / n
  let st := loopOnSieveArr sieve (n_to_bit 5) (n_to_bit n) (fun p => flStore p maxProd) ([], 6)
  prodList (st.2 :: st.1)

/-! ## mpz_next_prime_candidate (mpz/next_prime_candidate.c:59-132) -/

/-- `primes[]` as naturals -/
def npcTab : List Nat := Mpir.Gen.NumthTabs.npcPrimes

/-- the binary search of next_prime_candidate.c:81-101 (`int lo, hi, mid`), fuel ≥ log2 of the table size + 1;
    returns `lo` at loop exit -/
def npcBsearch (i : Nat) : Nat → Int → Int → Int
  | 0, lo, _ => lo
  | fuel + 1, lo, hi =>
    if lo ≤ hi then
      let mid := lo + (hi - lo) / 2                          -- :87
      let pm : Int := Int.ofNat (npcTab.getD mid.toNat 0)
      if (i : Int) > pm then npcBsearch i fuel (mid + 1) hi   -- :88-89
      else if (i : Int) < pm then npcBsearch i fuel lo (mid - 1)   -- :90-91
      else mid                                               -- :92-96 lo = mid; break
    else lo

/-- the small-number paths of mpz_next_prime_candidate (:66-102): `some r` = returned without any primality test -/
def npcSmallPath (n : Int) : Option Nat :=
  if n < 2 then some 2 else                                  -- :66-70
  let p := (n.toNat + 1) ||| 1                               -- :71-72 mpz_add_ui; mpz_setbit (p, 0)
  if p ≤ 7 then some p else                                  -- :74-75
  let last := npcTab.length - 1                              -- prime_limit = NUMBER_OF_PRIMES - 1
  if p ≤ npcTab.getD last 0 then                             -- :78
    let lo := npcBsearch p 16 0 (Int.ofNat last)
    some (npcTab.getD lo.toNat 0)                            -- :99 mpz_set_ui (p, primes[lo])
  else none

/-- one pass over the residues (:113-120): (composite, updated moduli); the moduli and primes are the first
    `prime_limit` entries -/
def npcResidues : List Nat → List Nat → Bool × List Nat
  | m :: ms, pr :: prs =>
    let r := npcResidues ms prs
    let acc := m + 2                                         -- :117
    (m == 0 || r.1, (if acc ≥ pr then acc - pr else acc) :: r.2)   -- :116, :119
  | _, _ => (false, [])

/-- the `for (difference = 0; ; difference += 2)` loop (:109-131) with the Miller-Rabin test replaced by an
    oracle `mr`; state (p, difference, moduli); `none` = fuel exhausted -/
def npcLoop (mr : Nat → Bool) (prs : List Nat) : Nat → Nat → Nat → List Nat → Option Nat
  | 0, _, _, _ => none
  | fuel + 1, p, diff, moduli =>
    let r := npcResidues moduli prs
    if r.1 then npcLoop mr prs fuel p (diff + 2) r.2          -- :121-122 continue
    else
      let p := p + diff                                      -- :124-125
      if mr p then some p                                    -- :128-129
      else npcLoop mr prs fuel p 2 r.2                        -- difference = 0; then the loop's `difference += 2`

/-- mpz_next_prime_candidate with the probabilistic test given as an oracle -/
def npcModel (mr : Nat → Bool) (fuel : Nat) (n : Int) : Option Nat :=
  match npcSmallPath n with
  | some r => some r
  | none =>
    let p := (n.toNat + 1) ||| 1
    let prs := npcTab.take (npcTab.length - 1)               -- prime_limit entries
    npcLoop mr prs fuel p 0 (prs.map (fun q => p % q))       -- :107-108 mpz_fdiv_ui


/-- the `while (!mpz_miller_rabin (x, 23, rnd)) mpz_next_prime_candidate (x, x, rnd);` of mpz_nextprime
    (mpz/nextprime.c:43-47, as repaired by af324ce: the former `mpz_add_ui (x, x, 2)` skipped the candidate x + 2);
    mr2 / mr23 = the two probabilistic tests as oracles -/
def nextprimeLoop (mr2 mr23 : Nat → Bool) : Nat → Nat → Option Nat
  | 0, _ => none
  | fuel + 1, x =>
    if mr23 x then some x else
    match npcModel mr2 4000 (Int.ofNat x) with               -- :46
    | some y => nextprimeLoop mr2 mr23 fuel y
    | none => none

/-- mpz_nextprime (mpz/nextprime.c:36-51) -/
def nextprimeModel (mr2 mr23 : Nat → Bool) (n : Int) : Option Nat :=
  match npcModel mr2 4000 n with                             -- :41
  | some x => if x ≥ 1000000 then nextprimeLoop mr2 mr23 100 x else some x   -- :43
  | none => none

end Mpir.Sieve
