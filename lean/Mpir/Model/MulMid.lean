/-
  Middle product (property C01): limb-level executable models of
    mpn/generic/mulmid_basecase.c   mpn_mulmid_basecase  (the generic C: mul_1 + addmul_1 rows, two carry limbs lo/hi)
    mpn/generic/mulmid_n.c          mpn_mulmid_n         (threshold dispatch)
    mpn/generic/mulmid.c            mpn_mulmid           (the chunked driver: four regions, add-backs, recursion)
  and the specification MP(a,m,b,n) of the header comments.  Core Lean only.
  mpn_toom42_mulmid is NOT modelled: it enters as a function parameter `tm` (the driver passes its specification).

  Conventions: a source operand is the list of limbs FROM THE POINTER ON (it may be longer than the size the C passes);
  sizes are explicit, as in C.  `ap += k` is `a.drop k`.
-/
import Mpir.Base
import Mpir.Model.Kernels
namespace Mpir.MulMid
open Mpir

/-- the limbs {a + s, rn} -/
def win (a : List Nat) (s rn : Nat) : List Nat := (a.drop s).take rn

/-- Specification, row form.  MP(a, m, b, n) = Σ_{0≤i<m, 0≤j<n, n-1 ≤ i+j ≤ m-1} a_i b_j B^(i+j-n+1)
    (mulmid_basecase.c:36, mulmid_n.c:36, mulmid.c:38); for fixed j the admissible i are n-1-j ≤ i ≤ m-1-j, the window of
    rn = m-n+1 limbs of a starting at n-1-j, so MP = Σ_j b_j · val {a + (n-1-j), rn}.  Recursion on b, least significant
    limb first: the head b_0 sees the window at offset n-1 = length of the tail. -/
def mpW (rn : Nat) (a : List Nat) : List Nat → Nat
  | [] => 0
  | b0 :: bs => b0 * val (win a bs.length rn) + mpW rn a bs

/-- The header formula literally, as a sum over index pairs (i, j). -/
def mpPairs (a b : List Nat) : Nat :=
  let m := a.length; let n := b.length
  ((List.range m).map fun i => ((List.range n).map fun j =>
      if n - 1 ≤ i + j ∧ i + j ≤ m - 1 then a.getD i 0 * b.getD j 0 * B ^ (i + j - (n - 1)) else 0).sum).sum

/-- add_ssaaaa (hi, lo, hi, lo, 0, temp) (longlong.h generic: sl = al + bl; sh = ah + bh + (sl < al)) -/
def addSs0 (hi lo temp : Nat) : Nat × Nat :=
  let sl := (lo + temp) % B
  let sh := (hi + 0 + boolToNat (sl < lo)) % B
  (sh, sl)

/-- mulmid_basecase.c:166-173 (the `while (vn >= 1)` loop; MAX_LEFT = MP_SIZE_T_MAX in the plain configuration):
    temp = mpn_addmul_1 (rp, up, un, vp[0]); add_ssaaaa (hi, lo, hi, lo, 0, temp); up -= 1, vp += 1, vn -= 1.
    `vs` = the limbs of v still to do; up = a + vs.tail.length.  Returns (rp, lo, hi). -/
def rows (a : List Nat) (un : Nat) : List Nat → List Nat → Nat → Nat → List Nat × Nat × Nat
  | [], rp, lo, hi => (rp, lo, hi)
  | v :: vs, rp, lo, hi =>
      let t := addmul_1 rp (win a vs.length un) v
      let s := addSs0 hi lo t.2
      rows a un vs t.1 s.2 s.1

/-- mpn_mulmid_basecase (rp, up, un, vp, vn), mulmid_basecase.c:48-184, plain configuration (no native mul_2/addmul_k):
    up += vn - 1; un -= vn - 1 (:61-62); hi = 0; lo = mpn_mul_1 (rp, up, un, vp[0]); up -= 1, vp += 1, vn -= 1 (:81-82);
    the addmul_1 loop; rp[un] = lo; rp[un+1] = hi (:182-183).  Result {rp, un0 - vn + 3}. -/
def mulmid_basecase (a : List Nat) (un0 : Nat) (b : List Nat) : List Nat :=
  match b with
  | [] => []                       -- ASSERT (vn >= 1)
  | v0 :: vs =>
    let un := un0 - vs.length
    let m := mul_1 (win a vs.length un) v0
    let r := rows a un vs m.1 m.2 0
    r.1 ++ [r.2.1, r.2.2]

/-- mpn_mulmid_n (rp, ap, bp, n), mulmid_n.c:45-72: `if (n < MULMID_TOOM42_THRESHOLD) basecase (rp, ap, 2n-1, bp, n)
    else toom42_mulmid (rp, ap, bp, n, scratch)`.  `tm a b n` stands for mpn_toom42_mulmid. -/
def mulmid_n (T : Nat) (tm : List Nat → List Nat → Nat → List Nat) (a b : List Nat) (n : Nat) : List Nat :=
  if n < T then mulmid_basecase a (2 * n - 1) b else tm a b n

/-- The add-back of the two saved limbs (mulmid.c:92-93, :104-105, :240-241, :254-255):
    ADDC_LIMB (cy, rp[0], rp[0], t0); MPN_INCR_U (rp + 1, len - 1, t1 + cy) on the region {rp, len}.
    MPN_INCR_U has no carry out (it would run on); the model drops mpn_add_1's carry, the theorem shows it is 0. -/
def addback (rp : List Nat) (t0 t1 : Nat) : List Nat :=
  match rp with
  | [] => []
  | r0 :: rs =>
      let w := (r0 + t0) % B
      let cy := boolToNat (w < r0)
      w :: (add_1 rs ((t1 + cy) % B)).1

/-- The two "wide" loops of mulmid.c (:86-95 with x = an, w = CHUNK, k = CHUNK - bn + 1, f = basecase of CHUNK limbs;
    :234-243 with x = rn, w = k = bn, f = toom42_mulmid):
      while (x >= w) { ap += k, rp += k; t0 = rp[0], t1 = rp[1]; f (rp, ap); add back; x -= k; }
    The output so far is `done ++ cur` with cur = the k+2 limbs at rp.  (0 < k and 0 < x hold in both uses whenever
    w ≤ x; they are in the guard only for the termination proof.)  Returns (done, cur, a, x). -/
def hloop (f : List Nat → List Nat) (k w : Nat) (a : List Nat) (x : Nat) (done cur : List Nat) :
    List Nat × List Nat × List Nat × Nat :=
  if _h : 0 < k ∧ 0 < x ∧ w ≤ x then
    let a' := a.drop k
    let t0 := cur.getD k 0
    let t1 := cur.getD (k + 1) 0
    hloop f k w a' (x - k) (done ++ cur.take k) (addback (f a') t0 t1)
  else (done, cur, a, x)
termination_by x
decreasing_by omega

/-- The two "tall" loops of mulmid.c (:147-153 with c = CHUNK, f = basecase; :195-201 with c = rn, f = toom42):
      while (bn >= c) { ap += c, bp -= c; f (temp, ap, bp); mpn_add_n (rp, rp, temp, rn + 2); bn -= c; }
    `bn` = number of low limbs of b still to do; bp = b + (bn - c) after `bp -= c`.  The carry of add_n is ignored by
    the C.  Returns (rp, a, bn). -/
def vloop (f : List Nat → List Nat → List Nat) (c : Nat) (a b : List Nat) (bn : Nat) (rp : List Nat) :
    List Nat × List Nat × Nat :=
  if _h : 0 < c ∧ c ≤ bn then
    let a' := a.drop c
    let temp := f a' (win b (bn - c) c)
    vloop f c a' b (bn - c) (add_n rp temp).1
  else (rp, a, bn)
termination_by bn
decreasing_by omega

/-- mpn_mulmid (rp, ap, an, bp, bn), mulmid.c:47-258.  T = MULMID_TOOM42_THRESHOLD, CHUNK = 200 + T (:34).
    `b` has exactly bn limbs.  The function calls itself on the last chunk of the toom42 regions (:207, :253) with a strictly
    smaller an; `fuel` bounds that recursion (an is enough), `[]` = out of fuel. -/
def mulmid (T : Nat) (tm : List Nat → List Nat → Nat → List Nat) : Nat → List Nat → Nat → List Nat → List Nat
  | 0, _, _, _ => []
  | fuel + 1, a, an, b =>
    let bn := b.length
    let CHUNK := 200 + T
    if bn < T then                                                  -- :60
      if an < CHUNK then mulmid_basecase a an b                     -- :64-69
      else
        let k := CHUNK - bn + 1                                     -- :78
        -- :81 first chunk; :84-95 remaining chunks.  st = (done, cur, ap, an)
        let st := hloop (fun a' => mulmid_basecase a' CHUNK b) k CHUNK a (an - k) [] (mulmid_basecase a CHUNK b)
        if st.2.2.2 ≥ bn then                                       -- :97 last remaining chunk
          -- :101-105  ap += k, rp += k; t0 = rp[0], t1 = rp[1]; basecase (rp, ap, an, bp, bn); add back
          st.1 ++ st.2.1.take k ++
            addback (mulmid_basecase (st.2.2.1.drop k) st.2.2.2 b) (st.2.1.getD k 0) (st.2.1.getD (k + 1) 0)
        else st.1 ++ st.2.1
    else
      let rn := an - bn + 1                                         -- :113
      if rn < T then                                                -- :115
        if bn < CHUNK then mulmid_basecase a an b                   -- :119-124
        else
          -- :141-142: bp += bn - CHUNK, an -= bn - CHUNK; basecase (rp, ap, an, bp, CHUNK); an' = rn + CHUNK - 1
          let an' := an - (bn - CHUNK)
          -- :145-153 remaining chunks.  st = (rp, ap, bn)
          let st := vloop (fun a' bc => mulmid_basecase a' an' bc) CHUNK a b (bn - CHUNK)
                      (mulmid_basecase a an' (win b (bn - CHUNK) CHUNK))
          if st.2.2 ≠ 0 then                                        -- :155-161 last remaining chunk
            -- ap += CHUNK, bp -= bn; basecase (temp, ap, rn + bn - 1, bp, bn); add_n (rp, rp, temp, rn + 2)
            (add_n st.1 (mulmid_basecase (st.2.1.drop CHUNK) (rn + st.2.2 - 1) (win b 0 st.2.2))).1
          else st.1
      else if bn > rn then                                          -- :170
        -- :189-190: bp += bn - rn; toom42 (rp, ap, bp, rn); :193-201 remaining chunks
        let st := vloop (fun a' bc => tm a' bc rn) rn a b (bn - rn) (tm a (win b (bn - rn) rn) rn)
        if st.2.2 ≠ 0 then                                          -- :203-209 last chunk: mpn_mulmid itself
          (add_n st.1 (mulmid T tm fuel (st.2.1.drop rn) (rn + st.2.2 - 1) (win b 0 st.2.2))).1
        else st.1
      else
        -- :229 first chunk toom42 (rp, ap, bp, bn); :232-243 remaining chunks.  st = (done, cur, ap, rn)
        let st := hloop (fun a' => tm a' b bn) bn bn a (rn - bn) [] (tm a b bn)
        if st.2.2.2 ≠ 0 then                                        -- :247-256 last chunk: mpn_mulmid itself, add back
          st.1 ++ st.2.1.take bn ++
            addback (mulmid T tm fuel (st.2.2.1.drop bn) (st.2.2.2 + bn - 1) b) (st.2.1.getD bn 0) (st.2.1.getD (bn + 1) 0)
        else st.1 ++ st.2.1

/-- mpn_toom42_mulmid entering by its specification: {rp, n+2} = MP({ap, 2n-1}, {bp, n}) (used by the driver). -/
def tmSpec (a b : List Nat) (n : Nat) : List Nat := toLimbs (n + 2) (mpW n a b)

end Mpir.MulMid
