/-
  mpn_mullow_n (property C01; used by redc_n, powlo, the Newton inversions), VALUE level: operands are natural numbers
  below B^n, the result is the value of the low n limbs of rp after the call (the function stores 2n limbs; the upper n
  are scratch).  Mirrors mpn/generic/mullow_n.c:32-80 statement by statement; the full products are taken as exact
  (mpn_mul_basecase, mpn_mul_n: their own theorems), mpn_mullow_n_basecase (assembly) by its specification.
  Core Lean only (linked into the driver).  Tie: op `mlx_mullow_n` (Mpir/Ops/MulLow.lean ↔ harness/ops_mullow.c).
-/
import Mpir.Base
namespace Mpir.MulLow
open Mpir

/-- mullow_n.c:59-66: `m = n * 87 / 128; if (2 * m < n) m = n - n / 2; if (m > n) m = n;` -/
def splitAt (n : Nat) : Nat :=
  let m := n * 87 / 128
  let m := if 2 * m < n then n - n / 2 else m
  if m > n then n else m

/-- `mpn_mullow_n (rp, xp, yp, n)` with T0 = MULLOW_BASECASE_THRESHOLD, T1 = MULLOW_DC_THRESHOLD,
    T2 = MULLOW_MUL_THRESHOLD; `none` = outside the C's domain (ASSERT (n > 0), also for the recursive calls) -/
def mullow_n (T0 T1 T2 : Nat) (x y n : Nat) : Option Nat :=
  if _h0 : n = 0 then none                                  -- :36 ASSERT (n > 0)
  else if n < T0 then some (x * y % B ^ n)                  -- :42-46 mpn_mul_basecase: the whole product
  else if n < T1 then some (x * y % B ^ n)                  -- :48-52 mpn_mullow_n_basecase
  else if n > T2 then some (x * y % B ^ n)                  -- :54-58 mpn_mul_n
  else
    let m := splitAt n                                      -- :61-66
    if _hm : n - m < n then
      let r := (x % B ^ m) * (y % B ^ m)                    -- :71 mpn_mul_n (rp, xp, yp, m)
      let lo := r % B ^ m
      let mid := r / B ^ m % B ^ (n - m)                    -- rp[m, n)
      match mullow_n T0 T1 T2 (x % B ^ (n - m)) (y / B ^ m) (n - m) with      -- :72 mpn_mullow_n (rp + 2m, xp, yp + m, n - m)
      | none => none
      | some t1 =>
        let mid := (mid + t1) % B ^ (n - m)                 -- :73 mpn_add_n (rp + m, rp + m, rp + 2m, n - m), carry dropped
        match mullow_n T0 T1 T2 (x / B ^ m) (y % B ^ (n - m)) (n - m) with    -- :74 mpn_mullow_n (rp + 2m, xp + m, yp, n - m)
        | none => none
        | some t2 =>
          let mid := (mid + t2) % B ^ (n - m)               -- :75
          some (lo + B ^ m * mid)
    else none
termination_by n
decreasing_by all_goals omega

end Mpir.MulLow
