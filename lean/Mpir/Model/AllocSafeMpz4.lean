/-
  C04 — size-aware models, third continuation: mpz/aorsmul_i.c (mpz_aorsmul_1, mpz_addmul_ui, mpz_submul_ui: `MPZ_REALLOC (w,
  new_wsize+1)`, the x-longer-than-w paths with mpn_mul_1 + mpn_add_1 / MPN_MUL_1C, the borrow-out path that writes
  `wp[new_wsize]`, the two's-complement negate), mpz/aorsmul.c (mpz_addmul, mpz_submul: the one-limb shortcut into mpz_aorsmul_1,
  the temporary product, `MPZ_REALLOC (w, MAX (wsize, tsize) + 1)` and the carry store), mpz/mul.c (the `free_me` path: the old
  block is retained while the product is formed).
  Theorems: MpirProofs/Props/C04_allocsafe4.lean.  Core Lean only.  On the memory model of Mpir/Model/AllocSafe.lean; statement by
  statement after the C, file:line cited.  The list functions applied to the limbs are the kernels of Mpir/Model/Kernels.lean and
  `Mpz.mpn_mul` (the schoolbook product: the algorithm dispatch of mpn_mul is C01's subject).
-/
import Mpir.Model.AllocSafeMpz3
import Mpir.Model.Rand
import Mpir.Model.Conv
namespace Mpir.AllocSafe
open Mpir
open Mpir.Mpz (sgn)

/-! ### kernels used here -/

/-- mpn_submul_1 (rp, up, n, v): reads rp[0,n), up[0,n); writes rp[0,n); returns the borrow limb -/
def mpn_submul_1 (s : St) (rp up : Ptr) (n v : Nat) : St × Nat :=
  let r := Mpir.submul_1 (s.rd rp n) (s.rd up n) v
  ((s.chk (s.rdOk rp n && s.rdOk up n)).wr rp r.1, r.2)

/-- `mpn_not (p, n)` = `mpn_com (p, p, n)` (gmp-impl.h:2351) -/
def mpn_not (s : St) (p : Ptr) (n : Nat) : St := mpn_com_n s p p n

/-- `MPN_INCR_U (p, size, 1)` = `mpn_incr_u (p, 1)` (gmp-impl.h:2620, 2508): `while (++(*(p++)) == 0);` — no bound in the C; the
    caller guarantees that the carry stops inside `size` limbs.  Checked as a read and a write of p[0, size). -/
def MPN_INCR_U (s : St) (p : Ptr) (size : Nat) : St :=
  (s.chk (s.rdOk p size)).wr p (Mpir.incr (s.rd p size)).1

/-- `MPN_DECR_U (p, size, 1)` = `mpn_decr_u (p, 1)` (gmp-impl.h:2632, 2528) -/
def MPN_DECR_U (s : St) (p : Ptr) (size : Nat) : St :=
  (s.chk (s.rdOk p size)).wr p (Mpir.decr (s.rd p size)).1

/-- `MPN_MUL_1C (cout, dst, src, size, n, cin)` without a native mpn_mul_1c (aorsmul_i.c:36-41) -/
def MPN_MUL_1C (s : St) (dst src : Ptr) (size n cin : Nat) : St × Nat :=
  let (s, cy) := mpn_mul_1 s dst src size n                                   -- aorsmul_i.c:39
  let (s, c2) := mpn_add_1 s dst dst size cin                                 -- aorsmul_i.c:40
  (s, (cy + c2) % B)

/-! ### mpz_aorsmul_1, mpz_addmul_ui, mpz_submul_ui — mpz/aorsmul_i.c
    (HAVE_NATIVE_mpn_mul_1c undefined: lines 116-127 are live; BITS_PER_UI = GMP_NUMB_BITS: lines 198-217, 226-245 compiled out) -/

/-- aorsmul_i.c:100-131 "addmul of absolute values", after the realloc -/
def aorsmul_1_add (s : St) (w x : Nat) (y : Nat) (wneg : Bool) (wsize xsize : Nat) : St :=
  let new_wsize := max wsize xsize                                            -- :92
  let wp := s.PTR w                                                           -- :94
  let xp := s.PTR x                                                           -- :95
  let min_size := min wsize xsize                                             -- :96
  let (s, cy) := mpn_addmul_1 s wp xp min_size y                              -- :102
  let wp := wp.add min_size                                                   -- :103
  let xp := xp.add min_size                                                   -- :104
  if xsize != wsize then                                                      -- :106, 116 dsize != 0
    if xsize > wsize then                                                     -- :119
      let dsize := xsize - wsize
      let (s, cy2) := mpn_mul_1 s wp xp dsize y                               -- :120
      let (s, c) := mpn_add_1 s wp wp dsize cy                                -- :126
      let cy := (cy2 + c) % B
      let s := s.store wp dsize cy                                            -- :130
      s.setSize w (sgn wneg (new_wsize + (if cy != 0 then 1 else 0)))         -- :131, 188
    else
      let dsize := wsize - xsize                                              -- :123
      let (s, c) := mpn_add_1 s wp wp dsize cy                                -- :126 (cy2 = 0)
      let s := s.store wp dsize c                                             -- :130
      s.setSize w (sgn wneg (new_wsize + (if c != 0 then 1 else 0)))          -- :131, 188
  else
    let s := s.store wp 0 cy                                                  -- :130 (dsize = 0)
    s.setSize w (sgn wneg (new_wsize + (if cy != 0 then 1 else 0)))           -- :131, 188

/-- aorsmul_i.c:144-154, 185-188: the borrow `cy` out of w decides — two's-complement negate into `new_wsize + 1` limbs and flip
    the sign, or keep; then MPN_NORMALIZE and the size store -/
def aorsmul_1_subGeFix (s : St) (w : Nat) (wneg : Bool) (new_wsize cy : Nat) : St :=
  let wp := s.PTR w
  if cy != 0 then                                                             -- :144
    let s := s.store wp new_wsize (B - 1 - (B - cy) % B)                      -- :148 wp[new_wsize] = ~-cy
    let s := mpn_not s wp new_wsize                                           -- :149
    let s := MPN_INCR_U s wp (new_wsize + 1)                                  -- :150-151
    let (n, s) := MPN_NORMALIZE s wp (new_wsize + 1)                          -- :185
    s.setSize w (sgn (!wneg) n)                                               -- :152, 188
  else
    let (n, s) := MPN_NORMALIZE s wp new_wsize                                -- :185
    s.setSize w (sgn wneg n)                                                  -- :188

/-- aorsmul_i.c:137-154, 185-188 "submul of absolute values", wsize ≥ xsize -/
def aorsmul_1_sub_ge (s : St) (w x : Nat) (y : Nat) (wneg : Bool) (wsize xsize : Nat) : St :=
  let new_wsize := max wsize xsize
  let wp := s.PTR w
  let xp := s.PTR x
  let min_size := min wsize xsize
  let (s, cy) := mpn_submul_1 s wp xp min_size y                              -- :137
  if wsize != xsize then                                                      -- :141
    let (s, cy) := mpn_sub_1 s (wp.add xsize) (wp.add xsize) (wsize - xsize) cy   -- :142
    aorsmul_1_subGeFix s w wneg new_wsize cy
  else aorsmul_1_subGeFix s w wneg new_wsize cy

/-- aorsmul_i.c:137, 155-188 "submul of absolute values", wsize < xsize -/
def aorsmul_1_sub_lt (s : St) (w x : Nat) (y : Nat) (wneg : Bool) (wsize xsize : Nat) : St :=
  let new_wsize := max wsize xsize
  let wp := s.PTR w
  let xp := s.PTR x
  let min_size := min wsize xsize
  let (s, cy) := mpn_submul_1 s wp xp min_size y                              -- :137
  let s := mpn_not s wp wsize                                                 -- :163
  let (s, c) := mpn_add_1 s wp wp wsize 1                                     -- :164
  let cy := (cy + c) % B
  let cy := (cy + B - 1) % B                                                  -- :165
  let cy2 := if cy == B - 1 then 1 else 0                                     -- :169
  let cy := (cy + cy2) % B                                                    -- :170
  let (s, cy) := MPN_MUL_1C s (wp.add wsize) (xp.add wsize) (xsize - wsize) y cy   -- :171
  let s := s.store wp new_wsize cy                                            -- :172
  let new_wsize := new_wsize + (if cy != 0 then 1 else 0)                     -- :173
  let s := if cy2 != 0 then MPN_DECR_U s (wp.add wsize) (new_wsize - wsize) else s   -- :177-178
  let (new_wsize, s) := MPN_NORMALIZE s wp new_wsize                          -- :185
  s.setSize w (sgn (!wneg) new_wsize)                                         -- :180, 188

/-- mpz_aorsmul_1 (w, x, y, sub), aorsmul_i.c:60-191.  `sub` = "sub < 0" (only the sign bit of the C variable is used);
    `plus` = 1 in the C (`MPZ_REALLOC (w, xsize+1)`, `MPZ_REALLOC (w, new_wsize+1)`); `y < B`. -/
def aorsmul_1 (plus : Nat) (s : St) (w x : Nat) (y : Nat) (sub : Bool) : St :=
  let xsize_s := s.SIZ x                                                      -- :69
  if xsize_s == 0 || y == 0 then s                                            -- :70-71
  else
    let sub := sub != decide (xsize_s < 0)                                    -- :73
    let xsize := xsize_s.natAbs                                               -- :74
    let wsize_signed := s.SIZ w                                               -- :76
    if wsize_signed == 0 then                                                 -- :77
      let s := MPZ_REALLOC s w (xsize + plus)                                 -- :80
      let wp := s.PTR w                                                       -- :81
      let (s, cy) := mpn_mul_1 s wp (s.PTR x) xsize y                         -- :82
      let s := s.store wp xsize cy                                            -- :83
      s.setSize w (sgn sub (xsize + (if cy != 0 then 1 else 0)))              -- :84-85
    else
      let sub := sub != decide (wsize_signed < 0)                             -- :89
      let wsize := wsize_signed.natAbs                                        -- :90
      let new_wsize := max wsize xsize                                        -- :92
      let s := MPZ_REALLOC s w (new_wsize + plus)                             -- :93
      let wneg := decide (wsize_signed < 0)
      if !sub then aorsmul_1_add s w x y wneg wsize xsize                     -- :98-132
      else if wsize ≥ xsize then aorsmul_1_sub_ge s w x y wneg wsize xsize    -- :138-154
      else aorsmul_1_sub_lt s w x y wneg wsize xsize                          -- :155-181

def mpz_addmul_ui (s : St) (w x : Nat) (y : Nat) : St := aorsmul_1 1 s w x y false   -- aorsmul_i.c:219
def mpz_submul_ui (s : St) (w x : Nat) (y : Nat) : St := aorsmul_1 1 s w x y true    -- aorsmul_i.c:247

/-! ### mpz_addmul, mpz_submul — mpz/aorsmul.c -/

/-- mpn_mul (rp, xp, xn, yp, yn) into a heap block: reads xp[0,xn), yp[0,yn); writes rp[0, xn+yn); returns the top limb -/
def mpn_mul (s : St) (rp xp : Ptr) (xn : Nat) (yp : Ptr) (yn : Nat) : St × Nat :=
  let t := Mpz.mpn_mul (s.rd xp xn) (s.rd yp yn)
  ((s.chk (s.rdOk xp xn && s.rdOk yp yn)).wr rp t, Mpz.topLimb t)

/-- `tp = TMP_ALLOC_LIMBS (n); high = mpn_mul (tp, xp, xn, yp, yn)`: the block, the checked state, the top limb -/
def mpn_mul_tmp (s : St) (n : Nat) (xp : Ptr) (xn : Nat) (yp : Ptr) (yn : Nat) : Buf × St × Nat :=
  let t := Mpz.mpn_mul (s.rd xp xn) (s.rd yp yn)
  let b := (Buf.new n).write 0 t
  (b.1, s.chk (s.rdOk xp xn && s.rdOk yp yn && b.2), Mpz.topLimb t)

/-- mpn_add (rp, up, un, vp, vn) with `Src` operands (a heap pointer or temporary space) -/
def mpn_add_S (s : St) (rp : Ptr) (up : Src) (un : Nat) (vp : Src) (vn : Nat) : St × Nat :=
  let r := Mpir.add (s.rdS up un) (s.rdS vp vn)
  ((s.chk (s.rdOkS up un && s.rdOkS vp vn)).wr rp r.1, r.2)

def mpn_sub_S (s : St) (rp : Ptr) (up : Src) (un : Nat) (vp : Src) (vn : Nat) : St × Nat :=
  let r := Mpir.sub (s.rdS up un) (s.rdS vp vn)
  ((s.chk (s.rdOkS up un && s.rdOkS vp vn)).wr rp r.1, r.2)

/-- `mpn_cmp_twosizes_lt (xp, xsize, yp, ysize)` (aorsmul.c:27-29); the limbs are compared only when the sizes are equal -/
def cmp_twosizes_lt (s : St) (xp : Src) (xsize : Nat) (yp : Src) (ysize : Nat) : Bool × St :=
  if xsize < ysize then (true, s)
  else if xsize == ysize then
    (decide (Mpir.cmp (s.rdS xp xsize) (s.rdS yp xsize) < 0), s.chk (s.rdOkS xp xsize && s.rdOkS yp xsize))
  else (false, s)

/-- aorsmul.c:63-142 after the swap that makes x the longer operand.  `ra wsize tsize` = the size requested from MPZ_REALLOC
    (`MAX (wsize, tsize) + 1` in the C), `always` = the carry limb is stored whether or not it is zero (the C: yes). -/
def aorsmulCore (ra : Nat → Nat → Nat) (always : Bool) (s : St) (w x y : Nat) (xsize ysize : Int) (sub : Bool) : St :=
  let sub := sub != decide (ysize < 0)                                        -- aorsmul.c:63
  let ysize := ysize.natAbs                                                   -- :64
  if ysize == 1 then                                                          -- :67
    let (y0, s) := s.load (s.PTR y) 0                                         -- :69 PTR(y)[0]
    aorsmul_1 1 s w x y0 sub                                                  -- :69
  else
    let sub := sub != decide (xsize < 0)                                      -- :73
    let xsize := xsize.natAbs                                                 -- :74
    let wsize_signed := s.SIZ w                                               -- :76
    let sub := sub != decide (wsize_signed < 0)                               -- :77
    let wsize := wsize_signed.natAbs                                          -- :78
    let tsize := xsize + ysize                                                -- :80
    let s := MPZ_REALLOC s w (ra wsize tsize)                                 -- :81
    let wp := s.PTR w                                                         -- :82
    if wsize_signed == 0 then                                                 -- :84
      let (s, high) := mpn_mul s wp (s.PTR x) xsize (s.PTR y) ysize           -- :88
      let tsize := tsize - (if high == 0 then 1 else 0)                       -- :89
      s.setSize w (sgn sub tsize)                                             -- :90
    else
      let (tb, s, high) := mpn_mul_tmp s tsize (s.PTR x) xsize (s.PTR y) ysize   -- :95-97
      let tsize := tsize - (if high == 0 then 1 else 0)                       -- :98
      let tp := Src.tmp tb 0
      let wneg := decide (wsize_signed < 0)
      if !sub then                                                            -- :100
        let lt := decide (wsize < tsize)                                      -- :105
        let up := if lt then tp else Src.ptr wp                               -- :102, 107
        let usize := if lt then tsize else wsize                              -- :103, 108
        let tp := if lt then Src.ptr wp else tp                               -- :109
        let tsize := if lt then wsize else tsize                              -- :110
        let (s, c) := mpn_add_S s wp up usize tp tsize                        -- :115
        let s := if always || c != 0 then s.store wp usize c else s           -- :116 wp[wsize] = c
        s.setSize w (sgn wneg (usize + (if c != 0 then 1 else 0)))            -- :117, 140
      else
        let (lt, s) := cmp_twosizes_lt s (Src.ptr wp) wsize tp tsize          -- :124
        let up := if lt then tp else Src.ptr wp                               -- :121, 126
        let usize := if lt then tsize else wsize                              -- :122, 127
        let tp := if lt then Src.ptr wp else tp                               -- :128
        let tsize := if lt then wsize else tsize                              -- :129
        let s := (mpn_sub_S s wp up usize tp tsize).1                         -- :135
        let (wsize, s) := MPN_NORMALIZE s wp usize                            -- :136-137
        s.setSize w (sgn (wneg != lt) wsize)                                  -- :132, 140

/-- aorsmul.c:42-61 -/
def aorsmul (ra : Nat → Nat → Nat) (always : Bool) (s : St) (w x y : Nat) (sub : Bool) : St :=
  let xsize := s.SIZ x                                                        -- aorsmul.c:51
  let ysize := s.SIZ y                                                        -- :52
  if xsize == 0 || ysize == 0 then s                                          -- :53-54
  else if ysize.natAbs > xsize.natAbs then aorsmulCore ra always s w y x ysize xsize sub   -- :57-61
  else aorsmulCore ra always s w x y xsize ysize sub

def mpz_addmul (s : St) (w u v : Nat) : St := aorsmul (fun a b => max a b + 1) true s w u v false   -- aorsmul.c:149
def mpz_submul (s : St) (w u v : Nat) : St := aorsmul (fun a b => max a b + 1) true s w u v true    -- aorsmul.c:155

/-! ### mpz_mul — mpz/mul.c (HAVE_NATIVE_mpn_mul_2 undefined: lines 69-79 are live) -/

/-- mpn_mul (rp, up, un, vp, vn) / mpn_sqr (rp, up, un) with `Src` operands: reads up[0,un), vp[0,vn); writes rp[0, un+vn);
    returns the top limb.  (The operands never overlap the destination: mul.c:118-152 sees to that.) -/
def mpn_mul_S (s : St) (rp : Ptr) (up : Src) (un : Nat) (vp : Src) (vn : Nat) : St × Nat :=
  let t := Mpz.mpn_mul (s.rdS up un) (s.rdS vp vn)
  ((s.chk (s.rdOkS up un && s.rdOkS vp vn)).wr rp t, Mpz.topLimb t)

/-- mul.c:128-130: `w->_mp_alloc = wsize; wp = (*__gmp_allocate_func) (wsize limbs); w->_mp_d = wp;` — a NEW block of exactly
    `n` limbs, contents NOT copied; pointers into the old block dangle unless the old block is kept (`free_me`) -/
def freshBlock (s : St) (w n : Nat) : St :=
  let o := s.h w
  { s with h := upd s.h w ⟨o.size, o.gen + 1, Buf.new n⟩ }

/-- `p = TMP_ALLOC (n limbs); MPN_COPY (p, src, n)` (mul.c:138-143, 148-150) -/
def tmp_copy (s : St) (src : Ptr) (n : Nat) : Buf × St :=
  let b := (Buf.new n).write 0 (s.rd src n)
  (b.1, s.chk (s.rdOk src n && b.2))

/-- mul.c:154-163 -/
def mulTail (s : St) (w : Nat) (up vp : Src) (usize vsize : Nat) (same neg : Bool) : St :=
  let wp := s.PTR w                                                           -- the `wp` of mul.c:129 / 114
  let wsize := usize + vsize                                                  -- :160
  if same && usize == vsize then                                              -- :154 (up == vp) && (usize == vsize)
    let s := (mpn_mul_S s wp up usize up usize).1                             -- :156 mpn_sqr (wp, up, usize)
    let (cy_limb, s) := s.load wp (2 * usize - 1)                             -- :157
    s.setSize w (sgn neg (wsize - (if cy_limb == 0 then 1 else 0)))           -- :161, 163
  else
    let (s, cy_limb) := mpn_mul_S s wp up usize vp vsize                      -- :159
    s.setSize w (sgn neg (wsize - (if cy_limb == 0 then 1 else 0)))           -- :161, 163

/-- mul.c:110-166 after the swap (usize ≥ vsize).  `retain` = the old block of w is kept until the end when it is also an
    operand (`free_me`, mul.c:120-124) — `false` is the WRONG variant that frees it at once. -/
def mulGeneric (retain : Bool) (s : St) (w u v : Nat) (usize vsize : Nat) (neg : Bool) : St :=
  let wsize := usize + vsize
  let up := s.PTR u                                                           -- :112
  let vp := s.PTR v                                                           -- :113
  if s.ALLOC w < wsize then                                                   -- :118
    if (w == u || w == v) && retain then                                      -- :120 wp == up || wp == vp
      let old := (s.h w).buf                                                  -- :122-123 free_me = wp: the block stays alive
      let s := freshBlock s w wsize                                           -- :128-130
      let up := if w == u then Src.tmp old 0 else Src.ptr up
      let vp := if w == v then Src.tmp old 0 else Src.ptr vp
      mulTail s w up vp usize vsize (u == v) neg                              -- :154-165 (the old block is freed at :165)
    else
      let s := freshBlock s w wsize                                           -- :126 free, :128-130
      mulTail s w (Src.ptr up) (Src.ptr vp) usize vsize (u == v) neg
  else if w == u then                                                         -- :135 wp == up
    let (tb, s) := tmp_copy s up usize                                        -- :138, 143
    let vp := if w == v then Src.tmp tb 0 else Src.ptr vp                     -- :140-141
    mulTail s w (Src.tmp tb 0) vp usize vsize (u == v) neg
  else if w == v then                                                         -- :145
    let (tb, s) := tmp_copy s vp vsize                                        -- :148, 150
    mulTail s w (Src.ptr up) (Src.tmp tb 0) usize vsize (u == v) neg
  else mulTail s w (Src.ptr up) (Src.ptr vp) usize vsize (u == v) neg

/-- mpz_mul (w, u, v), mul.c:27-166; `thr` = MUL_KARATSUBA_THRESHOLD; `plus` = 1 in the C (`MPZ_REALLOC (w, usize+1)`) -/
def mul (thr : Nat) (retain : Bool) (plus : Nat) (s : St) (w u v : Nat) : St :=
  let usize := (s.SIZ u).natAbs                                               -- mul.c:42
  let vsize := (s.SIZ v).natAbs                                               -- :43
  let neg := Mpz.diffSign (s.SIZ u) (s.SIZ v)                                 -- :41 sign_product < 0
  if usize == 0 || vsize == 0 then s.setSize w 0                              -- :45-49
  else if vsize == 1 then                                                     -- :69
    let s := MPZ_REALLOC s w (usize + plus)                                   -- :71
    let wp := s.PTR w                                                         -- :72
    let (v0, s) := s.load (s.PTR v) 0                                         -- :73 PTR(v)[0]
    let (s, cy_limb) := mpn_mul_1 s wp (s.PTR u) usize v0                     -- :73
    let s := s.store wp usize cy_limb                                         -- :74
    s.setSize w (sgn neg (usize + (if cy_limb != 0 then 1 else 0)))           -- :75-76
  else
    let wsize := usize + vsize                                                -- :81
    if wsize ≤ thr && w != u && w != v then                                   -- :83
      let s := MPZ_REALLOC s w wsize                                          -- :85
      let wp := s.PTR w                                                       -- :86
      let s :=
        if usize ≥ vsize then (mpn_mul s wp (s.PTR u) usize (s.PTR v) vsize).1   -- :87-96 (sqr_basecase = the same rows)
        else (mpn_mul s wp (s.PTR v) vsize (s.PTR u) usize).1                 -- :98
      let (top, s) := s.load wp (wsize - 1)                                   -- :100
      s.setSize w (sgn neg (wsize - (if top == 0 then 1 else 0)))             -- :100-101
    else if usize < vsize then mulGeneric retain s w v u vsize usize neg      -- :105-109
    else mulGeneric retain s w u v usize vsize neg

def mpz_mul (s : St) (w u v : Nat) : St := mul 17 true 1 s w u v

/-! ### mpz_tdiv_q, mpz_tdiv_r — mpz/tdiv_q.c, mpz/tdiv_r.c
    (the pointer plumbing of the whole division family is also mirrored, at pointer level, by Mpir/Model/AliasMem.lean, part c05_ptr;
    here: the sizes requested from MPZ_REALLOC against the limbs mpn_tdiv_q / mpn_tdiv_qr write) -/

/-- mpn_tdiv_q (qp, np, nl, dp, dl), nl ≥ dl ≥ 1: the contract (C02 `tdiv_q_contract`): reads np[0,nl), dp[0,dl); writes exactly
    the `nl - dl + 1` limbs of the quotient to qp -/
def mpn_tdiv_q_S (s : St) (qp : Ptr) (np : Src) (nl : Nat) (dp : Src) (dl : Nat) : St :=
  let q := toLimbs (nl - dl + 1) (val (s.rdS np nl) / val (s.rdS dp dl))
  (s.chk (s.rdOkS np nl && s.rdOkS dp dl)).wr qp q

/-- `qp = TMP_ALLOC (ql limbs); mpn_tdiv_qr (qp, rp, 0, np, nl, dp, dl)` (tdiv_r.c:63, 87): the contract (C02 `tdiv_qr_contract`):
    writes exactly `nl - dl + 1` quotient limbs (here into the temporary block of `ql` limbs) and `dl` remainder limbs to rp -/
def mpn_tdiv_qr_tmpq (s : St) (ql : Nat) (rp : Ptr) (np : Src) (nl : Nat) (dp : Src) (dl : Nat) : St :=
  let q := toLimbs (nl - dl + 1) (val (s.rdS np nl) / val (s.rdS dp dl))
  let r := toLimbs dl (val (s.rdS np nl) % val (s.rdS dp dl))
  let qb := (Buf.new ql).write 0 q
  (s.chk (s.rdOkS np nl && s.rdOkS dp dl && qb.2)).wr rp r

/-- `if (p == outp) { tp = TMP_ALLOC (n limbs); MPN_COPY (tp, p, n); p = tp; }` (tdiv_q.c:64-78, tdiv_r.c:70-84):
    the operand afterwards and the state (the copy is a checked read) -/
def copyIfSame (same : Bool) (s : St) (p : Ptr) (n : Nat) : Src × St :=
  if same then (Src.tmp (tmp_copy s p n).1 0, (tmp_copy s p n).2) else (Src.ptr p, s)

/-- mpz_tdiv_q (quot, num, den), tdiv_q.c:30-87; `none` = DIVIDE_BY_ZERO.  `ql - minus` = the size requested from MPZ_REALLOC
    (`ql` in the C: minus = 0). -/
def tdiv_q (minus : Nat) (s : St) (quot num den : Nat) : Option St :=
  let ns := s.SIZ num                                                         -- tdiv_q.c:37
  let ds := s.SIZ den                                                         -- :38
  let nl := ns.natAbs                                                         -- :39
  let dl := ds.natAbs                                                         -- :40
  if dl == 0 then none                                                        -- :43-44
  else if nl + 1 ≤ dl then some (s.setSize quot 0)                            -- :41, 46-50 ql <= 0
  else
    let ql := nl - dl + 1                                                     -- :41
    let s := MPZ_REALLOC s quot (ql - minus)                                     -- :52
    let qp := s.PTR quot                                                      -- :55
    let np := s.PTR num                                                       -- :56
    let dp := s.PTR den                                                       -- :57
    let cd := copyIfSame (den == quot) s dp dl                                -- :64-70 dp == qp
    let cn := copyIfSame (num == quot) cd.2 np nl                             -- :72-78 np == qp
    let s := mpn_tdiv_q_S cn.2 qp cn.1 nl cd.1 dl                             -- :81
    let (top, s) := s.load qp (ql - 1)                                        -- :83
    some (s.setSize quot (sgn (Mpz.diffSign ns ds) (ql - (if top == 0 then 1 else 0))))   -- :83, 85

def mpz_tdiv_q (s : St) (quot num den : Nat) : Option St := tdiv_q 0 s quot num den

/-- mpz_tdiv_r (rem, num, den), tdiv_r.c:30-93; `dl - minus` = the size requested from MPZ_REALLOC (`dl` in the C) -/
def tdiv_r (minus : Nat) (s : St) (rem num den : Nat) : Option St :=
  let ns := s.SIZ num                                                         -- tdiv_r.c:37
  let ds := s.SIZ den                                                         -- :38
  let nl := ns.natAbs                                                         -- :39
  let dl := ds.natAbs                                                         -- :40
  if dl == 0 then none                                                        -- :43-44
  else
    let s := MPZ_REALLOC s rem (dl - minus)                                      -- :46
    if nl + 1 ≤ dl then                                                       -- :48 ql <= 0
      if num != rem then                                                      -- :50
        let s := MPN_COPY s (s.PTR rem) (s.PTR num) nl                        -- :53-55
        some (s.setSize rem ns)                                               -- :56
      else some s
    else
      let ql := nl - dl + 1                                                   -- :41
      let rp := s.PTR rem                                                     -- :64
      let np := s.PTR num                                                     -- :65
      let dp := s.PTR den                                                     -- :66
      let cd := copyIfSame (den == rem) s dp dl                               -- :73-79 dp == rp
      let cn := copyIfSame (num == rem) cd.2 np nl                            -- :81-87 np == rp
      let s := mpn_tdiv_qr_tmpq cn.2 ql rp cn.1 nl cd.1 dl                    -- :63, 89
      let (dl', s) := MPN_NORMALIZE s rp dl                                   -- :91
      some (s.setSize rem (sgn (ns < 0) dl'))                                 -- :93

def mpz_tdiv_r (s : St) (rem num den : Nat) : Option St := tdiv_r 0 s rem num den

/-! ### mpz_tdiv_qr — mpz/tdiv_qr.c (two destinations; quot and rem must be different variables) -/

/-- mpn_tdiv_qr (qp, rp, 0, np, nl, dp, dl): the contract (C02 `tdiv_qr_contract`): reads np[0,nl), dp[0,dl); writes exactly
    `nl - dl + 1` quotient limbs to qp and `dl` remainder limbs to rp -/
def mpn_tdiv_qr_S (s : St) (qp rp : Ptr) (np : Src) (nl : Nat) (dp : Src) (dl : Nat) : St :=
  let q := toLimbs (nl - dl + 1) (val (s.rdS np nl) / val (s.rdS dp dl))
  let r := toLimbs dl (val (s.rdS np nl) % val (s.rdS dp dl))
  ((s.chk (s.rdOkS np nl && s.rdOkS dp dl)).wr qp q).wr rp r

/-- mpz_tdiv_qr (quot, rem, num, den), tdiv_qr.c:30-102; `none` = DIVIDE_BY_ZERO.  `ql - qminus`, `dl - rminus` = the sizes
    requested from MPZ_REALLOC (`ql`, `dl` in the C). -/
def tdiv_qr (qminus rminus : Nat) (s : St) (quot rem num den : Nat) : Option St :=
  let ns := s.SIZ num                                                         -- tdiv_qr.c:37
  let ds := s.SIZ den                                                         -- :38
  let nl := ns.natAbs                                                         -- :39
  let dl := ds.natAbs                                                         -- :40
  if dl == 0 then none                                                        -- :43-44
  else
    let s := MPZ_REALLOC s rem (dl - rminus)                                  -- :46
    if nl + 1 ≤ dl then                                                       -- :48 ql <= 0
      let s :=
        if num != rem then                                                    -- :50
          (MPN_COPY s (s.PTR rem) (s.PTR num) nl).setSize rem ns              -- :53-56
        else s
      some (s.setSize quot 0)                                                 -- :60 "needs to follow the assignment to rem"
    else
      let ql := nl - dl + 1                                                   -- :41
      let s := MPZ_REALLOC s quot (ql - qminus)                               -- :64
      let qp := s.PTR quot                                                    -- :67
      let rp := s.PTR rem                                                     -- :68
      let np := s.PTR num                                                     -- :69
      let dp := s.PTR den                                                     -- :70
      let cd := copyIfSame (den == rem || den == quot) s dp dl                -- :77-84 dp == rp || dp == qp
      let cn := copyIfSame (num == rem || num == quot) cd.2 np nl             -- :86-93 np == rp || np == qp
      let s := mpn_tdiv_qr_S cn.2 qp rp cn.1 nl cd.1 dl                       -- :95
      let (top, s) := s.load qp (ql - 1)                                      -- :97
      let (dl', s) := MPN_NORMALIZE s rp dl                                   -- :98
      let s := s.setSize quot (sgn (Mpz.diffSign ns ds) (ql - (if top == 0 then 1 else 0)))   -- :100
      some (s.setSize rem (sgn (ns < 0) dl'))                                 -- :101

def mpz_tdiv_qr (s : St) (quot rem num den : Nat) : Option St := tdiv_qr 0 0 s quot rem num den

/-! ### mpz_sqrt — mpz/sqrt.c -/

/-- mpn_sqrtrem (sp, NULL, np, nn), np[nn-1] != 0: the contract: reads np[0,nn); writes the (nn+1)/2 limbs of ⌊√N⌋ to sp -/
def mpn_sqrt_S (s : St) (sp : Ptr) (np : Src) (nn : Nat) : St :=
  (s.chk (s.rdOkS np nn)).wr sp (toLimbs ((nn + 1) / 2) (Nat.sqrt (val (s.rdS np nn))))

/-- sqrt.c:81-83 -/
def sqrtTail (s : St) (root : Nat) (op : Src) (op_size root_size : Nat) : St :=
  let s := mpn_sqrt_S s (s.PTR root) op op_size                               -- :81
  s.setSize root root_size                                                    -- :83

/-- mpz_sqrt (root, op), sqrt.c:27-88; `none` = SQRT_OF_NEGATIVE.  `retain` = the old block of root is kept until the end when
    it is also op (`free_me`, sqrt.c:55-59). -/
def sqrt_ (retain : Bool) (s : St) (root op : Nat) : Option St :=
  let op_size := s.SIZ op                                                     -- sqrt.c:36
  if op_size ≤ 0 then                                                         -- :37
    if op_size < 0 then none                                                  -- :39-40
    else some (s.setSize root 0)                                              -- :41-42
  else
    let n := op_size.natAbs
    let root_size := (n + 1) / 2                                              -- :46 "accurate after this simple calculation"
    let op_ptr := s.PTR op                                                    -- :49
    if s.ALLOC root < root_size then                                          -- :51
      if root == op && retain then                                            -- :53 root_ptr == op_ptr
        let old := (s.h root).buf                                             -- :55-56 free_me
        some (sqrtTail (freshBlock s root root_size) root (Src.tmp old 0) n root_size)   -- :61-63
      else some (sqrtTail (freshBlock s root root_size) root (Src.ptr op_ptr) n root_size)   -- :59, 61-63
    else if root == op then                                                   -- :68
      let c := tmp_copy s op_ptr n                                            -- :71-74
      some (sqrtTail c.2 root (Src.tmp c.1 0) n root_size)
    else some (sqrtTail s root (Src.ptr op_ptr) n root_size)

def mpz_sqrt (s : St) (root op : Nat) : Option St := sqrt_ true s root op

/-! ### mpz_sqrtrem — mpz/sqrtrem.c (two destinations; root and rem different variables) -/

/-- mpn_sqrtrem (sp, rp, np, nn), np[nn-1] != 0: the contract: reads np[0,nn) (rp may be np), writes the (nn+1)/2 limbs of
    ⌊√N⌋ to sp and the remainder N - ⌊√N⌋² within rp[0, nn) ("rp needs space for nn limbs"); returns the remainder's size -/
def mpn_sqrtrem_S (s : St) (sp rp : Ptr) (np : Src) (nn : Nat) : St × Nat :=
  let N := val (s.rdS np nn)
  let m := toLimbs nn (N - Nat.sqrt N * Nat.sqrt N)
  (((s.chk (s.rdOkS np nn)).wr sp (toLimbs ((nn + 1) / 2) (Nat.sqrt N))).wr rp m, (Mpir.normalize m).length)

/-- sqrtrem.c:84-91 -/
def sqrtremTail (s : St) (root rem : Nat) (op : Src) (op_size root_size : Nat) : St :=
  let r := mpn_sqrtrem_S s (s.PTR root) (s.PTR rem) op op_size                -- :84 (rem->_mp_d fetched here)
  let s := r.1.setSize root root_size                                         -- :86
  s.setSize rem r.2                                                           -- :91 "Write remainder size last"

/-- mpz_sqrtrem (root, rem, op), sqrtrem.c:29-96; `none` = SQRT_OF_NEGATIVE; `rminus` = 0 in the C (`_mpz_realloc (rem, op_size)`) -/
def sqrtrem (rminus : Nat) (s : St) (root rem op : Nat) : Option St :=
  let op_size := s.SIZ op                                                     -- sqrtrem.c:38
  if op_size ≤ 0 then                                                         -- :39
    if op_size < 0 then none                                                  -- :41-42
    else some ((s.setSize root 0).setSize rem 0)                              -- :43-45
  else
    let n := op_size.natAbs
    let s := MPZ_REALLOC s rem (n - rminus)                                   -- :48-49
    let root_size := (n + 1) / 2                                              -- :52
    let op_ptr := s.PTR op                                                    -- :55 (after the reallocation of rem)
    if s.ALLOC root < root_size then                                          -- :57
      if root == op then                                                      -- :59 root_ptr == op_ptr
        let old := (s.h root).buf                                             -- :61-62 free_me
        some (sqrtremTail (freshBlock s root root_size) root rem (Src.tmp old 0) n root_size)
      else some (sqrtremTail (freshBlock s root root_size) root rem (Src.ptr op_ptr) n root_size)   -- :65-69
    else if root == op then                                                   -- :74
      let c := tmp_copy s op_ptr n                                            -- :77-80
      some (sqrtremTail c.2 root rem (Src.tmp c.1 0) n root_size)
    else some (sqrtremTail s root rem (Src.ptr op_ptr) n root_size)

def mpz_sqrtrem (s : St) (root rem op : Nat) : Option St := sqrtrem 0 s root rem op

/-! ### mpz_set_d — mpz/set_d.c (LIMBS_PER_DOUBLE = 2) -/

/-- mpz_set_d (r, d), set_d.c:38-108; `d` = the 64-bit pattern of the double; `none` = __gmp_invalid_operation (NaN, Inf).
    `rn - minus` = the size requested (`rn` in the C: `if (ALLOC(r) < rn) _mpz_realloc (r, rn)`). -/
def set_d (minus : Nat) (s : St) (r : Nat) (d : Nat) : Option St :=
  if Conv.isNaN d || Conv.isInf d then none                                   -- set_d.c:46-48
  else
    let negative := Conv.isNeg d                                              -- :50
    let t := Conv.extract_double (Conv.absBits d)                             -- :53 rn = __gmp_extract_double (tp, d)
    let rn := t.2.2.toNat                                                     -- :58-59 `if (rn <= 0) rn = 0`
    let s := MPZ_REALLOC s r (rn - minus)                                     -- :55-56
    let rp := s.PTR r                                                         -- :61
    let s :=
      if rn == 0 then s                                                       -- :103 case 0
      else if rn == 1 then s.store rp 0 t.2.1                                 -- :74-76 case 1: rp[0] = tp[1]
      else
        let s := MPN_ZERO s rp (rn - 2)                                       -- :66 default: MPN_ZERO (rp, rn - 2)
        let s := s.store rp (rn - 2 + 1) t.2.1                                -- :71 rp[1] = tp[1] (rp += rn - 2)
        s.store rp (rn - 2) t.1                                               -- :71 rp[0] = tp[0]
    some (s.setSize r (sgn negative rn))                                      -- :107

def mpz_set_d (s : St) (r : Nat) (d : Nat) : Option St := set_d 0 s r d

/-! ### mpq_inv — mpq/inv.c (an `mpq_t` is its two `mpz_t` fields: two variable ids; dest == src ↔ the same ids) -/

/-- mpq_inv (dest, src), inv.c:26-69; dest = (dn, dd), src = (sn, sd); `none` = DIVIDE_BY_ZERO.  In place the two blocks are
    exchanged (alloc and pointer fields swapped, inv.c:47-55); otherwise `_mpz_realloc` of both fields — after their sizes have
    already been stored (inv.c:39-40) — and two copies. -/
def mpq_inv (s : St) (dn dd sn sd : Nat) : Option St :=
  let num_size := s.SIZ sn                                                    -- inv.c:28
  let den_size := s.SIZ sd                                                    -- :29
  if num_size == 0 then none                                                  -- :31-32
  else
    let neg := decide (num_size < 0)                                          -- :34
    let num_size := if neg then -num_size else num_size                       -- :36
    let den_size := if neg then -den_size else den_size                       -- :37
    let s := s.setSize dd num_size                                            -- :39
    let s := s.setSize dn den_size                                            -- :40
    if dn == sn then                                                          -- :45 dest == src
      let on := s.h dn
      let od := s.h dd
      some { s with h := upd (upd s.h dn ⟨on.size, on.gen + 1, od.buf⟩) dd ⟨od.size, od.gen + 1, on.buf⟩ }   -- :47-54
    else
      let den_size := den_size.natAbs                                         -- :58
      let s := MPZ_REALLOC s dn den_size                                      -- :59-60
      let s := MPZ_REALLOC s dd num_size.natAbs                               -- :62-63
      let s := MPN_COPY s (s.PTR dn) (s.PTR sd) den_size                      -- :65
      let s := MPN_COPY s (s.PTR dd) (s.PTR sn) num_size.natAbs               -- :66
      some s

/-! ### mpf: a destination of `PREC + 1` limbs that is never reallocated — mpf/urandomb.c

    An `mpf_t` owns a block of `_mp_prec + 1` limbs (mpf/init2.c) for its whole life; every function must keep its stores inside
    it.  One variable is enough here (mpf_urandomb has no mpf operand besides the destination). -/

/-- an `mpf_t`: `_mp_prec`, `_mp_size`, `_mp_exp`, and the block `_mp_d` points to -/
structure FObj where
  prec : Nat
  size : Int
  exp : Int
  buf : Buf
  deriving Repr, DecidableEq

structure FSt where
  o : FObj
  ok : Bool

/-- store `l` to rp[off, off + |l|) -/
def FSt.wr (s : FSt) (off : Nat) (l : List Nat) : FSt :=
  let r := s.o.buf.write off l
  { o := { s.o with buf := r.1 }, ok := s.ok && r.2 }

/-- the limbs rp[0, n), and the state with the access checked -/
def FSt.rd (s : FSt) (n : Nat) : List Nat × FSt :=
  let r := s.o.buf.read 0 n
  (r.1, { s with ok := s.ok && r.2 })

/-- an mpf_t as mpf_init2 leaves it: `prec + 1` limbs (uninitialised), value 0 -/
def mkF (prec : Nat) : FSt := ⟨⟨prec, 0, 0, Buf.new (prec + 1)⟩, true⟩

/-- mpf/urandomb.c:50-58: `while (nlimbs != 0 && rp[nlimbs - 1] == 0) { nlimbs--; exp--; }` (reads rp[nlimbs - 1] downwards),
    `EXP (rop) = (nlimbs == 0 ? 0 : exp); SIZ (rop) = nlimbs` -/
def mpf_urandomb_fin (s : FSt) (nlimbs : Nat) : FSt :=
  let r := s.rd nlimbs
  let q := Rand.mpfStrip r.1
  { r.2 with o := { r.2.o with exp := if q.1.length = 0 then 0 else q.2, size := q.1.length } }

/-- mpf/urandomb.c:48-49: `if (nbits % GMP_NUMB_BITS != 0) mpn_lshift (rp, rp, nlimbs, GMP_NUMB_BITS - nbits % GMP_NUMB_BITS)` -/
def mpf_urandomb_shift (s : FSt) (nlimbs nbits : Nat) : FSt :=
  if nbits % 64 ≠ 0 then
    let r := s.rd nlimbs
    r.2.wr 0 (toLimbs nlimbs ((val r.1 <<< (64 - nbits % 64)) % 2 ^ (64 * nlimbs)))
  else s

/-- mpf_urandomb (rop, rstate, nbits), mpf/urandomb.c:28-60.  `pplus` = 0 in the C (`prec = PREC (rop)`); 1 is the seeded
    variant `prec = PREC (rop) + 1`.  `_gmp_rand (rp, rstate, nbits)` stores the BITS_TO_LIMBS (nbits) limbs of the generator's
    draw (C19's models of the generators, Mpir/Model/Rand.lean). -/
def mpf_urandomb (pplus : Nat) (s : FSt) (g : Rand.Gen) (nbits : Nat) : FSt × Rand.Gen :=
  let nlimbs0 := Rand.bitsToLimbs nbits                                       -- urandomb.c:36
  let prec := s.o.prec + pplus                                                -- :37
  let big := nlimbs0 > prec + 1 || nlimbs0 == 0                               -- :39
  let nlimbs := if big then prec + 1 else nlimbs0                             -- :41
  let nbits := if big then nlimbs * 64 else nbits                             -- :42
  let p := g.get nbits
  let s := s.wr 0 (toLimbs nlimbs (p.1 % 2 ^ (64 * nlimbs)))                  -- :45 _gmp_rand (rp, rstate, nbits)
  let s := mpf_urandomb_shift s nlimbs nbits                                  -- :48-49
  (mpf_urandomb_fin s nlimbs, p.2)                                            -- :50-58

/-- what the harness prints of an mpf_t: limbs of the block, SIZ, EXP, the |SIZ| limbs -/
def FSt.out (s : FSt) : Nat × Rand.MpfOut := (s.o.buf.alloc, ⟨s.o.size.natAbs, s.o.exp, s.o.buf.limbs.take s.o.size.natAbs⟩)

end Mpir.AllocSafe
