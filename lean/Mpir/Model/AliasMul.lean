/-
  C05 (aliasing), pointer level, part c05_ptr2: mpz_mul and mpz_addmul / mpz_submul on the memory model of
  Mpir/Model/AliasMem.lean.  Core Lean only (linked into the driver).

  mpz_mul is the one mpz function that manages the destination block by hand: when `w` is too small it does not
  call `_mpz_realloc` (which would copy limbs nobody needs) but frees the block and allocates a new one — unless
  the block is also an operand (`w == u` or `w == v`), in which case the release is postponed until after the
  multiplication (`free_me`, mul.c:118-131, :164-165).  When `w` is large enough and is an operand, the operand is
  copied to TMP space first (:133-152) because mpn_mul does not allow the product to overlap a factor.
-/
import Mpir.Model.AliasMem
namespace Mpir.AliasMem
open Mpir
open Mpir.DivZ (sizeNat siz sameSign)

/-- `PTR (v) = (*__gmp_allocate_func) (n limbs); ALLOC (v) = n` (mul.c:128-130) WITHOUT releasing the old block:
    a new block with junk contents, SIZ untouched, the old block stays live (it is `free_me`, or has been freed
    by the caller just before). -/
def St.newBlock (s : St) (v n : Nat) : St :=
  let r := s.malloc (List.replicate n junk)
  r.2.setVar v { alloc := n, size := s.size v, ptr := r.1 }

/-- mpn_mul_1 (rp, up, n, vl): mpn/generic/mul_1.c ASSERTs `n >= 1`, `MPN_SAME_OR_INCR_P (rp, up, n)`: `rp == up` is
    allowed.  Stores n limbs, returns the carry limb. -/
def mpn_mul_1 (rp up n vl : Nat) (s : St) : R (Nat × St) := do
  if ¬ (1 ≤ n ∧ vl < B) then throw "ub:mpn_mul_1 arguments"
  let u ← s.load up n
  let s ← s.store rp (toLimbs n (val u * vl))
  pure (val u * vl / B ^ n, s)

/-- mpn_mul (wp, up, un, vp, vn) (mpn/generic/mul.c:56-60: `un >= vn`, `vn >= 1`, `! MPN_OVERLAP_P (prodp, un+vn, up, un)`,
    `! MPN_OVERLAP_P (prodp, un+vn, vp, vn)`), mpn_mul_basecase (mul_basecase.c, same ASSERTs) and mpn_sqr (`up == vp`):
    the product may not overlap a factor; the factors may be the same block.  Stores un+vn limbs, returns the most
    significant one. -/
def mpn_mul (wp up un vp vn : Nat) (s : St) : R (Nat × St) := do
  if wp = up ∨ wp = vp then throw "ub:mpn_mul product overlaps a factor"
  let u ← s.load up un
  let v ← s.load vp vn
  if ¬ (1 ≤ vn ∧ vn ≤ un) then throw "ub:mpn_mul sizes"
  let s ← s.store wp (toLimbs (un + vn) (val u * val v))
  pure (val u * val v / B ^ (un + vn - 1), s)

/-- the C as it is, and plausible wrong versions for the negative examples -/
structure MulVariant where
  copyOperand : Bool := true   -- mul.c:133-152 "Make U and V not overlap with W"
  deferFree : Bool := true     -- mul.c:120-124 / :164-165: an operand's block is released only after the product
  smallGuard : Bool := true    -- mul.c:83 `(w != u) && (w != v)` in front of the basecase shortcut
  deriving Repr

def MulVariant.c : MulVariant := {}

/-- MUL_KARATSUBA_THRESHOLD of the build under test (gmp-mparam.h:3) -/
def mulKaratsubaThreshold : Nat := 17

/-- mul.c:111-152, after the swap that makes `usize >= vsize`: "Ensure W has space enough to store the result" (by hand:
    free + allocate, the release postponed when the block is an operand) or else "Make U and V not overlap with W".
    Returns (wp, up, vp, free_me, TMP blocks, state). -/
def mulPrep (V : MulVariant) (w u v usize vsize : Nat) (s : St) : R (Nat × Nat × Nat × List Nat × List Nat × St) :=
  let wsize := usize + vsize
  let up := s.ptr u                                           -- :113
  let vp := s.ptr v                                           -- :114
  let wp := s.ptr w                                           -- :115
  if s.alloc w < wsize then                                   -- :118
    let isOp : Bool := wp = up ∨ wp = vp                      -- :120
    let keep : Bool := isOp ∧ V.deferFree                     -- :122-123 free_me = wp
    let s := if keep then s else s.free wp                    -- :126
    let s := s.newBlock w wsize                               -- :128-130
    pure (s.ptr w, up, vp, (if keep then [wp] else []), ([] : List Nat), s)
  else if V.copyOperand ∧ wp = up then do                     -- :135
    let r ← s.tmpCopy wp usize                                -- :138, :143
    pure (wp, r.1, (if wp = vp then r.1 else vp), [], [r.1], r.2)       -- :140-141
  else if V.copyOperand ∧ wp = vp then do                     -- :145
    let r ← s.tmpCopy wp vsize                                -- :148-150
    pure (wp, up, r.1, [], [r.1], r.2)
  else pure (wp, up, vp, [], [], s)

/-- mul.c:111-166 -/
def mulBig (V : MulVariant) (w u v usize vsize : Nat) (neg : Bool) (s : St) : R St := do
  let wsize := usize + vsize
  let (wp, up, vp, freeMe, tmp, s) ← mulPrep V w u v usize vsize s
  let r ← mpn_mul wp up usize vp vsize s                      -- :154-159 (mpn_sqr when up == vp and the sizes agree)
  let n := wsize - (if r.1 = 0 then 1 else 0)                 -- :160-161
  let s := r.2.setSize w (if neg then -(n : Int) else (n : Int))   -- :163
  let s := freeMe.foldl St.free s                             -- :164-165
  pure (tmp.foldl St.free s)                                  -- :166 TMP_FREE

/-- mul.c:69-78 (`vsize == 1`): mpn_mul_1 may work in place (w = u); `PTR (u)` and `PTR (v)[0]` are fetched after the
    reallocation of w (w = v: the one limb of v is read from the moved block before mpn_mul_1 overwrites it) -/
def mulOne (w u v usize : Nat) (neg : Bool) (s : St) : R St := do
  let s := s.mpzRealloc w (usize + 1)                         -- :71
  let wp := s.ptr w                                           -- :72
  let vl ← limbAt s (s.ptr v) 0                               -- :73 PTR(v)[0]
  let r ← mpn_mul_1 wp (s.ptr u) usize vl s                   -- :73
  let s ← r.2.storeAt wp usize [r.1]                          -- :74 wp[usize] = cy_limb
  let n := usize + (if r.1 ≠ 0 then 1 else 0)                 -- :75
  pure (s.setSize w (if neg then -(n : Int) else (n : Int)))  -- :76

/-- mpz_mul (w, u, v): mpz/mul.c:30-166 (HAVE_NATIVE_mpn_mul_2 undefined: the `vsize == 1` arm :69-78 is compiled;
    HAVE_NATIVE_mpn_sqr_basecase defined: :90-91 — same contract as mpn_mul_basecase). -/
def mpz_mulV (V : MulVariant) (w u v : Nat) (s : St) : R St := do
  let us := s.size u                                          -- mul.c:30
  let vs := s.size v                                          -- :31
  let neg : Bool := !(sameSign us vs)                         -- :41 sign_product = usize ^ vsize  (< 0 iff the signs differ)
  let usize := us.natAbs                                      -- :42
  let vsize := vs.natAbs                                      -- :43
  if usize = 0 ∨ vsize = 0 then pure (s.setSize w 0)          -- :45-49
  else if vsize = 1 then mulOne w u v usize neg s             -- :69-78
  else
    let wsize := usize + vsize                                -- :81
    if wsize ≤ mulKaratsubaThreshold ∧ (V.smallGuard → w ≠ u ∧ w ≠ v) then do   -- :83
      let s := s.mpzRealloc w wsize                           -- :85
      let wp := s.ptr w                                       -- :86
      let r ← (if vsize ≤ usize then mpn_mul wp (s.ptr u) usize (s.ptr v) vsize s   -- :87-96
               else mpn_mul wp (s.ptr v) vsize (s.ptr u) usize s)                   -- :98
      let n := wsize - (if r.1 = 0 then 1 else 0)             -- :100 wsize -= (wp[wsize - 1] == 0)
      pure (r.2.setSize w (if neg then -(n : Int) else (n : Int)))   -- :101
    else if usize < vsize then mulBig V w v u vsize usize neg s      -- :105-109 MPZ_SRCPTR_SWAP, MP_SIZE_T_SWAP
    else mulBig V w u v usize vsize neg s

def mpz_mul := mpz_mulV .c

end Mpir.AliasMem
