/-
  FFT ring layer (property C01): arithmetic in Z/(2^(64·limbs)+1) and the bit splitting/recombination of
  the Schönhage–Strassen code in /repo/fft.  Core Lean only (linked into the driver).

  A residue is a vector of `limbs+1` limbs; the top limb is a small SIGNED value (`mp_limb_signed_t`).
  Limbs are `Nat < B`; the signed reading is explicit (`sint`), C's unsigned arithmetic is `% B`.
  `rval x = val(low limbs) + B^limbs · sint(top)`; everything is meant modulo `pmod limbs = B^limbs + 1`.

  Mirrored statement by statement (tie: ops `fft_*` in Mpir/Ops/FftRing.lean ↔ harness/ops_fft.c):
    gmp-impl.h:1123-1136      mpn_addmod_2expp1_1            addmod1
    fft/normmod_2expp1.c      mpn_normmod_2expp1             normmod
    fft/mul_2expmod_2expp1.c  mpn_mul_2expmod_2expp1         mul_2expmod
    fft/div_2expmod_2expp1.c  mpn_div_2expmod_2expp1         div_2expmod
    fft/adjust.c              mpir_fft_adjust                adjust   (limb rotation: mulBx)
    fft/adjust_sqrt2.c        mpir_fft_adjust_sqrt2          adjust_sqrt2
    mpn/generic/sumdiff_n.c   mpn_sumdiff_n                  sumdiff_n
    fft/butterfly_lshB.c      mpir_butterfly_lshB            butterfly_lshB   (no native nsumdiff_n in this build)
    fft/butterfly_rshB.c      mpir_butterfly_rshB            butterfly_rshB
    fft/fft_radix2.c:34-45    mpir_fft_butterfly             fft_butterfly
    fft/ifft_radix2.c:34-46   mpir_ifft_butterfly            ifft_butterfly
    fft/fft_trunc_sqrt2.c:34-75   mpir_fft_butterfly_sqrt2   fft_butterfly_sqrt2
    fft/ifft_trunc_sqrt2.c:34-78  mpir_ifft_butterfly_sqrt2  ifft_butterfly_sqrt2
    fft/fft_mfa_trunc_sqrt2.c:34-63, ifft_mfa_trunc_sqrt2.c:34-63   the twiddle butterflies
    fft/split_bits.c          mpir_fft_split_limbs/_bits     split_limbs, split_bits
    fft/combine_bits.c        mpir_fft_combine_limbs/_bits   combine_limbs, combine_bits
    mpn/generic/mulmod_2expp1_basecase.c   mpn_mulmod_2expp1_basecase (non-FFT branch)   mulmod_2expp1_basecase
    mpn/generic/mulmod_bexpp1.c            mpn_mulmod_Bexpp1 (limbs ≤ FFT_MULMOD_2EXPP1_CUTOFF) mulmod_Bexpp1
-/
import Mpir.Model.Kernels
namespace Mpir.Fft
open Mpir

/-! ### signed limbs -/

/-- `(mp_limb_signed_t) t` -/
def sint (t : Nat) : Int := if t < B / 2 then (t : Int) else (t : Int) - (B : Int)
/-- the limb holding the integer `z` in two's complement -/
def ofInt (z : Int) : Nat := (z % (B : Int)).toNat
/-- unsigned `-c` -/
def lneg (c : Nat) : Nat := (B - c) % B
/-- unsigned `a + b` -/
def ladd (a b : Nat) : Nat := (a + b) % B
/-- unsigned `a - b` -/
def lsub (a b : Nat) : Nat := (a + B - b) % B
/-- `(mp_limb_signed_t) t >> k`, GCC's arithmetic shift (the files carry the warning
    "relies on GCC's handling of >> as arithmetic shift right") -/
def sar (t k : Nat) : Nat := ofInt (sint t / 2 ^ k)

/-- the low `limbs` limbs of a residue -/
def lo (x : List Nat) : List Nat := x.take (x.length - 1)
/-- `x[limbs]` -/
def top (x : List Nat) : Nat := x.getD (x.length - 1) 0
/-- `x[limbs] = v` -/
def setTop (x : List Nat) (v : Nat) : List Nat := x.take (x.length - 1) ++ [v]
/-- limbs `[a, b)` -/
def sl (x : List Nat) (a b : Nat) : List Nat := (x.drop a).take (b - a)

/-- value of a residue: low limbs unsigned, top limb signed -/
def rval (x : List Nat) : Int := (val (lo x) : Int) + (B : Int) ^ (x.length - 1) * sint (top x)
/-- the modulus 2^(64·n) + 1 -/
def pmod (n : Nat) : Int := (B : Int) ^ n + 1

/-! ### mpn_addmod_2expp1_1 (gmp-impl.h:1123-1136): r += (signed) c over limbs+1 limbs -/

def addmod1 (r : List Nat) (c : Nat) : List Nat :=
  match r with
  | [] => []
  | r0 :: rs =>
    let sum := (r0 + c) % B                       -- 1125
    if (sum ^^^ r0) < B / 2 then sum :: rs        -- 1127-1128: (mp_limb_signed_t)(__sum ^ r[0]) >= 0
    else if c < B / 2 then (add_1 (r0 :: rs) c).1 -- 1131
    else (sub_1 (r0 :: rs) (lneg c)).1            -- 1133

/-! ### mpn_normmod_2expp1 (normmod_2expp1.c:33-52) -/

def normmod (t : List Nat) : List Nat :=
  let hi := top t                                  -- :34
  if hi ≠ 0 then
    let t := setTop t 0                            -- :38
    let t := addmod1 t (lneg hi)                   -- :39
    let hi := top t                                -- :41
    if hi ≠ 0 then
      let t := setTop t 0                          -- :43
      let t := addmod1 t (lneg hi)                 -- :44
      if top t = B - 1 then                        -- :45
        let t := setTop t 0                        -- :47
        addmod1 t 1                                -- :48
      else t
    else t
  else t

/-! ### mpn_mul_2expmod_2expp1 (mul_2expmod_2expp1.c:35-53), d < 64 -/

def mul_2expmod (i1 : List Nat) (d : Nat) : List Nat :=
  if d = 0 then i1                                 -- :39-42
  else
    let hi1 := sar (top i1) (64 - d)               -- :45
    let t := (lshift i1 d).1                       -- :46
    let hi2 := top t                               -- :47
    let t := setTop t 0                            -- :48
    let t := (sub_1 t hi2).1                       -- :49
    t.take 1 ++ addmod1 (t.drop 1) (lneg hi1)      -- :50  (t + 1, limbs - 1)

/-! ### mpn_div_2expmod_2expp1 (div_2expmod_2expp1.c:36-54), d < 64 -/

def div_2expmod (i1 : List Nat) (d : Nat) : List Nat :=
  if d = 0 then i1                                 -- :42-45
  else
    let limbs := i1.length - 1
    let hi := top i1                               -- :48
    let (t, lo) := rshift i1 d                     -- :49
    let t := setTop t (sar hi d)                   -- :50
    -- :51-52 sub_ddmmss(ptr[1], ptr[0], ptr[1], ptr[0], 0, lo) with ptr = t + limbs - 1
    let p0 := t.getD (limbs - 1) 0
    let p1 := t.getD limbs 0
    let r0 := lsub p0 lo
    let r1 := lsub p1 (boolToNat (p0 < lo))
    t.take (limbs - 1) ++ [r0, r1]

/-! ### multiplication by B^x: the limb rotation of adjust.c:41-46 (also adjust_sqrt2.c:57-61, 70-74,
    fft_trunc_sqrt2.c:61-65, ifft_trunc_sqrt2.c:59-63).  With x = 0 the `if (y)` guarded negation is skipped
    (cy = 0), which `neg_n []` reproduces. -/

def mulBx (i1 : List Nat) (x : Nat) : List Nat :=
  let limbs := i1.length - 1
  let (rlo, cy) := neg_n (sl i1 (limbs - x) limbs)              -- cy = mpn_neg_n(r, i1 + limbs - x, x)
  let rhi := i1.take (limbs - x) ++ [0]                          -- mpn_copyi(r + x, i1, limbs - x); r[limbs] = 0
  let rhi := addmod1 rhi (lneg (top i1))                         -- mpn_addmod_2expp1_1(r + x, limbs - x, -i1[limbs])
  let rhi := (sub_1 rhi cy).1                                    -- mpn_sub_1(r + x, r + x, limbs - x + 1, cy)
  rlo ++ rhi

/-! ### mpir_fft_adjust (adjust.c:31-55): r = i1 · 2^(i·w) -/

def adjust (i1 : List Nat) (i w : Nat) : List Nat :=
  let b1 := i * w                                  -- :37
  let x := b1 / 64                                 -- :38
  let b1 := b1 % 64                                -- :39
  if x ≠ 0 then mul_2expmod (mulBx i1 x) b1        -- :40-49
  else mul_2expmod i1 b1                           -- :51

/-! ### mpir_fft_adjust_sqrt2 (adjust_sqrt2.c:35-85): r = i1 · (√2)^i, i odd -/

/-- the common tail: temp = r · 2^(wn/2); result `r - temp` (negate) or `temp - r` -/
def sqrt2Tail (r : List Nat) (negate : Bool) : List Nat :=
  let limbs := r.length - 1
  let y := limbs / 2                               -- adjust_sqrt2.c:67
  let temp := mulBx r y                            -- :70-74
  let temp := if limbs % 2 = 1 then mul_2expmod temp 32 else temp    -- :77-78
  if negate then (sub_n r temp).1 else (sub_n temp r).1              -- :81-84

def adjust_sqrt2 (i1 : List Nat) (i w : Nat) : List Nat :=
  let limbs := i1.length - 1
  let wn := limbs * 64                             -- :38
  let j := i / 2; let k := w / 2                   -- :40
  let b1 := j + wn / 4 + i * k                     -- :45
  let negate := decide (b1 ≥ wn)                   -- :46-50
  let b1 := if b1 ≥ wn then b1 - wn else b1
  let y := b1 / 64                                 -- :51
  let b1 := b1 % 64                                -- :52
  let r := if y ≠ 0 then mul_2expmod (mulBx i1 y) b1 else mul_2expmod i1 b1     -- :55-64
  sqrt2Tail r negate

/-! ### mpn_sumdiff_n (mpn/generic/sumdiff_n.c): s = x + y, d = x - y, return 2·carry + borrow -/

def sumdiff_n (x y : List Nat) : List Nat × List Nat × Nat :=
  let (s, c1) := add_n x y
  let (d, c2) := sub_n x y
  (s, d, 2 * c1 + c2)

/-! ### mpir_butterfly_lshB (butterfly_lshB.c:34-142): t = (i1 + i2)·B^x, u = (i1 - i2)·B^y
    (HAVE_NATIVE_mpn_nsumdiff_n is not defined in this build: the sumdiff_n + neg_n variant) -/

def butterfly_lshB (i1 i2 : List Nat) (x y : Nat) : List Nat × List Nat :=
  let limbs := i1.length - 1
  let h1 := top i1; let h2 := top i2
  if x = 0 then
    if y = 0 then
      let (t, u, _) := sumdiff_n i1 i2                                             -- :47
      (t, u)
    else
      let (tA, uB, cy) := sumdiff_n (sl i1 0 (limbs - y)) (sl i2 0 (limbs - y))     -- :50
      let utop := lneg (cy % 2)                                                     -- :51
      let cy1 := cy / 2                                                             -- :52
      let (tC, uD, cy) := sumdiff_n (sl i2 (limbs - y) limbs) (sl i1 (limbs - y) limbs)   -- :53
      let ttop := cy / 2                                                            -- :54
      let tCt := (add_1 (tC ++ [ttop]) cy1).1                                       -- :55
      let cy1 := ladd (lneg (cy % 2)) (lsub h2 h1)                                  -- :56
      let uwin := addmod1 (uB ++ [utop]) cy1                                        -- :57
      let cy1 := lneg (ladd h1 h2)                                                  -- :58
      let t := addmod1 (tA ++ tCt) cy1                                              -- :59
      (t, uD ++ uwin)
  else if y = 0 then
    let (tHi, uLo, cy) := sumdiff_n (sl i1 0 (limbs - x)) (sl i2 0 (limbs - x))     -- :63
    let ttop := cy / 2                                                              -- :64
    let cy1 := cy % 2                                                               -- :65
    let (tLo, uHi, cy) := sumdiff_n (sl i1 (limbs - x) limbs) (sl i2 (limbs - x) limbs)   -- :69
    let (tLo, cy2) := neg_n tLo                                                     -- :70
    let utop := lneg (cy % 2)                                                       -- :72
    let uwin := (sub_1 (uHi ++ [utop]) cy1).1                                       -- :73
    let cy1 := lsub (lneg (cy / 2)) cy2                                             -- :74
    let cy1 := lsub cy1 (ladd h1 h2)                                                -- :75
    let twin := addmod1 (tHi ++ [ttop]) cy1                                         -- :76
    let cy1 := lsub h2 h1                                                           -- :77
    let u := addmod1 (uLo ++ uwin) cy1                                              -- :78
    (tLo ++ twin, u)
  else if x > y then
    let (t3, u2, cy) := sumdiff_n (sl i1 0 (limbs - x)) (sl i2 0 (limbs - x))       -- :81
    let ttop := cy / 2                                                              -- :82
    let cy1 := cy % 2                                                               -- :83
    let (t1, u3, cy) := sumdiff_n (sl i1 (limbs - x) (limbs - y)) (sl i2 (limbs - x) (limbs - y))   -- :87
    let (t1, cy2) := neg_n t1                                                       -- :88
    let utop := lneg (cy % 2)                                                       -- :90
    let u3w := (sub_1 (u3 ++ [utop]) cy1).1                                         -- :91
    let cy1 := ladd (cy / 2) cy2                                                    -- :92
    let (t2, u1, cy) := sumdiff_n (sl i2 (limbs - y) limbs) (sl i1 (limbs - y) limbs)     -- :96
    let (t2, cy2) := neg_n t2                                                       -- :97
    let (t2, bw) := sub_1 t2 cy1                                                    -- :99 (argument of the expression)
    let cy1 := lsub (lsub (lneg (cy / 2)) bw) cy2                                   -- :99
    let cy1 := lsub cy1 (ladd h1 h2)                                                -- :100
    let twin := addmod1 (t3 ++ [ttop]) cy1                                          -- :101
    let cy1 := ladd (lneg (cy % 2)) (lsub h2 h1)                                    -- :102
    let uwin := addmod1 (u2 ++ u3w) cy1                                             -- :103
    (t1 ++ t2 ++ twin, u1 ++ uwin)
  else if x < y then
    let (t2, u3, cy) := sumdiff_n (sl i1 0 (limbs - y)) (sl i2 0 (limbs - y))       -- :106
    let utop := lneg (cy % 2)                                                       -- :107
    let cy1 := cy / 2                                                               -- :108
    let (t3, u1, cy) := sumdiff_n (sl i2 (limbs - y) (limbs - x)) (sl i1 (limbs - y) (limbs - x))   -- :109
    let ttop := cy / 2                                                              -- :110
    let t3w := (add_1 (t3 ++ [ttop]) cy1).1                                         -- :111
    let cy1 := cy % 2                                                               -- :112
    let (t1, u2, cy) := sumdiff_n (sl i2 (limbs - x) limbs) (sl i1 (limbs - x) limbs)     -- :116
    let (u2, bw) := sub_1 u2 cy1                                                    -- :118
    let cy1 := lsub (lneg (cy % 2)) bw                                              -- :118
    let cy1 := ladd cy1 (lsub h2 h1)                                                -- :119
    let uwin := addmod1 (u3 ++ [utop]) cy1                                          -- :120
    let (t1, cy2) := neg_n t1                                                       -- :122
    let cy1 := lsub (lsub (lneg (cy / 2)) (ladd h1 h2)) cy2                         -- :124
    let twin := addmod1 (t2 ++ t3w) cy1                                             -- :125
    (t1 ++ twin, u1 ++ u2 ++ uwin)
  else
    let (t2, u2, cy) := sumdiff_n (sl i1 0 (limbs - x)) (sl i2 0 (limbs - x))       -- :128
    let ttop := cy / 2                                                              -- :129
    let utop := lneg (cy % 2)                                                       -- :130
    let (t1, u1, cy) := sumdiff_n (sl i2 (limbs - x) limbs) (sl i1 (limbs - x) limbs)     -- :134
    let (t1, cy2) := neg_n t1                                                       -- :135
    let cy1 := lsub (lsub (lneg (cy / 2)) (ladd h1 h2)) cy2                         -- :137
    let twin := addmod1 (t2 ++ [ttop]) cy1                                          -- :138
    let cy1 := lsub (ladd (lneg (cy % 2)) h2) h1                                    -- :139
    let uwin := addmod1 (u2 ++ [utop]) cy1                                          -- :140
    (t1 ++ twin, u1 ++ uwin)

/-! ### mpir_butterfly_rshB (butterfly_rshB.c:34-119): t = i1/B^x + i2/B^y, u = i1/B^x - i2/B^y.
    The C negates the low limbs of an input in place in three branches; the model returns the outputs only
    and the inputs as left behind: (t, u, i1', i2'). -/

def butterfly_rshB (i1 i2 : List Nat) (x y : Nat) : List Nat × List Nat × List Nat × List Nat :=
  let limbs := i1.length - 1
  let h1 := top i1; let h2 := top i2
  if x = 0 then
    if y = 0 then
      let (t, u, _) := sumdiff_n i1 i2                                              -- :43
      (t, u, i1, i2)
    else
      let (t1, u1, cy) := sumdiff_n (sl i1 0 (limbs - y)) (sl i2 y limbs)            -- :47
      let cy1 := cy / 2                                                              -- :48
      let cy2 := lneg (cy % 2)                                                       -- :49
      let (u2, t2, cy) := sumdiff_n (sl i1 (limbs - y) limbs) (sl i2 0 y)            -- :50 (sum → u, difference → t)
      let utop := ladd (cy / 2) h1                                                   -- :51
      let ttop := lsub h1 (cy % 2)                                                   -- :52
      let twin := addmod1 (t2 ++ [ttop]) (ladd cy1 h2)                               -- :53
      let uwin := addmod1 (u2 ++ [utop]) (lsub cy2 h2)                               -- :54
      (t1 ++ twin, u1 ++ uwin, i1, i2)
  else if y = 0 then
    let (t1, u1, cy) := sumdiff_n (sl i1 x limbs) (sl i2 0 (limbs - x))              -- :58
    let cy1 := cy / 2                                                                -- :59
    let cy2 := lneg (cy % 2)                                                         -- :60
    let (n1, cy3) := neg_n (sl i1 0 x)                                               -- :61 (in place)
    let i1' := n1 ++ i1.drop x
    let (t2, u2, cy) := sumdiff_n n1 (sl i2 (limbs - x) limbs)                       -- :62
    let utop := lsub (lsub (lneg cy3) (cy % 2)) h2                                   -- :63
    let ttop := ladd (ladd (lneg cy3) h2) (cy / 2)                                   -- :64
    let twin := addmod1 (t2 ++ [ttop]) (ladd cy1 h1)                                 -- :65
    let uwin := addmod1 (u2 ++ [utop]) (ladd cy2 h1)                                 -- :66
    (t1 ++ twin, u1 ++ uwin, i1', i2)
  else if x = y then
    let (t1, u1, cy) := sumdiff_n (sl i1 x limbs) (sl i2 x limbs)                    -- :69
    let cy1 := cy / 2                                                                -- :70
    let cy2 := lneg (cy % 2)                                                         -- :71
    let (t2, u2, cy) := sumdiff_n (sl i2 0 x) (sl i1 0 x)                            -- :76
    let (t2, cy3) := neg_n t2                                                        -- :77
    let utop := lneg (cy % 2)                                                        -- :79
    let ttop := lsub (lneg (cy / 2)) cy3                                             -- :80
    let twin := addmod1 (t2 ++ [ttop]) (ladd (ladd cy1 h1) h2)                       -- :81
    let uwin := addmod1 (u2 ++ [utop]) (lsub (ladd cy2 h1) h2)                       -- :82
    (t1 ++ twin, u1 ++ uwin, i1, i2)
  else if x > y then
    let (t3, u3, cy) := sumdiff_n (sl i2 0 y) (sl i1 (x - y) x)                      -- :89
    let (t3, cy3) := neg_n t3                                                        -- :90
    let ttop := lsub (lneg (cy / 2)) cy3                                             -- :92
    let utop := lneg (cy % 2)                                                        -- :93
    let (n1, cy3) := neg_n (sl i1 0 (x - y))                                         -- :94 (in place)
    let i1' := n1 ++ i1.drop (x - y)
    let (t2, u2, cy) := sumdiff_n n1 (sl i2 (limbs - x + y) limbs)                   -- :95
    let t3w := addmod1 (t3 ++ [ttop]) (lsub (ladd (cy / 2) h2) cy3)                  -- :96
    let u3w := addmod1 (u3 ++ [utop]) (lsub (lsub (lneg (cy % 2)) h2) cy3)           -- :97
    let (t1, u1, cy) := sumdiff_n (sl i1 x limbs) (sl i2 y (y + limbs - x))          -- :98
    let twin := addmod1 (t2 ++ t3w) (ladd (cy / 2) h1)                               -- :99
    let uwin := addmod1 (u2 ++ u3w) (ladd (lneg (cy % 2)) h1)                        -- :100
    (t1 ++ twin, u1 ++ uwin, i1', i2)
  else
    let (t3, u3, cy) := sumdiff_n (sl i2 (y - x) y) (sl i1 0 x)                      -- :107
    let (t3, cy3) := neg_n t3                                                        -- :108
    let ttop := lsub (lneg (cy / 2)) cy3                                             -- :110
    let utop := lneg (cy % 2)                                                        -- :111
    let (n2, cy3) := neg_n (sl i2 0 (y - x))                                         -- :112 (in place)
    let i2' := n2 ++ i2.drop (y - x)
    let (t2, u2, cy) := sumdiff_n (sl i1 (limbs - y + x) limbs) n2                   -- :113
    let t3w := addmod1 (t3 ++ [ttop]) (lsub (ladd (cy / 2) h1) cy3)                  -- :114
    let u3w := addmod1 (u3 ++ [utop]) (ladd (ladd (lneg (cy % 2)) h1) cy3)           -- :115
    let (t1, u1, cy) := sumdiff_n (sl i1 x (x + limbs - y)) (sl i2 y limbs)          -- :116
    let twin := addmod1 (t2 ++ t3w) (ladd (cy / 2) h2)                               -- :117
    let uwin := addmod1 (u2 ++ u3w) (lsub (lneg (cy % 2)) h2)                        -- :118
    (t1 ++ twin, u1 ++ uwin, i1, i2')

/-! ### the radix-2 butterflies -/

/-- mpir_fft_butterfly (fft_radix2.c:34-45): (s, t) = (i1 + i2, (i1 - i2)·2^(i·w)) -/
def fft_butterfly (i1 i2 : List Nat) (i w : Nat) : List Nat × List Nat :=
  let b1 := i * w                                  -- :40
  let y := b1 / 64                                 -- :41
  let b1 := b1 % 64                                -- :42
  let (s, t) := butterfly_lshB i1 i2 0 y           -- :44
  (s, mul_2expmod t b1)                            -- :45

/-- mpir_ifft_butterfly (ifft_radix2.c:34-46): (s, t) = (i1 + i2/2^(i·w), i1 - i2/2^(i·w)); i2 is divided in
    place.  Returns (s, t, i2'). -/
def ifft_butterfly (i1 i2 : List Nat) (i w : Nat) : List Nat × List Nat × List Nat :=
  let b1 := i * w                                  -- :40
  let y := b1 / 64                                 -- :41
  let b1 := b1 % 64                                -- :42
  let i2 := div_2expmod i2 b1                      -- :44
  let (s, t, _, i2') := butterfly_rshB i1 i2 0 y   -- :45
  (s, t, i2')

/-- mpir_fft_butterfly_sqrt2 (fft_trunc_sqrt2.c:34-75) -/
def fft_butterfly_sqrt2 (i1 i2 : List Nat) (i w : Nat) : List Nat × List Nat :=
  let limbs := i1.length - 1
  let wn := limbs * 64
  let j := i / 2; let k := w / 2
  let b1 := j + wn / 4 + i * k                     -- :45
  let negate := decide (b1 ≥ wn)                   -- :46-50
  let b1 := if b1 ≥ wn then b1 - wn else b1
  let y := b1 / 64; let b1 := b1 % 64              -- :51-52
  let (s, t) := butterfly_lshB i1 i2 0 y           -- :55
  let t := mul_2expmod t b1                        -- :56
  (s, sqrt2Tail t negate)                          -- :59-74

/-- mpir_ifft_butterfly_sqrt2 (ifft_trunc_sqrt2.c:34-78); returns (s, t, i2 as left behind) -/
def ifft_butterfly_sqrt2 (i1 i2 : List Nat) (i w : Nat) : List Nat × List Nat × List Nat :=
  let limbs := i1.length - 1
  let wn := limbs * 64
  let j := i / 2; let k := w / 2
  let b1 := wn - j - i * k - 1 + wn / 4            -- :44
  let negate := decide (¬ b1 ≥ wn)                 -- :42, 45-49
  let b1 := if b1 ≥ wn then b1 - wn else b1
  let y2 := b1 / 64; let b1 := b1 % 64             -- :50-51
  let i2 := if b1 ≠ 0 then mul_2expmod i2 b1 else i2     -- :54
  -- :57-71: i2 = temp - i2 (negate) or i2 - temp, temp = i2·2^(wn/2): `sqrt2Tail` with the roles swapped
  let i2 := sqrt2Tail i2 (!negate)
  let (s, t, _, i2') := butterfly_rshB i1 i2 0 (limbs - y2)    -- :75
  (s, t, i2')

/-- mpir_fft_butterfly_twiddle (fft_mfa_trunc_sqrt2.c:34-63) -/
def fft_butterfly_twiddle (s t : List Nat) (b1 b2 : Nat) : List Nat × List Nat :=
  let limbs := s.length - 1
  let nw := limbs * 64
  let negate2 := decide (b1 ≥ nw); let b1 := if b1 ≥ nw then b1 - nw else b1
  let x := b1 / 64; let b1 := b1 % 64
  let negate1 := decide (b2 ≥ nw); let b2 := if b2 ≥ nw then b2 - nw else b2
  let y := b2 / 64; let b2 := b2 % 64
  let (u, v) := butterfly_lshB s t x y
  let u := mul_2expmod u b1
  let u := if negate2 then (neg_n u).1 else u
  let v := mul_2expmod v b2
  let v := if negate1 then (neg_n v).1 else v
  (u, v)

/-- mpir_ifft_butterfly_twiddle (ifft_mfa_trunc_sqrt2.c:34-63); returns (u, v, s', t') -/
def ifft_butterfly_twiddle (s t : List Nat) (b1 b2 : Nat) : List Nat × List Nat × List Nat × List Nat :=
  let limbs := s.length - 1
  let nw := limbs * 64
  let negate1 := decide (b1 ≥ nw); let b1 := if b1 ≥ nw then b1 - nw else b1
  let x := b1 / 64; let b1 := b1 % 64
  let negate2 := decide (b2 ≥ nw); let b2 := if b2 ≥ nw then b2 - nw else b2
  let y := b2 / 64; let b2 := b2 % 64
  let s := if negate1 then (neg_n s).1 else s
  let s := div_2expmod s b1
  let t := if negate2 then (neg_n t).1 else t
  let t := div_2expmod t b2
  butterfly_rshB s t x y

/-! ### split (split_bits.c) -/

/-- a coefficient buffer of `m` limbs: zeroed, then the copied limbs -/
def padTo (m : Nat) (l : List Nat) : List Nat := l ++ List.replicate (m - l.length) 0

/-- mpir_fft_split_limbs (split_bits.c:31-49); `rest` = limbs + skip.  Full coefficients while
    skip + coeff_limbs ≤ total_limbs (:36-40), then the partial one (:42-46). -/
def splitLimbsGo (coeff ol : Nat) : Nat → List Nat → List (List Nat)
  | 0, _ => []
  | fuel + 1, rest =>
    if coeff ≤ rest.length then
      padTo (ol + 1) (rest.take coeff) :: splitLimbsGo coeff ol fuel (rest.drop coeff)
    else if rest.length > 0 then [padTo (ol + 1) rest]
    else []

def split_limbs (x : List Nat) (coeff ol : Nat) : List (List Nat) :=
  splitLimbsGo coeff ol (x.length + 1) x

/-- `poly[i][coeff_limbs - 1] &= mask` -/
def maskTop (c : List Nat) (mask : Nat) : List Nat :=
  c.take (c.length - 1) ++ [c.getD (c.length - 1) 0 &&& mask]

/-- the loop of mpir_fft_split_bits (split_bits.c:69-95), `k` = iterations left, `rest` = limb_ptr -/
def splitBitsGo (coeff topBits ol mask : Nat) : Nat → List Nat → Nat → List (List Nat)
  | 0, rest, shift =>
      -- :97-104 the last coefficient: limbs_left = total_limbs - (limb_ptr - limbs)
      [padTo (ol + 1) (if shift = 0 then rest else (rshift rest shift).1)]
  | k + 1, rest, shift =>
      if shift = 0 then
        let c := maskTop (rest.take coeff) mask                                  -- :75-76
        padTo (ol + 1) c :: splitBitsGo coeff topBits ol mask k (rest.drop (coeff - 1)) (shift + topBits)   -- :77-78
      else
        let c := (rshift (rest.take coeff) shift).1                              -- :81
        let rest := rest.drop (coeff - 1)                                        -- :82
        let shift' := shift + topBits                                            -- :83
        if shift' ≥ 64 then
          let rest := rest.drop 1                                                -- :86
          let hi := (rest.getD 0 0 <<< (64 - shift)) % B                         -- :87
          let c := c.take (coeff - 1) ++ [ladd (c.getD (coeff - 1) 0) hi]
          padTo (ol + 1) (maskTop c mask) :: splitBitsGo coeff topBits ol mask k rest (shift' - 64)     -- :88, 91
        else
          padTo (ol + 1) (maskTop c mask) :: splitBitsGo coeff topBits ol mask k rest shift'            -- :91

/-- mpir_fft_split_bits (split_bits.c:51-107): `length` coefficients of `ol + 1` limbs -/
def split_bits (x : List Nat) (bits ol : Nat) : List (List Nat) :=
  let length := (64 * x.length - 1) / bits + 1     -- :54
  let topBits := bits % 64                         -- :55
  if topBits = 0 then split_limbs x (bits / 64) ol -- :59-60
  else
    let coeff := bits / 64 + 1                     -- :62
    let mask := 2 ^ topBits - 1                    -- :63
    splitBitsGo coeff topBits ol mask (length - 1) x 0

/-! ### combine (combine_bits.c) -/

/-- apply `f` to the window `[off, off + len)` of `res` -/
def onWin (res : List Nat) (off len : Nat) (f : List Nat → List Nat) : List Nat :=
  res.take off ++ f (sl res off (off + len)) ++ res.drop (off + len)

/-- second loop of mpir_fft_combine_limbs (combine_bits.c:40-47) -/
def combineLimbs2 (coeff ol : Nat) : List (List Nat) → List Nat → Nat → List Nat
  | [], res, _ => res
  | c :: cs, res, skip =>
    let total := res.length
    if skip < total then
      let res := onWin res skip (total - skip) (fun w => (add w (c.take (min (total - skip) ol))).1)   -- :42
      combineLimbs2 coeff ol cs res (skip + coeff)
    else res

/-- first loop of mpir_fft_combine_limbs (combine_bits.c:37-38) -/
def combineLimbs1 (coeff ol : Nat) : List (List Nat) → List Nat → Nat → List Nat
  | [], res, _ => res
  | c :: cs, res, skip =>
    if skip + ol + 1 ≤ res.length then
      let res := onWin res skip (ol + 1) (fun w => (add w (c.take ol)).1)       -- :38
      combineLimbs1 coeff ol cs res (skip + coeff)
    else combineLimbs2 coeff ol (c :: cs) res skip

def combine_limbs (res : List Nat) (poly : List (List Nat)) (coeff ol : Nat) : List Nat :=
  combineLimbs1 coeff ol poly res 0

/-- `shift_bits += top_bits; limb_ptr += coeff_limbs - 1; if (shift_bits >= 64) { limb_ptr++; shift_bits -= 64 }`
    (combine_bits.c:82-88, 100-106) -/
def advance (coeff topBits ptr shift : Nat) : Nat × Nat :=
  let shift := shift + topBits
  let ptr := ptr + (coeff - 1)
  if shift ≥ 64 then (ptr + 1, shift - 64) else (ptr, shift)

/-- second loop of mpir_fft_combine_bits (combine_bits.c:91-108) -/
def combineBits2 (coeff topBits ol : Nat) : List (List Nat) → List Nat → Nat → Nat → List Nat
  | [], res, _, _ => res
  | c :: cs, res, ptr, shift =>
    let total := res.length
    if ptr < total then
      let m := total - ptr
      let res :=
        if shift ≠ 0 then
          let temp := (lshift (c.take (ol + 1)) shift).1                         -- :95
          onWin res ptr m (fun w => (add_n w (temp.take m)).1)                   -- :96
        else onWin res ptr m (fun w => (add_n w (c.take m)).1)                   -- :98
      let (ptr, shift) := advance coeff topBits ptr shift
      combineBits2 coeff topBits ol cs res ptr shift
    else res

/-- first loop of mpir_fft_combine_bits (combine_bits.c:73-89) -/
def combineBits1 (coeff topBits ol : Nat) : List (List Nat) → List Nat → Nat → Nat → List Nat
  | [], res, _, _ => res
  | c :: cs, res, ptr, shift =>
    if ptr + ol + 1 < res.length then
      let res :=
        if shift ≠ 0 then
          let temp := (lshift (c.take (ol + 1)) shift).1                         -- :77
          onWin res ptr (ol + 1) (fun w => (add_n w temp).1)                     -- :78
        else onWin res ptr (ol + 1) (fun w => (add w (c.take ol)).1)             -- :80
      let (ptr, shift) := advance coeff topBits ptr shift
      combineBits1 coeff topBits ol cs res ptr shift
    else combineBits2 coeff topBits ol (c :: cs) res ptr shift

/-- mpir_fft_combine_bits (combine_bits.c:50-112): res += Σ poly[i]·2^(i·bits), truncated to total_limbs -/
def combine_bits (res : List Nat) (poly : List (List Nat)) (bits ol : Nat) : List Nat :=
  let topBits := bits % 64                         -- :53
  if topBits = 0 then combine_limbs res poly (bits / 64) ol      -- :58-62
  else combineBits1 (bits / 64 + 1) topBits ol poly res 0 0      -- :66-89

/-! ### mpn_mulmod_2expp1_basecase (mpn/generic/mulmod_2expp1_basecase.c) — the branch that does not enter
    mpir_fft_mulmod_2expp1 (k ≠ 0, or n ≤ FFT_MULMOD_2EXPP1_CUTOFF).  The product `tp` of mpn_mul_n/mpn_sqr
    is taken as exact (its own theorems: C01 leaves/algo). -/

/-- `x[i] = v` -/
def setAt (x : List Nat) (i v : Nat) : List Nat := x.take i ++ [v] ++ x.drop (i + 1)

/-- mpn_mulmod_2expp1_internal (:36-131), the non-FFT path (:96-130) -/
def mulmod_2expp1_internal (yp zp : List Nat) (b : Nat) : List Nat × Nat :=
  let n := (b + 63) / 64                           -- :44
  let k := 64 * n - b                              -- :45
  let tp := toLimbs (2 * n) (val yp * val zp)      -- :96-99
  if k = 0 then
    let (xp, c) := sub_n (tp.take n) (tp.drop n)   -- :103
    add_1 xp c                                     -- :105
  else
    let c := tp.getD (n - 1) 0                     -- :108
    let tp := setAt tp (n - 1) (c &&& (2 ^ (64 - k) - 1))      -- :109
    let (hi, c1) := lshift (tp.drop n) k           -- :116
    let hi := setAt hi 0 (hi.getD 0 0 ||| (c >>> (64 - k)))    -- :117
    let (xp, c2) := sub_n (tp.take n) hi           -- :118
    let (xp, c) := add_1 xp (c2 + c1)              -- :122
    (setAt xp (n - 1) (xp.getD (n - 1) 0 &&& (2 ^ (64 - k) - 1)), c)      -- :123

/-- mpn_mulmod_2expp1_basecase (:134-204): c&2 / c&1 say y / z is 2^b (then the limbs are zero) -/
def mulmod_2expp1_basecase (yp zp : List Nat) (c b : Nat) : List Nat × Nat :=
  let cy := c / 2 % 2                              -- :141
  let cz := c % 2                                  -- :142
  let n := (b + 63) / 64
  let k := 64 * n - b
  let negmask (u : List Nat) : List Nat × Nat :=
    let (xp, c) := neg_n u                         -- :182 / :191
    let (xp, c) := add_1 xp c                      -- :183 / :192
    (setAt xp (n - 1) (xp.getD (n - 1) 0 &&& (2 ^ (64 - k) - 1)), c)      -- :184 / :193
  if cy = 0 then
    if cz = 0 then mulmod_2expp1_internal yp zp b  -- :178
    else negmask yp
  else
    if cz = 0 then negmask zp
    else (1 :: List.replicate (n - 1) 0, 0)        -- :197-199

/-- mpn_mulmod_Bexpp1 (mpn/generic/mulmod_bexpp1.c:37-76) for limbs ≤ FFT_MULMOD_2EXPP1_CUTOFF:
    inputs normalised residues of limbs+1 limbs; returns r (limbs+1 limbs) and the function's return value
    (which is 0, not r[limbs], on the two negation branches) -/
def mulmod_Bexpp1 (i1 i2 : List Nat) : List Nat × Nat :=
  let limbs := i1.length - 1
  let c := ladd (2 * top i1 % B) (top i2)          -- :43
  if c % 2 = 1 then (normmod (neg_n i1).1, 0)      -- :45-49
  else if c / 2 % 2 = 1 then (normmod (neg_n i2).1, 0)     -- :50-54
  else
    let (r, cc) := mulmod_2expp1_basecase (lo i1) (lo i2) c (limbs * 64)     -- :59
    (r ++ [cc], cc)                                -- :60, 63

end Mpir.Fft
