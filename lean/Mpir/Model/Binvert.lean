/-
  C08: mpn_binvert (mpn/generic/binvert.c), the 2-adic inverse of an odd n-limb number that mpn_powm / mpn_redc_n
  rely on.  Limb-level memory model: the destination `rp` (n limbs) and the caller's scratch `xp`
  (`mpn_binvert_itch (n)` limbs) are areas with bounds-checked `store`/`load` (Mpir.PowmL); every access ANDs its
  flag into `ok`.  Core Lean only (linked into the driver).

  Source mirrored (ops in Mpir/Ops/Binvert.lean, C side harness/ops_binvert.c):
    binvert.c:53-59     mpn_binvert_itch         binvItch
    binvert.c:61-124    mpn_binvert              schedule (the precision schedule sizes[]), step (one Newton
                                                 iteration: mpn_mulmod_bnm1 wrap-around product, mpn_sub_1,
                                                 mpn_mullow_n, mpn_neg), newton (loop :90-107 and the last
                                                 iteration :109-123 that multiplies into the scratch), mpnBinvert
    sb_bdiv_q.c:46-92   mpn_sb_bdiv_q            sbLoop (the limb-wise Hensel loop; nn = dn, so the first loop
                                                 :61-70 runs zero times)
  Callees taken by their models / contracts: mpn_mulmod_bnm1 = Mm1.bnm1 (part c08_mm1, limb level);
  mpn_mullow_n by its value (C01_mullow) — MPIR's mpn_mullow_n stores 2k limbs (mullow_n.c:25), the upper k are
  unspecified: the model writes `toLimbs k (jk ·)` for an ARBITRARY function `jk`; mpn_dc_bdiv_q (base sizes at or
  above DC_BDIV_Q_THRESHOLD) by its contract "Q = N / D mod B^nn, destroys N" (unique value, junk via `jk`);
  modlimb_invert = Powm.modlimb_invert.  The initial contents of `rp` and `xp` are parameters (uninitialised memory).
-/
import Mpir.Base
import Mpir.Model.Kernels
import Mpir.Model.Powm
import Mpir.Model.PowmLimb
import Mpir.Model.Mulmod2expm1
namespace Mpir.Binvert
open Mpir Mpir.Powm Mpir.PowmL Mpir.Mm1

/-- LOG2C (gmp-impl.h:627) -/
def log2c (n : Nat) : Nat := ((List.range 16).filter (fun i => decide (n ≥ 2 ^ i))).length

/-- NPOWS (binvert.c:49): `(sizeof (mp_size_t) > 6 ? 48 : ..) - LOG2C (BINV_NEWTON_THRESHOLD)` -/
def npows (thr : Nat) : Nat := 48 - log2c thr

/-- ABOVE_THRESHOLD (size, thresh) (gmp-impl.h:1817); MP_SIZE_T_MAX is above every size. -/
def aboveThr (size thr : Nat) : Bool := thr == 0 || decide (size ≥ thr)

/-- mpn_binvert_itch (binvert.c:53-59) with mpn_mulmod_bnm1_itch (rn, ..) = 5·rn + 220 (gmp-impl.h:3879) -/
def binvItch (nextSize : Nat → Nat) (n : Nat) : Nat :=
  let itch_local := nextSize n                              -- :56
  let itch_out := 5 * itch_local + 220                      -- :57
  itch_local + itch_out                                     -- :58

/-- binvert.c:69-71: `for (rn = n; ABOVE_THRESHOLD (rn, BINV_NEWTON_THRESHOLD); rn = (rn + 1) >> 1) *sizp++ = rn;`
    Returns the entries of `sizes[]` in the order they are pushed, the base case size `rn` and a flag that is
    false when the fuel runs out (the C loop would not terminate: thresholds 0 and 1). -/
def schedule (thr : Nat) : Nat → Nat → List Nat × Nat × Bool
  | 0, rn => ([], rn, !aboveThr rn thr)
  | f + 1, rn =>
      if aboveThr rn thr then
        let r := schedule thr f ((rn + 1) / 2)
        (rn :: r.1, r.2.1, r.2.2)
      else ([], rn, true)

/-- mpn_sb_bdiv_q (qp, wp, np, nn, dp, dn, dinv) for nn = dn (sb_bdiv_q.c:74-88, the second loop; the first,
    :61-70, runs `nn - dn = 0` times).  `np` holds the `i` limbs still to be cancelled.
    Returns the quotient limbs and the two overflow limbs w0, w1. -/
def sbLoop (dinv : Nat) (dp : List Nat) : Nat → List Nat → Nat → Nat → List Nat × Nat × Nat
  | 0, _, w0, w1 => ([], w0, w1)
  | i + 1, np, w0, w1 =>
      let q := (dinv * np.headD 0) % B                      -- :76 q = dinv * np[0]
      let sm := submul_1 (np.take (i + 1)) (dp.take (i + 1)) q           -- :77 hi = mpn_submul_1 (np, dp, i, q)
      let s := w0 + sm.2                                     -- :78 ADDC_LIMB (hi, w0, w0, hi)
      let w1 := (w1 + s / B) % B                            -- :79 w1 += hi
      let r := sbLoop dinv dp i sm.1.tail (s % B) w1         -- :81-83 qp[0] = q; qp++; np++ (np[0] == 0)
      (q :: r.1, r.2)

structure St where
  rp : List Nat      -- the destination, n limbs
  xp : List Nat      -- the scratch, itch limbs
  ok : Bool

/-- One Newton iteration from `rn` to `newrn` limbs (binvert.c:92-103 for `last = false`, :110-122 for the last
    one, whose mpn_mullow_n — 2(newrn − rn) limbs — goes to `xp + newrn` instead of `rp + rn`). -/
def step (mthr : Nat) (pp1 : List Nat → List Nat → Nat → Nat → List Nat × Nat) (nextSize : Nat → Nat) (jk : Nat → Nat)
    (up : List Nat) (last : Bool) (s : St) (rn newrn : Nat) : St :=
  let m := nextSize newrn                                   -- :95 m = mpn_mulmod_bnm1_next_size (newrn)
  let u := load up 0 newrn                                  -- {up, newrn}
  let r := load s.rp 0 rn                                   -- {rp, rn}
  -- :96 mpn_mulmod_bnm1 (xp, m, up, newrn, rp, rn, xp + m): ASSERTs 0 < bn <= an <= rn (mulmod_2expm1.c:304-306),
  -- scratch xp + m of mpn_mulmod_bnm1_itch (m, ..) = 5m + 220 limbs
  let okA := decide (0 < rn) && decide (rn ≤ newrn) && decide (newrn ≤ m)
  let okI := decide (m + (5 * m + 220) ≤ s.xp.length)
  let p := bnm1 mthr pp1 m u.1 r.1
  let x1 := store s.xp 0 p.1
  -- :97 mpn_sub_1 (xp + m, xp, rn - (m - newrn), 1): size >= 1.  (Its output xp[m ..) is never read: the k limbs of X
  -- that mpn_mullow_n takes are xp[rn .. newrn) with newrn <= m — `step_inv` uses only `x2.take m = p`.)
  let k1 := rn - (m - newrn)
  let okS := decide (m - newrn < rn)
  let s1 := load x1.1 0 k1
  let x2 := store x1.1 m (sub_1 s1.1 1).1
  -- :100 / :117 mpn_mullow_n (.., rp, xp + rn, newrn - rn): ASSERT (n > 0); 2k limbs stored, the upper k unspecified
  let k := newrn - rn
  let okK := decide (0 < k)
  let r2 := load s.rp 0 k
  let x := load x2.1 rn k
  let prod := toLimbs k (val r2.1 * val x.1) ++ toLimbs k (jk newrn)
  let ok0 := s.ok && u.2 && r.2 && okA && okI && p.2 && x1.2 && okS && s1.2 && x2.2 && okK && r2.2 && x.2
  if last then
    let x3 := store x2.1 newrn prod                         -- :117 mpn_mullow_n (xp + newrn, rp, xp + rn, newrn - rn)
    let t := load x3.1 newrn k
    let rp1 := store s.rp rn (neg_n t.1).1                  -- :122 mpn_neg (rp + rn, xp + newrn, newrn - rn)
    { rp := rp1.1, xp := x3.1, ok := ok0 && x3.2 && t.2 && rp1.2 }
  else
    let rp1 := store s.rp rn prod                           -- :100 mpn_mullow_n (rp + rn, rp, xp + rn, newrn - rn)
    let t := load rp1.1 rn k
    let rp2 := store rp1.1 rn (neg_n t.1).1                 -- :101 mpn_neg (rp + rn, rp + rn, newrn - rn)
    { rp := rp2.1, xp := x2.1, ok := ok0 && rp1.2 && t.2 && rp2.2 }

/-- binvert.c:89-123: `newrn = *--sizp; for (; newrn < n;) { ..; rn = newrn; newrn = *--sizp; }` and the last
    iteration.  The list is `sizes[]` in popping order (reversed); popping below `sizes[0]` gives `ok = false`. -/
def newton (mthr : Nat) (pp1 : List Nat → List Nat → Nat → Nat → List Nat × Nat) (nextSize : Nat → Nat) (jk : Nat → Nat)
    (up : List Nat) (n : Nat) : List Nat → Nat → St → St
  | [], _, s => { s with ok := false }
  | newrn :: rest, rn, s =>
      if newrn < n then newton mthr pp1 nextSize jk up n rest newrn (step mthr pp1 nextSize jk up false s rn newrn)
      else step mthr pp1 nextSize jk up true s rn newrn

/-- binvert.c:73-85: the base value of `rn` limbs.  `xp[0..rn) = 1`, `di = modlimb_invert (up[0])`, then
    mpn_sb_bdiv_q (rp, xp + rn, xp, rn, up, rn, di) below DC_BDIV_Q_THRESHOLD (overflow limbs at xp[rn], xp[rn+1]),
    else mpn_dc_bdiv_q (rp, xp, rn, up, rn, di) (ASSERT (dn >= 6), dc_bdiv_q.c:49). -/
def base (dcThr : Nat) (jk : Nat → Nat) (up : List Nat) (rn : Nat) (rp0 xp0 : List Nat) : St :=
  let x0 := store xp0 0 (1 :: zeros (rn - 1))               -- :76-77 MPN_ZERO (xp, rn); xp[0] = 1
  let di := modlimb_invert (up.headD 0)                     -- :79
  let dp := load up 0 rn
  if !aboveThr rn dcThr then                                -- :81 BELOW_THRESHOLD (rn, DC_BDIV_Q_THRESHOLD)
    let np := load x0.1 0 rn
    let q := sbLoop di dp.1 rn np.1 0 0                     -- :82
    let r1 := store rp0 0 q.1
    let x1 := store x0.1 0 (zeros rn)                       -- every np[0] has been cancelled (ASSERT (np[0] == 0))
    let x2 := store x1.1 rn [q.2.1, q.2.2]                  -- wp[0] = w0; wp[1] = w1
    { rp := r1.1, xp := x2.1, ok := decide (0 < rn) && x0.2 && dp.2 && np.2 && r1.2 && x1.2 && x2.2 }
  else
    let r1 := store rp0 0 (toLimbs rn (binvert (val dp.1) rn))       -- :84 Q = 1 / U mod B^rn
    let x1 := store x0.1 0 (toLimbs rn (jk 0))              -- "destroys N"
    { rp := r1.1, xp := x1.1, ok := decide (6 ≤ rn) && x0.2 && dp.2 && r1.2 && x1.2 }

/-- mpn_binvert (rp, up, n, scratch) (binvert.c:61-124).  `thr` = BINV_NEWTON_THRESHOLD, `dcThr` =
    DC_BDIV_Q_THRESHOLD, `mthr` = MULMOD_2EXPM1_THRESHOLD, `pp1` = mpn_mulmod_2expp1_basecase, `nextSize` =
    mpn_mulmod_bnm1_next_size; `rp0` (n limbs) and `xp0` (the scratch) are the areas as the caller hands them over.
    Returns `rp[0..n)` and `ok` (false: an access left `rp`/`xp`, `sizes[NPOWS]` overflowed, the schedule did not
    terminate, or an ASSERT of a callee failed). -/
def mpnBinvert (thr dcThr mthr : Nat) (pp1 : List Nat → List Nat → Nat → Nat → List Nat × Nat) (nextSize : Nat → Nat)
    (jk : Nat → Nat) (up rp0 xp0 : List Nat) : List Nat × Bool :=
  let n := rp0.length
  let sch := schedule thr n n                               -- :69-71
  let okN := sch.2.2 && decide (sch.1.length ≤ npows thr)   -- mp_size_t sizes[NPOWS]
  let rn := sch.2.1
  let b := base dcThr jk up rn rp0 xp0                      -- :73-85
  if rn = n then (b.rp, b.ok && okN)                        -- :88-89
  else
    let s := newton mthr pp1 nextSize jk up n sch.1.reverse rn b
    (s.rp, s.ok && okN)

end Mpir.Binvert
