/-
  C08: mpz_powm_ui (mpz/powm_ui.c), el < 20, at the memory level.  Core Lean only.
  The values and sizes (x, xn), (t, tn) are those of the size-aware model `Powm.mpz_powm_ui` (Mpir/Model/Powm.lean, compared
  exactly with the library by the op mpz_powm_ui); this file adds, statement by statement, the conditions under which
  every access stays inside its area and every kernel is called inside its operand condition:
    tp = TMP_ALLOC_LIMBS (2 * mn + 1), xp = TMP_ALLOC_LIMBS (mn), scratch = TMP_ALLOC_LIMBS (mn + 1)   (powm_ui.c:160-162)
    reduce (): rp = TMP_ALLOC_LIMBS (an), scratch = TMP_ALLOC_LIMBS (an - mn + 1)                        (powm_ui.c:108-109)
-/
import Mpir.Model.Powm
namespace Mpir.PowmUi
open Mpir Mpir.Powm

/-- `mod (np, nn, dp, dn, dinv, tp)` (powm_ui.c:60-98): every division kernel needs `nn ≥ dn ≥ 1`; the quotient — `nn` limbs
    from mpn_divrem_1 (:73), `nn − dn` limbs otherwise (the high limb is returned) — is written to `tp`, `qcap` limbs. -/
def modOk (nn dn qcap : Nat) : Bool :=
  decide (1 ≤ dn) && decide (dn ≤ nn) && decide ((if dn = 1 then nn else nn - dn) ≤ qcap)

/-- powm_ui.c:196-205 / 213-222: `if (tn < mn) MPN_COPY (xp, tp, tn) else { mod (tp, tn, mp, mn, dinv, scratch); MPN_COPY (xp, tp, mn) }` -/
def stepOk (mn tn : Nat) : Bool := if tn < mn then true else modOk tn mn (mn + 1)

/-- the main loop (powm_ui.c:190-228) with the state of `Powm.puiLoop` -/
def puiLoopOk (m mn b bn : Nat) : List Bool → Nat → Nat → Bool
  | [], _, _ => true
  | bit :: rest, x, xn =>
      let t := x * x
      let ok1 := decide (1 ≤ xn) && decide (2 * xn ≤ 2 * mn + 1)      -- :192 mpn_sqr (tp, xp, xn); :193 reads tp[2*xn - 1]
      let tn := dropTop t (2 * xn)
      let p := puiReduce m mn t tn
      if bit then
        let t2 := p.1 * b
        -- :209 mpn_mul (tp, xp, xn, bp, bn): un ≥ vn ≥ 1, xn + bn limbs at tp
        let ok3 := decide (1 ≤ bn) && decide (bn ≤ p.2) && decide (p.2 + bn ≤ 2 * mn + 1)
        let tn2 := dropTop t2 (p.2 + bn)
        let q := puiReduce m mn t2 tn2
        ok1 && stepOk mn tn && ok3 && stepOk mn tn2 && puiLoopOk m mn b bn rest q.1 q.2
      else ok1 && stepOk mn tn && puiLoopOk m mn b bn rest p.1 p.2

/-- powm_ui.c:164-262 with the state of `Powm.puiX` -/
def puiXOk (ms mn zc bv bn el : Nat) : Bool :=
  let okL := if el = 1 then true else puiLoopOk ms mn bv bn (lowerBits el) bv bn
  let p :=
    if el = 1 then (if bn = mn && bv ≥ ms then (bv - ms, bn) else (bv, bn))
    else puiLoop ms mn bv bn (lowerBits el) bv bn
  if zc != 0 then
    let t := p.1 <<< zc
    let ok1 := decide (1 ≤ p.2) && decide (p.2 + 1 ≤ 2 * mn + 1)    -- :237 mpn_lshift (tp, xp, xn, cnt); :238 tp[xn] = cy
    let tn := p.2 + (if t / B ^ p.2 != 0 then 1 else 0)
    let q := puiReduce ms mn t tn
    okL && ok1 && stepOk mn tn && decide (1 ≤ q.2)                   -- :251 mpn_rshift (xp, xp, xn, cnt)
  else okL

/-- mpz_powm_ui (r, b, el, m) for 1 ≤ el < 20 and m ≠ 0: all of the above, the `reduce` of a long base (:143) and the
    negative-base fix-up `mpn_sub (xp, mp, mn, xp, xn)` (:257, needs mn ≥ xn; xp has mn limbs) -/
def mpzPowmUiOk (b : Int) (el : Nat) (m : Int) : Bool :=
  let mp0 := natLimbs m.natAbs
  let mn := mp0.length
  if mn = 0 || el = 0 || decide (20 ≤ el) then true
  else
    let zc := clz (mp0.getLastD 1)
    let ms := m.natAbs <<< zc
    let bp := natLimbs b.natAbs
    let okB := if bp.length > mn then modOk bp.length mn (bp.length - mn + 1) else true
    let bb :=
      if bp.length > mn then (b.natAbs % ms, (natLimbs (b.natAbs % ms)).length)
      else (b.natAbs, bp.length)
    if bb.2 = 0 then okB
    else
      let q := puiX ms mn zc bb.1 bb.2 el
      let xn := mpnNormalize (toLimbs mn q.1) q.2
      okB && decide (bb.2 ≤ mn) && puiXOk ms mn zc bb.1 bb.2 el && decide (q.2 ≤ mn) && decide (xn ≤ mn)

end Mpir.PowmUi
