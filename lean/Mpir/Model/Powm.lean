/-
  C08 — powers and modular powers.  Core Lean only (linked into the driver).

  Source mirrored (tie = correspondence, ops in Mpir/Ops/Powm.lean):
    mpz/powm.c  mpz/powm_ui.c  mpz/n_pow_ui.c  mpz/pow_ui.c  mpz/ui_pow_ui.c  mpz/invert.c (value level)
    mpn/generic/powm.c  powlo.c  pow_1.c  redc_1.c  redc_2.c  redc_n.c  binvert.c (value level)
    gmp-impl.h  modlimb_invert, MPN_SIZEINBASE_2EXP, MPN_NORMALIZE

  Layers:
    * scalar code (`win_size`, `getbits`, `getbit`, `modlimb_invert`, count_{leading,trailing}_zeros)
      is modelled exactly, with C's unsigned wrap written `% B`;
    * `redc_1`, `redc_2` are limb-level loops over the kernel models `addmul_1`, `add_n`, `sub_n`;
    * `mpn_powm`, `mpn_powlo`, `mpn_pow_1`, `mpz_n_pow_ui`, `mpz_powm_ui` follow the C control flow with
      sub-results as naturals (products are `Nat` products, `mpn_tdiv_qr` is `%`);
    * `mpz_powm` follows mpz/powm.c statement by statement; its result is kept as the limb vector `rp`
      and the size `rn` exactly as the C computes them (MPN_NORMALIZE is the C loop), so that
      "the result is well formed" is a theorem about the model and not a by-product of the encoding.
-/
import Mpir.Base
import Mpir.Model.Kernels
namespace Mpir.Powm
open Mpir

/-! ## Specification -/

/-- Extended Euclid, one cofactor: `xgcdAux r s r' s'` keeps `r ≡ s·a` and `r' ≡ s'·a (mod m)`. -/
def xgcdAux : Nat → Int → Nat → Int → Nat × Int
  | 0, _, r', s' => (r', s')
  | r + 1, s, r', s' => xgcdAux (r' % (r + 1)) (s' - (r' / (r + 1) : Nat) * s) (r + 1) s
termination_by r => r
decreasing_by exact Nat.mod_lt _ (Nat.succ_pos _)

/-- The inverse of `a` modulo `m` in `[0,m)`, if `gcd(a,m) = 1` (`m ≥ 1`). -/
def modInv? (a : Int) (m : Nat) : Option Nat :=
  let a0 := (a % (m : Int)).toNat
  let (g, s) := xgcdAux a0 1 m 0
  if g = 1 then some (s % (m : Int)).toNat else none

/-- `b^e mod |m|` in `[0,|m|)`; `none` = the division-by-zero exception.
    Negative `e`: through the inverse of `b`; `none` when `b` is not invertible.  MPIR's `mpz_invert`
    also refuses the modulus `±1` (C08 only speaks about `|m| > 1` there); the spec follows it. -/
def powmSpec (b e m : Int) : Option Int :=
  if m = 0 then none
  else if 0 ≤ e then some ((b ^ e.toNat) % m.natAbs)
  else if m.natAbs = 1 then none
  else match modInv? b m.natAbs with
    | none => none
    | some i => some (((i : Int) ^ (-e).toNat) % m.natAbs)

/-- exact powers, `0^0 = 1` (Lean's `Int.pow` already has `0^0 = 1`). -/
def powSpec (b : Int) (e : Nat) : Int := b ^ e

/-! ## Scalar code -/

/-- count_leading_zeros of a non-zero limb (`bsrq`): 63 − ⌊log2 x⌋. -/
def clz (x : Nat) : Nat := 63 - x.log2

/-- count_trailing_zeros of a non-zero limb (`bsfq`).  Fuel 64; 0 is outside the C domain. -/
def ctzAux : Nat → Nat → Nat
  | 0, _ => 0
  | f + 1, x => if x % 2 = 1 then 0 else 1 + ctzAux f (x / 2)
def ctz (x : Nat) : Nat := if x = 0 then 0 else ctzAux 64 x

/-- MPN_SIZEINBASE_2EXP (ebi, ep, en, 1): number of bits of `{ep,en}`, `ep[en-1] ≠ 0`. -/
def sizeinbase2 (ep : List Nat) : Nat :=
  ep.length * 64 - clz (ep.getLastD 1)

/-- the scan `for (k = k0; eb > x[k]; k++);` over the rest of the table. -/
def winScan : List Nat → Nat → Nat → Nat
  | [], _, k => k
  | t :: ts, eb, k => if eb > t then winScan ts eb (k + 1) else k

/-- mpn/generic/powm.c:127  `x[] = {0,7,25,81,241,673,1793,4609,11521,28161,~0}`, `k` from 1. -/
def winTab : List Nat := [7, 25, 81, 241, 673, 1793, 4609, 11521, 28161, B - 1]
def win_size (eb : Nat) : Nat := winScan winTab eb 1

/-- mpn/generic/powlo.c  `x[] = {1,7,25,...}`, `k` from 0. -/
def win_size_lo (eb : Nat) : Nat := winScan (1 :: winTab) eb 0

/-- `getbit(p,bi) = (p[(bi-1)/64] >> (bi-1)%64) & 1`  (`bi ≥ 1`). -/
def getbit (p : List Nat) (bi : Nat) : Nat :=
  (p.getD ((bi - 1) / 64) 0 >>> ((bi - 1) % 64)) &&& 1

/-- `getbits (p, bi, nbits)` of powm.c:103 / powlo.c (`1 ≤ nbits ≤ 63`). -/
def getbits (p : List Nat) (bi nbits : Nat) : Nat :=
  if bi < nbits then
    p.getD 0 0 &&& ((1 <<< bi) - 1)
  else
    let bi := bi - nbits
    let i := bi / 64
    let bi := bi % 64
    let r := p.getD i 0 >>> bi
    let nbits_in_r := 64 - bi
    let r := if nbits_in_r < nbits then (r + (p.getD (i + 1) 0 <<< nbits_in_r) % B) % B else r
    r &&& ((1 <<< nbits) - 1)

/-- `modlimb_invert_table[i]` = inverse of `2i+1` modulo 2^8 (mp_minv_tab.c). -/
def minvTab (i : Nat) : Nat := ((List.range 256).find? (fun x => (x * (2 * i + 1)) % 256 == 1)).getD 0

/-- one Newton step in limb arithmetic: `inv = 2*inv - inv*inv*n`. -/
def minvStep (inv n : Nat) : Nat := (2 * inv + B - (inv * inv % B * n) % B) % B

/-- gmp-impl.h:3087  modlimb_invert (odd `n`): table value, then three doublings 8→16→32→64 bits. -/
def modlimb_invert (n : Nat) : Nat :=
  let inv := minvTab ((n / 2) % 128)
  minvStep (minvStep (minvStep inv n) n) n

/-- MPN_NORMALIZE (p, n): `while (n > 0 && p[n-1] == 0) n--;` -/
def mpnNormalize (p : List Nat) : Nat → Nat
  | 0 => 0
  | n + 1 => if p.getD n 0 = 0 then mpnNormalize p n else n + 1

def zeros (n : Nat) : List Nat := List.replicate n 0

/-! ## REDC -/

/-- The loop of mpn_redc_1 (redc_1.c:36).  `t` is the part of `tp[]` from the current `tp` pointer
    upwards, `cs` the limbs already left behind (`tp[0] = carry; tp++`). -/
def redc1Loop (mp : List Nat) (n invm : Nat) : Nat → List Nat → List Nat → List Nat × List Nat
  | 0, cs, t => (cs, t)
  | j + 1, cs, t =>
      let q := (t.headD 0 * invm) % B                      -- q = (tp[0] * Nprim) & GMP_NUMB_MASK
      let (r, c) := addmul_1 (t.take n) mp q               -- tp[0] = mpn_addmul_1 (tp, mp, n, q)
      redc1Loop mp n invm j (cs ++ [c]) (r.tail ++ t.drop n)   -- tp++

/-- mpn_redc_1 (cp, tp, mp, n, Nprim): `tp` has 2n limbs. -/
def redc_1 (tp mp : List Nat) (invm : Nat) : List Nat :=
  let n := mp.length
  let (cs, hi) := redc1Loop mp n invm n [] tp
  let (cp, cy) := add_n hi cs                               -- cy = mpn_add_n (cp, tp, tp - n, n)
  if cy != 0 then (sub_n cp mp).1 else cp                   -- if (cy != 0) mpn_sub_n (cp, cp, mp, n)

/-- the two-limb step of mpn_redc_2 (redc_2.c:88-96); `t` = limbs from `up` upwards. -/
def redc2Step (mp : List Nat) (n : Nat) (mip0 mip1 : Nat) (cs t : List Nat) : List Nat × List Nat :=
  let u0 := t.getD 0 0; let u1 := t.getD 1 0
  -- umul2low (q[1], q[0], mip[1], mip[0], up[1], up[0])
  let (ph, pl) := umul_ppmm mip0 u0
  let q0 := pl
  let q1 := (ph + mip0 * u1 + mip1 * u0) % B
  -- mpn_addmul_2 (up, mp, n, q): rp[n] = addmul_1 (rp, up, n, vp[0]); return addmul_1 (rp+1, up, n, vp[1])
  let (r0, c0) := addmul_1 (t.take n) mp q0
  let t1 := r0 ++ [c0] ++ t.drop (n + 1)
  let (r1, c1) := addmul_1 ((t1.drop 1).take n) mp q1
  let t2 := t1.take 1 ++ r1 ++ t1.drop (n + 1)
  -- up[1] = c1; up[0] = up[n]; up[n] = upn; up += 2
  let upn := t.getD n 0
  (cs ++ [t2.getD n 0, c1], (t2.take n ++ [upn] ++ t2.drop (n + 1)).drop 2)

def redc2Loop (mp : List Nat) (n mip0 mip1 : Nat) : Nat → List Nat → List Nat → List Nat × List Nat
  | 0, cs, t => (cs, t)
  | j + 1, cs, t =>
      let (cs', t') := redc2Step mp n mip0 mip1 cs t
      redc2Loop mp n mip0 mip1 j cs' t'

/-- mpn_redc_2 (rp, up, mp, n, mip). -/
def redc_2 (up mp : List Nat) (mip0 mip1 : Nat) : List Nat :=
  let n := mp.length
  let (cs, t) :=
    if n % 2 != 0 then redc1Loop mp n mip0 1 [] up else ([], up)
  let (cs, hi) := redc2Loop mp n mip0 mip1 (n / 2) cs t
  let (rp, cy) := add_n hi cs
  if cy != 0 then (sub_n rp mp).1 else rp

/-- mpn_redc_n, value level (redc_n.c): `x = u_lo·ip mod B^n`, `y = x·m`, `rp = u_hi − y_hi`, `+ m` on borrow.
    Needs `ip·m ≡ 1 (mod B^n)` (then `y_lo = u_lo` and no borrow enters the high half). -/
def redc_n (u m n ip : Nat) : Nat :=
  let Bn := B ^ n
  let x := (u % Bn * ip) % Bn                 -- mpn_mullow_n (xp, up, ip, n)
  let y := x * m                              -- mulmod_bnm1 + "undo wrap around"
  let uh := u / Bn % Bn; let yh := y / Bn
  if uh < yh then (uh + Bn - yh + m) % Bn     -- cy = mpn_sub_n (rp, up+n, yp+n, n); if (cy) mpn_add_n (rp, rp, mp, n)
  else uh - yh

/-- mpn_binvert, value level: the inverse of odd `u` modulo `B^n` by Newton doubling from
    `modlimb_invert (u[0])`.  (binvert.c reaches the same unique value through bdiv_q and mulmod_bnm1.) -/
def binvertLoop (u n : Nat) : Nat → Nat → Nat → Nat
  | 0, x, _ => x % B ^ n
  | f + 1, x, prec =>
      if prec ≥ n then x % B ^ n else
      let P := B ^ (2 * prec)
      binvertLoop u n f ((x * (2 * P + 2 - (u * x) % P)) % P) (2 * prec)

def binvert (u n : Nat) : Nat := binvertLoop (u % B ^ n) n n (modlimb_invert (u % B)) 1

/-! ## Sliding window (powm.c:261-314, powlo.c) — generic in the arithmetic -/

/-- `do { r = sqr r; tw--; } while (tw != 0);` -/
def sqrDo {α : Type} (sqr : α → α) : Nat → α → α
  | 0, r => sqr r                 -- tw = 0 is outside the C domain (would wrap); one squaring
  | 1, r => sqr r
  | tw + 2, r => sqrDo sqr (tw + 1) (sqr r)

/-- first window: lines 261-271. Returns the starting value and the new `ebi`. -/
def windowInit {α : Type} (table : Nat → α) (ep : List Nat) (ebi w : Nat) : α × Nat :=
  let expbits := getbits ep ebi w
  let ebi := if ebi < w then 0 else ebi - w
  let cnt := ctz expbits
  (table ((expbits >>> cnt) >>> 1), ebi + cnt)

/-- INNERLOOP.  Fuel `ebi + 1` is enough (every round lowers `ebi`). -/
def windowLoop {α : Type} (sqr : α → α) (mul : α → α → α) (table : Nat → α) (ep : List Nat) (w : Nat) :
    Nat → α → Nat → α
  | 0, r, _ => r
  | fuel + 1, r, ebi =>
      if ebi = 0 then r
      else if getbit ep ebi = 0 then
        windowLoop sqr mul table ep w fuel (sqr r) (ebi - 1)
      else
        let expbits := getbits ep ebi w
        let tw := if ebi < w then w - (w - ebi) else w
        let ebi := if ebi < w then 0 else ebi - w
        let cnt := ctz expbits
        let tw := tw - cnt
        let ebi := ebi + cnt
        let expbits := expbits >>> cnt
        let r := sqrDo sqr tw r
        windowLoop sqr mul table ep w fuel (mul r (table (expbits >>> 1))) ebi

def windowExp {α : Type} (sqr : α → α) (mul : α → α → α) (table : Nat → α) (ep : List Nat) (ebi w : Nat) : α :=
  let (r, ebi) := windowInit table ep ebi w
  windowLoop sqr mul table ep w (ebi + 1) r ebi

/-- table of odd powers: `pp[0] = x`, `pp[i+1] = mul pp[i] b2`; `cnt` further entries. -/
def oddPowers {α : Type} (mul : α → α → α) (b2 : α) : Nat → α → List α
  | 0, x => [x]
  | c + 1, x => x :: oddPowers mul b2 c (mul x b2)

/-! ## mpn_powm, mpn_powlo, mpn_pow_1 -/

/-- gmp-impl.h default (this build's gmp-mparam.h does not override it; no native addmul_2/redc_2, so
    powm.c is compiled without WANT_REDC_2). -/
def REDC_1_TO_REDC_N_THRESHOLD : Nat := 100

/-- the reduction mpn_powm uses for modulus `mp` (n limbs, odd): a function on values `< B^(2n)`. -/
def reducer (thr : Nat) (mp : List Nat) : Nat → Nat :=
  let n := mp.length
  if n < thr then
    let invm := (B - modlimb_invert (mp.headD 1)) % B         -- modlimb_invert (mip[0], mp[0]); mip[0] = -mip[0]
    fun x => val (redc_1 (toLimbs (2 * n) x) mp invm)
  else
    let ip := binvert (val mp) n                               -- mpn_binvert (mip, mp, n, tp)
    fun x => redc_n x (val mp) n ip

/-- mpn_powm (rp, bp, bn, ep, en, mp, n, tp): value of `rp[0..n)`.
    Preconditions (powm.c:172): `{ep,en} > 1`, `ep[en-1] ≠ 0`, `n ≥ 1`, `mp[0]` odd. -/
def mpn_powm_val (thr : Nat) (bp ep mp : List Nat) : Nat :=
  let n := mp.length
  let m := val mp
  let ebi := sizeinbase2 ep
  let w := win_size ebi
  let red := reducer thr mp
  let pp0 := (val bp * B ^ n) % m                 -- redcify: tdiv_qr of {0^n, bp}
  let b2 := red (pp0 * pp0)                       -- mpn_sqr; REDC
  let pp := oddPowers (fun x y => red (x * y)) b2 (2 ^ (w - 1) - 1) pp0
  let r := windowExp (fun x => red (x * x)) (fun x y => red (x * y)) (fun i => pp.getD i 0) ep ebi w
  let r := red r                                  -- MPN_COPY (tp, rp, n); MPN_ZERO (tp + n, n); REDC
  if r ≥ m then r - m else r                      -- if (mpn_cmp (rp, mp, n) >= 0) mpn_sub_n (rp, rp, mp, n)

def mpn_powm (bp ep mp : List Nat) : List Nat :=
  toLimbs mp.length (mpn_powm_val REDC_1_TO_REDC_N_THRESHOLD bp ep mp)

/-- mpn_powlo (rp, bp, ep, en, n, tp): `bp[0..n)^e mod B^n`. -/
def mpn_powlo_val (bp ep : List Nat) (n : Nat) : Nat :=
  let Bn := B ^ n
  let b := val (bp.take n) % Bn
  let ebi := sizeinbase2 ep
  let w := win_size_lo ebi
  let b2 := (b * b) % Bn                          -- mpn_sqr (tp, bp, n); MPN_COPY (b2p, tp, n)
  let pp := oddPowers (fun x y => (x * y) % Bn) b2 (2 ^ (w - 1) - 1) b
  windowExp (fun x => (x * x) % Bn) (fun x y => (x * y) % Bn) (fun i => pp.getD i 0) ep ebi w

def mpn_powlo (bp ep : List Nat) (n : Nat) : List Nat := toLimbs n (mpn_powlo_val bp ep n)

/-- number of limbs of a value known to fit `k` limbs after `k -= (top == 0)`. -/
def dropTop (v k : Nat) : Nat := k - (if v / B ^ (k - 1) = 0 then 1 else 0)

/-- the bit loop of mpn_pow_1 (pow_1.c:71-87 / 97-113): `i` rounds left, `bits` = remaining exponent
    bits, most significant first. -/
def pow1Loop (b bn : Nat) : List Bool → Nat → Nat → Nat × Nat
  | [], r, rn => (r, rn)
  | bit :: rest, r, rn =>
      let (r, rn) :=
        if bit then
          let r' := r * b
          if bn = 1 then (r', rn + (if r' / B ^ rn != 0 then 1 else 0))   -- rp[rn] = mul_1; rn += rp[rn] != 0
          else (r', rn + bn - (if r' / B ^ (rn + bn - 1) = 0 then 1 else 0)) -- rn + bn - (mpn_mul (...) == 0)
        else (r, rn)
      match rest with
      | [] => (r, rn)                                                   -- if (--i == 0) break;
      | _ => let r2 := r * r
             pow1Loop b bn rest r2 (dropTop r2 (2 * rn))                -- mpn_sqr; rn = 2*rn; rn -= tp[rn-1] == 0

/-- bits of `x` below the top one, most significant first. -/
def lowerBits (x : Nat) : List Bool :=
  (List.range x.log2).reverse.map (fun i => x.testBit i)

/-- mpn_pow_1 (rp, bp, bn, exp, tp): returns the `rn` result limbs. (`bp[bn-1] ≠ 0`, `bn ≥ 1`.) -/
def mpn_pow_1 (bp : List Nat) (exp : Nat) : List Nat :=
  if exp = 0 then [1]
  else if exp = 1 then bp
  else
    let b := val bp; let bn := bp.length
    let r := b * b
    let (r, rn) := pow1Loop b bn (lowerBits exp) r (dropTop r (2 * bn))
    toLimbs rn r

/-! ## mpz_n_pow_ui, mpz_pow_ui, mpz_ui_pow_ui (value level) -/

def GMP_NUMB_HALFMAX : Nat := 2 ^ 32 - 1

/-- n_pow_ui.c:206  `while (blimb <= GMP_NUMB_HALFMAX) {...}` — returns (blimb, rl, e). -/
def smallPow : Nat → Nat → Nat → Nat → Nat × Nat × Nat
  | 0, blimb, rl, e => (blimb, rl, e)
  | f + 1, blimb, rl, e =>
      if blimb ≤ GMP_NUMB_HALFMAX then
        let rl := if e % 2 = 1 then (rl * blimb) % B else rl
        let e := e / 2
        if e = 0 then (blimb, rl, 0)
        else smallPow f ((blimb * blimb) % B) rl e
      else (blimb, rl, e)

/-- the square-and-multiply loops (`for ( ; i >= 0; i--)`): bits of `e` below the top one. -/
def sqrMulLoop (b : Nat) : List Bool → Nat → Nat
  | [], r => r
  | bit :: rest, r => sqrMulLoop b rest (if bit then r * r * b else r * r)

/-- n_pow_ui.c:204-278 and the `bsize == 1` loop of 411-432: a one-limb (odd part of the) base.
    Returns the power without the factor `2^rtwos_bits'` and the `rtwos_bits'` still to be applied. -/
def npuOneLimb (blimb e rtwos_bits : Nat) : Nat × Nat :=
  let (blimb, rl, e) := smallPow 64 blimb 1 e
  -- got_rl: combine left-over rtwos_bits into rl
  let (rl, rtwos_bits) :=
    if rtwos_bits != 0 && rl != 1 && rl >>> (64 - rtwos_bits) == 0
    then ((rl <<< rtwos_bits) % B, 0) else (rl, rtwos_bits)
  if e = 0 then (rl, rtwos_bits)                              -- rp[0] = rl; rsize = 1
  else
    let r := sqrMulLoop blimb (lowerBits e) blimb            -- mul_1 loop
    ((if rl != 1 then r * rl else r), rtwos_bits)             -- if (rl != 1) MPN_MUL_1 (rp, rsize, ralloc, rl)

/-- mpz_n_pow_ui (r, bp, bsize, e): `bneg` = sign of `bsize`, `bp` = the |bsize| limbs. -/
def n_pow_ui (bneg : Bool) (bp : List Nat) (e : Nat) : Int :=
  if e = 0 then 1                                           -- b^0 == 1, including 0^0 == 1
  else if bp.length = 0 then 0                              -- 0^e == 0
  else
    let rneg := bneg && e % 2 = 1
    -- Strip low zero limbs from b.
    let zl := (bp.takeWhile (· == 0)).length
    let bp := bp.drop zl
    let bsize := bp.length
    let rtwos_limbs := zl * e
    -- Strip low zero bits from b.
    let blimb := bp.headD 1
    let btwos := ctz blimb
    let blimb := blimb >>> btwos
    let rtwos_bits := (e * btwos) % B
    let rtwos_limbs := rtwos_limbs + rtwos_bits / 64
    let rtwos_bits := rtwos_bits % 64
    let (r, rtwos_bits) :=
      if bsize = 1 then npuOneLimb blimb e rtwos_bits
      else if bsize = 2 then
        let bsecond := bp.getD 1 0
        let blimb := if btwos != 0 then blimb ||| ((bsecond <<< (64 - btwos)) % B) else blimb
        let bsecond := bsecond >>> btwos
        if bsecond = 0 then npuOneLimb blimb e rtwos_bits   -- Two limbs became one after rshift.
        else
          let b := blimb + B * bsecond
          (sqrMulLoop b (lowerBits e) b, rtwos_bits)
      else
        let b := val bp >>> btwos                           -- MPN_RSHIFT_OR_COPY
        (sqrMulLoop b (lowerBits e) b, rtwos_bits)
    let r := r <<< rtwos_bits                               -- MPN_LSHIFT
    let r := r * B ^ rtwos_limbs
    if rneg then -(r : Int) else (r : Int)

def mpz_pow_ui (b : Int) (e : Nat) : Int := n_pow_ui (decide (b < 0)) (natLimbs b.natAbs) e
def mpz_ui_pow_ui (b e : Nat) : Int := n_pow_ui false (natLimbs b) e

/-! ## mpz_powm -/

/-- outcome of mpz_powm / mpz_powm_ui: the exception, or the limbs `rp` (as allocated) and `SIZ(r) = rn`. -/
inductive Res where
  | div0
  | mk (rp : List Nat) (rn : Nat)
  deriving Repr, BEq, DecidableEq

/-- what `PTR(r)[0..SIZ(r))` holds. -/
def Res.limbs : Res → List Nat
  | .div0 => []
  | .mk rp rn => rp.take rn

/-- well formed: the top limb `rp[rn-1]` exists and is non-zero (or `rn = 0`). -/
def Res.wf : Res → Bool
  | .div0 => true
  | .mk rp rn => rn == 0 || (rn ≤ rp.length && rp.getD (rn - 1) 0 != 0)

def Res.value? : Res → Option Int
  | .div0 => none
  | .mk rp rn => some (val (rp.take rn) : Nat)

/-- mpz_invert (new_b, b, m), value level: `none` = returns 0.  invert.c:40 refuses `b = 0` and `|m| = 1`. -/
def mpz_invert (b m : Int) : Option Nat :=
  if b = 0 || m.natAbs = 1 then none else modInv? b m.natAbs

/-- powm.c:118-151, the early `b^1 mod m` path.  `bp` (bn limbs), `mp` (n limbs). -/
def powmE1 (bneg : Bool) (bp mp : List Nat) : List Nat × Nat :=
  let n := mp.length; let bn := bp.length
  if bn ≥ n then
    let rp := toLimbs n (val bp % val mp)                 -- mpn_tdiv_qr (qp, rp, 0L, bp, bn, mp, n)
    let rn := mpnNormalize rp n                           -- rn = n; MPN_NORMALIZE (rp, rn)
    if bneg && rn != 0 then
      let rp := (sub mp (rp.take rn)).1                   -- mpn_sub (rp, mp, n, rp, rn)
      (rp, mpnNormalize rp n)                             -- rn = n; MPN_NORMALIZE (rp, rn)
    else (rp, rn)
  else if bneg then
    let rp := (sub mp bp).1                               -- mpn_sub (rp, mp, n, bp, bn)
    (rp, mpnNormalize rp n)                               -- rn = n; MPN_NORMALIZE (rp, rn)   [a1bb758]
  else (bp ++ zeros (n - bn), bn)                         -- MPN_COPY (rp, bp, bn); rn = bn

/-- powm.c:153-171: strip low zero limbs and bits of `m`.  Returns (mp', nodd, ncnt, cnt):
    `mp'[0..nodd)` is the odd part. -/
def stripM (mp : List Nat) : List Nat × Nat × Nat × Nat :=
  let n := mp.length
  let ncnt := (mp.takeWhile (· == 0)).length              -- while (mp[0] == 0) { mp++; ncnt++; }
  let mp1 := mp.drop ncnt
  let nodd := n - ncnt
  if mp1.headD 1 % 2 = 0 then
    let cnt := ctz (mp1.headD 1)                          -- count_trailing_zeros (cnt, mp[0])
    let newmp := (rshift mp1 cnt).1                       -- mpn_rshift (newmp, mp, nodd, cnt)
    let nodd := nodd - (if newmp.getD (nodd - 1) 0 = 0 then 1 else 0)
    (newmp, nodd, ncnt + 1, cnt)
  else (mp1, nodd, ncnt, 0)

/-- powm.c:196-268: the part for `2^t` and the CRT recombination.  `rodd` = result of mpn_powm (nodd limbs). -/
def powmEven (n : Nat) (bp ep modd : List Nat) (nodd ncnt cnt : Nat) (rodd : List Nat) : List Nat :=
  let bn := bp.length; let en := ep.length
  let bpl := if bn < ncnt then bp ++ zeros (ncnt - bn) else bp
  let powlo := mpn_powlo bpl ep ncnt
  let b0 := bpl.headD 0
  let r2 :=
    if b0 % 2 = 0 then
      if en > 1 then zeros ncnt
      else
        let t := (ncnt - (if cnt != 0 then 1 else 0)) * 64 + cnt
        let bcnt := (0x1213 >>> ((b0 &&& 7) <<< 1)) &&& 3
        if (ep.headD 0 * bcnt) % B ≥ t then zeros ncnt else powlo
    else powlo
  let mpl := if nodd < ncnt then modd ++ zeros (ncnt - nodd) else modd
  let odd_inv := binvert (val (mpl.take ncnt)) ncnt           -- mpn_binvert (odd_inv_2exp, mp, ncnt, ...)
  let r2 := (sub r2 (rodd.take (min nodd ncnt))).1            -- mpn_sub (r2, r2, ncnt, rp, min)
  let x := (odd_inv * val r2) % B ^ ncnt                      -- mpn_mullow_n (xp, odd_inv_2exp, r2, ncnt)
  let x := if cnt != 0 then x % 2 ^ ((ncnt - 1) * 64 + cnt) else x   -- xp[ncnt-1] &= (1 << cnt) - 1
  let yp := toLimbs (ncnt + nodd) (x * val modd)              -- mpn_mul (yp, ...)
  (add (yp.take n) rodd).1                                    -- mpn_add (rp, yp, n, rp, nodd)

/-- powm.c:153-277 for `{ep,en} > 1`. -/
def powmMain (bneg : Bool) (bp ep mp : List Nat) : List Nat × Nat :=
  let n := mp.length
  let (mp', nodd, ncnt, cnt) := stripM mp
  let modd := mp'.take nodd
  let rodd := mpn_powm bp ep modd                             -- mpn_powm (rp, bp, bn, ep, en, mp, nodd, tp)
  let rp := if ncnt != 0 then powmEven n bp ep modd nodd ncnt cnt rodd else rodd
  let rn := mpnNormalize rp n                                 -- rn = n; MPN_NORMALIZE (rp, rn)
  if ep.headD 0 % 2 = 1 && bneg && rn != 0 then
    let rp := (sub mp (rp.take rn)).1                         -- mpn_sub (rp, PTR(m), n, rp, rn)
    (rp, mpnNormalize rp n)
  else (rp, rn)

/-- powm.c:104-151 and 279-284: after the exponent's sign is dealt with.  `bneg`/`bp` = SIZ(b) < 0 / limbs of |b|. -/
def powmGo (ep mp : List Nat) (bneg : Bool) (bp : List Nat) : Res :=
  if bp.length = 0 then .mk [] 0                              -- if (bn == 0) SIZ(r) = 0
  else
    let p :=
      if ep.length = 1 && ep.headD 0 = 1 then powmE1 bneg bp mp
      else powmMain bneg bp ep mp
    .mk p.1 p.2                                               -- MPZ_REALLOC (r, rn); SIZ(r) = rn; MPN_COPY

/-- mpz_powm (r, b, e, m). -/
def mpz_powm (b e m : Int) : Res :=
  let mp := natLimbs m.natAbs
  let n := mp.length
  if n = 0 then .div0                                         -- DIVIDE_BY_ZERO
  else
    let ep := natLimbs e.natAbs
    if e = 0 then
      -- SIZ(r) = n != 1 || mp[0] != 1;  PTR(r)[0] = 1;
      .mk [1] (if n != 1 || mp.headD 0 != 1 then 1 else 0)
    else if e < 0 then
      match mpz_invert b m with
      | none => .div0                                         -- if (! mpz_invert (new_b, b, m)) DIVIDE_BY_ZERO
      | some nb => powmGo ep mp false (natLimbs nb)           -- b = new_b
    else powmGo ep mp (decide (b < 0)) (natLimbs b.natAbs)

/-! ## mpz_powm_ui -/

/-- one "reduce if it has at least mn limbs" step: `(t, tn) ↦ (x, xn)` of powm_ui.c:196-205. -/
def puiReduce (m mn t tn : Nat) : Nat × Nat :=
  if tn < mn then (t, tn) else (t % m, mn)

/-- main loop of mpz_powm_ui over the exponent bits below the top one. -/
def puiLoop (m mn b bn : Nat) : List Bool → Nat → Nat → Nat × Nat
  | [], x, xn => (x, xn)
  | bit :: rest, x, xn =>
      let t := x * x                                           -- mpn_sqr (tp, xp, xn)
      let (x, xn) := puiReduce m mn t (dropTop t (2 * xn))
      let (x, xn) :=
        if bit then
          let t := x * b                                       -- mpn_mul (tp, xp, xn, bp, bn)
          puiReduce m mn t (dropTop t (xn + bn))
        else (x, xn)
      puiLoop m mn b bn rest x xn

/-- powm_ui.c:178-256: the power loop (or the single conditional subtraction for `el = 1`, where
    `c == 0`), then the final reduction by the unshifted modulus.  `ms` = modulus shifted left by `zc`. -/
def puiX (ms mn zc bv bn el : Nat) : Nat × Nat :=
  let p :=
    if el = 1 then                                           -- c == 0
      if bn = mn && bv ≥ ms then (bv - ms, bn) else (bv, bn) -- if (xn == mn && mpn_cmp (xp, mp, mn) >= 0) mpn_sub_n
    else puiLoop ms mn bv bn (lowerBits el) bv bn
  if zc != 0 then
    let t := p.1 <<< zc                                      -- cy = mpn_lshift (tp, xp, xn, m_zero_cnt); tp[xn] = cy
    let tn := p.2 + (if t / B ^ p.2 != 0 then 1 else 0)      -- xn += cy != 0
    let q := puiReduce ms mn t tn
    (q.1 >>> zc, q.2)                                        -- mpn_rshift (xp, xp, xn, m_zero_cnt)
  else p

/-- mpz_powm_ui (r, b, el, m). -/
def mpz_powm_ui (b : Int) (el : Nat) (m : Int) : Res :=
  if el < 20 then
    let mp0 := natLimbs m.natAbs
    let mn := mp0.length
    if mn = 0 then .div0
    else if el = 0 then .mk [1] (if mn = 1 && mp0.headD 0 = 1 then 0 else 1)
    else
      let zc := clz (mp0.getLastD 1)                           -- count_leading_zeros (m_zero_cnt, mp[mn-1])
      let ms := m.natAbs <<< zc                                -- mpn_lshift (new_mp, mp, mn, m_zero_cnt)
      let bp := natLimbs b.natAbs
      let bb :=
        if bp.length > mn then
          (b.natAbs % ms, (natLimbs (b.natAbs % ms)).length)   -- reduce (...); bn = mn; MPN_NORMALIZE (bp, bn)
        else (b.natAbs, bp.length)
      if bb.2 = 0 then .mk [] 0
      else
        let q := puiX ms mn zc bb.1 bb.2 el
        let xp := toLimbs mn q.1
        let xn := mpnNormalize xp q.2                          -- MPN_NORMALIZE (xp, xn)
        let p :=
          if el % 2 = 1 && b < 0 && xn != 0 then
            let rp := (sub mp0 (xp.take xn)).1                 -- mpn_sub (xp, mp, mn, xp, xn)
            (rp, mpnNormalize rp mn)
          else (xp, xn)
        .mk p.1 p.2
  else mpz_powm b (el : Int) m                                 -- MPZ_FAKE_UI (e, ep, el); mpz_powm (r, b, e, m)

end Mpir.Powm
