/-
  mpq layer (properties C12, the mpq part of C11, and the mpq alias patterns of C05).  Core Lean only.

  An mpq variable is a pair of mpz cells `num`, `den`; an mpz cell is modelled by its integer value
  (size field + limbs taken together).  Variables live in a store `Heap = Nat → Q` and every
  operation takes *variable ids*, performing the same sequence of mpz-level reads and writes as the C
  source, so that "rop is the same variable as op1/op2" is id equality and a numerator overwritten
  before the denominator of the same operand is read would be visible in the result.
  Temporaries (`gcd`, `tmp1`, `tmp2`, `t`, `numtmp`) are C locals that can never alias a variable: they
  are `let`-bound values, re-bound where the C re-assigns them.

  mpz primitives are used at their specification on `Int`:
    mpz_gcd            -> Int.gcd (always non-negative)
    mpz_divexact_gcd   -> `/` (only ever applied where the division is exact)
    mpz_mul/add/sub    -> * + -
    mpz_mul_2exp       -> * 2^n
  `none` as a result stands for DIVIDE_BY_ZERO (SIGFPE through __gmp_exception).
  File:line citations refer to /repo/mpq/*.c at the pinned commit.
-/
import Mpir.Base
namespace Mpir.Mpq

structure Q where
  num : Int
  den : Int
  deriving Repr, BEq, DecidableEq, Inhabited

/-- The store of mpq variables, addressed by id. -/
abbrev Heap := Nat → Q

/-- store to the numerator cell of variable `i` -/
def setNum (h : Heap) (i : Nat) (v : Int) : Heap :=
  fun j => if j = i then { num := v, den := (h j).den } else h j

/-- store to the denominator cell of variable `i` -/
def setDen (h : Heap) (i : Nat) (v : Int) : Heap :=
  fun j => if j = i then { num := (h j).num, den := v } else h j

/-- what `mpq_init` leaves: 0/1 -/
def initQ : Q := ⟨0, 1⟩
def emptyHeap : Heap := fun _ => initQ

/-! ### mpz-level helpers (specifications of the callees) -/

/-- mpz_gcd -/
def zgcd (a b : Int) : Int := (Int.gcd a b : Nat)
/-- mpz_divexact_gcd (mpz/divegcd.c): exact division by a positive gcd -/
def divexact (a d : Int) : Int := a / d
/-- number of significant bits of a magnitude (0 for 0) -/
def bits (n : Nat) : Nat := if n = 0 then 0 else Nat.log2 n + 1
/-- number of limbs of a magnitude: `ABSIZ` -/
def limbs (n : Nat) : Nat := (bits n + 63) / 64
/-- the `_mp_size` field of an mpz holding `z` -/
def size (z : Int) : Int := if z < 0 then -(limbs z.natAbs : Nat) else (limbs z.natAbs : Nat)
/-- `count_leading_zeros` of the most significant limb of a non-zero magnitude -/
def clzTop (n : Nat) : Nat := 64 * limbs n - bits n
/-- `count_trailing_zeros` (argument non-zero) -/
def ctz (n : Nat) : Nat :=
  if h : n = 0 then 0 else if n % 2 = 1 then 0 else ctz (n / 2) + 1
termination_by n
decreasing_by exact Nat.div_lt_self (Nat.pos_of_ne_zero h) (by decide)
/-- mpn_cmp on magnitudes of equal limb count -/
def cmpNat (a b : Nat) : Int := if a < b then -1 else if b < a then 1 else 0

/-! ### mpq/aors.c -/

/-- `mpq_aors` (aors.c:30-91); `sub = false` is mpq_add (fun = mpz_add), `true` is mpq_sub. -/
def aors (sub : Bool) (rop op1 op2 : Nat) (h : Heap) : Heap :=
  let f : Int → Int → Int := fun a b => if sub then a - b else a + b
  let gcd := zgcd (h op1).den (h op2).den                 -- aors.c:52
  if gcd ≠ 1 then                                          -- :53  ! MPZ_EQUAL_1_P (gcd)
    let tmp1 := divexact (h op2).den gcd                   -- :57
    let tmp1 := (h op1).num * tmp1                         -- :58
    let tmp2 := divexact (h op1).den gcd                   -- :60
    let tmp2 := (h op2).num * tmp2                         -- :61
    let t := f tmp1 tmp2                                   -- :65
    let tmp2 := divexact (h op1).den gcd                   -- :66
    let gcd := zgcd t gcd                                  -- :68
    if gcd = 1 then                                        -- :69
      let h := setNum h rop t                              -- :71
      setDen h rop ((h op2).den * tmp2)                    -- :72  (op2.den read after rop.num was stored)
    else
      let h := setNum h rop (divexact t gcd)               -- :76
      let tmp1 := divexact (h op2).den gcd                 -- :77  (read after the store of :76)
      setDen h rop (tmp1 * tmp2)                           -- :78
  else
    let tmp1 := (h op1).num * (h op2).den                  -- :85
    let tmp2 := (h op2).num * (h op1).den                  -- :86
    let h := setNum h rop (f tmp1 tmp2)                    -- :87
    setDen h rop ((h op1).den * (h op2).den)               -- :88  (both read after the store of :87)

def add := aors false     -- aors.c:94-98
def sub := aors true      -- aors.c:100-104

/-! ### mpq/mul.c -/

/-- `mpq_mul` (mul.c:27-68) -/
def mul (prod op1 op2 : Nat) (h : Heap) : Heap :=
  if op1 = op2 then                                        -- mul.c:33  pointer equality
    let h := setNum h prod ((h op1).num * (h op1).num)     -- :36
    setDen h prod ((h op1).den * (h op1).den)              -- :37  (read after the store of :36)
  else
    let gcd1 := zgcd (h op1).num (h op2).den               -- :51
    let gcd2 := zgcd (h op2).num (h op1).den               -- :52
    let tmp1 := divexact (h op1).num gcd1                  -- :54
    let tmp2 := divexact (h op2).num gcd2                  -- :55
    let h := setNum h prod (tmp1 * tmp2)                   -- :57
    let tmp1 := divexact (h op2).den gcd1                  -- :59  (read after the store of :57)
    let tmp2 := divexact (h op1).den gcd2                  -- :60
    setDen h prod (tmp1 * tmp2)                            -- :62

/-! ### mpq/div.c -/

/-- `mpq_div` (div.c:26-76); `none` = DIVIDE_BY_ZERO -/
def div (quot op1 op2 : Nat) (h : Heap) : Option Heap :=
  if (h op2).num = 0 then none else                        -- div.c:33-34
  let gcd1 := zgcd (h op1).num (h op2).num                 -- :47
  let gcd2 := zgcd (h op2).den (h op1).den                 -- :48
  let tmp1 := divexact (h op1).num gcd1                    -- :50
  let tmp2 := divexact (h op2).den gcd2                    -- :51
  let numtmp := tmp1 * tmp2                                -- :53
  let tmp1 := divexact (h op2).num gcd1                    -- :55
  let tmp2 := divexact (h op1).den gcd2                    -- :56
  let h := setDen h quot (tmp1 * tmp2)                     -- :58
  let h := setNum h quot numtmp                            -- :62
  if (h quot).den < 0 then                                 -- :65
    let h := setDen h quot (-(h quot).den)                 -- :67
    some (setNum h quot (-(h quot).num))                   -- :68
  else some h

/-! ### mpq/inv.c -/

/-- `mpq_inv` (inv.c:26-69).  An mpz cell is size field + limb array; here the size stores of
    :40-41 and the limb moves (pointer swap :48-55, or copies :66-67) are fused per cell: the new
    numerator gets sign `den_size` with the limbs of the old denominator, the new denominator gets
    sign `num_size` with the limbs of the old numerator.  All size reads happen at :29-30, before any
    store. -/
def inv (dest src : Nat) (h : Heap) : Option Heap :=
  let num_size := Int.sign (h src).num                     -- inv.c:29 (only the sign of the size matters here)
  let den_size := Int.sign (h src).den                     -- :30
  if num_size = 0 then none else                           -- :32-33
  let (num_size, den_size) :=
    if num_size < 0 then (-num_size, -den_size) else (num_size, den_size)   -- :35-39
  if dest = src then
    -- :40-41 size stores, :48-55 the two limb arrays change places (no limb is copied)
    let nlimbs := ((h dest).num.natAbs : Int)
    let dlimbs := ((h dest).den.natAbs : Int)
    let h := setNum h dest (den_size * dlimbs)
    some (setDen h dest (num_size * nlimbs))
  else
    let h := setNum h dest (den_size * ((h src).den.natAbs : Int))   -- :41 + :66
    some (setDen h dest (num_size * ((h src).num.natAbs : Int)))     -- :40 + :67 (src.num read after dest.num stored)

/-! ### mpq/neg.c, abs.c -/

/-- `mpq_neg` (neg.c:28-48).  :41 copies the numerator limbs, its size is stored at :47. -/
def neg (dst src : Nat) (h : Heap) : Heap :=
  let num := (h src).num                                   -- neg.c:31 (size) / :41 (limbs)
  let h := if src ≠ dst then setDen h dst (h src).den else h   -- :33, :42, :44
  setNum h dst (-num)                                      -- :47

/-- `mpq_abs` (abs.c:28-48) -/
def abs (dst src : Nat) (h : Heap) : Heap :=
  let num := (h src).num                                   -- abs.c:31
  let h := if dst ≠ src then setDen h dst (h src).den else h   -- :34, :42, :44
  setNum h dst ((num.natAbs : Int))                      -- :47

/-! ### mpq/canonicalize.c -/

/-- `mpq_canonicalize` (canonicalize.c:27-55); `none` = DIVIDE_BY_ZERO -/
def canonicalize (op : Nat) (h : Heap) : Option Heap :=
  if (h op).den = 0 then none else                         -- canonicalize.c:33-34
  let gcd := zgcd (h op).num (h op).den                    -- :42
  let h := if gcd ≠ 1 then                                 -- :43
      let h := setNum h op (divexact (h op).num gcd)       -- :45
      setDen h op (divexact (h op).den gcd)                -- :46
    else h
  if (h op).den < 0 then                                   -- :49
    let h := setNum h op (-(h op).num)                     -- :51
    some (setDen h op (-(h op).den))                       -- :52
  else some h

/-! ### mpq/set*.c, swap.c -/

/-- `mpq_set` (set.c:25-43) -/
def set (dest src : Nat) (h : Heap) : Heap :=
  let h := setNum h dest (h src).num                       -- set.c:31-36
  setDen h dest (h src).den                                -- :38-42 (read after the numerator store)

/-- `mpq_set_z` (set_z.c:25-40) -/
def set_z (dest : Nat) (z : Int) (h : Heap) : Heap :=
  let h := setNum h dest z                                 -- set_z.c:31-36
  setDen h dest 1                                          -- :38-39

/-- `mpq_set_si` (set_si.c:26-56), `num` a C long, `den` a C unsigned long.  No canonicalisation
    beyond 0/d -> 0/1; `den = 0` gives a zero denominator (size field `den != 0`). -/
def set_si (dest : Nat) (num : Int) (den : Nat) (h : Heap) : Heap :=
  if num = 0 then                                          -- set_si.c:42
    let h := setNum h dest 0                               -- :46
    setDen h dest 1                                        -- :45, :54-55
  else
    let h := setNum h dest num                             -- :50-51
    setDen h dest ((den : Int))                          -- :54-55

/-- `mpq_set_ui` (set_ui.c:26-52) -/
def set_ui (dest : Nat) (num den : Nat) (h : Heap) : Heap :=
  if num = 0 then                                          -- set_ui.c:38
    let h := setNum h dest 0                               -- :42
    setDen h dest 1                                        -- :41, :50-51
  else
    let h := setNum h dest ((num : Int))                 -- :46-47
    setDen h dest ((den : Int))                          -- :50-51

/-- `mpq_set_num` (set_num.c:25-36) -/
def set_num (dest : Nat) (z : Int) (h : Heap) : Heap := setNum h dest z
/-- `mpq_set_den` (set_den.c:25-36) -/
def set_den (dest : Nat) (z : Int) (h : Heap) : Heap := setDen h dest z

/-- `mpq_get_num` (get_num.c): the value stored into the destination mpz (size and limbs copied) -/
def get_num (src : Nat) (h : Heap) : Int := (h src).num
/-- `mpq_get_den` (get_den.c) -/
def get_den (src : Nat) (h : Heap) : Int := (h src).den

/-- `mpq_swap` (swap.c:25-62): alloc, size and pointer of the numerators change places, then of the
    denominators; the three field swaps of one cell are fused. -/
def swap (u v : Nat) (h : Heap) : Heap :=
  let un := (h u).num                                      -- swap.c:32,37,42
  let vn := (h v).num                                      -- :33,38,43
  let h := setNum h v un                                   -- :34,39,44
  let h := setNum h u vn                                   -- :35,40,45
  let ud := (h u).den                                      -- :48,53,58
  let vd := (h v).den                                      -- :49,54,59
  let h := setDen h v ud                                   -- :50,55,60
  setDen h u vd                                            -- :51,56,61

/-! ### mpq/equal.c, cmp.c, cmp_ui.c, cmp_si.c -/

/-- `mpq_equal` (equal.c:26-60): sizes then limbs of the numerators, then of the denominators. -/
def equal (op1 op2 : Nat) (h : Heap) : Int :=
  if (h op1).num ≠ (h op2).num then 0                      -- equal.c:36-46
  else if (h op1).den ≠ (h op2).den then 0                 -- :48-57
  else 1                                                   -- :59

/-- step 3 of `mpq_cmp_numden` (cmp.c:108-144) on the magnitudes: cross multiply and compare.
    For op2_is_int tmp1 is NUM(op1) itself (:111-116) — the same value, since then den2 = 1. -/
def cmpCross (num1_sign : Int) (n1 d1 n2 d2 : Nat) : Int :=
  let tmp1 := n1 * d2                                      -- :115 / :121-128
  let tmp2 := n2 * d1                                      -- :131-138
  let tmp1_size : Int := (limbs tmp1 : Nat)                -- size after the `-= 0 == mpn_mul(...)` adjustment
  let tmp2_size : Int := (limbs tmp2 : Nat)
  let cc := if tmp1_size - tmp2_size ≠ 0 then tmp1_size - tmp2_size
            else cmpNat tmp1 tmp2                          -- :141-142
  if num1_sign < 0 then -cc else cc                        -- :144

/-- steps 1 and 2 of `mpq_cmp_numden` (cmp.c:72-106) on the magnitudes `n1 = |num1|`, `n2 = |num2|`:
    limb-count pre-check, bit-count pre-check, then step 3. -/
def cmpPre (num1_sign : Int) (n1 d1 n2 d2 : Nat) (op2_is_int : Int) : Int :=
  let num1_size : Int := (limbs n1 : Nat)                  -- :54
  let num2_size : Int := (limbs n2 : Nat)                  -- :72
  let den1_size : Int := (limbs d1 : Nat)
  let den2_size : Int := (limbs d2 : Nat)
  let tmp1_size := num1_size + den2_size                   -- :74
  let tmp2_size := num2_size + den1_size                   -- :75
  if tmp1_size > tmp2_size + 1 then num1_sign else         -- :82-84
  if tmp2_size + op2_is_int > tmp1_size + 1 then -num1_sign else   -- :85-87
  let bits1 : Int := tmp1_size * 64 - (clzTop n1 : Nat) - (clzTop d2 : Nat)   -- :94-96
  let bits2 : Int := tmp2_size * 64 - (clzTop n2 : Nat) - (clzTop d1 : Nat)   -- :98-100
  if bits1 > bits2 + 1 then num1_sign else                 -- :102-103
  if bits2 + op2_is_int > bits1 + 1 then -num1_sign else   -- :104-105
  cmpCross num1_sign n1 d1 n2 d2                           -- :108-144

/-- `mpq_cmp_numden` (cmp.c:27-145) on the values of the four mpz operands.  The returned integer is
    the C return value (only its sign is specified). -/
def cmpNumDen (n1 d1 n2 d2 : Int) : Int :=
  let num1_size := size n1                                 -- cmp.c:30
  let num2_size := size n2                                 -- :32
  if num1_size = 0 then -num2_size else                    -- :46-47
  if num2_size = 0 then num1_size else                     -- :48-49
  if decide (num1_size < 0) ≠ decide (num2_size < 0) then num1_size else -- :50-51  (num1_size ^ num2_size) < 0
  let num1_sign := num1_size                               -- :53
  let op2_is_int : Int := if d2 = 1 then 1 else 0          -- :58-59  (den2_size | d2h) == 1
  if op2_is_int = 1 ∧ d1 = 1 then                          -- :60  op2_is_int == (den1_size | d1h): both are integers
    if num1_sign ≠ num2_size then num1_sign - num2_size    -- :65-66
    else
      let cmp := cmpNat n1.natAbs n2.natAbs                -- :68
      if num1_sign > 0 then cmp else -cmp                  -- :69
  else
    cmpPre num1_sign n1.natAbs d1.natAbs n2.natAbs d2.natAbs op2_is_int   -- :72-144

/-- `mpq_cmp` (cmp.c:147-151) -/
def cmp (op1 op2 : Nat) (h : Heap) : Int :=
  cmpNumDen (h op1).num (h op1).den (h op2).num (h op2).den

/-- `_mpq_cmp_ui` (cmp_ui.c:28-92) on the value of op1; `none` = DIVIDE_BY_ZERO (den2 = 0). -/
def cmpUiVal (n1 d1 : Int) (num2 den2 : Nat) : Option Int :=
  let num1_size := size n1                                 -- cmp_ui.c:31
  let den1_size := size d1                                 -- :32
  if den2 = 0 then none else                               -- :55-56
  if num1_size = 0 then some (if num2 ≠ 0 then -1 else 0) else   -- :58-59
  if num1_size < 0 then some num1_size else                -- :60-61
  if num2 = 0 then some num1_size else                     -- :62-63
  if num1_size > den1_size + 1 then some num1_size else    -- :67-69
  if den1_size > num1_size + 1 then some (-num1_size) else -- :70-72
  let tmp1 := n1.natAbs * den2                             -- :78-81
  let tmp2 := d1.natAbs * num2                             -- :83-86
  let tmp1_size := ((limbs tmp1 : Nat) : Int)
  let tmp2_size := ((limbs tmp2 : Nat) : Int)
  some (if tmp1_size - tmp2_size ≠ 0 then tmp1_size - tmp2_size
        else cmpNat tmp1 tmp2)                             -- :88-89

def cmp_ui (op1 : Nat) (num2 den2 : Nat) (h : Heap) : Option Int :=
  cmpUiVal (h op1).num (h op1).den num2 den2

/-- `_mpq_cmp_si` (cmp_si.c:30-58); `n` a C long, `d` a C unsigned long.  `-n` for the most negative
    long wraps to 2^63 when converted to unsigned, which is its magnitude. -/
def cmp_si (q : Nat) (n : Int) (d : Nat) (h : Heap) : Option Int :=
  if (h q).num ≥ 0 then                                    -- cmp_si.c:36
    if n ≥ 0 then cmpUiVal (h q).num (h q).den n.natAbs d  -- :38-39
    else some 1                                            -- :41
  else
    if n ≥ 0 then some (-1)                                -- :45-46
    else                                                   -- :49-55 qabs shares the limbs of q
      (cmpUiVal ((h q).num.natAbs : Int) (h q).den n.natAbs d).map (fun c => -c)

/-! ### mpq/md_2exp.c -/

/-- the limb-skipping loop md_2exp.c:40-47 on the magnitude of `rsrc`: while `n >= 64` and the low
    limb is zero, drop a limb.  Returns (remaining magnitude from `p`, remaining n). -/
def skipLimbs (m n : Nat) : Nat × Nat :=
  if h : n ≥ 64 ∧ m % B = 0 then skipLimbs (m / B) (n - 64) else (m, n)
termination_by n
decreasing_by omega

/-- `mord_2exp` (md_2exp.c:30-80) at value level: returns (new ldst, new rdst) from (lsrc, rsrc, n). -/
def mordR (rsrc : Int) (n : Nat) : Int × Nat :=
  let (m, n) := skipLimbs rsrc.natAbs n                    -- md_2exp.c:40-50
  let plow := m % B
  if plow % 2 = 1 ∨ n = 0 then                             -- :54
    (if rsrc ≥ 0 then (m : Int) else -(m : Int), n)    -- :57-58, :74
  else
    let shift := if plow = 0 then n else min (ctz plow) n  -- :63-69
    let m := m / 2 ^ shift                                 -- :70-71
    (if rsrc ≥ 0 then (m : Int) else -(m : Int), n - shift)   -- :72, :74

def mord_2exp (ldst_set rdst_set : Heap → Int → Heap) (lsrc rsrc : Heap → Int) (n : Nat) (h : Heap) : Heap :=
  let (r, n) := mordR (rsrc h) n
  let h := rdst_set h r                                    -- :51-74  rdst is stored first
  if n ≠ 0 then ldst_set h (lsrc h * 2 ^ n)                -- :76-77  lsrc read after the rdst store
  else ldst_set h (lsrc h)                                 -- :78-79

/-- `mpq_mul_2exp` (md_2exp.c:83-88) -/
def mul_2exp (dst src : Nat) (n : Nat) (h : Heap) : Heap :=
  mord_2exp (fun h v => setNum h dst v) (fun h v => setDen h dst v)
            (fun h => (h src).num) (fun h => (h src).den) n h

/-- `mpq_div_2exp` (md_2exp.c:90-103) -/
def div_2exp (dst src : Nat) (n : Nat) (h : Heap) : Heap :=
  if (h src).num = 0 then                                  -- :93
    let h := setNum h dst 0                                -- :95
    setDen h dst 1                                         -- :96-97
  else
    mord_2exp (fun h v => setDen h dst v) (fun h v => setNum h dst v)
              (fun h => (h src).den) (fun h => (h src).num) n h

/-! ### mpq/set_d.c (64-bit limbs: LIMBS_PER_DOUBLE = 2) -/

/-- the denormal loop of extract-dbl.c: shift `manl` left until its top bit is set -/
def normDenorm (fuel : Nat) (manl : Nat) (exp : Int) : Nat × Int :=
  match fuel with
  | 0 => (manl, exp)
  | fuel + 1 =>
    let manl := (manl * 2) % B
    let exp := exp - 1
    if manl / 2 ^ 63 = 0 then normDenorm fuel manl exp else (manl, exp)

/-- first half of `__gmp_extract_double` (extract-dbl.c, IEEE branch, 64-bit limb): the 64-bit
    mantissa `manl` with its top bit set and the biased exponent, for a positive finite double with
    exponent field `e` and fraction `f`. -/
def extractMant (e f : Nat) : Nat × Int :=
  -- manl = 1<<63 | manh<<43 | manl<<11
  let manl0 := 2 ^ 63 + f * 2 ^ 11
  if e = 0 then normDenorm 64 manl0 1 else (manl0, (e : Int))

/-- second half of `__gmp_extract_double`: remove the bias and split `manl` over the two limbs
    `rp[1], rp[0]` at a limb boundary; returns (rp as a 2-limb number, exp) with
    `d = rp * B^(exp-2)`. -/
def extractSplit (manl : Nat) (exp : Int) : Nat × Int :=
  let exp := exp - 1022                                    -- remove IEEE bias
  let sc := ((exp + 4096) % 64).toNat                      -- sc = (unsigned) (exp + 64*64) % 64
  let exp := (exp + 4096) / 64 - 64 + 1
  if sc ≠ 0 then ((manl / 2 ^ (64 - sc)) * B + (manl * 2 ^ sc) % B, exp)   -- rp[1] = manl >> (64-sc); rp[0] = manl << sc
  else (manl * B, exp - 1)                                 -- rp[1] = manl; rp[0] = 0; exp--

/-- `__gmp_extract_double` (extract-dbl.c) for a positive finite double -/
def extractDouble (e f : Nat) : Nat × Int :=
  extractSplit (extractMant e f).1 (extractMant e f).2

/-- `mpq_set_d` (set_d.c:36-160) for a finite double with sign bit `s`, exponent field `e < 2047`,
    fraction `f`; NaN/Inf (`e = 2047`) raise `__gmp_invalid_operation` and are rejected by the caller. -/
def setDVal (s : Bool) (e f : Nat) : Q :=
  if e = 0 ∧ f = 0 then ⟨0, 1⟩ else                        -- set_d.c:67-73 (exp = 0 <= 1)
  let tp := (extractDouble e f).1                          -- :53
  let exp := (extractDouble e f).2
  let tp0 := tp % B
  let tp1 := tp / B
  if exp ≤ 1 then                                          -- :64
    let np := if tp0 = 0 then tp1 else tp                  -- :97-100
    let nn : Int := if tp0 = 0 then 1 else 2
    let dn : Int := -exp + nn + 1                          -- :75, :102
    let dp := B ^ (dn - 1).toNat                           -- :104-107
    let c := ctz ((np % B) ||| (dp % B))                   -- :108
    let np := np / 2 ^ c                                   -- :111
    let dp := dp / 2 ^ c                                   -- :113
    ⟨if s then -(np : Int) else (np : Int), (dp : Int)⟩    -- :116-117
  else
    let np := tp * B ^ (exp - 2).toNat                     -- :121-133 (nn = exp limbs, low ones zero)
    ⟨if s then -(np : Int) else (np : Int), 1⟩             -- :155-158

def set_d (dest : Nat) (s : Bool) (e f : Nat) (h : Heap) : Heap :=
  let q := setDVal s e f
  setDen (setNum h dest q.num) dest q.den


/-! ### mpq/set_f.c -/

/-- strip low zero limbs of a non-zero magnitude (MPN_STRIP_LOW_ZEROS_NOT_ZERO, set_f.c:46-47):
    returns the stripped magnitude and the number of limbs removed -/
def stripLow (m : Nat) (fuel : Nat) : Nat × Nat :=
  match fuel with
  | 0 => (m, 0)
  | fuel + 1 => if m % B = 0 ∧ m ≠ 0 then let (m', k) := stripLow (m / B) fuel; (m', k + 1) else (m, 0)

/-- `mpq_set_f` (set_f.c:27-101) at value level.  The mpf operand is `±F * B^(fexp - abs_fsize)` with
    `abs_fsize = limbs F` (mpf keeps a non-zero top limb; low limbs may be zero). -/
def setFVal (neg : Bool) (F : Nat) (fexp : Int) : Q :=
  if F = 0 then ⟨0, 1⟩ else                                -- set_f.c:36-43
  let abs_fsize0 := limbs F
  let (F, k) := stripLow F abs_fsize0                      -- :46-47
  let abs_fsize : Int := ((abs_fsize0 - k : Nat) : Int)
  let flow := F % B
  let sgn : Int → Int := fun v => if neg then -v else v
  if fexp ≥ abs_fsize then                                 -- :49
    ⟨sgn ((F * B ^ (fexp - abs_fsize).toNat : Nat) : Int), 1⟩   -- :54-61
  else
    let den_size := (abs_fsize - fexp).toNat               -- :69
    if flow % 2 = 1 then                                   -- :75
      ⟨sgn (F : Int), ((B ^ den_size : Nat) : Int)⟩        -- :79-81, :98-99
    else
      let den_size := den_size - 1                         -- :88
      let shift := ctz flow                                -- :89
      let num := F / 2 ^ shift                             -- :91-92
      let den := B ^ den_size * 2 ^ (64 - shift)           -- :94-95  GMP_LIMB_HIGHBIT >> (shift-1)
      ⟨sgn (num : Int), (den : Int)⟩                       -- :98-99

def set_f (dest : Nat) (neg : Bool) (F : Nat) (fexp : Int) (h : Heap) : Heap :=
  let q := setFVal neg F fexp
  setDen (setNum h dest q.num) dest q.den

/-! ### mpq/get_d.c -/

/-- `mpn_get_d` (mpn/generic/get_d.c, IEEE ONE_LIMB path) at value level: the double, as its 64-bit
    pattern, nearest to `±q * 2^exp` toward zero; `q ≠ 0`.  Overflow gives ±infinity, values below the
    smallest denormal give +0.0 (the sign is dropped there, get_d.c returns the constant 0.0). -/
def getDBits (neg : Bool) (q : Nat) (exp : Int) : Nat :=
  let nb := bits q
  let exp : Int := exp + ((nb : Nat) : Int) - 1            -- exponent of the leading bit (get_d.c: exp += 64*size; exp -= lshift + 1)
  let m0 := q * 2 ^ 53 / 2 ^ nb                            -- top 53 bits: (m0 << lshift | m1 >> rshift) >> 11
  let s := if neg then 2 ^ 63 else 0
  if exp ≥ 1024 then s + 2047 * 2 ^ 52                     -- ieee_infinity
  else if exp ≤ -1023 then
    if exp ≤ -1075 then 0                                  -- return 0.0
    else
      let rshift := (-1022 - exp).toNat
      s + m0 / 2 ^ rshift                                  -- denormal: exponent field 0
  else s + (exp + 1023).toNat * 2 ^ 52 + m0 % 2 ^ 52

/-- `mpq_get_d` (get_d.c:95-167): pad or chop the numerator so that the quotient has N_QLIMBS+1 = 3
    (or 2) limbs, truncating division, then `mpn_get_d`. -/
def get_d (src : Nat) (h : Heap) : Nat :=
  let n := (h src).num
  let d := (h src).den.natAbs
  if n = 0 then 0 else                                     -- get_d.c:114-115
  let nsize : Int := (limbs n.natAbs : Nat)                -- :118
  let dsize : Int := (limbs d : Nat)                       -- :119
  let prospective_qsize := nsize - dsize + 1               -- :123
  let qsize : Int := 3                                     -- :124  N_QLIMBS + 1
  let zeros := qsize - prospective_qsize                   -- :126
  let exp := -zeros * 64                                   -- :127
  let chop := max (-zeros) 0                               -- :129
  let np := n.natAbs / B ^ chop.toNat                      -- :130-131
  let zeros := zeros + chop                                -- :132
  let np := np * B ^ zeros.toNat                           -- :150-156
  let q := np / d                                          -- :159 mpn_tdiv_qr
  getDBits (n < 0) q exp                                   -- :162-164

end Mpir.Mpq
