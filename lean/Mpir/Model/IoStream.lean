/-
  C17, finishing the stream layer.  Core Lean only (linked into the driver).

  1. `mpf_out_str` / `mpf_inp_str` on mpf OBJECTS: the stream part of Mpir/Model/Io.lean composed with the
     bit-exact models of `mpf_get_str` / `mpf_set_str` (Mpir/Model/MpfStr.lean, property C13).
  2. `mpz_import` / `mpz_export` on mpz OBJECTS (MPZ_REALLOC, the fast-path dispatch, the final MPN_NORMALIZE and
     `SIZ (z) = zsize` on every path; `*countp = 0` and nothing written for zero), and the generic byte loop
     alone (`*_generic`: the code with the fast-path block removed) for comparison.
  3. raw format with a byte count that does not fit the 4-byte header (|size| ≥ 2^31 bytes).
-/
import Mpir.Model.Io
import Mpir.Model.MpfStr
namespace Mpir.Io
open Mpir

/-! ## 1. mpf text streams on objects -/

/-- `mpf_out_str (stream, base, n_digits, op)` (mpf/out_str.c:46-109): `mpf_get_str`, then sign, "0.", the digits,
    'e' / '@' and the exponent in decimal; returns the characters written, 0 if `ferror` -/
def mpf_out_str_obj (s : OStream) (base : Int) (n_digits : Nat) (op : Mpf.F) : Int × OStream :=
  let base := if base = 0 then 10 else base                                               -- :55-56
  let n_digits := if n_digits = 0 then MpfStr.maxDigits base.natAbs op.prec else n_digits -- :57-58 MPF_SIGNIFICANT_DIGITS
  let g := MpfStr.get_str base n_digits op                                                -- :71
  mpf_out_str s base g.1 g.2                                                              -- :72-108

/-- `mpf_inp_str (rop, stream, base)` (mpf/inp_str.c:29-84) on the readable remainder `r`: skip white space, collect
    the token up to white space / EOF, `mpf_set_str`; 0 if that refuses the token (`rop` untouched), else the
    number of bytes consumed -/
def mpf_inp_str_rd (rop : Mpf.F) (r : List Nat) (base : Int) : Nat × Mpf.F × List Nat :=
  let sc := mpf_inp_str_scan r                                    -- :46-67, 75
  let res := MpfStr.set_str rop.prec rop base sc.1                -- :77
  (if res.1 = -1 then 0 else sc.2.1, res.2, sc.2.2)               -- :80-83  str_size + nread

def mpf_inp_str (rop : Mpf.F) (s : Stream) (base : Int) : Nat × Mpf.F × List Nat :=
  mpf_inp_str_rd rop s.avail base

/-! ## 2. import / export on objects -/

/-- `mpz_import (z, count, order, size, endian, nail, data)` (mpz/import.c:40-172): `zsize` limbs are
    allocated (:51-52, new limbs = `junk`), one of the three MPN_COPY / MPN_BSWAP / MPN_REVERSE fast paths or the
    generic loop fills `zp[0..zsize)` (:60-166), and at `done:` (:168-171) — on EVERY path — MPN_NORMALIZE and
    `SIZ (z) = zsize`.  The limbs above the new size keep what the fill wrote. -/
def mpz_import_obj (z : Mpz) (count : Nat) (order : Int) (size : Nat) (endian : Int) (nail align : Nat)
    (data : List Nat) (junk : Nat → Nat) : Mpz :=
  let numb := 8 * size - nail
  let zsize := (count * numb + 63) / 64                                                   -- :51
  let z1 := mpz_realloc z zsize junk                                                      -- :52
  let zp := (mpz_import_fill false count order size endian nail align data).take zsize   -- :55-166
  let n := normSize zp                                                                    -- :170 MPN_NORMALIZE
  { z1 with d := zp ++ z1.d.drop zp.length, size := (n : Int) }                           -- :171

/-- `mpz_import` with the fast-path block (import.c:60-90) removed: always the generic loop -/
def mpz_import_generic (count : Nat) (order : Int) (size : Nat) (endian : Int) (nail : Nat) (data : List Nat) :
    List Nat :=
  mpz_import count order size endian nail 1 data       -- a misaligned buffer never takes a fast path

/-- `mpz_export (data, countp, order, size, endian, nail, z)` (mpz/export.c:40-181) on the object: `SIZ (z) == 0`
    stores `*countp = 0` and returns without touching `data` (:57-62); otherwise the limbs `PTR (z)[0..|SIZ|)` go
    through the dispatch of `mpz_export_core` -/
def mpz_export_obj (order : Int) (size : Nat) (endian : Int) (nail align : Nat) (z : Mpz) : Nat × List Nat :=
  if z.size = 0 then (0, [])                                                              -- :58-62
  else mpz_export order size endian nail align z.limbs

/-- `mpz_export` with the fast-path block (export.c:78-104) removed -/
def mpz_export_generic (order : Int) (size : Nat) (endian : Int) (nail : Nat) (zl : List Nat) : Nat × List Nat :=
  mpz_export order size endian nail 1 zl

/-! ## 3. raw format beyond the 4-byte header -/

/-- what `mpz_out_raw_m` (out_raw.c:57-163) stores for a magnitude of `bytes` bytes: `ssize = 4 + bytes` is
    computed BEFORE the count is truncated to the four header bytes `bytes >> 24 … bytes` (:145-156), so for
    `bytes ≥ 2^31` the whole magnitude is written behind a header that holds `±bytes mod 2^32`.
    (`out_raw_m` of Mpir/Model/Io.lean is this function; here the two parts are named.) -/
def rawHeaderOf (x : Int) : List Nat := hdrBytes (if x < 0 then -(byteLen x.natAbs : Int) else byteLen x.natAbs)

/-- the byte count `mpz_inp_raw` decodes from the header `mpz_out_raw` wrote for `x`: the header's 32 bits read as
    a two's-complement number (inp_raw.c:66-79) -/
def rawHeaderDecoded (x : Int) : Int := csizeOf (rawHeaderOf x)

end Mpir.Io
