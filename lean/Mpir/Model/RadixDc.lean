/-
  C06 — radix conversion, the divide-and-conquer paths.  Executable models, core Lean only.

  Mirrors (file:line cited at each definition; value level: a power is kept as the limb list the C stores,
  arithmetic on it is done on its value, sizes are the sizes the C computes):
    mpn/generic/get_str.c   mpn_get_str: the `powers_t` table (exptab, squarings, the final multiplication by
                            big_base, stripped low zero limbs / `shift`), mpn_dc_get_str
    mpn/generic/set_str.c   mpn_set_str (general case), mpn_set_str_compute_powtab, mpn_dc_set_str
  The basecases (`sb_get_str`, `bc_set_str`), the power-of-two paths and the tables come from Mpir/Model/Radix.lean.
  Every threshold is a parameter; the instances with the thresholds of the build are `mpn_get_str_full`,
  `mpn_set_str_full`.

  Where the C would read outside the power table (`powtab - 1` below entry 0 in mpn_dc_get_str, `powtab + 1`
  above the top entry in mpn_dc_set_str — undefined behaviour) the model answers `none`; the theorems show that
  this never happens for thresholds at or above the minima of tune/tuneup.c.
-/
import Mpir.Model.Radix
namespace Mpir.RadixDc
open Mpir Mpir.Radix

/-- one `powers_t` entry (gmp-impl.h:3885): `p` = the `n` limbs at `.p` (low zero limbs already stripped),
    `shift` = weight of the lowest limb, `dib` = digits_in_base.  The power is `val p · B^shift`; `n = p.length`. -/
structure Pow where
  p : List Nat
  shift : Nat
  dib : Nat
  deriving Repr, BEq, DecidableEq

/-! ## IEEE-754 binary64 pieces needed for `xn` (get_str.c:412) -/

/-- round-to-nearest-even of the positive rational `num/den` to 53 significant bits, as `(m, up, down)`
    meaning `m · 2^up / 2^down` (no overflow/underflow in the range used) -/
def rnRat (num den : Nat) : Nat × Nat × Nat :=
  if num = 0 ∨ den = 0 then (0, 0, 0) else
  let s := 64 + Nat.log2 den                      -- num·2^s/den ≥ 2^63: more than 53 bits
  let Q := (num <<< s) / den
  let R := (num <<< s) % den
  let sh := Nat.log2 Q + 1 - 53
  let q := Q >>> sh
  let rem := Q % 2 ^ sh
  let half := 2 ^ (sh - 1)
  let up : Bool := decide (rem > half) || (rem == half && (R != 0 || q % 2 == 1))
  ((if up then q + 1 else q), sh, s)

/-- `xn = 1 + un*(mp_bases[base].chars_per_bit_exactly*GMP_NUMB_BITS)/mp_bases[base].chars_per_limb`
    (get_str.c:412): evaluated in binary64 — `(double) un`, the exact product `c·64`, a rounded multiply, a
    rounded divide by `(double) chars_per_limb`, a rounded `1 +`, then truncation to mp_size_t. -/
def xnOf (base un : Nat) : Nat :=
  let d := decodeDouble (cpbeBits base)              -- c = d.1 / 2^d.2
  let a := rnRat un 1                                -- (double) un
  let t1 := rnRat ((a.1 <<< a.2.1) * (d.1 * 64)) (2 ^ (a.2.2 + d.2))
  let t2 := rnRat (t1.1 <<< t1.2.1) (2 ^ t1.2.2 * charsPerLimb base)
  let t3 := rnRat (2 ^ t2.2.2 + (t2.1 <<< t2.2.1)) (2 ^ t2.2.2)
  (t3.1 <<< t3.2.1) / 2 ^ t3.2.2

/-! ## mpn_get_str: the table of powers (get_str.c:403-498) -/

/-- `for (pn = xn; pn != 1; pn = (pn + 1) >> 1) exptab[n_pows++] = pn;` (get_str.c:413) — collected in
    ascending order: the result is `[exptab[n_pows-1], …, exptab[0]] = [2, …, xn]` (empty for xn ≤ 1), so entry
    `j` is the `exptab[n_pows - 1 - j]` the C indexes from the other end. -/
def expAscGo (pn : Nat) (acc : List Nat) : List Nat :=
  if _h : pn ≤ 1 then acc else expAscGo ((pn + 1) / 2) (pn :: acc)
termination_by pn
decreasing_by omega

def expAsc (xn : Nat) : List Nat := expAscGo xn []

/-- `while (t[0] == 0) { t++; n--; shift++; }` (get_str.c:460) -/
def stripLow : List Nat → Nat → List Nat × Nat
  | 0 :: rest, sh => stripLow rest (sh + 1)
  | t, sh => (t, sh)

/-- the loop `for (pi = 2; pi < n_pows; pi++)` (get_str.c:437): one round per target exponent
    `e = exptab[n_pows - pi]`; `p` = the previous power (limbs), `bexp`, `shift`, `dib` as in the C.
    Emits powtab[pi] as it stands before the final multiplication. -/
def getPowLoop (bb cpl : Nat) : List Nat → List Nat → Nat → Nat → Nat → List Pow
  | [], _, _, _, _ => []
  | e :: es, p, bexp, shift, dib =>
      let t := val p * val p                          -- mpn_sqr (t, p, n); n *= 2; n -= t[n-1] == 0
      let dib := 2 * dib                              -- digits_in_base *= 2
      let bexp := 2 * bexp                            -- bexp *= 2
      let adj := decide (bexp + 1 < e)                -- if (bexp + 1 < exptab[n_pows - pi])
      let t := if adj then t * bb else t              --   mpn_mul_1 (t, t, n, big_base); n += cy != 0
      let dib := if adj then dib + cpl else dib       --   digits_in_base += chars_per_limb
      let bexp := if adj then bexp + 1 else bexp      --   bexp += 1
      let (tl, shift) := stripLow (natLimbs t) (2 * shift)      -- shift *= 2; strip low zero limbs
      ⟨tl, shift, dib⟩ :: getPowLoop bb cpl es tl bexp shift dib

/-- the loop `for (pi = 1; pi < n_pows; pi++)` (get_str.c:474): multiply by big_base once more, strip at most
    one low zero limb (`if (t[0] == 0)`), `digits_in_base += chars_per_limb` -/
def finalMul (bb cpl : Nat) (pw : Pow) : Pow :=
  match natLimbs (val pw.p * bb) with
  | 0 :: rest => ⟨rest, pw.shift + 1, pw.dib + cpl⟩
  | t => ⟨t, pw.shift, pw.dib + cpl⟩

/-- powtab[0 .. pi-1] as mpn_get_str leaves it, for a given `xn` (entry 0 first); the conversion starts at the
    last entry (`powtab - 1 + pi`, get_str.c:502). -/
def getPowtabX (bb cpl xn : Nat) : List Pow :=
  let p0 : Pow := ⟨[bb], 0, cpl⟩                     -- powtab[0] (get_str.c:420); never multiplied
  match (expAsc xn).dropLast with                   -- [exptab[n_pows-1], …, exptab[1]]
  | [] => [p0]                                       -- n_pows ≤ 1: pi ends as 1
  | _ :: targets =>                                  -- powtab[1] = big_base (get_str.c:426), then pi = 2 … n_pows-1
      p0 :: ((⟨[bb], 0, cpl⟩ : Pow) :: getPowLoop bb cpl targets [bb] 1 0 cpl).map (finalMul bb cpl)

def getPowtab (base un : Nat) : List Pow :=
  getPowtabX (bigBase base) (charsPerLimb base) (xnOf base un)

/-! ## mpn_dc_get_str (get_str.c:267) -/

/-- mpn_sb_get_str with the `len` argument (get_str.c:247-257): pad with zeros on the left up to `len`
    digits, then the digits the basecase produced -/
def sbLen (base len : Nat) (u : List Nat) : List Nat :=
  let s := sb_get_str base u
  List.replicate (len - s.length) 0 ++ s

/-- mpn_dc_get_str.  The table is given from the current entry downwards (`pw :: rest`: `powtab` = pw,
    `powtab - 1` = head of rest); `[]` = below entry 0.  `u` = {up, un} with un = u.length (not necessarily
    normalised), `len` = the LEN argument (0 = as many digits as required). -/
def dcGetStr (T base : Nat) : List Pow → Nat → List Nat → Option (List Nat)
  | [], len, u =>
      -- `powtab` points below the table: only the branch that does not read it is defined
      if u.length < T ∧ u.length = 0 then some (List.replicate len 0) else none
  | pw :: rest, len, u =>
      let un := u.length
      if un < T then                                           -- BELOW_THRESHOLD (un, GET_STR_DC_THRESHOLD)
        if un != 0 then some (sbLen base len u)
        else some (List.replicate len 0)
      else
        let pwn := pw.p.length
        let sn := pw.shift
        -- un < pwn + sn || (un == pwn + sn && mpn_cmp (up + sn, pwp, un - sn) < 0)
        if un < pwn + sn ∨ (un = pwn + sn ∧ cmp (u.drop sn) pw.p < 0) then
          dcGetStr T base rest len u
        else
          -- mpn_tdiv_qr (qp, rp + sn, 0L, up + sn, un - sn, pwp, pwn): quotient un-sn-pwn+1 limbs, remainder
          -- pwn limbs stored above the untouched low sn limbs of up
          let hi := val (u.drop sn)
          let P := val pw.p
          let qfull := toLimbs (un - sn - pwn + 1) (hi / P)
          let qn0 := un - sn - pwn
          let qn := qn0 + (if qfull.getD qn0 0 != 0 then 1 else 0)      -- qn += qp[qn] != 0
          let q := qfull.take qn
          let r := u.take sn ++ toLimbs pwn (hi % P)
          let len' := if len != 0 then len - pw.dib else len            -- if (len != 0) len -= digits_in_base
          match dcGetStr T base rest len' q, dcGetStr T base rest pw.dib r with
          | some a, some b => some (a ++ b)
          | _, _ => none

/-- mpn_get_str (get_str.c:324) with the divide-and-conquer branch modelled; `dcT`, `preT` =
    GET_STR_DC_THRESHOLD, GET_STR_PRECOMPUTE_THRESHOLD.  Raw digit values; `none` = the C leaves its table. -/
def mpn_get_str_dc (dcT preT base : Nat) (up : List Nat) : Option (List Nat) :=
  if up.length == 0 then some [0]
  else if pow2P base then some (get_str_pow2 base up)
  else if up.length < preT then some (sb_get_str base up)
  else dcGetStr dcT base (getPowtab base up.length).reverse 0 up

/-- with the thresholds of the build -/
def mpn_get_str_full (base : Nat) (up : List Nat) : Option (List Nat) :=
  mpn_get_str_dc Gen.getStrDcThreshold Gen.getStrPrecomputeThreshold base up

/-! ## mpn_set_str_compute_powtab (set_str.c:127) -/

/-- `while (t[0] == 0 && (t[1] & ((big_base & -big_base) - 1)) == 0) { t++; n--; shift++; }`
    (set_str.c:197); `mask = (big_base & -big_base) - 1` -/
def stripLow2 (mask : Nat) : List Nat → Nat → List Nat × Nat
  | t0 :: t1 :: rest, sh =>
      if t0 == 0 && (t1 &&& mask) == 0 then stripLow2 mask (t1 :: rest) (sh + 1) else (t0 :: t1 :: rest, sh)
  | t, sh => (t, sh)

/-- `big_base & -big_base` on 64-bit limbs -/
def lowBit (bb : Nat) : Nat := bb &&& ((B - bb) % B)

/-- the loop `for (pi = i - 1; pi >= 0; pi--)` (set_str.c:165); first argument = pi + 1, `m = un - 1`;
    `acc` = the entries above, so that the result lists powtab[0], powtab[1], …, powtab[i]. -/
def setPowGo (bb cpl m : Nat) : Nat → List Nat → Nat → Nat → List Pow → List Pow
  | 0, _, _, _, acc => acc
  | pi + 1, p, shift, dib, acc =>
      let t := val p * val p                           -- mpn_sqr (t, p, n); n = 2n-1; n += t[n] != 0
      let dib := 2 * dib                               -- digits_in_base *= 2
      let div := ((m >>> pi) &&& 2) == 0               -- if ((((un - 1) >> pi) & 2) == 0)
      let t := if div then t / bb else t               --   mpn_divexact_1 (t, t, n, big_base); n -= t[n-1] == 0
      let dib := if div then dib - cpl else dib        --   digits_in_base -= chars_per_limb
      let (tl, shift) := stripLow2 (lowBit bb - 1) (natLimbs t) (2 * shift)
      setPowGo bb cpl m pi tl shift dib (⟨tl, shift, dib⟩ :: acc)

/-- mpn_set_str_compute_powtab (powtab, powtab_mem, un, base): entries 0 … i with
    `i = GMP_LIMB_BITS - 1 - clz (un - 1)`; `un - 1 = 0` (count_leading_zeros of 0 is undefined) gives `[]`. -/
def setPowtabX (bb cpl un : Nat) : List Pow :=
  if un ≤ 1 then [] else
  let i := Nat.log2 (un - 1)
  setPowGo bb cpl (un - 1) i [bb] 0 cpl [⟨[bb], 0, cpl⟩]

def setPowtab (base un : Nat) : List Pow := setPowtabX (bigBase base) (charsPerLimb base) un

/-! ## mpn_dc_set_str (set_str.c:212) -/

/-- mpn_dc_set_str.  The table is given from the current entry upwards (`pw :: rest`: `powtab` = pw,
    `powtab + 1` = head of rest); `[]` = above the top entry.  Returns {rp, size} as the C leaves it (the
    size is `hn + powtab->n + sn` minus one when the top limb is zero, so high zero limbs are possible). -/
def dcSetStr (T base : Nat) : List Pow → List Nat → Option (List Nat)
  | [], _ => none
  | pw :: rest, str =>
      let len_lo := pw.dib
      if str.length ≤ len_lo then
        if str.length < T then some (bc_set_str base str)          -- BELOW_THRESHOLD (str_len, SET_STR_DC_THRESHOLD)
        else dcSetStr T base rest str
      else
        let len_hi := str.length - len_lo
        let hi := if len_hi < T then some (bc_set_str base (str.take len_hi))
                  else dcSetStr T base rest (str.take len_hi)
        let lo := if len_lo < T then some (bc_set_str base (str.drop len_hi))
                  else dcSetStr T base rest (str.drop len_hi)
        match hi, lo with
        | some h, some l =>
            let hn := h.length
            let sn := pw.shift
            let pn := pw.p.length
            let n := hn + pn + sn
            -- hn == 0: MPN_ZERO (rp, powtab->n + sn); else mpn_mul (rp + sn, …) and MPN_ZERO (rp, sn)
            let rp := if hn == 0 then List.replicate (pn + sn) 0
                      else List.replicate sn 0 ++ toLimbs (pn + hn) (val pw.p * val h)
            -- if (ln != 0) { cy = mpn_add_n (rp, rp, tp, ln); mpn_incr_u (rp + ln, cy); }   needs ln ≤ n
            if l.length > n then none else
            let sum := toLimbs n (val rp + val l)
            some (if sum.getLast? == some 0 then sum.dropLast else sum)      -- n - (rp[n - 1] == 0)
        | _, _ => none

/-- mpn_set_str (set_str.c:60) with the divide-and-conquer branch modelled; `dcT`, `preT` =
    SET_STR_DC_THRESHOLD, SET_STR_PRECOMPUTE_THRESHOLD.  `str` = digit values, most significant first. -/
def mpn_set_str_dc (dcT preT base : Nat) (str : List Nat) : Option (List Nat) :=
  if pow2P base then some (set_str_pow2 base str)
  else if str.length < preT then some (bc_set_str base str)
  else
    let un := str.length / charsPerLimb base + 1               -- un = str_len / chars_per_limb + 1
    dcSetStr dcT base (setPowtab base un) str

/-- with the thresholds of the build -/
def mpn_set_str_full (base : Nat) (str : List Nat) : Option (List Nat) :=
  mpn_set_str_dc Gen.setStrDcThreshold Gen.setStrPrecomputeThreshold base str

end Mpir.RadixDc
