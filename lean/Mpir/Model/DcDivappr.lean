/-
  C02, multi-limb layer: mpn_dc_divappr_q (divide-and-conquer approximate quotient), VALUE level with explicit limb
  counts, in the style of Mpir/Model/DcDiv.lean.  Core Lean only.

  Source mirrored (tie = correspondence, op `dc_divappr_q_model` in Mpir/Ops/DcDivappr.lean, harness/ops_dcdivappr.c):
    mpn/generic/dc_divappr_q.c    mpn_dc_divappr_q, SB_DIVAPPR_Q_CUTOFF     (whole file)
    mpn/generic/sb_divappr_q.c    __divappr_helper                           (:35-46)
  (This tree has no mpn_dc_divappr_q_n: MPIR's mpn_dc_divappr_q is W. Hart's own routine, not GMP's.)

  (Line numbers are those of the repaired file now in /repo.)
  Shape of the model.  A limb area of k limbs is a natural number below B^k; `np + off` is `/ B^off`, a sub-area is
  `/ B^off % B^len`.  After the cut of the divisor (:49-53), the initial compare/subtract (:56-58) and the exact
  reduction loop (:64-70) the C always has qn == dn - 1 =: n (recorded in `ok`); the window W = {np, 2n+1} and
  D = {dp, n+1}.  The routine keeps the partial remainder only from limb position n-1 of W upwards: a product limb
  d_i·q_j is subtracted iff i + j ≥ n - 1 (by the recursive call for the high half, by mpn_mulmid for the middle
  diagonals, by the recursive call for the low half).  What a call leaves behind and the caller reads again are the
  three limbs np[dn-2 .. dn] (`r3`, the "truncated remainder" modulo B^3); the limbs below are never written, the limbs
  above are never read again.  That footprint is part of the model (a callee returns `r3`, the caller rebuilds the
  limbs it reads from its own untouched limbs and the callee's `r3`); the correspondence run compares `r3` and the
  quotient with the real function.
  Callees that belong to other parts enter as follows:
    mpn_sb_div_qr, mpn_dc_div_qr  (:67-68) exact quotient and remainder: `sbQr` (contract, proved for the limb-level model
                      in Props/C02_sb.lean) and Mpir.DcDiv.dcDivQr (the model of Props/C02_dc.lean)
    mpn_sb_divappr_q  (:101, :140) a parameter `leaf` of the model; the driver instantiates it with the limb-level model
                      Mpir.SbDivQ.sb_divappr_q (`sbLeaf`)
    mpn_mulmid        (:111) the middle product as defined in mulmid.c:32-38 (`mulmidV`)
    mpn_cmp, mpn_sub_n, mpn_add_n, mpn_sub_1, mpn_add_1  comparison / arithmetic modulo B^k with the borrow (DcDiv.subN, addN)
  Theorems: MpirProofs/Props/C02_dcappr.lean.
-/
import Mpir.Base
import Mpir.Model.DcDiv
import Mpir.Model.SbDivQ
namespace Mpir.DcDivappr
open Mpir Mpir.DcDiv

/-- result of a divappr call: `q` = the nn-dn quotient limbs, `qh` the returned high limb, `r3` = the three limbs
    np[dn-2 .. dn] after the call, `ok`: every callee was inside its ASSERTed domain and qn == dn - 1 held after the
    reduction loop; `wl`: see the field -/
structure Res where
  q : Nat
  qh : Nat
  r3 : Nat
  ok : Bool
  /-- largest number of passes of the correction loop dc_divappr_q.c:116 (`while ((mp_limb_signed_t) cy < 0)`) in the call tree -/
  wl : Nat := 0
  deriving DecidableEq, Repr

def bad : Res := { q := 0, qh := 0, r3 := 0, ok := false }

/-- the type of the callee mpn_sb_divappr_q (qp, np, nn, dp, dn, dinv) at value level: nn dn N D ↦ result -/
abbrev Leaf := Nat → Nat → Nat → Nat → Res

/-- mpn_sb_divappr_q through its limb-level model (Mpir/Model/SbDivQ.lean) -/
def sbLeaf : Leaf := fun nn dn N D =>
  let d := toLimbs dn D
  let r := Mpir.SbDivQ.sb_divappr_q (toLimbs nn N) d
    (Mpir.DivWord.invert_pi1 (d.getD (dn - 1) 0) (d.getD (dn - 2) 0))
  { q := val r.1, qh := r.2.2, r3 := val r.2.1,
    ok := decide (2 < dn) && decide (dn < nn) && decide (B ^ dn / 2 ≤ D) && decide (D < B ^ dn) }

/-- contract of mpn_sb_div_qr (qp, np, nn, dp, dn, dinv) (ASSERTs dn > 2, nn ≥ dn, high bit of dp[dn-1]); proved for the
    limb-level model: Mpir.SbDiv.sb_div_qr_contract -/
def sbQr (nn dn Nw Dw : Nat) : DcDiv.Res :=
  { q := Nw / Dw % B ^ (nn - dn), r := Nw % Dw, qh := Nw / Dw / B ^ (nn - dn), ah := 0, al := 0, mx := 0,
    ok := decide (2 < dn) && decide (dn ≤ nn) && decide (B ^ dn / 2 ≤ Dw) && decide (Dw < B ^ dn) && decide (Nw < B ^ nn) }

/-- the loop of __divappr_helper, sb_divappr_q.c:40-44 `for (qn--; qn >= 0; qn--) mpn_add_1 (np, np, 3, dp[qn])`,
    on the three limbs x = np[0..2] (the stores qp[qn] = ~0 are done by the callers below) -/
def helperLoop (D : Nat) : Nat → Nat → Nat
  | 0, x => x
  | i + 1, x => helperLoop D i ((x + D / B ^ i % B) % B ^ 3)

/-- __divappr_helper (qp, np, dp, k), sb_divappr_q.c:35-46, as far as np[0..2] go: w0 = np[0], Wt = {np+1, k+1},
    D = {dp, k+1}.  Only the two low limbs of the mpn_sub_n reach np[1], np[2]. -/
def helper3 (k w0 Wt D : Nat) : Nat :=
  let a := (subN (k + 1) Wt D).1                                -- :37 mpn_sub_n (np + 1, np + 1, dp, qn + 1)
  let hi2 := (a % B ^ 2 + D / B ^ k % B) % B ^ 2                -- :38 add_ssaaaa (np[2], np[1], np[2], np[1], 0, dp[qn])
  helperLoop D k (w0 + B * hi2)                                 -- :40-44

/-- mpn_mulmid (rp, ap, an, bp, bn), mulmid.c:32-38: Σ a_i b_j B^(i+j-bn+1) over bn-1 ≤ i+j ≤ an-1.  For a fixed j the
    limbs a_i with bn-1-j ≤ i ≤ an-1-j are an-bn+1 consecutive limbs of a. -/
def mulmidV (an bn A Bv : Nat) : Nat → Nat
  | 0 => 0
  | j + 1 => mulmidV an bn A Bv j + (Bv / B ^ j % B) * (A % B ^ an / B ^ (bn - 1 - j) % B ^ (an - bn + 1))

/-- dc_divappr_q.c:64-70, `while (dn - 1 < qn)`: exact reduction of the top of the window by blocks of sh quotient
    limbs.  State: qn, W = {np, dn+qn}, Qup = the quotient limbs stored so far (qp + qn … qp + q_orig), ok.
    The return values cy2 are dropped as in the C. -/
def redLoop (T dn D : Nat) : Nat → Nat → Nat → Nat → Bool → Nat × Nat × Nat × Bool
  | 0, qn, W, Qup, ok => (qn, W, Qup, ok)
  | f + 1, qn, W, Qup, ok =>
    if dn - 1 < qn then                                         -- :64
      let sh := min dn (qn - dn + 1)                            -- :66
      let Wt := W / B ^ (qn - sh)                               -- np + nn - dn - sh, dn + sh limbs
      let r := if sh ≤ T then sbQr (dn + sh) dn Wt D            -- :67 mpn_sb_div_qr
               else dcDivQr T (dn + sh) dn Wt D                 -- :68 mpn_dc_div_qr
      redLoop T dn D f (qn - sh) (W % B ^ (qn - sh) + B ^ (qn - sh) * r.r) (Qup * B ^ sh + r.q) (ok && r.ok)   -- :69
    else (qn, W, Qup, ok)

/-- dc_divappr_q.c:127-128 `for (i = 0; i < sh - 1 && qp[sl + i] == ~CNST_LIMB(0); i++)
      cy += mpn_add_1 (np + nn - qn - 2, np + nn - qn - 2, sl + 2, dp[dn - sl - 3 - i]);`
    Qh = {qp + sl, sh} after the decrement, X = {np + n - 1, sl + 2}, dp[dn - sl - 3 - i] = dp[sh - 2 - i]. -/
def fixLoop (sl sh D Qh : Nat) : Nat → Nat → Nat → Nat → Nat × Nat
  | 0, _, X, cy => (X, cy)
  | f + 1, i, X, cy =>
    if i < sh - 1 ∧ Qh / B ^ i % B = B - 1 then
      let a := addN (sl + 2) X (D / B ^ (sh - 2 - i) % B)
      fixLoop sl sh D Qh f (i + 1) a.1 ((cy + a.2) % B)
    else (X, cy)

/-- dc_divappr_q.c:116-129 on the state (QQ = {qp + sl, q_orig - sl}, qh, X = {np + n - 1, sl + 2}, cy, passes so far):
    `if ((mp_limb_signed_t) cy < 0) { … }` in the original C (rep = false: one pass), `while (…)` in the repaired C
    (rep = true; the model gives up after `loopFuel` passes; Props/C02_dcappr.lean: one pass always suffices). -/
def hiCorr (rep : Bool) (sl sh D qn0 : Nat) : Nat → Nat × Nat × Nat × Nat × Nat → Nat × Nat × Nat × Nat × Nat
  | 0, st => st
  | f + 1, st =>
    if st.2.2.2.1 ≥ B / 2 then                                  -- :116 (mp_limb_signed_t) cy < 0
      let b := subN (qn0 - sl) st.1 1                           -- :119 qh -= mpn_sub_1 (qp + sl, qp + sl, q_orig - sl, 1)
      let a := addN (sl + 2) st.2.2.1 (D / B ^ (sh - 1))        -- :125 cy += mpn_add_n (…, dp + dn - sl - 2, sl + 2)
      let g := fixLoop sl sh D (b.1 % B ^ sh) sh 0 a.1 ((st.2.2.2.1 + a.2) % B)   -- :127-128
      let st' := (b.1, (st.2.1 + B - b.2) % B, g.1, g.2, st.2.2.2.2 + 1)
      if rep then hiCorr rep sl sh D qn0 f st' else st'
    else st

/-- dc_divappr_q.c:96-104, the high half of the quotient: (Qh, np[n+sl-1 .. n+sl+1], ok, wl) -/
def hiPart (C : Nat) (leaf : Leaf) (recur : Nat → Nat → Nat → Nat → Res) (n dn W D sl sh : Nat) : Nat × Nat × Bool × Nat :=
  if W / B ^ (n + sl) ≥ D / B ^ sl then                         -- :96 mpn_cmp (np + sl + dn - 1, dp + dn - sh - 1, sh + 1)
    (B ^ sh - 1, helper3 sh (W / B ^ (n + sl - 1) % B) (W / B ^ (n + sl)) (D / B ^ sl), true, 0)   -- :97
  else
    let r := if sh < C then leaf (dn + sh) dn (W / B ^ sl) D    -- :100-101 mpn_sb_divappr_q (qp + sl, np + sl, dn + sh, …)
             else recur (dn + sh) dn (W / B ^ sl) D             -- :103 (the returned high limb is dropped)
    (r.q, r.r3, r.ok, r.wl)

/-- dc_divappr_q.c:131-145, the low half: X = {np + n - 1, sl + 2} and cy after the correction loop;
    (Ql, np[n-1 .. n+1], ok, wl) -/
def loPart (C : Nat) (leaf : Leaf) (recur : Nat → Nat → Nat → Nat → Res) (n dn W D sl sh X cy : Nat) : Nat × Nat × Bool × Nat :=
  if cy ≠ 0 ∨ X / B ≥ D / B ^ sh then                           -- :131 if (cy != 0) …; :135 mpn_cmp (np + dn - 1, dp + dn - sl - 1, sl + 1) >= 0
    (B ^ sl - 1, helper3 sl (X % B) (X / B) (D / B ^ sh), true, 0)   -- :132, :136 __divappr_helper (qp, np + n - 1, dp + dn - sl - 1, sl)
  else
    let Nl := W % B ^ (n - 1) + B ^ (n - 1) * X                 -- {np, dn + sl}
    let r := if sl < C then leaf (dn + sl) dn Nl D              -- :139-140 mpn_sb_divappr_q (qp, np, dn + sl, dp, dn, dinv)
             else recur (dn + sl) dn Nl D                       -- :142
    (r.q, r.r3, r.ok, r.wl)

/-- dc_divappr_q.c:72-147, everything after the reduction loop: n = qn (= dn - 1, recorded in `ok0`), W = {np, 2n + 1},
    D = {dp, dn}, Qup = the quotient limbs above qp + n stored by the reduction loop, qh, qn0 = q_orig.
    `recur` = mpn_dc_divappr_q itself (the recursive calls :103, :142). -/
def dcTail (rep : Bool) (C : Nat) (leaf : Leaf) (recur : Nat → Nat → Nat → Nat → Res)
    (n dn W D Qup qh qn0 : Nat) (ok0 : Bool) : Res :=
    let cy := W / B ^ (2 * n)                                   -- :72 cy = np[nn - 1]
    let sh := n / 2                                             -- :75
    let sl := n - sh
    let dtop := D / B ^ n                                       -- dp[dn - 1]
    -- :77-79 "Rare case where truncation ruins normalisation": mpn_cmp (np + nn - qn, dp + dn - qn, qn - 1)
    if cy > dtop ∨ (cy = dtop ∧ W / B ^ (n + 1) % B ^ (n - 1) ≥ D / B % B ^ (n - 1)) then
      -- :81 __divappr_helper (qp, np + nn - qn - 2, dp + dn - qn - 1, qn); :93 return qh
      let r3 := helper3 n (W / B ^ (n - 1) % B) (W / B ^ n) D
      -- :87-91, repaired C only: `if ((mp_limb_signed_t) np[nn - qn] < 0) { qp[0]--; np[nn - qn] += mpn_add_n (np + nn - qn - 2, …, dp + dn - 2, 2); }`
      if rep && decide (r3 / B ^ 2 ≥ B / 2) then
        { q := Qup * B ^ n + (B ^ n - 2), qh := qh, r3 := (r3 + D / B ^ (n - 1)) % B ^ 3, ok := ok0 }
      else
      { q := Qup * B ^ n + (B ^ n - 1), qh := qh, r3 := r3, ok := ok0 }
    else
    let hi := hiPart C leaf recur n dn W D sl sh                -- :96-104
    let Qh := hi.1
    let cy := hi.2.1 / B ^ 2                                    -- :106 cy = np[nn - sh]
    let tp := mulmidV (n - 1) sh D Qh sh                        -- :111 mpn_mulmid (tp, dp + dn - qn - 1, qn - 1, qp + sl, sh)
    let Y := W / B ^ (n - 1) % B ^ sl + B ^ sl * (hi.2.1 % B ^ 2)   -- {np + nn - qn - 2, sl + 2} = np[n-1 .. n+sl]
    let s := subN (sl + 2) Y tp                                 -- :112 cy -= mpn_sub_n (…, tp, sl + 2)
    let cy := (cy + B - s.2) % B
    let QQ := Qup * B ^ sh + Qh                                 -- {qp + sl, q_orig - sl}
    let c := hiCorr rep sl sh D qn0 loopFuel (QQ, qh, s.1, cy, 0)  -- :116-129
    let X := c.2.2.1
    let lo := loPart C leaf recur n dn W D sl sh X c.2.2.2.1    -- :131-145
    { q := c.1 * B ^ sl + lo.1, qh := c.2.1, r3 := lo.2.1, ok := ok0 && hi.2.2.1 && lo.2.2.1,
      wl := max (max hi.2.2.2 lo.2.2.2) c.2.2.2.2 }

/-- mpn_dc_divappr_q (qp, np, nn, dp, dn, dinv) with DC_DIV_QR_THRESHOLD = T and SB_DIVAPPR_Q_CUTOFF = C;
    N = {np, nn}, D0 = {dp, dn0}.  ASSERTs (:44-46): dn ≥ 6, nn ≥ dn + 3, high bit of dp[dn-1].
    `fuel` bounds the recursion depth.  `rep` = false: the C of the pinned tree before /repo commit 631f91d; `rep` = true:
    the repaired C now in /repo (sign test after the helper in the rare case :83-91, `while` at :116). -/
def dcDivapprF (rep : Bool) (T C : Nat) (leaf : Leaf) : Nat → Nat → Nat → Nat → Nat → Res
  | 0, _, _, _, _ => bad
  | fuel + 1, nn, dn0, N, D0 =>
    let qn0 := nn - dn0                                         -- :48
    let cut := decide (qn0 + 1 < dn0)                           -- :49
    let D := if cut then D0 / B ^ (dn0 - (qn0 + 1)) else D0     -- :51 dp += dn - (qn + 1)
    let dn := if cut then qn0 + 1 else dn0                      -- :52
    -- :54 q_orig = qn
    let top := N / B ^ (nn - dn)                                -- np + nn - dn, dn limbs
    let qh := if top ≥ D then 1 else 0                          -- :56
    let top := if qh ≠ 0 then top - D else top                  -- :57-58 mpn_sub_n
    let W0 := N / B ^ (nn - dn - qn0) % B ^ qn0 + B ^ qn0 * top -- :60-61 np += nn - dn - qn; nn = dn + qn
    let lp := redLoop T dn D qn0 qn0 W0 0 true                  -- :64-70
    let n := lp.1
    let ok0 := lp.2.2.2 && decide (dn = n + 1) && decide (2 ≤ n)
    dcTail rep C leaf (fun a b c d => dcDivapprF rep T C leaf fuel a b c d) n dn lp.2.1 D lp.2.2.1 qh qn0 ok0

/-- mpn_dc_divappr_q with recursion fuel nn (the quotient length at least halves at every level) -/
def dcDivappr (rep : Bool) (T C : Nat) (leaf : Leaf) (nn dn N D : Nat) : Res := dcDivapprF rep T C leaf nn nn dn N D

/-- on limb vectors: (nn-dn quotient limbs, np[dn-2 .. dn] after the call, qh, ok) -/
def dc_divappr_q (rep : Bool) (T C : Nat) (np dp : List Nat) : List Nat × List Nat × Nat × Bool :=
  let r := dcDivappr rep T C sbLeaf np.length dp.length (val np) (val dp)
  (toLimbs (np.length - dp.length) r.q, toLimbs 3 r.r3, r.qh, r.ok)

end Mpir.DcDivappr
