/-
  Layer V (continued): value-level model of Toom-8.5 (`mpn_toom8h_mul`) and Toom-8 squaring (`mpn_toom8_sqr_n`)
  in the style of Mpir/Model/MulAlgo.lean: operands are (value, limb count); splitting is at limb boundaries
  `W = B^n`; the choice of the shape (p, q, half) by the ratio an/bn, the evaluation helpers with the sign flags
  they return, the pointwise products (callee = parameter `mul`), `mpn_toom_couple_handling` and the exact
  SEQUENCE of linear operations and exact divisions of `mpn_toom_interpolate_16pts` are mirrored; intermediate
  results are unbounded integers (two's-complement storage, carries and buffer layout are NOT modelled).

  Sources: /repo/mpn/generic/{toom8h_mul.c, toom8_sqr_n.c, toom_eval_pm1.c, toom_eval_dgr3_pm1.c, toom_eval_pm2.c,
  toom_eval_pm2exp.c, toom_eval_pm2rexp.c, toom_couple_handling.c, toom_interpolate_16pts.c}
  (64-bit limbs: BIT_CORRECTION = 0, CORRECTION_BITS = 0; none of HAVE_NATIVE_mpn_{addlsh_n, sublsh_n, sumdiff_n,
  addadd_n, add_nc, rsh1add_n, rsh1sub_n, pi1_bdiv_q_1} is defined in the pinned build, the value level is the
  same for either variant).   Core Lean only.
-/
import Mpir.Base
import Mpir.Model.MulAlgo
namespace Mpir.Toom8
open Mpir.MulAlgo (absDiff Interp evalAt)

/-! ### splitting -/

/-- `{xp, k*n + hn}` read as k blocks of n limbs and a top block: [x mod W, x/W mod W, …, x/W^k]  (k+1 entries). -/
def blocks (x W : Nat) : Nat → List Nat
  | 0 => [x]
  | k + 1 => x % W :: blocks (x / W) W k

/-- Result of an evaluation helper: value at the positive point, magnitude at the negative point, returned flag
    (the C returns 0 / ~0 resp. 0 / -1; only zero / non-zero is used, through `^` and `if (nsign)`). -/
structure Eval where
  plus : Nat
  minus : Nat
  neg : Bool
  deriving Repr, DecidableEq

/-- The two accumulators of every evaluation helper: blocks of even index go to the first, blocks of odd index to
    the second, block i weighted by `w i` (a left shift).  `i` = index of the head of the list. -/
def evenOdd (w : Nat → Nat) : List Nat → Nat → Nat × Nat
  | [], _ => (0, 0)
  | x :: xs, i =>
    let r := evenOdd w xs (i + 1)
    if i % 2 = 0 then (x * w i + r.1, r.2) else (r.1, x * w i + r.2)

/-- `mpn_toom_eval_pm1 (pp, mp, k, xp, n, m, tp)` — toom_eval_pm1.c:28-61 (ASSERT k > 3, n ≥ m > 0).
    :50-52 pp = x0 + x2 + x4 + …, tp = x1 + x3 + … (the top block x_k joins pp for even k, tp for odd k);
    :54 `if (mpn_cmp (tp, pp, n+1) > 0) isneg = -1`; :58-59 mp = |pp − tp|, pp = pp + tp. -/
def evalPm1 (xs : List Nat) : Eval :=
  let r := evenOdd (fun _ => 1) xs 0
  let pp := r.1; let tp := r.2
  let isneg := decide (tp > pp)                              -- :54
  ⟨pp + tp, (if isneg then tp - pp else pp - tp), isneg⟩      -- :58-59

/-- `mpn_toom_eval_dgr3_pm1 (xp1, xm1, xp, n, x3n, tp)` — toom_eval_dgr3_pm1.c:32-62 (four blocks).
    :40 xp1 = x0 + x2; :41 tp = x1 + x3; :43 neg = (xp1 < tp); :52-56 xm1 = |xp1 − tp|, xp1 += tp. -/
def evalDgr3Pm1 (xs : List Nat) : Eval :=
  let xp1 := xs.getD 0 0 + xs.getD 2 0                       -- :40
  let tp := xs.getD 1 0 + xs.getD 3 0                        -- :41
  let neg := decide (xp1 < tp)                               -- :43
  ⟨xp1 + tp, (if neg then tp - xp1 else xp1 - tp), neg⟩       -- :52-56

/-- `mpn_toom_eval_pm2 (xp2, xm2, k, xp, n, hn, tp)` — toom_eval_pm2.c:59-119 (ASSERT 3 ≤ k < GMP_NUMB_BITS).
    :75-81 xp2 = Horner in 4 over the blocks of the parity of k (x_k, x_{k-2}, …), :83 k--, :85-89 tp = the same
    over the other parity; :91-94 the accumulator holding the odd blocks is doubled, so one holds Σ_even x_i 2^i and
    the other Σ_odd x_i 2^i: for (new) k odd xp2 = even part, tp = odd part, for (new) k even the reverse;
    :96 neg = (xp2 < tp); :104-109 xm2 = |xp2 − tp|, xp2 += tp; :115 `neg ^= ((k & 1) - 1)`.
    (For odd degree the flag is therefore "odd part ≥ even part": it is also set when x(−2) = 0.) -/
def evalPm2 (xs : List Nat) : Eval :=
  let r := evenOdd (fun i => 2 ^ i) xs 0
  let k := xs.length - 1 - 1                                 -- :83  k-- (degree = xs.length - 1)
  let xp2 := if k % 2 = 1 then r.1 else r.2                  -- :75-81, :91-94
  let tp := if k % 2 = 1 then r.2 else r.1                   -- :85-94
  let neg := decide (xp2 < tp)                               -- :96
  let xm2 := if neg then tp - xp2 else xp2 - tp              -- :104-107
  ⟨xp2 + tp, xm2, if k % 2 = 1 then neg else !neg⟩            -- :109, :115

/-- `mpn_toom_eval_pm2exp (xp2, xm2, k, xp, n, hn, shift, tp)` — toom_eval_pm2exp.c:32-117
    (ASSERT k ≥ 3, shift*k < GMP_NUMB_BITS).  :72-78 xp2 = x0 + Σ_{i even} x_i << i·shift; :80-85 tp = Σ_{i odd}
    x_i << i·shift; :87-91 the top block joins tp (k odd) or xp2 (k even); :94 neg = (xp2 < tp);
    :102-107 xm2 = |xp2 − tp|, xp2 += tp. -/
def evalPm2exp (xs : List Nat) (shift : Nat) : Eval :=
  let r := evenOdd (fun i => 2 ^ (i * shift)) xs 0
  let xp2 := r.1; let tp := r.2
  let neg := decide (xp2 < tp)                               -- :94
  ⟨xp2 + tp, (if neg then tp - xp2 else xp2 - tp), neg⟩       -- :102-107

/-- `mpn_toom_eval_pm2rexp (rp, rm, q, ap, n, t, s, ws)` — toom_eval_pm2rexp.c:48-91 (ASSERT n ≥ t, s ≠ 0, q > 1,
    s*q < GMP_NUMB_BITS): 2^(s·q)·x(±2^−s).  :59 rp = x0 << s·q; :60 ws = x1 << s·(q−1); :61-66 the top block x_q
    is added unshifted to ws (q odd) or rp (q even), and for odd q rp += x_{q−1} << s; :67-72 rp += x_i << s(q−i)
    for even i, ws += … for odd i; :74 neg = (rp < ws); :82-87 rm = |rp − ws|, rp += ws. -/
def evalPm2rexp (xs : List Nat) (s : Nat) : Eval :=
  let q := xs.length - 1
  let r := evenOdd (fun i => 2 ^ (s * (q - i))) xs 0
  let rp := r.1; let ws := r.2
  let neg := decide (rp < ws)                                -- :74
  ⟨rp + ws, (if neg then ws - rp else rp - ws), neg⟩          -- :82-87

/-! ### toom_couple_handling.c:37-70 -/

/-- `mpn_toom_couple_handling (pp, 2n+1, np, nsign, n, ps, ns)`: pp = f(x), np = |f(−x)|, nsign ≠ 0 iff f(−x) is
    to be taken negative.  Returns the 3n+1-limb value ((f(x)−f(−x))/2 >> ps) + W·((f(x)+f(−x))/2 >> ns), W = B^n,
    with the value that is halved (must be even and ≥ 0: `mpn_rshift` is a logical shift) and the two values that
    are shifted right by ps, ns (must be ≥ 0). -/
structure Couple where
  val : Int
  halved : Int
  shifted : List Int
  deriving Repr, DecidableEq

def coupleHandling (pp np : Int) (nsign : Bool) (W : Int) (ps ns : Nat) : Couple :=
  let np0 := if nsign then pp - np else pp + np              -- :40-54  mpn_sub_n / mpn_add_n (or rsh1sub/rsh1add)
  let np1 := np0 / 2                                         --          mpn_rshift (np, np, n, 1)
  let pp0 := pp - np1                                        -- :62      mpn_sub_n (pp, pp, np, n)
  let pp1 := pp0 / 2 ^ ps                                    -- :63-64   if (ps > 0) mpn_rshift (pp, pp, n, ps)
  let np2 := np1 / 2 ^ ns                                    -- :66-67   if (ns > 0) mpn_rshift (np, np, n, ns)
  ⟨pp1 + W * np2, np0, [pp0, np1]⟩                            -- :68-69   {pp, n+off} = pp + np·B^off

/-! ### toom_interpolate_16pts.c:273-518 -/

/-- `mpn_toom_interpolate_16pts (pp, r1, r3, r5, r7, n, spt, half, wsi)`.  Inputs (toom_interpolate_16pts.c:247-271):
    r8 = f(0) at pp, r7 … r1 the coupled values for ±1/8, ±1/2, ±1/4, ±1, ±2, ±4, ±8 (r6, r4, r2 inside pp), r0 the
    leading coefficient (only read when half ≠ 0).  `W = B^n`: an operation "at dst + n" acts on W·(…).
    `x << s` is `x * 2^s`; `DO_mpn_subrsh (dst, nd, src, ns, s, ws)` (:75-81) subtracts floor(src / 2^s).
    Returns the nine values as they are finally added into pp: [r8, r7, r6, r5, r4, r3, r2, r1, r0],
    the log of the exact divisions (dividend, divisor) and of the `mpn_rshift`s (value, count). -/
def interp16 (r8 r7 r6 r5 r4 r3 r2 r1 r0 : Int) (W : Int) (half : Bool) : Interp :=
  -- :289-321  if (half != 0): remove the leading coefficient from every value
  let r4 := if half then r4 - r0 else r4                     -- :290-291
  let r3 := if half then r3 - r0 * 2 ^ 14 else r3            -- :293-294
  let r6 := if half then r6 - r0 / 2 ^ 2 else r6             -- :295
  let r2 := if half then r2 - r0 * 2 ^ 28 else r2            -- :297-298
  let r5 := if half then r5 - r0 / 2 ^ 4 else r5             -- :299
  let r1 := if half then r1 - r0 * 2 ^ 42 else r1            -- :301, :311
  let r7 := if half then r7 - r0 / 2 ^ 6 else r7             -- :313
  let r5 := r5 - W * (r8 * 2 ^ 28)                           -- :321  r5[n3] -= DO_mpn_sublsh_n (r5 + n, pp, 2n, 28)
  let r2 := r2 - W * (r8 / 2 ^ 4)                            -- :322  DO_mpn_subrsh (r2 + n, 2n+1, pp, 2n, 4)
  let wsi := r5 - r2                                         -- :328  mpn_sub_n (wsi, r5, r2)  (can be negative)
  let r2 := r2 + r5                                          -- :329
  let r5 := wsi                                              -- :330  MP_PTR_SWAP (r5, wsi)
  let r6 := r6 - W * (r8 * 2 ^ 14)                           -- :333
  let r3 := r3 - W * (r8 / 2 ^ 2)                            -- :334
  let wsi := r3 + r6                                         -- :340
  let r6 := r6 - r3                                          -- :341  (can be negative)
  let r3 := wsi                                              -- :342
  let r7 := r7 - W * (r8 * 2 ^ 42)                           -- :345
  let r1 := r1 - W * (r8 / 2 ^ 6)                            -- :353
  let wsi := r7 - r1                                         -- :360
  let r1 := r1 + r7                                          -- :361
  let r7 := wsi                                              -- :362
  let r4 := r4 - W * r8                                      -- :365  r4[n3] -= mpn_sub_n (r4+n, r4+n, pp, 2n)
  let r5 := r5 - 1028 * r6                                   -- :368  mpn_submul_1 (r5, r6, n3p1, 1028)
  let r7 := r7 - 1300 * r5                                   -- :374
  let r7 := r7 - 1052688 * r6                                -- :376
  let d1 := r7
  let r7 := r7 / (255 * 188513325)                           -- :382  mpn_divexact_by255x188513325
  let r5 := r5 - 12567555 * r7                               -- :384
  let d2 := r5
  let r5 := r5 / (2835 * 64)                                 -- :386  mpn_divexact_by2835x64 (+ sign extension :387-388)
  let r6 := r6 - 4095 * r7                                   -- :391
  let r6 := r6 + 240 * r5                                    -- :397
  let d3 := r6
  let r6 := r6 / (255 * 4)                                   -- :403  mpn_divexact_by255x4 (+ sign extension :404-405)
  let r3 := r3 - r4 * 2 ^ 7                                  -- :407
  let r2 := r2 - r4 * 2 ^ 13                                 -- :409
  let r2 := r2 - 400 * r3                                    -- :410
  let r1 := r1 - r4 * 2 ^ 19                                 -- :413
  let r1 := r1 - 1428 * r2                                   -- :414
  let r1 := r1 - 112896 * r3                                 -- :415
  let d4 := r1
  let r1 := r1 / (255 * 182712915)                           -- :416  mpn_divexact_by255x182712915
  let r2 := r2 - 15181425 * r1                               -- :418
  let d5 := r2
  let r2 := r2 / (42525 * 16)                                -- :419  mpn_divexact_by42525x16
  let r3 := r3 - 3969 * r1                                   -- :422
  let r3 := r3 - 900 * r2                                    -- :428
  let d6 := r3
  let r3 := r3 / (9 * 16)                                    -- :429  mpn_divexact_by9x16
  let r4 := r4 - r1                                          -- :431
  let r4 := r4 - r3                                          -- :432
  let r4 := r4 - r2                                          -- :433
  let d7 := r2 + r6                                          -- :435  mpn_add_n (r6, r2, r6)
  let r6 := d7 / 2                                           -- :436  mpn_rshift (r6, r6, n3p1, 1)
  let r2 := r2 - r6                                          -- :437
  let d8 := r3 - r5                                          -- :439
  let r5 := d8 / 2                                           -- :440
  let r3 := r3 - r5                                          -- :441
  let d9 := r1 + r7                                          -- :443
  let r7 := d9 / 2                                           -- :444
  let r1 := r1 - r7                                          -- :445
  ⟨[r8, r7, r6, r5, r4, r3, r2, r1, if half then r0 else 0],
   [(d1, 255 * 188513325), (d2, 2835 * 64), (d3, 255 * 4), (d4, 255 * 182712915), (d5, 42525 * 16), (d6, 9 * 16),
    (d7, 2), (d8, 2), (d9, 2)],
   [(d7, 1), (d8, 1), (d9, 1)]⟩

/-- recomposition, toom_interpolate_16pts.c:452-513: r8 sits at pp, r6, r4, r2, r0 at pp + 3n, 7n, 11n, 15n;
    r7, r5, r3, r1 are added at pp + n, 5n, 9n, 13n. -/
def recompose16 (W : Int) (r : Interp) : Nat :=
  match r.coeffs with
  | [r8, r7, r6, r5, r4, r3, r2, r1, r0] =>
    (r8 + W * r7 + W ^ 3 * r6 + W ^ 5 * r5 + W ^ 7 * r4 + W ^ 9 * r3 + W ^ 11 * r2 + W ^ 13 * r1 + W ^ 15 * r0).toNat
  | _ => 0

/-- 2^(64·42)-free constants of the exact divisions on a 64-bit build: the `BINVERT_*` values of
    toom_interpolate_16pts.c:132-135 (used by the `mpn_pi1_bdiv_q_1` variants; the pinned build divides with
    `mpn_divexact_1`, which computes the same inverses itself). -/
def BINVERT_2835 : Nat := 0x938CC70553E3771B
def BINVERT_42525 : Nat := 0xE7B40D449F314C35
def BINVERT_255x182712915 : Nat := 0x1B649A076FC4CB25
def BINVERT_255x188513325 : Nat := 0x06DB993A6864275B
/-- `BINVERT_9`, :107-108 and `BINVERT_255`, :110-111 with GMP_NUMB_BITS = 64 -/
def BINVERT_9 : Nat := (((B - 1) / 9 * 2 ^ (6 - 64 % 6)) * 8 % B) ||| 0x39
def BINVERT_255 : Nat := (B - 1) - ((B - 1) / 255 * 2 ^ (8 - 64 % 8)) % B

/-! ### mpn_toom8h_mul — toom8h_mul.c:66-249 -/

/-- the decomposition chosen by toom8h_mul.c:97-145: block size n, degrees p, q (after `p--; q--`), top block sizes
    s = an − p·n, t = bn − q·n, and `half` (the product has 16 coefficients and the point ∞ is used). -/
structure Split where
  n : Nat
  p : Nat
  q : Nat
  s : Int
  t : Int
  half : Bool
  deriving Repr, DecidableEq

/-- toom8h_mul.c:107-128: the cascade choosing (p, q) by the ratio an/bn, with LIMIT_numerator = 21,
    LIMIT_denominat = 20, GMP_NUMB_BITS = 64 (the `GMP_NUMB_BITS <= …*3 ||` alternatives are false). -/
def choosePQ (an bn : Nat) : Nat × Nat :=
  if an * 13 < 16 * bn then (9, 8)                           -- :107-108
  else if an * (20 / 2) < (21 / 7 * 9) * (bn / 2) then (9, 7)     -- :109-111
  else if an * 10 < 33 * (bn / 2) then (10, 7)               -- :112-113
  else if an * (20 / 5) < (21 / 3) * bn then (10, 6)         -- :114-116
  else if an * 6 < 13 * bn then (11, 6)                      -- :117-118
  else if an * 4 < 9 * bn then (11, 5)                       -- :119-121
  else if an * (21 / 3) < 20 * bn then (12, 5)               -- :122-123
  else if an * 9 < 28 * bn then (12, 4)                      -- :124-126
  else (13, 4)                                               -- :127-128

/-- toom8h_mul.c:130-140 for the chosen (p, q). -/
def splitPQ (an bn p q : Nat) : Split :=
  let half := (p + q) % 2 = 1                                -- :130
  let n := 1 + (if q * an ≥ p * bn then (an - 1) / p else (bn - 1) / q)   -- :131
  let p := p - 1; let q := q - 1                             -- :132
  let s : Int := (an : Int) - p * n                          -- :134
  let t : Int := (bn : Int) - q * n                          -- :135
  if half then                                               -- :137  recover from badly chosen splitting
    if s < 1 then ⟨n, p - 1, q, s + n, t, false⟩              -- :138
    else if t < 1 then ⟨n, p, q - 1, s, t + n, false⟩         -- :139
    else ⟨n, p, q, s, t, true⟩
  else ⟨n, p, q, s, t, false⟩

/-- toom8h_mul.c:94-145. -/
def split (an bn : Nat) : Split :=
  if an = bn ∨ an * (20 / 2) < 21 * (bn / 2) then              -- :97
    let n := 1 + (an - 1) / 8                                  -- :100
    ⟨n, 7, 7, (an : Int) - 7 * n, (bn : Int) - 7 * n, false⟩    -- :99-103
  else
    let pq := choosePQ an bn
    splitPQ an bn pq.1 pq.2

/-- one couple of points: the two recursive products (TOOM8H_MUL_N_REC on n+1 limbs) and toom_couple_handling;
    `sign = flag_a ^ flag_b`. -/
def point (mul : Nat → Nat → Nat) (ea eb : Eval) (W : Int) (ps ns : Nat) : Couple :=
  let sign := ea.neg != eb.neg
  let vm := mul ea.minus eb.minus                            -- TOOM8H_MUL_N_REC(pp, v0, v1, n + 1)
  let vp := mul ea.plus eb.plus                              -- TOOM8H_MUL_N_REC(r?, v2, v3, n + 1)
  coupleHandling vp vm sign W ps ns

/-- toom8h_mul.c:166-237 for a given decomposition: evaluation, pointwise products, couple handling,
    interpolation and recomposition.  `as`, `bs` are the p+1 resp. q+1 blocks. -/
def core (mul : Nat → Nat → Nat) (as bs : List Nat) (n q : Nat) (half : Bool) : List Couple × Interp :=
  let W : Int := (B : Int) ^ n
  let h := if half then 1 else 0
  let c7 := point mul (evalPm2rexp as 3) (evalPm2rexp bs 3) W (3 * (1 + h)) (3 * h)   -- :169-173  ±1/8
  let c5 := point mul (evalPm2rexp as 2) (evalPm2rexp bs 2) W (2 * (1 + h)) (2 * h)   -- :176-180  ±1/4
  let c3 := point mul (evalPm2 as) (evalPm2 bs) W 1 2                                 -- :183-187  ±2
  let c1 := point mul (evalPm2exp as 3) (evalPm2exp bs 3) W 3 6                       -- :190-194  ±8
  let c6 := point mul (evalPm2rexp as 1) (evalPm2rexp bs 1) W (1 + h) h               -- :197-201  ±1/2
  let eb1 := if q = 3 then evalDgr3Pm1 bs else evalPm1 bs                             -- :205-208
  let c4 := point mul (evalPm1 as) eb1 W 0 0                                          -- :204-211  ±1
  let c2 := point mul (evalPm2exp as 2) (evalPm2exp bs 2) W 2 4                       -- :214-218  ±4
  let r8 := mul (as.getD 0 0) (bs.getD 0 0)                                           -- :226  A(0)*B(0)
  let r0 := if half then mul (as.getLastD 0) (bs.getLastD 0) else 0                   -- :229-235  infinity
  ([c7, c5, c3, c1, c6, c4, c2],
   interp16 r8 c7.val c6.val c5.val c4.val c3.val c2.val c1.val r0 W half)            -- :237

/-- `mpn_toom8h_mul (pp, ap, an, bp, bn)`.  `none` = one of the C's ASSERTs fails (toom8h_mul.c:82-86: an ≥ bn,
    bn ≥ 86, an*4 ≤ bn*13 — the other three are vacuous for 64-bit limbs; :145-148: 0 < s ≤ n, 0 < t ≤ n,
    half || s + t > 3, n > 2). -/
def toom8h_mul (mul : Nat → Nat → Nat) (a an b bn : Nat) : Option Nat :=
  if ¬ (an ≥ bn ∧ bn ≥ 86 ∧ an * 4 ≤ bn * 13) then none else
  let sp := split an bn
  if ¬ (0 < sp.s ∧ sp.s ≤ sp.n ∧ 0 < sp.t ∧ sp.t ≤ sp.n ∧ (sp.half = true ∨ sp.s + sp.t > 3) ∧ sp.n > 2) then none else
  let W := B ^ sp.n
  let r := core mul (blocks a W sp.p) (blocks b W sp.q) sp.n sp.q sp.half
  some (recompose16 ((B : Int) ^ sp.n) r.2)

/-! ### mpn_toom8_sqr_n — toom8_sqr_n.c:55-154 -/

/-- one couple of points of the squaring: TOOM8_SQR_REC twice, couple handling with nsign = 0. -/
def pointSqr (sqr : Nat → Nat) (e : Eval) (W : Int) (ps ns : Nat) : Couple :=
  let vm := sqr e.minus                                      -- TOOM8_SQR_REC(pp, v0, n + 1)
  let vp := sqr e.plus                                       -- TOOM8_SQR_REC(r?, v2, n + 1)
  coupleHandling vp vm false W ps ns

/-- `mpn_toom8_sqr_n (pp, ap, an)`.  `none` = an ASSERT fails (:66 an ≥ 40; :72-73 0 < s ≤ n, s + s > 3). -/
def toom8_sqr_n (sqr : Nat → Nat) (a an : Nat) : Option Nat :=
  if ¬ (an ≥ 40) then none else                              -- :66
  let n := 1 + (an - 1) / 8                                  -- :68
  let s : Int := (an : Int) - 7 * n                          -- :70
  if ¬ (0 < s ∧ s ≤ n ∧ s + s > 3) then none else            -- :72-73
  let Wn := B ^ n
  let W : Int := (B : Int) ^ n
  let as := blocks a Wn 7
  let c7 := pointSqr sqr (evalPm2rexp as 3) W 3 0            -- :94-97   ±1/8
  let c5 := pointSqr sqr (evalPm2rexp as 2) W 2 0            -- :100-103 ±1/4
  let c3 := pointSqr sqr (evalPm2 as) W 1 2                  -- :106-109 ±2
  let c1 := pointSqr sqr (evalPm2exp as 3) W 3 6             -- :112-115 ±8
  let c6 := pointSqr sqr (evalPm2rexp as 1) W 1 0            -- :118-121 ±1/2
  let c4 := pointSqr sqr (evalPm1 as) W 0 0                  -- :124-127 ±1
  let c2 := pointSqr sqr (evalPm2exp as 2) W 2 4             -- :130-133 ±4
  let r8 := sqr (as.getD 0 0)                                -- :139  A(0)*B(0)
  some (recompose16 W (interp16 r8 c7.val c6.val c5.val c4.val c3.val c2.val c1.val 0 W false))   -- :141

end Mpir.Toom8
