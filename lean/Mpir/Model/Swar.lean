/-
  C10 part `swar` — the SWAR bit counting code of /repo/mpn/generic/popcount.c, statement by statement.

  One source serves two functions: popcount.c defines FNAME = mpn_popcount with POPHAM(u,v) = u; hamdist.c is the
  same text with OPERATION_hamdist (FNAME = mpn_hamdist, POPHAM(u,v) = u ^ v, a second pointer vp advancing with up).
  GMP_LIMB_BITS = 64 here, so the `#if GMP_LIMB_BITS > 32` branches are the ones mirrored.

  Words are `Nat` below `B = 2^64`; every C assignment to an `mp_limb_t` / `mp_bitcnt_t` is written `% B`
  (unsigned wrap-around), `p -= t` is `(p + B - t) % B`.  The constants are MP_LIMB_T_MAX/3, /5, /17 written out.

  Core Lean only (linked into the driver).  Theorems: MpirProofs/Props/C10_swar.lean.
-/
import Mpir.Base
namespace Mpir.Swar
open Mpir

/-- MP_LIMB_T_MAX/3 -/
def M3 : Nat := 0x5555555555555555
/-- MP_LIMB_T_MAX/5 -/
def M5 : Nat := 0x3333333333333333
/-- MP_LIMB_T_MAX/17 -/
def M17 : Nat := 0x0f0f0f0f0f0f0f0f

/-- popcount.c:54 (= :58, :65, :69, :97)  `p0 -= (p0 >> 1) & MP_LIMB_T_MAX/3;`   /* 2 0-2 */ -/
def red2 (p : Nat) : Nat := (p + B - ((p >>> 1) &&& M3)) % B
/-- popcount.c:55 (= :59, :66, :70, :98)  `p0 = ((p0 >> 2) & MP_LIMB_T_MAX/5) + (p0 & MP_LIMB_T_MAX/5);`   /* 4 0-4 */ -/
def red4 (p : Nat) : Nat := (((p >>> 2) &&& M5) + (p &&& M5)) % B
/-- popcount.c:53-55: one limb down to sixteen 4-bit fields, each 0..4. -/
def limb4 (u : Nat) : Nat :=
  let p0 := u                 -- :53  p0 = POPHAM (up[0], vp[0]);
  let p0 := red2 p0           -- :54
  let p0 := red4 p0           -- :55
  p0
/-- popcount.c:62 (= :73)  `p01 = ((p01 >> 4) & MP_LIMB_T_MAX/17) + (p01 & MP_LIMB_T_MAX/17);`   /* 8 0-16 */ -/
def fold8 (p : Nat) : Nat := (((p >>> 4) &&& M17) + (p &&& M17)) % B

/-- popcount.c:53-79: the body of the 4-limb unrolled loop; the value added to `result` at :80. -/
def block (u0 u1 u2 u3 : Nat) : Nat :=
  let p0 := limb4 u0                                   -- :53-55
  let p1 := limb4 u1                                   -- :57-59
  let p01 := (p0 + p1) % B                             -- :61   /* 8 0-8 */
  let p01 := fold8 p01                                 -- :62   /* 8 0-16 */
  let p2 := limb4 u2                                   -- :64-66
  let p3 := limb4 u3                                   -- :68-70
  let p23 := (p2 + p3) % B                             -- :72   /* 8 0-8 */
  let p23 := fold8 p23                                 -- :73   /* 8 0-16 */
  let x := (p01 + p23) % B                             -- :75   /* 8 0-32 */
  let x := ((x >>> 8) + x) % B                         -- :76   /* 8 0-64 */
  let x := ((x >>> 16) + x) % B                        -- :77   /* 8 0-128 */
  let x := (((x >>> 32) &&& 0xff) + (x &&& 0xff)) % B  -- :79   /* 8 0-256 */
  x

/-- The WRONG variant of :79 (mask after adding, as the tail at :112-114 may do): used only in a negative example. -/
def blockWrong (u0 u1 u2 u3 : Nat) : Nat :=
  let p01 := fold8 ((limb4 u0 + limb4 u1) % B)
  let p23 := fold8 ((limb4 u2 + limb4 u3) % B)
  let x := (p01 + p23) % B
  let x := ((x >>> 8) + x) % B
  let x := ((x >>> 16) + x) % B
  let x := ((x >>> 32) + x) % B
  x &&& 0xff

/-- popcount.c:51-88: `for (i = n >> 2; i != 0; i--) { …; result += x; up += 4; }`.
    Returns (result, the advanced up).  `up` always holds at least 4·i limbs (i = n >> 2). -/
def blocks : Nat → List Nat → Nat → Nat × List Nat
  | i + 1, u0 :: u1 :: u2 :: u3 :: up, result =>
      blocks i up ((result + block u0 u1 u2 u3) % B)   -- :80 result += x;  :84 up += 4;
  | _, up, result => (result, up)                       -- i == 0 (the other shapes cannot occur: 4·i ≤ length)

/-- popcount.c:96-99: one limb of the tail loop down to eight byte fields, each 0..8. -/
def tailLimb (u : Nat) : Nat :=
  let p0 := limb4 u                                    -- :96-98
  let p0 := (((p0 >>> 4) + p0) % B) &&& M17            -- :99   /* 8 0-8 */
  p0

/-- popcount.c:94-107: `do { …; x += p0; up += 1; } while (--n);` entered with n = number of remaining limbs ≥ 1. -/
def tailLoop : List Nat → Nat → Nat
  | [], x => x
  | u :: up, x => tailLoop up ((x + tailLimb u) % B)   -- :101 x += p0;  :102 up += 1;

/-- popcount.c:109-114 -/
def tailFin (x : Nat) : Nat :=
  let x := ((x >>> 8) + x) % B                         -- :109
  let x := ((x >>> 16) + x) % B                        -- :110
  let x := ((x >>> 32) + x) % B                        -- :112
  x &&& 0xff                                           -- :114  (the value added to result)

/-- popcount.c:37-118 with POPHAM(u,v) = u. -/
def mpn_popcount (up : List Nat) : Nat :=
  let n := up.length
  let result := 0                                      -- :44
  let (result, up) := blocks (n >>> 2) up result       -- :51-88
  let n := n &&& 3                                     -- :90
  if n ≠ 0 then                                        -- :91
    let x := 0                                         -- :93
    let x := tailLoop (up.take n) x                    -- :94-107
    (result + tailFin x) % B                           -- :109-114
  else result                                          -- :117

/-- hamdist.c (= popcount.c with POPHAM(u,v) = u ^ v; vp advances in step with up, :86, :104): the same code on the
    limb-wise xor.  Precondition of the C: both operands have n limbs. -/
def mpn_hamdist (up vp : List Nat) : Nat :=
  mpn_popcount (List.zipWith (· ^^^ ·) up vp)

end Mpir.Swar
