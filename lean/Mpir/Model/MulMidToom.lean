/-
  mpn_toom42_mulmid (mpn/generic/toom42_mulmid.c:54-233): limb-level executable model, statement by statement —
  transposed interpolation with the correction terms e0..e5 of mpn_add_err1_n / mpn_add_err2_n / mpn_sub_err2_n, the `neg`
  flag, the three recursive middle products, the corrections applied in place (p0 / p2 share rp[m], rp[m+1]: t0, t1),
  the sign adjustment of p1, transposed evaluation, and the odd row and diagonal.  Core Lean only.
  Memory: R = {rp, 2m+2} (p0 = R[0, m+2), p2 = R[m, 2m+2)), P1 = {scratch + 2m - 1, m+2}, s = {scratch, 3m-1}.
-/
import Mpir.Base
import Mpir.Model.Kernels
import Mpir.Model.MulMid
namespace Mpir.MulMid
open Mpir

/-- mpn_add_err2_n / mpn_sub_err2_n loop (add_err2_n.c, sub_err2_n.c; err1 = the same with no second operand):
    ADDC/SUBC (cy1, sl, ul, vl); ADDC/SUBC (cy2, rl, sl, cy); cy = cy1 | cy2; zl = cy ? yl : 0; el += zl; eh += el < zl.
    `y1r`, `y2r` are the error operands read downwards from yp[n-1] (i.e. reversed); (eh:el) is kept as one number mod B^2.
    Returns (rp, e1, e2, cy). -/
def errGo (sub : Bool) : List Nat → List Nat → List Nat → List Nat → Nat → Nat → Nat → List Nat × Nat × Nat × Nat
  | u :: us, v :: vs, y1r, y2r, cy, e1, e2 =>
      let sl := if sub then (u + B - v) % B else (u + v) % B
      let cy1 := if sub then boolToNat (sl > u) else boolToNat (sl < u)
      let rl := if sub then (sl + B - cy) % B else (sl + cy) % B
      let cy2 := if sub then boolToNat (rl > sl) else boolToNat (rl < sl)
      let c := cy1 ||| cy2
      let z1 := if c != 0 then y1r.headD 0 else 0
      let z2 := if c != 0 then y2r.headD 0 else 0
      let r := errGo sub us vs y1r.tail y2r.tail c ((e1 + z1) % (B * B)) ((e2 + z2) % (B * B))
      (rl :: r.1, r.2)
  | _, _, _, _, cy, e1, e2 => ([], e1, e2, cy)

/-- mpn_add_err1_n (rp, up, vp, ep, yp, n, cy): u, v, y of n limbs -/
def add_err1_n (u v y : List Nat) (cy : Nat) : List Nat × Nat × Nat :=
  let r := errGo false u v y.reverse [] cy 0 0
  (r.1, r.2.1, r.2.2.2)

/-- mpn_add_err2_n / mpn_sub_err2_n: (rp, e for yp1, e for yp2, cy) -/
def err2_n (sub : Bool) (u v y1 y2 : List Nat) (cy : Nat) : List Nat × Nat × Nat × Nat :=
  errGo sub u v y1.reverse y2.reverse cy 0 0

/-- SUBC_LIMB (cout, w, x, y) (gmp-impl.h:2473): (w, cout) -/
def subc (x y : Nat) : Nat × Nat := ((x + B - y) % B, boolToNat ((x + B - y) % B > x))
/-- ADDC_LIMB (cout, w, x, y) (gmp-impl.h:2450): (w, cout) -/
def addc (x y : Nat) : Nat × Nat := ((x + y) % B, boolToNat ((x + y) % B < x))

/-- apply f to the limbs {R + off, len} in place -/
def onRange (R : List Nat) (off len : Nat) (f : List Nat → List Nat) : List Nat :=
  R.take off ++ f ((R.drop off).take len) ++ R.drop (off + len)

def lget (R : List Nat) (i : Nat) : Nat := R.getD i 0

/-- The corrections and the transposed evaluation, toom42_mulmid.c:148-205, on R = {rp, 2m+2} (p0 in R[0, m+2), p2's upper m
    limbs in R[m+2, 2m+2)), P1, the saved t0, t1 and the e's (each (eh:el) as one number below B^2). -/
def toomFix (m : Nat) (neg : Bool) (R P1 : List Nat) (t0 t1 e0 e1 e2 e3 e4 e5 : Nat) : List Nat :=
  -- :151-155  -e0 at p0[0]
  let x := subc (lget R 0) (e0 % B); let R := R.set 0 x.1
  let e0h := (e0 / B + x.2) % B
  let x := subc (lget R 1) e0h; let R := R.set 1 x.1
  let e2h := e2 / B
  let sb := if x.2 != 0 then sub_1 ((R.drop 2).take (m - 1)) 1 else ((R.drop 2).take (m - 1), 0)
  let R := onRange R 2 (m - 1) (fun _ => sb.1)
  let e2h := (e2h + sb.2) % B
  -- :158-159  absorb t0 into e1
  let x := addc (e1 % B) t0; let e1l := x.1
  let e1h := (e1 / B + x.2) % B
  -- :162-163  e1 at p0[m]
  let x := addc (lget R m) e1l; let R := R.set m x.1
  let R := R.set (m + 1) ((lget R (m + 1) + e1h + x.2) % B)
  -- :166-168  add back t1
  let x := addc (lget R (m + 1)) t1; let R := R.set (m + 1) x.1
  let R := if x.2 != 0 then onRange R (m + 2) m (fun l => (add_1 l 1).1) else R
  -- :171-175  -e2 at p2[0]
  let x := subc (lget R m) (e2 % B); let R := R.set m x.1
  let e2h := (e2h + x.2) % B
  let x := subc (lget R (m + 1)) e2h; let R := R.set (m + 1) x.1
  let R := if x.2 != 0 then onRange R (m + 2) m (fun l => (sub_1 l 1).1) else R
  -- :178-179  e3 at p2[m]
  let x := addc (lget R (2 * m)) (e3 % B); let R := R.set (2 * m) x.1
  let R := R.set (2 * m + 1) ((lget R (2 * m + 1) + e3 / B + x.2) % B)
  -- :182-186  e4 at p1[0]
  let x := addc (lget P1 0) (e4 % B); let P1 := P1.set 0 x.1
  let e4h := (e4 / B + x.2) % B
  let x := addc (lget P1 1) e4h; let P1 := P1.set 1 x.1
  let P1 := if x.2 != 0 then onRange P1 2 m (fun l => (add_1 l 1).1) else P1
  -- :189-190  -e5 at p1[m]
  let x := subc (lget P1 m) (e5 % B); let P1 := P1.set m x.1
  let P1 := P1.set (m + 1) ((lget P1 (m + 1) + B + B - e5 / B - x.2) % B)
  -- :193  adjustment if p1 ends up negative
  let cy := boolToNat (lget P1 (m + 1) ≥ 2 ^ 63)
  -- :196-207  transposed evaluation
  if neg then
    let R := onRange R (m + 2) m (fun l => (sub_1 l cy).1)
    let R := (add R P1).1                                      -- A + C
    onRange R m (m + 2) (fun l => (sub_n l P1).1)              -- B + D
  else
    let R := onRange R (m + 2) m (fun l => (add_1 l cy).1)
    let R := (sub R P1).1                                      -- A + C
    onRange R m (m + 2) (fun l => (add_n l P1).1)              -- B + D

/-- The odd row and diagonal, toom42_mulmid.c:208-232, for odd n: R = {rp, n+1} holds the cells marked E, i.e.
    MP({ap + 1, 2n-3}, {bp, n-1}); `a0` = the original ap, b = {bp, n}.
      cy = mpn_addmul_1 (rp, ap - 1, n, bp[n - 1]); ADDC_LIMB (rp[n + 1], rp[n], rp[n], cy);        (first row of O's)
      mpn_mulmid_basecase (e, ap + n - 1, n - 1, bp, n - 1); mpn_add_n (rp + n - 1, rp + n - 1, e, 3);   (O's on the diagonal)
    where the C's ap is already advanced by one (ap - 1 = a0, ap + n - 1 = a0 + n). -/
def toomOdd (a0 b : List Nat) (n : Nat) (R : List Nat) : List Nat :=
  let am := addmul_1 (R.take n) (a0.take n) (lget b (n - 1))          -- :221
  let x := addc (lget R n) am.2                                       -- :222
  let rp := am.1 ++ [x.1, x.2]
  let e := mulmid_basecase ((a0.drop 1).drop (n - 1)) (n - 1) (b.take (n - 1))   -- :230
  onRange rp (n - 1) 3 (fun l => (add_n l e).1)                       -- :231

/-- The even core of mpn_toom42_mulmid, toom42_mulmid.c:66-205, m = n / 2 ≥ 2: `a` = ap after `ap += n & 1` (4m-1 limbs used),
    `b` = {bp, ≥ 2m} (the low 2m limbs are used), `recf x y` = the middle product MP({x, 2m-1}, {y, m}) the C takes at this size
    (mpn_mulmid_basecase below MULMID_TOOM42_THRESHOLD, else mpn_toom42_mulmid).  Returns R = {rp, 2m+2}. -/
def toomEven (recf : List Nat → List Nat → List Nat) (a b : List Nat) (m : Nat) : List Nat :=
  let blo := b.take m; let bhi := (b.drop m).take m             -- bp, bp + m
  -- :103-106 transposed interpolation
  let r0 := add_err1_n (win a 0 (m - 1)) (win a m (m - 1)) (bhi.take (m - 1)) 0
  let r1 := err2_n false (win a (m - 1) m) (win a (2 * m - 1) m) bhi blo r0.2.2
  let r3 := add_err1_n (win a (2 * m - 1) m) (win a (3 * m - 1) m) blo r1.2.2.2
  let s := r0.1 ++ r1.1 ++ r3.1
  let e0 := r0.2.1; let e1 := r1.2.1; let e2 := r1.2.2.1; let e3 := r3.2.1
  -- :108-119
  let neg := decide (cmp bhi blo < 0)
  let r4 := if neg then err2_n true blo bhi (win a (m - 1) m) (win a (2 * m - 1) m) 0
            else err2_n true bhi blo (win a (m - 1) m) (win a (2 * m - 1) m) 0
  let d := r4.1; let e4 := r4.2.1; let e5 := r4.2.2.1
  -- :134-153 recursive middle products
  let p2 := recf (s.drop m) blo                                 -- C + D
  let t0 := lget p2 0; let t1 := lget p2 1
  let p1 := recf (a.drop m) d                                   -- B - C (or C - B)
  let p0 := recf s bhi                                          -- A + B
  let R := p0 ++ p2.drop 2                                      -- p0 overwrites p2[0], p2[1]
  toomFix m neg R p1 t0 t1 e0 e1 e2 e3 e4 e5

/-- mpn_toom42_mulmid (rp, ap, bp, n, scratch): a0 = the 2n-1 limbs from ap on (may be longer), b = exactly n limbs.
    `fuel` bounds the recursion (n/2 < n; n is enough); `[]` = outside the C's domain (ASSERT (n >= 4)) or out of fuel. -/
def toom42 (T : Nat) : Nat → List Nat → List Nat → Nat → List Nat
  | 0, _, _, _ => []
  | fuel + 1, a0, b, n =>
    if n < 4 then [] else                                       -- :62 ASSERT (n >= 4)
    -- :66-67 ap += n & 1; m = n / 2;  :134 if (m < MULMID_TOOM42_THRESHOLD) basecase else toom42 itself
    let R := toomEven (fun x y => if n / 2 < T then mulmid_basecase x (2 * (n / 2) - 1) y else toom42 T fuel x y (n / 2))
               (a0.drop (n % 2)) b (n / 2)
    if n % 2 = 1 then toomOdd a0 b n R else R                   -- :208 if (n & 1)

end Mpir.MulMid
