/-
  C20 — C++ class expressions (mpirxx.h).  Core Lean only.

  Part 1 (specification): expression trees `E` over mpz_class / mpq_class variables and built-in
  operands, and `evalTmp` = "evaluate every sub-expression into its own temporary with the C
  function": mpz = exact `Int` arithmetic (tdiv rounding for / and %, floor for >>, two's complement
  for & | ^ ~), mpq = exact canonical rationals (core `Rat`).  A raised MPIR exception (division by
  zero, sqrt of a negative, non-finite double) is `none`.  The accessor sub-objects `q.get_num()` /
  `q.get_den()` are mpz-typed leaves (`E.zn` / `E.zd`) reading a component of the mpq store; on the
  implementation side they are the field objects `.num i` / `.den i` of the heap (statements THROUGH
  the accessors: Model/CxxAcc.lean).

  Part 2 (what mpirxx.h does): a heap of mpz_t objects (`ZLoc`: variables, temporaries and the num/den
  fields of mpq_t objects), the C functions used by mpirxx.h as heap transformers (their meaning is
  the subject of C01–C12), every modelled `__gmp_unary_*/__gmp_binary_*::eval` overload written
  statement by statement, and the expression-template strategy `evalCxx` (which
  `__gmp_expr<…>::eval(p)` specialisation applies to which tree shape, when a temporary is used).
  mpirxx.h line numbers refer to /repo/mpirxx.h.
-/
import Mpir.Base
namespace Mpir.Cxx

/-! ## Part 1: trees and the temporaries semantics -/

/-- built-in operand after the integral promotion done by the operator templates
    (`signed char/short/int/long → mpir_si`, unsigned → `mpir_ui`, `float → double`);
    a double is carried as its 64-bit pattern. -/
inductive Bi where
  | si (v : Int)
  | ui (v : Nat)
  | d (bits : Nat)
  deriving Repr, DecidableEq, Inhabited

inductive Ty where
  | z | q
  deriving Repr, DecidableEq, Inhabited

inductive Un where
  | pos | neg | com | abs | sqrt
  deriving Repr, DecidableEq, Inhabited

inductive Bin where
  | add | sub | mul | div | mod | and | ior | xor | gcd | lcm
  deriving Repr, DecidableEq, Inhabited

inductive Sh where
  | shl | shr
  deriving Repr, DecidableEq, Inhabited

inductive Cmp where
  | eq | ne | lt | le | gt | ge | cmp
  deriving Repr, DecidableEq, Inhabited

/-- expression trees.  `zv i` / `qv i` are mpz_class / mpq_class objects (slots); `zn i` / `zd i` are the
    accessor sub-objects `q_i.get_num()` / `q_i.get_den()` (mpirxx.h:1967-1974: `mpz_class &` references to the
    numerator / denominator field of the `mpq_t` inside `mpq_class` object `i`), usable wherever an `mpz_class` is. -/
inductive E where
  | zv (i : Nat)
  | qv (i : Nat)
  | zn (i : Nat)
  | zd (i : Nat)
  | un (o : Un) (a : E)
  | bin (o : Bin) (a b : E)
  | binL (o : Bin) (c : Bi) (b : E)
  | binR (o : Bin) (a : E) (c : Bi)
  | sh (o : Sh) (a : E) (n : Nat)
  deriving Repr, DecidableEq, Inhabited

/-- an operand of a comparison / a compound assignment -/
inductive Opnd where
  | ex (e : E)
  | bi (c : Bi)
  deriving Repr, DecidableEq, Inhabited

/-- statements the generator emits -/
inductive Stmt where
  | assign (t : Ty) (i : Nat) (e : E)               -- `z_i = e;`  /  `q_i = e;`
  | init (t : Ty) (e : E)                           -- `mpz_class t(e);` / `mpq_class t(e);`
  | compound (o : Bin) (t : Ty) (i : Nat) (r : Opnd)   -- `z_i op= r;`
  | compoundSh (o : Sh) (t : Ty) (i : Nat) (n : Nat)   -- `z_i <<= n;`
  | cmp (o : Cmp) (a b : Opnd)                      -- `a < b`, `cmp(a, b)` …
  | sgn (a : E)
  deriving Repr, DecidableEq, Inhabited

inductive Val where
  | z (v : Int)
  | q (v : Rat)
  deriving Repr, DecidableEq, Inhabited

def Val.ty : Val → Ty
  | .z _ => .z
  | .q _ => .q

structure Env where
  z : Nat → Int
  q : Nat → Rat

/-! ### integer operations of the C functions -/

def two64 : Nat := 2 ^ 64
def LONG_MIN : Int := -(2 ^ 63)
def LONG_MAX : Int := 2 ^ 63 - 1
def SiRange (l : Int) : Prop := LONG_MIN ≤ l ∧ l ≤ LONG_MAX
def UiRange (l : Nat) : Prop := l < two64
instance (l : Int) : Decidable (SiRange l) := by unfold SiRange; infer_instance
instance (l : Nat) : Decidable (UiRange l) := by unfold UiRange; infer_instance

/-- bitwise and of non-negative numbers with the second complemented: `a & ~b` -/
def natAndNot (a b : Nat) : Nat := a - (a &&& b)

/-- two's complement `mpz_and` on unbounded integers (`-x-1` is `~x`) -/
def zand (x y : Int) : Int :=
  match x, y with
  | .ofNat a, .ofNat b => .ofNat (a &&& b)
  | .ofNat a, .negSucc b => .ofNat (natAndNot a b)
  | .negSucc a, .ofNat b => .ofNat (natAndNot b a)
  | .negSucc a, .negSucc b => .negSucc (a ||| b)

def zior (x y : Int) : Int :=
  match x, y with
  | .ofNat a, .ofNat b => .ofNat (a ||| b)
  | .ofNat a, .negSucc b => .negSucc (natAndNot b a)
  | .negSucc a, .ofNat b => .negSucc (natAndNot a b)
  | .negSucc a, .negSucc b => .negSucc (a &&& b)

def zxor (x y : Int) : Int :=
  match x, y with
  | .ofNat a, .ofNat b => .ofNat (a ^^^ b)
  | .ofNat a, .negSucc b => .negSucc (a ^^^ b)
  | .negSucc a, .ofNat b => .negSucc (a ^^^ b)
  | .negSucc a, .negSucc b => .ofNat (a ^^^ b)

def zcom (x : Int) : Int := -x - 1
def zabs (x : Int) : Int := if x < 0 then -x else x
def zsgn (x : Int) : Int := if x < 0 then -1 else if x = 0 then 0 else 1
def zgcd (x y : Int) : Int := Int.ofNat (Nat.gcd x.natAbs y.natAbs)
def zlcm (x y : Int) : Int := Int.ofNat (Nat.lcm x.natAbs y.natAbs)
def zshl (x : Int) (n : Nat) : Int := x * (2 : Int) ^ n
/-- `mpz_fdiv_q_2exp`: floor -/
def zshr (x : Int) (n : Nat) : Int := x / ((2 : Int) ^ n)
/-- three-way comparison as `-1/0/1` (the sign of what `mpz_cmp` returns) -/
def zcmp (x y : Int) : Int := if x < y then -1 else if x = y then 0 else 1

/-! ### rationals -/

def qabs (r : Rat) : Rat := if r < 0 then -r else r
def qsgn (r : Rat) : Int := zsgn r.num
def qcmp (x y : Rat) : Int := if x < y then -1 else if x = y then 0 else 1
/-- `mpz_set_q`: truncate toward zero -/
def qtrunc (r : Rat) : Int := Int.tdiv r.num (Int.ofNat r.den)
def qshl (r : Rat) (n : Nat) : Rat := r * (((2 : Int) ^ n : Int) : Rat)
def qshr (r : Rat) (n : Nat) : Rat := r / (((2 : Int) ^ n : Int) : Rat)

/-! ### doubles -/

/-- exact value of a finite binary64 given by its bit pattern; `none` for Inf/NaN
    (`mpz_set_d`/`mpq_set_d` raise the invalid-operation exception there). -/
def dval (bits : Nat) : Option Rat :=
  let s := bits / 2 ^ 63 % 2
  let e := bits / 2 ^ 52 % 2048
  let m := bits % 2 ^ 52
  if e = 2047 then none else
  let mag : Rat :=
    if e = 0 then mkRat (Int.ofNat m) (2 ^ 1074)
    else if e ≥ 1075 then ((Int.ofNat ((2 ^ 52 + m) * 2 ^ (e - 1075)) : Int) : Rat)
    else mkRat (Int.ofNat (2 ^ 52 + m)) (2 ^ (1075 - e))
  some (if s = 1 then -mag else mag)

/-- the value a built-in operand has once it is put into a temporary of type `t`
    (`mpz_set_si/ui/d`, `mpq_set_si/ui/d`) -/
def biVal (t : Ty) : Bi → Option Val
  | .si v => some (match t with | .z => .z v | .q => .q v)
  | .ui v => some (match t with | .z => .z (Int.ofNat v) | .q => .q (Int.ofNat v))
  | .d b => (dval b).map (fun r => match t with | .z => .z (qtrunc r) | .q => .q r)

/-- exact value of a built-in (comparisons use `mpz_cmp_d`, which does not truncate) -/
def biRat : Bi → Option Rat
  | .si v => some v
  | .ui v => some (Int.ofNat v)
  | .d b => dval b

/-! ### operators on values -/

def unZ (o : Un) (x : Int) : Option Int :=
  match o with
  | .pos => some x
  | .neg => some (-x)
  | .com => some (zcom x)
  | .abs => some (zabs x)
  | .sqrt => if x < 0 then none else some (Int.ofNat (Nat.sqrt x.toNat))

def unQ (o : Un) (x : Rat) : Option Rat :=
  match o with
  | .pos => some x
  | .neg => some (-x)
  | .abs => some (qabs x)
  | _ => none            -- `~q`, `sqrt(q)` do not compile

def binZ (o : Bin) (x y : Int) : Option Int :=
  match o with
  | .add => some (x + y)
  | .sub => some (x - y)
  | .mul => some (x * y)
  | .div => if y = 0 then none else some (Int.tdiv x y)
  | .mod => if y = 0 then none else some (Int.tmod x y)
  | .and => some (zand x y)
  | .ior => some (zior x y)
  | .xor => some (zxor x y)
  | .gcd => some (zgcd x y)
  | .lcm => some (zlcm x y)

def binQ (o : Bin) (x y : Rat) : Option Rat :=
  match o with
  | .add => some (x + y)
  | .sub => some (x - y)
  | .mul => some (x * y)
  | .div => if y = 0 then none else some (x / y)
  | _ => none            -- `% & | ^ gcd lcm` have no mpq overload

def Bin.qOk : Bin → Bool
  | .add | .sub | .mul | .div => true
  | _ => false

def Un.qOk : Un → Bool
  | .pos | .neg | .abs => true
  | _ => false

/-- `mpq_set_z` -/
def Val.toQ : Val → Rat
  | .z v => v
  | .q r => r

def unV (o : Un) : Val → Option Val
  | .z x => (unZ o x).map .z
  | .q x => (unQ o x).map .q

/-- binary operator on two temporaries; a mixed mpz/mpq pair is computed in mpq after `mpq_set_z` -/
def binV (o : Bin) : Val → Val → Option Val
  | .z x, .z y => (binZ o x y).map .z
  | a, b => (binQ o a.toQ b.toQ).map .q

def shV (o : Sh) (n : Nat) : Val → Val
  | .z x => .z (match o with | .shl => zshl x n | .shr => zshr x n)
  | .q x => .q (match o with | .shl => qshl x n | .shr => qshr x n)

/-! ### static types -/

def E.ty : E → Ty
  | .zv _ => .z
  | .qv _ => .q
  | .zn _ => .z
  | .zd _ => .z
  | .un _ a => a.ty
  | .bin _ a b => if a.ty = .z ∧ b.ty = .z then .z else .q
  | .binL _ _ b => b.ty
  | .binR _ a _ => a.ty
  | .sh _ a _ => a.ty

/-- the tree compiles: operators exist for the operand types, built-ins are in range -/
def Bi.ok : Bi → Bool
  | .si v => decide (SiRange v)
  | .ui v => decide (UiRange v)
  | .d b => decide (b < two64) && decide (b / 2 ^ 52 % 2048 ≠ 2047)      -- finite doubles only

def E.wt : E → Bool
  | .zv _ => true
  | .qv _ => true
  | .zn _ => true
  | .zd _ => true
  | .un o a => a.wt && (a.ty = .z || o.qOk)
  | .bin o a b => a.wt && b.wt && ((a.ty = .z && b.ty = .z) || o.qOk)
  | .binL o c b => c.ok && b.wt && (b.ty = .z || o.qOk)
  | .binR o a c => c.ok && a.wt && (a.ty = .z || o.qOk)
  | .sh _ a n => a.wt && decide (UiRange n)

/-! ### evaluation into temporaries -/

def evalTmp (env : Env) : E → Option Val
  | .zv i => some (.z (env.z i))
  | .qv i => some (.q (env.q i))
  | .zn i => some (.z (env.q i).num)                      -- reading a component of the (canonical) mpq store
  | .zd i => some (.z (Int.ofNat (env.q i).den))
  | .un o a => (evalTmp env a).bind (unV o)
  | .bin o a b => (evalTmp env a).bind fun x => (evalTmp env b).bind fun y => binV o x y
  | .binL o c b => (evalTmp env b).bind fun y => (biVal y.ty c).bind fun x => binV o x y
  | .binR o a c => (evalTmp env a).bind fun x => (biVal x.ty c).bind fun y => binV o x y
  | .sh o a n => (evalTmp env a).map (shV o n)

/-- conversion done by the assignment `T target = value` (`mpz_set_q` truncates, `mpq_set_z`) -/
def conv (t : Ty) : Val → Val
  | .z v => match t with | .z => .z v | .q => .q v
  | .q r => match t with | .z => .z (qtrunc r) | .q => .q r

def Env.get (env : Env) (t : Ty) (i : Nat) : Val :=
  match t with | .z => .z (env.z i) | .q => .q (env.q i)

def Env.set (env : Env) (i : Nat) : Val → Env
  | .z v => { env with z := fun j => if j = i then v else env.z j }
  | .q r => { env with q := fun j => if j = i then r else env.q j }

/-- `target = value`, with the conversion of the assignment operator -/
def assign (env : Env) (t : Ty) (i : Nat) (v : Val) : Env := env.set i (conv t v)

def cmpRes (o : Cmp) (c : Int) : Int :=
  let b (p : Bool) : Int := if p then 1 else 0
  match o with
  | .eq => b (c == 0) | .ne => b (c != 0) | .lt => b (c < 0) | .le => b (c ≤ 0)
  | .gt => b (c > 0) | .ge => b (c ≥ 0) | .cmp => c

/-- value of an operand of a comparison as an exact rational (`mpz_cmp`, `mpz_cmp_si/ui/d`,
    `mpq_cmp`, `mpq_cmp_si/ui`, and `mpq_set_d` + `mpq_cmp` are all exact) -/
def opndRat (env : Env) : Opnd → Option Rat
  | .ex e => (evalTmp env e).map Val.toQ
  | .bi c => biRat c

def Opnd.wt : Opnd → Bool
  | .ex e => e.wt
  | .bi c => c.ok

/-- result of a statement: the new environment for assignments, the value for `init`, an int for
    comparisons.  `none` = an exception was raised. -/
inductive Res where
  | env (e : Env)
  | val (v : Val)
  | int (v : Int)

/-- the expanded form of a compound assignment: `x op= r`  ≡  `x = x op r` -/
def expand (o : Bin) (t : Ty) (i : Nat) : Opnd → E
  | .ex e => .bin o (match t with | .z => .zv i | .q => .qv i) e
  | .bi c => .binR o (match t with | .z => .zv i | .q => .qv i) c

def execTmp (env : Env) : Stmt → Option Res
  | .assign t i e => (evalTmp env e).map fun v => .env (assign env t i v)
  | .init t e => (evalTmp env e).map fun v => .val (conv t v)
  | .compound o t i r => (evalTmp env (expand o t i r)).map fun v => .env (assign env t i v)
  | .compoundSh o t i n =>
      (evalTmp env (.sh o (match t with | .z => .zv i | .q => .qv i) n)).map fun v => .env (assign env t i v)
  | .cmp o a b => (opndRat env a).bind fun x => (opndRat env b).map fun y => .int (cmpRes o (qcmp x y))
  | .sgn a => (evalTmp env a).map fun v => .int (match v with | .z x => zsgn x | .q r => qsgn r)

def Stmt.wt : Stmt → Bool
  | .assign _ _ e => e.wt
  | .init _ e => e.wt
  | .compound o t i r => r.wt && (expand o t i r).wt &&
      -- `z op= q-typed` is the known finding (operand converted first); not in the specified domain
      (match r with | .ex e => !(t = .z && e.ty = .q) | .bi _ => true)
  | .compoundSh _ _ _ n => decide (UiRange n)
  | .cmp _ a b => a.wt && b.wt && (match a, b with | .bi _, .bi _ => false | _, _ => true)
  | .sgn a => a.wt


/-! ## Part 2: what mpirxx.h does

  ### heap of mpz_t objects -/

/-- an `mpz_t` object: a variable or temporary `mpz_class` (`v i`), or the numerator / denominator
    field of the `mpq_t` inside `mpq_class` object `i` -/
inductive ZLoc where
  | v (i : Nat)
  | num (i : Nat)
  | den (i : Nat)
  deriving DecidableEq, Repr

/-- contents of every mpz_t object.  (A structure rather than a bare function type so that the compiled
    driver evaluates a stored value once, when it is stored, and not again at every read.) -/
structure Heap where
  get : ZLoc → Int

instance : CoeFun Heap (fun _ => ZLoc → Int) := ⟨Heap.get⟩

def Heap.set (h : Heap) (p : ZLoc) (x : Int) : Heap := ⟨fun l => if l = p then x else h l⟩

/-- value of mpq object `i` -/
def qval (h : Heap) (i : Nat) : Rat := Rat.divInt (h (.num i)) (h (.den i))

/-- the abstraction: what the class objects denote -/
def Heap.abs (h : Heap) : Env := { z := fun i => h (.v i), q := fun i => qval h i }

/-- store a (canonical) rational into mpq object `p` -/
def Heap.setQ (h : Heap) (p : Nat) (r : Rat) : Heap := (h.set (.num p) r.num).set (.den p) (Int.ofNat r.den)

/-! ### C integer conversions used by mpirxx.h -/

/-- `static_cast<mpir_ui>(l)` -/
def toUi (l : Int) : Nat := (l % (2 ^ 64 : Int)).toNat
/-- signed overflow wraps (what g++ on x86-64 does for `-l` when `l == LONG_MIN`) -/
def wrapSi (x : Int) : Int := (x + 2 ^ 63) % (2 ^ 64 : Int) - 2 ^ 63
/-- `static_cast<mpir_ui>(-l)` -/
def negUi (l : Int) : Nat := toUi (wrapSi (-l))
/-- `(l >= 0 ? l : -l)` converted to `mpir_ui` -/
def absUi (l : Int) : Nat := if l ≥ 0 then toUi l else negUi l
/-- `__builtin_ctzl` (undefined for 0; mpirxx.h never calls it with 0) -/
def ctz : Nat → Nat
  | 0 => 64
  | n + 1 => if (n + 1) % 2 = 1 then 0 else 1 + ctz ((n + 1) / 2)
termination_by n => n
decreasing_by omega
/-- `(l & (l-1)) == 0` in unsigned 64-bit arithmetic -/
def pow2Test (l : Nat) : Bool := (l &&& ((l + (two64 - 1)) % two64)) == 0

/-- `__GMPXX_TMPZ_D; … temp`: `mpz_set_d` into a stack temporary (raises on Inf/NaN) -/
def tmpzD (bits : Nat) : Option Int := (dval bits).map qtrunc
/-- `__GMPXX_TMPZ_SI`: `__mpz_set_si_safe` (mpirxx.h:117) -/
def tmpzSi (l : Int) : Int := if l < 0 then -(Int.ofNat (negUi l)) else Int.ofNat (toUi l)

def fitsSi (x : Int) : Bool := decide (LONG_MIN ≤ x ∧ x ≤ LONG_MAX)
def fitsUi (x : Int) : Bool := decide (0 ≤ x ∧ x < (two64 : Int))

/-! ### the C functions called by mpirxx.h, as heap transformers

  Each reads its operands, then writes its destination (they are alias-safe: property C05); what they
  compute is the subject of C01–C12 and is taken as their meaning here. -/

def mpz_set (p w : ZLoc) (h : Heap) : Heap := h.set p (h w)
def mpz_neg (p w : ZLoc) (h : Heap) : Heap := h.set p (-(h w))
def mpz_abs (p w : ZLoc) (h : Heap) : Heap := h.set p (zabs (h w))
def mpz_com (p w : ZLoc) (h : Heap) : Heap := h.set p (zcom (h w))
def mpz_sqrt (p w : ZLoc) (h : Heap) : Option Heap := if h w < 0 then none else some (h.set p (Int.ofNat (Nat.sqrt (h w).toNat)))
def mpz_add (p a b : ZLoc) (h : Heap) : Heap := h.set p (h a + h b)
def mpz_sub (p a b : ZLoc) (h : Heap) : Heap := h.set p (h a - h b)
def mpz_mul (p a b : ZLoc) (h : Heap) : Heap := h.set p (h a * h b)
def mpz_tdiv_q (p a b : ZLoc) (h : Heap) : Option Heap := if h b = 0 then none else some (h.set p (Int.tdiv (h a) (h b)))
def mpz_tdiv_r (p a b : ZLoc) (h : Heap) : Option Heap := if h b = 0 then none else some (h.set p (Int.tmod (h a) (h b)))
def mpz_and (p a b : ZLoc) (h : Heap) : Heap := h.set p (zand (h a) (h b))
def mpz_ior (p a b : ZLoc) (h : Heap) : Heap := h.set p (zior (h a) (h b))
def mpz_xor (p a b : ZLoc) (h : Heap) : Heap := h.set p (zxor (h a) (h b))
def mpz_gcd (p a b : ZLoc) (h : Heap) : Heap := h.set p (zgcd (h a) (h b))
def mpz_lcm (p a b : ZLoc) (h : Heap) : Heap := h.set p (zlcm (h a) (h b))
def mpz_add_ui (p w : ZLoc) (l : Nat) (h : Heap) : Heap := h.set p (h w + Int.ofNat l)
def mpz_sub_ui (p w : ZLoc) (l : Nat) (h : Heap) : Heap := h.set p (h w - Int.ofNat l)
def mpz_ui_sub (p : ZLoc) (l : Nat) (w : ZLoc) (h : Heap) : Heap := h.set p (Int.ofNat l - h w)
def mpz_mul_ui (p w : ZLoc) (l : Nat) (h : Heap) : Heap := h.set p (h w * Int.ofNat l)
def mpz_mul_si (p w : ZLoc) (l : Int) (h : Heap) : Heap := h.set p (h w * l)
def mpz_mul_2exp (p w : ZLoc) (n : Nat) (h : Heap) : Heap := h.set p (zshl (h w) n)
def mpz_fdiv_q_2exp (p w : ZLoc) (n : Nat) (h : Heap) : Heap := h.set p (zshr (h w) n)
def mpz_tdiv_q_2exp (p w : ZLoc) (n : Nat) (h : Heap) : Heap := h.set p (Int.tdiv (h w) ((2 : Int) ^ n))
def mpz_tdiv_q_ui (p w : ZLoc) (l : Nat) (h : Heap) : Option Heap := if l = 0 then none else some (h.set p (Int.tdiv (h w) (Int.ofNat l)))
def mpz_tdiv_r_ui (p w : ZLoc) (l : Nat) (h : Heap) : Option Heap := if l = 0 then none else some (h.set p (Int.tmod (h w) (Int.ofNat l)))
def mpz_gcd_ui (p w : ZLoc) (l : Nat) (h : Heap) : Heap := h.set p (zgcd (h w) (Int.ofNat l))
def mpz_lcm_ui (p w : ZLoc) (l : Nat) (h : Heap) : Heap := h.set p (zlcm (h w) (Int.ofNat l))
def mpz_set_ui (p : ZLoc) (l : Nat) (h : Heap) : Heap := h.set p (Int.ofNat l)
def mpz_set_si (p : ZLoc) (l : Int) (h : Heap) : Heap := h.set p l
/-- the same functions with a stack temporary (`__GMPXX_TMPZ_*`) of value `t` as an operand -/
def mpz_opT (f : Int → Int → Int) (p w : ZLoc) (t : Int) (h : Heap) : Heap := h.set p (f (h w) t)

/-! ### function objects on mpz (`__gmp_unary_*`, `__gmp_binary_*`, mpirxx.h:176–917, 1122–1273)

  `cst` is the value of `__GMPXX_CONSTANT(l)` = `__builtin_constant_p(l)`: the compiler may answer
  either way, so every statement below is for both. -/

abbrev M := Heap → Option Heap

/-- `if (z != w) mpz_set(z, w)` -/
def copyZ (p w : ZLoc) : M := fun h => if p ≠ w then some (mpz_set p w h) else some h

namespace Lshift   -- __gmp_binary_lshift, mpirxx.h:465
def z (cst : Bool) (p w : ZLoc) (l : Nat) : M := fun h =>
  if cst && l == 0 then copyZ p w h else some (mpz_mul_2exp p w l h)
end Lshift

namespace Rshift   -- __gmp_binary_rshift, mpirxx.h:489
def z (cst : Bool) (p w : ZLoc) (l : Nat) : M := fun h =>
  if cst && l == 0 then copyZ p w h else some (mpz_fdiv_q_2exp p w l h)
end Rshift

namespace Plus   -- __gmp_binary_plus, mpirxx.h:195
def zz (p w v : ZLoc) : M := fun h => some (mpz_add p w v h)
def z_ui (cst : Bool) (p w : ZLoc) (l : Nat) : M := fun h =>
  if cst && l == 0 then copyZ p w h else some (mpz_add_ui p w l h)
def ui_z (cst : Bool) (p : ZLoc) (l : Nat) (w : ZLoc) : M := z_ui cst p w l
def z_si (cst : Bool) (p w : ZLoc) (l : Int) : M := fun h =>
  if l ≥ 0 then z_ui cst p w (toUi l) h else some (mpz_sub_ui p w (negUi l) h)
def si_z (cst : Bool) (p : ZLoc) (l : Int) (w : ZLoc) : M := z_si cst p w l
def z_d (p w : ZLoc) (d : Nat) : M := fun h => (tmpzD d).map fun t => mpz_opT (· + ·) p w t h
def d_z (p : ZLoc) (d : Nat) (w : ZLoc) : M := z_d p w d
end Plus

namespace Minus   -- __gmp_binary_minus, mpirxx.h:307
def zz (p w v : ZLoc) : M := fun h => some (mpz_sub p w v h)
def z_ui (cst : Bool) (p w : ZLoc) (l : Nat) : M := fun h =>
  if cst && l == 0 then copyZ p w h else some (mpz_sub_ui p w l h)
def ui_z (cst : Bool) (p : ZLoc) (l : Nat) (w : ZLoc) : M := fun h =>
  if cst && l == 0 then some (mpz_neg p w h) else some (mpz_ui_sub p l w h)
def z_si (cst : Bool) (p w : ZLoc) (l : Int) : M := fun h =>
  if l ≥ 0 then z_ui cst p w (toUi l) h else some (mpz_add_ui p w (negUi l) h)
def si_z (cst : Bool) (p : ZLoc) (l : Int) (w : ZLoc) : M := fun h =>
  if l ≥ 0 then ui_z cst p (toUi l) w h
  else some (mpz_neg p p (mpz_add_ui p w (negUi l) h))
def z_d (p w : ZLoc) (d : Nat) : M := fun h => (tmpzD d).map fun t => mpz_opT (· - ·) p w t h
def d_z (p : ZLoc) (d : Nat) (w : ZLoc) : M := fun h => (tmpzD d).map fun t => mpz_opT (fun x y => y - x) p w t h
end Minus

namespace Multiplies   -- __gmp_binary_multiplies, mpirxx.h:513
def zz (p w v : ZLoc) : M := fun h => some (mpz_mul p w v h)
def z_ui (cst : Bool) (p w : ZLoc) (l : Nat) : M := fun h =>
  if cst && pow2Test l then
    if l = 0 then some (h.set p 0)              -- z->_mp_size = 0
    else Lshift.z cst p w (ctz l) h
  else some (mpz_mul_ui p w l h)
def ui_z (cst : Bool) (p : ZLoc) (l : Nat) (w : ZLoc) : M := z_ui cst p w l
def z_si (cst : Bool) (p w : ZLoc) (l : Int) : M := fun h =>
  if cst then
    if l ≥ 0 then z_ui cst p w (toUi l) h
    else (z_ui cst p w (negUi l) h).map (mpz_neg p p)
  else some (mpz_mul_si p w l h)
def si_z (cst : Bool) (p : ZLoc) (l : Int) (w : ZLoc) : M := z_si cst p w l
def z_d (p w : ZLoc) (d : Nat) : M := fun h => (tmpzD d).map fun t => mpz_opT (· * ·) p w t h
def d_z (p : ZLoc) (d : Nat) (w : ZLoc) : M := z_d p w d
end Multiplies

namespace Divides   -- __gmp_binary_divides, mpirxx.h:649 (with the repairs 6128301 and a12218d)
def zz (p w v : ZLoc) : M := mpz_tdiv_q p w v
def z_ui (cst : Bool) (p w : ZLoc) (l : Nat) : M := fun h =>
  if cst && pow2Test l && l != 0 then
    if l = 1 then copyZ p w h else some (mpz_tdiv_q_2exp p w (ctz l) h)
  else mpz_tdiv_q_ui p w l h
def ui_z (p : ZLoc) (l : Nat) (w : ZLoc) : M := fun h =>
  if h w = 0 then mpz_tdiv_q p w w h
  else if h w ≥ 0 then
    if fitsUi (h w) then some (mpz_set_ui p (l / (h w).toNat) h)       -- l / mpz_get_ui(w), w ≠ 0
    else some (mpz_set_ui p 0 h)
  else
    let h1 := mpz_neg p w h
    if fitsUi (h1 p) then some (mpz_neg p p (mpz_set_ui p (l / (h1 p).toNat) h1))
    else some (mpz_set_ui p 0 h1)
def z_si (cst : Bool) (p w : ZLoc) (l : Int) : M := fun h =>
  if l ≥ 0 then z_ui cst p w (toUi l) h
  else (z_ui cst p w (negUi l) h).map (mpz_neg p p)
def si_z (p : ZLoc) (l : Int) (w : ZLoc) : M := fun h =>
  if fitsSi (h w) then
    let d := h w                                   -- mpz_get_si(w)
    if d = 0 then mpz_tdiv_q p w w h
    else if d = -1 then some (mpz_neg p p (mpz_set_si p l h))
    else some (mpz_set_si p (Int.tdiv l d) h)      -- C `l / d`, no overflow since d ∉ {0, -1}
  else some (mpz_set_si p (if (h w).natAbs = absUi l then -1 else 0) h)   -- mpz_cmpabs_ui(w, |l|) == 0
def z_d (p w : ZLoc) (d : Nat) : M := fun h =>
  (tmpzD d).bind fun t => if t = 0 then none else some (mpz_opT Int.tdiv p w t h)
def d_z (p : ZLoc) (d : Nat) (w : ZLoc) : M := fun h =>
  (tmpzD d).bind fun t => if h w = 0 then none else some (mpz_opT (fun x y => Int.tdiv y x) p w t h)
end Divides

namespace Modulus   -- __gmp_binary_modulus, mpirxx.h:832
def zz (p w v : ZLoc) : M := mpz_tdiv_r p w v
def z_ui (p w : ZLoc) (l : Nat) : M := mpz_tdiv_r_ui p w l
def ui_z (p : ZLoc) (l : Nat) (w : ZLoc) : M := fun h =>
  if h w = 0 then mpz_tdiv_r p w w h
  else if h w ≥ 0 then
    if fitsUi (h w) then some (mpz_set_ui p (l % (h w).toNat) h)
    else some (mpz_set_ui p l h)
  else
    let h1 := mpz_neg p w h
    if fitsUi (h1 p) then some (mpz_set_ui p (l % (h1 p).toNat) h1)
    else some (mpz_set_ui p l h1)
def z_si (p w : ZLoc) (l : Int) : M := mpz_tdiv_r_ui p w (absUi l)
def si_z (p : ZLoc) (l : Int) (w : ZLoc) : M := fun h =>
  if fitsSi (h w) then
    let d := h w
    if d = 0 then mpz_tdiv_r p w w h
    else some (mpz_set_si p (if d = -1 then 0 else Int.tmod l d) h)
  else some (mpz_set_si p (if (h w).natAbs = absUi l then 0 else l) h)
def z_d (p w : ZLoc) (d : Nat) : M := fun h =>
  (tmpzD d).bind fun t => if t = 0 then none else some (mpz_opT Int.tmod p w t h)
def d_z (p : ZLoc) (d : Nat) (w : ZLoc) : M := fun h =>
  (tmpzD d).bind fun t => if h w = 0 then none else some (mpz_opT (fun x y => Int.tmod y x) p w t h)
end Modulus

/- `__gmp_binary_and/ior/xor` (mpirxx.h:878–931): built-ins go through `__GMPXX_TMPZ_UI/SI/D` -/
namespace Bitop
def zz (f : Int → Int → Int) (p w v : ZLoc) : M := fun h => some (h.set p (f (h w) (h v)))
def z_ui (f : Int → Int → Int) (p w : ZLoc) (l : Nat) : M := fun h => some (mpz_opT f p w (Int.ofNat l) h)
def z_si (f : Int → Int → Int) (p w : ZLoc) (l : Int) : M := fun h => some (mpz_opT f p w (tmpzSi l) h)
def z_d (f : Int → Int → Int) (p w : ZLoc) (d : Nat) : M := fun h => (tmpzD d).map fun t => mpz_opT f p w t h
end Bitop

/- `__gmp_gcd_function` / `__gmp_lcm_function` (mpirxx.h:1225, 1257) -/
namespace Gcd
def zz (p w v : ZLoc) : M := fun h => some (mpz_gcd p w v h)
def z_ui (p w : ZLoc) (l : Nat) : M := fun h => some (mpz_gcd_ui p w l h)
def z_si (p w : ZLoc) (l : Int) : M := z_ui p w (absUi l)        -- __gmpxx_abs_ui
def z_d (p w : ZLoc) (d : Nat) : M := fun h => (tmpzD d).map fun t => mpz_opT zgcd p w t h
end Gcd
namespace Lcm
def zz (p w v : ZLoc) : M := fun h => some (mpz_lcm p w v h)
def z_ui (p w : ZLoc) (l : Nat) : M := fun h => some (mpz_lcm_ui p w l h)
def z_si (p w : ZLoc) (l : Int) : M := z_ui p w (absUi l)
def z_d (p w : ZLoc) (d : Nat) : M := fun h => (tmpzD d).map fun t => mpz_opT zlcm p w t h
end Lcm

/-- an operand handed to a function object: an mpz_t object or a built-in value -/
inductive ZArg where
  | loc (l : ZLoc)
  | bi (c : Bi)
  deriving DecidableEq, Repr

/-- overload resolution of `Op::eval(p, a, b)` for the mpz function objects -/
def fnBinZ (cst : Bool) (o : Bin) (p : ZLoc) (a b : ZArg) : M :=
  match o, a, b with
  | .add, .loc w, .loc v => Plus.zz p w v
  | .add, .loc w, .bi (.ui l) => Plus.z_ui cst p w l
  | .add, .bi (.ui l), .loc w => Plus.ui_z cst p l w
  | .add, .loc w, .bi (.si l) => Plus.z_si cst p w l
  | .add, .bi (.si l), .loc w => Plus.si_z cst p l w
  | .add, .loc w, .bi (.d d) => Plus.z_d p w d
  | .add, .bi (.d d), .loc w => Plus.d_z p d w
  | .sub, .loc w, .loc v => Minus.zz p w v
  | .sub, .loc w, .bi (.ui l) => Minus.z_ui cst p w l
  | .sub, .bi (.ui l), .loc w => Minus.ui_z cst p l w
  | .sub, .loc w, .bi (.si l) => Minus.z_si cst p w l
  | .sub, .bi (.si l), .loc w => Minus.si_z cst p l w
  | .sub, .loc w, .bi (.d d) => Minus.z_d p w d
  | .sub, .bi (.d d), .loc w => Minus.d_z p d w
  | .mul, .loc w, .loc v => Multiplies.zz p w v
  | .mul, .loc w, .bi (.ui l) => Multiplies.z_ui cst p w l
  | .mul, .bi (.ui l), .loc w => Multiplies.ui_z cst p l w
  | .mul, .loc w, .bi (.si l) => Multiplies.z_si cst p w l
  | .mul, .bi (.si l), .loc w => Multiplies.si_z cst p l w
  | .mul, .loc w, .bi (.d d) => Multiplies.z_d p w d
  | .mul, .bi (.d d), .loc w => Multiplies.d_z p d w
  | .div, .loc w, .loc v => Divides.zz p w v
  | .div, .loc w, .bi (.ui l) => Divides.z_ui cst p w l
  | .div, .bi (.ui l), .loc w => Divides.ui_z p l w
  | .div, .loc w, .bi (.si l) => Divides.z_si cst p w l
  | .div, .bi (.si l), .loc w => Divides.si_z p l w
  | .div, .loc w, .bi (.d d) => Divides.z_d p w d
  | .div, .bi (.d d), .loc w => Divides.d_z p d w
  | .mod, .loc w, .loc v => Modulus.zz p w v
  | .mod, .loc w, .bi (.ui l) => Modulus.z_ui p w l
  | .mod, .bi (.ui l), .loc w => Modulus.ui_z p l w
  | .mod, .loc w, .bi (.si l) => Modulus.z_si p w l
  | .mod, .bi (.si l), .loc w => Modulus.si_z p l w
  | .mod, .loc w, .bi (.d d) => Modulus.z_d p w d
  | .mod, .bi (.d d), .loc w => Modulus.d_z p d w
  | .and, .loc w, .loc v => Bitop.zz zand p w v
  | .and, .loc w, .bi (.ui l) | .and, .bi (.ui l), .loc w => Bitop.z_ui zand p w l
  | .and, .loc w, .bi (.si l) | .and, .bi (.si l), .loc w => Bitop.z_si zand p w l
  | .and, .loc w, .bi (.d d) | .and, .bi (.d d), .loc w => Bitop.z_d zand p w d
  | .ior, .loc w, .loc v => Bitop.zz zior p w v
  | .ior, .loc w, .bi (.ui l) | .ior, .bi (.ui l), .loc w => Bitop.z_ui zior p w l
  | .ior, .loc w, .bi (.si l) | .ior, .bi (.si l), .loc w => Bitop.z_si zior p w l
  | .ior, .loc w, .bi (.d d) | .ior, .bi (.d d), .loc w => Bitop.z_d zior p w d
  | .xor, .loc w, .loc v => Bitop.zz zxor p w v
  | .xor, .loc w, .bi (.ui l) | .xor, .bi (.ui l), .loc w => Bitop.z_ui zxor p w l
  | .xor, .loc w, .bi (.si l) | .xor, .bi (.si l), .loc w => Bitop.z_si zxor p w l
  | .xor, .loc w, .bi (.d d) | .xor, .bi (.d d), .loc w => Bitop.z_d zxor p w d
  | .gcd, .loc w, .loc v => Gcd.zz p w v
  | .gcd, .loc w, .bi (.ui l) | .gcd, .bi (.ui l), .loc w => Gcd.z_ui p w l
  | .gcd, .loc w, .bi (.si l) | .gcd, .bi (.si l), .loc w => Gcd.z_si p w l
  | .gcd, .loc w, .bi (.d d) | .gcd, .bi (.d d), .loc w => Gcd.z_d p w d
  | .lcm, .loc w, .loc v => Lcm.zz p w v
  | .lcm, .loc w, .bi (.ui l) | .lcm, .bi (.ui l), .loc w => Lcm.z_ui p w l
  | .lcm, .loc w, .bi (.si l) | .lcm, .bi (.si l), .loc w => Lcm.z_si p w l
  | .lcm, .loc w, .bi (.d d) | .lcm, .bi (.d d), .loc w => Lcm.z_d p w d
  | _, .bi _, .bi _ => fun _ => none        -- no such overload: does not compile

/-- `Op::eval(p, w)` for the unary mpz function objects (mpirxx.h:176–193, 1122–1148) -/
def fnUnZ (o : Un) (p w : ZLoc) : M := fun h =>
  match o with
  | .pos => some (mpz_set p w h)
  | .neg => some (mpz_neg p w h)
  | .com => some (mpz_com p w h)
  | .abs => some (mpz_abs p w h)
  | .sqrt => mpz_sqrt p w h

def fnShZ (cst : Bool) (o : Sh) (p w : ZLoc) (n : Nat) : M :=
  match o with
  | .shl => Lshift.z cst p w n
  | .shr => Rshift.z cst p w n

/-! ### temporaries semantics of an mpz-typed tree over the raw contents of the mpz_t objects

  `evalTmpZ zs e`: every sub-expression into its own temporary with the C function, every leaf read from `zs`
  (`zv i` from `.v i`, the accessors `zn i` / `zd i` from the fields `.num i` / `.den i`).  For a heap whose
  mentioned mpq objects are canonical this is `evalTmp` (lemma `evalTmp_z`); it is also meaningful between an
  assignment through an accessor and `canonicalize()`, when the fields are not a canonical pair. -/

/-- value of a built-in operand once converted to mpz (`mpz_set_si/ui/d`) -/
def biZ : Bi → Option Int
  | .si v => some v
  | .ui v => some (Int.ofNat v)
  | .d b => tmpzD b

def shZ (o : Sh) (n : Nat) (x : Int) : Int := match o with | .shl => zshl x n | .shr => zshr x n

def evalTmpZ (zs : ZLoc → Int) : E → Option Int
  | .zv i => some (zs (.v i))
  | .zn i => some (zs (.num i))
  | .zd i => some (zs (.den i))
  | .qv _ => none
  | .un o a => (evalTmpZ zs a).bind (unZ o)
  | .bin o a b => (evalTmpZ zs a).bind fun x => (evalTmpZ zs b).bind fun y => binZ o x y
  | .binL o c b => (evalTmpZ zs b).bind fun y => (biZ c).bind fun x => binZ o x y
  | .binR o a c => (evalTmpZ zs a).bind fun x => (biZ c).bind fun y => binZ o x y
  | .sh o a n => (evalTmpZ zs a).map (shZ o n)

/-! ### the expression-template strategy for mpz-typed trees (mpirxx.h:2382–2772)

  `evalZ cst k p e` is `__gmp_set_expr(p, e)` for an mpz-typed tree: `mpz_set` for an `mpz_class`
  leaf (mpirxx.h:2267), else `e.eval(p)` with the specialisation selected by the shapes of the
  operands.  `k` is the index of the next unused `mpz_class` temporary object. -/

/-- the `mpz_t` object an `mpz_class`-typed leaf denotes: a variable, or (accessors) a field of an mpq object -/
def E.zleaf? : E → Option ZLoc
  | .zv i => some (.v i)
  | .zn i => some (.num i)
  | .zd i => some (.den i)
  | _ => none

def evalZ (cst : Bool) : (k : Nat) → (p : ZLoc) → E → M
  | _, p, .zv i => fun h => some (mpz_set p (.v i) h)
  | _, p, .zn i => fun h => some (mpz_set p (.num i) h)                 -- `q.get_num()` is an `mpz_class const&`: same overload
  | _, p, .zd i => fun h => some (mpz_set p (.den i) h)
  | _, _, .qv _ => fun _ => none
  | k, p, .un o a =>
    match a.zleaf? with
    | some i => fnUnZ o p i                                             -- mpirxx.h:2391
    | none => fun h => (evalZ cst k p a h).bind (fnUnZ o p p)           -- mpirxx.h:2409: expr.val.eval(p); Op::eval(p, p)
  | k, p, .bin o a b =>
    match a.zleaf?, b.zleaf? with
    | some i, some j => fnBinZ cst o p (.loc i) (.loc j)                -- mpirxx.h:2437
    | some i, none => fun h =>                                          -- mpirxx.h:2573 (`p != expr.val1.__get_mp()`: pointer comparison)
        if p ≠ i then (evalZ cst k p b h).bind (fnBinZ cst o p (.loc i) (.loc p))
        else (evalZ cst (k + 1) (.v k) b h).bind (fnBinZ cst o p (.loc i) (.loc (.v k)))
    | none, some j => fun h =>                                          -- mpirxx.h:2608
        if p ≠ j then (evalZ cst k p a h).bind (fnBinZ cst o p (.loc p) (.loc j))
        else (evalZ cst (k + 1) (.v k) a h).bind (fnBinZ cst o p (.loc (.v k)) (.loc j))
    | none, none => fun h =>                                            -- mpirxx.h:2747
        (evalZ cst (k + 1) (.v k) b h).bind fun h1 =>                   --   __gmp_temp<T> temp2(expr.val2, p);
        (evalZ cst (k + 1) p a h1).bind                                  --   expr.val1.eval(p);
          (fnBinZ cst o p (.loc p) (.loc (.v k)))                        --   Op::eval(p, p, temp2)
  | k, p, .binL o c b =>
    match b.zleaf? with
    | some j => fnBinZ cst o p (.bi c) (.loc j)                         -- mpirxx.h:2482
    | none => fun h => (evalZ cst k p b h).bind (fnBinZ cst o p (.bi c) (.loc p))   -- mpirxx.h:2667
  | k, p, .binR o a c =>
    match a.zleaf? with
    | some i => fnBinZ cst o p (.loc i) (.bi c)                         -- mpirxx.h:2464
    | none => fun h => (evalZ cst k p a h).bind (fnBinZ cst o p (.loc p) (.bi c))   -- mpirxx.h:2646
  | k, p, .sh o a n =>
    match a.zleaf? with
    | some i => fnShZ cst o p i n
    | none => fun h => (evalZ cst k p a h).bind (fnShZ cst o p p n)


/-! ### comparisons on mpz (`__gmp_binary_equal/less/greater`, `__gmp_cmp_function`, mpirxx.h:933–1118, 1289)

  `mpz_cmp*` return an int of which only the sign is specified; the model keeps the sign. -/

namespace CmpF
/-- sign of `mpz_cmp(z, w)`, `mpz_cmp_ui(z, l)`, `mpz_cmp_si(z, l)`, `mpz_cmp_d(z, d)` -/
def zArg (h : Heap) (z : ZLoc) : ZArg → Option Int
  | .loc w => some (zcmp (h z) (h w))
  | .bi (.ui l) => some (zcmp (h z) (Int.ofNat l))
  | .bi (.si l) => some (zcmp (h z) l)
  | .bi (.d d) => (dval d).map fun r => qcmp (h z) r
/-- `__gmp_cmp_function::eval(a, b)`: a built-in on the left negates `mpz_cmp_xx(z, l)` -/
def cmp (h : Heap) : ZArg → ZArg → Option Int
  | .loc z, b => zArg h z b
  | .bi c, .loc z => (zArg h z (.bi c)).map fun r => -r
  | .bi _, .bi _ => none
def equal (h : Heap) : ZArg → ZArg → Option Bool
  | .loc z, b => (zArg h z b).map (· == 0)
  | .bi c, .loc z => (zArg h z (.bi c)).map (· == 0)
  | .bi _, .bi _ => none
def less (h : Heap) : ZArg → ZArg → Option Bool
  | .loc z, b => (zArg h z b).map (· < 0)
  | .bi c, .loc z => (zArg h z (.bi c)).map (· > 0)
  | .bi _, .bi _ => none
def greater (h : Heap) : ZArg → ZArg → Option Bool
  | .loc z, b => (zArg h z b).map (· > 0)
  | .bi c, .loc z => (zArg h z (.bi c)).map (· < 0)
  | .bi _, .bi _ => none
end CmpF

def b2i (b : Bool) : Int := if b then 1 else 0

/-- the operators `== != < <= > >=` and `cmp` (mpirxx.h:3316–3333) -/
def fnCmpZ (o : Cmp) (a b : ZArg) (h : Heap) : Option Int :=
  match o with
  | .eq => (CmpF.equal h a b).map b2i
  | .ne => (CmpF.equal h a b).map fun r => b2i (!r)
  | .lt => (CmpF.less h a b).map b2i
  | .le => (CmpF.greater h a b).map fun r => b2i (!r)
  | .gt => (CmpF.greater h a b).map b2i
  | .ge => (CmpF.less h a b).map fun r => b2i (!r)
  | .cmp => CmpF.cmp h a b

/-- `__gmp_expr<T, T> const& temp(expr)` (mpirxx.h:3098, 3109): binds to the object itself when the
    operand is an `mpz_class`, otherwise a temporary `mpz_class` is constructed from the expression -/
def bindZ (cst : Bool) (k : Nat) (e : E) (h : Heap) : Option (ZLoc × Heap) :=
  match e.zleaf? with
  | some l => some (l, h)
  | none => (evalZ cst (k + 1) (.v k) e h).map fun h' => (.v k, h')

/-- a comparison statement whose class operands are mpz-typed; `K` = number of variables -/
def execCmpZ (cst : Bool) (K : Nat) (o : Cmp) (a b : Opnd) (h : Heap) : Option Int :=
  match a, b with
  | .ex a, .ex b =>
      (bindZ cst K a h).bind fun (la, h1) => (bindZ cst (K + 1) b h1).bind fun (lb, h2) => fnCmpZ o (.loc la) (.loc lb) h2
  | .ex a, .bi c => (bindZ cst K a h).bind fun (la, h1) => fnCmpZ o (.loc la) (.bi c) h1
  | .bi c, .ex b => (bindZ cst K b h).bind fun (lb, h1) => fnCmpZ o (.bi c) (.loc lb) h1
  | .bi _, .bi _ => none

/-- `sgn(e)` (mpirxx.h:2988): `mpz_sgn` of the bound object -/
def execSgnZ (cst : Bool) (K : Nat) (a : E) (h : Heap) : Option Int :=
  (bindZ cst K a h).map fun (la, h1) => zsgn (h1 la)

/-! ### mpq: C functions and function objects -/

/-- canonical form: positive denominator, numerator and denominator coprime -/
def Canon (h : Heap) (i : Nat) : Prop :=
  0 < h (.den i) ∧ Nat.Coprime (h (.num i)).natAbs (h (.den i)).natAbs

/- the mpq C functions: operands are read (canonical), the canonical result is stored (C12) -/
def mpq_op1 (f : Rat → Rat) (p r : Nat) (h : Heap) : Heap := h.setQ p (f (qval h r))
def mpq_op2 (f : Rat → Rat → Rat) (p a b : Nat) (h : Heap) : Heap := h.setQ p (f (qval h a) (qval h b))
/-- an mpq function with a stack temporary (`__GMPXX_TMPQ_UI/SI`, `mpq_t temp; mpq_set_d`) of value `t` as second operand -/
def mpq_opT (f : Rat → Rat → Rat) (p r : Nat) (t : Rat) (h : Heap) : Heap := h.setQ p (f (qval h r) t)
def mpq_set (p r : Nat) (h : Heap) : Heap := (h.set (.num p) (h (.num r))).set (.den p) (h (.den r))
def mpq_neg (p r : Nat) (h : Heap) : Heap := (h.set (.num p) (-(h (.num r)))).set (.den p) (h (.den r))
def mpq_abs (p r : Nat) (h : Heap) : Heap := (h.set (.num p) (zabs (h (.num r)))).set (.den p) (h (.den r))
def mpq_div (p a b : Nat) (h : Heap) : Option Heap := if qval h b = 0 then none else some (mpq_op2 (· / ·) p a b h)
def mpq_set_z (p : Nat) (z : ZLoc) (h : Heap) : Heap := (h.set (.num p) (h z)).set (.den p) 1
def mpq_set_ui (p : Nat) (n d : Nat) (h : Heap) : Heap := (h.set (.num p) (Int.ofNat n)).set (.den p) (Int.ofNat d)
def mpz_set_q (z : ZLoc) (q : Nat) (h : Heap) : Heap := h.set z (qtrunc (qval h q))
def mpz_addmul_ui (x y : ZLoc) (l : Nat) (h : Heap) : Heap := h.set x (h x + h y * Int.ofNat l)
def mpz_submul_ui (x y : ZLoc) (l : Nat) (h : Heap) : Heap := h.set x (h x - h y * Int.ofNat l)
def mpz_addmul (x y z : ZLoc) (h : Heap) : Heap := h.set x (h x + h y * h z)
def mpz_submul (x y z : ZLoc) (h : Heap) : Heap := h.set x (h x - h y * h z)

/-- `if (q != r) mpq_set(q, r)` -/
def copyQ (p r : Nat) : M := fun h => if p ≠ r then some (mpq_set p r h) else some h

namespace Lshift
def q (cst : Bool) (p r : Nat) (l : Nat) : M := fun h =>
  if cst && l == 0 then copyQ p r h else some (mpq_op1 (fun x => qshl x l) p r h)      -- mpq_mul_2exp
end Lshift
namespace Rshift
def q (cst : Bool) (p r : Nat) (l : Nat) : M := fun h =>
  if cst && l == 0 then copyQ p r h else some (mpq_op1 (fun x => qshr x l) p r h)      -- mpq_div_2exp
end Rshift

namespace Plus
def qq (p r s : Nat) : M := fun h => some (mpq_op2 (· + ·) p r s h)
/-- mpirxx.h:230 -/
def q_ui (cst : Bool) (p r : Nat) (l : Nat) : M := fun h =>
  if cst && l == 0 then copyQ p r h
  else if p = r then some (mpz_addmul_ui (.num p) (.den p) l h)
  else some (mpz_set (.den p) (.den r) (mpz_add (.num p) (.num p) (.num r) (mpz_mul_ui (.num p) (.den r) l h)))
/-- mpirxx.h:265 -/
def q_z (p r : Nat) (z : ZLoc) : M := fun h =>
  if p = r then some (mpz_addmul (.num p) (.den p) z h)
  else some (mpz_set (.den p) (.den r) (mpz_add (.num p) (.num p) (.num r) (mpz_mul (.num p) (.den r) z h)))
def q_d (p r : Nat) (d : Nat) : M := fun h => (dval d).map fun t => mpq_opT (· + ·) p r t h
end Plus

namespace Minus
def qq (p r s : Nat) : M := fun h => some (mpq_op2 (· - ·) p r s h)
/-- mpirxx.h:355 -/
def q_ui (cst : Bool) (p r : Nat) (l : Nat) : M := fun h =>
  if cst && l == 0 then copyQ p r h
  else if p = r then some (mpz_submul_ui (.num p) (.den p) l h)
  else some (mpz_set (.den p) (.den r) (mpz_sub (.num p) (.num r) (.num p) (mpz_mul_ui (.num p) (.den r) l h)))
def ui_q (cst : Bool) (p : Nat) (l : Nat) (r : Nat) : M := fun h => (q_ui cst p r l h).map (mpq_neg p p)
/-- mpirxx.h:401 -/
def q_z (p r : Nat) (z : ZLoc) : M := fun h =>
  if p = r then some (mpz_submul (.num p) (.den p) z h)
  else some (mpz_set (.den p) (.den r) (mpz_sub (.num p) (.num r) (.num p) (mpz_mul (.num p) (.den r) z h)))
def z_q (p : Nat) (z : ZLoc) (r : Nat) : M := fun h => (q_z p r z h).map (mpq_neg p p)
def q_d (p r : Nat) (d : Nat) : M := fun h => (dval d).map fun t => mpq_opT (· - ·) p r t h
def d_q (p : Nat) (d : Nat) (r : Nat) : M := fun h => (dval d).map fun t => mpq_opT (fun x y => y - x) p r t h
def q_si (cst : Bool) (p r : Nat) (l : Int) : M := fun h =>
  if l ≥ 0 then q_ui cst p r (toUi l) h else Plus.q_ui cst p r (negUi l) h
def si_q (cst : Bool) (p : Nat) (l : Int) (r : Nat) : M := fun h => (q_si cst p r l h).map (mpq_neg p p)
end Minus

namespace Plus
/-- mpirxx.h:457 -/
def q_si (cst : Bool) (p r : Nat) (l : Int) : M := fun h =>
  if l ≥ 0 then q_ui cst p r (toUi l) h else Minus.q_ui cst p r (negUi l) h
end Plus

/-- `__GMPXX_TMPQ_SI`: numerator by `__mpz_set_si_safe`, denominator 1 -/
def tmpqSi (l : Int) : Rat := ((tmpzSi l : Int) : Rat)

namespace Multiplies
def qq (p r s : Nat) : M := fun h => some (mpq_op2 (· * ·) p r s h)
/-- mpirxx.h:564 -/
def q_ui (cst : Bool) (p r : Nat) (l : Nat) : M := fun h =>
  if cst && pow2Test l then
    if l = 0 then some (mpq_set_ui p 0 1 h) else Lshift.q cst p r (ctz l) h
  else some (mpq_opT (· * ·) p r ((Int.ofNat l : Int) : Rat) h)
def q_si (cst : Bool) (p r : Nat) (l : Int) : M := fun h =>
  if cst then
    if l ≥ 0 then q_ui cst p r (toUi l) h else (q_ui cst p r (negUi l) h).map (mpq_neg p p)
  else some (mpq_opT (· * ·) p r (tmpqSi l) h)
def q_d (p r : Nat) (d : Nat) : M := fun h => (dval d).map fun t => mpq_opT (· * ·) p r t h
end Multiplies

namespace Divides
def qq (p r s : Nat) : M := mpq_div p r s
/-- `mpq_div(q, r, temp)` with a stack temporary divisor -/
def divT (p r : Nat) (t : Rat) : M := fun h => if t = 0 then none else some (mpq_opT (· / ·) p r t h)
/-- `mpq_div(q, temp, r)` -/
def tDiv (p : Nat) (t : Rat) (r : Nat) : M := fun h => if qval h r = 0 then none else some (mpq_opT (fun x y => y / x) p r t h)
/-- mpirxx.h:736 -/
def q_ui (cst : Bool) (p r : Nat) (l : Nat) : M := fun h =>
  if cst && pow2Test l && l != 0 then Rshift.q cst p r (ctz l) h
  else divT p r ((Int.ofNat l : Int) : Rat) h
def ui_q (p : Nat) (l : Nat) (r : Nat) : M := tDiv p ((Int.ofNat l : Int) : Rat) r
def q_si (cst : Bool) (p r : Nat) (l : Int) : M := fun h =>
  if cst then
    if l ≥ 0 then q_ui cst p r (toUi l) h else (q_ui cst p r (negUi l) h).map (mpq_neg p p)
  else divT p r (tmpqSi l) h
def si_q (p : Nat) (l : Int) (r : Nat) : M := tDiv p (tmpqSi l) r
def q_d (p r : Nat) (d : Nat) : M := fun h => (dval d).bind fun t => divT p r t h
def d_q (p : Nat) (d : Nat) (r : Nat) : M := fun h => (dval d).bind fun t => tDiv p t r h
end Divides

/-- an operand handed to an mpq function object -/
inductive QArg where
  | q (i : Nat)          -- mpq object
  | z (l : ZLoc)         -- mpz_class object (a variable / temporary `.v i`, or an accessor sub-object; only `+` and `-` have such overloads)
  | bi (c : Bi)
  deriving DecidableEq, Repr

/-- overload resolution of `Op::eval(q, a, b)` for the mpq function objects -/
def fnBinQ (cst : Bool) (o : Bin) (p : Nat) (a b : QArg) : M :=
  match o, a, b with
  | .add, .q r, .q s => Plus.qq p r s
  | .add, .q r, .bi (.ui l) | .add, .bi (.ui l), .q r => Plus.q_ui cst p r l
  | .add, .q r, .bi (.si l) | .add, .bi (.si l), .q r => Plus.q_si cst p r l
  | .add, .q r, .bi (.d d) | .add, .bi (.d d), .q r => Plus.q_d p r d
  | .add, .q r, .z z | .add, .z z, .q r => Plus.q_z p r z
  | .sub, .q r, .q s => Minus.qq p r s
  | .sub, .q r, .bi (.ui l) => Minus.q_ui cst p r l
  | .sub, .bi (.ui l), .q r => Minus.ui_q cst p l r
  | .sub, .q r, .bi (.si l) => Minus.q_si cst p r l
  | .sub, .bi (.si l), .q r => Minus.si_q cst p l r
  | .sub, .q r, .bi (.d d) => Minus.q_d p r d
  | .sub, .bi (.d d), .q r => Minus.d_q p d r
  | .sub, .q r, .z z => Minus.q_z p r z
  | .sub, .z z, .q r => Minus.z_q p z r
  | .mul, .q r, .q s => Multiplies.qq p r s
  | .mul, .q r, .bi (.ui l) | .mul, .bi (.ui l), .q r => Multiplies.q_ui cst p r l
  | .mul, .q r, .bi (.si l) | .mul, .bi (.si l), .q r => Multiplies.q_si cst p r l
  | .mul, .q r, .bi (.d d) | .mul, .bi (.d d), .q r => Multiplies.q_d p r d
  | .div, .q r, .q s => Divides.qq p r s
  | .div, .q r, .bi (.ui l) => Divides.q_ui cst p r l
  | .div, .bi (.ui l), .q r => Divides.ui_q p l r
  | .div, .q r, .bi (.si l) => Divides.q_si cst p r l
  | .div, .bi (.si l), .q r => Divides.si_q p l r
  | .div, .q r, .bi (.d d) => Divides.q_d p r d
  | .div, .bi (.d d), .q r => Divides.d_q p d r
  | _, _, _ => fun _ => none        -- no such overload

def fnUnQ (o : Un) (p r : Nat) : M := fun h =>
  match o with
  | .pos => some (mpq_set p r h)
  | .neg => some (mpq_neg p r h)
  | .abs => some (mpq_abs p r h)
  | _ => none

def fnShQ (cst : Bool) (o : Sh) (p r : Nat) (n : Nat) : M :=
  match o with
  | .shl => Lshift.q cst p r n
  | .shr => Rshift.q cst p r n


/-! ### the expression-template strategy for mpq destinations (mpirxx.h:2292–2313, 2382–2952)

  `evalQ cst k p e` is `__gmp_set_expr(p, e)` for an mpq destination object `p` and a tree `e` of either
  type: an mpz-typed tree is evaluated *into the numerator field* and the denominator set to 1
  (mpirxx.h:2298); an mpq-typed tree runs `e.eval(p)` with the specialisation chosen by the operand
  shapes, among them the mixed mpz/mpq special cases of `+` and `-` (`__GMPZQ_DEFINE_EXPR`,
  mpirxx.h:2782).  `k` numbers the next unused temporary (`mpz_class` object `.v k`, `mpq_class` object `k`). -/

def E.qleaf? : E → Option Nat
  | .qv i => some i
  | _ => none

/-- `__gmp_set_expr(mpq_ptr q, const __gmp_expr<mpz_t, T> &)` (mpirxx.h:2320-2325), in the order of the two statements:
      `__gmp_set_expr(mpq_numref(q), expr);`   the integer expression is evaluated into the numerator FIRST, from the old state
                                               (it may read `q.get_num()` / `q.get_den()` of the destination itself),
      `mpz_set_ui(mpq_denref(q), 1);`          then denominator := 1. -/
def convZ (cst : Bool) (k p : Nat) (e : E) : M := fun h =>
  (evalZ cst k (.num p) e h).map (mpz_set_ui (.den p) 1)

def isAddSub : Bin → Bool
  | .add | .sub => true
  | _ => false

def evalQ (cst : Bool) : (k p : Nat) → E → M
  | _, p, .zv i => fun h => some (mpq_set_z p (.v i) h)                 -- mpirxx.h:2292
  | _, p, .zn i => fun h => some (mpq_set_z p (.num i) h)               --   (`q = r.get_num()`: the same overload, also for r = q)
  | _, p, .zd i => fun h => some (mpq_set_z p (.den i) h)
  | _, p, .qv i => fun h => some (mpq_set p i h)                        -- mpirxx.h:2304
  | k, p, .un o a =>
    if a.ty = .z then convZ cst k p (.un o a)
    else match a.qleaf? with
      | some i => fnUnQ o p i
      | none => fun h => (evalQ cst k p a h).bind (fnUnQ o p p)
  | k, p, .sh o a n =>
    if a.ty = .z then convZ cst k p (.sh o a n)
    else match a.qleaf? with
      | some i => fnShQ cst o p i n
      | none => fun h => (evalQ cst k p a h).bind (fnShQ cst o p p n)
  | k, p, .binL o c b =>
    if b.ty = .z then convZ cst k p (.binL o c b)
    else match b.qleaf? with
      | some j => fnBinQ cst o p (.bi c) (.q j)
      | none => fun h => (evalQ cst k p b h).bind (fnBinQ cst o p (.bi c) (.q p))
  | k, p, .binR o a c =>
    if a.ty = .z then convZ cst k p (.binR o a c)
    else match a.qleaf? with
      | some i => fnBinQ cst o p (.q i) (.bi c)
      | none => fun h => (evalQ cst k p a h).bind (fnBinQ cst o p (.q p) (.bi c))
  | k, p, .bin o a b =>
    if a.ty = .z ∧ b.ty = .z then convZ cst k p (.bin o a b)
    else if isAddSub o ∧ a.ty = .z then                                  -- mpz ± mpq, mpirxx.h:2785, 2821, 2865, 2909
      match a.zleaf?, b.qleaf? with
      | some i, some j => fnBinQ cst o p (.z i) (.q j)
      | some i, none => fun h => (evalQ cst (k + 1) k b h).bind (fnBinQ cst o p (.z i) (.q k))
      | none, some j => fun h => (evalZ cst (k + 1) (.v k) a h).bind (fnBinQ cst o p (.z (.v k)) (.q j))
      | none, none => fun h =>
          (evalZ cst (k + 1) (.v k) a h).bind fun h1 => (evalQ cst (k + 1) p b h1).bind (fnBinQ cst o p (.z (.v k)) (.q p))
    else if isAddSub o ∧ b.ty = .z then                                  -- mpq ± mpz, mpirxx.h:2803, 2843, 2887, 2932
      match a.qleaf?, b.zleaf? with
      | some i, some j => fnBinQ cst o p (.q i) (.z j)
      | some i, none => fun h => (evalZ cst (k + 1) (.v k) b h).bind (fnBinQ cst o p (.q i) (.z (.v k)))
      | none, some j => fun h => (evalQ cst (k + 1) k a h).bind (fnBinQ cst o p (.q k) (.z j))
      | none, none => fun h =>
          (evalZ cst (k + 1) (.v k) b h).bind fun h1 => (evalQ cst (k + 1) p a h1).bind (fnBinQ cst o p (.q p) (.z (.v k)))
    else
      match a.qleaf?, b.qleaf? with
      | some i, some j => fnBinQ cst o p (.q i) (.q j)                   -- mpirxx.h:2437
      | some i, none => fun h =>                                         -- mpirxx.h:2503 / 2573
          if p ≠ i then (evalQ cst k p b h).bind (fnBinQ cst o p (.q i) (.q p))
          else (evalQ cst (k + 1) k b h).bind (fnBinQ cst o p (.q i) (.q k))
      | none, some j => fun h =>                                         -- mpirxx.h:2538 / 2608
          if p ≠ j then (evalQ cst k p a h).bind (fnBinQ cst o p (.q p) (.q j))
          else (evalQ cst (k + 1) k a h).bind (fnBinQ cst o p (.q k) (.q j))
      | none, none => fun h =>
          if a.ty = .q then                                              -- mpirxx.h:2691 / 2747
            (evalQ cst (k + 1) k b h).bind fun h1 => (evalQ cst (k + 1) p a h1).bind (fnBinQ cst o p (.q p) (.q k))
          else                                                           -- mpirxx.h:2719
            (evalQ cst (k + 1) k a h).bind fun h1 => (evalQ cst (k + 1) p b h1).bind (fnBinQ cst o p (.q k) (.q p))

/-- `z_t = e` for an mpq-typed `e` (mpirxx.h:2279): `mpq_class const& temp(expr); mpz_set_q(z, temp)` -/
def assignZfromQ (cst : Bool) (k : Nat) (t : Nat) (e : E) : M := fun h =>
  match e.qleaf? with
  | some i => some (mpz_set_q (.v t) i h)
  | none => (evalQ cst (k + 1) k e h).map (mpz_set_q (.v t) k)

/-- a whole assignment statement `target = e`; `K` = number of variables of each kind -/
def execAssign (cst : Bool) (K : Nat) (t : Ty) (i : Nat) (e : E) : M :=
  match t with
  | .z => if e.ty = .z then evalZ cst K (.v i) e else assignZfromQ cst K i e
  | .q => evalQ cst K i e

/-! ### comparisons on mpq (`__gmp_binary_equal/less/greater`, `__gmp_cmp_function`, mpq overloads) -/
namespace CmpFQ
/-- sign of `mpq_cmp(q, r)`, `mpq_cmp_ui(q, l, 1)`, `mpq_cmp_si(q, l, 1)`, and of `mpq_cmp(q, temp)` after `mpq_set_d(temp, d)` -/
def qArg (h : Heap) (q : Nat) : QArg → Option Int
  | .q r => some (qcmp (qval h q) (qval h r))
  | .bi (.ui l) => some (qcmp (qval h q) ((Int.ofNat l : Int) : Rat))
  | .bi (.si l) => some (qcmp (qval h q) (l : Rat))
  | .bi (.d d) => (dval d).map fun r => qcmp (qval h q) r
  | .z _ => none
def cmp (h : Heap) : QArg → QArg → Option Int
  | .q q, b => qArg h q b
  | .bi c, .q q => (qArg h q (.bi c)).map fun r => -r
  | _, _ => none
def equal (h : Heap) : QArg → QArg → Option Bool
  | .q q, b => (qArg h q b).map (· == 0)
  | .bi c, .q q => (qArg h q (.bi c)).map (· == 0)
  | _, _ => none
def less (h : Heap) : QArg → QArg → Option Bool
  | .q q, b => (qArg h q b).map (· < 0)
  | .bi c, .q q => (qArg h q (.bi c)).map (· > 0)
  | _, _ => none
def greater (h : Heap) : QArg → QArg → Option Bool
  | .q q, b => (qArg h q b).map (· > 0)
  | .bi c, .q q => (qArg h q (.bi c)).map (· < 0)
  | _, _ => none
end CmpFQ

def fnCmpQ (o : Cmp) (a b : QArg) (h : Heap) : Option Int :=
  match o with
  | .eq => (CmpFQ.equal h a b).map b2i
  | .ne => (CmpFQ.equal h a b).map fun r => b2i (!r)
  | .lt => (CmpFQ.less h a b).map b2i
  | .le => (CmpFQ.greater h a b).map fun r => b2i (!r)
  | .gt => (CmpFQ.greater h a b).map b2i
  | .ge => (CmpFQ.less h a b).map fun r => b2i (!r)
  | .cmp => CmpFQ.cmp h a b

/-- `mpq_class const& temp(expr)`: the object itself for an `mpq_class` operand, else a temporary `mpq_class`
    constructed from the expression (an mpz-typed operand is converted: `mpq_set_z` / evaluation into the numerator) -/
def bindQ (cst : Bool) (k : Nat) (e : E) (h : Heap) : Option (Nat × Heap) :=
  match e.qleaf? with
  | some i => some (i, h)
  | none => (evalQ cst (k + 1) k e h).map fun h' => (k, h')

def Opnd.isZ : Opnd → Bool
  | .ex e => e.ty = .z
  | .bi _ => true

/-- a comparison statement with at least one mpq-typed class operand: both class operands are bound as mpq -/
def execCmpQ (cst : Bool) (K : Nat) (o : Cmp) (a b : Opnd) (h : Heap) : Option Int :=
  match a, b with
  | .ex a, .ex b =>
      (bindQ cst K a h).bind fun (la, h1) => (bindQ cst (K + 1) b h1).bind fun (lb, h2) => fnCmpQ o (.q la) (.q lb) h2
  | .ex a, .bi c => (bindQ cst K a h).bind fun (la, h1) => fnCmpQ o (.q la) (.bi c) h1
  | .bi c, .ex b => (bindQ cst K b h).bind fun (lb, h1) => fnCmpQ o (.bi c) (.q lb) h1
  | .bi _, .bi _ => none

/-- any comparison statement (mpirxx.h:3091–3118): evaluated in mpz when every class operand is mpz-typed, else in mpq -/
def execCmp (cst : Bool) (K : Nat) (o : Cmp) (a b : Opnd) : Heap → Option Int :=
  if a.isZ && b.isZ then execCmpZ cst K o a b else execCmpQ cst K o a b

/-- `sgn(e)` -/
def execSgn (cst : Bool) (K : Nat) (a : E) (h : Heap) : Option Int :=
  if a.ty = .z then execSgnZ cst K a h
  else (bindQ cst K a h).map fun (la, h1) => zsgn (h1 (.num la))        -- mpq_sgn: sign of the numerator


end Mpir.Cxx
