/-
  C20 — C++ class expressions (mpirxx.h).  Core Lean only.

  Part 1 (specification): expression trees `E` over mpz_class / mpq_class variables and built-in
  operands, and `evalTmp` = "evaluate every sub-expression into its own temporary with the C
  function": mpz = exact `Int` arithmetic (tdiv rounding for / and %, floor for >>, two's complement
  for & | ^ ~), mpq = exact canonical rationals (core `Rat`).  A raised MPIR exception (division by
  zero, sqrt of a negative, non-finite double) is `none`.

  Part 2 (what mpirxx.h does): a heap of mpz_t objects (`ZLoc`: variables, temporaries and the num/den
  fields of mpq_t objects), the C functions used by mpirxx.h as heap transformers (their meaning is
  the subject of C01–C12), every modelled `__gmp_unary_*/__gmp_binary_*::eval` overload written
  statement by statement, and the expression-template strategy `evalCxx` (which
  `__gmp_expr<…>::eval(p)` specialisation applies to which tree shape, when a temporary is used).
  mpirxx.h line numbers refer to /repo/mpirxx.h.
-/
import Mpir.Base
namespace Mpir.Cxx

/-! ## Part 1: trees and the temporaries semantics -/

/-- built-in operand after the integral promotion done by the operator templates
    (`signed char/short/int/long → mpir_si`, unsigned → `mpir_ui`, `float → double`);
    a double is carried as its 64-bit pattern. -/
inductive Bi where
  | si (v : Int)
  | ui (v : Nat)
  | d (bits : Nat)
  deriving Repr, DecidableEq, Inhabited

inductive Ty where
  | z | q
  deriving Repr, DecidableEq, Inhabited

inductive Un where
  | pos | neg | com | abs | sqrt
  deriving Repr, DecidableEq, Inhabited

inductive Bin where
  | add | sub | mul | div | mod | and | ior | xor | gcd | lcm
  deriving Repr, DecidableEq, Inhabited

inductive Sh where
  | shl | shr
  deriving Repr, DecidableEq, Inhabited

inductive Cmp where
  | eq | ne | lt | le | gt | ge | cmp
  deriving Repr, DecidableEq, Inhabited

/-- expression trees.  `zv i` / `qv i` are mpz_class / mpq_class objects (slots). -/
inductive E where
  | zv (i : Nat)
  | qv (i : Nat)
  | un (o : Un) (a : E)
  | bin (o : Bin) (a b : E)
  | binL (o : Bin) (c : Bi) (b : E)
  | binR (o : Bin) (a : E) (c : Bi)
  | sh (o : Sh) (a : E) (n : Nat)
  deriving Repr, DecidableEq, Inhabited

/-- an operand of a comparison / a compound assignment -/
inductive Opnd where
  | ex (e : E)
  | bi (c : Bi)
  deriving Repr, DecidableEq, Inhabited

/-- statements the generator emits -/
inductive Stmt where
  | assign (t : Ty) (i : Nat) (e : E)               -- `z_i = e;`  /  `q_i = e;`
  | init (t : Ty) (e : E)                           -- `mpz_class t(e);` / `mpq_class t(e);`
  | compound (o : Bin) (t : Ty) (i : Nat) (r : Opnd)   -- `z_i op= r;`
  | compoundSh (o : Sh) (t : Ty) (i : Nat) (n : Nat)   -- `z_i <<= n;`
  | cmp (o : Cmp) (a b : Opnd)                      -- `a < b`, `cmp(a, b)` …
  | sgn (a : E)
  deriving Repr, DecidableEq, Inhabited

inductive Val where
  | z (v : Int)
  | q (v : Rat)
  deriving Repr, DecidableEq, Inhabited

def Val.ty : Val → Ty
  | .z _ => .z
  | .q _ => .q

structure Env where
  z : Nat → Int
  q : Nat → Rat

/-! ### integer operations of the C functions -/

def two64 : Nat := 2 ^ 64
def LONG_MIN : Int := -(2 ^ 63)
def LONG_MAX : Int := 2 ^ 63 - 1
def SiRange (l : Int) : Prop := LONG_MIN ≤ l ∧ l ≤ LONG_MAX
def UiRange (l : Nat) : Prop := l < two64
instance (l : Int) : Decidable (SiRange l) := by unfold SiRange; infer_instance
instance (l : Nat) : Decidable (UiRange l) := by unfold UiRange; infer_instance

/-- bitwise and of non-negative numbers with the second complemented: `a & ~b` -/
def natAndNot (a b : Nat) : Nat := a - (a &&& b)

/-- two's complement `mpz_and` on unbounded integers (`-x-1` is `~x`) -/
def zand (x y : Int) : Int :=
  match x, y with
  | .ofNat a, .ofNat b => .ofNat (a &&& b)
  | .ofNat a, .negSucc b => .ofNat (natAndNot a b)
  | .negSucc a, .ofNat b => .ofNat (natAndNot b a)
  | .negSucc a, .negSucc b => .negSucc (a ||| b)

def zior (x y : Int) : Int :=
  match x, y with
  | .ofNat a, .ofNat b => .ofNat (a ||| b)
  | .ofNat a, .negSucc b => .negSucc (natAndNot b a)
  | .negSucc a, .ofNat b => .negSucc (natAndNot a b)
  | .negSucc a, .negSucc b => .negSucc (a &&& b)

def zxor (x y : Int) : Int :=
  match x, y with
  | .ofNat a, .ofNat b => .ofNat (a ^^^ b)
  | .ofNat a, .negSucc b => .negSucc (a ^^^ b)
  | .negSucc a, .ofNat b => .negSucc (a ^^^ b)
  | .negSucc a, .negSucc b => .ofNat (a ^^^ b)

def zcom (x : Int) : Int := -x - 1
def zabs (x : Int) : Int := if x < 0 then -x else x
def zsgn (x : Int) : Int := if x < 0 then -1 else if x = 0 then 0 else 1
def zgcd (x y : Int) : Int := Int.ofNat (Nat.gcd x.natAbs y.natAbs)
def zlcm (x y : Int) : Int := Int.ofNat (Nat.lcm x.natAbs y.natAbs)
def zshl (x : Int) (n : Nat) : Int := x * (2 : Int) ^ n
/-- `mpz_fdiv_q_2exp`: floor -/
def zshr (x : Int) (n : Nat) : Int := x / ((2 : Int) ^ n)
/-- three-way comparison as `-1/0/1` (the sign of what `mpz_cmp` returns) -/
def zcmp (x y : Int) : Int := if x < y then -1 else if x = y then 0 else 1

/-! ### rationals -/

def qabs (r : Rat) : Rat := if r < 0 then -r else r
def qsgn (r : Rat) : Int := zsgn r.num
def qcmp (x y : Rat) : Int := if x < y then -1 else if x = y then 0 else 1
/-- `mpz_set_q`: truncate toward zero -/
def qtrunc (r : Rat) : Int := Int.tdiv r.num (Int.ofNat r.den)
def qshl (r : Rat) (n : Nat) : Rat := r * (((2 : Int) ^ n : Int) : Rat)
def qshr (r : Rat) (n : Nat) : Rat := r / (((2 : Int) ^ n : Int) : Rat)

/-! ### doubles -/

/-- exact value of a finite binary64 given by its bit pattern; `none` for Inf/NaN
    (`mpz_set_d`/`mpq_set_d` raise the invalid-operation exception there). -/
def dval (bits : Nat) : Option Rat :=
  let s := bits / 2 ^ 63 % 2
  let e := bits / 2 ^ 52 % 2048
  let m := bits % 2 ^ 52
  if e = 2047 then none else
  let mag : Rat :=
    if e = 0 then mkRat (Int.ofNat m) (2 ^ 1074)
    else if e ≥ 1075 then ((Int.ofNat ((2 ^ 52 + m) * 2 ^ (e - 1075)) : Int) : Rat)
    else mkRat (Int.ofNat (2 ^ 52 + m)) (2 ^ (1075 - e))
  some (if s = 1 then -mag else mag)

/-- the value a built-in operand has once it is put into a temporary of type `t`
    (`mpz_set_si/ui/d`, `mpq_set_si/ui/d`) -/
def biVal (t : Ty) : Bi → Option Val
  | .si v => some (match t with | .z => .z v | .q => .q v)
  | .ui v => some (match t with | .z => .z (Int.ofNat v) | .q => .q (Int.ofNat v))
  | .d b => (dval b).map (fun r => match t with | .z => .z (qtrunc r) | .q => .q r)

/-- exact value of a built-in (comparisons use `mpz_cmp_d`, which does not truncate) -/
def biRat : Bi → Option Rat
  | .si v => some v
  | .ui v => some (Int.ofNat v)
  | .d b => dval b

/-! ### operators on values -/

def unZ (o : Un) (x : Int) : Option Int :=
  match o with
  | .pos => some x
  | .neg => some (-x)
  | .com => some (zcom x)
  | .abs => some (zabs x)
  | .sqrt => if x < 0 then none else some (Int.ofNat (Nat.sqrt x.toNat))

def unQ (o : Un) (x : Rat) : Option Rat :=
  match o with
  | .pos => some x
  | .neg => some (-x)
  | .abs => some (qabs x)
  | _ => none            -- `~q`, `sqrt(q)` do not compile

def binZ (o : Bin) (x y : Int) : Option Int :=
  match o with
  | .add => some (x + y)
  | .sub => some (x - y)
  | .mul => some (x * y)
  | .div => if y = 0 then none else some (Int.tdiv x y)
  | .mod => if y = 0 then none else some (Int.tmod x y)
  | .and => some (zand x y)
  | .ior => some (zior x y)
  | .xor => some (zxor x y)
  | .gcd => some (zgcd x y)
  | .lcm => some (zlcm x y)

def binQ (o : Bin) (x y : Rat) : Option Rat :=
  match o with
  | .add => some (x + y)
  | .sub => some (x - y)
  | .mul => some (x * y)
  | .div => if y = 0 then none else some (x / y)
  | _ => none            -- `% & | ^ gcd lcm` have no mpq overload

def Bin.qOk : Bin → Bool
  | .add | .sub | .mul | .div => true
  | _ => false

def Un.qOk : Un → Bool
  | .pos | .neg | .abs => true
  | _ => false

/-- `mpq_set_z` -/
def Val.toQ : Val → Rat
  | .z v => v
  | .q r => r

def unV (o : Un) : Val → Option Val
  | .z x => (unZ o x).map .z
  | .q x => (unQ o x).map .q

/-- binary operator on two temporaries; a mixed mpz/mpq pair is computed in mpq after `mpq_set_z` -/
def binV (o : Bin) : Val → Val → Option Val
  | .z x, .z y => (binZ o x y).map .z
  | a, b => (binQ o a.toQ b.toQ).map .q

def shV (o : Sh) (n : Nat) : Val → Val
  | .z x => .z (match o with | .shl => zshl x n | .shr => zshr x n)
  | .q x => .q (match o with | .shl => qshl x n | .shr => qshr x n)

/-! ### static types -/

def E.ty : E → Ty
  | .zv _ => .z
  | .qv _ => .q
  | .un _ a => a.ty
  | .bin _ a b => if a.ty = .z ∧ b.ty = .z then .z else .q
  | .binL _ _ b => b.ty
  | .binR _ a _ => a.ty
  | .sh _ a _ => a.ty

/-- the tree compiles: operators exist for the operand types, built-ins are in range -/
def Bi.ok : Bi → Bool
  | .si v => decide (SiRange v)
  | .ui v => decide (UiRange v)
  | .d b => decide (b < two64)

def E.wt : E → Bool
  | .zv _ => true
  | .qv _ => true
  | .un o a => a.wt && (a.ty = .z || o.qOk)
  | .bin o a b => a.wt && b.wt && ((a.ty = .z && b.ty = .z) || o.qOk)
  | .binL o c b => c.ok && b.wt && (b.ty = .z || o.qOk)
  | .binR o a c => c.ok && a.wt && (a.ty = .z || o.qOk)
  | .sh _ a n => a.wt && decide (UiRange n)

/-! ### evaluation into temporaries -/

def evalTmp (env : Env) : E → Option Val
  | .zv i => some (.z (env.z i))
  | .qv i => some (.q (env.q i))
  | .un o a => (evalTmp env a).bind (unV o)
  | .bin o a b => (evalTmp env a).bind fun x => (evalTmp env b).bind fun y => binV o x y
  | .binL o c b => (evalTmp env b).bind fun y => (biVal y.ty c).bind fun x => binV o x y
  | .binR o a c => (evalTmp env a).bind fun x => (biVal x.ty c).bind fun y => binV o x y
  | .sh o a n => (evalTmp env a).map (shV o n)

/-- conversion done by the assignment `T target = value` (`mpz_set_q` truncates, `mpq_set_z`) -/
def conv (t : Ty) : Val → Val
  | .z v => match t with | .z => .z v | .q => .q v
  | .q r => match t with | .z => .z (qtrunc r) | .q => .q r

def Env.get (env : Env) (t : Ty) (i : Nat) : Val :=
  match t with | .z => .z (env.z i) | .q => .q (env.q i)

def Env.set (env : Env) (i : Nat) : Val → Env
  | .z v => { env with z := fun j => if j = i then v else env.z j }
  | .q r => { env with q := fun j => if j = i then r else env.q j }

/-- `target = value`, with the conversion of the assignment operator -/
def assign (env : Env) (t : Ty) (i : Nat) (v : Val) : Env := env.set i (conv t v)

def cmpRes (o : Cmp) (c : Int) : Int :=
  let b (p : Bool) : Int := if p then 1 else 0
  match o with
  | .eq => b (c == 0) | .ne => b (c != 0) | .lt => b (c < 0) | .le => b (c ≤ 0)
  | .gt => b (c > 0) | .ge => b (c ≥ 0) | .cmp => c

/-- value of an operand of a comparison as an exact rational (`mpz_cmp`, `mpz_cmp_si/ui/d`,
    `mpq_cmp`, `mpq_cmp_si/ui`, and `mpq_set_d` + `mpq_cmp` are all exact) -/
def opndRat (env : Env) : Opnd → Option Rat
  | .ex e => (evalTmp env e).map Val.toQ
  | .bi c => biRat c

def Opnd.wt : Opnd → Bool
  | .ex e => e.wt
  | .bi c => c.ok

/-- result of a statement: the new environment for assignments, the value for `init`, an int for
    comparisons.  `none` = an exception was raised. -/
inductive Res where
  | env (e : Env)
  | val (v : Val)
  | int (v : Int)

/-- the expanded form of a compound assignment: `x op= r`  ≡  `x = x op r` -/
def expand (o : Bin) (t : Ty) (i : Nat) : Opnd → E
  | .ex e => .bin o (match t with | .z => .zv i | .q => .qv i) e
  | .bi c => .binR o (match t with | .z => .zv i | .q => .qv i) c

def execTmp (env : Env) : Stmt → Option Res
  | .assign t i e => (evalTmp env e).map fun v => .env (assign env t i v)
  | .init t e => (evalTmp env e).map fun v => .val (conv t v)
  | .compound o t i r => (evalTmp env (expand o t i r)).map fun v => .env (assign env t i v)
  | .compoundSh o t i n =>
      (evalTmp env (.sh o (match t with | .z => .zv i | .q => .qv i) n)).map fun v => .env (assign env t i v)
  | .cmp o a b => (opndRat env a).bind fun x => (opndRat env b).map fun y => .int (cmpRes o (qcmp x y))
  | .sgn a => (evalTmp env a).map fun v => .int (match v with | .z x => zsgn x | .q r => qsgn r)

def Stmt.wt : Stmt → Bool
  | .assign _ _ e => e.wt
  | .init _ e => e.wt
  | .compound o t i r => r.wt && (expand o t i r).wt &&
      -- `z op= q-typed` is the known finding (operand converted first); not in the specified domain
      (match r with | .ex e => !(t = .z && e.ty = .q) | .bi _ => true)
  | .compoundSh _ _ _ n => decide (UiRange n)
  | .cmp _ a b => a.wt && b.wt && (match a, b with | .bi _, .bi _ => false | _, _ => true)
  | .sgn a => a.wt

end Mpir.Cxx
