/-
  C02, mpz layer and multi-limb layer: division with the documented rounding.  Core Lean only.

  (a) specifications on `Int` (what the manual says each function returns);
  (b) models that mirror the C control flow of the `mpz_*` division wrappers over a store of
      variables (so "the same variable is output and input" is id equality and the order of loads and
      stores is visible).  Callees that belong to other layers are replaced by their specification:
        mpn_tdiv_qr / mpn_tdiv_q / mpn_divrem_1 / mpn_mod_1   -> Nat `/`, `%`
        mpn_divexact, mpn_divexact_1                          -> `/` (precondition: exact)
        mpn_divisible_p, mpn_modexact_1(c)_odd `== 0 || == d` -> `%  == 0`
        mpz_add / mpz_sub / mpz_add_ui / mpz_sub_ui / mpz_cmp -> Int arithmetic
      so the content of the theorems (MpirProofs/Props/C02_mpz.lean) is the size / sign / early-exit /
      adjust / temporary-copy logic of each wrapper.
  (c) value-level model of mpn_tdiv_qr's contract (the limb-level model of mpn_sb_div_qr is Mpir/Model/SbDiv.lean).

  Sources mirrored (tie = correspondence, ops in Mpir/Ops/DivZ.lean, harness/ops_divz.c):
    mpz/tdiv_qr.c tdiv_q.c tdiv_r.c fdiv_qr.c fdiv_q.c fdiv_r.c cdiv_qr.c cdiv_q.c cdiv_r.c mod.c
    mpz/{t,f,c}div_{q,r,qr}_ui.c {t,f,c}div_ui.c cfdiv_q_2exp.c cfdiv_r_2exp.c tdiv_q_2exp.c tdiv_r_2exp.c
    mpz/divexact.c dive_ui.c divis.c divis_ui.c divis_2exp.c cong.c cong_ui.c cong_2exp.c
  Build facts used: 64-bit limbs, no nails, BITS_PER_UI == GMP_NUMB_BITS (the `divisor > GMP_NUMB_MAX`
  branches of the _ui files are compiled out).
-/
import Mpir.Base
import Mpir.Model.Kernels
namespace Mpir.DivZ
open Mpir

/-! ## (a) Specifications -/

/-- truncating pair: q rounded towards 0, r has the sign of n -/
def tdivQ (n d : Int) : Int := Int.tdiv n d
def tdivR (n d : Int) : Int := Int.tmod n d
/-- floor pair: q rounded towards -∞, r has the sign of d -/
def fdivQ (n d : Int) : Int := Int.fdiv n d
def fdivR (n d : Int) : Int := Int.fmod n d
/-- ceiling pair: q rounded towards +∞, r has the opposite sign to d -/
def cdivQ (n d : Int) : Int := -(Int.fdiv (-n) d)
def cdivR (n d : Int) : Int := n - cdivQ n d * d
/-- mpz_mod: the non-negative remainder, whatever the sign of d -/
def modS (n d : Int) : Int := n % d
/-- mpz_divexact: n/d, only specified when d ∣ n -/
def divexactS (n d : Int) : Int := Int.tdiv n d
/-- mpz_divisible_p: d ∣ n; in particular n = 0 when d = 0 -/
def divisibleS (n d : Int) : Bool := decide (d ∣ n)
/-- mpz_congruent_p: d ∣ a - c; in particular a = c when d = 0 -/
def congruentS (a c d : Int) : Bool := decide (d ∣ a - c)
/-- return value of the `_ui` functions: |r| -/
def uiRet (r : Int) : Nat := r.natAbs

/-! ## Objects -/

/-- number of limbs of a magnitude (what `MPN_NORMALIZE` leaves) -/
def sizeNat (v : Nat) : Nat := if v = 0 then 0 else v.log2 / 64 + 1

/-- the `_mp_size` field of an mpz holding `v` -/
def siz (v : Int) : Int := if v < 0 then -(sizeNat v.natAbs : Int) else (sizeNat v.natAbs : Int)

/-- C: `(a ^ b) >= 0` on two's-complement ints — the sign bits agree -/
def sameSign (a b : Int) : Prop := (a < 0 ↔ b < 0)
instance (a b : Int) : Decidable (sameSign a b) := by unfold sameSign; infer_instance

/-- variables are named by ids; an mpz_t is its value (sizes are recomputed by `siz`) -/
abbrev Store := Nat → Int
def Store.set (s : Store) (i : Nat) (v : Int) : Store := fun j => if j = i then v else s j

/-- a variable id different from the four given ones: an `mpz_t` local to the callee
    (`MPZ_TMP_INIT`), released by `TMP_FREE` (modelled by restoring the slot) -/
def fresh (a b c d : Nat) : Nat := a + b + c + d + 1

/-! ## Callee specifications -/

/-- mpn_tdiv_qr (qp, rp, 0, np, nn, dp, dn): needs nn ≥ dn ≥ 1, dp[dn-1] ≠ 0, outputs do not overlap inputs -/
def mpn_tdiv_qr (n d : Nat) : Nat × Nat := (n / d, n % d)
/-- mpn_tdiv_q: quotient only -/
def mpn_tdiv_q (n d : Nat) : Nat := n / d
/-- mpn_divrem_1 (qp, 0, np, nn, d): quotient limbs, returns remainder; qp == np allowed -/
def mpn_divrem_1 (n d : Nat) : Nat × Nat := (n / d, n % d)
def mpn_mod_1 (n d : Nat) : Nat := n % d
/-- mpn_divexact: the quotient when d ∣ n (result unspecified otherwise; totalised as n / d) -/
def mpn_divexact (n d : Nat) : Nat := n / d
/-- mpn_divisible_p (ap, an, dp, dn): dn ≥ 1, dp[dn-1] ≠ 0, an ≥ 0 -/
def mpn_divisible_p (a d : Nat) : Bool := a % d == 0
/-- `r = mpn_modexact_1c_odd (ap, n, d, c); r == 0 || r == d` for odd d: d ∣ a - c -/
def modexact_1c_odd_divides (a d c : Nat) : Bool := ((a : Int) - (c : Int)) % (d : Int) == 0

/-! ## mpz_tdiv_qr / q / r  (mpz/tdiv_qr.c, tdiv_q.c, tdiv_r.c) -/

/-- mpz_tdiv_qr (quot, rem, num, den).  The manual requires quot ≠ rem. -/
def tdiv_qr (s : Store) (quot rem num den : Nat) : Except String Store :=
  let ns := siz (s num)                      -- tdiv_qr.c:36
  let ds := siz (s den)
  let nl := ns.natAbs
  let dl := ds.natAbs
  let ql : Int := (nl : Int) - (dl : Int) + 1
  if dl = 0 then .error "div0" else          -- :42 DIVIDE_BY_ZERO
  if ql ≤ 0 then                             -- :47 |n| < |d| by limb count
    let s1 := if num ≠ rem then s.set rem (s num) else s      -- :49-56 copy num to rem
    .ok (s1.set quot 0)                      -- :59 "needs to follow the assignment to rem, in case the numerator and quotient are the same"
  else
    -- :77-92 den and num are copied to temporaries if they are the quot or rem variable, so the
    -- magnitudes read here are the values before the call
    let np := (s num).natAbs
    let dp := (s den).natAbs
    let (qv, rv) := mpn_tdiv_qr np dp        -- :94
    -- :96-97 ql -= qp[ql-1]==0; MPN_NORMALIZE (rp, dl): sizes only
    let s1 := s.set quot (if sameSign ns ds then (qv : Int) else -(qv : Int))   -- :99
    .ok (s1.set rem (if ns ≥ 0 then (rv : Int) else -(rv : Int)))               -- :100

/-- mpz_tdiv_q (quot, num, den) -/
def tdiv_q (s : Store) (quot num den : Nat) : Except String Store :=
  let ns := siz (s num)
  let ds := siz (s den)
  let nl := ns.natAbs
  let dl := ds.natAbs
  let ql : Int := (nl : Int) - (dl : Int) + 1
  if dl = 0 then .error "div0" else          -- tdiv_q.c:42
  if ql ≤ 0 then .ok (s.set quot 0) else     -- :45
  let np := (s num).natAbs                   -- :64-79 temporaries if num/den is quot
  let dp := (s den).natAbs
  let qv := mpn_tdiv_q np dp                 -- :81
  .ok (s.set quot (if sameSign ns ds then (qv : Int) else -(qv : Int)))   -- :85

/-- mpz_tdiv_r (rem, num, den) -/
def tdiv_r (s : Store) (rem num den : Nat) : Except String Store :=
  let ns := siz (s num)
  let ds := siz (s den)
  let nl := ns.natAbs
  let dl := ds.natAbs
  let ql : Int := (nl : Int) - (dl : Int) + 1
  if dl = 0 then .error "div0" else          -- tdiv_r.c:42
  if ql ≤ 0 then                             -- :47
    .ok (if num ≠ rem then s.set rem (s num) else s)
  else
    let np := (s num).natAbs                 -- :70-85 temporaries if num/den is rem
    let dp := (s den).natAbs
    let (_, rv) := mpn_tdiv_qr np dp         -- :87 quotient goes to scratch
    .ok (s.set rem (if ns ≥ 0 then (rv : Int) else -(rv : Int)))          -- :91

/-! ## floor / ceiling wrappers and mpz_mod (mpz/fdiv_*.c, cdiv_*.c, mod.c) -/

/-- common part of fdiv_qr.c / cdiv_qr.c; `ceil = false`: floor. -/
def cfdiv_qr (ceil : Bool) (s : Store) (quot rem dividend divisor : Nat) : Except String Store :=
  let divisor_size := siz (s divisor)                         -- fdiv_qr.c:29
  let t := fresh quot rem dividend divisor
  -- :39-44 "We need the original value of the divisor after the quotient and remainder have been
  -- preliminary calculated": copy it if it is the same variable as quot or rem
  let copied := quot = divisor ∨ rem = divisor
  let s0 := if copied then s.set t (s divisor) else s
  let dv := if copied then t else divisor
  let xsize_nonneg := sameSign (siz (s0 dividend)) divisor_size    -- :46
  match tdiv_qr s0 quot rem dividend dv with                  -- :47
  | .error e => .error e
  | .ok s1 =>
    let adjust := (if ceil then xsize_nonneg else ¬ xsize_nonneg) ∧ siz (s1 rem) ≠ 0   -- :49
    let s3 :=
      if adjust then
        let s2 := s1.set quot (if ceil then s1 quot + 1 else s1 quot - 1)   -- :51 mpz_sub_ui / mpz_add_ui
        s2.set rem (if ceil then s2 rem - s2 dv else s2 rem + s2 dv)        -- :52 mpz_add / mpz_sub (rem, rem, divisor)
      else s1
    .ok (s3.set t (s t))                                      -- :55 TMP_FREE

def fdiv_qr := cfdiv_qr false
def cdiv_qr := cfdiv_qr true

/-- fdiv_q.c / cdiv_q.c: the remainder is a local mpz_t -/
def cfdiv_q (ceil : Bool) (s : Store) (quot dividend divisor : Nat) : Except String Store :=
  let dividend_size := siz (s dividend)                       -- fdiv_q.c:29
  let divisor_size := siz (s divisor)
  let rem := fresh quot dividend divisor 0                    -- :36 MPZ_TMP_INIT (rem, …)
  match tdiv_qr s quot rem dividend divisor with              -- :38
  | .error e => .error e
  | .ok s1 =>
    let same := sameSign divisor_size dividend_size
    let adjust := (if ceil then same else ¬ same) ∧ siz (s1 rem) ≠ 0       -- :40
    let s2 := if adjust then s1.set quot (if ceil then s1 quot + 1 else s1 quot - 1) else s1   -- :41
    .ok (s2.set rem (s rem))                                  -- :43 TMP_FREE

def fdiv_q := cfdiv_q false
def cdiv_q := cfdiv_q true

/-- fdiv_r.c / cdiv_r.c.  NB the dividend's size is read *after* mpz_tdiv_r (fdiv_r.c:47), so when
    rem and dividend are the same variable it is the size of the preliminary remainder. -/
def cfdiv_r (ceil : Bool) (s : Store) (rem dividend divisor : Nat) : Except String Store :=
  let divisor_size := siz (s divisor)                         -- fdiv_r.c:29
  let t := fresh rem dividend divisor 0
  let copied := rem = divisor                                 -- :38
  let s0 := if copied then s.set t (s divisor) else s
  let dv := if copied then t else divisor
  match tdiv_r s0 rem dividend dv with                        -- :45
  | .error e => .error e
  | .ok s1 =>
    let same := sameSign divisor_size (siz (s1 dividend))     -- :47 dividend->_mp_size read here
    let adjust := (if ceil then same else ¬ same) ∧ siz (s1 rem) ≠ 0
    let s2 := if adjust then s1.set rem (if ceil then s1 rem - s1 dv else s1 rem + s1 dv) else s1   -- :48
    .ok (s2.set t (s t))

def fdiv_r := cfdiv_r false
def cdiv_r := cfdiv_r true

/-- mpz_mod (rem, dividend, divisor): mod.c -/
def mod (s : Store) (rem dividend divisor : Nat) : Except String Store :=
  let t := fresh rem dividend divisor 0
  let copied := rem = divisor                                 -- mod.c:38
  let s0 := if copied then s.set t (s divisor) else s
  let dv := if copied then t else divisor
  match tdiv_r s0 rem dividend dv with                        -- :45
  | .error e => .error e
  | .ok s1 =>
    let s2 :=
      if siz (s1 rem) ≠ 0 then                                -- :47
        if siz (s1 dividend) < 0 then                         -- :49 (read after the division)
          if siz (s1 dv) < 0 then s1.set rem (s1 rem - s1 dv) -- :51-52
          else s1.set rem (s1 rem + s1 dv)                    -- :54
        else s1
      else s1
    .ok (s2.set t (s t))

/-! ## `_ui` forms.  Result: new store and the `mpir_ui` return value.
    `dir`: 0 truncate, -1 floor, 1 ceiling.  The three families differ only in the adjust test. -/

/-- when does the family adjust (quotient magnitude + 1, remainder d - r)?  fdiv: `rl != 0 && ns < 0`
    (fdiv_q_ui.c:82), cdiv: `rl != 0 && ns >= 0` (cdiv_q_ui.c:83), tdiv: never -/
def uiAdjust (dir : Int) (rl : Nat) (ns : Int) : Prop :=
  rl ≠ 0 ∧ ((dir = -1 ∧ ns < 0) ∨ (dir = 1 ∧ ns ≥ 0))
instance (dir : Int) (rl : Nat) (ns : Int) : Decidable (uiAdjust dir rl ns) := by
  unfold uiAdjust; infer_instance

/-- sign given to the stored remainder: tdiv: sign of n (tdiv_r_ui.c:85); fdiv: + (fdiv_r_ui.c:95);
    cdiv: - (cdiv_r_ui.c:97) -/
def uiRem (dir : Int) (ns : Int) (rl : Nat) : Int :=
  if dir = 0 then (if ns ≥ 0 then (rl : Int) else -(rl : Int))
  else if dir = -1 then (rl : Int) else -(rl : Int)

/-- mpz_{t,f,c}div_q_ui (quot, dividend, divisor) -/
def div_q_ui (dir : Int) (s : Store) (quot dividend : Nat) (divisor : Nat) : Except String (Store × Nat) :=
  if divisor = 0 then .error "div0" else                      -- tdiv_q_ui.c:34
  let ns := siz (s dividend)
  if ns = 0 then .ok (s.set quot 0, 0) else                   -- :38-42
  let nn := ns.natAbs
  let np := (s dividend).natAbs
  let (qv, rl) := mpn_divrem_1 np divisor                     -- :70
  if uiAdjust dir rl ns then                                  -- fdiv_q_ui.c:82
    -- mpn_incr_u (qp, 1) on the nn quotient limbs: must not carry out of them
    if qv + 1 ≥ B ^ nn then .error "oob" else
    .ok (s.set quot (if ns ≥ 0 then ((qv + 1 : Nat) : Int) else -((qv + 1 : Nat) : Int)), divisor - rl)   -- :85, :91
  else
    .ok (s.set quot (if ns ≥ 0 then (qv : Int) else -(qv : Int)), rl)      -- :74

/-- mpz_{t,f,c}div_r_ui (rem, dividend, divisor) -/
def div_r_ui (dir : Int) (s : Store) (rem dividend : Nat) (divisor : Nat) : Except String (Store × Nat) :=
  if divisor = 0 then .error "div0" else
  let ns := siz (s dividend)
  if ns = 0 then .ok (s.set rem 0, 0) else
  let np := (s dividend).natAbs
  let rl := mpn_mod_1 np divisor                              -- tdiv_r_ui.c:78
  if rl = 0 then .ok (s.set rem 0, 0) else                    -- :79
  let rl := if uiAdjust dir rl ns then divisor - rl else rl   -- fdiv_r_ui.c:91
  .ok (s.set rem (uiRem dir ns rl), rl)                       -- :94-95

/-- mpz_{t,f,c}div_qr_ui (quot, rem, dividend, divisor).  quot ≠ rem required. -/
def div_qr_ui (dir : Int) (s : Store) (quot rem dividend : Nat) (divisor : Nat) : Except String (Store × Nat) :=
  if divisor = 0 then .error "div0" else
  let ns := siz (s dividend)
  if ns = 0 then .ok ((s.set quot 0).set rem 0, 0) else       -- tdiv_qr_ui.c:39-44
  let nn := ns.natAbs
  let np := (s dividend).natAbs
  let (qv, rl) := mpn_divrem_1 np divisor                     -- :81 (qp == np allowed)
  if rl = 0 then                                              -- :82
    let s1 := s.set rem 0
    .ok (s1.set quot (if ns ≥ 0 then (qv : Int) else -(qv : Int)), 0)     -- :94
  else if uiAdjust dir rl ns then                             -- fdiv_qr_ui.c:96
    if qv + 1 ≥ B ^ nn then .error "oob" else                 -- :98 mpn_incr_u
    let rl := divisor - rl                                    -- :99
    let s1 := s.set rem (uiRem dir ns rl)                     -- :102-103
    .ok (s1.set quot (if ns ≥ 0 then ((qv + 1 : Nat) : Int) else -((qv + 1 : Nat) : Int)), rl)
  else
    let s1 := s.set rem (uiRem dir ns rl)
    .ok (s1.set quot (if ns ≥ 0 then (qv : Int) else -(qv : Int)), rl)

/-- mpz_{t,f,c}div_ui (dividend, divisor): return value only -/
def div_ui (dir : Int) (n : Int) (divisor : Nat) : Except String Nat :=
  if divisor = 0 then .error "div0" else
  let ns := siz n
  if ns = 0 then .ok 0 else
  let rl := mpn_mod_1 n.natAbs divisor                        -- tdiv_ui.c:72
  if rl = 0 then .ok 0 else
  .ok (if uiAdjust dir rl ns then divisor - rl else rl)       -- fdiv_ui.c:86-87

/-! ## `_2exp` forms (value level: a limb offset is a division by B^k, a masked limb a `% 2^c`) -/

/-- cfdiv_q_2exp (w, u, cnt, dir): dir = 1 ceiling, -1 floor.  cfdiv_q_2exp.c:33-91 -/
def cfdiv_q_2exp (s : Store) (w u : Nat) (cnt : Nat) (dir : Int) : Store :=
  let usize := siz (s u)
  let abs_usize := usize.natAbs
  let limb_cnt := cnt / 64
  let wsize : Int := (abs_usize : Int) - (limb_cnt : Int)
  if wsize ≤ 0 then                                           -- :44 |u| < 2^cnt
    s.set w (if usize = 0 ∨ ¬ sameSign usize dir then 0 else dir)         -- :48
  else
    let up := (s u).natAbs
    let rmask : Bool := decide (sameSign usize dir)           -- :59 rounding away from zero wanted
    let round0 : Bool := rmask && decide (up % B ^ limb_cnt ≠ 0)          -- :60-62 a skipped limb is non-zero
    let hi := up / B ^ limb_cnt                               -- up + limb_cnt, wsize limbs
    let c := cnt % 64
    -- :66-72 mpn_rshift returns the bits shifted out
    let wv := if c ≠ 0 then hi / 2 ^ c else hi
    let round : Bool := if c ≠ 0 then round0 || (rmask && decide (hi % 2 ^ c ≠ 0)) else round0
    -- :74-89 add 1 (carry limb appended); "We shifted something to zero" stores 1
    let wv := if round then (if wv ≠ 0 then wv + 1 else 1) else wv
    s.set w (if usize ≥ 0 then (wv : Int) else -(wv : Int))   -- :90

def cdiv_q_2exp (s : Store) (w u cnt : Nat) : Store := cfdiv_q_2exp s w u cnt 1
def fdiv_q_2exp (s : Store) (w u cnt : Nat) : Store := cfdiv_q_2exp s w u cnt (-1)

/-- cfdiv_r_2exp (w, u, cnt, dir).  cfdiv_r_2exp.c:36-144.  The `Except` is the model's check that
    `MPN_INCR_U (wp, limb_cnt+1, 1)` does not run off the limb_cnt+1 limbs. -/
def cfdiv_r_2exp (s : Store) (w u : Nat) (cnt0 : Nat) (dir : Int) : Except String Store :=
  let usize := siz (s u)
  if usize = 0 then .ok (s.set w 0) else                      -- :44
  let limb_cnt := cnt0 / 64
  let cnt := cnt0 % 64
  let abs_usize := usize.natAbs
  let up := (s u).natAbs
  if ¬ sameSign usize dir then                                -- :58 round towards zero: truncate
    if abs_usize ≤ limb_cnt then
      .ok (if w = u then s else s.set w (s u))                -- :65-66 / :71-81
    else
      -- low limb_cnt+1 limbs kept, high limb masked (:126-128), high zeros stripped
      let wv := (up % B ^ (limb_cnt + 1)) % (B ^ limb_cnt * 2 ^ cnt)
      .ok (s.set w (if usize ≥ 0 then (wv : Int) else -(wv : Int)))       -- :143
  else
    -- round away from zero: two's complement if the low bits are non-zero
    let negate : Bool :=
      decide (abs_usize ≤ limb_cnt)                           -- :89
      || decide (up % B ^ limb_cnt ≠ 0)                       -- :93-95
      || decide ((up / B ^ limb_cnt % B) % 2 ^ cnt ≠ 0)       -- :98
    if ¬ negate then .ok (s.set w 0) else                     -- :102
    -- :113-116 ones complement of the low min(abs_usize, limb_cnt+1) limbs, upper limbs set to all ones
    let ones := B ^ (limb_cnt + 1) - 1 - up % B ^ (limb_cnt + 1)
    -- :120 MPN_INCR_U: "the twos complement never gives 0 and a carry"
    if ones + 1 ≥ B ^ (limb_cnt + 1) then .error "oob" else
    let wv := (ones + 1) % (B ^ limb_cnt * 2 ^ cnt)           -- :126-128 mask the high limb
    -- :122 usize = -usize
    .ok (s.set w (if -usize ≥ 0 then (wv : Int) else -(wv : Int)))        -- :143

def cdiv_r_2exp (s : Store) (w u cnt : Nat) := cfdiv_r_2exp s w u cnt 1
def fdiv_r_2exp (s : Store) (w u cnt : Nat) := cfdiv_r_2exp s w u cnt (-1)

/-- mpz_tdiv_q_2exp: tdiv_q_2exp.c -/
def tdiv_q_2exp (s : Store) (w u : Nat) (cnt : Nat) : Store :=
  let usize := siz (s u)
  let limb_cnt := cnt / 64
  let wsize : Int := (usize.natAbs : Int) - (limb_cnt : Int)
  if wsize ≤ 0 then s.set w 0 else                            -- :35
  let hi := (s u).natAbs / B ^ limb_cnt
  let c := cnt % 64
  let wv := if c ≠ 0 then hi / 2 ^ c else hi                  -- :49-57
  s.set w (if usize ≥ 0 then (wv : Int) else -(wv : Int))     -- :59

/-- mpz_tdiv_r_2exp: tdiv_r_2exp.c -/
def tdiv_r_2exp (s : Store) (res inp : Nat) (cnt : Nat) : Store :=
  let in_size := (siz (s inp)).natAbs
  let limb_cnt := cnt / 64
  let up := (s inp).natAbs
  let rv :=
    if in_size > limb_cnt then                                -- :33
      let x := (up / B ^ limb_cnt % B) % 2 ^ (cnt % 64)       -- :38
      if x ≠ 0 then x * B ^ limb_cnt + up % B ^ limb_cnt      -- :41-45, :70
      else up % B ^ limb_cnt                                  -- :49-55 MPN_NORMALIZE
    else up                                                   -- :62
  s.set res (if siz (s inp) ≥ 0 then (rv : Int) else -(rv : Int))         -- :71

/-! ## exact division and divisibility -/

/-- mpz_divexact (quot, num, den): divexact.c.  There is no test for den = 0 in the C (the call is
    outside the documented domain); the model refuses it. -/
def divexact (s : Store) (quot num den : Nat) : Except String Store :=
  let nn := (siz (s num)).natAbs
  let dn := (siz (s den)).natAbs
  if nn < dn then .ok (s.set quot 0) else                     -- :53-60 "also handles the well-defined case N = 0"
  if dn = 0 then .error "undefined" else
  -- :66-67 quotient built in scratch if quot is num or den
  let qv := mpn_divexact (s num).natAbs (s den).natAbs        -- :72
  .ok (s.set quot (if sameSign (siz (s num)) (siz (s den)) then (qv : Int) else -(qv : Int)))   -- :75

/-- mpz_divexact_ui (dst, src, divisor): dive_ui.c -/
def divexact_ui (s : Store) (dst src : Nat) (divisor : Nat) : Except String Store :=
  if divisor = 0 then .error "div0" else                      -- :32
  let size := siz (s src)
  if size = 0 then .ok (s.set dst 0) else                     -- :49
  let qv := mpn_divexact (s src).natAbs divisor               -- :59 MPN_DIVREM_OR_DIVEXACT_1
  .ok (s.set dst (if size ≥ 0 then (qv : Int) else -(qv : Int)))          -- :61

/-- mpz_divisible_p (a, d): divis.c -/
def divisible_p (a d : Int) : Bool :=
  let dsize := siz d
  let asize := siz a
  if dsize = 0 then decide (asize = 0)                        -- :31
  else mpn_divisible_p a.natAbs d.natAbs                      -- :34

/-- number of trailing zero bits (count_trailing_zeros; 0 for 0, where the C macro is undefined) -/
def ctz (d : Nat) : Nat :=
  if _h : d = 0 then 0 else if d % 2 = 1 then 0 else 1 + ctz (d / 2)
decreasing_by omega

/-- `LOW_ZEROS_MASK (n) + 1` as a modulus: `x & LOW_ZEROS_MASK (n)` is `x % lowZerosMod n`
    (gmp-impl.h:3154; -1 i.e. all ones for n = 0) -/
def lowZerosMod (n : Nat) : Nat := if n = 0 then B else 2 ^ ctz n

/-- mpz_divisible_ui_p (a, d): divis_ui.c; `thr` = MODEXACT_1_ODD_THRESHOLD -/
def divisible_ui_p (thr : Nat) (a : Int) (d : Nat) : Bool :=
  let asize := siz a
  if d = 0 then decide (asize = 0) else                       -- :35
  if asize = 0 then true else                                 -- :38
  let ap := a.natAbs
  if asize.natAbs < thr then mpn_mod_1 ap d == 0 else         -- :56
  if d % 2 = 0 then                                           -- :59
    if (ap % B) % lowZerosMod d ≠ 0 then false else           -- :64
    let d' := d / 2 ^ ctz d                                   -- :67-68
    mpn_mod_1 ap d' == 0                                      -- :71 mpn_modexact_1_odd (…) == 0
  else mpn_mod_1 ap d == 0

/-- mpz_divisible_2exp_p (a, d): divis_2exp.c -/
def divisible_2exp_p (a : Int) (d : Nat) : Bool :=
  let asize := (siz a).natAbs
  let dlimbs := d / 64
  if asize ≤ dlimbs then decide (asize = 0) else              -- :37
  let ap := a.natAbs
  if ap % B ^ dlimbs ≠ 0 then false else                      -- :42-44
  decide ((ap / B ^ dlimbs % B) % 2 ^ (d % 64) = 0)           -- :47-49

/-- NEG_MOD (r, a, d): r ≡ -a (mod d), a ≥ d allowed, may give r > d (gmp-impl.h:3129) -/
def negMod (a d : Nat) : Nat :=
  if a ≤ d then d - a
  else
    let twos := 63 - d.log2                                   -- count_leading_zeros
    let dnorm := (d * 2 ^ twos) % B
    ((if a ≤ dnorm then dnorm else (2 * dnorm) % B) + B - a) % B

/-- mpz_congruent_p (a, c, d): cong.c; `thr` = MODEXACT_1_ODD_THRESHOLD -/
def congruent_p (thr : Nat) (a0 c0 d : Int) : Bool :=
  if siz d = 0 then decide (a0 = c0) else                     -- :63 mpz_cmp
  let dsize := (siz d).natAbs
  let dp := d.natAbs
  -- :69 MPZ_SRCPTR_SWAP
  let a := if (siz a0).natAbs < (siz c0).natAbs then c0 else a0
  let c := if (siz a0).natAbs < (siz c0).natAbs then a0 else c0
  let sign_nonneg := sameSign (siz a) (siz c)                 -- :74
  let asize := (siz a).natAbs
  let ap := a.natAbs
  if siz c = 0 then mpn_divisible_p ap dp else                -- :79
  let csize := (siz c).natAbs
  let cp := c.natAbs
  let alow0 := ap % B
  let clow := cp % B
  let dlow := dp % B
  let dmaskMod := lowZerosMod dlow                            -- :91
  let alow := if sign_nonneg then alow0 else (B - alow0) % B  -- :92
  if ((alow + B - clow) % B) % dmaskMod ≠ 0 then false else   -- :93
  -- :96-146 single-limb c and a divisor that is one limb after dropping its low zero bits
  let cong_1 (dlow clow : Nat) : Bool :=
    let clow := if sign_nonneg then clow else negMod clow dlow              -- :101-102
    if asize < thr then                                       -- :104
      let r := mpn_mod_1 ap dlow
      if clow < dlow then r == clow else r == clow % dlow     -- :107-110
    else
      let dlow := if dlow % 2 = 0 then dlow / 2 ^ ctz dlow else dlow        -- :113-121
      modexact_1c_odd_divides ap dlow clow                    -- :123-124
  let general : Bool :=
    -- :151-168 |a - c| (same signs: subtract the smaller magnitude; different signs: add)
    let x := if sign_nonneg then (if ap ≥ cp then ap - cp else cp - ap) else ap + cp
    mpn_divisible_p x dp                                      -- :170
  if csize = 1 then
    if dsize = 1 then cong_1 dlow clow                        -- :98
    else if dsize = 2 ∧ dlow ≠ 0 then                         -- :130
      let dsecond := dp / B % B
      if dsecond ≤ dmaskMod - 1 then                          -- :134
        cong_1 (dp / 2 ^ ctz dlow) clow                       -- :137-138 (dlow >> twos) | (dsecond << (64-twos))
      else general
    else general
  else general

/-- mpz_congruent_ui_p (a, cu, du): cong_ui.c -/
def congruent_ui_p (thr : Nat) (a : Int) (cu du : Nat) : Bool :=
  if du = 0 then decide (a = (cu : Int)) else                 -- :40 mpz_cmp_ui
  let asize := siz a
  if asize = 0 then
    (if cu < du then decide (cu = 0) else decide (cu % du = 0))             -- :44-50
  else
  let c := if asize < 0 then negMod cu du else cu             -- :73-77
  let ap := a.natAbs
  if asize.natAbs < thr then                                  -- :81
    let r := mpn_mod_1 ap du
    if c < du then r == c else r == c % du
  else if du % 2 = 0 then                                     -- :90
    if ((ap % B + B - c) % B) % lowZerosMod du ≠ 0 then false else          -- :98
    modexact_1c_odd_divides ap (du / 2 ^ ctz du) c            -- :101-106
  else modexact_1c_odd_divides ap du c

/-- limb `i` of a magnitude (0 beyond its size) -/
def limbAt (v : Nat) (i : Nat) : Nat := v / B ^ i % B

/-- mpz_congruent_2exp_p (a, c, d): cong_2exp.c, mirrored limb by limb on the magnitudes. -/
def congruent_2exp_p (a0 c0 : Int) (d : Nat) : Bool :=
  let a := if (siz a0).natAbs < (siz c0).natAbs then c0 else a0            -- :33
  let c := if (siz a0).natAbs < (siz c0).natAbs then a0 else c0
  let dlimbs := d / 64
  let dbits := d % 64
  let dmaskMod := 2 ^ dbits                                   -- x & dmask = x % 2^dbits
  let ap := a.natAbs
  let cp := c.natAbs
  let asize := (siz a).natAbs
  let csize := (siz c).natAbs
  let a_zeros : Bool :=                                       -- :64-77
    if asize ≤ dlimbs then decide (asize = csize)
    else if (List.range (dlimbs - csize)).any (fun k => limbAt ap (csize + k) ≠ 0) then false
    else decide (limbAt ap dlimbs % dmaskMod = 0)
  if siz c = 0 then a_zeros else                              -- :49
  if sameSign (siz a) (siz c) then                            -- :52
    let m := min csize dlimbs
    if ap % B ^ m ≠ cp % B ^ m then false else                -- :57 mpn_cmp on the common limbs
    if csize > dlimbs then
      decide (((limbAt ap dlimbs + B - limbAt cp dlimbs) % B) % dmaskMod = 0)   -- :62
    else a_zeros
  else
    -- :85-103 common low zero limbs, then the first non-zero limbs must be two's complements
    let rec loop1 (fuel i : Nat) : Bool × Nat × Bool :=       -- (decided?, i, answer)
      match fuel with
      | 0 => (true, i, false)
      | fuel + 1 =>
        let alimb := limbAt ap i
        let climb := limbAt cp i
        let sum := (alimb + climb) % B
        if i ≥ dlimbs then (true, i, decide (sum % dmaskMod = 0))          -- :93
        else if sum ≠ 0 then (true, i + 1, false)                          -- :98
        else if alimb ≠ 0 then (false, i + 1, false)                       -- :101 break
        else loop1 fuel (i + 1)
    let (done1, i1, ans1) := loop1 (csize + 1) 0
    if done1 then ans1 else
    -- :106-122 further limbs matching as ones complement
    let rec loop2 (fuel i : Nat) : Bool × Nat × Bool :=
      match fuel with
      | 0 => (false, i, false)
      | fuel + 1 =>
        if i ≥ csize then (false, i, false)                                -- :108 break
        else
          let sum := (limbAt ap i + limbAt cp i + 1) % B
          if i ≥ dlimbs then (true, i, decide (sum % dmaskMod = 0))        -- :115
          else if sum ≠ 0 then (true, i, false)                            -- :118
          else loop2 fuel (i + 1)
    let (done2, i2, ans2) := loop2 (csize + 1) i1
    if done2 then ans2 else
    -- :124-142 no more c, so require all 1 bits in a
    if asize < dlimbs then false else                         -- :126
    if (List.range (dlimbs - i2)).any (fun k => limbAt ap (i2 + k) ≠ B - 1) then false else   -- :130
    if dbits = 0 then true else                               -- :135
    if asize = dlimbs then false else                         -- :139
    decide (((limbAt ap dlimbs + 1) % B) % dmaskMod = 0)      -- :142

/-! ## (c) multi-limb mpn division: observable contracts (value level) -/

/-- the top limb of a vector is non-zero (vector non-empty) -/
def topNonzero (d : List Nat) : Bool := match d.getLast? with | some x => x != 0 | none => false
/-- the divisor is normalised: most significant bit of the top limb set -/
def normalised (d : List Nat) : Bool := match d.getLast? with | some x => x ≥ B / 2 | none => false

/-- mpn_tdiv_qr (qp, rp, 0, np, nn, dp, dn): nn ≥ dn ≥ 1, dp[dn-1] ≠ 0.  q gets nn-dn+1 limbs, r gets dn limbs. -/
def mpnTdivQr (n d : List Nat) : Option (List Nat × List Nat) :=
  if ¬ topNonzero d ∨ n.length < d.length then none else
  some (toLimbs (n.length - d.length + 1) (val n / val d), toLimbs d.length (val n % val d))

/-- mpn_tdiv_q (qp, np, nn, dp, dn): quotient only, nn-dn+1 limbs -/
def mpnTdivQ (n d : List Nat) : Option (List Nat) :=
  if ¬ topNonzero d ∨ n.length < d.length then none else
  some (toLimbs (n.length - d.length + 1) (val n / val d))

/-- mpn_divrem (qp, qxn, np, nn, dp, dn): divisor normalised, nn ≥ dn; divides n·B^qxn.
    Result: nn-dn+qxn quotient limbs, the remainder (dn limbs, left in np) and the returned top quotient limb. -/
def mpnDivrem (n d : List Nat) (qxn : Nat) : Option (List Nat × List Nat × Nat) :=
  if ¬ normalised d ∨ n.length < d.length then none else
  let N := val n * B ^ qxn
  let qn := n.length - d.length + qxn
  some (toLimbs qn (N / val d), toLimbs d.length (N % val d), N / val d / B ^ qn)

/-- mpn_sb_div_qr / mpn_dc_div_qr / mpn_inv_div_qr (qp, np, nn, dp, dn, dinv): divisor normalised;
    nn-dn quotient limbs, remainder in the low dn limbs of np, returns the high quotient limb (0 or 1).
    `minDn`, `minQn`: the size limits the C asserts (sb: dn > 2, nn ≥ dn; dc/inv: dn ≥ 6, nn-dn ≥ 3). -/
def mpnDivQr (minDn minQn : Nat) (n d : List Nat) : Option (List Nat × List Nat × Nat) :=
  if ¬ normalised d ∨ d.length < minDn ∨ n.length < d.length + minQn then none else
  let qn := n.length - d.length
  some (toLimbs qn (val n / val d), toLimbs d.length (val n % val d), val n / val d / B ^ qn)

/-- contract of the `divappr_q` functions: the returned qh·B^qn + q is ⌊n/d⌋ or ⌊n/d⌋ + 1 -/
def divapprOk (n d q : List Nat) (qh : Nat) : Bool :=
  let Q := val n / val d
  let got := val q + B ^ (n.length - d.length) * qh
  q.length == n.length - d.length && (got == Q || got == Q + 1)

/-- Hensel quotient: the `k` low limbs of n·d⁻¹ mod B^k for odd d, one limb at a time
    (q_i = n_0·d⁻¹ mod B; n := (n - q_i·d)/B), with `dinv` = d⁻¹ mod B -/
def bdivLimbs (dinv : Nat) (d : Int) : Nat → Int → List Nat
  | 0, _ => []
  | k + 1, n =>
      let q := (dinv * (n % (B : Int)).toNat) % B
      q :: bdivLimbs dinv d k ((n - (q : Int) * d) / (B : Int))

/-- inverse of an odd limb modulo B by Newton iteration (value of `modlimb_invert`) -/
def limbInverse (d : Nat) : Nat :=
  let step := fun x => (x * (2 + B * B - d * x)) % B
  step (step (step (step (step (step d)))))     -- d is its own inverse mod 8; 3 → 6 → 12 → 24 → 48 → 96 bits

/-- mpn_sb_bdiv_q (qp, wp, np, nn, dp, dn, dinv): d odd, nn ≥ dn ≥ 1.  q = n·d⁻¹ mod B^nn (nn limbs) and the
    two-limb overflow: X = Σ d_i q_j B^(i+j) over i < dn, i + j < nn; wp = ⌊X / B^nn⌋ (sb_bdiv_q.c:30-46) -/
def mpnSbBdivQ (n d : List Nat) : Option (List Nat × List Nat) :=
  match d with
  | [] => none
  | d0 :: _ =>
    if d0 % 2 = 0 ∨ n.length < d.length then none else
    let nn := n.length
    let q := bdivLimbs (limbInverse d0) (val d) nn (val n)
    let X := (List.range nn).foldl (fun acc j => acc + q.getD j 0 * B ^ j * (val d % B ^ (nn - j))) 0
    some (q, toLimbs 2 (X / B ^ nn))

/-- mpn_dc_bdiv_qr (qp, np, nn, dp, dn, dinv): d odd, dn ≥ 2, nn > dn.  q = n·d⁻¹ mod B^qn (qn = nn-dn),
    R = (n - q·d)/B^qn; the dn low limbs of R and the borrow (1 iff R < 0) -/
def mpnBdivQr (n d : List Nat) : Option (List Nat × List Nat × Nat) :=
  match d with
  | [] => none
  | d0 :: _ =>
    if d0 % 2 = 0 ∨ d.length < 2 ∨ n.length ≤ d.length then none else
    let qn := n.length - d.length
    let q := bdivLimbs (limbInverse d0) (val d) qn (val n)
    let R : Int := ((val n : Int) - (val q : Int) * (val d : Int)) / ((B : Int) ^ qn)
    some (q, toLimbs d.length (R % ((B : Int) ^ d.length)).toNat, if R < 0 then 1 else 0)

/-- mpn_divexact (qp, np, nn, dp, dn): d ∣ n, dp[dn-1] ≠ 0, nn ≥ dn; nn-dn+1 quotient limbs -/
def mpnDivexact (n d : List Nat) : Option (List Nat) :=
  if ¬ topNonzero d ∨ n.length < d.length ∨ val n % val d ≠ 0 then none else
  some (toLimbs (n.length - d.length + 1) (val n / val d))

-- The limb-level model of mpn_sb_div_qr lives in Mpir/Model/SbDiv.lean (theorems: MpirProofs/Props/C02_sb.lean).

end Mpir.DivZ
