/-
  C02, multi-limb layer: division with a precomputed Newton inverse, VALUE level with explicit limb counts.  Core Lean only.

  Sources mirrored (tie = correspondence, ops `inv_is_invert`, `inv_invert`, `inv_div_qr_n` in Mpir/Ops/InvDiv.lean,
  harness/ops_invdiv.c):
    mpn/generic/invert.c        mpn_is_invert  (lines 37-66, statement by statement)
                                mpn_invert     (contract only: the unique X with A·X < B^(2n) ≤ A·(X+1), header comment
                                                invert.c:68-77; the Newton iteration itself is NOT mirrored, it is compared
                                                with the closed form on every run)
    mpn/generic/inv_div_qr_n.c  mpn_inv_div_qr_n (whole file; the mulmod branch only for m = dn+1 < FFT_MULMOD_2EXPP1_CUTOFF,
                                                where mpir_fft_adjust_limbs is the identity)

  A limb area of k limbs is a natural number below B^k together with the count k; a pointer offset is a division by a
  power of B.  mpn_mul/mpn_mul_n -> `*`; mpn_mulmod_Bexpp1_fft -> the canonical residue modulo B^m+1.
  `ok` records: the ASSERTs of the C held (mpn_is_invert, ret == 0 at :66 and :73, ret + ret2 < 2 at :106), the final
  correction loop ended within the fuel, and the call was inside the modelled domain.
-/
import Mpir.Base
namespace Mpir.InvDiv
open Mpir

/-- mpn_sub_n / mpn_sub_1 (rp, ap, b, k) on areas a, b < B^k: (difference mod B^k, borrow) -/
def subN (k a b : Nat) : Nat × Nat := if a < b then (a + B ^ k - b, 1) else (a - b, 0)

/-- mpn_add_n / mpn_add_1 (rp, ap, b, k) on areas a, b < B^k: (sum mod B^k, carry) -/
def addN (k a b : Nat) : Nat × Nat := if B ^ k ≤ a + b then (a + b - B ^ k, 1) else (a + b, 0)

/-- mpn_is_invert (xp, ap, n), invert.c:37-66.  X = {xp, n}, A = {ap, n}. -/
def isInvert (n X A : Nat) : Bool :=
  let T := X * A + B ^ n * A                       -- :49 mpn_mul_n; :50 cy = mpn_add_n (tp+n, tp+n, ap, n)
  if B ^ (2 * n) ≤ T then false                    -- :51-55 if (cy != 0) return 0
  else
    let t := (B ^ (2 * n) - T) % B ^ (2 * n)       -- :58-59 mpn_not; mpn_add_1 (.., 1): B^(2n) - X·A modulo B^(2n)
    decide (t ≤ A)                                 -- :60-62 res = mpn_cmp (tp, up, 2n) <= 0

/-- mpn_invert (xp, ap, n): the value its header comment (invert.c:68-77) documents, X = ⌈B^(2n)/A⌉ - 1 without the
    implicit most significant bit. -/
def invertSpec (n A : Nat) : Nat := (B ^ (2 * n) - 1) / A - B ^ n

def MPN_FFT_MUL_N_MINSIZE : Nat := 64          -- gmp-impl.h:1434
def FFT_MULMOD_2EXPP1_CUTOFF : Nat := 128      -- gmp-impl.h:2004

/-- the model gives up on the final loop after this many rounds (the C has no bound; proved: 3 suffice) -/
def loopFuel : Nat := 8

/-- state of the final loop of mpn_inv_div_qr_n: quotient `q` (dn limbs), limb variable `ret`, the area {np, 2dn} `r`,
    rounds done -/
structure Loop where
  q : Nat
  ret : Nat
  r : Nat
  adds : Nat
  deriving DecidableEq, Repr

/-- `np[dn] || mpn_cmp (np, dp, dn) >= 0`, inv_div_qr_n.c:99 -/
def loopCond (dn D r : Nat) : Bool := decide (r / B ^ dn % B ≠ 0) || decide (D ≤ r % B ^ dn)

/-- inv_div_qr_n.c:99-103
      while (np[dn] || mpn_cmp (np, dp, dn) >= 0)
        { ret += mpn_add_1 (qp, qp, dn, 1);  np[dn] -= mpn_sub_n (np, np, dp, dn); } -/
def corrLoop (dn D : Nat) : Nat → Loop → Loop
  | 0, s => s
  | fuel + 1, s =>
    if loopCond dn D s.r then
      let a := addN dn s.q 1                                        -- :101
      let b := subN dn (s.r % B ^ dn) D                             -- :102 mpn_sub_n (np, np, dp, dn)
      let top := (s.r / B ^ dn % B + B - b.2) % B                   -- :102 np[dn] -= borrow
      corrLoop dn D fuel
        { q := a.1, ret := (s.ret + a.2) % B,
          r := b.1 + B ^ dn * top + B ^ (dn + 1) * (s.r / B ^ (dn + 1)), adds := s.adds + 1 }
    else s

/-- result: quotient limbs `q`, the whole dividend area {np, 2dn} afterwards `r` (remainder in the low dn limbs), the
    returned limb `qh`, rounds of the final loop `adds` -/
structure Res where
  q : Nat
  r : Nat
  qh : Nat
  adds : Nat
  ok : Bool
  deriving DecidableEq, Repr

/-- inv_div_qr_n.c:45-49: `if (mpn_cmp (np + dn, dp, dn) >= 0) { ret2 = 1; mpn_sub_n (np + dn, np + dn, dp, dn); }`
    returns ({np, 2dn} afterwards, ret2) -/
def reduceTop (dn N D : Nat) : Nat × Nat :=
  let Nh := N / B ^ dn                                              -- {np+dn, dn}
  if D ≤ Nh then (N % B ^ dn + B ^ dn * (subN dn Nh D).1, 1) else (N, 0)

/-- the quotient estimate, inv_div_qr_n.c:51-73, on N1 = {np, 2dn} after `reduceTop`: returns (q, ret, asserts held) -/
def estimate (dn N1 inv : Nat) : Nat × Nat × Bool :=
  let W := N1 / B ^ (dn - 1)                                        -- {np+dn-1, dn+1}
  let tp := W * inv                                                 -- :52 mpn_mul (tp, np+dn-1, dn+1, inv, dn)
  let cy := (W % B + tp / B ^ dn % B) / B                           -- :53 add_ssaaaa (cy, lo, 0, np[dn-1], 0, tp[dn])
  let a1 := addN dn (tp / B ^ (dn + 1) % B ^ dn) (N1 / B ^ dn)      -- :54 ret += mpn_add_n (qp, tp+dn+1, np+dn, dn)
  let a2 := addN dn a1.1 cy                                         -- :55 ret += mpn_add_1 (qp, qp, dn, cy)
  let ret := a1.2 + a2.2
  let s1 := if ret = 1 then subN dn a2.1 1 else (a2.1, 0)           -- :63-67
  let as1 := if ret = 1 then decide (ret - s1.2 = 0) else true      -- :66 ASSERT (ret == 0)
  let ret := ret - s1.2
  let s2 := subN dn s1.1 1                                          -- :69
  let ret := (ret + B - s2.2) % B
  let a3 := if ret = B - 1 then addN dn s2.1 1 else (s2.1, 0)       -- :70-71
  let ret := (ret + a3.2) % B
  (a3.1, ret, as1 && decide (ret = 0))                              -- :73 ASSERT (ret == 0)

/-- {tp, m} before `mpn_sub_n (np, np, tp, m)`, inv_div_qr_n.c:75-94, m = dn + 1 -/
def product (dn N1 D q ret : Nat) : Nat × Bool :=
  let m := dn + 1
  if dn ≤ MPN_FFT_MUL_N_MINSIZE ∨ ret ≠ 0 then                      -- :76
    (q * D % B ^ m, true)                                           -- :78 mpn_mul_n (tp, qp, dp, dn); low m limbs are used
  else
    -- :85-86 m >= FFT_MULMOD_2EXPP1_CUTOFF: m = mpir_fft_adjust_limbs (m) — outside the modelled domain
    let t0 := q * D % (B ^ m + 1) % B ^ m                           -- :87 cy, {tp, m} = qp·dp mod (B^m+1)
    let t1 := (t0 + N1 / B ^ m) % B ^ m                             -- :90-91 add {np+m, 2dn-m}, carry propagated, dropped
    let c := (t1 % B + B - (D % B) * (q % B) % B) % B               -- :94 tp[0] - dp[0]*qp[0]
    ((t1 + B ^ m - c) % B ^ m, decide (m < FFT_MULMOD_2EXPP1_CUTOFF))  -- :94 mpn_sub_1 (tp, tp, m, …)

/-- mpn_inv_div_qr_n (qp, np, dp, dn, inv), inv_div_qr_n.c:32-111.  N = {np, 2dn}, D = {dp, dn}, inv = {inv, dn}. -/
def invDivQrN (dn N D inv : Nat) : Res :=
  let t := reduceTop dn N D
  let N1 := t.1; let ret2 := t.2
  let e := estimate dn N1 inv
  let q := e.1; let ret := e.2.1
  let m := dn + 1
  let p := product dn N1 D q ret
  let r0 := (subN m (N1 % B ^ m) p.1).1                             -- :97 mpn_sub_n (np, np, tp, m); :98 MPN_ZERO (np+m, 2dn-m)
  let l := corrLoop dn D loopFuel { q := q, ret := ret, r := r0, adds := 0 }
  { q := l.q, r := l.r, qh := (l.ret + ret2) % B, adds := l.adds,
    ok := decide (1 ≤ dn) && isInvert dn inv D && e.2.2 && p.2 && !loopCond dn D l.r
          && decide (l.ret + ret2 < 2) }                            -- :43, :106

/-- limb-vector wrapper -/
def inv_div_qr_n (np dp inv : List Nat) : List Nat × List Nat × Nat :=
  let dn := dp.length
  let r := invDivQrN dn (val np) (val dp) (val inv)
  (toLimbs dn r.q, toLimbs (2 * dn) r.r, r.qh)

end Mpir.InvDiv
