/-
  C04 — size-aware models of the mpq arithmetic: mpq/aors.c (mpq_add, mpq_sub), mpq/mul.c (mpq_mul), mpq/div.c (mpq_div),
  mpq/md_2exp.c (mpq_mul_2exp, mpq_div_2exp).  Core Lean only.  On the memory model of Mpir/Model/AllocSafe.lean (imported, not edited);
  an `mpq_t` is its two `mpz_t` fields = two variable ids (as mpq_inv in AllocSafeMpz4.lean); "rop is the same variable as op1"
  = the same pair of ids.  Local `mpz_t`s of the C (gcd, tmp1, …) are variables of the same heap whose ids the caller provides
  (scratch ids, distinct from every operand id).

  The mpz callees that already have a size-aware model are called as they are (mpz_mul, mpz_add, mpz_sub, mpz_set, mpz_mul_2exp);
  mpz_gcd and mpz_divexact_gcd are modelled at OBJECT level (`objWrite`): `MPZ_REALLOC (w, req)` with the size the C source
  requests, then the limbs of the mathematical result stored to PTR(w)[0, n) and SIZ(w) set — all operands read before.
  Theorems: MpirProofs/Props/C04_allocsafe6.lean.
-/
import Mpir.Model.AllocSafeMpz4
import Mpir.Model.Bits
namespace Mpir.AllocSafe6
open Mpir Mpir.AllocSafe

/-- the integer a variable holds -/
def valOf (s : St) (x : Nat) : Int := Mpz.toInt (view (s.h x))

/-- object-level store of the integer `z` into variable `w` after `MPZ_REALLOC (w, req)`: the limbs of |z| to PTR(w)[0, n),
    `SIZ (w) = ±n`.  (The store is range-checked like every other: `req` too small clears `ok`.) -/
def objWrite (s : St) (w : Nat) (req : Nat) (z : Int) : St :=
  let s := MPZ_REALLOC s w req
  let l := natLimbs z.natAbs
  let s := s.wr (s.PTR w) l
  s.setSize w (if z < 0 then -(l.length : Int) else l.length)

/-- mpz_gcd (g, u, v), mpz/gcd.c:27-156, object level: every path stores exactly the limbs of gcd (|u|, |v|) after
    `MPZ_REALLOC (g, gsize)` with gsize = the size of the result (gcd.c:49, 60, 139, 149; the one-limb paths :65-77 store
    `PTR(g)[0]` of a block that always has ≥ 1 limb; u = 0 with g == v (:46-48) stores only the size). -/
def mpz_gcd (s : St) (g u v : Nat) : St :=
  let z : Int := (Int.gcd (valOf s u) (valOf s v) : Nat)
  objWrite s g (natLimbs z.natAbs).length z

/-- mpz_divexact_gcd (q, a, d), mpz/divegcd.c:96-146, d > 0 dividing a, object level: a = 0 stores only `SIZ (q) = 0` (:101-105);
    one-limb d: mpz_tdiv_q_2exp / mpz_set / mpz_divexact_by3 / _by5 / _limb, each `MPZ_REALLOC (q, ABSIZ (a))` (:55, 72, 88, set.c:38,
    tdiv_q_2exp.c); otherwise mpz_divexact: `MPZ_REALLOC (quot, nn - dn + 1)` (divexact.c:50-51). -/
def mpz_divexact_gcd (s : St) (q a d : Nat) : St :=
  if s.SIZ a == 0 then s.setSize q 0                                          -- divegcd.c:101-105
  else
    let z := valOf s a / valOf s d
    let req := if s.SIZ d == 1 then s.ABSIZ a else s.ABSIZ a - s.ABSIZ d + 1   -- :107 / divexact.c:50
    objWrite s q req z

/-- `mpz_init (x)` (mpz/init.c): a block of one limb, value 0 -/
def mpzInit (s : St) (x : Nat) : St := { s with h := upd s.h x ⟨0, 0, Buf.new 1⟩ }

/-- `MPZ_TMP_INIT (x, n)` (gmp-impl.h:1727): a block of n limbs in TMP space (`_mp_size` is left unset: 0 here).  The block
    must never be handed to `_mpz_realloc` — `tmpKept` checks that. -/
def tmpInit (s : St) (x n : Nat) : St := { s with h := upd s.h x ⟨0, 0, Buf.new n⟩ }

/-- the TMP block of x is still the one MPZ_TMP_INIT made (generation 0: no callee reallocated it — that would be
    `realloc` of alloca/TMP memory) -/
def tmpKept (s : St) (x : Nat) : St := s.chk ((s.h x).gen == 0)

/-- `MPZ_EQUAL_1_P (z)` (gmp-impl.h:1743): `SIZ(z)==1 && PTR(z)[0] == 1` -/
def equal1 (s : St) (z : Nat) : Bool × St :=
  if s.SIZ z == 1 then
    let (l, s) := s.load (s.PTR z) 0
    (l == 1, s)
  else (false, s)

/-! ### mpq_add, mpq_sub — mpq/aors.c -/

/-- `(*fun) (w, u, v)` with fun = mpz_add / mpz_sub -/
def zaors (isSub : Bool) (s : St) (w u v : Nat) : St := if isSub then mpz_sub s w u v else mpz_add s w u v

/-- mpq_aors (rop, op1, op2, fun), aors.c:30-91; rop = (rn, rd), op1 = (an, ad), op2 = (bn, bd); scratch ids g t1 t2 t for the
    locals gcd, tmp1, tmp2, t.  `gplus`, `tplus`: 0 in the C (the TMP sizes of gcd and t are `MIN (..)` and `MAX (..) + 1`). -/
def mpq_aors (gminus tminus : Nat) (isSub : Bool) (s : St) (rn rd an ad bn bd : Nat) (g t1 t2 t : Nat) : St :=
  let op1_num_size := s.ABSIZ an                                              -- aors.c:36
  let op1_den_size := (s.SIZ ad).toNat                                        -- :37
  let op2_num_size := s.ABSIZ bn                                              -- :38
  let op2_den_size := (s.SIZ bd).toNat                                        -- :39
  let s := tmpInit s g (min op1_den_size op2_den_size - gminus)               -- :43
  let s := tmpInit s t1 (op1_num_size + op2_den_size)                         -- :44
  let s := tmpInit s t2 (op2_num_size + op1_den_size)                         -- :45
  let s := tmpKept (mpz_gcd s g ad bd) g                                      -- :52
  let (one, s) := equal1 s g                                                  -- :53
  if !one then
    let s := tmpKept (mpz_divexact_gcd s t1 bd g) t1                          -- :57
    let s := tmpKept (mpz_mul s t1 an t1) t1                                  -- :58
    let s := tmpKept (mpz_divexact_gcd s t2 ad g) t2                          -- :60
    let s := tmpKept (mpz_mul s t2 bn t2) t2                                  -- :61
    let s := tmpInit s t (max (s.ABSIZ t1) (s.ABSIZ t2) + 1 - tminus)         -- :63
    let s := tmpKept (zaors isSub s t t1 t2) t                                -- :65
    let s := tmpKept (mpz_divexact_gcd s t2 ad g) t2                          -- :66
    let s := tmpKept (mpz_gcd s g t g) g                                      -- :68
    let (one, s) := equal1 s g                                                -- :69
    if one then
      let s := mpz_set s rn t                                                 -- :71
      mpz_mul s rd bd t2                                                      -- :72
    else
      let s := mpz_divexact_gcd s rn t g                                      -- :76
      let s := tmpKept (mpz_divexact_gcd s t1 bd g) t1                        -- :77
      mpz_mul s rd t1 t2                                                      -- :78
  else
    let s := tmpKept (mpz_mul s t1 an bd) t1                                  -- :85
    let s := tmpKept (mpz_mul s t2 bn ad) t2                                  -- :86
    let s := zaors isSub s rn t1 t2                                           -- :87
    mpz_mul s rd ad bd                                                        -- :88

def mpq_add (s : St) (rn rd an ad bn bd g t1 t2 t : Nat) : St := mpq_aors 0 0 false s rn rd an ad bn bd g t1 t2 t   -- aors.c:94-98
def mpq_sub (s : St) (rn rd an ad bn bd g t1 t2 t : Nat) : St := mpq_aors 0 0 true s rn rd an ad bn bd g t1 t2 t    -- aors.c:100-104

/-! ### mpq_mul — mpq/mul.c -/

/-- mpq_mul (prod, op1, op2), mul.c:27-68; prod = (pn, pd), op1 = (an, ad), op2 = (bn, bd); scratch ids g1 g2 t1 t2 for the
    mpz_init'ed locals (mpz_clear at :64-67 ends their life: what is left under the scratch ids is of no interest).
    `op1 == op2` compares the variables. -/
def mpq_mul (s : St) (pn pd an ad bn bd : Nat) (g1 g2 t1 t2 : Nat) : St :=
  if an == bn && ad == bd then                                                -- mul.c:33 op1 == op2
    let s := mpz_mul s pn an an                                               -- :36
    mpz_mul s pd ad ad                                                        -- :37
  else
    let s := mpzInit s g1                                                     -- :41
    let s := mpzInit s g2                                                     -- :42
    let s := mpzInit s t1                                                     -- :43
    let s := mpzInit s t2                                                     -- :44
    let s := mpz_gcd s g1 an bd                                               -- :51
    let s := mpz_gcd s g2 bn ad                                               -- :52
    let s := mpz_divexact_gcd s t1 an g1                                      -- :54
    let s := mpz_divexact_gcd s t2 bn g2                                      -- :55
    let s := mpz_mul s pn t1 t2                                               -- :57
    let s := mpz_divexact_gcd s t1 bd g1                                      -- :59
    let s := mpz_divexact_gcd s t2 ad g2                                      -- :60
    mpz_mul s pd t1 t2                                                        -- :62

/-! ### mpq_div — mpq/div.c -/

/-- mpq_div (quot, op1, op2), div.c:26-76; `none` = DIVIDE_BY_ZERO; scratch ids g1 g2 t1 t2 nt for gcd1, gcd2, tmp1, tmp2, numtmp.
    The numerator goes through `numtmp` and is moved to quot last; the sign of the denominator is moved to the numerator by
    negating both size fields. -/
def mpq_div (s : St) (qn qd an ad bn bd : Nat) (g1 g2 t1 t2 nt : Nat) : Option St :=
  if s.SIZ bn == 0 then none                                                  -- div.c:33-34
  else
    let s := mpzInit s g1                                                     -- :36
    let s := mpzInit s g2                                                     -- :37
    let s := mpzInit s t1                                                     -- :38
    let s := mpzInit s t2                                                     -- :39
    let s := mpzInit s nt                                                     -- :40
    let s := mpz_gcd s g1 an bn                                               -- :47
    let s := mpz_gcd s g2 bd ad                                               -- :48
    let s := mpz_divexact_gcd s t1 an g1                                      -- :50
    let s := mpz_divexact_gcd s t2 bd g2                                      -- :51
    let s := mpz_mul s nt t1 t2                                               -- :53
    let s := mpz_divexact_gcd s t1 bn g1                                      -- :55
    let s := mpz_divexact_gcd s t2 ad g2                                      -- :56
    let s := mpz_mul s qd t1 t2                                               -- :58
    let s := mpz_set s qn nt                                                  -- :62
    if s.SIZ qd < 0 then                                                      -- :65
      let s := s.setSize qd (-(s.SIZ qd))                                     -- :67
      some (s.setSize qn (-(s.SIZ qn)))                                       -- :68
    else some s

/-! ### mpq_mul_2exp, mpq_div_2exp — mpq/md_2exp.c -/

/-- md_2exp.c:42-47 `while (n >= GMP_NUMB_BITS && plow == 0) { n -= GMP_NUMB_BITS; p++; plow = *p; }`: k = p - rsrc_ptr;
    every `*p` is a checked load.  `fuel` = the limbs of rsrc (a non-zero operand stops the loop earlier). -/
def skipZeros (s : St) (rp : Ptr) : Nat → Nat → Nat → Nat → Nat × Nat × Nat × St
  | 0, k, n, plow => (k, n, plow, s)
  | fuel + 1, k, n, plow =>
      if n ≥ 64 && plow == 0 then                                             -- :42
        let (pl, s') := s.load rp (k + 1)                                     -- :45-46
        skipZeros s' rp fuel (k + 1) (n - 64) pl                              -- :44
      else (k, n, plow, s)

/-- mord_2exp (ldst, rdst, lsrc, rsrc, n), md_2exp.c:30-80.  `byPtr` = the in-place test compares the POINTERS (`p != rdst_ptr`,
    :57 — the repaired form); `false` is the earlier variant that compared the variables (`rdst != rsrc`) and so skipped the copy
    when whole low zero limbs had been dropped in place. -/
def mord_2exp (byPtr : Bool) (s : St) (ldst rdst lsrc rsrc : Nat) (n : Nat) : St :=
  let rsrc_size := s.SIZ rsrc                                                 -- :34
  let len := rsrc_size.natAbs                                                 -- :35
  let rsrc_ptr := s.PTR rsrc                                                  -- :36
  let (plow, s) := s.load rsrc_ptr 0                                          -- :40-41
  let (k, n, plow, s) := skipZeros s rsrc_ptr len 0 n plow                    -- :42-47
  let p := rsrc_ptr.add k
  let len := len - k                                                          -- :50
  let s := MPZ_REALLOC s rdst len                                             -- :51
  let rdst_ptr := s.PTR rdst                                                  -- :52
  let (s, len, n) :=
    if plow % 2 == 1 || n == 0 then                                           -- :54
      let differ := if byPtr then !(rdst == rsrc && k == 0) else rdst != rsrc   -- :57 p != rdst_ptr
      ((if differ then MPN_COPY s rdst_ptr p len else s), len, n)             -- :58 MPN_COPY_INCR
    else
      let shift := if plow == 0 then n else min (Bits.ctz plow) n             -- :63-69
      let s := (mpn_rshift s rdst_ptr p len shift).1                          -- :70
      let (top, s) := s.load rdst_ptr (len - 1)                               -- :71
      (s, len - (if top == 0 then 1 else 0), n - shift)                       -- :71-72
  let s := s.setSize rdst (if rsrc_size ≥ 0 then (len : Int) else -(len : Int))   -- :74
  if n != 0 then mpz_mul_2exp s ldst lsrc n                                   -- :76-77
  else if ldst != lsrc then mpz_set s ldst lsrc                               -- :78-79
  else s

/-- mpq_mul_2exp (dst, src, n), md_2exp.c:83-88 -/
def mpq_mul_2exp (s : St) (dn dd sn sd : Nat) (n : Nat) : St := mord_2exp true s dn dd sn sd n

/-- mpq_div_2exp (dst, src, n), md_2exp.c:90-103 -/
def mpq_div_2exp (s : St) (dn dd sn sd : Nat) (n : Nat) : St :=
  if s.SIZ sn == 0 then                                                       -- :93
    let s := s.setSize dn 0                                                   -- :95
    let s := s.setSize dd 1                                                   -- :96
    s.store (s.PTR dd) 0 1                                                    -- :97
  else mord_2exp true s dd dn sd sn n                                         -- :101-102

end Mpir.AllocSafe6
