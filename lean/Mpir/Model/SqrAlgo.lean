/-
  The squaring-specific C of the algorithm layer (property C01), VALUE level, mirrored statement by statement like
  Mpir/Model/MulAlgo.lean (operands and results are natural numbers, the recursive squarings are the parameter `sqr`,
  taken as exact: their own theorems).  Core Lean only (linked into the driver).

    mpn/generic/mul_n.c:226-280          mpn_kara_sqr_n     kara_sqr_n    (recursion modelled: thresholds T1 = SQR_BASECASE_THRESHOLD,
                                                                           T2 = SQR_KARATSUBA_THRESHOLD)
    mpn/generic/toom3_mul_n.c:253-404    mpn_toom3_sqr_n    toom3_sqr_n   (interpolation: MulAlgo.toom3Interp with sa = 1)
    mpn/generic/toom4_mul_n.c:743-826    mpn_toom4_sqr_n    toom4_sqr_n   (interpolation: MulAlgo.toom4Interp, n4, n6 ≥ 0)
  Tie: ops `sqrx_*` in Mpir/Ops/SqrAlgo.lean ↔ harness/ops_sqrx.c.
-/
import Mpir.Model.MulAlgo
namespace Mpir.SqrAlgo
open Mpir Mpir.MulAlgo

/-! ### Karatsuba squaring — mul_n.c:226-280 -/

/-- `mpn_kara_sqr_n (rp, xp, n, tp)`; `none` = outside the C's domain (n < 2). -/
def kara_sqr_n (T1 T2 : Nat) (x n : Nat) : Option Nat :=
  if _h : n < 2 then none else
  let n2 := n / 2                                   -- :233  n2 = n>>1
  let n3 := n - n2                                  -- :236
  let xl := x % B ^ n2; let xh := x / B ^ n2        -- :234-235
  -- :239-258  dx = |xh - xl| (odd n: `xh[n2] != 0 || mpn_cmp(xh, xl, n2) >= 0` is exactly xh ≥ xl)
  let dx := absDiff xh xl
  -- :260-277  three squares: mpn_mul_basecase, mpn_sqr_basecase, or recursively
  let sub (a m : Nat) : Option Nat :=
    if n3 < T1 then some (a * a)                    -- :262-264 mpn_mul_basecase (spec: mul_basecase_val)
    else if n3 < T2 then some (a * a)               -- :268-270 mpn_sqr_basecase (assembly: its specification)
    else if _hm : m < n then kara_sqr_n T1 T2 a m else none      -- :274-276
  match sub xl n2, sub dx n3, sub xh n3 with
  | some p0, some t, some p2 =>
    some (p0 + B ^ (2 * n2) * p2 + B ^ n2 * (p0 + p2 - t))       -- :279 mpn_karasub (always: the middle term is a square)
  | _, _, _ => none
termination_by n
decreasing_by all_goals omega

/-! ### Toom-3 squaring — toom3_mul_n.c:253-404 -/

/-- `mpn_toom3_sqr_n (c, a, n, t)`; C domain: n ≥ 17. -/
def toom3_sqr_n (sqr : Nat → Nat) (a n : Nat) : Nat :=
  let k := (n + 2) / 3                                      -- :263
  let t := B ^ k
  let a0 := a % t; let a1 := a / t % t; let a2 := a / t ^ 2 -- a2: r = n - 2k limbs
  let sa02 := a0 + a2                                       -- :287-292  a0+a2
  let v1 := sqr (sa02 + a1)                                 -- :293-299  (a0+a1+a2)^2
  let sa := cmpS sa02 a1                                    -- :306
  let da := if sa ≥ 0 then sa02 - a1 else a1 - sa02         -- :307-308  |a0-a1+a2|
  let vm1 := sqr da                                         -- :312
  let ea := (2 * a2 + a1) * 2 + a0                          -- :324-342  a0+2a1+4a2
  let v2 := sqr ea                                          -- :348
  let v0 := sqr a0                                          -- :359
  let vinf := sqr a2                                        -- :375
  recompose k (toom3Interp v0 v1 v2 vm1 vinf 1)             -- :389  sa = 1: vm1 is a square

/-! ### Toom-4 squaring — toom4_mul_n.c:743-826 -/

/-- `mpn_toom4_sqr_n (rp, up, n)`; C domain: n ≥ 1 (used from SQR_TOOM4_THRESHOLD). -/
def toom4_sqr_n (sqr : Nat → Nat) (a n : Nat) : Nat :=
  let sn := (n - 1) / 4 + 1                                 -- :756
  let t := B ^ sn
  let a0 := a % t; let a1 := a / t % t; let a2 := a / t ^ 2 % t; let a3 := a / t ^ 3
  let u5 := a3 + a1; let u4 := a2 + a0                      -- :769-770
  let u2 := u4 + u5                                         -- :771
  let u3 := absDiff u4 u5                                   -- :772  (signed; only its square is used)
  let r4 := sqr u3                                          -- :774  p(-1) = (u4-u5)^2 ≥ 0
  let r3 := sqr u2                                          -- :775  p(1)
  let h1 := 8 * a0 + 2 * a2                                 -- :777-778  r1 = a0<<3 + 2 a2
  let h2 := 4 * a1 + a3                                     -- :779-780  r2 = a1<<2 + a3
  let u4' := h1 + h2                                        -- :781
  let u5' := absDiff h1 h2                                  -- :782
  let r6 := sqr u5'                                         -- :787  2^6 p(-1/2) ≥ 0
  let r5 := sqr u4'                                         -- :788  2^6 p(1/2)
  let e2 := 8 * a3 + 4 * a2 + 2 * a1 + a0                   -- :791-794
  let r2 := sqr e2                                          -- :796  p(2)
  let r1 := sqr a3                                          -- :797  p(oo)
  let r7 := sqr a0                                          -- :798  p(0)
  recompose sn (toom4Interp r1 r2 r3 r4 r5 r6 r7 false false)   -- :821  n4, n6 are lengths of squares: not negative

end Mpir.SqrAlgo
