/-
  Property C09, part `rootrem` — the two n-th root algorithms behind mpn_rootrem, mirrored statement by
  statement at VALUE + LIMB-COUNT level (core Lean only):

    mpn/generic/rootrem_basecase.c   mpn_rootrem_basecase   (lines 80-201 of the file)
    mpn/generic/rootrem.c            mpn_rootrem_internal   (lines 135-423), mpn_rootrem (78-132)

  What is represented: every value the C computes (numbers held in limb buffers are `Nat`s), every limb COUNT
  that a test of the C reads (`un`, `pn`, `xn`, `qn`, ...: `limbLen`), every branch in source order, every
  `ASSERT_ALWAYS`.  The result type is `Option`: `none` stands for "the C does something this model does not
  describe" — an `ASSERT_ALWAYS` that fires (abort), a limb of a buffer read before it was written, a
  routine called outside its documented operand condition (mpn_tdiv_qr with nn < dn, mpn_pow_1 on a base with
  a zero top limb, whose returned size is then not the normalised one).  The theorems prove that `none` never
  occurs.  Not represented: buffer addresses and capacities (`PP_ALLOC`, `EXTRA`: the floating-point size
  estimates and the `ASSERT_ALWAYS (pn < PP_ALLOC)` checks on them), carries inside the mpn kernels.
-/
import Mpir.Base
import Mpir.Model.Root
namespace Mpir.Rootrem
open Mpir
open Mpir.Root (bitLen)

/-- number of limbs of the normalised representation (0 for 0). -/
def limbLen (a : Nat) : Nat := (bitLen a + 63) / 64

/-- `rn = mpn_pow_1 (rp, {bp, bn}, e, tp)` for `e ≥ 1` (mpn/generic/pow_1.c): the value is `b^e`; the returned size is
    the normalised size of the power only if `bp[bn-1] ≠ 0` (each squaring strips at most one high zero limb), so
    a base with a zero top limb is outside the model. -/
def pow1 (bn b e : Nat) : Option Nat := if B ^ (bn - 1) ≤ b then some (b ^ e) else none

/-! ## mpn_rootrem_basecase -/

/-- rootrem_basecase.c:130-147, the bit-by-bit improvement
    `for (i = 0; (nth >> i) != 0; i++) { xl = xp[bit/64]; xp[bit/64] = xl ^ 1 << bit%64; pn = mpn_pow_1 (pp, xp, xn, nth, qp);
       if (! (un < pn || (un == pn && mpn_cmp (up, pp, pn) < 0))) xp[bit/64] = xl; n_valid_bits += 1;
       if (bit == 0) goto done; bit--; }`
    `iters` counts the remaining rounds (`bitLen nth` in all: the `i` with `nth >> i ≠ 0`).
    Result: (x, n_valid_bits, went to `done`). -/
def bcBits (nth U xn : Nat) : Nat → Nat → Nat → Nat → Option (Nat × Nat × Bool)
  | 0, x, _, nv => some (x, nv, false)
  | iters + 1, x, bit, nv => do
      let x' := x ^^^ (1 <<< bit)                       -- :136-137 flip bit `bit`
      let p ← pow1 xn x' nth                            -- :138
      let x := if U < p then x' else x                  -- :141-142 restore unless U < x'^nth
      if bit = 0 then some (x, nv + 1, true)            -- :143-145
      else bcBits nth U xn iters x (bit - 1) (nv + 1)   -- :146

/-- one round of the Newton loop, rootrem_basecase.c:156-178; `un = limbLen U`.  Returns the new `{xp, xn}`. -/
def bcNewtonStep (U un nth xn x : Nat) : Option Nat := do
  let P ← pow1 xn x (nth - 1)                           -- :158 pn = mpn_pow_1 (pp, xp, xn, nth - 1, qp)
  let pn := limbLen P
  -- :160 qp[xn - 1] = 0;  :161 mpn_tdiv_qr (qp, pp, 0, up, un, pp, pn): needs un ≥ pn, writes qp[0 .. un-pn]
  if un < pn then none
  else if un - pn + 2 < xn then none                    -- limbs qp[un-pn+1 .. xn-2] would be read unwritten
  else
    let Q := U / P
    let t := Q % B ^ xn + (nth - 1) * x                 -- :162 cy = mpn_addmul_1 (qp, xp, xn, nth - 1)
    let lo := t % B ^ xn
    let cy := t / B ^ xn
    let r : Nat × Nat :=
      if un - pn = xn then                              -- :163
        let cy := (cy + Q / B ^ xn % B) % B             -- :165 cy += qp[xn]
        if cy = nth then (B ^ xn - 1, nth - 1)          -- :166-171 saturate: all limbs ~0, cy = nth - 1
        else (lo, cy)
      else (lo, cy)
    -- :174-175 qp[xn] = cy; qn = xn + (cy != 0);  :177 mpn_divrem_1 (xp, 0, qp, qn, nth); only {xp, xn} is read later
    some ((r.2 * B ^ xn + r.1) / nth % B ^ xn)

/-- `while (n_valid_bits <= xnb) { ...; n_valid_bits = n_valid_bits * 2 - adj; }` (:154-179).
    Variant: `xnb + 1 - n_valid_bits` (n_valid_bits > adj always, so it grows strictly); the fuel `xnb + 1`
    given by the caller is never exhausted (`none` would mean it was). -/
def bcNewton (U un nth xn xnb adj : Nat) : Nat → Nat → Nat → Option Nat
  | 0, x, nv => if nv ≤ xnb then none else some x
  | fuel + 1, x, nv =>
      if nv ≤ xnb then do
        let x' ← bcNewtonStep U un nth xn x
        bcNewton U un nth xn xnb adj fuel x' (nv * 2 - adj)
      else some x

/-- label `done:` rootrem_basecase.c:182-200: one test, one decrement, `ASSERT_ALWAYS` that it was enough; remainder. -/
def bcDone (U nth xn x : Nat) : Option (Nat × Nat) := do
  let p ← pow1 xn x nth                                 -- :183
  if U < p then                                         -- :185 un < pn || (un == pn && mpn_cmp (up, pp, pn) < 0)
    let x1 := x - 1                                     -- :187 mpn_decr_u (xp, 1)
    let p1 ← pow1 xn x1 nth                             -- :188
    if U < p1 then none                                 -- :191 ASSERT_ALWAYS
    else some (x1, U - p1)                              -- :196 mpn_sub (remp, up, un, pp, pn)
  else some (x, U - p)

/-- mpn_rootrem_basecase ({up, un} = U ≥ 1, nth ≥ 2): (root, remainder).  The C returns the normalised limb count
    of the remainder (`MPN_NORMALIZE (remp, un)`) and writes `xn` root limbs. -/
def rootremBasecase (U nth : Nat) : Option (Nat × Nat) :=
  let un := limbLen U
  let unb := bitLen U                                   -- :104-105
  let xnb := (unb - 1) / nth + 1                        -- :107
  if xnb = 1 then some (1, U - 1)                       -- :108-117 root is 1
  else
    let xn := (xnb + 63) / 64                           -- :119
    let x0 := 2 ^ xnb - 1                               -- :126-128 all ones, xnb bits
    do
      let (x, nv, done) ← bcBits nth U xn (bitLen nth) x0 (xnb - 2) 0      -- :132-147
      let x ← if done then some x
              else bcNewton U un nth xn xnb (nv - 1) (xnb + 1) x nv        -- :149 adj = n_valid_bits - 1
      bcDone U nth xn x

/-! ## mpn_rootrem_internal (rootrem.c:135-423) and the dispatcher mpn_rootrem (rootrem.c:78-132) -/

/-- the bit-size schedule, rootrem.c:215-233: `b = xnb - 1; ni = 0; while (b != 0) { sizes[ni] = b; b = (b + logk + 1) / 2;
    if (b >= sizes[ni]) b = sizes[ni] - 1; ni++; } sizes[ni] = 0;` — the list `sizes[0], …, sizes[ni]`.
    The fuel is the capacity of `sizes[GMP_NUMB_BITS + 1]`; a list that does not end in 0 means it was exceeded. -/
def rrSizes (logk : Nat) : Nat → Nat → List Nat
  | 0, _ => []
  | fuel + 1, b =>
      if b = 0 then [0] else
      let c := (b + logk + 1) / 2                          -- :228
      let c := if c ≥ b then b - 1 else c                  -- :229-230
      b :: rrSizes logk fuel c

/-- the correction loop rootrem.c:377-403 together with `ASSERT_ALWAYS (c <= 1)` (:407) and the subtraction
    (:411-415): `sn` is the limb count of the candidate (not updated by `MPN_DECR_U`), `Uk = ⌊U / 2^kk⌋`.
    `wantW`: not the last round (W ← S^(k-1) by mpn_pow_1 (wp, sp, sn, k - 1, qp), S^k = W·S).
    Result (S, R, W). -/
def rrCorrect (k Uk sn S W : Nat) (wantW : Bool) : Option (Nat × Nat × Nat) := do
  let w0 ← pow1 sn S (k - 1)                               -- c = 0 (:392 / :386: mpn_pow_1 on {sp, sn})
  if w0 * S ≤ Uk then some (S, Uk - w0 * S, if wantW then w0 else W)
  else
    let S1 := S - 1                                        -- :400 MPN_DECR_U (sp, sn, 1)
    let w1 ← pow1 sn S1 (k - 1)                            -- c = 1
    if w1 * S1 ≤ Uk then some (S1, Uk - w1 * S1, if wantW then w1 else W)
    else none                                              -- a second decrement: ASSERT_ALWAYS (c <= 1) fires

/-- one round of the loop rootrem.c:242-419; state (S, R, W, kk), `b = sizes[i-1] - sizes[i]`,
    `last` = (i == 1).  Result (S, R, W, kk, approx). -/
def rrStep (U k b : Nat) (last approx : Bool) (st : Nat × Nat × Nat × Nat) :
    Option (Nat × Nat × Nat × Nat × Bool) :=
  let (S, R, W, kk) := st
  let kk := kk - b                                         -- :270 (after R <<= b, :262-268)
  let R := R * 2 ^ b + (U >>> kk) % 2 ^ b                  -- :274-297 insert bits [kk, kk+b-1] of U
  let W := W * k                                           -- :302-304 k * S^(k-1)
  let Q := R / W                                           -- :309-318 (qn = 0 when rn < wn)
  let Q := if Q ≥ 2 ^ b then 2 ^ b - 1 else Q              -- :331-339 the quotient should be smaller than 2^b
  let S := S * 2 ^ b + Q                                   -- :344-362
  let sn := limbLen S
  let kk := kk - (k - 1) * b                               -- :369
  let Uk := U >>> kk                                       -- :371-373 {rp, rn} = floor (U / 2^kk)
  if last then
    let approx := approx && decide (S % B > 1)             -- :385 approx = approx && (sp[0] > 1)
    if approx then some (S, Uk, W, kk, true)               -- :386 qn = 0: no comparison, no subtraction (:411)
    else (rrCorrect k Uk sn S W false).map fun (S, R, W) => (S, R, W, kk, false)
  else (rrCorrect k Uk sn S W true).map fun (S, R, W) => (S, R, W, kk, approx)

/-- `for (i = ni; i != 0; i--)` over the schedule listed from `sizes[ni] = 0` upwards. -/
def rrLoop (U k : Nat) (approx : Bool) : List Nat → Nat × Nat × Nat × Nat → Option (Nat × Nat × Bool)
  | hi :: lo :: rest, st => do
      let (S, R, W, kk, ap) ← rrStep U k (lo - hi) rest.isEmpty approx st
      if rest.isEmpty then some (S, R, ap) else rrLoop U k ap (lo :: rest) (S, R, W, kk)
  | _, (S, R, _, _) => some (S, R, approx)

/-- mpn_rootrem_internal ({up, un} = U ≥ 1, k ≥ 2, approx): (root, R, approx still on).  With `approx` still on, R is
    `U` itself (non-zero) and the root may be one too large. -/
def rootremInternal (U k : Nat) (approx : Bool) : Option (Nat × Nat × Bool) :=
  let unb := bitLen U                                      -- :154-155
  let xnb := (unb - 1) / k + 1                             -- :158
  if xnb = 1 then some (1, U - 1, false)                   -- :161-173 root is 1 (before any temporary is allocated)
  else
    let kk := k * (xnb - 1)                                -- :202
    let R := (U >>> kk) - 1                                -- :203-205
    let logk := if bitLen (k - 1) = 0 then 1 else bitLen (k - 1)   -- :211-212
    let sizes := rrSizes logk 66 (xnb - 1)                 -- :215-233
    if sizes.getLast? ≠ some 0 ∨ sizes.length > 65 then none        -- :234 ASSERT_ALWAYS (ni < GMP_NUMB_BITS + 1)
    else rrLoop U k approx sizes.reverse (1, R, 1, kk)     -- :208, :240-242

/-- mpn_rootrem ({up, un} = U, k), `un = limbLen U`; `wantRem = false` is `remp == NULL`: then only zero / non-zero of
    the second component is returned. -/
def rootrem (U k : Nat) (wantRem : Bool) : Option (Nat × Nat) :=
  let un := limbLen U
  if un < Mpir.Gen.SqrtTabs.rootremThreshold then rootremBasecase U k        -- :86-100
  else if !wantRem && un / k > 2 then                      -- :103
    -- :112-118 pad with k zero limbs; :124 MPN_COPY (rootp, sp + 1, sn - 1)
    (rootremInternal (U * B ^ k) k true).map fun (S, R, _) => (S / B, R)
  else (rootremInternal U k false).map fun (S, R, _) => (S, R)              -- :130

end Mpir.Rootrem
